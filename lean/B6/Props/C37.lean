import B6.Lemmas.Validate
import B6.Lemmas.ValidateEdits
import B6.Lemmas.Validator
import B6.Lemmas.ValidatorUniq
import B6.Lemmas.ValidateLink
import B6.Lemmas.ValidatorWorld
import B6.Props.C15
/-!
# C37 — Every feature in a world is valid

Model: `B6.Model.Validate` (ingest/validate.go; `BasicWorldBuilder.Finish` after
fixes/C37-finish-validate-paths-before-areas.patch; `BasicMutableWorld.AddFeature`; `compact.Validator`).
S2's verdicts on a closed loop (valid? counter-clockwise?) are an `Oracle`.

* `build_all_valid_partial`  every feature of the world built by `Finish` is `valid` in that world — for
                             every source with distinct IDs and every oracle, provided inverting a
                             clockwise loop yields a valid counter-clockwise loop (`invertContract`; S2
                             breaks it for degenerate loops: finding `degenerate_loop`)
* `build_all_valid_no_invert` the same without any assumption on the oracle when clockwise paths are
                             rejected (`FailClockwisePaths`)
* `dangling_area_counterexample`, `finish_old_panics`  the single-pass `Finish` before the repairs keeps an
                             area whose path it deletes, and panics (fatally) on an area over a path whose
                             first point is missing
* `degenerate_loop_counterexample` the remaining class
* `edits_preserve_valid_partial`  an accepted `BasicMutableWorld.AddFeature` keeps every feature valid
* `validator_emits_valid`    `compact.Validator` emits only valid paths and areas over emitted loops, in any order
-/
namespace B6.Props.C37
open B6.Model.Validate B6.Lemmas.Validate B6.Lemmas.ValidateEdits B6.Lemmas.Validator B6.Lemmas.ValidatorUniq B6.Lemmas.ValidateLink B6.Lemmas.ValidatorWorld

theorem validatePath_ok {O : Oracle} {w : World} {refs : List Id} (h : validatePath O w refs = .ok) :
    2 ≤ refs.length ∧ ∃ slots, pathSlots w refs = some slots ∧
      (closedRefs refs = true → (O.loopValid slots.dropLast = true ∧ O.ccw slots.dropLast = true)) := by
  unfold validatePath at h
  split at h
  · cases h
  · rename_i hlen
    refine ⟨by omega, ?_⟩
    split at h
    · cases h
    · rename_i slots hs
      refine ⟨slots, hs, ?_⟩
      intro hc
      simp only [hc, ↓reduceIte] at h
      split at h
      · cases h
      · split at h
        · cases h
        · rename_i h1 h2
          exact ⟨by simpa using h1, by simpa using h2⟩

theorem validatePath_len {O : Oracle} {w : World} {refs : List Id} (h : validatePath O w refs ≠ .invalid) :
    2 ≤ refs.length := by
  unfold validatePath at h
  split at h
  · exact absurd rfl h
  · omega

theorem validatePaths_true {w : World} : ∀ (ids : List Id), validatePaths w ids = some true →
    ∀ pid ∈ ids, ∃ i refs, find w pid = some ⟨i, .path refs⟩ ∧ pathForArea w refs = some true := by
  intro ids
  induction ids with
  | nil => intro _ pid hp; cases hp
  | cons a ids ih =>
    intro h pid hp
    simp only [validatePaths] at h
    split at h
    · rename_i i refs hf
      cases hpa : pathForArea w refs with
      | none => simp [hpa] at h
      | some b =>
        cases b with
        | false => simp [hpa] at h
        | true =>
          simp only [hpa] at h
          rcases List.mem_cons.mp hp with rfl | hp
          · exact ⟨i, refs, hf, hpa⟩
          · exact ih h pid hp
    · cases h
    · cases h

theorem pathForArea_true {w : World} {refs : List Id} (h : pathForArea w refs = some true) :
    3 ≤ refs.length ∧ ∃ a b x, refs.head? = some a ∧ refs.getLast? = some b ∧ locOf w a = some x ∧ locOf w b = some x := by
  unfold pathForArea at h
  split at h
  · cases h
  · rename_i hlen
    refine ⟨by omega, ?_⟩
    split at h
    · rename_i a b ha hb
      split at h
      · rename_i x y hx hy
        injection h with h
        have : x = y := by simpa using h
        subst this
        exact ⟨a, b, x, ha, hb, hx, hy⟩
      · cases h
    · cases h

/-- the core: a source with distinct IDs, built in two stages -/
theorem finish_valid (O : Oracle) (invert : Bool) (src w : World) (hu : Uniq src)
    (hc : invert = true → invertContract O src src = true) (h : finish O invert src = some w) :
    ∀ g ∈ w, valid O w g = true := by
  unfold finish stage at h
  cases h1s : stageOn O invert (fun f => !isArea f) src src with
  | none => simp [h1s] at h
  | some w1 =>
    simp only [h1s] at h
    have h1 := stageOn_img _ _ _ _ _ _ h1s
    have h2 := stageOn_img _ _ _ _ _ _ h
    have hu1 := img_uniq h1 hu
    have hu2 := img_uniq h2 hu1
    have loc1 := img_locOf h1 hu
    have loc2 := img_locOf h2 hu1
    have locw : ∀ id, locOf w id = locOf src id := fun id => by rw [loc2, loc1]
    intro g hg
    obtain ⟨f1, hf1, hk1, hcase⟩ := img_mem h2 g hg
    rcases hcase with ⟨hsel, rfl⟩ | ⟨hsel, hv⟩
    · -- not an area: it survived the first stage
      obtain ⟨f0, hf0, hk0, hcase0⟩ := img_mem h1 g hf1
      rcases hcase0 with ⟨hsel0, rfl⟩ | ⟨_, hv0⟩
      · simp only [Bool.not_eq_eq_eq_not, Bool.not_false] at hsel0
        rw [hsel] at hsel0; cases hsel0
      · cases hgeo : f0.geo with
        | point k =>
          have := hk0.2; simp only [hgeo] at this; subst this
          simp [valid, hgeo]
        | other r =>
          have := hk0.2; simp only [hgeo] at this; subst this
          simp [valid, hgeo]
        | area p =>
          have := hk0.2; simp only [hgeo] at this; subst this
          simp [isArea, hgeo] at hsel
        | path r0 =>
          unfold validateFeature at hv0
          simp only [hgeo] at hv0
          cases hvp : validatePath O src r0 with
          | invalid => simp [hvp] at hv0
          | ok =>
            simp only [hvp] at hv0
            injection hv0 with hv0; injection hv0 with _ hv0; subst hv0
            obtain ⟨hlen, slots, hs, hcl⟩ := validatePath_ok hvp
            simp only [valid, hgeo, pathSlots_congr locw, hs]
            by_cases hclosed : closedRefs r0 = true
            · obtain ⟨ha, hb⟩ := hcl hclosed
              simp [hlen, ha, hb]
            · simp [hlen, hclosed]
          | clockwise =>
            simp only [hvp] at hv0
            cases hinv : invert with
            | false => simp [hinv] at hv0
            | true =>
              simp only [hinv, ↓reduceIte] at hv0
              injection hv0 with hv0; injection hv0 with _ hv0; subst hv0
              have hcon := hc hinv
              simp only [invertContract, List.all_eq_true] at hcon
              have := hcon f0 hf0
              simp only [hgeo, hvp] at this
              have hlen := validatePath_len (O := O) (w := src) (refs := r0) (by rw [hvp]; intro e; cases e)
              cases hs : pathSlots src r0.reverse with
              | none => simp [hs] at this
              | some slots =>
                simp only [hs, Bool.and_eq_true] at this
                simp only [valid, pathSlots_congr locw, hs, List.length_reverse]
                simp [hlen, this.1, this.2]
    · -- an area validated against the survivors of the first stage
      have hsel' := hsel
      cases hgeo : f1.geo with
      | point k => simp [isArea, hgeo] at hsel
      | path r => simp [isArea, hgeo] at hsel
      | other r => simp [isArea, hgeo] at hsel
      | area polys =>
        have := hk1.2; simp only [hgeo] at this; subst this
        unfold validateFeature at hv
        simp only [hgeo] at hv
        cases hva : validateArea w1 polys with
        | none => simp [hva] at hv
        | some b =>
          simp only [hva] at hv
          injection hv with hv; injection hv with hb _; subst hb
          simp only [valid, hgeo, List.all_eq_true]
          intro pid hpid
          obtain ⟨i, refs, hfind, hpa⟩ := validatePaths_true _ hva pid hpid
          obtain ⟨hlen, a, b, x, ha, hb, hxa, hxb⟩ := pathForArea_true hpa
          obtain ⟨hmem, hid⟩ := find_some_mem hfind
          have hkeep : (⟨i, .path refs⟩ : Feat) ∈ w := img_keeps h2 _ hmem (Or.inl (by simp [isArea]))
          have hfw := find_of_mem hu2 hkeep
          simp only at hid
          rw [hid] at hfw
          simp only [areaPathOk, hfw, ha, hb, loc2, hxa, hxb]
          simp [hlen]

/-- **build_all_valid_partial.** Every feature of the world `Finish` builds is valid in that world. -/
theorem build_all_valid_partial (O : Oracle) (invert : Bool) (src w : World) (hu : Uniq src)
    (hc : invert = true → invertContract O src src = true) (h : finish O invert src = some w) :
    allValid O w = true := by
  simp only [allValid, List.all_eq_true]
  exact finish_valid O invert src w hu hc h

/-- with `FailClockwisePaths` no assumption about S2 is needed at all -/
theorem build_all_valid_no_invert (O : Oracle) (src w : World) (hu : Uniq src)
    (h : finish O false src = some w) : allValid O w = true :=
  build_all_valid_partial O false src w hu (by intro e; cases e) h

/-- the full statement (no side condition on the oracle) -/
def build_all_valid_statement : Prop :=
  ∀ (O : Oracle) (invert : Bool) (src w : World), Uniq src → finish O invert src = some w → allValid O w = true

/-! ### witnesses -/

/-- every loop is valid and counter-clockwise -/
def niceOracle : Oracle := ⟨fun _ => true, fun _ => true⟩

def pt (v k : Nat) : Feat := ⟨(0, v), .point (some k)⟩

/-- points 1,2,3; path 10 = [1,2,3,4,1] (point 4 missing); area 20 over path 10 -/
def danglingSrc : World :=
  [pt 1 1, pt 2 2, pt 3 3, ⟨(1, 10), .path [(0, 1), (0, 2), (0, 3), (0, 4), (0, 1)]⟩, ⟨(2, 20), .area [[(1, 10)]]⟩]

/-- **dangling_area_counterexample.** Before the repair the single pass accepts area 20 while path 10
still exists, then deletes path 10: the built world contains an invalid area. After the repair the
area is dropped and the world is valid. -/
theorem dangling_area_counterexample :
    finishOld niceOracle true danglingSrc = some [pt 1 1, pt 2 2, pt 3 3, ⟨(2, 20), .area [[(1, 10)]]⟩] ∧
    (∃ w, finishOld niceOracle true danglingSrc = some w ∧ allValid niceOracle w = false) ∧
    finish niceOracle true danglingSrc = some [pt 1 1, pt 2 2, pt 3 3] := by
  refine ⟨by decide, ⟨[pt 1 1, pt 2 2, pt 3 3, ⟨(2, 20), .area [[(1, 10)]]⟩], by decide, by decide⟩, by decide⟩

/-- … and when the FIRST point of the path is missing, validating the area panics (fatal in a
goroutine of `Finish`); after the repair the path is gone before the area is looked at. -/
theorem finish_old_panics :
    finishOld niceOracle true [pt 2 2, pt 3 3, ⟨(1, 10), .path [(0, 1), (0, 2), (0, 3), (0, 1)]⟩, ⟨(2, 20), .area [[(1, 10)]]⟩] = none ∧
    finish niceOracle true [pt 2 2, pt 3 3, ⟨(1, 10), .path [(0, 1), (0, 2), (0, 3), (0, 1)]⟩, ⟨(2, 20), .area [[(1, 10)]]⟩] = some [pt 2 2, pt 3 3] := by
  decide

/-- non-vacuity of `build_all_valid_partial`: a source with a clockwise loop that inversion repairs -/
def cwOracle : Oracle := ⟨fun _ => true, fun l => decide (l = [1, 2, 3] ∨ l = [3, 1, 2])⟩
def cwSrc : World := [pt 1 1, pt 2 2, pt 3 3, ⟨(1, 10), .path [(0, 3), (0, 2), (0, 1), (0, 3)]⟩, ⟨(2, 20), .area [[(1, 10)]]⟩]
example : Uniq cwSrc ∧ invertContract cwOracle cwSrc cwSrc = true ∧
    finish cwOracle true cwSrc = some [pt 1 1, pt 2 2, pt 3 3, ⟨(1, 10), .path [(0, 3), (0, 1), (0, 2), (0, 3)]⟩, ⟨(2, 20), .area [[(1, 10)]]⟩] := by
  refine ⟨by unfold Uniq; decide, by decide, by decide⟩

/-- S2 on a loop through two coinciding points: valid, and "clockwise" in both directions -/
def degenerateOracle : Oracle := ⟨fun _ => true, fun _ => false⟩
def degenerateSrc : World :=
  [pt 1 25, pt 3 6, pt 5 5, pt 6 6, ⟨(1, 12), .path [(0, 1), (0, 3), (0, 5), (0, 6), (0, 1)]⟩]

/-- **degenerate_loop_counterexample** (finding `degenerate_loop`): the path is inverted and kept although
it is still clockwise by the test that condemned it; the unconditional statement is false. -/
theorem degenerate_loop_counterexample :
    invertContract degenerateOracle degenerateSrc degenerateSrc = false ∧
    ∃ w, finish degenerateOracle true degenerateSrc = some w ∧ allValid degenerateOracle w = false :=
  ⟨by decide, [pt 1 25, pt 3 6, pt 5 5, pt 6 6, ⟨(1, 12), .path [(0, 1), (0, 6), (0, 5), (0, 3), (0, 1)]⟩], by decide, by decide⟩

theorem build_all_valid_statement_false : ¬ build_all_valid_statement := by
  intro h
  obtain ⟨_, w, h1, h2⟩ := degenerate_loop_counterexample
  have := h degenerateOracle true degenerateSrc w (by unfold Uniq; decide) h1
  rw [h2] at this; cases this

/-- the statement about edits (`BasicMutableWorld.AddFeature`): an accepted edit keeps every feature
valid. -/
def edits_preserve_valid_statement : Prop :=
  ∀ (O : Oracle) (w w' : World) (f : Feat), Uniq w → allValid O w = true →
    (match addFeature O w f with | .ok x => x = w' | _ => False) → allValid O w' = true

/-- **edits_preserve_valid_partial.** If every feature of `w` is valid and `AddFeature(f)` is accepted,
every feature of the resulting world is valid — for all worlds, features and oracles — given that a
replacement keeps the kind of the feature it replaces (IDs carry the feature type; type 9 is the model's
marker for inline path points, never a feature). The referrers
that `AddFeature` re-validates are the set C15's `find_refs_spec` guarantees: closed under
"references a member" (the model's `referrers` answers only with a set it has found closed). -/
theorem edits_preserve_valid_partial (O : Oracle) (w w' : World) (f : Feat) (hu : Uniq w)
    (hv : allValid O w = true)
    (hk : ∀ g ∈ w, g.id = f.id → sameCtor g f = true) (hfid : f.id.1 ≠ 9)
    (h : addFeature O w f = .ok w') : allValid O w' = true := by
  simp only [allValid, List.all_eq_true] at hv ⊢
  exact edits_valid O w w' f hu hv hk hfid h

/-- **overlay_edits_preserve_valid_partial.** The same for `MutableOverlayWorld.AddFeature`, seen through
the layered view `w`: the referrers `R` it re-validates come from the world's own `FindReferences`; if
that set is closed under "references a member" in `w` — which C15's `overlay_history_query` gives for
every edit history: `R` is exactly the set of transitive referrers — an accepted edit keeps every
feature of the layered world valid. -/
theorem overlay_edits_preserve_valid_partial (O : Oracle) (w w' : World) (f : Feat) (R : List Id) (hu : Uniq w)
    (hv : allValid O w = true)
    (hk : ∀ g ∈ w, g.id = f.id → sameCtor g f = true) (hfid : f.id.1 ≠ 9)
    (hcl : closedSet w f.id R = true)
    (h : addFeatureWith O w f R = .ok w') : allValid O w' = true := by
  simp only [allValid, List.all_eq_true] at hv ⊢
  exact edits_valid_with O w w' f R hu hv hk hfid hcl h

/-- **overlay_edits_preserve_valid.** The two skeletons composed. Take a `MutableOverlayWorld` (C15's model)
after ANY history `ops` of `AddFeature` / `Snapshot` over a base with distinct IDs, and let `w` be a
validation-skeleton view of its current features (`hview`: same features, references = `refsOf`). The
referrers `R` that its `FindReferences(f.id)` returns are — by C15 `overlay_history_query` — exactly the
transitive referrers, so re-validating them suffices: an accepted `AddFeature(f)` keeps every feature
of the layered world valid. No hypothesis about the referrer set is left. -/
theorem overlay_edits_preserve_valid (O : Oracle) (base : List B6.Model.RefIndex.Feature)
    (hb : (base.map (·.id)).Nodup) (ops : List B6.Lemmas.RefWorld.OOp)
    (w w' : World) (f : Feat) (hu : Uniq w) (hv : allValid O w = true)
    (hk : ∀ g ∈ w, g.id = f.id → sameCtor g f = true) (hfid : f.id.1 ≠ 9) :
    ∃ o R, B6.Lemmas.RefWorld.runOOps ⟨base, [], []⟩ ops = some o ∧ o.find f.id [] = some R ∧
      ((∀ g, g ∈ o.merged ↔ g ∈ view w) → addFeatureWith O w f R = .ok w' → allValid O w' = true) := by
  obtain ⟨o, R, ho, hR, _, hspec⟩ := B6.Props.C15.overlay_history_query base hb ops f.id []
  refine ⟨o, R, ho, hR, ?_⟩
  intro hview h
  have hcl : closedSet w f.id R = true := by
    apply closed_of_reach
    intro s
    rw [hspec s, reach_congr hview]
    simp [B6.Model.RefIndex.typeOk]
  exact overlay_edits_preserve_valid_partial O w w' f R hu hv hk hfid hcl h

/-- non-vacuity: moving point 2 under a closed path and its area is accepted and keeps the world valid -/
def editW : World := [pt 1 1, pt 2 2, pt 3 3, ⟨(1, 10), .path [(0, 1), (0, 2), (0, 3), (0, 1)]⟩, ⟨(2, 20), .area [[(1, 10)]]⟩]
example : Uniq editW ∧ allValid niceOracle editW = true ∧ referrers editW (0, 2) = some [(1, 10), (2, 20)] ∧
    (∀ g ∈ editW, g.id = (pt 2 26).id → sameCtor g (pt 2 26) = true) ∧
    (match addFeature niceOracle editW (pt 2 26) with | .ok _ => true | _ => false) = true ∧
    closedSet editW (0, 2) [(1, 10), (2, 20)] = true ∧
    (match addFeatureWith niceOracle editW (pt 2 26) [(1, 10), (2, 20)] with | .ok _ => true | _ => false) = true := by
  refine ⟨by unfold Uniq; decide, by decide, by decide, by decide, by decide, by decide, by decide⟩

/-- **validator_emits_valid.** `compact.Validator`, fed the paths and areas of a source in ANY order:
every path it emits is valid with respect to the point locations, and every area it emits names only
paths that it has emitted as closed loops of at least three points — provided inversion repairs
clockwise loops (`featContract`, the per-feature form of `invertContract`). -/
theorem validator_emits_valid (O : Oracle) (pts : World) (src : List Feat)
    (hc : ∀ f ∈ src, featContract O pts f) :
    let out := (Validator.run O ⟨pts, [], []⟩ src).2
    (∀ i refs, (⟨i, .path refs⟩ : Feat) ∈ out → valid O pts ⟨i, .path refs⟩ = true) ∧
    (∀ i polys, (⟨i, .area polys⟩ : Feat) ∈ out → ∀ pid ∈ polys.flatten,
        ∃ refs, (⟨pid, .path refs⟩ : Feat) ∈ out ∧ isLoop pts refs = true) := by
  have hE : Emitted O pts [] := ⟨fun i r h => (by cases h), fun i p h => (by cases h)⟩
  have := run_inv O pts src ⟨pts, [], []⟩ [] rfl
    (by intro id hid; simp [Validator.state] at hid) hE hc
  rw [List.nil_append] at this
  exact this

/-- **validator_emits_once.** When the IDs of the stream are distinct, no ID is emitted twice (an area
leaves the queue when it is emitted; a path is emitted by its own `ValidatePath` call only). -/
theorem validator_emits_once (O : Oracle) (pts : World) (src : List Feat) (hu : (src.map (·.id)).Nodup) :
    ((Validator.run O ⟨pts, [], []⟩ src).2.map (·.id)).Nodup :=
  run_nodup O pts src hu

/-- **compact_world_valid.** `validator_emits_valid` and `validator_emits_once` composed: the world a compact
build ends up with — the point features `pts` plus everything the validator emitted from the stream
`src` of paths, areas and relations (any order; IDs of `pts ++ src` distinct) — has distinct IDs, and
every feature it yields is `valid` IN THAT WORLD (same inversion contract). -/
theorem compact_world_valid (O : Oracle) (pts src : List Feat)
    (hpts : ∀ p ∈ pts, ∃ l, p.geo = .point l) (hsrc : ∀ f ∈ src, ∀ l, f.geo ≠ .point l)
    (hu : Uniq (pts ++ src)) (hc : ∀ f ∈ src, featContract O pts f) :
    Uniq (pts ++ (Validator.run O ⟨pts, [], []⟩ src).2) ∧
    allValid O (pts ++ (Validator.run O ⟨pts, [], []⟩ src).2) = true := by
  obtain ⟨h1, h2⟩ := validator_world_valid O pts src hpts hsrc hu hc
  exact ⟨h1, by simp only [allValid, List.all_eq_true]; exact h2⟩

/-- non-vacuity: an area fed before its path is emitted once the path has been seen -/
example : (Validator.run niceOracle ⟨[pt 1 1, pt 2 2, pt 3 3], [], []⟩
    [⟨(2, 20), .area [[(1, 10)]]⟩, ⟨(1, 10), .path [(0, 1), (0, 2), (0, 3), (0, 1)]⟩]).2 =
    [⟨(1, 10), .path [(0, 1), (0, 2), (0, 3), (0, 1)]⟩, ⟨(2, 20), .area [[(1, 10)]]⟩] := by decide

end B6.Props.C37
