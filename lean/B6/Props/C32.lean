import B6.Model.GeoJSON
import B6.Lemmas.GeoJSON
/-!
# C32 — GeoJSON geometry round-trips and imports faithfully

Theorems about `B6.Model.GeoJSON` (geojson/geojson.go marshal / unmarshal structure, `AddFeatures.FillFromGeoJSON`
and `AddFeatures.Apply` of ingest/change.go); coordinates are opaque atoms.

* `geojson_struct_roundtrip`       — every geometry of the six types, any sizes: `unmarshal (marshal g) = g`
  (nesting, order and the lng/lat order of positions preserved).
* `geojson_doc_roundtrip`          — the same through `geojson.Unmarshal` for bare geometries, features and feature
  collections (repaired code); `unmarshal_multilinestring_counterexample` — the `type` switch before
  fixes/C32-unmarshal-multilinestring.patch rejected a bare MultiLineString.
* `import_one_per_feature_statement` — the full demand: every feature of a collection of well-shaped geometries is
  in the world exactly once, under its index, with its geometry and properties.
  **False on the code**: `import_multipoint_counterexample`, `import_multilinestring_counterexample` (no case in
  `fillFromFeature`: the feature is silently dropped) and `import_reserved_key_before_fix_counterexample` (before `fixes/C32-reserved-property-keys.patch` a LineString with a
  property called `point` fails path validation and aborts the import).
* `import_one_per_feature_partial` — the statement holds for every collection without those two classes
  (`importable` — the predicate the driver uses for `class=multi-geometry-dropped`; the former class
  `reserved-property-key` is repaired).
-/
namespace B6.Props.C32
open B6.Model.GeoJSON B6.Lemmas.GeoJSON

/-! ## marshal / unmarshal -/

/-- **C32, round trip.** -/
theorem geojson_struct_roundtrip {ν : Type} (g : Geom ν) : unmarshalGeometry (marshalGeometry g) = some g := by
  have hc : ∀ c : Coord ν, parseCoord (coordJ c) = some c := parseCoord_coordJ
  have h1 : ∀ cs : List (Coord ν), parseList parseCoord (listJ coordJ cs) = some cs :=
    parseList_listJ coordJ parseCoord hc
  have h2 : ∀ ls : List (List (Coord ν)), parseList (parseList parseCoord) (listJ (listJ coordJ) ls) = some ls :=
    parseList_listJ (listJ coordJ) (parseList parseCoord) h1
  have h3 : ∀ ps : List (List (List (Coord ν))),
      parseList (parseList (parseList parseCoord)) (listJ (listJ (listJ coordJ)) ps) = some ps :=
    parseList_listJ (listJ (listJ coordJ)) (parseList (parseList parseCoord)) h2
  cases g <;> simp [unmarshalGeometry, marshalGeometry, Geom.typeName, hc, h1, h2, h3]

example : marshalGeometry (.polygon [[⟨1, 2⟩, ⟨3, 4⟩, ⟨5, 6⟩, ⟨1, 2⟩]] : Geom Nat) =
    { typ := "Polygon", coords := .arr [.arr [.arr [.num 2, .num 1], .arr [.num 4, .num 3], .arr [.num 6, .num 5], .arr [.num 2, .num 1]]] } := rfl

theorem unmarshalFeature_marshalFeature {ν : Type} (f : Feature ν) : unmarshalFeature (marshalFeature f) = some f := by
  simp [unmarshalFeature, marshalFeature, geojson_struct_roundtrip]

theorem typeName_mem {ν : Type} (g : Geom ν) : (marshalGeometry g).typ ∈ topLevelGeometryTypes := by
  cases g <;> simp [marshalGeometry, Geom.typeName, topLevelGeometryTypes]

/-- **C32, round trip through `geojson.Unmarshal`** (geometry, feature, feature collection). -/
theorem geojson_doc_roundtrip {ν : Type} (d : Doc ν) : unmarshalDoc (marshalDoc d) = some d := by
  cases d with
  | geometry g => simp [unmarshalDoc, unmarshalDocWith, marshalDoc, typeName_mem, geojson_struct_roundtrip]
  | feature f => simp [unmarshalDoc, unmarshalDocWith, marshalDoc, unmarshalFeature_marshalFeature]
  | collection fs =>
    simp [unmarshalDoc, unmarshalDocWith, marshalDoc,
      mapOpt_map marshalFeature unmarshalFeature unmarshalFeature_marshalFeature fs]

example : marshalDoc (.collection [{ geom := .multiPoint [⟨1, 2⟩], props := [("a", "b")] }] : Doc Nat) =
    .collection [{ geom := { typ := "MultiPoint", coords := .arr [.arr [.num 2, .num 1]] }, props := [("a", "b")] }] := rfl

/-- before the repair a bare MultiLineString did not come back -/
theorem unmarshal_multilinestring_counterexample :
    (unmarshalDocWith topLevelGeometryTypesOld
      (marshalDoc (.geometry (.multiLineString [[⟨1, 2⟩, ⟨3, 4⟩]]) : Doc Nat))).isNone = true := by decide

/-! ## import -/

/-- the property as stated: for every collection of well-shaped geometries (line strings of two or more positions,
no empty ring) with map-like properties, the import adds one feature per GeoJSON feature — found under the feature's
index, exactly once, with the same geometry and the same properties. -/
def import_one_per_feature_statement : Prop :=
  ∀ (fs : List (Feature Int)), (∀ f ∈ fs, wellShaped f.geom = true ∧ (f.props.map (·.1)).Nodup) →
    ∃ w, importCollection fs = some w ∧ w.length = fs.length ∧
      ∀ (i : Nat) (h : i < fs.length), importedFaithfully w fs[i] i = true

/-- a MultiPoint and a Point: one feature of two is imported (DESIGN §7) -/
def exMultiPoint : List (Feature Int) :=
  [{ geom := .multiPoint [⟨515000000, 5000000⟩, ⟨512500000, 2500000⟩], props := [("a", "b")] },
   { geom := .point ⟨515000000, 5000000⟩, props := [("a", "b")] }]

theorem import_multipoint_counterexample : ¬ import_one_per_feature_statement := by
  intro h
  obtain ⟨w, hw, hl, _⟩ := h exMultiPoint (by decide)
  have h1 : (importCollection exMultiPoint).map (·.length) = some 1 := by decide
  rw [hw] at h1
  simp only [Option.map_some, Option.some.injEq] at h1
  rw [h1] at hl
  exact absurd hl (by decide)

def exMultiLineString : List (Feature Int) :=
  [{ geom := .multiLineString [[⟨515000000, 5000000⟩, ⟨512500000, 2500000⟩]], props := [] }]

theorem import_multilinestring_counterexample :
    (importCollection exMultiLineString).map (·.length) = some 0 ∧ exMultiLineString.length = 1 := by decide

/-- a LineString with a property named `point`. Before `fixes/C32-reserved-property-keys.patch` the key was kept:
validation saw a 1-point path and the import stopped; now the property is stored as `geojson:point` and the feature
is imported faithfully. -/
def exReservedKey : List (Feature Int) :=
  [{ geom := .lineString [⟨20000000, 10000000⟩, ⟨40000000, 30000000⟩], props := [("point", "zz")] }]

theorem import_reserved_key_before_fix_counterexample :
    (∃ x, fillFromFeatureRaw exReservedKey[0] 0 = .added x ∧ valid x = false) ∧
    (∃ y, fillFromFeature exReservedKey[0] 0 = .added y ∧ valid y = true) ∧
    (importCollection exReservedKey).map (·.length) = some 1 ∧
    (importCollection exReservedKey).map (fun w => importedFaithfully w exReservedKey[0] 0) = some true := by
  refine ⟨⟨_, rfl, by decide⟩, ⟨_, rfl, by decide⟩, by decide, by decide⟩

/-- **C32, import (partial).** For every collection (any atoms for coordinates) whose features are well shaped and
importable (no MultiPoint / MultiLineString), with map-like properties (distinct stored keys), the import adds
exactly one feature per GeoJSON feature, under its index, with the same geometry (rings without their closing
position) and every property readable under its key (`geojson:point` / `geojson:path` for the two reserved keys). -/
theorem import_one_per_feature_partial {ν : Type} [DecidableEq ν] (fs : List (Feature ν))
    (hshape : ∀ f ∈ fs, wellShaped f.geom = true ∧ (f.props.map fun kv => storedKey kv.1).Nodup)
    (hclass : ∀ f ∈ fs, importable f.geom = true) :
    ∃ w, importCollection fs = some w ∧ w.length = fs.length ∧
      ∀ (i : Nat) (h : i < fs.length), importedFaithfully w fs[i] i = true := by
  have hgood : ∀ f ∈ fs, Good (stored f) := fun f hf =>
    good_stored f (hshape f hf).1 (hclass f hf) (hshape f hf).2
  have hgood' : ∀ g ∈ fs.map stored, Good g := by
    intro g hg
    obtain ⟨f, hf, rfl⟩ := List.mem_map.mp hg
    exact hgood f hf
  refine ⟨imp (fs.map stored) 0, ?_, by simp [imp_length], fun i h => ?_⟩
  · simp [importCollection, fillFromGeoJSON, fillFrom_good fs 0 hgood, applyAll_good (fs.map stored) 0 hgood']
  · have := imp_faithful (fs.map stored) i (by simpa using h) hgood'
    simpa [importedFaithfully] using this

/-- the hypotheses are satisfiable by a collection with all four importable kinds, a hole and properties -/
def exGood : List (Feature Int) :=
  [{ geom := .point ⟨515000000, -1250000⟩, props := [("name", "x")] },
   { geom := .lineString [⟨1, 2⟩, ⟨3, 4⟩, ⟨1, 2⟩], props := [("bridge", "yes"), ("point", "y"), ("path", "z")] },
   { geom := .polygon [[⟨0, 0⟩, ⟨0, 10⟩, ⟨10, 10⟩, ⟨0, 0⟩], [⟨2, 4⟩, ⟨4, 6⟩, ⟨2, 6⟩, ⟨2, 4⟩]], props := [("point", "p")] },
   { geom := .multiPolygon [[[⟨0, 0⟩, ⟨0, 1⟩, ⟨1, 1⟩]], [[⟨5, 5⟩, ⟨5, 6⟩, ⟨6, 6⟩, ⟨5, 5⟩]]], props := [] }]

example : (∀ f ∈ exGood, wellShaped f.geom = true ∧ (f.props.map fun kv => storedKey kv.1).Nodup) ∧
    (∀ f ∈ exGood, importable f.geom = true) := by decide

example : (importCollection exGood).map (fun w => w.map fun x => (x.ftype, x.id, observe x)) =
    some [(.point, 0, .point ⟨515000000, -1250000⟩), (.path, 1, .path [⟨1, 2⟩, ⟨3, 4⟩, ⟨1, 2⟩]),
          (.area, 2, .area [[[⟨0, 0⟩, ⟨0, 10⟩, ⟨10, 10⟩], [⟨2, 4⟩, ⟨4, 6⟩, ⟨2, 6⟩]]]),
          (.area, 3, .area [[[⟨0, 0⟩, ⟨0, 1⟩, ⟨1, 1⟩]], [[⟨5, 5⟩, ⟨5, 6⟩, ⟨6, 6⟩]]])] := by decide

end B6.Props.C32
