/-! C32 — property theorems (stub: nothing proved yet). -/
