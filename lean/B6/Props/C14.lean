/-! C14 — property theorems (stub: nothing proved yet). -/
