import B6.Lemmas.MutableRoot
/-!
# C14 — Snapshots never change after they are taken

Model: `Store` = a root world and the stack of `MutableOverlayWorld` states (live object first, then
the snapshots it was taken over).  `Snapshot()` is `copy := *m; copy.index = {same postings, features:
&copy}; m.base = &copy; m.features/references/tags/index := fresh` (mutable.go after
`fixes/C14-snapshot-index-resolves-via-snapshot.patch`): the live object's state is frozen under a new
handle and the live object continues in an empty layer on top.  The one piece of aliasing that a struct
copy leaves behind — the index's `features` back-pointer to the live object — is part of the model
(`Layer.aliasLive`): `Store.snapshot` clears it (the repaired code), `Store.snapshotAliased` keeps it
(the code before the repair), and `snapshot_index_alias_counterexample` shows that the model does
distinguish the two.  `TagsStore` is `MutableTagsOverlayWorld`.
-/
namespace B6.Props.C14
open B6.Model.Mutable

/-- operations on a store: an edit of the live world, or another (nested) snapshot -/
inductive StoreOp where
  | edit (op : Op)
  | snapshot

def Store.apply (o : Oracle) (s : Store) : StoreOp → Store
  | .edit op => (s.step o op).1
  | .snapshot => s.snapshot.1

def Store.run (o : Oracle) (s : Store) (ops : List StoreOp) : Store := ops.foldl (Store.apply o) s

/-- no frozen layer's index points at the live object -/
def NoAlias (ls : List Layer) : Prop := ∀ l ∈ ls, l.aliasLive = false

theorem layer_view_noalias (b : View) (l : Layer) (h : l.aliasLive = false) (ll1 ll2 : Id → Option Pt) :
    l.view b ll1 = l.view b ll2 := by
  simp only [Layer.view, View.mk.injEq, true_and, and_true]
  funext id
  simp [Layer.hitFV, h]

/-- a stack of worlds none of which aliases the live object does not depend on the live object -/
theorem viewOf_noalias (root : View) (ls : List Layer) (h : NoAlias ls) (ll1 ll2 : Id → Option Pt) :
    viewOf root ll1 ls = viewOf root ll2 ls := by
  induction ls with
  | nil => rfl
  | cons l below ih =>
    simp only [viewOf]
    rw [ih (fun x hx => h x (List.mem_cons_of_mem _ hx)), layer_view_noalias _ l (h l List.mem_cons_self) ll1 ll2]

/-- the frozen part of a store: the `frozen` layers at the bottom, at least one layer on top -/
def Extends (s : Store) (root : View) (frozen : List Layer) : Prop :=
  s.root = root ∧ ∃ pre, pre ≠ [] ∧ s.layers = pre ++ frozen

theorem step_layers (o : Oracle) (s : Store) (p : Layer) (rest : List Layer) (op : Op) (h : s.layers = p :: rest) :
    (s.step o op).1.root = s.root ∧ (s.step o op).1.layers = (p.step s.baseView o op).1 :: rest := by
  simp [Store.step, h]

theorem extends_apply {o : Oracle} {s : Store} {root : View} {frozen : List Layer} (h : Extends s root frozen)
    (op : StoreOp) : Extends (Store.apply o s op) root frozen := by
  obtain ⟨hr, pre, hne, hl⟩ := h
  cases pre with
  | nil => exact absurd rfl hne
  | cons p ps =>
    cases op with
    | edit op =>
      obtain ⟨h1, h2⟩ := step_layers o s p (ps ++ frozen) op (by simpa using hl)
      exact ⟨by simp only [Store.apply]; rw [h1, hr], (p.step s.baseView o op).1 :: ps, by simp,
             by simp only [Store.apply]; rw [h2]; simp⟩
    | snapshot =>
      simp only [Store.apply, Store.snapshot, hl, List.cons_append]
      exact ⟨hr, Layer.empty :: { p with aliasLive := false } :: ps, by simp, by simp⟩

theorem extends_run {o : Oracle} {root : View} {frozen : List Layer} (ops : List StoreOp) :
    ∀ s : Store, Extends s root frozen → Extends (Store.run o s ops) root frozen := by
  induction ops with
  | nil => intro s h; exact h
  | cons op rest ih => intro s h; exact ih _ (extends_apply h op)

theorem snap_of_extends {s : Store} {root : View} {frozen : List Layer} (h : Extends s root frozen)
    (hn : NoAlias frozen) (ll : Id → Option Pt) :
    s.snap frozen.length = viewOf root ll frozen := by
  obtain ⟨hr, pre, _, hl⟩ := h
  unfold Store.snap
  rw [hl, hr]
  have : (pre ++ frozen).length - frozen.length = pre.length := by simp
  rw [this, List.drop_left]
  exact viewOf_noalias root frozen hn _ _

/-- **Snapshots are frozen.** Take a snapshot of any store whose older snapshots are alias-free; then
apply any sequence of edits (accepted or rejected) and further snapshots to the live world: the
snapshot — every lookup, tag, location, search result and what it is wrapped as, reference list and
enumeration, i.e. the whole `View` — is the same function as at the moment it was taken. -/
theorem snapshot_frozen (o : Oracle) (s : Store) (l : Layer) (below : List Layer)
    (hs : s.layers = l :: below) (hn : NoAlias below) (ops : List StoreOp) :
    (Store.run o s.snapshot.1 ops).snap s.snapshot.2 = s.snapshot.1.snap s.snapshot.2 := by
  have hsnap : s.snapshot = ({ s with layers := Layer.empty :: { l with aliasLive := false } :: below }, below.length + 1) := by
    simp [Store.snapshot, hs]
  rw [hsnap]
  simp only
  let frozen := { l with aliasLive := false } :: below
  have hfr : NoAlias frozen := by
    intro x hx
    rcases List.mem_cons.1 hx with rfl | hx
    · rfl
    · exact hn x hx
  have hlen : below.length + 1 = frozen.length := by simp [frozen]
  have h0 : Extends { s with layers := Layer.empty :: frozen } s.root frozen :=
    ⟨rfl, [Layer.empty], by simp, rfl⟩
  have h1 := extends_run (o := o) ops _ h0
  rw [hlen, snap_of_extends h1 hfr (fun _ => none), snap_of_extends h0 hfr (fun _ => none)]

theorem layer_loc_congr {b1 b2 : View} (h : b1.loc = b2.loc) (l : Layer) : l.loc b1 = l.loc b2 := by
  funext i; simp [Layer.loc, h]

theorem layer_find_congr {b1 b2 : View} (hf : b1.find = b2.find) (hl : b1.loc = b2.loc) (l : Layer) :
    l.find b1 = l.find b2 := by
  funext i; simp [Layer.find, hf, layer_loc_congr hl]

/-- lookups and locations never consult the index back-pointer -/
theorem viewOf_find_loc (root : View) (ll1 ll2 : Id → Option Pt) : ∀ ys : List Layer,
    (viewOf root ll1 ys).find = (viewOf root ll2 ys).find ∧ (viewOf root ll1 ys).loc = (viewOf root ll2 ys).loc := by
  intro ys
  induction ys with
  | nil => exact ⟨rfl, rfl⟩
  | cons y ys ih =>
    exact ⟨layer_find_congr ih.1 ih.2 y, layer_loc_congr ih.2 y⟩

theorem tagOf_empty_layer (b : View) (ll : Id → Option Pt) (id : Id) (k : Key) :
    tagOf (Layer.empty.view b ll) id k = tagOf b id k := by
  rw [tagOf_view, layerTag_none (by simp [Layer.empty])]
  simp only [Layer.empty, modsOf, AMap.get_nil, modLookup]
  cases tagOf b id k <;> rfl

/-- taking the snapshot does not change what the live world shows (tags and existence) -/
theorem snapshot_keeps_live (s : Store) (l : Layer) (below : List Layer) (hs : s.layers = l :: below)
    (id : Id) (k : Key) : tagOf s.snapshot.1.live id k = tagOf s.live id k := by
  simp only [Store.snapshot, hs, Store.live, viewOf]
  rw [tagOf_empty_layer]
  simp only [tagOf, find_view]
  have h1 := (viewOf_find_loc s.root (locOf s.root (Layer.empty :: { l with aliasLive := false } :: below))
    (locOf s.root (l :: below)) below)
  rw [layer_find_congr h1.1 h1.2]
  rfl

/-! ## The defect the repair removed, in the model -/

def exRoot : List Feature := [⟨1, [], .point (0, 0)⟩, ⟨2, [], .point (0, 10)⟩]
def exOracle : Oracle := ⟨fun _ => true, fun _ => false⟩
/-- live world: an overlay path 1009 = [1,2] tagged `#highway=pub` -/
def exStore : Store :=
  (Store.step exOracle ⟨rootView exRoot, [Layer.empty]⟩
    (.addFeature ⟨1009, [("#highway", ⟨"s", "pub"⟩)], .path [1, 2]⟩)).1
/-- then point 1 is moved in the live world -/
def exMove : Op := .addFeature ⟨1, [], .point (5, 5)⟩

/-- with the index left pointing at the live object (`copy := *m` alone), the path a search of the
snapshot returns resolves its first point through the later edit: the snapshot changed -/
theorem snapshot_index_alias_counterexample :
    (exStore.snapshotAliased.1.snap 1).hitFV 1009 ≠
      ((Store.step exOracle exStore.snapshotAliased.1 exMove).1.snap 1).hitFV 1009 := by
  decide

/-- … while with the repaired `Snapshot()` the same history leaves it alone (an instance of
`snapshot_frozen`, here by evaluation), and the live world shows the move -/
example :
    (exStore.snapshot.1.snap 1).hitFV 1009 = ((Store.step exOracle exStore.snapshot.1 exMove).1.snap 1).hitFV 1009 ∧
    (exStore.snapshot.1.snap 1).hitFV 1009 = some ⟨⟨1009, [("#highway", ⟨"s", "pub"⟩)], .path [1, 2]⟩, some [(0, 0), (0, 10)]⟩ ∧
    ((Store.step exOracle exStore.snapshot.1 exMove).1.live).loc 1 = some (5, 5) := by
  decide

/-- the hypotheses of `snapshot_frozen` hold for `exStore` -/
example : ∃ l, exStore.layers = l :: [] ∧ NoAlias ([] : List Layer) := by
  refine ⟨_, rfl, ?_⟩
  intro l hl; cases hl

/-! ## `MutableTagsOverlayWorld` -/

inductive TagsOp where
  | addTag (id : Id) (t : Tag)
  | snapshot

def TagsStore.apply (s : TagsStore) : TagsOp → TagsStore
  | .addTag id t => s.addTag id t
  | .snapshot => s.snapshot.1

def TagsStore.run (s : TagsStore) (ops : List TagsOp) : TagsStore := ops.foldl TagsStore.apply s

def TExtends (s : TagsStore) (root : View) (frozen : List (List (Id × Mods))) : Prop :=
  s.root = root ∧ ∃ pre, pre ≠ [] ∧ s.layers = pre ++ frozen

theorem textends_apply {s : TagsStore} {root : View} {frozen : List (List (Id × Mods))} (h : TExtends s root frozen)
    (op : TagsOp) : TExtends (TagsStore.apply s op) root frozen := by
  obtain ⟨hr, pre, hne, hl⟩ := h
  cases pre with
  | nil => exact absurd rfl hne
  | cons p ps =>
    cases op with
    | addTag id t =>
      simp only [TagsStore.apply, TagsStore.addTag, hl, List.cons_append]
      exact ⟨hr, modsSet p id t.1 (.set t.2) :: ps, by simp, by simp⟩
    | snapshot =>
      simp only [TagsStore.apply, TagsStore.snapshot, hl]
      exact ⟨hr, [] :: p :: ps, by simp, by simp⟩

/-- **Snapshots of a tags overlay are frozen**: any later `AddTag`s and snapshots leave every lookup of
the snapshot as it was. -/
theorem tags_snapshot_frozen (s : TagsStore) (ops : List TagsOp) :
    (TagsStore.run s.snapshot.1 ops).snap s.snapshot.2 = s.snapshot.1.snap s.snapshot.2 := by
  have h0 : TExtends s.snapshot.1 s.root s.layers := ⟨rfl, [[]], by simp, by simp [TagsStore.snapshot]⟩
  have h1 : TExtends (TagsStore.run s.snapshot.1 ops) s.root s.layers := by
    unfold TagsStore.run
    generalize s.snapshot.1 = s0 at h0
    induction ops generalizing s0 with
    | nil => exact h0
    | cons op rest ih => exact ih _ (textends_apply h0 op)
  have key : ∀ s' : TagsStore, TExtends s' s.root s.layers → s'.snap s.layers.length = tagsFind s.root s.layers := by
    intro s' h
    obtain ⟨hr, pre, _, hl⟩ := h
    unfold TagsStore.snap
    rw [hl, hr]
    have : (pre ++ s.layers).length - s.layers.length = pre.length := by simp
    rw [this, List.drop_left]
  show (TagsStore.run s.snapshot.1 ops).snap s.layers.length = s.snapshot.1.snap s.layers.length
  rw [key _ h1, key _ h0]

end B6.Props.C14
