/-! C16 — property theorems (stub: nothing proved yet). -/
