import B6.Lemmas.OverlayWorld
import B6.Lemmas.OverlayBfs
/-!
# C16 — Overlay worlds shadow the base consistently

Model: `B6.Model.OverlayWorld` (ingest/overlay.go `overlayFeatures`, `OverlayWorld`; the same iterator
serves `MutableOverlayWorld.FindFeatures`), mirroring the code after the repairs in
/verif/fixes/C16-*.patch.

* `overlay_merge`     search: for sorted duplicate-free inputs whose overlay IDs are in the filter, the
                      iterator terminates and yields the sorted merge of the overlay's sequence with the
                      base's sequence minus the filtered IDs: strictly increasing IDs (each ID once), an
                      ID the overlay yields comes with the overlay's feature, a filtered base ID never
                      appears (`overlay_refines_merge` is the same without sortedness: all sequences)
* `each_once`         enumeration: every ID of the layered world exactly once, overlay version first
* `lookup_shadow`, `has_shadow`, `location_shadow`   lookups = lookups in the shadowed feature set
* `union_refs`         the reference queries (`FindReferences`, `FindRelationsByFeature`, …) after the closure
                      repair = the referrers within the shadowed feature set, each once, current
                      versions, terminating — ALL pairs of layers (chains may alternate, cycles)
* before the repairs: `stale_relation_counterexample`, `cross_layer_counterexample` (the by-ID union,
  exact only for `OW.independent` layers: `union_refs_partial`), `location_fallthrough_counterexample`
-/
namespace B6.Props.C16
open B6.Model.OverlayWorld B6.Lemmas.OverlayMerge B6.Lemmas.OverlayWorld B6.Lemmas.OverlayBfs B6.Spec.Referrers

/-- **overlay_refines_merge.** For ALL base / overlay sequences and filters such that every overlay
ID is in the filter (the filter is the overlay world itself, or `m.features`), `newOverlayFeatures`
terminates without reading an exhausted iterator and yields exactly `merge`. -/
theorem overlay_refines_merge {α : Type} (filter : Id → Bool) (base ov : List (Id × α))
    (hf : ∀ x ∈ ov, filter x.1 = true) :
    mergeIter filter base ov = some (merge ov (base.filter fun z => !filter z.1)) :=
  mergeIter_eq filter base ov hf

/-- **overlay_merge.** With sorted duplicate-free inputs: the output is strictly increasing in ID
(so each ID occurs once), consists of the overlay's elements (flagged as read from the overlay, with
the overlay's feature) and of the base's elements whose ID is not in the filter — nothing else. -/
theorem overlay_merge {α : Type} (filter : Id → Bool) (base ov : List (Id × α))
    (hb : SortedIds base) (ho : SortedIds ov) (hf : ∀ x ∈ ov, filter x.1 = true) :
    ∃ out, mergeIter filter base ov = some out ∧ SortedIds out ∧ (out.map (·.1)).Nodup ∧
      ∀ e, e ∈ out ↔ ((∃ x ∈ ov, e = (x.1, x.2, true)) ∨
                      (∃ y ∈ base, filter y.1 = false ∧ e = (y.1, y.2, false))) := by
  refine ⟨_, mergeIter_eq filter base ov hf, ?_, ?_, ?_⟩
  · apply merge_sorted _ _ ho (sorted_filter _ _ hb)
    intro x hx y hy e
    have h1 := hf x hx
    have h2 := (List.mem_filter.mp hy).2
    rw [e] at h1
    simp [h1] at h2
  · apply sorted_nodup
    apply merge_sorted _ _ ho (sorted_filter _ _ hb)
    intro x hx y hy e
    have h1 := hf x hx
    have h2 := (List.mem_filter.mp hy).2
    rw [e] at h1
    simp [h1] at h2
  · intro e
    rw [mem_merge]
    constructor
    · rintro (h | ⟨y, hy, he⟩)
      · exact Or.inl h
      · obtain ⟨hy1, hy2⟩ := List.mem_filter.mp hy
        exact Or.inr ⟨y, hy1, by simpa using hy2, he⟩
    · rintro (h | ⟨y, hy, hfy, he⟩)
      · exact Or.inl h
      · exact Or.inr ⟨y, List.mem_filter.mpr ⟨hy, by simp [hfy]⟩, he⟩

/-- non-vacuity: base p1 p2 w1, overlay p2 r1 (both sorted), filter = the overlay's IDs -/
example : mergeIter (fun i => i = (0, 2) || i = (3, 1)) [((0, 1), "b"), ((0, 2), "b"), ((1, 1), "b")]
    [((0, 2), "o"), ((3, 1), "o")] =
    some [((0, 1), "b", false), ((0, 2), "o", true), ((1, 1), "b", false), ((3, 1), "o", true)] := by
  decide

/-- **lookup_shadow.** `FindFeatureByID` answers with the feature of the shadowed feature set. -/
theorem lookup_shadow (w : OW) (id : Id) : w.get id = w.merged.find id := get_eq_merged w id

theorem has_shadow (w : OW) (id : Id) : w.has id = w.merged.has id := has_eq_merged w id

/-- **location_shadow.** `FindLocationByID` (after the repair) answers for the shadowed feature set:
an overlay feature without a location hides the base's location. -/
theorem location_shadow (w : OW) (id : Id) : w.loc id = w.merged.loc id := loc_eq_merged w id

/-- **each_once.** `EachFeature` yields every ID of the layered world exactly once; a feature of the
overlay is yielded as such, a base feature only when the overlay does not hold its ID. -/
theorem each_once (w : OW) (ho : (w.overlay.map (·.id)).Nodup) (hb : (w.base.map (·.id)).Nodup) :
    (w.each.map (·.id)).Nodup ∧
    ∀ f, f ∈ w.each ↔ (f ∈ w.overlay ∨ (f ∈ w.base ∧ w.overlay.has f.id = false)) :=
  ⟨each_nodup w ho hb, mem_each w⟩

/-- **union_refs.** `OverlayWorld.FindReferences` (and `FindRelationsByFeature`, `FindCollectionsByFeature`,
`FindAreasByPoint`, which call it with their type) after fixes/C16-union-refs-closure.patch — for ALL
pairs of layers with distinct IDs, whatever way reference chains alternate between them, cycles
included: the query terminates and returns exactly the features that reference `id` directly or
through a chain WITHIN THE SHADOWED FEATURE SET, of the requested types, each once, as their current
versions. (`hlayers`: each layer's own `FindReferences` answers — C15 `find_refs_terminates`.) -/
theorem union_refs (w : OW) (ho : (w.overlay.map (·.id)).Nodup) (hb : (w.base.map (·.id)).Nodup)
    (hlayers : ∀ x, (w.stepCands x).isSome = true) (id : Id) (typed : List Nat) :
    ∃ R, w.findRefs id typed = some R ∧ (R.map (·.id)).Nodup ∧ (∀ f ∈ R, f ∈ w.merged) ∧
      ∀ s, (∃ f ∈ R, f.id = s) ↔ (ReachPlus (rl w.merged) id s ∧ typeOk typed s = true) :=
  union_refs_full w ho hb hlayers id typed

/-- the by-ID union that the closure replaced was exact only for non-interleaving layers -/
theorem union_refs_partial (w : OW) (hind : w.independent = true) (id : Id) (typed : List Nat) (R : List Feat)
    (h : w.findRefsUnion id typed = some R) :
    (∀ s, (∃ f ∈ R, f.id = s) ↔ (ReachPlus (rl w.merged) id s ∧ typeOk typed s = true)) ∧
    (∀ f ∈ R, f ∈ w.merged) :=
  B6.Lemmas.OverlayWorld.union_refs w hind id typed R h

/-! ### witnesses -/

def p1 : Id := (0, 1)
def p2 : Id := (0, 2)
def r5 : Id := (3, 5)
def r6 : Id := (3, 6)

/-- base: points 1, 2 and relation 5 = [point 1]; overlay: relation 5 = [point 2] -/
def staleW : OW :=
  { base := [⟨p1, "b", [], some 1⟩, ⟨p2, "b", [], some 2⟩, ⟨r5, "b", [p1], none⟩],
    overlay := [⟨r5, "o", [p2], none⟩] }

/-- **stale_relation_counterexample.** Before `fixes/C16-overlay-union-skip-shadowed.patch` the base
version of relation 5 is returned for point 1 although the current relation 5 does not contain it;
after it nothing is. -/
theorem stale_relation_counterexample :
    staleW.findRefsOld p1 [3] = some [⟨r5, "b", [p1], none⟩] ∧ staleW.specRefs p1 [3] = some [] ∧
    staleW.findRefsUnion p1 [3] = some [] ∧ staleW.findRefs p1 [3] = some [] := by decide

example : staleW.independent = true := by decide

/-- base: point 1, relation 5 = [point 1]; overlay: relation 6 = [relation 5] -/
def crossW : OW :=
  { base := [⟨p1, "b", [], some 1⟩, ⟨r5, "b", [p1], none⟩], overlay := [⟨r6, "o", [r5], none⟩] }

/-- **cross_layer_counterexample** (the former finding `layer_crossing`): relation 6 references point 1
through relation 5 of the other layer; the union of the layers' own answers missed it, the closure
finds it. -/
theorem cross_layer_counterexample :
    crossW.independent = false ∧
    crossW.findRefsUnion p1 [3] = some [⟨r5, "b", [p1], none⟩] ∧
    crossW.specRefs p1 [3] = some [⟨r5, "b", [p1], none⟩, ⟨r6, "o", [r5], none⟩] ∧
    crossW.findRefs p1 [3] = some [⟨r5, "b", [p1], none⟩, ⟨r6, "o", [r5], none⟩] := by decide

/-- non-vacuity of `union_refs`: its hypotheses hold for the crossing layers -/
example : (crossW.overlay.map (·.id)).Nodup ∧ (crossW.base.map (·.id)).Nodup := ⟨by decide, by decide⟩

/-- base point 1 at slot 1; the overlay's point 1 has no location -/
def locW : OW := { base := [⟨p1, "b", [], some 1⟩], overlay := [⟨p1, "o", [], none⟩] }

/-- **location_fallthrough_counterexample.** Before `fixes/C16-location-shadow.patch` the base's
location is returned for a point whose overlay version has none. -/
theorem location_fallthrough_counterexample :
    locW.locOld p1 = some 1 ∧ locW.merged.loc p1 = none ∧ locW.loc p1 = none := by decide

end B6.Props.C16
