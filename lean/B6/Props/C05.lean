/-! C05 — property theorems (stub: nothing proved yet). -/
