import B6.Model.SpatialPred
import B6.Spec.SpatialPred
/-!
# C05 — Spatial predicates agree with exact geometry (decision logic)

Model: `B6.Model.SpatialPred` — the control flow of the `Matches` functions of spatial.go on a table of S2
primitive values.  The theorems say: for EVERY table (any number of cells, polygons, loops, edges, vertices)
the decision equals the geometric statement it stands for, phrased with ∃ over the table:

* `cells_spec`                   a cell query matches iff some query cell touches some part of the feature;
* `point_spec`, `polyline_spec`  (polyline vs polygon is the documented vertex approximation);
* `multipolygon_point_spec`      = ∃ polygon of the multipolygon containing the point   (repaired code);
  `multipolygon_point_counterexample`, `multipolygon_point_partial`   the code as found lets the first polygon decide;
* `multipolygon_path_spec`, `multipolygon_area_spec`;
* `cap_polygon_spec`             repaired `CapIntersectsPolygon` = centre inside ∨ some edge within the radius;
  `cap_polygon_parity_spec`      the parity formulation of the code as found equals it exactly under the
                                 loop contract "centre inside polygon ⇔ odd number of loops have the centre on the
                                 left of all their edges" (true for convex loops only);
  `cap_polygon_parity_counterexample`  an L-shaped loop with the cap deep inside: parity says false;
* `cap_area_spec`                `IntersectsCap.Matches` on areas incl. the interior/exterior covering shortcut,
                                 under the covering contract (interior cell hit ⇒ intersects ⇒ exterior cell hit);
  `cap_never_panics`, `cap_empty_polygon_counterexample`   `p.Loop(0)` on a polygon without loops;
* `intersects_feature_spec`.

All S2 numerics are outside: the tables are evaluated by S2 itself in the correspondence run.
-/
namespace B6.Props.C05
open B6.Model.SpatialPred

theorem anyTrue_iff (bs : List Bool) : anyTrue bs = true ↔ ∃ b ∈ bs, b = true := by
  simp [anyTrue]

/-! ### cells -/

/-- what a cell query is meant to accept: some query cell touches some part of the feature -/
def CellsTable.Touches : CellsTable → Prop
  | .point hits => ∃ h ∈ hits, h = true
  | .path hits => ∃ h ∈ hits, h = true
  | .area hits => ∃ row ∈ hits, ∃ h ∈ row, h = true
  | .other => False

theorem cells_spec (t : CellsTable) : cellsIntersectFeature t = true ↔ CellsTable.Touches t := by
  cases t <;> simp [cellsIntersectFeature, CellsTable.Touches, anyTrue]

example : cellsIntersectFeature (.area [[false, false], [false, true]]) = true :=
  (cells_spec _).mpr ⟨[false, true], by simp, true, by simp, rfl⟩

/-! ### point and polyline queries -/

def PointTable.Meets : PointTable → Prop
  | .point eq => eq = true
  | .path within => within = true
  | .area cs => ∃ c ∈ cs, c = true
  | .other => False

theorem point_spec (t : PointTable) : pointIntersectsFeature t = true ↔ PointTable.Meets t := by
  cases t <;> simp [pointIntersectsFeature, PointTable.Meets, anyTrue]

example : pointIntersectsFeature (.area [false, true]) = true := (point_spec _).mpr ⟨true, by simp, rfl⟩

/-- the documented approximation: a polyline meets a polygon when one of its vertices is inside -/
def LineTable.Meets : LineTable → Prop
  | .point within => within = true
  | .path crosses => crosses = true
  | .area vs => ∃ row ∈ vs, ∃ v ∈ row, v = true
  | .other => False

theorem polyline_spec (t : LineTable) : polylineIntersectsFeature t = true ↔ LineTable.Meets t := by
  cases t <;> simp [polylineIntersectsFeature, polylineIntersectsPolygon, LineTable.Meets, anyTrue]

example : polylineIntersectsFeature (.area [[false], [false, true, false]]) = true :=
  (polyline_spec _).mpr ⟨[false, true, false], by simp, true, by simp, rfl⟩

/-! ### multipolygon queries -/

/-- A point is matched by a multipolygon query iff SOME polygon contains it (repaired code). -/
theorem multipolygon_point_spec (contains : List Bool) :
    multiPolygonIntersectsFeature true (.point contains) = true ↔ ∃ c ∈ contains, c = true := by
  simp [multiPolygonIntersectsFeature, multiPolygonContainsPoint, anyTrue]

example : multiPolygonIntersectsFeature true (.point [false, true]) = true :=
  (multipolygon_point_spec _).mpr ⟨true, by simp, rfl⟩

def multipolygon_point_statement (fixed : Bool) : Prop :=
  ∀ contains : List Bool,
    multiPolygonIntersectsFeature fixed (.point contains) = true ↔ ∃ c ∈ contains, c = true

theorem multipolygon_point_repaired : multipolygon_point_statement true := multipolygon_point_spec

/-- Code as found: two squares, the point inside the second → `Matches` = false. -/
theorem multipolygon_point_counterexample :
    multiPolygonIntersectsFeature false (.point [false, true]) = false ∧ (∃ c ∈ [false, true], c = true) := by
  decide

theorem multipolygon_point_as_found_fails : ¬ multipolygon_point_statement false := by
  intro h
  have := (h [false, true]).mpr ⟨true, by simp, rfl⟩
  revert this
  decide

/-- Code as found is right exactly when the first polygon decides: at most one polygon, or the first
contains the point, or none does. -/
theorem multipolygon_point_partial (contains : List Bool)
    (h : contains.length ≤ 1 ∨ contains.head? = some true ∨ ∀ c ∈ contains, c = false) :
    multiPolygonIntersectsFeature false (.point contains) = true ↔ ∃ c ∈ contains, c = true := by
  cases contains with
  | nil => simp [multiPolygonIntersectsFeature, multiPolygonContainsPoint]
  | cons c cs =>
    simp only [multiPolygonIntersectsFeature, multiPolygonContainsPoint]
    rcases h with h | h | h
    · have : cs = [] := by
        cases cs with
        | nil => rfl
        | cons _ _ => simp at h
      subst this; simp
    · simp at h; subst h; simp
    · have hc := h c (by simp)
      subst hc
      constructor
      · intro e; cases e
      · rintro ⟨d, hd, rfl⟩
        have := h true hd
        cases this

example : multiPolygonIntersectsFeature false (.point [true, false]) = true :=
  (multipolygon_point_partial _ (Or.inr (Or.inl rfl))).mpr ⟨true, by simp, rfl⟩

/-- path vs multipolygon: the documented vertex approximation, over all polygons -/
theorem multipolygon_path_spec (fixed : Bool) (vertexIn : List (List Bool)) :
    multiPolygonIntersectsFeature fixed (.path vertexIn) = true ↔ ∃ row ∈ vertexIn, ∃ v ∈ row, v = true := by
  simp [multiPolygonIntersectsFeature, polylineIntersectsPolygon, anyTrue]

example : multiPolygonIntersectsFeature false (.path [[false, false], [true]]) = true :=
  (multipolygon_path_spec _ _).mpr ⟨[true], by simp, true, by simp, rfl⟩

theorem multipolygon_area_spec (fixed : Bool) (meets : List (List Bool)) :
    multiPolygonIntersectsFeature fixed (.area meets) = true ↔ ∃ row ∈ meets, ∃ m ∈ row, m = true := by
  simp [multiPolygonIntersectsFeature, anyTrue]

example : multiPolygonIntersectsFeature true (.area [[false], [false, true]]) = true :=
  (multipolygon_area_spec _ _).mpr ⟨[false, true], by simp, true, by simp, rfl⟩

/-! ### caps -/

/-- exact geometry for a cap and a polygon: the centre is inside, or the boundary comes within the radius -/
def CapMeets (t : CapPoly) : Prop :=
  t.centreIn = true ∨ ∃ l ∈ t.loops, ∃ e ∈ l, e.within = true

instance (t : CapPoly) : Decidable (CapMeets t) := by unfold CapMeets; exact inferInstance

theorem cap_polygon_spec (t : CapPoly) : capIntersectsPolygon true t = true ↔ CapMeets t := by
  simp [capIntersectsPolygon, capIntersectsPolygonFixed, CapMeets]

example : capIntersectsPolygon true ⟨4, [], [], true, [[⟨false, true⟩, ⟨false, false⟩]]⟩ = true :=
  (cap_polygon_spec _).mpr (Or.inl rfl)

def someEdgeWithin (loops : List (List EdgeRow)) : Bool := loops.any fun l => l.any (·.within)
def leftOfAll (loops : List (List EdgeRow)) : Nat := (loops.filter fun l => l.all (·.left)).length

theorem parity_go (loops : List (List EdgeRow)) (n : Nat) :
    capIntersectsPolygonParity.go loops n =
      (someEdgeWithin loops || ((n + leftOfAll loops) % 2 == 1)) := by
  induction loops generalizing n with
  | nil => simp [capIntersectsPolygonParity.go, someEdgeWithin, leftOfAll]
  | cons l ls ih =>
    unfold capIntersectsPolygonParity.go
    by_cases hw : l.any (·.within) = true
    · simp [hw, someEdgeWithin]
    · have hw' : l.any (·.within) = false := by simpa using hw
      by_cases hl : l.all (·.left) = true
      · rw [if_neg hw, if_pos hl, ih]
        simp only [someEdgeWithin, leftOfAll, List.any_cons, hw', Bool.false_or, List.filter_cons, hl,
          ↓reduceIte, List.length_cons]
        congr 3
        omega
      · rw [if_neg hw, if_neg hl, ih]
        simp only [someEdgeWithin, leftOfAll, List.any_cons, hw', Bool.false_or, List.filter_cons, hl]
        rfl

/-- The parity formulation of the code as found is exact under the loop contract: whenever no edge is
within the radius, "centre inside the polygon" ⇔ "the centre is to the left of every edge of an odd number
of loops".  (S2 polygons are XOR of nested CCW loops, so this holds when every loop is convex.) -/
theorem cap_polygon_parity_spec (t : CapPoly)
    (contract : someEdgeWithin t.loops = false → (t.centreIn = (leftOfAll t.loops % 2 == 1))) :
    capIntersectsPolygon false t = true ↔ CapMeets t := by
  rw [← cap_polygon_spec]
  simp only [capIntersectsPolygon, capIntersectsPolygonParity, parity_go, Nat.zero_add, Bool.false_eq_true,
    ↓reduceIte, capIntersectsPolygonFixed]
  cases hs : someEdgeWithin t.loops with
  | true =>
    have : (t.loops.any fun l => l.any (·.within)) = true := hs
    simp [this]
  | false =>
    have h2 : (t.loops.any fun l => l.any (·.within)) = false := hs
    rw [contract hs, h2]
    simp

example : capIntersectsPolygon false ⟨4, [], [], true, [[⟨false, true⟩, ⟨false, true⟩, ⟨false, true⟩]]⟩ = true :=
  (cap_polygon_parity_spec _ (by decide)).mpr (Or.inl rfl)

/-- Code as found on an L-shaped (non-convex) loop with a small cap deep inside one arm: no edge within the
radius, the centre is on the right of the re-entrant edge, so the loop is not counted: false, though the
centre is inside the polygon. -/
theorem cap_polygon_parity_counterexample :
    let t : CapPoly := ⟨6, [], [], true,
      [[⟨false, true⟩, ⟨false, true⟩, ⟨false, false⟩, ⟨false, true⟩, ⟨false, true⟩, ⟨false, true⟩]]⟩
    capIntersectsPolygon false t = false ∧ CapMeets t ∧ capIntersectsPolygon true t = true := by
  decide

/-- covering contract for the shortcut of `IntersectsPolygon`: a hit on a cell of the cap's interior covering
means the polygon meets the cap; if it meets the cap it hits a cell of the exterior covering -/
def CoveringContract (t : CapPoly) : Prop :=
  (anyTrue t.interior = true → CapMeets t) ∧ (CapMeets t → anyTrue t.exterior = true)

theorem intersects_polygon_spec (t : CapPoly) (h : CoveringContract t) :
    intersectsPolygon true t = some (decide (CapMeets t)) := by
  have hspec : capIntersectsPolygon true t = decide (CapMeets t) := by
    rw [Bool.eq_iff_iff, cap_polygon_spec]; simp
  unfold intersectsPolygon
  simp only [Bool.not_true, Bool.and_false, Bool.false_eq_true, ↓reduceIte]
  by_cases hbig : (!t.loops.isEmpty && decide (t.nv0 > indexUseFasterAboveVertexCount)) = true
  · rw [if_pos hbig]
    by_cases hi : anyTrue t.interior = true
    · rw [if_pos hi]
      have := h.1 hi
      simp [this]
    · rw [if_neg hi]
      by_cases he : anyTrue t.exterior = true
      · simp [he, hspec]
      · have hn : ¬ CapMeets t := fun m => he (h.2 m)
        have he' : anyTrue t.exterior = false := by simpa using he
        simp [he', hn]
  · rw [if_neg hbig, hspec]

/-- `IntersectsCap.Matches` on an area (repaired code): some polygon of the area meets the cap. -/
theorem cap_area_spec (ps : List CapPoly) (h : ∀ p ∈ ps, CoveringContract p) :
    capMatches true (.area ps) = some (ps.any fun p => decide (CapMeets p)) := by
  simp only [capMatches]
  induction ps with
  | nil => rfl
  | cons p ps ih =>
    have hp := intersects_polygon_spec p (h p (by simp))
    have ih' := ih (fun q hq => h q (by simp [hq]))
    unfold anyPolygon
    rw [hp]
    by_cases hm : CapMeets p
    · simp [hm]
    · simp [hm, ih']

example : capMatches true (.area [⟨20, [false], [false, false], false, [[⟨false, true⟩]]⟩,
                                  ⟨4, [], [true], false, [[⟨false, false⟩, ⟨true, false⟩]]⟩]) = some true := by
  decide

/-- the repaired code never panics, whatever the table -/
theorem cap_never_panics (t : CapTable) : capMatches true t ≠ none := by
  cases t with
  | point b => simp [capMatches]
  | path b => simp [capMatches]
  | other => simp [capMatches]
  | area ps =>
    simp only [capMatches]
    induction ps with
    | nil => simp [anyPolygon]
    | cons p ps ih =>
      unfold anyPolygon
      have : ∃ b, intersectsPolygon true p = some b := by
        unfold intersectsPolygon
        simp only [Bool.not_true, Bool.and_false, Bool.false_eq_true, ↓reduceIte]
        split
        · split
          · exact ⟨_, rfl⟩
          · split <;> exact ⟨_, rfl⟩
        · exact ⟨_, rfl⟩
      obtain ⟨b, hb⟩ := this
      rw [hb]
      cases b <;> simp [ih]

/-- Code as found: an area with a polygon that has no loops (e.g. `InvalidArea.Polygon`) panics in `p.Loop(0)`. -/
theorem cap_empty_polygon_counterexample :
    capMatches false (.area [⟨0, [], [], false, []⟩]) = none ∧
    capMatches true (.area [⟨0, [], [], false, []⟩]) = some false := by
  decide

theorem cap_point_path_spec (fixed b : Bool) :
    capMatches fixed (.point b) = some b ∧ capMatches fixed (.path b) = some b := ⟨rfl, rfl⟩

/-! ### intersects-feature -/

def GeoMeets : GeoQuery → Prop
  | .point t => PointTable.Meets t
  | .line t => LineTable.Meets t
  | .mp (.point cs) => ∃ c ∈ cs, c = true
  | .mp (.path vs) => ∃ row ∈ vs, ∃ v ∈ row, v = true
  | .mp (.area ms) => ∃ row ∈ ms, ∃ m ∈ row, m = true
  | .mp .other => False
  | .empty => False

/-- `IntersectsFeature.Matches` (repaired): the named feature has geometry, and the feature is the named one
or meets the named feature's geometry. -/
theorem intersects_feature_spec (sameID : Bool) (q : GeoQuery) :
    intersectsFeatureMatches true sameID q = true ↔ q ≠ .empty ∧ (sameID = true ∨ GeoMeets q) := by
  cases q with
  | empty => simp [intersectsFeatureMatches]
  | point t =>
    simp only [intersectsFeatureMatches, Bool.or_eq_true, ne_eq, reduceCtorEq, not_false_eq_true, true_and]
    exact or_congr Iff.rfl (point_spec t)
  | line t =>
    simp only [intersectsFeatureMatches, Bool.or_eq_true, ne_eq, reduceCtorEq, not_false_eq_true, true_and]
    exact or_congr Iff.rfl (polyline_spec t)
  | mp t =>
    simp only [intersectsFeatureMatches, Bool.or_eq_true, ne_eq, reduceCtorEq, not_false_eq_true, true_and]
    apply or_congr Iff.rfl
    cases t with
    | point cs => exact multipolygon_point_spec cs
    | path vs => exact multipolygon_path_spec true vs
    | area ms => exact multipolygon_area_spec true ms
    | other => simp [geoMatches, multiPolygonIntersectsFeature, GeoMeets]

/-- Code as found: a relation named by the query "intersects itself" although it has no geometry and the
compiled query is empty (the search returns nothing: C04's `self-without-geometry`). -/
theorem intersects_feature_self_counterexample :
    intersectsFeatureMatches false true .empty = true ∧ intersectsFeatureMatches true true .empty = false := by
  decide

/-- `MightIntersect.Matches` accepts everything. -/
theorem might_intersect_spec : mightIntersectMatches = true := rfl

example : intersectsFeatureMatches true false (.mp (.point [false, true])) = true :=
  (intersects_feature_spec _ _).mpr ⟨by simp, Or.inr ⟨true, by simp, rfl⟩⟩

end B6.Props.C05

/-! ### the executable spec used by the driver (`B6.Spec.SpatialPred`) equals the repaired model -/
namespace B6.Props.C05
open B6.Model.SpatialPred
open B6.Spec.SpatialPred (someTrue someTrue2)

theorem someTrue_eq (bs : List Bool) : someTrue bs = anyTrue bs := by
  induction bs with
  | nil => rfl
  | cons b bs ih =>
    simp only [someTrue, anyTrue, List.contains_cons, List.any_cons] at *
    rw [ih]; cases b <;> simp

theorem someTrue2_eq (rows : List (List Bool)) : someTrue2 rows = rows.any anyTrue := by
  induction rows with
  | nil => rfl
  | cons r rs ih =>
    simp only [someTrue2, List.flatten_cons, List.any_cons] at *
    rw [← ih, ← someTrue_eq]
    simp [someTrue, List.contains_eq_mem, List.mem_append, Bool.decide_or]

theorem cells_eq_spec (t : CellsTable) : cellsIntersectFeature t = B6.Spec.SpatialPred.cells t := by
  cases t <;> simp [cellsIntersectFeature, B6.Spec.SpatialPred.cells, someTrue_eq, someTrue2_eq]

theorem point_eq_spec (t : PointTable) : pointIntersectsFeature t = B6.Spec.SpatialPred.point t := by
  cases t <;> simp [pointIntersectsFeature, B6.Spec.SpatialPred.point, someTrue_eq]

theorem polyline_eq_spec (t : LineTable) : polylineIntersectsFeature t = B6.Spec.SpatialPred.line t := by
  cases t <;> simp [polylineIntersectsFeature, B6.Spec.SpatialPred.line, someTrue2_eq]
  rfl

/-- `IntersectsPolyline.Matches` (repaired), any query length incl. the empty polyline -/
theorem polyline_query_eq_spec (nq : Nat) (t : LineTable) :
    intersectsPolylineMatches true nq t = some (B6.Spec.SpatialPred.lineQuery nq t) := by
  cases nq <;> cases t <;>
    simp [intersectsPolylineMatches, B6.Spec.SpatialPred.lineQuery, polyline_eq_spec]

theorem polyline_never_panics (nq : Nat) (t : LineTable) : intersectsPolylineMatches true nq t ≠ none := by
  rw [polyline_query_eq_spec]; simp

/-- Code as found: an empty query polyline against a point feature panics in `Polyline.Project`. -/
theorem polyline_empty_query_counterexample :
    intersectsPolylineMatches false 0 (.point false) = none ∧
    intersectsPolylineMatches true 0 (.point false) = some false := by
  decide

/-- with at least one vertex the as-found code is the plain table decision -/
theorem polyline_query_partial (fixed : Bool) (nq : Nat) (t : LineTable) (h : nq ≠ 0) :
    intersectsPolylineMatches fixed nq t = some (polylineIntersectsFeature t) := by
  cases nq with
  | zero => exact absurd rfl h
  | succ n => cases t <;> rfl

example : intersectsPolylineMatches false 2 (.point true) = some true := polyline_query_partial _ _ _ (by decide)

theorem multipolygon_eq_spec (t : MpTable) :
    multiPolygonIntersectsFeature true t = B6.Spec.SpatialPred.mp t := by
  cases t <;> simp [multiPolygonIntersectsFeature, multiPolygonContainsPoint, B6.Spec.SpatialPred.mp,
    someTrue_eq, someTrue2_eq]
  rfl

theorem capPoly_spec_iff (t : CapPoly) : B6.Spec.SpatialPred.capPoly t = true ↔ CapMeets t := by
  simp [B6.Spec.SpatialPred.capPoly, CapMeets, someTrue, List.contains_eq_mem]
  constructor
  · rintro (h | ⟨l, ⟨a, ha, rfl⟩, hm⟩)
    · exact Or.inl h
    · obtain ⟨e, he, hw⟩ := List.mem_map.mp hm
      exact Or.inr ⟨a, ha, e, he, hw⟩
  · rintro (h | ⟨l, hl, e, he, hw⟩)
    · exact Or.inl h
    · exact Or.inr ⟨l.map (·.within), ⟨l, hl, rfl⟩, List.mem_map.mpr ⟨e, he, hw⟩⟩

/-- `IntersectsCap.Matches` (repaired) equals the executable spec under the covering contract -/
theorem cap_eq_spec (t : CapTable)
    (h : ∀ ps, t = .area ps → ∀ p ∈ ps, CoveringContract p) :
    capMatches true t = some (B6.Spec.SpatialPred.cap t) := by
  cases t with
  | point b => rfl
  | path b => rfl
  | other => rfl
  | area ps =>
    rw [cap_area_spec ps (h ps rfl)]
    simp only [B6.Spec.SpatialPred.cap, someTrue_eq, anyTrue, List.any_map, Option.some.injEq]
    congr 1
    funext p
    simp only [Function.comp, id]
    rw [Bool.eq_iff_iff, capPoly_spec_iff]
    simp

theorem intersects_feature_eq_spec (sameID : Bool) (q : GeoQuery) :
    intersectsFeatureMatches true sameID q = B6.Spec.SpatialPred.feature sameID q := by
  cases q with
  | empty => rfl
  | point t => simp [intersectsFeatureMatches, B6.Spec.SpatialPred.feature, B6.Spec.SpatialPred.geo, geoMatches, point_eq_spec]
  | line t => simp [intersectsFeatureMatches, B6.Spec.SpatialPred.feature, B6.Spec.SpatialPred.geo, geoMatches, polyline_eq_spec]
  | mp t => simp [intersectsFeatureMatches, B6.Spec.SpatialPred.feature, B6.Spec.SpatialPred.geo, geoMatches, multipolygon_eq_spec]

end B6.Props.C05
