/-! C07 — property theorems (stub: nothing proved yet). -/
