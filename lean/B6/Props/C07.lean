import B6.Model.Avl
import B6.Spec.SortedMap
import B6.Spec.IterClauses
import B6.Lemmas.Avl
/-!
# C07 — the AVL tree index stays a balanced sorted set across any edit history

Theorems about `B6.Model.Avl` (the model of `search/tree.go`) against `B6.Spec.SortedMap`.

* `insert_inv`, `delete_inv` — one `Insert` / `DeleteKey` on a valid tree does not panic, keeps
  `Inv` (search-tree order ∧ stored balance = height difference ∧ |balance| ≤ 1) and changes the
  in-order contents exactly like the sorted-map `insert` / `erase`; `retrace_flags` — the "continue
  retracing" flags are exactly "one level higher / lower".
* `height_bound` — `Bal` forces height ≤ 2·log₂(n+1).
* `ops_inv` — lifted over every edit history from the empty list; includes `Len()`.
* `next_spec`, `advance_spec` — what `Next` / `Advance` do from ANY iterator state over ANY current
  tree (fresh, on a live node, on a node deleted since, on a node deleted and re-inserted, exhausted);
  `iter_monotone`, `iter_no_deleted`, `iter_complete` — the three iterator clauses for one call.
* `trace_ok` — for all interleavings of insert / delete / begin / Next / Advance the transcript is
  accepted by `B6.Spec.IterClauses.clause` (the predicate the driver evaluates on the Go answers) and the
  list stays a valid AVL tree; `trace_step` also shows no call panics; `sim_world` ties the step function
  of the theorem to `World.step`, the one the driver runs.
* `index_add_inv`, `index_remove_inv` — `TreeIndex.Add/Remove` with any token list keep the token tree and
  every per-token list valid (each of those lists is a `treeList`, so the theorems above apply to it).
* `index_contents` — after any `Add/Remove` history the index denotes exactly the reference function
  token ↦ sorted values (`index_add_spec`, `index_remove_spec` per call); `index_begin_drain` — `Begin(token)`
  run to the end returns exactly that set in order (`drain_spec`);
  `numtokens_counts_emptied_tokens_counterexample` — emptied tokens stay listed and counted.
* `insLe_equiv` — the uncaught mutation (`<= 0` for `< 0` in the insert retrace) is equivalent on valid trees.
-/
namespace B6.Props.C07
open B6.Model.Avl B6.Model.Avl.Tree B6.Spec B6.Lemmas.Avl B6.Spec.IterClauses

variable {α : Type}

/-! ## one edit -/

/-- `Insert` on a valid tree: no panic, still valid, contents = sorted insert (payload replaced when
the key exists), and the "added" flag that drives `length++` is set exactly for a new key. -/
theorem insert_inv (t : Tree α) (k : Nat) (p : α) (h : Inv t) :
    ∃ t' g a, ins t k p = some (t', g, a) ∧ Inv t' ∧
      toList t' = SortedMap.insert (toList t) k p ∧
      (toList t').length = (toList t).length + (if a then 1 else 0) := by
  obtain ⟨hbst, hbal⟩ := h
  obtain ⟨t', g, a, e, bt, _, _⟩ := ins_bal t k p hbal
  have hl := ins_toList e hbst
  refine ⟨t', g, a, e, ⟨?_, bt⟩, hl, ins_length e⟩
  rw [bst_iff_sorted, hl]
  exact SM.sorted_insert _ _ _ ((bst_iff_sorted t).1 hbst)

example : Inv (node (node nil 1 "a" 0 nil) 2 "b" 1 (node (node nil 3 "c" 0 nil) 4 "d" (-1) nil)) := by decide
example : (ins (node (node nil 1 "a" 0 nil) 2 "b" 1 (node nil 4 "d" 0 nil)) 3 "c").isSome := by decide

/-- `DeleteKey` on a valid tree: no panic, still valid, contents = erase, "found" ⇔ the key was there. -/
theorem delete_inv (t : Tree α) (k : Nat) (h : Inv t) :
    ∃ t' s f, del t k = some (t', s, f) ∧ Inv t' ∧
      toList t' = SortedMap.erase (toList t) k ∧
      (toList t').length + (if f then 1 else 0) = (toList t).length ∧
      (f = true ↔ k ∈ keys t) := by
  obtain ⟨hbst, hbal⟩ := h
  obtain ⟨t', s, f, e, bt, _⟩ := del_bal t k hbal
  have hl := del_toList e hbst
  refine ⟨t', s, f, e, ⟨?_, bt⟩, hl, del_length e, del_found e hbst⟩
  rw [bst_iff_sorted, hl]
  exact SM.sorted_erase _ _ ((bst_iff_sorted t).1 hbst)

example : (del (node (node nil 1 "a" 0 nil) 2 "b" 1 (node (node nil 3 "c" 0 nil) 4 "d" (-1) nil)) 2) =
    some (node (node nil 1 "a" 0 nil) 3 "c" 0 (node nil 4 "d" 0 nil), true, true) := by decide

/-- the retracing flags mean what the Go loops use them for: `Insert` reports "continue above" exactly
when the subtree got one level higher, `DeleteKey` exactly when it got one level lower. -/
theorem retrace_flags (t : Tree α) (k : Nat) (p : α) (h : Inv t) :
    (∀ t' g a, ins t k p = some (t', g, a) → height t' = height t + (if g then 1 else 0)) ∧
    (∀ t' s f, del t k = some (t', s, f) → height t' + (if s then 1 else 0) = height t) := by
  constructor
  · intro t' g a e
    obtain ⟨t2, g2, a2, e2, _, hh, _⟩ := ins_bal t k p h.2
    rw [e2] at e; simp at e; obtain ⟨rfl, rfl, rfl⟩ := e; exact hh
  · intro t' s f e
    obtain ⟨t2, s2, f2, e2, _, hh⟩ := del_bal t k h.2
    rw [e2] at e; simp at e; obtain ⟨rfl, rfl, rfl⟩ := e; exact hh

/-- "balanced" in numbers: a tree satisfying `Bal` with `n` values has height at most `2·log₂(n+1)`. -/
theorem height_bound (t : Tree α) (h : Bal t) : 2 ^ (height t / 2) ≤ (toList t).length + 1 := by
  induction t with
  | nil => simp [height, toList]
  | node l k p b r ihl ihr =>
    obtain ⟨hl, hr, hb, h1, h2⟩ := h
    have il := ihl hl
    have ir := ihr hr
    simp only [height, toList, List.length_append, List.length_cons]
    have m1 : (max (height l) (height r) + 1) / 2 ≤ height l / 2 + 1 := by omega
    have m2 : (max (height l) (height r) + 1) / 2 ≤ height r / 2 + 1 := by omega
    have p1 : 2 ^ ((max (height l) (height r) + 1) / 2) ≤ 2 ^ (height l / 2 + 1) :=
      Nat.pow_le_pow_right (by omega) m1
    have p2 : 2 ^ ((max (height l) (height r) + 1) / 2) ≤ 2 ^ (height r / 2 + 1) :=
      Nat.pow_le_pow_right (by omega) m2
    rw [Nat.pow_succ] at p1 p2
    omega

example : Bal (node (node nil 1 () 0 nil) 2 () 1 (node (node nil 3 () 0 nil) 4 () (-1) nil)) := by decide

/-! ## treeList: the root pointer and the `length` counter -/

/-- a `treeList` is well formed when its tree is valid and `length` is the number of values -/
def WF (t : TreeList α) : Prop := Inv t.root ∧ t.length = ((toList t.root).length : Int)

theorem wf_empty : WF (TreeList.empty : TreeList α) := by
  refine ⟨⟨trivial, trivial⟩, ?_⟩
  simp [TreeList.empty, toList]

theorem treelist_insert (t : TreeList α) (k : Nat) (p : α) (h : WF t) :
    ∃ t', t.insert k p = some t' ∧ WF t' ∧ t'.toList = SortedMap.insert t.toList k p := by
  obtain ⟨hi, hlen⟩ := h
  obtain ⟨r, g, a, e, hi', hl, hn⟩ := insert_inv t.root k p hi
  refine ⟨⟨r, if a then t.length + 1 else t.length⟩, by simp [TreeList.insert, e], ⟨hi', ?_⟩, hl⟩
  simp only
  cases a <;> simp at hn ⊢ <;> omega

theorem treelist_delete (t : TreeList α) (k : Nat) (h : WF t) :
    ∃ t' f, t.delete k = some (t', f) ∧ WF t' ∧ t'.toList = SortedMap.erase t.toList k ∧
      (f = true ↔ k ∈ keys t.root) := by
  obtain ⟨hi, hlen⟩ := h
  obtain ⟨r, s, f, e, hi', hl, hn, hf⟩ := delete_inv t.root k hi
  refine ⟨⟨r, if f then t.length - 1 else t.length⟩, f, by simp [TreeList.delete, e], ⟨hi', ?_⟩, hl, hf⟩
  simp only
  cases f <;> simp at hn ⊢ <;> omega

/-! ## any edit history -/

inductive Edit (α : Type) where
  | ins (k : Nat) (p : α)
  | del (k : Nat)

/-- run a history on the model (`none` = some call panicked) -/
def applyEdits (t : TreeList α) : List (Edit α) → Option (TreeList α)
  | [] => some t
  | .ins k p :: es =>
    match t.insert k p with
    | some t' => applyEdits t' es
    | none => none
  | .del k :: es =>
    match t.delete k with
    | some (t', _) => applyEdits t' es
    | none => none

/-- the same history on the reference sorted map -/
def specEdits (m : SortedMap.SMap α) : List (Edit α) → SortedMap.SMap α
  | [] => m
  | .ins k p :: es => specEdits (SortedMap.insert m k p) es
  | .del k :: es => specEdits (SortedMap.erase m k) es

/-- After ANY sequence of inserts and deletes from a well-formed list (in particular from the empty
one) no call has panicked, the tree is a valid AVL tree, its in-order contents are exactly those of
the reference map — in strictly increasing key order — and `Len()` is their number. -/
theorem ops_inv (t : TreeList α) (h : WF t) (es : List (Edit α)) :
    ∃ t', applyEdits t es = some t' ∧ WF t' ∧ t'.toList = specEdits t.toList es ∧
      SortedMap.Sorted t'.toList ∧ t'.length = (t'.toList.length : Int) := by
  induction es generalizing t with
  | nil => exact ⟨t, rfl, h, rfl, (bst_iff_sorted _).1 h.1.1, h.2⟩
  | cons e es ih =>
    cases e with
    | ins k p =>
      obtain ⟨t1, e1, h1, l1⟩ := treelist_insert t k p h
      obtain ⟨t2, e2, h2, l2, rest⟩ := ih t1 h1
      exact ⟨t2, by simp [applyEdits, e1, e2], h2, by simp [specEdits, l2, l1], rest⟩
    | del k =>
      obtain ⟨t1, f, e1, h1, l1, _⟩ := treelist_delete t k h
      obtain ⟨t2, e2, h2, l2, rest⟩ := ih t1 h1
      exact ⟨t2, by simp [applyEdits, e1, e2], h2, by simp [specEdits, l2, l1], rest⟩

theorem ops_inv_empty (es : List (Edit α)) :
    ∃ t', applyEdits TreeList.empty es = some t' ∧ WF t' ∧ t'.toList = specEdits [] es := by
  obtain ⟨t', e, h, l, _⟩ := ops_inv (TreeList.empty : TreeList α) wf_empty es
  exact ⟨t', e, h, by simpa [TreeList.toList, TreeList.empty, toList] using l⟩

example : (applyEdits (TreeList.empty : TreeList Nat)
    [.ins 3 0, .ins 1 1, .ins 2 2, .del 7, .ins 5 3, .ins 4 4, .del 3, .del 3]).map (fun t => (t.toList, t.length)) =
    some ([(1, 1), (2, 2), (4, 4), (5, 3)], 4) := by decide

/-! ## iterators -/

/-- `k` is the least key of the tree that satisfies `q` -/
def Least (t : Tree α) (q : Nat → Prop) (k : Nat) : Prop :=
  k ∈ keys t ∧ q k ∧ ∀ x ∈ keys t, q x → k ≤ x

/-- no key of the tree satisfies `q` -/
def NoneSat (t : Tree α) (q : Nat → Prop) : Prop := ∀ x ∈ keys t, ¬ q x

theorem find_least {m : SortedMap.SMap α} (hs : SortedMap.Sorted m) (q : Nat → Bool) {e : Nat × α}
    (h : m.find? (fun e => q e.1) = some e) :
    e.1 ∈ SortedMap.keys m ∧ q e.1 = true ∧ ∀ x ∈ SortedMap.keys m, q x = true → e.1 ≤ x := by
  induction m with
  | nil => simp at h
  | cons a m ih =>
    simp only [SortedMap.Sorted, SortedMap.keys, List.map_cons, List.pairwise_cons] at hs
    obtain ⟨h1, h2⟩ := hs
    rw [List.find?_cons] at h
    by_cases c : q a.1 = true
    · simp [c] at h; subst h
      refine ⟨by simp [SortedMap.keys], c, ?_⟩
      intro x hx _
      simp only [SortedMap.keys, List.map_cons, List.mem_cons] at hx
      rcases hx with rfl | hx
      · exact Nat.le_refl _
      · exact Nat.le_of_lt (h1 x hx)
    · simp [c] at h
      obtain ⟨i1, i2, i3⟩ := ih h2 h
      refine ⟨by simp only [SortedMap.keys, List.map_cons, List.mem_cons]; exact Or.inr i1, i2, ?_⟩
      intro x hx hq
      simp only [SortedMap.keys, List.map_cons, List.mem_cons] at hx
      rcases hx with rfl | hx
      · exact absurd hq c
      · exact i3 x hx hq

theorem find_noneSat {m : SortedMap.SMap α} (q : Nat → Bool)
    (h : m.find? (fun e => q e.1) = none) : ∀ x ∈ SortedMap.keys m, q x = false := by
  rw [List.find?_eq_none] at h
  intro x hx
  simp only [SortedMap.keys, List.mem_map] at hx
  obtain ⟨e, he, rfl⟩ := hx
  simpa using h e he

theorem keys_toList (t : Tree α) : SortedMap.keys (toList t) = keys t := (keys_eq t).symm

theorem succ_least {t : Tree α} (hb : Bst t) {c k' : Nat} {p' : α} (h : t.succ c = some (k', p')) :
    Least t (fun x => c < x) k' := by
  rw [succ_eq t c hb] at h
  have := find_least ((bst_iff_sorted t).1 hb) (fun x => decide (c < x)) h
  simpa [Least, keys_toList] using this

theorem succ_none {t : Tree α} (hb : Bst t) {c : Nat} (h : t.succ c = none) :
    NoneSat t (fun x => c < x) := by
  rw [succ_eq t c hb] at h
  have := find_noneSat (fun x => decide (c < x)) h
  simpa [NoneSat, keys_toList] using this

theorem lb_least {t : Tree α} (hb : Bst t) {c k' : Nat} {p' : α} (h : t.lowerBound c = some (k', p')) :
    Least t (fun x => c ≤ x) k' := by
  rw [lowerBound_eq t c hb] at h
  have := find_least ((bst_iff_sorted t).1 hb) (fun x => decide (c ≤ x)) h
  simpa [Least, keys_toList] using this

theorem lb_none {t : Tree α} (hb : Bst t) {c : Nat} (h : t.lowerBound c = none) :
    NoneSat t (fun x => c ≤ x) := by
  rw [lowerBound_eq t c hb] at h
  have := find_noneSat (fun x => decide (c ≤ x)) h
  simpa [NoneSat, keys_toList] using this

theorem min_least {t : Tree α} (hb : Bst t) {k' : Nat} {p' : α} (h : t.min = some (k', p')) :
    Least t (fun _ => True) k' := by
  rw [min_eq] at h
  have hs := (bst_iff_sorted t).1 hb
  have : (toList t).find? (fun e => (fun _ => true) e.1) = some (k', p') := by
    cases hm : toList t with
    | nil => simp [hm] at h
    | cons a m => simp [hm] at h; simp [h]
  have := find_least hs (fun _ => true) this
  simpa [Least, keys_toList] using this

theorem min_none {t : Tree α} (h : t.min = none) : keys t = [] := by
  rw [min_eq] at h
  rw [keys_eq]
  cases hm : toList t with
  | nil => rfl
  | cons a m => simp [hm] at h

/-- the model-side validity of an iterator state w.r.t. the current tree: an iterator that has not
started holds no node; a node not marked deleted is in the tree -/
def IterWF (t : Tree α) (it : Iter) : Prop :=
  (it.started = false → it.node = none ∧ it.done = false) ∧ (∀ c, it.node = some (c, false) → c ∈ keys t)

/-- key under the iterator = the last key it returned -/
def pos (it : Iter) : Option Nat := it.node.map (·.1)

def GtPos (c : Option Nat) (x : Nat) : Prop := ∀ c', c = some c' → c' < x
def GePos (c : Option Nat) (x : Nat) : Prop := ∀ c', c = some c' → c' ≤ x

/-- the call returned true and stands on the live node with key `k'` -/
def Landed (r : Iter × Bool) (k' : Nat) : Prop :=
  r.2 = true ∧ r.1.node = some (k', false) ∧ r.1.started = true

/-- the call returned false and the iterator is finished for `Next` -/
def Failed (r : Iter × Bool) : Prop :=
  r.2 = false ∧ r.1.started = true ∧ (r.1.node = none ∨ r.1.done = true)

theorem start_spec (t : Tree α) (it : Iter) (hb : Bst t) :
    (∃ k', Landed (it.start t) k' ∧ (it.start t).1.done = it.done ∧ Least t (fun _ => True) k') ∨
    ((it.start t).2 = false ∧ (it.start t).1.node = none ∧ (it.start t).1.started = true ∧
      (it.start t).1.done = it.done ∧ keys t = []) := by
  unfold Iter.start
  cases hm : t.min with
  | none => exact Or.inr ⟨rfl, rfl, rfl, rfl, min_none hm⟩
  | some m =>
    obtain ⟨k', p'⟩ := m
    exact Or.inl ⟨k', ⟨rfl, rfl, rfl⟩, rfl, min_least hb hm⟩

theorem advanceLive_spec (t : Tree α) (it : Iter) (key c : Nat) (hb : Bst t)
    (hn : it.node = some (c, false)) (hc : c ∈ keys t) (hs : it.started = true) :
    (∃ k', Landed (it.advanceLive t key) k' ∧ (it.advanceLive t key).1.done = it.done ∧
        Least t (fun x => c ≤ x ∧ key ≤ x) k') ∨
    ((it.advanceLive t key).2 = false ∧ (it.advanceLive t key).1.node = none ∧
      (it.advanceLive t key).1.done = true ∧ (it.advanceLive t key).1.started = true ∧
      NoneSat t (fun x => c ≤ x ∧ key ≤ x)) := by
  unfold Iter.advanceLive
  simp only [hn]
  by_cases c1 : c < key
  · rw [if_pos c1]
    cases hl : t.lowerBound key with
    | none =>
      refine Or.inr ⟨rfl, rfl, rfl, hs, ?_⟩
      intro x hx ⟨_, h2⟩
      exact lb_none hb hl x hx h2
    | some m =>
      obtain ⟨k', p'⟩ := m
      obtain ⟨l1, l2, l3⟩ := lb_least hb hl
      refine Or.inl ⟨k', ⟨rfl, rfl, hs⟩, rfl, l1, ⟨by omega, l2⟩, ?_⟩
      intro x hx ⟨_, h2⟩
      exact l3 x hx h2
  · rw [if_neg c1]
    refine Or.inl ⟨c, ⟨rfl, hn, hs⟩, rfl, hc, ⟨Nat.le_refl _, by omega⟩, ?_⟩
    intro x _ ⟨h1, _⟩
    exact h1

theorem advanceStarted_spec (t : Tree α) (it : Iter) (key : Nat) (hb : Bst t) (hw : IterWF t it)
    (hs : it.started = true) (hn : it.node ≠ none) :
    (∃ k', Landed (it.advanceStarted t key) k' ∧ (it.advanceStarted t key).1.done = it.done ∧
        Least t (fun x => GePos (pos it) x ∧ key ≤ x) k') ∨
    (Failed (it.advanceStarted t key) ∧ (it.advanceStarted t key).1.node = none ∧
      NoneSat t (fun x => GePos (pos it) x ∧ key ≤ x)) := by
  obtain ⟨st, nd, dn⟩ := it
  simp only at hs hn
  subst hs
  unfold Iter.advanceStarted
  cases nd with
  | none => exact absurd rfl hn
  | some nd =>
    obtain ⟨c, d⟩ := nd
    have hnode : (⟨true, some (c, d), dn⟩ : Iter).node = some (c, d) := rfl
    have hpos : pos (⟨true, some (c, d), dn⟩ : Iter) = some c := by simp [pos]
    have gp : ∀ x, GePos (pos (⟨true, some (c, d), dn⟩ : Iter)) x ↔ c ≤ x := by
      intro x; rw [hpos]; simp [GePos]
    cases d with
    | false =>
      simp only
      rcases advanceLive_spec t _ key c hb hnode (hw.2 c hnode) rfl with ⟨k', hl, hd, l1, l2, l3⟩ | ⟨f1, f2, f3, f4, f5⟩
      · refine Or.inl ⟨k', hl, hd, l1, ⟨(gp k').2 l2.1, l2.2⟩, ?_⟩
        intro x hx ⟨h1, h2⟩
        exact l3 x hx ⟨(gp x).1 h1, h2⟩
      · refine Or.inr ⟨⟨f1, f4, Or.inl f2⟩, f2, ?_⟩
        intro x hx ⟨h1, h2⟩
        exact f5 x hx ⟨(gp x).1 h1, h2⟩
    | true =>
      simp only
      rcases start_spec t ⟨false, some (c, true), dn⟩ hb with ⟨k0, ⟨s1, s2, s3⟩, sd, m1, _, m3⟩ | ⟨f1, f2, f3, f4, f5⟩
      · -- restarted on the minimum k0
        cases hst : Iter.start t ⟨false, some (c, true), dn⟩ with
        | mk it1 ok1 =>
          rw [hst] at s1 s2 s3 sd
          simp only at s1 s2 s3 sd
          subst s1
          simp only
          rcases advanceLive_spec t it1 c k0 hb s2 m1 s3 with ⟨k1, ⟨a1, a2, a3⟩, ad, l1, l2, l3⟩ | ⟨g1, g2, g3, g4, g5⟩
          · cases hal : Iter.advanceLive t it1 c with
            | mk it2 ok2 =>
              rw [hal] at a1 a2 a3 ad
              simp only at a1 a2 a3 ad
              subst a1
              simp only
              rcases advanceLive_spec t it2 key k1 hb a2 l1 a3 with ⟨k2, hl2, bd, n1, n2, n3⟩ | ⟨e1, e2, e3, e4, e5⟩
              · refine Or.inl ⟨k2, hl2, by rw [bd, ad, sd], n1, ⟨(gp k2).2 (by omega), n2.2⟩, ?_⟩
                intro x hx ⟨h1, h2⟩
                have hk1 : k1 ≤ x := l3 x hx ⟨m3 x hx trivial, (gp x).1 h1⟩
                exact n3 x hx ⟨hk1, h2⟩
              · refine Or.inr ⟨⟨e1, e4, Or.inl e2⟩, e2, ?_⟩
                intro x hx ⟨h1, h2⟩
                have hk1 : k1 ≤ x := l3 x hx ⟨m3 x hx trivial, (gp x).1 h1⟩
                exact e5 x hx ⟨hk1, h2⟩
          · cases hal : Iter.advanceLive t it1 c with
            | mk it2 ok2 =>
              rw [hal] at g1 g2 g3 g4
              simp only at g1 g2 g3 g4
              subst g1
              simp only
              refine Or.inr ⟨⟨rfl, g4, Or.inl g2⟩, g2, ?_⟩
              intro x hx ⟨h1, _⟩
              exact g5 x hx ⟨m3 x hx trivial, (gp x).1 h1⟩
      · cases hst : Iter.start t ⟨false, some (c, true), dn⟩ with
        | mk it1 ok1 =>
          rw [hst] at f1 f2 f3
          simp only at f1 f2 f3
          subst f1
          simp only
          refine Or.inr ⟨⟨rfl, f3, Or.inl f2⟩, f2, ?_⟩
          intro x hx
          rw [f5] at hx; simp at hx

theorem landed_wf {t : Tree α} {r : Iter × Bool} {k' : Nat} (h : Landed r k') (hk : k' ∈ keys t) :
    IterWF t r.1 := by
  obtain ⟨_, h2, h3⟩ := h
  refine ⟨fun hs => (by rw [h3] at hs; cases hs), ?_⟩
  intro c hc
  rw [h2] at hc
  simp at hc
  exact hc ▸ hk

/-- `Advance(key)` on an iterator whose `started` flag is off (a fresh iterator, or the restart of an
iterator whose node was deleted): whatever node it held, it ends on the least key ≥ `key`. -/
theorem restart_spec (t : Tree α) (nd : Option (Nat × Bool)) (dn : Bool) (key : Nat) (hb : Bst t) :
    (∃ k', Landed (Iter.advance t ⟨false, nd, dn⟩ key) k' ∧ (Iter.advance t ⟨false, nd, dn⟩ key).1.done = dn ∧
        Least t (fun x => key ≤ x) k') ∨
    (Failed (Iter.advance t ⟨false, nd, dn⟩ key) ∧ (Iter.advance t ⟨false, nd, dn⟩ key).1.node = none ∧
      NoneSat t (fun x => key ≤ x)) := by
  unfold Iter.advance
  simp only [Bool.false_eq_true, if_false]
  rcases start_spec t ⟨false, nd, dn⟩ hb with ⟨k0, ⟨s1, s2, s3⟩, sd, m1, _, m3⟩ | ⟨f1, f2, f3, f4, f5⟩
  · cases hst : Iter.start t ⟨false, nd, dn⟩ with
    | mk it1 ok1 =>
      rw [hst] at s1 s2 s3 sd
      simp only at s1 s2 s3 sd
      subst s1
      simp only
      have hw1 : IterWF t it1 := landed_wf (r := (it1, true)) ⟨rfl, s2, s3⟩ m1
      have hp : pos it1 = some k0 := by simp [pos, s2]
      rcases advanceStarted_spec t it1 key hb hw1 s3 (by rw [s2]; simp) with ⟨k', hl, hd, l1, l2, l3⟩ | ⟨g1, g2, g3⟩
      · refine Or.inl ⟨k', hl, by rw [hd, sd], l1, l2.2, ?_⟩
        intro x hx h2
        refine l3 x hx ⟨?_, h2⟩
        rw [hp]; intro c' hc'; cases hc'; exact m3 x hx trivial
      · refine Or.inr ⟨g1, g2, ?_⟩
        intro x hx h2
        refine g3 x hx ⟨?_, h2⟩
        rw [hp]; intro c' hc'; cases hc'; exact m3 x hx trivial
  · cases hst : Iter.start t ⟨false, nd, dn⟩ with
    | mk it1 ok1 =>
      rw [hst] at f1 f2 f3
      simp only at f1 f2 f3
      subst f1
      simp only
      refine Or.inr ⟨⟨rfl, f3, Or.inl f2⟩, f2, ?_⟩
      intro x hx
      rw [f5] at hx; simp at hx

/-- **`Advance(key)`**: from any iterator that has not failed, `Advance` ends on the least key of the
current tree that is ≥ `key` and ≥ the key it stood on (staying put when that key is still there),
or returns false when there is no such key. -/
theorem advance_spec (t : Tree α) (it : Iter) (key : Nat) (hb : Bst t) (hw : IterWF t it)
    (hn : it.started = true → it.node ≠ none) :
    (∃ k', Landed (it.advance t key) k' ∧ (it.advance t key).1.done = it.done ∧
        Least t (fun x => GePos (pos it) x ∧ key ≤ x) k') ∨
    (Failed (it.advance t key) ∧ (it.advance t key).1.node = none ∧
      NoneSat t (fun x => GePos (pos it) x ∧ key ≤ x)) := by
  obtain ⟨st, nd, dn⟩ := it
  cases st with
  | true =>
    have : Iter.advance t ⟨true, nd, dn⟩ key = Iter.advanceStarted t ⟨true, nd, dn⟩ key := by
      simp [Iter.advance]
    rw [this]
    exact advanceStarted_spec t _ key hb hw rfl (hn rfl)
  | false =>
    have hnd : nd = none := (hw.1 rfl).1
    subst hnd
    have gp : ∀ x, (GePos (pos (⟨false, none, dn⟩ : Iter)) x ∧ key ≤ x) ↔ key ≤ x := by
      intro x; simp [pos, GePos]
    rcases restart_spec t none dn key hb with ⟨k', hl, hd, l1, l2, l3⟩ | ⟨g1, g2, g3⟩
    · exact Or.inl ⟨k', hl, hd, l1, (gp k').2 l2, fun x hx h => l3 x hx ((gp x).1 h)⟩
    · exact Or.inr ⟨g1, g2, fun x hx h => g3 x hx ((gp x).1 h)⟩

theorem nextLive_spec (t : Tree α) (it : Iter) (c : Nat) (hb : Bst t)
    (hnode : it.node = some (c, false)) (hc : c ∈ keys t) (hs : it.started = true) (hd : it.done = false) :
    (∃ k', Landed (it.nextLive t c) k' ∧ (it.nextLive t c).1.done = false ∧ Least t (fun x => c < x) k') ∨
    (Failed (it.nextLive t c) ∧ IterWF t (it.nextLive t c).1 ∧ NoneSat t (fun x => c < x)) := by
  unfold Iter.nextLive
  cases hsu : t.succ c with
  | none =>
    refine Or.inr ⟨⟨rfl, hs, Or.inr rfl⟩, ⟨fun h => ?_, ?_⟩, succ_none hb hsu⟩
    · simp only at h; rw [hs] at h; cases h
    · intro c' hc'
      simp only at hc'
      rw [hnode] at hc'; simp at hc'; exact hc' ▸ hc
  | some m =>
    obtain ⟨k', p'⟩ := m
    exact Or.inl ⟨k', ⟨rfl, rfl, hs⟩, hd, succ_least hb hsu⟩

/-- **`Next()`**: from any iterator that has not finished, `Next` ends on the least key of the current
tree greater than the key it stood on (the least key at all for a fresh iterator) — whether that node is
still in the tree, was deleted, or was deleted and re-inserted — or returns false when there is none. -/
theorem next_spec (t : Tree α) (it : Iter) (hb : Bst t) (hw : IterWF t it)
    (hd : it.done = false) (hn : it.started = true → it.node ≠ none) :
    (∃ k', Landed (it.next t) k' ∧ (it.next t).1.done = false ∧ Least t (GtPos (pos it)) k') ∨
    (Failed (it.next t) ∧ IterWF t (it.next t).1 ∧ NoneSat t (GtPos (pos it))) := by
  obtain ⟨st, nd, dn⟩ := it
  simp only at hd
  subst hd
  cases st with
  | false =>
    have hnd : nd = none := (hw.1 rfl).1
    subst hnd
    have e : Iter.next t ⟨false, none, false⟩ = Iter.start t ⟨false, none, false⟩ := by
      simp [Iter.next]
    rw [e]
    rcases start_spec t ⟨false, none, false⟩ hb with ⟨k0, hl, sd, m1, _, m3⟩ | ⟨f1, f2, f3, f4, f5⟩
    · refine Or.inl ⟨k0, hl, sd, m1, ?_, ?_⟩
      · intro c' hc'; simp [pos] at hc'
      · intro x hx _; exact m3 x hx trivial
    · refine Or.inr ⟨⟨f1, f3, Or.inl f2⟩, ⟨fun h => (by rw [f3] at h; cases h), ?_⟩, ?_⟩
      · intro c hc; rw [f2] at hc; cases hc
      · intro x hx; rw [f5] at hx; simp at hx
  | true =>
    cases nd with
    | none => exact absurd rfl (hn rfl)
    | some nd =>
      obtain ⟨c, d⟩ := nd
      have gp : ∀ x, GtPos (pos (⟨true, some (c, d), false⟩ : Iter)) x ↔ c < x := by
        intro x; simp [pos, GtPos]
      cases d with
      | false =>
        have e : Iter.next t ⟨true, some (c, false), false⟩ = Iter.nextLive t ⟨true, some (c, false), false⟩ c := by
          simp [Iter.next]
        rw [e]
        rcases nextLive_spec t ⟨true, some (c, false), false⟩ c hb rfl (hw.2 c rfl) rfl rfl with
          ⟨k', hl, hd', l1, l2, l3⟩ | ⟨g1, g2, g3⟩
        · exact Or.inl ⟨k', hl, hd', l1, (gp k').2 l2, fun x hx h => l3 x hx ((gp x).1 h)⟩
        · exact Or.inr ⟨g1, g2, fun x hx h => g3 x hx ((gp x).1 h)⟩
      | true =>
        have e : Iter.next t ⟨true, some (c, true), false⟩ =
            (match Iter.advance t ⟨false, some (c, true), false⟩ c with
              | (it1, false) => (it1, false)
              | (it1, true) =>
                match it1.node with
                | some (c', _) => if c' = c then it1.nextLive t c else (it1, true)
                | none => (it1, true)) := rfl
        rw [e]
        rcases restart_spec t (some (c, true)) false c hb with ⟨k', ⟨a1, a2, a3⟩, ad, l1, l2, l3⟩ | ⟨⟨g1, g2, g3⟩, g4, g5⟩
        · cases hadv : Iter.advance t ⟨false, some (c, true), false⟩ c with
          | mk it1 ok1 =>
            rw [hadv] at a1 a2 a3 ad
            simp only at a1 a2 a3 ad
            subst a1
            simp only [a2]
            by_cases hk : k' = c
            · subst hk
              simp only [if_true]
              rcases nextLive_spec t it1 k' hb a2 l1 a3 ad with ⟨k2, hl, hd', n1, n2, n3⟩ | ⟨e1, e2, e3⟩
              · exact Or.inl ⟨k2, hl, hd', n1, (gp k2).2 n2, fun x hx h => n3 x hx ((gp x).1 h)⟩
              · exact Or.inr ⟨e1, e2, fun x hx h => e3 x hx ((gp x).1 h)⟩
            · simp only [hk, if_false]
              refine Or.inl ⟨k', ⟨rfl, a2, a3⟩, ad, l1, (gp k').2 (by omega), ?_⟩
              intro x hx h
              exact l3 x hx (Nat.le_of_lt ((gp x).1 h))
        · cases hadv : Iter.advance t ⟨false, some (c, true), false⟩ c with
          | mk it1 ok1 =>
            rw [hadv] at g1 g2 g3 g4
            simp only at g1 g2 g3 g4
            subst g1
            simp only
            refine Or.inr ⟨⟨rfl, g2, Or.inl g4⟩, ⟨fun h => (by rw [g2] at h; cases h), ?_⟩, ?_⟩
            · intro c' hc'; rw [g4] at hc'; cases hc'
            · intro x hx h
              exact g5 x hx (Nat.le_of_lt ((gp x).1 h))

/-- the branch of the model's `Next` marked unreachable is unreachable: a successful `Advance` stands on a node -/
theorem advance_ok_node (t : Tree α) (nd : Option (Nat × Bool)) (dn : Bool) (key : Nat) (hb : Bst t)
    (h : (Iter.advance t ⟨false, nd, dn⟩ key).2 = true) :
    (Iter.advance t ⟨false, nd, dn⟩ key).1.node.isSome = true := by
  rcases restart_spec t nd dn key hb with ⟨k', ⟨_, a2, _⟩, _⟩ | ⟨⟨g1, _⟩, _⟩
  · simp [a2]
  · rw [g1] at h; cases h

theorem next_wf (t : Tree α) (it : Iter) (hb : Bst t) (hw : IterWF t it) : IterWF t (it.next t).1 := by
  by_cases hd : it.done = false
  · by_cases hn : it.started = true → it.node ≠ none
    · rcases next_spec t it hb hw hd hn with ⟨k', hl, _, l1, _⟩ | ⟨_, g2, _⟩
      · exact landed_wf hl l1
      · exact g2
    · have hs : it.started = true := by
        cases h : it.started with
        | true => rfl
        | false => exact absurd (fun h' => by rw [h] at h'; cases h') hn
      have hnone : it.node = none := by
        cases h : it.node with
        | none => rfl
        | some nd => exact absurd (fun _ => by rw [h]; simp) hn
      have : it.next t = (it, false) := by simp [Iter.next, hs, hnone]
      rw [this]; exact hw
  · have hd' : it.done = true := by cases h : it.done <;> simp_all
    have hs : it.started = true := by
      cases h : it.started with
      | true => rfl
      | false => have := (hw.1 h).2; rw [hd'] at this; cases this
    have : it.next t = (it, false) := by
      cases hnode : it.node with
      | none => simp [Iter.next, hs, hnode]
      | some nd => simp [Iter.next, hs, hnode, hd']
    rw [this]; exact hw

theorem advance_wf (t : Tree α) (it : Iter) (key : Nat) (hb : Bst t) (hw : IterWF t it) :
    IterWF t (it.advance t key).1 := by
  by_cases hn : it.started = true → it.node ≠ none
  · rcases advance_spec t it key hb hw hn with ⟨k', hl, _, l1, _⟩ | ⟨⟨_, g2, _⟩, g4, _⟩
    · exact landed_wf hl l1
    · exact ⟨fun h => (by rw [g2] at h; cases h), fun c hc => (by rw [g4] at hc; cases hc)⟩
  · have hs : it.started = true := by
      cases h : it.started with
      | true => rfl
      | false => exact absurd (fun h' => by rw [h] at h'; cases h') hn
    have hnone : it.node = none := by
      cases h : it.node with
      | none => rfl
      | some nd => exact absurd (fun _ => by rw [h]; simp) hn
    have : it.advance t key = (it, false) := by simp [Iter.advance, Iter.advanceStarted, hs, hnone]
    rw [this]; exact hw

/-- a `Next` that returns true was made on an iterator that had not finished -/
theorem next_true_pre (t : Tree α) (it : Iter) (h : (it.next t).2 = true) (hw : IterWF t it) :
    it.done = false ∧ (it.started = true → it.node ≠ none) := by
  obtain ⟨st, nd, dn⟩ := it
  cases st with
  | false => exact ⟨(hw.1 rfl).2, fun h => by cases h⟩
  | true =>
    cases nd with
    | none => simp [Iter.next] at h
    | some nd =>
      cases dn with
      | true => simp [Iter.next] at h
      | false => exact ⟨rfl, fun _ => by simp⟩

/-- **continues in order, never repeats**: a value returned by `Next` is strictly greater than the one
the iterator stood on, whatever edits happened in between. -/
theorem iter_monotone (t : Tree α) (it : Iter) (hb : Bst t) (hw : IterWF t it)
    (h : (it.next t).2 = true) :
    ∃ k', (it.next t).1.node = some (k', false) ∧ ∀ c, pos it = some c → c < k' := by
  obtain ⟨hd, hn⟩ := next_true_pre t it h hw
  rcases next_spec t it hb hw hd hn with ⟨k', ⟨_, a2, _⟩, _, _, l2, _⟩ | ⟨⟨g1, _⟩, _⟩
  · exact ⟨k', a2, l2⟩
  · rw [g1] at h; cases h

/-- **never returns a value after it was deleted**: a value returned by `Next` is in the tree now. -/
theorem iter_no_deleted (t : Tree α) (it : Iter) (hb : Bst t) (hw : IterWF t it)
    (h : (it.next t).2 = true) :
    ∃ k', (it.next t).1.node = some (k', false) ∧ k' ∈ keys t := by
  obtain ⟨hd, hn⟩ := next_true_pre t it h hw
  rcases next_spec t it hb hw hd hn with ⟨k', ⟨_, a2, _⟩, _, l1, _⟩ | ⟨⟨g1, _⟩, _⟩
  · exact ⟨k', a2, l1⟩
  · rw [g1] at h; cases h

/-- **returns every value present**: `Next` skips no key of the current tree above the iterator's
position, and it only gives up (first false) when no such key exists. -/
theorem iter_complete (t : Tree α) (it : Iter) (hb : Bst t) (hw : IterWF t it)
    (hd : it.done = false) (hn : it.started = true → it.node ≠ none) :
    ((it.next t).2 = true → ∃ k', (it.next t).1.node = some (k', false) ∧
        ∀ x ∈ keys t, GtPos (pos it) x → k' ≤ x) ∧
    ((it.next t).2 = false → ∀ x ∈ keys t, ¬ GtPos (pos it) x) := by
  rcases next_spec t it hb hw hd hn with ⟨k', ⟨a1, a2, _⟩, _, _, _, l3⟩ | ⟨⟨g1, _⟩, _, g3⟩
  · exact ⟨fun _ => ⟨k', a2, l3⟩, fun h => by rw [a1] at h; cases h⟩
  · exact ⟨fun h => (by rw [g1] at h; cases h), fun _ => g3⟩


/-! ## whole histories with open iterators -/

/-- A list, its open iterators, and next to each iterator the caller-side tracker of
`B6.Spec.IterClauses` — what the C07 driver keeps per case. -/
structure Sim (α : Type) where
  list : TreeList α
  its : List (Iter × Cur)

/-- One call of the history: the model performs it, the tracker judges what the iterator call
returned (`clause`) and is updated.  The list/iterator part is `World.step` (`sim_world`). -/
def Sim.step (s : Sim α) : Op α → Option (Sim α × Option String)
  | .ins k p =>
    match s.list.insert k p with
    | some l => some (⟨l, s.its⟩, none)
    | none => none
  | .del k =>
    match s.list.delete k with
    | some (l, found) =>
      some (⟨l, s.its.map fun (it, c) => (if found then it.onDelete k else it, c.onDelete k)⟩, none)
    | none => none
  | .begin => some (⟨s.list, s.its ++ [((⟨false, none, false⟩ : Iter), Cur.begin (keys s.list.root))]⟩, none)
  | .next i =>
    match s.its[i]? with
    | some (it, c) =>
      let r := it.next s.list.root
      let ret := if r.2 then r.1.node.map (·.1) else none
      some (⟨s.list, s.its.set i (r.1, c.update ret)⟩, clause (keys s.list.root) c none ret)
    | none => none
  | .adv i k =>
    match s.its[i]? with
    | some (it, c) =>
      let r := it.advance s.list.root k
      let ret := if r.2 then r.1.node.map (·.1) else none
      some (⟨s.list, s.its.set i (r.1, c.update ret)⟩, clause (keys s.list.root) c (some k) ret)
    | none => none

def Sim.run (s : Sim α) : List (Op α) → Option (Sim α × List (Option String))
  | [] => some (s, [])
  | op :: ops =>
    match s.step op with
    | none => none
    | some (s', cl) =>
      match Sim.run s' ops with
      | none => none
      | some (s'', cls) => some (s'', cl :: cls)

def Sim.toWorld (s : Sim α) : World α := ⟨s.list, s.its.map (·.1)⟩

/-- the tracker is in step with the model iterator -/
def Rel (t : Tree α) (it : Iter) (c : Cur) : Prop :=
  (∀ x ∈ c.owed, x ∈ keys t) ∧
  (c.dead = false → it.done = false ∧ (it.started = true → it.node ≠ none) ∧ c.pos = pos it)

def SimInv (s : Sim α) : Prop :=
  WF s.list ∧ ∀ p ∈ s.its, IterWF s.list.root p.1 ∧ Rel s.list.root p.1 p.2

theorem siminv_empty : SimInv (⟨TreeList.empty, []⟩ : Sim α) := ⟨wf_empty, by simp⟩

theorem posLt_iff (c : Option Nat) (x : Nat) : posLt c x = true ↔ GtPos c x := by
  cases c <;> simp [posLt, GtPos]

theorem posLe_iff (c : Option Nat) (x : Nat) : posLe c x = true ↔ GePos c x := by
  cases c <;> simp [posLe, GePos]

theorem mem_keys_insert {m : SortedMap.SMap α} {k : Nat} {p : α} {x : Nat}
    (h : x ∈ SortedMap.keys m) : x ∈ SortedMap.keys (SortedMap.insert m k p) := by
  induction m with
  | nil => simp [SortedMap.keys] at h
  | cons a m ih =>
    obtain ⟨a, ap⟩ := a
    simp only [SortedMap.keys, List.map_cons, List.mem_cons] at h
    unfold SortedMap.insert
    split
    · simp only [SortedMap.keys, List.map_cons, List.mem_cons]
      rcases h with h | h
      · exact Or.inl h
      · exact Or.inr (ih h)
    · split
      · simp only [SortedMap.keys, List.map_cons, List.mem_cons]
        rcases h with h | h
        · exact Or.inl (by omega)
        · exact Or.inr h
      · simp only [SortedMap.keys, List.map_cons, List.mem_cons]
        exact Or.inr h

theorem mem_keys_erase {m : SortedMap.SMap α} {k x : Nat}
    (h : x ∈ SortedMap.keys m) (hx : x ≠ k) : x ∈ SortedMap.keys (SortedMap.erase m k) := by
  induction m with
  | nil => simp [SortedMap.keys] at h
  | cons a m ih =>
    obtain ⟨a, ap⟩ := a
    simp only [SortedMap.keys, List.map_cons, List.mem_cons] at h
    unfold SortedMap.erase
    split
    · rcases h with h | h
      · omega
      · exact h
    · simp only [SortedMap.keys, List.map_cons, List.mem_cons]
      rcases h with h | h
      · exact Or.inl h
      · exact Or.inr (ih h)

theorem gt_ge {c : Option Nat} {x : Nat} (h : GtPos c x) : GePos c x :=
  fun c' hc => Nat.le_of_lt (h c' hc)

theorem clause_dead (ks : List Nat) (c : Cur) (tg ret : Option Nat) (h : c.dead = true) :
    clause ks c tg ret = none := by simp [clause, h]

theorem clause_next_landed (ks : List Nat) (c : Cur) (k' : Nat)
    (h1 : GtPos c.pos k') (h2 : k' ∈ ks) (h3 : ∀ x ∈ c.owed, x ∈ ks)
    (h4 : ∀ x ∈ ks, GtPos c.pos x → k' ≤ x) : clause ks c none (some k') = none := by
  unfold clause
  split
  · rfl
  · have e1 : posLt c.pos k' = true := (posLt_iff _ _).2 h1
    have e3 : c.owed.any (fun x => posLt c.pos x && decide (x < k')) = false := by
      rw [List.any_eq_false]
      intro x hx
      simp only [Bool.and_eq_true, decide_eq_true_eq, not_and]
      intro hp
      have := h4 x (h3 x hx) ((posLt_iff _ _).1 hp)
      omega
    simp [e1, h2, e3]

theorem clause_next_failed (ks : List Nat) (c : Cur)
    (h3 : ∀ x ∈ c.owed, x ∈ ks) (h4 : ∀ x ∈ ks, ¬ GtPos c.pos x) : clause ks c none none = none := by
  unfold clause
  split
  · rfl
  · have e3 : c.owed.any (fun x => posLt c.pos x) = false := by
      rw [List.any_eq_false]
      intro x hx hp
      exact h4 x (h3 x hx) ((posLt_iff _ _).1 hp)
    simp [e3]

theorem clause_adv_landed (ks : List Nat) (c : Cur) (key k' : Nat)
    (h1 : GePos c.pos k' ∧ key ≤ k') (h2 : k' ∈ ks) (h3 : ∀ x ∈ c.owed, x ∈ ks)
    (h4 : ∀ x ∈ ks, GePos c.pos x ∧ key ≤ x → k' ≤ x) : clause ks c (some key) (some k') = none := by
  unfold clause
  split
  · rfl
  · have e1 : posLe c.pos k' = true := (posLe_iff _ _).2 h1.1
    have e3 : c.owed.any (fun x => posLt c.pos x && decide (key ≤ x) && decide (x < k')) = false := by
      rw [List.any_eq_false]
      intro x hx
      simp only [Bool.and_eq_true, decide_eq_true_eq, not_and]
      intro ⟨hp, hk⟩
      have := h4 x (h3 x hx) ⟨gt_ge ((posLt_iff _ _).1 hp), hk⟩
      omega
    simp [e1, h2, e3, h1.2]

theorem clause_adv_failed (ks : List Nat) (c : Cur) (key : Nat)
    (h3 : ∀ x ∈ c.owed, x ∈ ks) (h4 : ∀ x ∈ ks, ¬ (GePos c.pos x ∧ key ≤ x)) :
    clause ks c (some key) none = none := by
  unfold clause
  split
  · rfl
  · have e3 : c.owed.any (fun x => posLt c.pos x && decide (key ≤ x)) = false := by
      rw [List.any_eq_false]
      intro x hx
      simp only [Bool.and_eq_true, decide_eq_true_eq, not_and]
      intro hp hk
      exact h4 x (h3 x hx) ⟨gt_ge ((posLt_iff _ _).1 hp), hk⟩
    simp [e3]

theorem keys_root_eq (l : TreeList α) : keys l.root = SortedMap.keys l.toList := by
  rw [TreeList.toList, keys_toList]

theorem onDelete_pos (it : Iter) (k : Nat) : pos (it.onDelete k) = pos it := by
  unfold Iter.onDelete pos
  split
  · rename_i c hc
    split <;> simp [hc]
  · rfl

theorem onDelete_fields (it : Iter) (k : Nat) :
    (it.onDelete k).started = it.started ∧ (it.onDelete k).done = it.done ∧
    ((it.onDelete k).node = none ↔ it.node = none) := by
  unfold Iter.onDelete
  split
  · rename_i c hc
    split <;> simp [hc]
  · simp

theorem onDelete_live (it : Iter) (k c : Nat) (h : (it.onDelete k).node = some (c, false)) :
    it.node = some (c, false) ∧ c ≠ k := by
  unfold Iter.onDelete at h
  split at h
  · rename_i c0 hc0
    split at h
    · simp at h
    · rename_i hne
      rw [hc0] at h; simp at h; subst h
      exact ⟨hc0, hne⟩
  · rename_i hne
    refine ⟨h, ?_⟩
    intro hk
    exact hne c (hk ▸ h)

theorem step_ins (s : Sim α) (k : Nat) (p : α) (h : SimInv s) :
    ∃ l, s.list.insert k p = some l ∧ SimInv ⟨l, s.its⟩ := by
  obtain ⟨hwf, hits⟩ := h
  obtain ⟨l, e, hwf', hl⟩ := treelist_insert s.list k p hwf
  refine ⟨l, e, hwf', ?_⟩
  have sub : ∀ x ∈ keys s.list.root, x ∈ keys l.root := by
    intro x hx
    rw [keys_root_eq] at hx ⊢
    rw [hl]; exact mem_keys_insert hx
  intro q hq
  obtain ⟨⟨w1, w2⟩, r1, r2⟩ := hits q hq
  exact ⟨⟨w1, fun c hc => sub c (w2 c hc)⟩, fun x hx => sub x (r1 x hx), r2⟩

theorem step_del (s : Sim α) (k : Nat) (h : SimInv s) :
    ∃ l f, s.list.delete k = some (l, f) ∧
      SimInv ⟨l, s.its.map fun (it, c) => (if f then it.onDelete k else it, c.onDelete k)⟩ := by
  obtain ⟨hwf, hits⟩ := h
  obtain ⟨l, f, e, hwf', hl, hf⟩ := treelist_delete s.list k hwf
  refine ⟨l, f, e, hwf', ?_⟩
  have sub : ∀ x ∈ keys s.list.root, x ≠ k → x ∈ keys l.root := by
    intro x hx hne
    rw [keys_root_eq] at hx ⊢
    rw [hl]; exact mem_keys_erase hx hne
  intro q hq
  simp only [List.mem_map] at hq
  obtain ⟨⟨it, c⟩, hmem, rfl⟩ := hq
  obtain ⟨⟨w1, w2⟩, r1, r2⟩ := hits (it, c) hmem
  simp only at w1 w2 r1 r2 ⊢
  have hrel_owed : ∀ x ∈ (c.onDelete k).owed, x ∈ keys l.root := by
    intro x hx
    simp only [Cur.onDelete, List.mem_filter, bne_iff_ne, ne_eq] at hx
    exact sub x (r1 x hx.1) hx.2
  cases f with
  | true =>
    simp only [if_true]
    obtain ⟨f1, f2, f3⟩ := onDelete_fields it k
    refine ⟨⟨?_, ?_⟩, hrel_owed, ?_⟩
    · intro hs
      rw [f1] at hs
      obtain ⟨n1, n2⟩ := w1 hs
      exact ⟨f3.2 n1, by rw [f2]; exact n2⟩
    · intro c' hc'
      obtain ⟨g1, g2⟩ := onDelete_live it k c' hc'
      exact sub c' (w2 c' g1) g2
    · intro hd
      obtain ⟨d1, d2, d3⟩ := r2 hd
      refine ⟨by rw [f2]; exact d1, ?_, by rw [onDelete_pos]; exact d3⟩
      intro hs hn
      rw [f1] at hs
      exact d2 hs (f3.1 hn)
  | false =>
    simp only [Bool.false_eq_true, if_false]
    have hk : k ∉ keys s.list.root := fun hm => by have := hf.2 hm; cases this
    refine ⟨⟨w1, ?_⟩, hrel_owed, r2⟩
    intro c' hc'
    have hm := w2 c' hc'
    exact sub c' hm (fun e => hk (e ▸ hm))

theorem step_begin (s : Sim α) (h : SimInv s) :
    SimInv ⟨s.list, s.its ++ [((⟨false, none, false⟩ : Iter), Cur.begin (keys s.list.root))]⟩ := by
  obtain ⟨hwf, hits⟩ := h
  refine ⟨hwf, ?_⟩
  intro q hq
  simp only [List.mem_append, List.mem_singleton] at hq
  rcases hq with hq | rfl
  · exact hits q hq
  · refine ⟨⟨fun _ => ⟨rfl, rfl⟩, fun c hc => by cases hc⟩, fun x hx => hx, ?_⟩
    intro _
    exact ⟨rfl, fun h => (by cases h), rfl⟩

theorem update_owed (c : Cur) (ret : Option Nat) : (c.update ret).owed = c.owed := by
  cases ret <;> rfl

theorem update_alive {c : Cur} {ret : Option Nat} (h : (c.update ret).dead = false) :
    c.dead = false ∧ ∃ k', ret = some k' ∧ (c.update ret).pos = some k' := by
  cases ret with
  | none => simp [Cur.update] at h
  | some k' => exact ⟨h, k', rfl, rfl⟩

/-- judgement and bookkeeping of one `Next` -/
theorem judge_next (t : Tree α) (it : Iter) (c : Cur) (hb : Bst t) (hw : IterWF t it) (hr : Rel t it c) :
    let r := it.next t
    let ret := if r.2 then r.1.node.map (·.1) else none
    clause (keys t) c none ret = none ∧ IterWF t r.1 ∧ Rel t r.1 (c.update ret) := by
  intro r ret
  have hwf' : IterWF t r.1 := next_wf t it hb hw
  cases hdead : c.dead with
  | true =>
    refine ⟨clause_dead _ _ _ _ hdead, hwf', by rw [update_owed]; exact hr.1, ?_⟩
    intro h
    have := (update_alive h).1
    rw [hdead] at this; cases this
  | false =>
    obtain ⟨hd, hn, hp⟩ := hr.2 hdead
    rcases next_spec t it hb hw hd hn with ⟨k', ⟨a1, a2, a3⟩, ad, l1, l2, l3⟩ | ⟨⟨g1, g2, g3⟩, _, g5⟩
    · have hret : ret = some k' := by
        show (if r.2 then r.1.node.map (·.1) else none) = some k'
        rw [a1, a2]; rfl
      rw [hret]
      refine ⟨clause_next_landed _ _ _ (hp ▸ l2) l1 hr.1 (fun x hx h => l3 x hx (hp ▸ h)), hwf', hr.1, ?_⟩
      intro _
      refine ⟨ad, fun _ => by rw [a2]; simp, ?_⟩
      show some k' = Option.map (fun x => x.fst) r.1.node
      show some k' = Option.map (fun x => x.fst) (Iter.next t it).1.node
      rw [a2]; rfl
    · have hret : ret = none := by
        show (if r.2 then r.1.node.map (·.1) else none) = none
        rw [g1]; rfl
      rw [hret]
      refine ⟨clause_next_failed _ _ hr.1 (fun x hx h => g5 x hx (hp ▸ h)), hwf', hr.1, ?_⟩
      intro h
      simp [Cur.update] at h

/-- judgement and bookkeeping of one `Advance(key)` -/
theorem judge_adv (t : Tree α) (it : Iter) (c : Cur) (key : Nat) (hb : Bst t) (hw : IterWF t it)
    (hr : Rel t it c) :
    let r := it.advance t key
    let ret := if r.2 then r.1.node.map (·.1) else none
    clause (keys t) c (some key) ret = none ∧ IterWF t r.1 ∧ Rel t r.1 (c.update ret) := by
  intro r ret
  have hwf' : IterWF t r.1 := advance_wf t it key hb hw
  cases hdead : c.dead with
  | true =>
    refine ⟨clause_dead _ _ _ _ hdead, hwf', by rw [update_owed]; exact hr.1, ?_⟩
    intro h
    have := (update_alive h).1
    rw [hdead] at this; cases this
  | false =>
    obtain ⟨hd, hn, hp⟩ := hr.2 hdead
    rcases advance_spec t it key hb hw hn with ⟨k', ⟨a1, a2, a3⟩, ad, l1, l2, l3⟩ | ⟨⟨g1, g2, g3⟩, _, g5⟩
    · have hret : ret = some k' := by
        show (if r.2 then r.1.node.map (·.1) else none) = some k'
        rw [a1, a2]; rfl
      rw [hret]
      refine ⟨clause_adv_landed _ _ _ _ (hp ▸ l2) l1 hr.1 (fun x hx h => l3 x hx (hp ▸ h)), hwf', hr.1, ?_⟩
      intro _
      refine ⟨by rw [ad]; exact hd, fun _ => by rw [a2]; simp, ?_⟩
      show some k' = Option.map (fun x => x.fst) (Iter.advance t it key).1.node
      rw [a2]; rfl
    · have hret : ret = none := by
        show (if r.2 then r.1.node.map (·.1) else none) = none
        rw [g1]; rfl
      rw [hret]
      refine ⟨clause_adv_failed _ _ _ hr.1 (fun x hx h => g5 x hx (hp ▸ h)), hwf', hr.1, ?_⟩
      intro h
      simp [Cur.update] at h

theorem siminv_set (s : Sim α) (i : Nat) (q : Iter × Cur) (h : SimInv s)
    (hq : IterWF s.list.root q.1 ∧ Rel s.list.root q.1 q.2) : SimInv ⟨s.list, s.its.set i q⟩ := by
  refine ⟨h.1, ?_⟩
  intro p hp
  rcases List.mem_or_eq_of_mem_set hp with hp | rfl
  · exact h.2 p hp
  · exact hq

/-- **one step of any history**: from a state that satisfies the invariant, a call does not panic (the
only `none` is an iterator index that was never opened), the invariant holds afterwards, and the
iterator clauses of the property accept what the call returned. -/
theorem trace_step (s : Sim α) (op : Op α) (h : SimInv s) :
    (∀ s' cl, s.step op = some (s', cl) → SimInv s' ∧ cl = none) ∧
    (s.step op = none → ∃ i, (op = .next i ∨ ∃ k, op = .adv i k) ∧ s.its.length ≤ i) := by
  have hb : Bst s.list.root := h.1.1.1
  cases op with
  | ins k p =>
    obtain ⟨l, e, hi⟩ := step_ins s k p h
    simp only [Sim.step, e]
    exact ⟨fun s' cl he => by simp at he; obtain ⟨rfl, rfl⟩ := he; exact ⟨hi, rfl⟩, fun he => by simp at he⟩
  | del k =>
    obtain ⟨l, f, e, hi⟩ := step_del s k h
    simp only [Sim.step, e]
    exact ⟨fun s' cl he => by simp at he; obtain ⟨rfl, rfl⟩ := he; exact ⟨hi, rfl⟩, fun he => by simp at he⟩
  | begin =>
    simp only [Sim.step]
    exact ⟨fun s' cl he => by simp at he; obtain ⟨rfl, rfl⟩ := he; exact ⟨step_begin s h, rfl⟩,
      fun he => by simp at he⟩
  | next i =>
    simp only [Sim.step]
    cases hi : s.its[i]? with
    | none =>
      refine ⟨fun s' cl he => by simp at he, fun _ => ⟨i, Or.inl rfl, ?_⟩⟩
      exact List.getElem?_eq_none_iff.1 hi
    | some q =>
      obtain ⟨it, c⟩ := q
      have hm : (it, c) ∈ s.its := List.mem_of_getElem? hi
      obtain ⟨hw, hr⟩ := h.2 _ hm
      obtain ⟨j1, j2, j3⟩ := judge_next s.list.root it c hb hw hr
      refine ⟨fun s' cl he => ?_, fun he => by simp at he⟩
      simp only [Option.some.injEq, Prod.mk.injEq] at he
      obtain ⟨rfl, rfl⟩ := he
      exact ⟨siminv_set s i _ h ⟨j2, j3⟩, j1⟩
  | adv i k =>
    simp only [Sim.step]
    cases hi : s.its[i]? with
    | none =>
      refine ⟨fun s' cl he => by simp at he, fun _ => ⟨i, Or.inr ⟨k, rfl⟩, ?_⟩⟩
      exact List.getElem?_eq_none_iff.1 hi
    | some q =>
      obtain ⟨it, c⟩ := q
      have hm : (it, c) ∈ s.its := List.mem_of_getElem? hi
      obtain ⟨hw, hr⟩ := h.2 _ hm
      obtain ⟨j1, j2, j3⟩ := judge_adv s.list.root it c k hb hw hr
      refine ⟨fun s' cl he => ?_, fun he => by simp at he⟩
      simp only [Option.some.injEq, Prod.mk.injEq] at he
      obtain ⟨rfl, rfl⟩ := he
      exact ⟨siminv_set s i _ h ⟨j2, j3⟩, j1⟩

/-- **any history**: for ALL interleavings of insert, delete, re-insert, `begin`, `Next` and `Advance`,
starting from the empty list (or any state satisfying the invariant), every iterator call is accepted
by the property's iterator clauses — returned keys increase (strictly for `Next`), each returned key
is in the list when it is returned, no key that has been in the list ever since the iterator was opened
is skipped, and a false return leaves none of them behind — and the list stays a valid AVL tree. -/
theorem trace_ok (s : Sim α) (ops : List (Op α)) (h : SimInv s) (s' : Sim α) (cls : List (Option String))
    (hr : s.run ops = some (s', cls)) : SimInv s' ∧ ∀ cl ∈ cls, cl = none := by
  induction ops generalizing s cls with
  | nil =>
    simp [Sim.run] at hr; obtain ⟨rfl, rfl⟩ := hr
    exact ⟨h, by simp⟩
  | cons op ops ih =>
    unfold Sim.run at hr
    split at hr
    · cases hr
    · rename_i s1 cl he
      split at hr
      · cases hr
      · rename_i s2 cls2 he2
        simp only [Option.some.injEq, Prod.mk.injEq] at hr
        obtain ⟨rfl, rfl⟩ := hr
        obtain ⟨h1, hc⟩ := (trace_step s op h).1 s1 cl he
        obtain ⟨h2, hcs⟩ := ih s1 h1 cls2 he2
        refine ⟨h2, ?_⟩
        intro c hcm
        simp only [List.mem_cons] at hcm
        rcases hcm with rfl | hcm
        · exact hc
        · exact hcs c hcm

example : (Sim.run (⟨TreeList.empty, []⟩ : Sim Nat)
    [.ins 5 0, .ins 3 1, .ins 8 2, .begin, .next 0, .next 0, .del 5, .ins 5 3, .del 8, .next 0, .ins 9 4,
     .adv 0 4, .next 0, .next 0]).map (·.2) =
    some [none, none, none, none, none, none, none, none, none, none, none, none, none, none] := by decide

/-- the list-and-iterators part of `Sim.step` is the model's `World.step` (the function the C07 driver
runs against the implementation) -/
theorem sim_world (s : Sim α) (op : Op α) :
    (s.step op).map (fun r => r.1.toWorld) = (s.toWorld.step op).map (·.1) := by
  cases op with
  | ins k p =>
    simp only [Sim.step, World.step, Sim.toWorld]
    cases s.list.insert k p <;> rfl
  | del k =>
    simp only [Sim.step, World.step, Sim.toWorld]
    cases s.list.delete k with
    | none => rfl
    | some r =>
      obtain ⟨l, f⟩ := r
      cases f <;> simp [List.map_map, Function.comp_def]
  | begin => simp [Sim.step, World.step, Sim.toWorld]
  | next i =>
    simp only [Sim.step, World.step, Sim.toWorld, List.getElem?_map]
    cases s.its[i]? with
    | none => rfl
    | some q => obtain ⟨it, c⟩ := q; simp [List.map_set]
  | adv i k =>
    simp only [Sim.step, World.step, Sim.toWorld, List.getElem?_map]
    cases s.its[i]? with
    | none => rfl
    | some q => obtain ⟨it, c⟩ := q; simp [List.map_set]


/-! ## TreeIndex: the token tree and every per-token list stay valid -/

theorem lookup_mem {t : Tree α} {k : Nat} {v : α} (h : t.lookup k = some v) : (k, v) ∈ toList t := by
  induction t with
  | nil => simp [Tree.lookup] at h
  | node l x xp b r ihl ihr =>
    unfold Tree.lookup at h
    simp only [toList, List.mem_append, List.mem_cons]
    split at h
    · exact Or.inr (Or.inr (ihr h))
    · split at h
      · exact Or.inl (ihl h)
      · simp at h; subst h
        have : x = k := by omega
        subst this
        exact Or.inr (Or.inl rfl)

theorem update_keys (t : Tree α) (k : Nat) (f : α → α) : keys (t.update k f) = keys t := by
  induction t with
  | nil => rfl
  | node l x xp b r ihl ihr =>
    unfold Tree.update
    split
    · simp [keys, ihr]
    · split <;> simp [keys, ihl]

theorem update_height (t : Tree α) (k : Nat) (f : α → α) : height (t.update k f) = height t := by
  induction t with
  | nil => rfl
  | node l x xp b r ihl ihr =>
    unfold Tree.update
    split
    · simp [height, ihr]
    · split <;> simp [height, ihl]

theorem update_inv (t : Tree α) (k : Nat) (f : α → α) (h : Inv t) : Inv (t.update k f) := by
  obtain ⟨hbst, hbal⟩ := h
  constructor
  · induction t with
    | nil => trivial
    | node l x xp b r ihl ihr =>
      obtain ⟨h1, h2, h3, h4⟩ := hbst
      unfold Tree.update
      split
      · exact ⟨h1, ihr h2 hbal.2.1, h3, by rw [update_keys]; exact h4⟩
      · split
        · exact ⟨ihl h1 hbal.1, h2, by rw [update_keys]; exact h3, h4⟩
        · exact ⟨h1, h2, h3, h4⟩
  · induction t with
    | nil => trivial
    | node l x xp b r ihl ihr =>
      obtain ⟨h1, h2, h3, h4, h5⟩ := hbal
      unfold Tree.update
      split
      · exact ⟨h1, ihr hbst.2.1 h2, by rw [update_height]; exact h3, h4, h5⟩
      · split
        · exact ⟨ihl hbst.1 h1, h2, by rw [update_height]; exact h3, h4, h5⟩
        · exact ⟨h1, h2, h3, h4, h5⟩

theorem update_mem (t : Tree α) (k : Nat) (f : α → α) (e : Nat × α) (h : e ∈ toList (t.update k f)) :
    e ∈ toList t ∨ ∃ v, (k, v) ∈ toList t ∧ e = (k, f v) := by
  induction t with
  | nil => simp [Tree.update, toList] at h
  | node l x xp b r ihl ihr =>
    unfold Tree.update at h
    simp only [toList, List.mem_append, List.mem_cons]
    split at h
    · simp only [toList, List.mem_append, List.mem_cons] at h
      rcases h with h | h | h
      · exact Or.inl (Or.inl h)
      · exact Or.inl (Or.inr (Or.inl h))
      · rcases ihr h with h | ⟨v, hv, he⟩
        · exact Or.inl (Or.inr (Or.inr h))
        · exact Or.inr ⟨v, Or.inr (Or.inr hv), he⟩
    · split at h
      · simp only [toList, List.mem_append, List.mem_cons] at h
        rcases h with h | h | h
        · rcases ihl h with h | ⟨v, hv, he⟩
          · exact Or.inl (Or.inl h)
          · exact Or.inr ⟨v, Or.inl hv, he⟩
        · exact Or.inl (Or.inr (Or.inl h))
        · exact Or.inl (Or.inr (Or.inr h))
      · have hx : x = k := by omega
        subst hx
        simp only [toList, List.mem_append, List.mem_cons] at h
        rcases h with h | h | h
        · exact Or.inl (Or.inl h)
        · exact Or.inr ⟨xp, Or.inr (Or.inl rfl), h⟩
        · exact Or.inl (Or.inr (Or.inr h))

theorem update_length (t : Tree α) (k : Nat) (f : α → α) :
    (toList (t.update k f)).length = (toList t).length := by
  induction t with
  | nil => rfl
  | node l x xp b r ihl ihr =>
    unfold Tree.update
    split
    · simp [toList, ihr]
    · split <;> simp [toList, ihl]

/-- a `TreeIndex` is well formed when its token list is, and so is the value list of every token -/
def IndexWF (ix : Index) : Prop := WF ix.lists ∧ ∀ e ∈ toList ix.lists.root, WF e.2

theorem indexwf_empty : IndexWF Index.empty := ⟨wf_empty, by simp [Index.empty, TreeList.empty, toList]⟩

theorem indexwf_update (ix : Index) (tok : Nat) (lst' : TreeList Nat) (h : IndexWF ix)
    (hl : WF lst') :
    IndexWF ⟨{ ix.lists with root := ix.lists.root.update tok (fun _ => lst') }⟩ := by
  obtain ⟨⟨hi, hlen⟩, hall⟩ := h
  refine ⟨⟨update_inv _ _ _ hi, ?_⟩, ?_⟩
  · simp only; rw [update_length]; exact hlen
  · intro e he
    rcases update_mem _ _ _ e he with h | ⟨v, _, rfl⟩
    · exact hall e h
    · exact hl

/-- **`TreeIndex.Add(v, tokens)`** for any token list: no panic, and the token tree and all value lists
are still valid AVL trees with correct lengths. -/
theorem index_add_inv (ix : Index) (k g : Nat) (toks : List Nat) (h : IndexWF ix) :
    ∃ ix', ix.add k g toks = some ix' ∧ IndexWF ix' := by
  induction toks generalizing ix with
  | nil => exact ⟨ix, rfl, h⟩
  | cons tok rest ih =>
    unfold Index.add
    cases hlk : ix.lists.root.lookup tok with
    | some lst =>
      have hw : WF lst := h.2 (tok, lst) (lookup_mem hlk)
      obtain ⟨lst', e, hw', _⟩ := treelist_insert lst k g hw
      simp only [e]
      exact ih _ (indexwf_update ix tok lst' h hw')
    | none =>
      obtain ⟨lst', e, hw', _⟩ := treelist_insert (TreeList.empty : TreeList Nat) k g wf_empty
      simp only [e]
      obtain ⟨ls, e2, hw2, hl2⟩ := treelist_insert ix.lists tok lst' h.1
      simp only [e2]
      refine ih ⟨ls⟩ ⟨hw2, ?_⟩
      intro en hen
      have hen' : en ∈ ls.toList := hen
      rw [hl2] at hen'
      rcases SM.mem_insert _ _ _ _ hen' with rfl | hm
      · exact hw'
      · exact h.2 en hm

/-- **`TreeIndex.Remove(v, tokens)`** likewise (tokens that are unknown are skipped, token entries are
never removed). -/
theorem index_remove_inv (ix : Index) (k : Nat) (toks : List Nat) (h : IndexWF ix) :
    ∃ ix', ix.remove k toks = some ix' ∧ IndexWF ix' := by
  induction toks generalizing ix with
  | nil => exact ⟨ix, rfl, h⟩
  | cons tok rest ih =>
    unfold Index.remove
    cases hlk : ix.lists.root.lookup tok with
    | some lst =>
      have hw : WF lst := h.2 (tok, lst) (lookup_mem hlk)
      obtain ⟨lst', f, e, hw', _⟩ := treelist_delete lst k hw
      simp only [e]
      exact ih _ (indexwf_update ix tok lst' h hw')
    | none => exact ih ix h

example : (((Index.empty.add 5 1 [2, 0, 1]).bind (·.add 3 2 [0])).bind (·.remove 5 [0, 7])).map
    (fun ix => ix.lists.root.toList.map fun (t, l) => (t, l.toList)) =
    some [(0, [(3, 2)]), (1, [(5, 1)]), (2, [(5, 1)])] := by decide


/-! ## TreeIndex contents: token ↦ sorted set of values -/

theorem find_none_of_gt {r : Tree α} {x : Nat} (hr : ∀ e ∈ toList r, x < e.1) (q : Nat → Bool)
    (hq : ∀ y, x < y → q y = false) : (toList r).find? (fun e => q e.1) = none := by
  rw [List.find?_eq_none]
  intro e he
  simp [hq e.1 (hr e he)]

/-- `treeList.Lookup` finds what the reference map holds -/
theorem lookup_eq (t : Tree α) (k : Nat) (hb : Bst t) : t.lookup k = SortedMap.lookup (toList t) k := by
  induction t with
  | nil => rfl
  | node l x xp b r ihl ihr =>
    obtain ⟨hbl, hbr, hlt, hgt⟩ := hb
    have hl : ∀ e ∈ toList l, e.1 < x := fun e he => hlt _ (mem_keys_of_mem_toList he)
    have hr : ∀ e ∈ toList r, x < e.1 := fun e he => hgt _ (mem_keys_of_mem_toList he)
    simp only [Tree.lookup, SortedMap.lookup, toList, List.find?_append, List.find?_cons]
    by_cases c1 : x < k
    · have hn : (toList l).find? (fun e => e.1 == k) = none :=
        find_none_of_lt hl (fun y => y == k) (fun y hy => by simp; omega)
      have : (x == k) = false := by simp; omega
      simp [c1, hn, this, ihr hbr, SortedMap.lookup]
    · by_cases c2 : k < x
      · have hn : (toList r).find? (fun e => e.1 == k) = none :=
          find_none_of_gt hr (fun y => y == k) (fun y hy => by simp; omega)
        have : (x == k) = false := by simp; omega
        simp only [c1, c2, if_false, if_true, ihl hbl, SortedMap.lookup, this, hn]
        cases (toList l).find? (fun e => e.1 == k) <;> simp
      · have hxk : x = k := by omega
        subst hxk
        have hn : (toList l).find? (fun e => e.1 == x) = none :=
          find_none_of_lt hl (fun y => y == x) (fun y hy => by simp; omega)
        simp [hn]

theorem lookup_update (t : Tree α) (k k' : Nat) (f : α → α) :
    (t.update k f).lookup k' = if k' = k then (t.lookup k).map f else t.lookup k' := by
  induction t with
  | nil => simp [Tree.update, Tree.lookup]
  | node l x xp b r ihl ihr =>
    unfold Tree.update
    by_cases c1 : x < k
    · simp only [c1, if_true]
      by_cases e : k' = k
      · subst e; simp [Tree.lookup, c1, ihr]
      · simp only [e, if_false] at ihr ⊢
        simp only [Tree.lookup, ihr]
    · by_cases c2 : k < x
      · simp only [c1, c2, if_false, if_true]
        by_cases e : k' = k
        · subst e; simp [Tree.lookup, c1, c2, ihl]
        · simp only [e, if_false] at ihl ⊢
          simp only [Tree.lookup, ihl]
      · have hxk : x = k := by omega
        subst hxk
        simp only [c1, if_false]
        by_cases e : k' = x
        · subst e; simp [Tree.lookup]
        · simp only [e, if_false, Tree.lookup]
          by_cases h1 : x < k'
          · simp [h1]
          · have h2 : k' < x := by omega
            simp [h1, h2]

theorem sm_lookup_insert (m : SortedMap.SMap α) (k k' : Nat) (p : α) :
    SortedMap.lookup (SortedMap.insert m k p) k' = if k' = k then some p else SortedMap.lookup m k' := by
  induction m with
  | nil =>
    by_cases e : k' = k
    · subst e; simp [SortedMap.insert, SortedMap.lookup]
    · have : (k == k') = false := by simp; omega
      simp [SortedMap.insert, SortedMap.lookup, e, this]
  | cons a m ih =>
    obtain ⟨a, ap⟩ := a
    unfold SortedMap.insert
    by_cases c1 : a < k
    · simp only [c1, if_true]
      simp only [SortedMap.lookup, List.find?_cons] at ih ⊢
      by_cases e1 : a = k'
      · subst e1
        have : ¬ a = k := by omega
        simp [this]
      · have : (a == k') = false := by simpa using e1
        simp only [this]
        exact ih
    · by_cases c2 : a = k
      · subst c2
        simp only [c1, if_false, if_true, SortedMap.lookup, List.find?_cons]
        by_cases e : k' = a
        · subst e; simp
        · have : (a == k') = false := by simp; omega
          simp [this, e]
      · simp only [c1, c2, if_false, SortedMap.lookup, List.find?_cons]
        by_cases e : k' = k
        · subst e; simp
        · have : (k == k') = false := by simp; omega
          simp [this, e]

theorem mem_keys_insert_self (m : SortedMap.SMap α) (k : Nat) (p : α) :
    k ∈ SortedMap.keys (SortedMap.insert m k p) := by
  induction m with
  | nil => simp [SortedMap.insert, SortedMap.keys]
  | cons a m ih =>
    obtain ⟨a, ap⟩ := a
    unfold SortedMap.insert
    split
    · simp only [SortedMap.keys, List.map_cons, List.mem_cons]; exact Or.inr ih
    · split <;> simp [SortedMap.keys]

theorem lookup_some_mem_keys {t : Tree α} {k : Nat} {v : α} (h : t.lookup k = some v) : k ∈ keys t :=
  mem_keys_of_mem_toList (lookup_mem h)

/-- what the index denotes: for every token the sorted list of its values (empty for an unknown token) -/
def denote (ix : Index) (tok : Nat) : SortedMap.SMap Nat :=
  match ix.lists.root.lookup tok with
  | some l => l.toList
  | none => []

/-- reference semantics: a function token ↦ sorted association list of values -/
abbrev RefIx := Nat → SortedMap.SMap Nat

def refAdd (r : RefIx) (k g : Nat) : List Nat → RefIx
  | [] => r
  | tok :: rest => refAdd (fun t => if t = tok then SortedMap.insert (r tok) k g else r t) k g rest

def refRemove (r : RefIx) (k : Nat) : List Nat → RefIx
  | [] => r
  | tok :: rest => refRemove (fun t => if t = tok then SortedMap.erase (r tok) k else r t) k rest

theorem denote_update (ix : Index) (tok : Nat) (lst lst' : TreeList Nat)
    (hlk : ix.lists.root.lookup tok = some lst) (t : Nat) :
    denote ⟨{ ix.lists with root := ix.lists.root.update tok (fun _ => lst') }⟩ t =
      if t = tok then lst'.toList else denote ix t := by
  unfold denote
  simp only [lookup_update]
  by_cases e : t = tok
  · subst e; simp [hlk]
  · simp [e]

/-- `Add(v, tokens)`: no panic, everything stays valid, and the denotation changes exactly as in the
reference (`v` inserted — or its payload replaced — under every listed token, nothing else touched);
the set of known tokens grows by the listed ones. -/
theorem index_add_spec (ix : Index) (k g : Nat) (toks : List Nat) (h : IndexWF ix) :
    ∃ ix', ix.add k g toks = some ix' ∧ IndexWF ix' ∧
      (∀ t, denote ix' t = refAdd (denote ix) k g toks t) ∧
      (∀ t, t ∈ keys ix'.lists.root ↔ t ∈ keys ix.lists.root ∨ t ∈ toks) := by
  induction toks generalizing ix with
  | nil => exact ⟨ix, rfl, h, fun _ => rfl, by simp⟩
  | cons tok rest ih =>
    unfold Index.add
    cases hlk : ix.lists.root.lookup tok with
    | some lst =>
      have hw : WF lst := h.2 (tok, lst) (lookup_mem hlk)
      obtain ⟨lst', e, hw', hl'⟩ := treelist_insert lst k g hw
      simp only [e]
      obtain ⟨ix', e', hwf', hd, hk⟩ := ih _ (indexwf_update ix tok lst' h hw')
      refine ⟨ix', e', hwf', ?_, ?_⟩
      · intro t
        rw [hd t]
        simp only [refAdd]
        congr 1
        funext t'
        rw [denote_update ix tok lst lst' hlk t']
        by_cases c : t' = tok
        · simp [c, hl', denote, hlk]
        · simp [c]
      · intro t
        rw [hk t]
        simp only [update_keys, List.mem_cons]
        have : tok ∈ keys ix.lists.root := lookup_some_mem_keys hlk
        constructor
        · rintro (h1 | h1)
          · exact Or.inl h1
          · exact Or.inr (Or.inr h1)
        · rintro (h1 | h1 | h1)
          · exact Or.inl h1
          · exact Or.inl (h1 ▸ this)
          · exact Or.inr h1
    | none =>
      obtain ⟨lst', e, hw', hl'⟩ := treelist_insert (TreeList.empty : TreeList Nat) k g wf_empty
      simp only [e]
      obtain ⟨ls, e2, hw2, hl2⟩ := treelist_insert ix.lists tok lst' h.1
      simp only [e2]
      have hwf1 : IndexWF ⟨ls⟩ := by
        refine ⟨hw2, ?_⟩
        intro en hen
        have hen' : en ∈ ls.toList := hen
        rw [hl2] at hen'
        rcases SM.mem_insert _ _ _ _ hen' with rfl | hm
        · exact hw'
        · exact h.2 en hm
      obtain ⟨ix', e', hwf', hd, hk⟩ := ih ⟨ls⟩ hwf1
      refine ⟨ix', e', hwf', ?_, ?_⟩
      · intro t
        rw [hd t]
        simp only [refAdd]
        congr 1
        funext t'
        unfold denote
        have hb1 : Bst ls.root := hw2.1.1
        have hb0 : Bst ix.lists.root := h.1.1.1
        rw [lookup_eq _ _ hb1]
        have : toList ls.root = SortedMap.insert (toList ix.lists.root) tok lst' := hl2
        rw [this, sm_lookup_insert, ← lookup_eq _ _ hb0]
        by_cases c : t' = tok
        · simp only [c, if_true, hlk]
          rw [hl']; rfl
        · simp [c]
      · intro t
        rw [hk t]
        have hkeys : keys ls.root = SortedMap.keys (SortedMap.insert (toList ix.lists.root) tok lst') := by
          rw [← keys_toList]; exact congrArg SortedMap.keys hl2
        simp only [hkeys, List.mem_cons]
        constructor
        · rintro (h1 | h1)
          · rcases SM.keys_insert_subset _ _ _ t h1 with rfl | h2
            · exact Or.inr (Or.inl rfl)
            · exact Or.inl (by rw [← keys_toList]; exact h2)
          · exact Or.inr (Or.inr h1)
        · rintro (h1 | h1 | h1)
          · exact Or.inl (mem_keys_insert (by rw [keys_toList]; exact h1))
          · exact Or.inl (h1 ▸ mem_keys_insert_self _ _ _)
          · exact Or.inr h1

/-- `Remove(v, tokens)`: `v` erased under every listed token; token entries are never removed. -/
theorem index_remove_spec (ix : Index) (k : Nat) (toks : List Nat) (h : IndexWF ix) :
    ∃ ix', ix.remove k toks = some ix' ∧ IndexWF ix' ∧
      (∀ t, denote ix' t = refRemove (denote ix) k toks t) ∧
      keys ix'.lists.root = keys ix.lists.root ∧ ix'.lists.length = ix.lists.length := by
  induction toks generalizing ix with
  | nil => exact ⟨ix, rfl, h, fun _ => rfl, rfl, rfl⟩
  | cons tok rest ih =>
    unfold Index.remove
    cases hlk : ix.lists.root.lookup tok with
    | some lst =>
      have hw : WF lst := h.2 (tok, lst) (lookup_mem hlk)
      obtain ⟨lst', f, e, hw', hl', _⟩ := treelist_delete lst k hw
      simp only [e]
      obtain ⟨ix', e', hwf', hd, hk, hn⟩ := ih _ (indexwf_update ix tok lst' h hw')
      refine ⟨ix', e', hwf', ?_, by rw [hk, update_keys], hn⟩
      intro t
      rw [hd t]
      simp only [refRemove]
      congr 1
      funext t'
      rw [denote_update ix tok lst lst' hlk t']
      by_cases c : t' = tok
      · simp [c, hl', denote, hlk]
      · simp [c]
    | none =>
      obtain ⟨ix', e', hwf', hd, hk, hn⟩ := ih ix h
      refine ⟨ix', e', hwf', ?_, hk, hn⟩
      intro t
      rw [hd t]
      simp only [refRemove]
      congr 1
      funext t'
      by_cases c : t' = tok
      · simp [c, denote, hlk, SortedMap.erase]
      · simp [c]

/-! ### any history of `Add` / `Remove` -/

inductive IxOp where
  | add (k g : Nat) (toks : List Nat)
  | remove (k : Nat) (toks : List Nat)

def applyIx (ix : Index) : List IxOp → Option Index
  | [] => some ix
  | .add k g toks :: ops =>
    match ix.add k g toks with
    | some ix' => applyIx ix' ops
    | none => none
  | .remove k toks :: ops =>
    match ix.remove k toks with
    | some ix' => applyIx ix' ops
    | none => none

def specIx (r : RefIx) : List IxOp → RefIx
  | [] => r
  | .add k g toks :: ops => specIx (refAdd r k g toks) ops
  | .remove k toks :: ops => specIx (refRemove r k toks) ops

/-- every token that an `Add` of the history mentions -/
def tokensEver : List IxOp → List Nat
  | [] => []
  | .add _ _ toks :: ops => toks ++ tokensEver ops
  | .remove _ _ :: ops => tokensEver ops

theorem index_contents_from (ix : Index) (h : IndexWF ix) (ops : List IxOp) :
    ∃ ix', applyIx ix ops = some ix' ∧ IndexWF ix' ∧
      (∀ t, denote ix' t = specIx (denote ix) ops t) ∧
      (∀ t, t ∈ keys ix'.lists.root ↔ t ∈ keys ix.lists.root ∨ t ∈ tokensEver ops) := by
  induction ops generalizing ix with
  | nil => exact ⟨ix, rfl, h, fun _ => rfl, by simp [tokensEver]⟩
  | cons op ops ih =>
    cases op with
    | add k g toks =>
      obtain ⟨ix1, e1, h1, d1, k1⟩ := index_add_spec ix k g toks h
      obtain ⟨ix2, e2, h2, d2, k2⟩ := ih ix1 h1
      refine ⟨ix2, by simp [applyIx, e1, e2], h2, ?_, ?_⟩
      · intro t
        rw [d2 t]
        simp only [specIx]
        congr 1
        funext t'
        exact d1 t'
      · intro t
        rw [k2 t, k1 t]
        simp only [tokensEver, List.mem_append]
        constructor
        · rintro ((a | a) | a)
          · exact Or.inl a
          · exact Or.inr (Or.inl a)
          · exact Or.inr (Or.inr a)
        · rintro (a | a | a)
          · exact Or.inl (Or.inl a)
          · exact Or.inl (Or.inr a)
          · exact Or.inr a
    | remove k toks =>
      obtain ⟨ix1, e1, h1, d1, k1, _⟩ := index_remove_spec ix k toks h
      obtain ⟨ix2, e2, h2, d2, k2⟩ := ih ix1 h1
      refine ⟨ix2, by simp [applyIx, e1, e2], h2, ?_, ?_⟩
      · intro t
        rw [d2 t]
        simp only [specIx]
        congr 1
        funext t'
        exact d1 t'
      · intro t
        rw [k2 t, k1]
        simp [tokensEver]

/-- **TreeIndex contents.** After ANY history of `Add(value, tokens)` / `Remove(value, tokens)` on an
empty index: no call panicked; the token tree and every per-token list are valid AVL trees; under every
token the index holds exactly the reference's values (`denote` = the history replayed on a plain function
token ↦ sorted association list; an unknown token and a token whose set has become empty both denote `[]`)
in strictly increasing order, and the list's `Len()` is their number; the known tokens are exactly the
tokens some `Add` mentioned, in increasing order, and `NumTokens()` is their number. -/
theorem index_contents (ops : List IxOp) :
    ∃ ix, applyIx Index.empty ops = some ix ∧ IndexWF ix ∧
      (∀ t, denote ix t = specIx (fun _ => []) ops t) ∧
      (∀ t, SortedMap.Sorted (denote ix t)) ∧
      (∀ t l, ix.lists.root.lookup t = some l → l.length = ((denote ix t).length : Int)) ∧
      (∀ t, t ∈ keys ix.lists.root ↔ t ∈ tokensEver ops) ∧
      (keys ix.lists.root).Pairwise (· < ·) ∧
      ix.lists.length = ((keys ix.lists.root).length : Int) := by
  obtain ⟨ix, e, h, d, k⟩ := index_contents_from Index.empty indexwf_empty ops
  refine ⟨ix, e, h, ?_, ?_, ?_, ?_, ?_, ?_⟩
  · intro t; rw [d t]; rfl
  · intro t
    unfold denote
    cases hlk : ix.lists.root.lookup t with
    | none => simp [SortedMap.Sorted, SortedMap.keys]
    | some l => exact (bst_iff_sorted _).1 (h.2 (t, l) (lookup_mem hlk)).1.1
  · intro t l hlk
    have := (h.2 (t, l) (lookup_mem hlk)).2
    simp only [denote, hlk]
    exact this
  · intro t
    rw [k t]
    simp [Index.empty, TreeList.empty, keys]
  · have := (bst_iff_sorted _).1 h.1.1.1
    rw [← keys_toList]; exact this
  · have := h.1.2
    rw [keys_eq]; simpa using this

/-- "tokens with an empty set are absent, `NumTokens` = number of non-empty tokens" does NOT hold of the
code: `Remove` never drops a token entry, so an emptied token is still listed by `Tokens()` and counted by
`NumTokens()` (its `Begin` yields nothing, like an unknown token's).  Witness: add 5 under token 0, remove it. -/
theorem numtokens_counts_emptied_tokens_counterexample :
    (applyIx Index.empty [.add 5 1 [0], .remove 5 [0]]).map
      (fun ix => (ix.lists.length, keys ix.lists.root, denote ix 0)) = some (1, [0], []) := by decide

example : (applyIx Index.empty [.add 5 1 [2, 0], .add 3 2 [0], .remove 5 [0, 7], .add 3 9 [0]]).map
    (fun ix => (denote ix 0, denote ix 2, denote ix 7, ix.lists.length)) =
    some ([(3, 9)], [(5, 1)], [], 2) := by decide

/-! ### `Begin(token)` iterates that set -/

/-- call `Next` until it returns false (at most `fuel` times), collecting the keys under the iterator -/
def drain (t : Tree α) : Nat → Iter → List Nat
  | 0, _ => []
  | fuel + 1, it =>
    match it.next t with
    | (it', true) =>
      match it'.node with
      | some (k, _) => k :: drain t fuel it'
      | none => []
    | (_, false) => []

theorem filter_ge_sorted (ks : List Nat) (k' : Nat) (hs : ks.Pairwise (· < ·)) (hm : k' ∈ ks) :
    ks.filter (fun x => decide (k' ≤ x)) = k' :: ks.filter (fun x => decide (k' < x)) := by
  induction ks with
  | nil => cases hm
  | cons a ks ih =>
    rw [List.pairwise_cons] at hs
    obtain ⟨h1, h2⟩ := hs
    simp only [List.mem_cons] at hm
    by_cases c : a = k'
    · subst c
      have e : ks.filter (fun x => decide (a ≤ x)) = ks.filter (fun x => decide (a < x)) := by
        apply List.filter_congr
        intro x hx
        have := h1 x hx
        simp; omega
      simp [e]
    · rcases hm with hm | hm
      · exact absurd hm.symm c
      · have : a < k' := h1 k' hm
        have n1 : ¬ k' ≤ a := by omega
        have n2 : ¬ k' < a := by omega
        simp [n1, n2, ih h2 hm]

/-- running `Next` to exhaustion from any unfinished iterator over a tree that is not edited meanwhile
yields exactly the keys above its position, in order -/
theorem drain_spec (t : Tree α) (hb : Bst t) (fuel : Nat) (it : Iter) (hw : IterWF t it)
    (hd : it.done = false) (hn : it.started = true → it.node ≠ none)
    (hf : ((keys t).filter (fun x => posLt (pos it) x)).length < fuel) :
    drain t fuel it = (keys t).filter (fun x => posLt (pos it) x) := by
  induction fuel generalizing it with
  | zero => omega
  | succ fuel ih =>
    have hs : (keys t).Pairwise (· < ·) := by
      have := (bst_iff_sorted t).1 hb
      rw [← keys_toList]; exact this
    unfold drain
    rcases next_spec t it hb hw hd hn with ⟨k', ⟨a1, a2, a3⟩, ad, l1, l2, l3⟩ | ⟨⟨g1, _⟩, _, g5⟩
    · cases hnx : it.next t with
      | mk it' ok =>
        rw [hnx] at a1 a2 a3 ad
        simp only at a1 a2 a3 ad
        subst a1
        simp only [a2]
        have e1 : (keys t).filter (fun x => posLt (pos it) x) = (keys t).filter (fun x => decide (k' ≤ x)) := by
          apply List.filter_congr
          intro x hx
          by_cases c : k' ≤ x
          · have : GtPos (pos it) x := fun c' hc' => Nat.lt_of_lt_of_le (l2 c' hc') c
            simp [c, (posLt_iff _ _).2 this]
          · have : ¬ GtPos (pos it) x := fun hg => c (l3 x hx hg)
            have : posLt (pos it) x = false := by
              cases hp : posLt (pos it) x with
              | false => rfl
              | true => exact absurd ((posLt_iff _ _).1 hp) this
            simp [c, this]
        have e2 := filter_ge_sorted (keys t) k' hs l1
        have hp' : pos it' = some k' := by simp [pos, a2]
        have e3 : (keys t).filter (fun x => posLt (pos it') x) = (keys t).filter (fun x => decide (k' < x)) := by
          rw [hp']; rfl
        rw [e1, e2] at hf ⊢
        rw [← e3] at hf ⊢
        congr 1
        apply ih it' (landed_wf (r := (it', true)) ⟨rfl, a2, a3⟩ l1) ad (fun _ => by rw [a2]; simp)
        simp only [List.length_cons] at hf
        omega
    · cases hnx : it.next t with
      | mk it' ok =>
        rw [hnx] at g1
        simp only at g1
        subst g1
        simp only
        symm
        rw [List.filter_eq_nil_iff]
        intro x hx hp
        exact g5 x hx ((posLt_iff _ _).1 hp)

/-- a fresh iterator run to the end returns every key of the tree, in order -/
theorem drain_fresh (t : Tree α) (hb : Bst t) :
    drain t ((keys t).length + 1) {} = keys t := by
  have hf : (keys t).filter (fun x => posLt (pos ({} : Iter)) x) = keys t := by
    simp [pos, posLt]
  have := drain_spec t hb ((keys t).length + 1) {} ⟨fun _ => ⟨rfl, rfl⟩, fun c hc => by cases hc⟩ rfl
    (fun h => by cases h) (by rw [hf]; omega)
  rw [hf] at this; exact this

/-- **`Begin(token)` iterates exactly the token's set**: for a well-formed index, the iterator `Begin`
hands out for a known token — a fresh iterator over that token's list — returns, run to the end, the keys of
`denote ix token` in increasing order; an unknown token denotes `[]` (and `Begin` gives the empty iterator). -/
theorem index_begin_drain (ix : Index) (h : IndexWF ix) (tok : Nat) :
    match ix.lists.root.lookup tok with
    | some l => drain l.root ((keys l.root).length + 1) {} = (denote ix tok).map (·.1)
    | none => denote ix tok = [] := by
  cases hlk : ix.lists.root.lookup tok with
  | none => simp [denote, hlk]
  | some l =>
    have hw : WF l := h.2 (tok, l) (lookup_mem hlk)
    simp only [denote, hlk]
    rw [drain_fresh l.root hw.1.1, keys_eq]; rfl

example : drain (node (node nil 1 () 0 nil) 2 () 1 (node (node nil 3 () 0 nil) 4 () (-1) nil)) 5 {} = [1, 2, 3, 4] := by
  decide


/-! ## an equivalent mutant

Changing `if child.balance < 0` into `if child.balance <= 0` in the `child == parent.right` branch of
`rebalanceAfterInsert` was not caught by the correspondence run.  It cannot be: the two tests differ
only for `child.balance == 0`, and a child whose subtree has just grown never has balance 0 while its
parent has balance > 0.  `insLe` is the model of the changed code; on every tree satisfying the
invariant it returns exactly what `ins` returns. -/

/-- `insRetraceRight` with `<= 0` in place of `< 0` -/
def insRetraceRightLe (l : Tree α) (k : Nat) (p : α) (b : Int) (r' : Tree α) : Option (Tree α × Bool) :=
  if b > 0 then
    match (if r'.rootBal ≤ 0 then rotateRightLeft l k p r' else rotateLeft l k p r') with
    | some t => some (t, false)
    | none => none
  else
    let b' := b + 1
    some (node l k p b' r', b' != 0)

/-- `ins` with that change -/
def insLe : Tree α → Nat → α → Option (Tree α × Bool × Bool)
  | nil, k, p => some (node nil k p 0 nil, true, true)
  | node l x xp b r, k, p =>
    if x < k then
      match insLe r k p with
      | none => none
      | some (r', grew, added) =>
        if grew then
          match insRetraceRightLe l x xp b r' with
          | some (t, g) => some (t, g, added)
          | none => none
        else some (node l x xp b r', false, added)
    else if k < x then
      match insLe l k p with
      | none => none
      | some (l', grew, added) =>
        if grew then
          match insRetraceLeft l' x xp b r with
          | some (t, g) => some (t, g, added)
          | none => none
        else some (node l' x xp b r, false, added)
    else some (node l k p b r, false, false)

theorem insRetraceRightLe_eq (l : Tree α) (k : Nat) (p : α) (b : Int) (r' : Tree α)
    (h : b > 0 → rootBal r' ≠ 0) : insRetraceRightLe l k p b r' = insRetraceRight l k p b r' := by
  unfold insRetraceRightLe insRetraceRight
  by_cases c : b > 0
  · have := h c
    by_cases c2 : rootBal r' < 0
    · have c3 : rootBal r' ≤ 0 := by omega
      simp only [c, if_true, c2, c3]
      rfl
    · have c3 : ¬ rootBal r' ≤ 0 := by omega
      simp only [c, if_true, c2, c3, if_false]
      rfl
  · simp only [c, if_false]

/-- the branch conditions coincide on all reachable states: the changed code and the original compute
the same result (tree shape, balance factors, flags) for every insertion into a valid tree. -/
theorem insLe_equiv (t : Tree α) (k : Nat) (p : α) (hb : Bal t) : insLe t k p = ins t k p := by
  induction t with
  | nil => rfl
  | node l x xp b r ihl ihr =>
    obtain ⟨hl, hr, hbal, h1, h2⟩ := hb
    unfold insLe ins
    by_cases c1 : x < k
    · simp only [c1, if_true, ihr hr]
      obtain ⟨r', g, a, e, br', hr', nz⟩ := ins_bal r k p hr
      rw [e]
      cases g with
      | false => rfl
      | true =>
        simp only [if_true] at hr' ⊢
        rw [insRetraceRightLe_eq l x xp b r' (fun hpos => nz rfl (by omega))]
        rfl
    · simp only [c1, if_false]
      by_cases c2 : k < x
      · simp only [c2, if_true, ihl hl]
        rfl
      · simp only [c2, if_false]


end B6.Props.C07
