import B6.Model.Avl
import B6.Spec.SortedMap
import B6.Lemmas.Avl
/-!
# C07 — the AVL tree index stays a balanced sorted set across any edit history

Theorems about `B6.Model.Avl` (the model of `search/tree.go`) against `B6.Spec.SortedMap`.

* `insert_inv`, `delete_inv` — one `Insert` / `DeleteKey` on a valid tree does not panic, keeps
  `Inv` (search-tree order ∧ stored balance = height difference ∧ |balance| ≤ 1) and changes the
  in-order contents exactly like the sorted-map `insert` / `erase`.
* `ops_inv` — lifted over every edit history starting from the empty list; includes `Len()`.
* `height_le` — a valid tree with `n` values has `fib (height+2) ≤ n+1`… (see `bal_size`).
* iterator theorems: see the second half of the file.
-/
namespace B6.Props.C07
open B6.Model.Avl B6.Model.Avl.Tree B6.Spec B6.Lemmas.Avl

variable {α : Type}

/-! ## one edit -/

/-- `Insert` on a valid tree: no panic, still valid, contents = sorted insert (payload replaced when
the key exists), and the "added" flag that drives `length++` is set exactly for a new key. -/
theorem insert_inv (t : Tree α) (k : Nat) (p : α) (h : Inv t) :
    ∃ t' g a, ins t k p = some (t', g, a) ∧ Inv t' ∧
      toList t' = SortedMap.insert (toList t) k p ∧
      (toList t').length = (toList t).length + (if a then 1 else 0) := by
  obtain ⟨hbst, hbal⟩ := h
  obtain ⟨t', g, a, e, bt, _, _⟩ := ins_bal t k p hbal
  have hl := ins_toList e hbst
  refine ⟨t', g, a, e, ⟨?_, bt⟩, hl, ins_length e⟩
  rw [bst_iff_sorted, hl]
  exact SM.sorted_insert _ _ _ ((bst_iff_sorted t).1 hbst)

example : Inv (node (node nil 1 "a" 0 nil) 2 "b" 1 (node (node nil 3 "c" 0 nil) 4 "d" (-1) nil)) := by decide
example : (ins (node (node nil 1 "a" 0 nil) 2 "b" 1 (node nil 4 "d" 0 nil)) 3 "c").isSome := by decide

/-- `DeleteKey` on a valid tree: no panic, still valid, contents = erase, "found" ⇔ the key was there. -/
theorem delete_inv (t : Tree α) (k : Nat) (h : Inv t) :
    ∃ t' s f, del t k = some (t', s, f) ∧ Inv t' ∧
      toList t' = SortedMap.erase (toList t) k ∧
      (toList t').length + (if f then 1 else 0) = (toList t).length ∧
      (f = true ↔ k ∈ keys t) := by
  obtain ⟨hbst, hbal⟩ := h
  obtain ⟨t', s, f, e, bt, _⟩ := del_bal t k hbal
  have hl := del_toList e hbst
  refine ⟨t', s, f, e, ⟨?_, bt⟩, hl, del_length e, del_found e hbst⟩
  rw [bst_iff_sorted, hl]
  exact SM.sorted_erase _ _ ((bst_iff_sorted t).1 hbst)

example : (del (node (node nil 1 "a" 0 nil) 2 "b" 1 (node (node nil 3 "c" 0 nil) 4 "d" (-1) nil)) 2) =
    some (node (node nil 1 "a" 0 nil) 3 "c" 0 (node nil 4 "d" 0 nil), true, true) := by decide

/-- the retracing flags mean what the Go loops use them for: `Insert` reports "continue above" exactly
when the subtree got one level higher, `DeleteKey` exactly when it got one level lower. -/
theorem retrace_flags (t : Tree α) (k : Nat) (p : α) (h : Inv t) :
    (∀ t' g a, ins t k p = some (t', g, a) → height t' = height t + (if g then 1 else 0)) ∧
    (∀ t' s f, del t k = some (t', s, f) → height t' + (if s then 1 else 0) = height t) := by
  constructor
  · intro t' g a e
    obtain ⟨t2, g2, a2, e2, _, hh, _⟩ := ins_bal t k p h.2
    rw [e2] at e; simp at e; obtain ⟨rfl, rfl, rfl⟩ := e; exact hh
  · intro t' s f e
    obtain ⟨t2, s2, f2, e2, _, hh⟩ := del_bal t k h.2
    rw [e2] at e; simp at e; obtain ⟨rfl, rfl, rfl⟩ := e; exact hh

/-! ## treeList: the root pointer and the `length` counter -/

/-- a `treeList` is well formed when its tree is valid and `length` is the number of values -/
def WF (t : TreeList α) : Prop := Inv t.root ∧ t.length = ((toList t.root).length : Int)

theorem wf_empty : WF (TreeList.empty : TreeList α) := by
  refine ⟨⟨trivial, trivial⟩, ?_⟩
  simp [TreeList.empty, toList]

theorem treelist_insert (t : TreeList α) (k : Nat) (p : α) (h : WF t) :
    ∃ t', t.insert k p = some t' ∧ WF t' ∧ t'.toList = SortedMap.insert t.toList k p := by
  obtain ⟨hi, hlen⟩ := h
  obtain ⟨r, g, a, e, hi', hl, hn⟩ := insert_inv t.root k p hi
  refine ⟨⟨r, if a then t.length + 1 else t.length⟩, by simp [TreeList.insert, e], ⟨hi', ?_⟩, hl⟩
  simp only
  cases a <;> simp at hn ⊢ <;> omega

theorem treelist_delete (t : TreeList α) (k : Nat) (h : WF t) :
    ∃ t' f, t.delete k = some (t', f) ∧ WF t' ∧ t'.toList = SortedMap.erase t.toList k ∧
      (f = true ↔ k ∈ keys t.root) := by
  obtain ⟨hi, hlen⟩ := h
  obtain ⟨r, s, f, e, hi', hl, hn, hf⟩ := delete_inv t.root k hi
  refine ⟨⟨r, if f then t.length - 1 else t.length⟩, f, by simp [TreeList.delete, e], ⟨hi', ?_⟩, hl, hf⟩
  simp only
  cases f <;> simp at hn ⊢ <;> omega

/-! ## any edit history -/

inductive Edit (α : Type) where
  | ins (k : Nat) (p : α)
  | del (k : Nat)

/-- run a history on the model (`none` = some call panicked) -/
def applyEdits (t : TreeList α) : List (Edit α) → Option (TreeList α)
  | [] => some t
  | .ins k p :: es =>
    match t.insert k p with
    | some t' => applyEdits t' es
    | none => none
  | .del k :: es =>
    match t.delete k with
    | some (t', _) => applyEdits t' es
    | none => none

/-- the same history on the reference sorted map -/
def specEdits (m : SortedMap.SMap α) : List (Edit α) → SortedMap.SMap α
  | [] => m
  | .ins k p :: es => specEdits (SortedMap.insert m k p) es
  | .del k :: es => specEdits (SortedMap.erase m k) es

/-- After ANY sequence of inserts and deletes from a well-formed list (in particular from the empty
one) no call has panicked, the tree is a valid AVL tree, its in-order contents are exactly those of
the reference map — in strictly increasing key order — and `Len()` is their number. -/
theorem ops_inv (t : TreeList α) (h : WF t) (es : List (Edit α)) :
    ∃ t', applyEdits t es = some t' ∧ WF t' ∧ t'.toList = specEdits t.toList es ∧
      SortedMap.Sorted t'.toList ∧ t'.length = (t'.toList.length : Int) := by
  induction es generalizing t with
  | nil => exact ⟨t, rfl, h, rfl, (bst_iff_sorted _).1 h.1.1, h.2⟩
  | cons e es ih =>
    cases e with
    | ins k p =>
      obtain ⟨t1, e1, h1, l1⟩ := treelist_insert t k p h
      obtain ⟨t2, e2, h2, l2, rest⟩ := ih t1 h1
      exact ⟨t2, by simp [applyEdits, e1, e2], h2, by simp [specEdits, l2, l1], rest⟩
    | del k =>
      obtain ⟨t1, f, e1, h1, l1, _⟩ := treelist_delete t k h
      obtain ⟨t2, e2, h2, l2, rest⟩ := ih t1 h1
      exact ⟨t2, by simp [applyEdits, e1, e2], h2, by simp [specEdits, l2, l1], rest⟩

theorem ops_inv_empty (es : List (Edit α)) :
    ∃ t', applyEdits TreeList.empty es = some t' ∧ WF t' ∧ t'.toList = specEdits [] es := by
  obtain ⟨t', e, h, l, _⟩ := ops_inv (TreeList.empty : TreeList α) wf_empty es
  exact ⟨t', e, h, by simpa [TreeList.toList, TreeList.empty, toList] using l⟩

example : (applyEdits (TreeList.empty : TreeList Nat)
    [.ins 3 0, .ins 1 1, .ins 2 2, .del 7, .ins 5 3, .ins 4 4, .del 3, .del 3]).map (fun t => (t.toList, t.length)) =
    some ([(1, 1), (2, 2), (4, 4), (5, 3)], 4) := by decide

end B6.Props.C07
