import B6.Lemmas.EvalGuards
import B6.Props.C21
/-!
C23 — evaluating a request never crashes the server.

What is a theorem here and what is not.  The property quantifies over every expression tree over the
whole function library (140 Go functions) and every world; the decisive part of this check is the
**sweep** of `harness/cmd/c23` (labelled exploration in the evidence).  The theorems below cover the
path every request takes around the library - decoding, `Simplify`, the VM, the literal conversion -
for the modelled fragment, and the library functions whose missing guards the sweep found, as repaired:

* `decode_never_panics`: for **every** wire tree (any message field absent, any enum number) the
  decoder answers a value or an error.  `decode_old_counterexamples`: five requests on which the code
  before the fixes panicked (each replayed by the harness corpus).
* `interp_never_panics`, `no_panic_partial`: for every request whose decoded expression is lambda-free
  (global functions as values, partial applications, calls of calls, higher-order builtins calling
  back - `Props/C21.vm_first_order`'s fragment), every fuel: `serviceEval` is a value or an error.
  `no_panic_statement` (all requests) is **false** for the code as it is: `no_panic_counterexample`
  (C21's finding `closure-registers`, reached through the whole service path).
* guards the VM establishes before a builtin's Go body runs: `arity_guard` (too many arguments is an
  error), `convert_guard` (the body sees exactly as many arguments as it has parameters, each of its
  parameter's type), `callable_guard` (calling a non-function is an error); the stack and register
  bounds are `Props/C21.stack_shape`, listed as an obligation of this property too.
* library: `count_never_panics` / `count_old_counterexample` (unhashable map keys),
  `histogram_never_panics` / `histogram_old_counterexample` (error before use; mixed values),
  `sample_points_terminates` / `sample_points_old_hangs` / `sample_points_guard`,
  `add_feature_never_panics` / `add_feature_old_counterexample`.
-/
namespace B6.Props.C23
open B6.Model B6.Model.VM B6.Model.EvalGuards B6.Lemmas.EvalGuards

/-! ### decoding -/

/-- **decode_never_panics.** Whatever tree of messages arrives - the request, a function or a lambda
body missing, a literal or a query without its value, an enum number nobody defined, a cap without a
centre, keys and values of different lengths - `ExpressionFromProto` returns an expression or an error. -/
theorem decode_never_panics (request : Option PNode) : decode request ≠ .error .panic :=
  decode_noPanic request

/-- the code before `fixes/C23-{expression-from-proto-nil,feature-type-from-proto,point-proto-nil,
geojson-literal-from-proto}.patch`: an empty request, a call without its function, a typed query of
type 9, a cap query without its centre, a GeoJSON literal -/
theorem decode_old_counterexamples :
    decodeOld none = .error .panic ∧
    decodeOld (some (.call none [.lit (.int 1)] false)) = .error .panic ∧
    decodeOld (some (.lit (.query (.typed 9 (some .all))))) = .error .panic ∧
    decodeOld (some (.lit (.query (.cap none "156.75")))) = .error .panic ∧
    decodeOld (some (.call (some (.sym "pair")) [.lit (.other "nil" ""), .lit .geojson] false)) = .error .panic :=
  ⟨rfl, rfl, rfl, rfl, rfl⟩

/-- the same requests on the repaired decoder -/
example : decode none = .error .error ∧
    decode (some (.call none [.lit (.int 1)] false)) = .error .error ∧
    decode (some (.lit (.query (.typed 9 (some .all))))) = .ok (.lit (.query (.typed "invalid" (.other "all")))) ∧
    decode (some (.lit (.query (.cap none "156.75")))) = .ok (.lit (.query (.other "cap:0,0:156.75"))) :=
  ⟨rfl, rfl, rfl, rfl⟩

/-! ### the service path -/

/-- the reference interpreter has no panic outcome at all -/
theorem interp_never_panics (fuel : Nat) (e : Expr) : interp fuel e ≠ .error .panic :=
  interp_noPanic fuel e

/-- the full statement: no request makes the service path panic -/
def no_panic_statement : Prop :=
  ∀ (fuel : Nat) (request : Option PNode), serviceEval fuel request ≠ .error .panic

/-- **no_panic_partial.** For every request that decodes to a lambda-free expression, and every
fuel, `service.Evaluate` (decode, Simplify, compile, run, literal) answers a value or an error.
The guards of the builtins are discharged inside: `vm_first_order` shows the VM's run equal to the
interpreter's, whose builtins only ever see converted arguments. -/
theorem no_panic_partial (fuel : Nat) (request : Option PNode) (e : Expr)
    (hd : decode request = .ok e) (hl : e.lambdaFree = true) :
    serviceEval fuel request ≠ .error .panic := by
  unfold serviceEval
  rw [hd]
  simp only [evalDecoded]
  cases hs : simplify e with
  | none => simp
  | some s =>
    have hsl := simplify_lambdaFree e s hl hs
    have hv := B6.Props.C21.vm_first_order fuel s hsl
    have hi := interp_noPanic fuel s
    simp only []
    rw [hv]
    cases hr : interp fuel s with
    | error x =>
      simp only [NoPanic, hr] at hi
      intro h
      injection h with h
      exact hi (by rw [h])
    | ok v =>
      simp only []
      split <;> simp

/-- the outcome of such a request is one of: a value, an error, "the model ran out of fuel" -/
theorem no_panic_partial_outcome (fuel : Nat) (request : Option PNode) (e : Expr)
    (hd : decode request = .ok e) (hl : e.lambdaFree = true) :
    (∃ v, serviceEval fuel request = .ok v) ∨ serviceEval fuel request = .error .error ∨
      serviceEval fuel request = .error .fuel := by
  have h := no_panic_partial fuel request e hd hl
  cases hr : serviceEval fuel request with
  | ok v => exact .inl ⟨v, rfl⟩
  | error x =>
    cases x with
    | error => exact .inr (.inl rfl)
    | fuel => exact .inr (.inr rfl)
    | panic => exact absurd hr h

/-- non-vacuity: `((add-ints 1) (first (pair 2 3)))` arrives complete, is lambda-free, evaluates to 3 -/
example :
    let req : PNode := .call (some (.call (some (.sym "add")) [.lit (.int 1)] false))
      [.call (some (.sym "first")) [.call (some (.sym "pair")) [.lit (.int 2), .lit (.int 3)] false] false] false
    (∃ e, decode (some req) = .ok e ∧ e.lambdaFree = true) ∧ serviceEval 20 (some req) = .ok (.int 3) :=
  ⟨⟨_, rfl, rfl⟩, rfl⟩

private def pl (ps : List String) (b : PNode) : PNode := .lam ps (some b)
private def pc (f : PNode) (as : List PNode) : PNode := .call (some f) as false

/-- `((({a b -> {c -> add-ints a c}}) 1) 2) 3` as it arrives -/
def escapeRequest : PNode :=
  pc (pc (pc (pl ["a", "b"] (pl ["c"] (pc (.sym "add") [.sym "a", .sym "c"]))) [.lit (.int 1)]) [.lit (.int 2)]) [.lit (.int 3)]

/-- through the whole service path the closure of C21's finding still panics -/
theorem escape_request_panics : serviceEval 50 (some escapeRequest) = .error .panic := rfl

theorem no_panic_counterexample : ¬ no_panic_statement := fun h => h 50 (some escapeRequest) escape_request_panics

/-! ### guards the VM establishes before a builtin runs -/

/-- more arguments than the (non-variadic) Go function has parameters: an error (`expected %d arguments,
found %d`), before the stack is touched -/
theorem arity_guard (code : List Instr) (fuel : Nat) (b : Builtin) (n : Nat) (st : St)
    (hv : b.variadic = none) (h : n > b.arity) :
    callFromStack code (fuel + 1) (.builtin b) n st = .error .error := by
  have hw : b.want n = b.arity := by simp [Builtin.want, Builtin.arity, hv]
  simp [callFromStack, hw, h]

/-- the Go type of a parameter, as a predicate on model values -/
def hasTy : Ty → Val → Bool
  | .any, _ => true
  | .int, .int _ => true
  | .str, .str _ => true
  | .pair, .pair _ _ => true
  | .query, .query _ => true
  | .callable, v => v.isCallable
  | .func n, v => v.isCallable && v.arity == some n
  | _, _ => false

theorem convert_hasTy {t : Ty} {v c : Val} (h : convert t v = .ok c) : hasTy t c = true := by
  unfold convert at h
  split at h <;> first
    | (injection h with h; subst h; simp [hasTy, Val.isCallable]; done)
    | (split at h <;> first
        | (injection h with h; subst h; simp_all [hasTy]; done)
        | cases h)
    | cases h

def allTy : List Ty → List Val → Bool
  | [], [] => true
  | t :: ts, v :: vs => hasTy t v && allTy ts vs
  | _, _ => false

/-- **convert_guard.** `goCall.CallFromStack` hands the Go function exactly as many arguments as it has
parameters, each of the parameter's type - or returns an error without calling it. -/
theorem convert_guard : ∀ (ts : List Ty) (vs cs : List Val), convertAll ts vs = .ok cs → allTy ts cs = true
  | [], [], cs, h => by simp [convertAll] at h; subst h; rfl
  | [], _ :: _, _, h => by simp [convertAll] at h
  | _ :: _, [], _, h => by simp [convertAll] at h
  | t :: ts, v :: vs, cs, h => by
    simp only [convertAll, bind, Except.bind] at h
    cases hc : convert t v with
    | error e => simp [hc] at h
    | ok c =>
      cases hcs : convertAll ts vs with
      | error e => simp [hc, hcs] at h
      | ok cs' =>
        simp [hc, hcs, pure, Except.pure] at h
        subst h
        simp [allTy, convert_hasTy hc, convert_guard ts vs cs' hcs]

example : convertAll [.int, .func 1] [.int 3, .builtin .first] = .ok [.int 3, .builtin .first] := rfl
example : convertAll [.int] [.str "x"] = .error .error := rfl

/-- calling what is not a function (`((add-ints 1 2) 3)`): an error, not an interface-conversion panic
(fix C21-call-non-callable) -/
theorem callable_guard (call : Val → Nat → St → Res St) (is : List Instr) (n : Nat) (f : Val) (rest : List Val)
    (regs : List (Nat × Val)) (h : vmCallable f = false) :
    execList call (.callStack n :: is) { stack := f :: rest, regs := regs } = .error .error := by
  simp [execList, h]

/-! ### library functions -/

/-- **count_never_panics.** `count-values`, `count-keys`, `count-valid-keys`, `sum-by-key` and the
histogram's `countValues`, for every collection (unhashable items, failing iteration): no panic. -/
theorem count_never_panics (sel : Val × Val → Val) :
    ∀ (items : List (Val × Val)) (fails : Bool) (acc : List (Val × Nat)), countWith true sel items fails acc ≠ .error .panic
  | [], fails, acc => by cases fails <;> simp [countWith]
  | it :: rest, fails, acc => by
    simp only [countWith]
    split
    · exact count_never_panics sel rest fails _
    · simp

/-- before fix C23-count-unhashable: a collection holding a collection -/
theorem count_old_counterexample :
    countValuesOld ⟨[(.int 0, .other "coll" "2")], false⟩ = .error .panic ∧
    countValues ⟨[(.int 0, .other "coll" "2")], false⟩ = .error .error := ⟨rfl, rfl⟩

example : countValues ⟨[(.int 0, .str "a")], false⟩ = .ok [(.str "a", 1)] := rfl

/-- **histogram_never_panics.** `NewHistogramFromCollection` for every collection. -/
theorem histogram_never_panics (c : Src) : histogram c ≠ .error .panic := by
  unfold histogram bucketed
  have h := count_never_panics (·.2) c.items c.fails []
  cases hc : countWith true (fun x => x.2) c.items c.fails [] with
  | error e =>
    simp only []
    intro h'
    injection h' with h'
    exact h (by rw [hc, h'])
  | ok kvs =>
    simp only []
    split
    · cases kvs with
      | nil => simp
      | cons p ps =>
        obtain ⟨k0, n0⟩ := p
        simp only []
        split <;> simp
    · simp

/-- before fixes C23-histogram-error-before-use and C23-histogram-mixed-values: a collection whose
iteration fails; an int followed by a float -/
theorem histogram_old_counterexample :
    histogramOld ⟨[], true⟩ = .error .panic ∧
    histogramOld ⟨[(.int 0, .int 1), (.int 1, .other "float" "2.5")], false⟩ = .error .panic ∧
    histogram ⟨[], true⟩ = .error .error ∧
    histogram ⟨[(.int 0, .int 1), (.int 1, .other "float" "2.5")], false⟩ = .error .error := ⟨rfl, rfl, rfl, rfl⟩

theorem sampleLoop_finishes (one step : Int) (hs : 0 < step) :
    ∀ (fuel : Nat) (j : Int) (n : Nat), one ≤ j + step * fuel → ∃ m, sampleLoop one step (fuel + 1) j n = some m
  | 0, j, n, h => by
    simp only [sampleLoop]
    have : j ≥ one := by simpa using h
    simp [this]
  | fuel + 1, j, n, h => by
    simp only [sampleLoop]
    split
    · exact ⟨_, rfl⟩
    · have h2 : step * ((fuel : Int) + 1) = step * fuel + step := by rw [Int.mul_add, Int.mul_one]
      have h3 : one ≤ (j + step) + step * fuel := by
        have : ((fuel + 1 : Nat) : Int) = (fuel : Int) + 1 := by simp
        rw [this, h2] at h
        omega
      exact sampleLoop_finishes one step hs fuel (j + step) (n + 1) h3

/-- **sample_points_terminates.** With a positive step the walk along the path ends after at most
`fuel + 1` iterations whenever `step * fuel` covers the path. -/
theorem sample_points_terminates (one step : Int) (fuel : Nat) (hs : 0 < step) (hf : one ≤ step * fuel) :
    ∃ m, samplePoints one step (fuel + 1) = .ok (some m) := by
  obtain ⟨m, hm⟩ := sampleLoop_finishes one step hs fuel 0 0 (by simpa using hf)
  refine ⟨m, ?_⟩
  simp [samplePoints, hm, Int.not_le.mpr hs]

/-- **sample_points_old_hangs.** Without the guard: a step of zero or less never reaches the end of a
path of positive length, however long one waits. -/
theorem sample_points_old_hangs (one step : Int) (hs : step ≤ 0) :
    ∀ (fuel : Nat) (j : Int) (n : Nat), j < one → sampleLoop one step fuel j n = none
  | 0, _, _, _ => rfl
  | fuel + 1, j, n, h => by
    simp only [sampleLoop]
    have : ¬ j ≥ one := by omega
    simp only [this, if_false]
    exact sample_points_old_hangs one step hs fuel (j + step) (n + 1) (by omega)

/-- fix C23-sample-points-distance: such a step is refused before the loop -/
theorem sample_points_guard (one step : Int) (fuel : Nat) (hs : step ≤ 0) :
    samplePoints one step fuel = .error .error := by simp [samplePoints, hs]

example : samplePoints 1000 300 5 = .ok (some 5) := rfl
example : sampleLoop 1000 0 100000 0 0 = none := sample_points_old_hangs 1000 0 (by decide) _ _ _ (by decide)

/-- **add_feature_never_panics.** Adding a feature whose representation does not fit the type of its ID
fails with an error (`ValidateFeature`), for every combination. -/
theorem add_feature_never_panics (idType repr : String) : addFeature idType repr ≠ .error .panic := by
  unfold addFeature
  split
  · simp
  · split <;> simp

/-- before fix C23-validate-feature-representation: `add-point … /relation/…/700 …` -/
theorem add_feature_old_counterexample :
    addFeatureOld "relation" "generic" = .error .panic ∧ addFeature "relation" "generic" = .error .error :=
  ⟨rfl, rfl⟩

end B6.Props.C23
