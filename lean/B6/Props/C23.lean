/-! C23 — property theorems (stub: nothing proved yet). -/
