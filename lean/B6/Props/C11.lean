/-! C11 — property theorems (stub: nothing proved yet). -/
