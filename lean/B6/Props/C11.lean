import B6.Lemmas.RecordsFeatures
import B6.Lemmas.RecordsTokenMap
import B6.Lemmas.RecordsRaw
/-!
# C11 — every compact record kind round-trips through its codec

Model: `B6/Model/Records.lean` (+ `RecordsTokenMap.lean`).  For every record kind `R`

    R.marshal … r = some bs  →  R.dec … (bs ++ rest) = some (r', bs.length)        for every `rest`

with `r' = r`, or `r' = r.sorted` for the three records whose `Marshal` sorts reference lists in place
(`PointReferences`, `FullPoint`, `Path`).  `marshal = some bs` says the Go `Marshal` does not panic
(`EncodeValueType`, "Can't encode role") — the `…_marshal_total` theorems say exactly when that is; the *same*
primary namespace / `Namespaces` value is used on both sides; `bs.length` is what `Unmarshal` must return
(byte-exact consumption, whatever follows the record).  Field values are unrestricted: every `uint64`
reference value (bit 63 included), every delta (the zigzag of a 64-bit difference, explicit form when it has
bit 63), every `int32` coordinate, every `uint16` namespace, empty lists.

Domain restrictions that are part of the statement (and literally the driver's `inDomain` predicate):
* mixed lists / mixed area polygons are sums: an element is a reference *or* a lat/lng (`canonical`) — the
  encoding writes only the half the flag bit selects (`mixed_needs_canonical_counterexample`);
* `Members` / `Relation`: a member type that does not fit the `FeatureTypeBits = 2` bits of the role word is a
  `Marshal` panic (fixes/C11-member-type-guard.patch; before it the type was OR-ed in silently:
  `member_wide_type_counterexample`), so `marshal = some bs` already excludes it.

Further down: reused receivers of the two sum-like records (`…_reused_receiver*`) and the behaviour of the leaf
decoders on truncated input (`…_truncated`, outside the property's statement).
-/
namespace B6.Props.C11
open B6.Model.Records B6.Model.Varint

/-- unfolding `marshal = some bs` -/
theorem of_marshal {ok : Bool} {enc bs : Bytes} (h : (if ok = true then some enc else none) = some bs) :
    ok = true ∧ enc = bs := by
  cases ok
  · simp at h
  · simpa using h

/-! ## when `Marshal` succeeds -/

theorem lenOk_iff (e l : Nat) (he : e ≤ 2) : lenOk e l = true ↔ (if e = 0 then l < 2 ^ 61 else l < 2 ^ 60) := by
  simp only [lenOk, Bool.and_eq_true, decide_eq_true_eq, valueTypeOk_iff]
  rcases e with _ | _ | _ | e
  · simp only [encodeGeometry]; simp; omega
  · simp only [encodeGeometry]; simp; omega
  · simp only [encodeGeometry]; simp; omega
  · omega

/-- a reference list marshals iff it has fewer than 2^61 elements (no real slice has more) -/
theorem references_marshal_total (p : BitVec 16) (rs : List Reference) :
    (References.marshal p rs).isSome = true ↔ rs.length < 2 ^ 61 := by
  have := lenOk_iff 0 rs.length (by omega)
  simp only [if_true] at this
  simp only [References.marshal, References.ok, ← this]
  by_cases h : lenOk 0 rs.length = true <;> simp [h]

/-- `LatLng.Marshal` never panics -/
theorem latlng_marshal_total (ll : LatLng) : ll.marshal = some ll.enc := by
  simp [LatLng.marshal, latlng_ok]

/-- an `Int` tag value marshals iff it is in `[0, 2^62)` (as a `uint64`) -/
theorem int_value_ok_iff (v : BitVec 64) : (Value.int v).ok = true ↔ v.toNat < 2 ^ 62 := by
  simp [Value.ok, valueTypeOk_iff]

/-- a member marshals iff its role is in `[0, 2^62)` ("Can't encode role") and its type is point, path, area or
relation ("Can't encode member type") -/
theorem member_fits_iff (m : Member) : m.fits = true ↔ m.role.toNat < 2 ^ 62 ∧ m.type.toNat < 4 := by
  have := m.role.isLt
  simp only [Member.fits, Member.ok, Member.typeOk, Bool.and_eq_true, beq_iff_eq, decide_eq_true_eq]
  omega

/-! ## the round-trip theorems -/

theorem reference_roundtrip (p : BitVec 16) (r : Reference) (rest : Bytes) :
    Reference.dec p (Reference.enc p r ++ rest) = some (r, (Reference.enc p r).length) :=
  rt_reference p r rest

example : Reference.enc 8193#16 ⟨8193#16, 42#64⟩ = [84] ∧ Reference.enc 8193#16 ⟨8193#16, (2 ^ 63 + 1 : Nat)⟩ ≠ [] ∧
    Reference.enc 8193#16 ⟨24579#16, 42#64⟩ = [135, 128, 3, 42] := by decide

theorem references_roundtrip (p : BitVec 16) (rs : List Reference) (bs : Bytes)
    (h : References.marshal p rs = some bs) (rest : Bytes) :
    References.dec p (bs ++ rest) = some (rs, bs.length) := by
  obtain ⟨hok, rfl⟩ := of_marshal h
  exact rt_references p rs hok rest

/-- a list with a bit-63 value, a 2^64-1 → 0 wrap-around delta, a delta of 2^62 and a foreign namespace -/
example : (References.marshal 8193#16 [⟨8193#16, (2 ^ 63 : Nat)⟩, ⟨8193#16, 0#64⟩, ⟨8193#16, (2 ^ 64 - 1 : Nat)⟩,
    ⟨8193#16, (2 ^ 62 : Nat)⟩, ⟨24579#16, (2 ^ 63 : Nat)⟩, ⟨0#16, 0#64⟩]).isSome = true := by decide

theorem latlng_roundtrip (ll : LatLng) (bs : Bytes) (h : ll.marshal = some bs) (rest : Bytes) :
    LatLng.dec (bs ++ rest) = some (ll, bs.length) := by
  obtain ⟨_, rfl⟩ := of_marshal h
  exact rt_latlng ll rest

example : (LatLng.marshal ⟨BitVec.ofInt 32 (-2147483648), BitVec.ofInt 32 2147483647⟩).isSome = true := by decide

theorem latlngs_roundtrip (lls : List LatLng) (bs : Bytes) (h : LatLngs.marshal lls = some bs) (rest : Bytes) :
    LatLngs.dec (bs ++ rest) = some (lls, bs.length) := by
  obtain ⟨hok, rfl⟩ := of_marshal h
  exact rt_latlngs lls hok rest

/-- deltas that overflow `int32` (min → max → min) -/
example : (LatLngs.marshal [⟨BitVec.ofInt 32 (-2147483648), 0#32⟩, ⟨BitVec.ofInt 32 2147483647, 1#32⟩,
    ⟨BitVec.ofInt 32 (-2147483648), BitVec.ofInt 32 (-1)⟩]).isSome = true := by decide

theorem bits_roundtrip (b : List Bool) (bs : Bytes) (h : Bits.marshal b = some bs) (rest : Bytes) :
    Bits.dec (bs ++ rest) = some (b, bs.length) := by
  obtain ⟨hok, rfl⟩ := of_marshal h
  exact rt_bits b hok rest

example : Bits.marshal [true, false, true, true, false, false, false, true, true, true] = some [10, 141, 3] := by decide

theorem references_and_latlngs_roundtrip (p : BitVec 16) (g : List RefLL) (hc : ∀ x ∈ g, x.canonical = true)
    (bs : Bytes) (h : RefLLs.marshal p g = some bs) (rest : Bytes) :
    RefLLs.dec p (bs ++ rest) = some (g, bs.length) := by
  obtain ⟨hok, rfl⟩ := of_marshal h
  exact rt_refLLs p g hok hc rest

def mixedExample : List RefLL :=
  [⟨⟨8193#16, 7#64⟩, LatLng.zero⟩, ⟨Reference.invalid, ⟨5#32, BitVec.ofInt 32 (-6)⟩⟩, ⟨⟨8193#16, (2 ^ 63 : Nat)⟩, LatLng.zero⟩,
   ⟨Reference.invalid, LatLng.zero⟩, ⟨⟨3#16, 9#64⟩, LatLng.zero⟩]
example : (∀ x ∈ mixedExample, x.canonical = true) ∧ (RefLLs.marshal 8193#16 mixedExample).isSome = true := by decide

theorem tags_roundtrip (tns : BitVec 16) (ts : List Tag) (hc : Tags.canonical ts = true)
    (bs : Bytes) (h : Tags.marshal tns ts = some bs) (rest : Bytes) :
    Tags.dec tns (bs ++ rest) = some (ts, bs.length) := by
  obtain ⟨hok, rfl⟩ := of_marshal h
  exact rt_tags tns ts hok hc rest

/-- one tag of every value kind, a negative key -/
def tagsExample : List Tag :=
  [⟨1#64, .int 5#64⟩, ⟨BitVec.ofInt 64 (-1), .point ⟨1#32, 2#32⟩⟩, ⟨3#64, .latlngs [⟨1#32, 2#32⟩, ⟨0#32, 0#32⟩]⟩,
   ⟨4#64, .refs [⟨8193#16, 9#64⟩, ⟨3#16, 1#64⟩]⟩, ⟨5#64, .mixed mixedExample⟩, ⟨6#64, .refs []⟩]
example : Tags.canonical tagsExample = true ∧ (Tags.marshal 8193#16 tagsExample).isSome = true := by decide

theorem members_roundtrip (p : BitVec 16) (ms : List Member)
    (bs : Bytes) (h : Members.marshal p ms = some bs) (rest : Bytes) :
    Members.dec p (bs ++ rest) = some (ms, bs.length) := by
  obtain ⟨hok, rfl⟩ := of_marshal h
  exact rt_members p ms hok rest

def membersExample : List Member :=
  [⟨0#64, 17#64, ⟨8193#16, 5#64⟩⟩, ⟨3#64, (2 ^ 62 - 1 : Nat), ⟨24579#16, (2 ^ 64 - 1 : Nat)⟩⟩, ⟨2#64, 0#64, ⟨0#16, 0#64⟩⟩]
example : (Members.marshal 8193#16 membersExample).isSome = true ∧
    Members.marshal 8193#16 [⟨5#64, 4#64, ⟨0#16, 0#64⟩⟩] = none := by decide

theorem delta_ints_roundtrip (vs : List (BitVec 64)) (rest : Bytes) :
    DeltaInts.dec vs.length (DeltaInts.enc vs ++ rest) = some (vs, (DeltaInts.enc vs).length) :=
  rt_deltaInts vs rest

theorem area_geometry_references_roundtrip (p : BitVec 16) (a : AreaGeomRefs) (bs : Bytes)
    (h : AreaGeomRefs.marshal p a = some bs) (rest : Bytes) :
    AreaGeomRefs.dec p (bs ++ rest) = some (a, bs.length) := by
  obtain ⟨hok, rfl⟩ := of_marshal h
  exact rt_areaGeomRefs p a hok rest

def agrExample : AreaGeomRefs := ⟨[1#64, 2#64, 3#64], [⟨8193#16, 10#64⟩, ⟨8193#16, 11#64⟩, ⟨8193#16, 12#64⟩, ⟨8193#16, 13#64⟩]⟩
example : AreaGeomRefs.marshal 8193#16 agrExample = some [6, 2, 2, 2, 34, 40, 4, 4, 4] := by decide

theorem polygon_geometry_latlngs_roundtrip (q : PolygonLL) (bs : Bytes) (h : q.marshal = some bs) (rest : Bytes) :
    PolygonLL.dec (bs ++ rest) = some (q, bs.length) := by
  obtain ⟨hok, rfl⟩ := of_marshal h
  exact rt_polygonLL q hok rest

theorem area_geometry_latlngs_roundtrip (ps : List PolygonLL) (bs : Bytes)
    (h : AreaGeomLL.marshal ps = some bs) (rest : Bytes) :
    AreaGeomLL.dec (bs ++ rest) = some (ps, bs.length) := by
  obtain ⟨hok, rfl⟩ := of_marshal h
  exact rt_areaGeomLL ps hok rest

def pllExample : PolygonLL := ⟨[3#64], [⟨1#32, 1#32⟩, ⟨2#32, 1#32⟩, ⟨2#32, 2#32⟩, ⟨5#32, 5#32⟩, ⟨6#32, 5#32⟩, ⟨6#32, 6#32⟩]⟩
example : (AreaGeomLL.marshal [pllExample, PolygonLL.zero, pllExample]).isSome = true := by decide

theorem area_geometry_mixed_roundtrip (p : BitVec 16) (ps : List PolygonMixed) (hc : ∀ q ∈ ps, q.canonical = true)
    (bs : Bytes) (h : AreaGeomMixed.marshal p ps = some bs) (rest : Bytes) :
    AreaGeomMixed.dec p (bs ++ rest) = some (ps, bs.length) := by
  obtain ⟨hok, rfl⟩ := of_marshal h
  exact rt_areaGeomMixed p ps hok hc rest

def agmExample : List PolygonMixed := [⟨[⟨8193#16, 10#64⟩, ⟨3#16, 11#64⟩], PolygonLL.zero⟩, ⟨[], pllExample⟩, ⟨[], PolygonLL.zero⟩]
example : (∀ q ∈ agmExample, q.canonical = true) ∧ (AreaGeomMixed.marshal 8193#16 agmExample).isSome = true := by decide

/-- `UnmarshalAreaGeometry` (the decoder `Area.Unmarshal` uses) on the output of any of the three `Marshal`s -/
theorem unmarshal_area_geometry_roundtrip (p : BitVec 16) (g : AreaGeometry) (hok : g.ok = true)
    (hc : g.canonical = true) (rest : Bytes) :
    AreaGeometry.dec p (g.enc p ++ rest) = some (g, (g.enc p).length) :=
  rt_areaGeometry p g hok hc rest

example : (AreaGeometry.mixed agmExample).ok = true ∧ (AreaGeometry.mixed agmExample).canonical = true ∧
    (AreaGeometry.refs agrExample).ok = true ∧ (AreaGeometry.latlngs [pllExample]).ok = true := by decide

theorem common_point_roundtrip (n : Namespaces) (c : CommonPoint) (hc : Tags.canonical c.tags = true)
    (bs : Bytes) (h : c.marshal n = some bs) (rest : Bytes) :
    CommonPoint.dec n (bs ++ rest) = some (c, bs.length) := by
  obtain ⟨hok, rfl⟩ := of_marshal h
  exact rt_commonPoint n c hok hc rest

def nssExample : Namespaces := ⟨1#16, 2#16, 2#16, 3#16⟩
example : (CommonPoint.marshal nssExample ⟨tagsExample, ⟨tnPath nssExample, 77#64⟩⟩).isSome = true := by decide

theorem point_references_roundtrip (n : Namespaces) (p : PointReferences) (bs : Bytes)
    (h : p.marshal n = some bs) (rest : Bytes) :
    PointReferences.dec n (bs ++ rest) = some (p.sorted, bs.length) := by
  obtain ⟨hok, rfl⟩ := of_marshal h
  exact rt_pointReferences n p hok rest

/-- what "sorted" means: `sortRefs l` is the permutation of `l` ordered by `References.Less` -/
theorem sort_refs_spec (l : List Reference) :
    (sortRefs l).Perm l ∧ (sortRefs l).Pairwise (fun a b => Reference.le a b = true) :=
  ⟨sortRefs_perm l, sortRefs_sorted l⟩

example : sortRefs [⟨3#16, 5#64⟩, ⟨2#16, 9#64⟩, ⟨3#16, 1#64⟩, ⟨2#16, 9#64⟩] = [⟨2#16, 9#64⟩, ⟨2#16, 9#64⟩, ⟨3#16, 1#64⟩, ⟨3#16, 5#64⟩] := by
  decide

theorem full_point_roundtrip (n : Namespaces) (p : FullPoint) (hc : Tags.canonical p.tags = true)
    (bs : Bytes) (h : p.marshal n = some bs) (rest : Bytes) :
    FullPoint.dec n (bs ++ rest) = some (p.sorted, bs.length) := by
  obtain ⟨hok, rfl⟩ := of_marshal h
  exact rt_fullPoint n p hok hc rest

theorem path_roundtrip (n : Namespaces) (p : Path) (hc : Tags.canonical p.tags = true)
    (bs : Bytes) (h : p.marshal n = some bs) (rest : Bytes) :
    Path.dec n (bs ++ rest) = some (p.sorted, bs.length) := by
  obtain ⟨hok, rfl⟩ := of_marshal h
  exact rt_path n p hok hc rest

def pathExample : Path := ⟨tagsExample, [⟨tnArea nssExample, 9#64⟩, ⟨tnArea nssExample, 4#64⟩, ⟨5#16, 1#64⟩], [⟨tnRelation nssExample, 9#64⟩, ⟨tnRelation nssExample, 4#64⟩]⟩
example : (pathExample.marshal nssExample).isSome = true ∧ pathExample.sorted ≠ pathExample := by decide

theorem area_roundtrip (n : Namespaces) (a : Area) (hc : Tags.canonical a.tags = true)
    (hg : a.polygons.canonical = true) (bs : Bytes) (h : a.marshal n = some bs) (rest : Bytes) :
    Area.dec n (bs ++ rest) = some (a, bs.length) := by
  obtain ⟨hok, rfl⟩ := of_marshal h
  exact rt_area n a hok hc hg rest

def areaExample : Area := ⟨tagsExample, .mixed agmExample, [⟨tnRelation nssExample, 51#64⟩, ⟨tnRelation nssExample, 60#64⟩, ⟨tnPath nssExample, 3#64⟩]⟩
example : (areaExample.marshal nssExample).isSome = true := by decide

/-- relations with the member list in every primary namespace `t` (point, path, area, relation) -/
theorem relation_roundtrip (t : BitVec 64) (n : Namespaces) (r : Relation) (hc : Tags.canonical r.tags = true)
    (bs : Bytes) (h : r.marshal t n = some bs) (rest : Bytes) :
    Relation.dec t n (bs ++ rest) = some (r, bs.length) := by
  unfold Relation.marshal at h
  unfold Relation.dec
  cases hm : memberPrimary n t with
  | none => simp [hm] at h
  | some mp =>
    simp only [hm] at h ⊢
    obtain ⟨hok, rfl⟩ := of_marshal h
    exact rt_relationWith mp n r hok hc rest

def relationExample : Relation := ⟨[⟨1#64, .int 5#64⟩], membersExample, [⟨tnRelation nssExample, 5#64⟩]⟩
example : (Relation.marshal 0#64 nssExample relationExample).isSome = true ∧ (Relation.marshal 1#64 nssExample relationExample).isSome = true ∧
    (Relation.marshal 2#64 nssExample relationExample).isSome = true ∧ (Relation.marshal 3#64 nssExample relationExample).isSome = true ∧
    Relation.marshal 4#64 nssExample relationExample = none := by
  decide

theorem namespaces_roundtrip (n : Namespaces) (rest : Bytes) :
    Namespaces.dec (n.enc ++ rest) = some (n, 8) := by
  have := rt_namespaces n rest
  have hl : n.enc.length = 8 := by
    simp [Namespaces.enc, putU16, marshalUint64_length]
  rwa [hl] at this

theorem string_roundtrip (s : Bytes) (bs : Bytes) (h : Str.marshal s = some bs) (rest : Bytes) :
    Str.dec (bs ++ rest) = some (s, bs.length) := by
  obtain ⟨hok, rfl⟩ := of_marshal h
  exact rt_str s hok rest

theorem namespace_index_roundtrip (x : NamespaceIndex) (rest : Bytes) :
    NamespaceIndex.dec (x.enc ++ rest) = some (x, x.enc.length) :=
  rt_namespaceIndex x rest

theorem namespace_indices_roundtrip (xs : List NamespaceIndex) (bs : Bytes)
    (h : NamespaceIndices.marshal xs = some bs) (rest : Bytes) :
    NamespaceIndices.dec (bs ++ rest) = some (xs, bs.length) := by
  obtain ⟨hok, rfl⟩ := of_marshal h
  exact rt_namespaceIndices xs hok rest

theorem posting_list_header_roundtrip (hd : PostingListHeader) (bs : Bytes)
    (h : hd.marshal = some bs) (rest : Bytes) :
    PostingListHeader.dec (bs ++ rest) = some (hd, bs.length) := by
  obtain ⟨hok, rfl⟩ := of_marshal h
  exact rt_postingListHeader hd hok rest

example : (PostingListHeader.marshal ⟨[104, 105], 3#64, [⟨8193#16, 0#64⟩, ⟨24579#16, 64#64⟩]⟩).isSome = true := by decide

/-! ## TokenMap -/

open B6.Model.RecordsTokenMap in
/-- `tokenmap_find`, encoder level: after any sequence of `TokenMapEncoder.Add` calls (every resize included)
each added `(token, index)` is in the bucket `HashString(token) % len(buckets)`, i.e. the bucket
`FindPossibleIndices(token)` selects … -/
theorem tokenmap_added_in_hash_bucket (adds : List Entry) (y : Entry) (hy : y ∈ adds) :
    ∃ hb : hashString y.1 % (addAll adds).buckets.length < (addAll adds).buckets.length,
      y ∈ (addAll adds).buckets[hashString y.1 % (addAll adds).buckets.length] :=
  added_in_hash_bucket adds y hy

open B6.Model.RecordsTokenMap in
/-- … the iterator over that bucket's bytes returns exactly the bucket's indices … -/
theorem tokenmap_bucket_drain (l : List Entry) : drain (itemBytes l).length (itemBytes l) = some (l.map (·.2)) :=
  drain_itemBytes l _ (Nat.le_refl _)

open B6.Model.RecordsTokenMap in
/-- … `TokenMap.Unmarshal` on the written table (followed by anything) reports exactly the bytes written
(`Fits`: fewer than 2^32 buckets, fewer than 2^64 data bytes — what the `ByteArrays` header can express) … -/
theorem tokenmap_unmarshal_length (e : Encoder) (hf : Fits e) (rest : Bytes) :
    decodeLength (encode e ++ rest) = some (encode e).length :=
  decodeLength_encode e hf rest

open B6.Model.RecordsTokenMap in
/-- … and `FindPossibleIndices(token)` read from the written bytes is that bucket. -/
theorem tokenmap_find_possible_indices (e : Encoder) (hinv : Inv e) (hf : Fits e) (rest tok : Bytes) :
    findPossibleIndices (encode e ++ rest) tok =
      some ((e.buckets[hashString tok % e.buckets.length]'(Nat.mod_lt _ hinv.1)).map (·.2)) :=
  findPossibleIndices_encode e hinv hf rest tok

open B6.Model.RecordsTokenMap in
/-- **`tokenmap_find`**: add any tokens, write the table, read it back: every added token's index is among the
possible indices reported for the token. -/
theorem tokenmap_find (adds : List Entry) (hf : Fits (addAll adds)) (rest : Bytes) (y : Entry) (hy : y ∈ adds) :
    ∃ l, findPossibleIndices (encode (addAll adds) ++ rest) y.1 = some l ∧ y.2 ∈ l :=
  B6.Model.RecordsTokenMap.tokenmap_find adds hf rest y hy

open B6.Model.RecordsTokenMap in
example : (Fits (addAll [([97], 0#64), ([98], 1#64), ([99], 2#64), ([97], 3#64)])) ∧
    (addAll [([97], 0#64), ([98], 1#64), ([99], 2#64), ([97], 3#64)]).buckets.length = 8 ∧
    findPossibleIndices (encode (addAll [([97], 0#64), ([98], 1#64), ([99], 2#64), ([97], 3#64)]) ++ [255]) [97] = some [0#64, 3#64] := by
  refine ⟨⟨by decide, by decide⟩, by decide, by decide⟩

/-! ## the code before the repairs -/

/-- `AreaGeometryReferences.Unmarshal` before fixes/C11-area-geometry-consumed.patch: the value comes back, but
the reported length is the polygon count + body (3), not the 4 bytes `Marshal` wrote. -/
theorem area_geometry_refs_consumed_counterexample :
    AreaGeomRefs.marshal 8193#16 ⟨[], [⟨8193#16, 42#64⟩]⟩ = some [0, 10, 168, 1] ∧
    AreaGeomRefs.decOld 8193#16 [0, 10, 168, 1] = some (⟨[], [⟨8193#16, 42#64⟩]⟩, 3) ∧
    AreaGeomRefs.dec 8193#16 [0, 10, 168, 1] = some (⟨[], [⟨8193#16, 42#64⟩]⟩, 4) := by decide

/-- the same slip in `AreaGeometryLatLngs.Unmarshal`: three empty polygons are 7 bytes, 9 were reported. -/
theorem area_geometry_latlngs_consumed_counterexample :
    AreaGeomLL.marshal [PolygonLL.zero, PolygonLL.zero, PolygonLL.zero] = some [13, 0, 6, 0, 6, 0, 6] ∧
    AreaGeomLL.decOld [13, 0, 6, 0, 6, 0, 6] = some ([PolygonLL.zero, PolygonLL.zero, PolygonLL.zero], 9) ∧
    AreaGeomLL.dec [13, 0, 6, 0, 6, 0, 6] = some ([PolygonLL.zero, PolygonLL.zero, PolygonLL.zero], 7) := by decide

/-- `Area.Marshal` before fixes/C02-area-relations-primary.patch wrote the relations against the path namespace
while `Area.Unmarshal` reads them against the relation namespace: relation 51 comes back as relation
`zigzagDecode 51 = -26`. -/
theorem area_relations_primary_counterexample :
    (Area.dec ⟨1#16, 2#16, 2#16, 3#16⟩ (Area.encOld ⟨1#16, 2#16, 2#16, 3#16⟩ ⟨[], .refs ⟨[], []⟩, [⟨24579#16, 51#64⟩]⟩)).map (·.1.relations)
      = some [⟨24579#16, BitVec.ofInt 64 (-26)⟩] := by decide

/-! ## why the domain restrictions are needed (these are not defects: the values are not records the builder makes) -/

/-- a mixed element carrying both a reference and a lat/lng loses the lat/lng -/
theorem mixed_needs_canonical_counterexample :
    RefLLs.dec 8193#16 (RefLLs.enc 8193#16 [⟨⟨8193#16, 5#64⟩, ⟨1#32, 2#32⟩⟩]) = some ([⟨⟨8193#16, 5#64⟩, LatLng.zero⟩], 4) := by decide

/-- the code before fixes/C11-member-type-guard.patch (`Members.enc` without the `ok` test): a member of type 5
(collection) went out without a panic and came back as type 1 (path) with role 5 instead of 4 — the type was
OR-ed into a 2-bit field of the role word. -/
theorem member_wide_type_counterexample :
    (Members.dec 0#16 (Members.enc 0#16 [⟨5#64, 4#64, ⟨0#16, 0#64⟩⟩])).map (·.1) = some [⟨1#64, 5#64, ⟨0#16, 0#64⟩⟩] := by decide

/-! ## reused receivers of the two sum-like records

Every other `Unmarshal` overwrites all fields of the slots it reuses (the harness decodes into used receivers
for those).  These two fill in only the half the flag bit selects. -/

/-- marshal `g`, unmarshal into a receiver that holds `old`: `overlay old g` comes back (every `g`, every
`old`), consumption exact -/
theorem references_and_latlngs_reused_receiver (old : List RefLL) (p : BitVec 16) (g : List RefLL) (bs : Bytes)
    (h : RefLLs.marshal p g = some bs) (rest : Bytes) :
    RefLLs.decInto old p (bs ++ rest) = some (RefLLs.overlay old g, bs.length) := by
  obtain ⟨hok, rfl⟩ := of_marshal h
  exact rt_refLLsInto old p g hok rest

/-- the exact condition for the reuse to be invisible: under every element of `g` the stale half equals the
half `g` has there (`compatible`, executable; the driver's predicate for `mixed!` ops) -/
theorem references_and_latlngs_reused_receiver_iff (old g : List RefLL) :
    RefLLs.overlay old g = g ↔ RefLLs.compatible old g = true :=
  refLLs_overlay_eq_iff g old

/-- it holds for a fresh receiver (the only use in the code base: `inferValueType` allocates), where the model is
the plain decoder … -/
theorem references_and_latlngs_fresh_receiver (p : BitVec 16) (g : List RefLL) (hc : ∀ x ∈ g, x.canonical = true) :
    RefLLs.decInto [] p = RefLLs.dec p ∧ RefLLs.compatible [] g = true :=
  ⟨refLLs_decInto_nil p, refLLs_compatible_fresh g hc⟩

/-- … and for a receiver that last held a canonical value with the same reference / lat-lng pattern -/
theorem references_and_latlngs_same_shape (old g : List RefLL) (hg : ∀ x ∈ g, x.canonical = true)
    (ho : ∀ x ∈ old, x.canonical = true) (hz : ∀ pr ∈ old.zip g, pr.1.isRef = pr.2.isRef) :
    RefLLs.compatible old g = true :=
  refLLs_compatible_same_shape g old hg ho hz

/-- otherwise not: a lat/lng decoded into a slot that held a reference keeps the reference (and would be
marshalled as that reference next time) -/
theorem references_and_latlngs_stale_receiver_counterexample :
    RefLLs.decInto [⟨⟨8193#16, 7#64⟩, LatLng.zero⟩] 8193#16 (RefLLs.enc 8193#16 [⟨Reference.invalid, ⟨1#32, 2#32⟩⟩]) =
      some ([⟨⟨8193#16, 7#64⟩, ⟨1#32, 2#32⟩⟩], 5) := by decide

theorem area_geometry_mixed_reused_receiver (old : List PolygonMixed) (p : BitVec 16) (ps : List PolygonMixed)
    (bs : Bytes) (h : AreaGeomMixed.marshal p ps = some bs) (rest : Bytes) :
    AreaGeomMixed.decInto old p (bs ++ rest) = some (AreaGeomMixed.overlay old ps, bs.length) := by
  obtain ⟨hok, rfl⟩ := of_marshal h
  exact rt_areaGeomMixedInto old p ps hok rest

theorem area_geometry_mixed_reused_receiver_iff (old ps : List PolygonMixed) :
    AreaGeomMixed.overlay old ps = ps ↔ AreaGeomMixed.compatible old ps = true :=
  areaGeomMixed_overlay_eq_iff ps old

/-- a lat/lng polygon decoded into a slot that held path references keeps the paths: `PathIDs(i)` then answers
with the stale paths -/
theorem area_geometry_mixed_stale_receiver_counterexample :
    (AreaGeomMixed.decInto [⟨[⟨8193#16, 7#64⟩], PolygonLL.zero⟩] 8193#16 (AreaGeomMixed.enc 8193#16 [⟨[], pllExample⟩])).map (·.1) =
      some [⟨[⟨8193#16, 7#64⟩], pllExample⟩] := by decide

/-! ## leaf decoders on truncated input (outside the property: what `Unmarshal` does with a proper prefix)

`binary.Uvarint` answers `(0, 0)` on a short buffer and the code does not look at the count: missing varints read
as 0 and consume nothing — no panic, no error; fixed-width fields and string bodies panic (slice bounds). -/

theorem reference_truncated (p : BitVec 16) (r : Reference) (k : Nat) (hk : k < (Reference.enc p r).length) :
    Reference.decRaw p ((Reference.enc p r).take k) =
      if (r.tn ≠ p ∨ 2 ^ 63 ≤ r.value.toNat) ∧ (putUvarint (r.tn.toNat * 2 + 1)).length ≤ k
      then .ok ⟨r.tn, 0#64⟩ (putUvarint (r.tn.toNat * 2 + 1)).length else .ok ⟨p, 0#64⟩ 0 :=
  reference_truncated_raw p r k hk

example : prefixResults (Reference.decRaw 8193#16) (Reference.enc 8193#16 ⟨24579#16, 300#64⟩) =
    [.ok ⟨8193#16, 0#64⟩ 0, .ok ⟨8193#16, 0#64⟩ 0, .ok ⟨8193#16, 0#64⟩ 0, .ok ⟨24579#16, 0#64⟩ 3, .ok ⟨24579#16, 0#64⟩ 3] := by decide

theorem int_truncated (v : BitVec 64) (k : Nat) (hk : k < ((Value.int v).enc 0#16).length) :
    Int.decRaw (((Value.int v).enc 0#16).take k) = .ok 0#64 0 :=
  int_truncated_raw _ k hk

theorem string_truncated (s : Bytes) (hs : Str.ok s = true) (k : Nat) (hk : k < (Str.enc s).length) :
    Str.decRaw ((Str.enc s).take k) = if k < (putUvarint s.length).length then .ok [] 0 else .panic :=
  string_truncated_raw s (by simpa [Str.ok] using hs) k hk

theorem namespace_index_truncated (x : NamespaceIndex) (k : Nat) (hk : k < x.enc.length) :
    NamespaceIndex.decRaw (x.enc.take k) =
      if (putUvarint x.tn.toNat).length ≤ k then .ok ⟨x.tn, 0#64⟩ (putUvarint x.tn.toNat).length else .ok ⟨0#16, 0#64⟩ 0 :=
  namespaceIndex_truncated_raw x k hk

theorem namespaces_truncated (n : Namespaces) (k : Nat) (hk : k < 8) : Namespaces.decRaw (n.enc.take k) = .panic :=
  namespaces_truncated_raw n k hk

theorem latlng_truncated (ll : LatLng) (k : Nat) (hk : k < ll.enc.length) :
    LatLng.decRaw (ll.enc.take k) = .panic ∨
      (4 ≤ k ∧ k < (putUvarint (encodeValueType 1 ll.latWord)).length ∧
        LatLng.decRaw (ll.enc.take k) = .ok ⟨0#32, BitVec.ofNat 32 (leValue (ll.enc.take 4))⟩ 4) :=
  latlng_truncated_raw ll k hk

/-- the second case happens: a latitude whose varint takes 5 bytes, cut after 4 -/
example : LatLng.decRaw ((LatLng.enc ⟨BitVec.ofInt 32 (-2147483648), 5#32⟩).take 4) = .ok ⟨0#32, 4294967293#32⟩ 4 := by decide

end B6.Props.C11
