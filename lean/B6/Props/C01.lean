import B6.Lemmas.CompactIndexNodup
/-!
# C01 — the compact index round-trips every feature it accepts

Model: `B6/Model/CompactIndex.lean` (`build`, `find`, `each`, `decodeFeature`, `canon`, `Accepts`), on top of the
record codecs of `B6/Model/Records.lean` (C11) and the entry view of `Uint64Map` (C09).  Proofs are in
`B6/Lemmas/CompactIndex{Values,Records}.lean`; everything here is kernel-only (`propext`, `Classical.choice`,
`Quot.sound`).

What is proved, for ALL strings tables, namespace tables, ids (every 64-bit value), tag lists and geometries:

* the writer/reader pairs below the feature level: namespace table and string table lookups
  (`table_lookup`), `TypeAndNamespace` packing without `bv_decide` (`type_ns_kernel`), references
  (`reference_roundtrip`, `reference_never_invalid`), tag values with their kinds (`value_roundtrip`,
  `value_roundtrip_plain`), tag lists (`tags_roundtrip`, `tags_roundtrip_plain`);
* the feature records: what `decodeFeature` (the reader: `newPhysicalFeatureFromTagged`,
  `newWrappedPhysicalFeatureFromBuffer`, `marshalledRelation.fillMembers`, `MarshalledTags.AllTags`,
  `fromCompactValue`) makes of the bytes `pathRecord` / `areaRecord` / `relationRecord` / the point scratch entry
  produce is the source feature — `point_roundtrip`, `path_roundtrip`, `area_roundtrip`, `relation_roundtrip` — with the
  reader using the header of the block the record lives in and the writer the namespaces build.go passes;
* `primary_agree`: for every (record, field) the primary namespace the writer marshals against is the one
  the reader unmarshals against (table transcribed from build.go / encoding.go / world.go; `by decide`).

* **index level**: `compact_find_roundtrip` — for every accepted source, if the build succeeds then every
  feature is found by its id in canonical form (`record_placement`, `find_routed` are its halves).

* `each_enumerates_every_feature`, `each_enumerates_only_features`: the set of ids `EachFeature` reports is the
  set of ids of the source.

* **`compact_roundtrip : compact_roundtrip_statement`** — the whole property for the model: on every source in
  `Accepts` the build does not panic (`build_never_panics`), every feature is found in canonical form, and
  `each` is a duplicate free permutation of the ids (`each_no_id_twice`, `each_is_permutation`).  `Accepts`
  excludes the three recorded finding classes explicitly (`accepts_excludes_findings`); on a witness of each
  class the model build fails (`finding_classes_fail`), as the real build does.

Nothing of `compact_roundtrip_statement` is left unproved for the model; the tie to the Go code remains the
correspondence run (every block byte for byte, every `find` / `each` answer) plus the oracle assumptions (S2).

Counterexamples (the code before the repairs, and the recorded finding): `mixed_path_nil_counterexample`,
`relation_relations_primary_counterexample`, `fid_tag_value_counterexample`.
-/
namespace B6.Props.C01
open B6.Model.CompactIndex B6.Model.Records B6.Model.Varint
open B6.Model.Bits (combineTypeNs splitTypeNs)

/-! ## tables -/

/-- the index the writer gets for a string / namespace is an index at which the reader finds it — for every
table (any order, duplicates or not: the string table is an arbitrary parameter). -/
theorem table_lookup (tbl : List Str) (s : Str) (i : Nat) (h : tbl.findIdx? (· == s) = some i) :
    tbl[i]? = some s ∧ i < tbl.length :=
  ⟨findIdx?_getElem? s tbl i h, findIdx?_lt _ tbl i h⟩

example : strId [[97], [98], [97]] [98] = some 1 ∧ nsEncode (nsTable []) nsOsmWay = some 3 := by decide

/-- `Split(Combine(t, ns)) = (t, ns)` for `t < 8`, `ns < 2^13`, kernel-only (C10 `type_ns` uses `bv_decide`). -/
theorem type_ns_kernel (t n : Nat) (ht : t < 8) (hn : n < 8192) :
    splitTypeNs (combineTypeNs (BitVec.ofNat 64 t) (BitVec.ofNat 16 n)) = (BitVec.ofNat 64 t, BitVec.ofNat 16 n) :=
  split_combine t n ht hn

example : splitTypeNs (combineTypeNs 3#64 8191#16) = (3#64, 8191#16) := by decide

/-- a feature id written as a `Reference` reads back (table of at most 2^13 namespaces, type below 8). -/
theorem reference_roundtrip (nt : List Str) (hnt : nt.length ≤ 8192) (id : FID) (ht : id.typ < 8) (r : Reference)
    (h : mkRef nt id = some r) : unRef nt r = some id :=
  unRef_mkRef nt hnt id ht r h

/-- … and is never mistaken for the "no reference" marker of a mixed path. -/
theorem reference_never_invalid (nt : List Str) (hnt : NtOK nt) (id : FID) (hok : id.ok = true) (r : Reference)
    (h : mkRef nt id = some r) : r ≠ Reference.invalid :=
  mkRef_ne_invalid nt hnt id hok r h

example : (mkRef (nsTable []) ⟨0, nsOsmNode, (2 ^ 63 + 5 : Nat)⟩).bind (unRef (nsTable [])) = some ⟨0, nsOsmNode, (2 ^ 63 + 5 : Nat)⟩ := by
  decide

/-! ## tag values and tags -/

/-- every representable tag value — string, point, list of references / lat-lngs / both — comes back with its
kind, whatever geometry encoding `e` the writer chose, provided the writer did not panic. -/
theorem value_roundtrip (c : Ctx) (hc : CtxOK c) (e : Option Nat) (v : Val) (hv : v.ok = true) (cv : Value)
    (h : toCompactValue c e v = some cv) : fromCompactValue c.strs (some c.nt) cv = some v :=
  fromCompact_toCompact c hc e v hv cv h

/-- the readers that pass a nil namespace table (points, areas, relations) get strings and points back. -/
theorem value_roundtrip_plain (c : Ctx) (hs : c.strs.length ≤ 2 ^ 64) (e : Option Nat) (v : Val)
    (hv : v.plain = true) (cv : Value) (h : toCompactValue c e v = some cv) :
    fromCompactValue c.strs none cv = some v :=
  fromCompact_toCompact_plain c hs e v hv cv h

/-- `MarshalledTags.AllTags` on what `Tags.FromFeature` + `Tags.Marshal` wrote, followed by any bytes:
the same keys, values and value kinds in the same order. -/
theorem tags_roundtrip (c : Ctx) (hc : CtxOK c) (f : Feature) (hvals : ∀ t ∈ f.tags, t.val.ok = true)
    (ts : List Tag) (h : toCompactTags c f = some ts) (hok : Tags.ok ts = true) (tns : BitVec 16) (rest : Bytes) :
    allTags c.strs (some c.nt) tns (Tags.enc tns ts ++ rest) = some f.tags :=
  allTags_roundtrip c hc f hvals ts h hok tns rest

theorem tags_roundtrip_plain (c : Ctx) (hs : c.strs.length ≤ 2 ^ 64) (f : Feature)
    (hvals : ∀ t ∈ f.tags, t.val.plain = true) (ts : List Tag) (h : toCompactTags c f = some ts)
    (hok : Tags.ok ts = true) (tns : BitVec 16) (rest : Bytes) :
    allTags c.strs none tns (Tags.enc tns ts ++ rest) = some f.tags :=
  allTags_roundtrip_plain c hs f hvals ts h hok tns rest

/-! ## feature records -/

/-- **points**: whatever `combinePoints` appends (a path reference, sorted reference lists), the record
starts with the point's `PointTag` entry and the reader returns the point's tags. -/
theorem point_roundtrip (c : Ctx) (hs : c.strs.length ≤ 2 ^ 64) (f : Feature)
    (hvals : ∀ t ∈ f.tags, t.val.plain = true) (ts : List Tag) (h : toCompactTags c f = some ts)
    (hok : Tags.ok ts = true) (rest : Bytes) (hdr : Namespaces) (id : FID) (hid : id.typ = 0) :
    decodeFeature c.strs c.nt hdr id (Tags.enc 0#16 ts ++ rest) = some { id := id, tags := f.tags } :=
  point_record_roundtrip c hs f hvals ts h hok rest hdr id hid

/-- **paths**: the record `pathRecord` builds (tags incl. the geometry by reference / lat-lng / mixed, areas,
relations) read through any block header gives back the tag list — point sequence, references and kinds. -/
theorem path_roundtrip (c : Ctx) (hc : CtxOK c) (fs : List Feature) (g : Feature)
    (hvals : ∀ t ∈ g.tags, t.val.ok = true) (data : Bytes) (h : pathRecord c fs g = .ok data)
    (hdr : Namespaces) (id : FID) (hid : id.typ = 1) :
    decodeFeature c.strs c.nt hdr id data = some { id := id, tags := g.tags } :=
  path_record_roundtrip c hc fs g hvals data h hdr id hid

/-- **relations**: tags and members (role and id of every member type) through the header of the relation's
own block. -/
theorem relation_roundtrip (c : Ctx) (hc : CtxOK c) (fs : List Feature) (g : Feature)
    (hvals : ∀ t ∈ g.tags, t.val.plain = true) (hms : ∀ m ∈ g.members, m.id.typ < 4) (data : Bytes)
    (h : relationRecord c fs g = .ok data) (n : Nat) (hn : nsEncode c.nt g.id.ns = some n) (id : FID) (hid : id.typ = 3) :
    decodeFeature c.strs c.nt (blockHeader c 3 n) id data = some { id := id, tags := g.tags, members := g.members } :=
  relation_record_roundtrip c hc fs g hvals hms data h n hn id hid

/-- **areas**: tags and polygons — by path ids, by explicit loops, or both in any order — through the header of
the area's own block; explicit polygons with fewer than three points are dropped (`canonPolys`), as
`PolygonGeometryLatLngs.IsValid` demands.  `polyOK`: a path polygon names at least one path (an empty one is
indistinguishable from "no boundary recorded"), sizes are those of Go slices. -/
theorem area_roundtrip (c : Ctx) (hc : CtxOK c) (fs : List Feature) (g : Feature)
    (hvals : ∀ t ∈ g.tags, t.val.plain = true) (hok : ∀ p ∈ g.polys, polyOK p)
    (hsize : (g.polys.filterMap pathsOf).flatten.length < 2 ^ 64) (data : Bytes)
    (h : areaRecord c fs g = .ok data) (n : Nat) (id : FID) (hid : id.typ = 2) :
    decodeFeature c.strs c.nt (blockHeader c 2 n) id data =
      some { id := id, tags := g.tags, polys := canonPolys g.polys } :=
  area_record_roundtrip c hc fs g hvals hok hsize data h n id hid

/-- the geometry alone, with the fact C11's `area_roundtrip` needs of it (`canonical`) -/
theorem area_geometry_roundtrip (c : Ctx) (hc : CtxOK c) (a : Feature) (hok : ∀ p ∈ a.polys, polyOK p)
    (hsize : (a.polys.filterMap pathsOf).flatten.length < 2 ^ 64) (g : AreaGeometry) (h : areaGeometry c a = .ok g) :
    polysOfGeometry c.nt g = some (canonPolys a.polys) ∧ g.canonical = true :=
  areaGeometry_roundtrip c hc a hok hsize g h

/-! ## index level, given the routing -/

/-- `FindFeatureByID`: if exactly one block of the id's type carries the id's encoded namespace in its header
and that block holds the id once (`Holds`: the entry is there, no other entry has the id, it is not a
references-only point record / it is the `NoTag` entry / a non-empty area record), the answer is the reader's
view of that entry — whatever else is in the index.  Together with the record theorems above this is the
round trip for every feature *the builder put where `compact_roundtrip_statement` says it does* (which the
correspondence run checks byte for byte). -/
theorem find_routed (ix : Index) (id : FID) (n : Nat) (hn : nsEncode ix.nt id.ns = some n) (b : Block)
    (e : B6.Model.Containers.Entry)
    (hroute : (ix.blocks.filter fun b' => b'.typ == id.typ && nssGet b'.hdr id.typ == ns16 n) = [b])
    (h : Holds b id e) : find ix id = some (decodeFeature ix.strs ix.nt b.hdr id e.data) :=
  find_of_block ix id n hn b e hroute h

/-! ## the round trip through a built index -/

/-- **`compact_roundtrip`, lookup half** — for every source `fs` in the decidable domain `Accepts` and every
string table, IF the build succeeds then EVERY feature of the source (point, path, area, relation; any namespace,
any 64-bit id) is found by its id, and what the reader returns is the canonical form of the source feature: same
keys, values and value kinds, same point sequence / references (clockwise closed paths as the builder inverts
them), same polygons, same members.  Composition of: where `build` puts the records (`placed`, the scratch pass
and `combinePoints` for points), routing of `FindFeatureByID` to the one block that carries the id's namespace,
lookup among distinct ids, and the record theorems above. -/
theorem compact_find_roundtrip (strs : List Str) (fs : List Feature) (ix : Index) (hbuild : build strs fs = .ok ix)
    (hacc : Accepts strs fs = true) : ∀ f ∈ fs, find ix f.id = some (some (canon fs f)) := by
  intro f hf
  have hOK := (accepts_facts strs fs hacc).ok f hf
  unfold featureOK at hOK
  simp only [Bool.and_eq_true, decide_eq_true_eq] at hOK
  have ht : f.id.typ < 4 := hOK.1.1.2
  by_cases h0 : f.id.typ = 0
  · exact find_point strs fs ix hbuild hacc f hf h0
  · exact find_kept strs fs ix hbuild hacc f hf (by omega)

/-- **`EachFeature` is complete**: under the same hypotheses every feature's id — true type, namespace and
value — is enumerated.  (That nothing is enumerated twice is NOT proved; the correspondence run checks the
enumeration is a duplicate free permutation of the kept ids.) -/
theorem each_enumerates_every_feature (strs : List Str) (fs : List Feature) (ix : Index)
    (hbuild : build strs fs = .ok ix) (hacc : Accepts strs fs = true) : ∀ f ∈ fs, f.id ∈ each ix :=
  fun f hf => each_complete strs fs ix hbuild hacc f hf

/-- **`EachFeature` is sound**: whatever a successfully built index enumerates is the id of a feature of the
source (distinct ids not even needed) — with `each_enumerates_every_feature`: the *set* of enumerated ids is
exactly the set of source ids. -/
theorem each_enumerates_only_features (strs : List Str) (fs : List Feature) (ix : Index)
    (hbuild : build strs fs = .ok ix) (hsmall : (nsTable fs).length ≤ 8192) : ∀ x ∈ each ix, ∃ f ∈ fs, f.id = x :=
  each_sound strs fs ix hbuild hsmall

/-- paths, areas and relations only (no use of the point passes) -/
theorem compact_find_roundtrip_non_points (strs : List Str) (fs : List Feature) (ix : Index)
    (hbuild : build strs fs = .ok ix) (hacc : Accepts strs fs = true) (f : Feature) (hf : f ∈ fs)
    (ht : f.id.typ = 1 ∨ f.id.typ = 2 ∨ f.id.typ = 3) : find ix f.id = some (some (canon fs f)) :=
  find_kept strs fs ix hbuild hacc f hf ht

/-- where the builder puts the record of a kept path / area / relation: one block of its type carries its
encoded namespace, every block that does is that block, and the block holds the id once, under `NoTag` -/
theorem record_placement (strs : List Str) (fs : List Feature) (ix : Index) (c : Ctx) (hb : Built strs fs ix c)
    (hsmall : (nsTable fs).length ≤ 8192) (hdist : idsDistinct fs = true)
    (f : Feature) (hf : f ∈ fs) (ht : f.id.typ = 1 ∨ f.id.typ = 2 ∨ f.id.typ = 3) (hk : kept fs f = true) :
    ∃ n b e, nsEncode ix.nt f.id.ns = some n ∧ b ∈ ix.blocks ∧ b.typ = f.id.typ ∧ b.hdr = blockHeader c f.id.typ n ∧
      (∀ b' ∈ ix.blocks, b'.typ = f.id.typ → nssGet b'.hdr f.id.typ = ns16 n → b' = b) ∧
      e ∈ b.entries ∧ e.id = f.id.val ∧ e.tag = 0#64 ∧ recordOf c fs f.id.typ (validated fs f) = .ok e.data ∧
      (∀ e' ∈ b.entries, e'.id = f.id.val → e' = e) :=
  placed strs fs ix c hb hsmall hdist f hf ht hk

/-! ## a concrete index (non-vacuity of everything above, and a test of the statements below) -/

def nsCustom : Str := [97, 47, 98]   -- "a/b"
def sName : Str := [110]
def sVal : Str := [118]
def p1 : LatLng := ⟨515000000#32, BitVec.ofInt 32 (-1200000)⟩
def p2 : LatLng := ⟨515000000#32, BitVec.ofInt 32 (-1100000)⟩
def p3 : LatLng := ⟨515100000#32, BitVec.ofInt 32 (-1100000)⟩
def exPoint (v : Nat) (p : LatLng) : Feature := { id := ⟨0, nsOsmNode, v⟩, tags := [⟨kPoint, .pt p⟩] }
/-- three points (one with the top bit set), a mixed closed path, an area over it + an explicit triangle, a
relation in a custom namespace with a member of every type -/
def exFeatures : List Feature :=
  [exPoint 1 p1, exPoint 2 p2, exPoint (2 ^ 63 + 5) p3,
   { id := ⟨1, nsCustom, 7⟩, oracle := 1,
     tags := [⟨sName, .str sVal⟩, ⟨kPath, .list [.ref ⟨0, nsOsmNode, 1⟩, .ll p2, .ref ⟨0, nsOsmNode, (2 ^ 63 + 5 : Nat)⟩, .ref ⟨0, nsOsmNode, 1⟩]⟩] },
   { id := ⟨2, nsCustom, 7⟩, polys := [.paths [⟨1, nsCustom, 7⟩], .loops [[p1, p2, p3]]] },
   { id := ⟨3, nsCustom, (2 ^ 64 - 1 : Nat)⟩, tags := [⟨sName, .str sName⟩],
     members := [⟨sVal, ⟨0, nsOsmNode, 2⟩⟩, ⟨[], ⟨1, nsCustom, 7⟩⟩, ⟨sName, ⟨2, nsCustom, 7⟩⟩, ⟨[], ⟨3, nsCustom, (2 ^ 64 - 1 : Nat)⟩⟩] }]
def exStrs : List Str := [sName, kPoint, kPath, sVal, []]

example : Accepts exStrs exFeatures = true := by decide

/-- the whole pipeline on this one index (a labelled test, not the theorem): the build succeeds, every feature
is found as its canonical form, `each` lists every id exactly once -/
def exRoundTrips : Bool :=
  match build exStrs exFeatures with
  | .ok ix => exFeatures.all (fun (f : Feature) => decide (find ix f.id = some (some (canon exFeatures f)))) &&
      decide ((each ix).eraseDups.length = exFeatures.length) && decide ((each ix).length = exFeatures.length) &&
      exFeatures.all (fun (f : Feature) => (each ix).contains f.id)
  | .error _ => false
example : exRoundTrips = true := by decide +kernel

/-! ## the property -/

/-- **the property**: on every accepted feature set the build succeeds, every feature is found by its id as
its canonical form, and `each` enumerates every id exactly once. -/
def compact_roundtrip_statement : Prop :=
  ∀ (strs : List Str) (fs : List Feature), Accepts strs fs = true →
    ∃ ix, build strs fs = .ok ix ∧
      (∀ f ∈ fs, find ix f.id = some (some (canon fs f))) ∧
      (each ix).Perm (fs.map (·.id)) ∧ (each ix).Nodup

/-- **"Building never crashes on valid input"** (for the model: no `Lookup` / `Encode` / `EncodeValueType` /
"Can't encode role" / type-assertion / "No builder" panic): every source in `Accepts` builds. -/
theorem build_never_panics (strs : List Str) (fs : List Feature) (hacc : Accepts strs fs = true) :
    ∃ ix, build strs fs = .ok ix :=
  build_ok strs fs hacc

/-- `Accepts` and the three recorded finding classes are disjoint: together with `build_never_panics` the inputs
split into accepted (builds, round-trips), known findings (the real build dies), and out of domain. -/
theorem accepts_excludes_findings (strs : List Str) (fs : List Feature) (hacc : Accepts strs fs = true) :
    hasFidTag fs = false ∧ hasPointMemberWithoutBlock fs = false ∧ hasListTagOnNonPath fs = false := by
  simp only [Accepts, Bool.and_eq_true, Bool.not_eq_true'] at hacc
  exact ⟨hacc.1.1.1.1.1.1.2, hacc.1.2, hacc.2⟩

/-- `EachFeature` reports no id twice (distinct source ids; build succeeded). -/
theorem each_no_id_twice (strs : List Str) (fs : List Feature) (ix : Index) (hbuild : build strs fs = .ok ix)
    (hd : idsDistinct fs = true) (hsmall : (nsTable fs).length ≤ 8192) : (each ix).Nodup :=
  each_nodup strs fs ix hbuild hd hsmall

/-- `EachFeature` is a duplicate free permutation of the ids of the source. -/
theorem each_is_permutation (strs : List Str) (fs : List Feature) (ix : Index) (hbuild : build strs fs = .ok ix)
    (hacc : Accepts strs fs = true) : (each ix).Perm (fs.map (·.id)) ∧ (each ix).Nodup :=
  each_perm strs fs ix hbuild hacc

/-- **the whole property, for the model** -/
theorem compact_roundtrip : compact_roundtrip_statement := by
  intro strs fs hacc
  obtain ⟨ix, hix⟩ := build_ok strs fs hacc
  have ⟨hp, hn⟩ := each_perm strs fs ix hix hacc
  exact ⟨ix, hix, compact_find_roundtrip strs fs ix hix hacc, hp, hn⟩

/-- non-vacuity of the exclusions: a witness of each finding class, and what the model build does with it -/
def exFid : List Feature := [exPoint 1 p1, { id := ⟨0, nsOsmNode, 9⟩, tags := [⟨sName, .fid ⟨0, nsOsmNode, 1⟩⟩, ⟨kPoint, .pt p2⟩] }]
def exMember : List Feature := [exPoint 1 p1, { id := ⟨3, nsOsmRel, 5⟩, members := [⟨[], ⟨0, nsCustom, 9⟩⟩] }]
def exListTag : List Feature := [exPoint 1 p1, { id := ⟨0, nsOsmNode, 8⟩, tags := [⟨sName, .list [.ll p3]⟩, ⟨kPoint, .pt p2⟩] }]
def buildError (strs : List Str) (fs : List Feature) : Option BuildError :=
  match build strs fs with
  | .error e => some e
  | .ok _ => none
theorem finding_classes_fail :
    hasFidTag exFid = true ∧ buildError exStrs exFid = some .fidTag ∧
    hasPointMemberWithoutBlock exMember = true ∧ buildError exStrs exMember = some (.panic "No builder for type point") ∧
    hasListTagOnNonPath exListTag = true ∧ buildError exStrs exListTag = some (.panic "point tags") := by
  decide +kernel

/-! ## writer and reader primaries -/

/-- where a primary namespace comes from: `OSMNamespaces(nt)[t]` (what build.go passes), the `Namespaces[t]` of
the header of the block the record is in (what world.go passes), or `TypeAndNamespaceInvalid` -/
inductive NsSrc where
  | osm (t : Nat)
  | hdr (t : Nat)
  | invalid
deriving DecidableEq, Repr

structure PrimaryUse where
  record : String
  field : String
  blockType : Nat      -- feature type of the block the record is written to
  writer : NsSrc
  reader : NsSrc
deriving Repr

/-- the header of a block of type `b` is the OSM namespaces with entry `b` replaced (`addFeatureBlockBuilder`) -/
def resolve (b : Nat) : NsSrc → Option (Nat × Bool)   -- (feature type whose OSM namespace is meant, or the block's own)
  | .osm t => some (t, false)
  | .hdr t => some (t, t == b)
  | .invalid => none

/-- transcribed from `emitPoints` / `combinePoints` / `emitPathsAreasAndRelations` (writers) and
`findPathsByPoint` / `newWrappedPhysicalFeatureFromBuffer` / `fillGeometry` / `fillMembers` /
`fillRelationsFrom*` / `FindAreasByPoint` (readers); the type half of every primary is the same literal on both
sides (`CommonPoint.Marshal/Unmarshal` … in encoding.go) -/
def primaryTable : List PrimaryUse :=
  [⟨"Point", "Tags", 0, .invalid, .invalid⟩,
   ⟨"CommonPoint", "Path", 0, .osm 1, .hdr 1⟩,
   ⟨"PointReferences", "Paths", 0, .osm 1, .hdr 1⟩,
   ⟨"PointReferences", "Relations", 0, .osm 3, .hdr 3⟩,
   ⟨"Path", "Tags", 1, .osm 0, .osm 0⟩,
   ⟨"Path", "Areas", 1, .osm 2, .hdr 2⟩,
   ⟨"Path", "Relations", 1, .osm 3, .hdr 3⟩,
   ⟨"Area", "Tags", 2, .invalid, .invalid⟩,
   ⟨"Area", "Polygons", 2, .osm 1, .hdr 1⟩,
   ⟨"Area", "Relations", 2, .osm 3, .hdr 3⟩,
   ⟨"Relation", "Tags", 3, .invalid, .invalid⟩,
   ⟨"Relation", "Members", 3, .hdr 1, .hdr 1⟩,
   ⟨"Relation", "Relations", 3, .hdr 3, .hdr 3⟩]

/-- for every record field the writer's and the reader's primary namespace coincide -/
theorem primary_agree : ∀ u ∈ primaryTable, resolve u.blockType u.writer = resolve u.blockType u.reader := by decide

/-- before fixes/C01-relation-relations-primary.patch the relation record was marshalled with
`&osmNamespaces`: the `Relations` row read `.osm 3` against `.hdr 3` in a block of type 3 -/
theorem primary_agree_old_counterexample :
    resolve 3 (NsSrc.osm 3) ≠ resolve 3 (NsSrc.hdr 3) := by decide

/-! ## the code before the repairs, and the recorded finding -/

/-- `fromCompactValue` before fixes/C01-mixed-path-nil.patch: after every lat/lng it also appended the (nil)
reference; `none` stands for the nil expression -/
def fromCompactMixedOld (nt : List Str) (l : List RefLL) : List (Option Elem) :=
  l.flatMap fun x =>
    if x.ref != Reference.invalid then [(unRef nt x.ref).map Elem.ref]
    else [some (Elem.ll x.ll), none]

/-- path [ref, lat/lng, ref] came back with four elements, one of them nil (`GeometryLen` = 4, `PointAt(2)`
panics "Expected a latlng" — the fatal crash seen while the search index was built) -/
theorem mixed_path_nil_counterexample :
    fromCompactMixedOld (nsTable []) [⟨⟨1#16, 1#64⟩, LatLng.zero⟩, ⟨Reference.invalid, p2⟩, ⟨⟨1#16, 3#64⟩, LatLng.zero⟩]
      = [some (.ref ⟨0, nsOsmNode, 1#64⟩), some (.ll p2), none, some (.ref ⟨0, nsOsmNode, 3#64⟩)] := by decide

/-- relation 9 of namespace 5 recorded in a relation of namespace 5: written against the OSM relation
namespace (2) it is explicit; read against the block's namespace (5) it is taken for a zigzag delta and comes
back as relation −5 … and a reference to OSM relation 9 comes back in namespace 5 -/
theorem relation_relations_primary_counterexample :
    (References.dec (combineTypeNs 3#64 5#16) (References.enc (combineTypeNs 3#64 2#16) [⟨combineTypeNs 3#64 5#16, 9#64⟩])).map (·.1)
      = some [⟨combineTypeNs 3#64 5#16, BitVec.ofInt 64 (-5)⟩] ∧
    (References.dec (combineTypeNs 3#64 5#16) (References.enc (combineTypeNs 3#64 2#16) [⟨combineTypeNs 3#64 2#16, 9#64⟩])).map (·.1)
      = some [⟨combineTypeNs 3#64 5#16, 9#64⟩] := by decide

/-- **finding `fid-tag-value`** (not repaired: needs a new value type in the index format): a tag whose value
is one feature id is written as a bare `Reference`; the reader infers the value type from the low two bits of
the first varint.  `point/<namespace 1>/7` reads as type 3 — `inferValueType` panics ("not implemented", fatal
while the search index is built) — and `point/<namespace 2>/7` reads back as a *point* value. -/
theorem fid_tag_value_counterexample :
    Tag.dec 0#16 (putUvarint 4 ++ Reference.enc 0#16 ⟨1#16, 7#64⟩) = none ∧
    (Tag.dec 0#16 (putUvarint 4 ++ Reference.enc 0#16 ⟨2#16, 7#64⟩ ++ [0, 0, 0])).map (·.1.value)
      = some (Value.point ⟨BitVec.ofInt 32 (-1), 7#32⟩) := by decide

end B6.Props.C01
