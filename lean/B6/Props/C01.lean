/-! C01 — property theorems (stub: nothing proved yet). -/
