import B6.Gen.Bits
import B6.Model.Bits
import B6.Lemmas.Varint
import B6.Lemmas.Bits
/-!
# C10 — Bit-packed identifiers decode to what was packed

The packing theorems are stated about `B6.Gen.Bits.*`, the definitions `tools/go2lean` regenerates from the
Go source on every run (T2), so they are re-checked against what the code says now.  `gen_eq_model_*`
ties the hand-written `B6.Model.Bits` (executed by the driver against the real Go functions, T1) to the
generated text.  The string packings (postcodes, ONS codes) are loops over strings: hand-modelled
(`B6.Model.Bits`), proved here kernel-only, tied by T1, and their constants tied by `gen_constants`.

Axioms: every theorem here is kernel-only (propext / Classical.choice / Quot.sound); the 64-bit packings are
proved on `toNat` with `omega` and the disjoint-or / mask lemmas of `B6/Lemmas/Bits.lean`. No `bv_decide`.
-/
namespace B6.Props.C10
open B6.Model.Bits B6.Model.Varint
open B6.Gen.Bits (ZigzagEncode ZigzagDecode CombineTypeAndNamespace TypeAndNamespace_Split EncodeValueType
  DecodeValue_value EncodeGeometry DecodeGeometryLen DecodeGeometryEncoding Header_Marshal_idAndTag
  Header_Unmarshal_Tag Header_Unmarshal_ID BucketForID NewUint64MapBuilder_Layout TileIDFromXYZ TileID_ToXYZ
  NewLatLngID_id LatLngFromID_latE7 LatLngFromID_lngE7)

/-! ## tie: generated definitions = hand-written model (all by `rfl`) -/

theorem gen_eq_model_zigzag : @ZigzagEncode = zigzagEncode ∧ @ZigzagDecode = zigzagDecode := ⟨rfl, rfl⟩
theorem gen_eq_model_zigzag32 :
    @B6.Gen.Bits.rendererZigzagEncode = rendererZigzagEncode ∧ @B6.Gen.Bits.rendererZigzagDecode = rendererZigzagDecode :=
  ⟨rfl, rfl⟩
theorem gen_eq_model_type_ns :
    @CombineTypeAndNamespace = combineTypeNs ∧ @TypeAndNamespace_Split = splitTypeNs := ⟨rfl, rfl⟩
theorem gen_eq_model_value_type :
    @EncodeValueType = encodeValueType ∧ @DecodeValue_value = decodeValue := ⟨rfl, rfl⟩
theorem gen_eq_model_geometry :
    @EncodeGeometry = encodeGeometry ∧ @DecodeGeometryLen = decodeGeometryLen ∧
    @DecodeGeometryEncoding = decodeGeometryEncoding := ⟨rfl, rfl, rfl⟩
theorem gen_eq_model_header :
    (∀ id tag b t, Header_Marshal_idAndTag b t id tag = headerPack id tag b t) ∧
    (∀ v t, Header_Unmarshal_Tag v t = headerUnpackTag v t) ∧
    (∀ bucket v b t, Header_Unmarshal_ID bucket v b t = headerUnpackID bucket v b t) ∧
    @BucketForID = bucketForID ∧ @NewUint64MapBuilder_Layout = builderLayout :=
  ⟨fun _ _ _ _ => rfl, fun _ _ => rfl, fun _ _ _ _ => rfl, rfl, rfl⟩
theorem gen_eq_model_tile : @TileIDFromXYZ = tileIDFromXYZ ∧ @TileID_ToXYZ = tileIDToXYZ := ⟨rfl, rfl⟩
theorem gen_eq_model_latlng :
    @NewLatLngID_id = newLatLngID ∧ (∀ v, (LatLngFromID_latE7 v, LatLngFromID_lngE7 v) = latLngFromID v) :=
  ⟨rfl, fun _ => rfl⟩

/-- the constants the hand-written string models and the domain hypotheses below were written for. -/
theorem gen_constants :
    B6.Gen.Bits.ValueTypeBits = 2 ∧ B6.Gen.Bits.tileIDZBits = 5 ∧
    B6.Gen.Bits.gbPostcodeElementBits = 6 ∧ B6.Gen.Bits.gbPostcodeMinLength = 5 ∧
    B6.Gen.Bits.gbPostcodeMaxLength = 7 ∧ B6.Gen.Bits.gbPostcodeLengthBits = 2 ∧
    B6.Gen.Bits.ukONSCodeShift = 40 ∧ B6.Gen.Bits.ukONSYearShift = 32 ∧ B6.Gen.Bits.ukONSYearMask = 255 ∧
    B6.Gen.Bits.ukONSLetterMask = 255 ∧ B6.Gen.Bits.ukONSNumberMask = 4294967295 ∧
    B6.Gen.Bits.GeometryEncodingReferences = 0 ∧ B6.Gen.Bits.GeometryEncodingLatLngs = 1 ∧
    B6.Gen.Bits.GeometryEncodingMixed = 2 ∧ B6.Gen.Bits.FeatureTypeInvalid = 4 := by decide

/-! ## zigzag (all values) — kernel-only -/

/-- `ZigzagDecode(ZigzagEncode(x)) = x` for every `int64`. -/
theorem zigzag64 (x : BitVec 64) : ZigzagDecode (ZigzagEncode x) = x :=
  zigzagDecode_zigzagEncode x

/-- and `ZigzagEncode(ZigzagDecode(v)) = v` for every `uint64` (the encoding is a bijection). -/
theorem zigzag64_onto (v : BitVec 64) : ZigzagEncode (ZigzagDecode v) = v :=
  zigzagEncode_zigzagDecode v

example : ZigzagDecode (ZigzagEncode 0x8000000000000000#64) = 0x8000000000000000#64 := by decide

/-- the code before the repair (arithmetic shift in the decoder) broke the property at `x = 2^62`. -/
theorem zigzag64_old_counterexample :
    zigzagDecodeArith (ZigzagEncode 0x4000000000000000#64) ≠ 0x4000000000000000#64 := by decide

/-- renderer: `zigzagDecode(zigzagEncode(x)) = x` for every `int` that is an `int32` (the encoder truncates). -/
theorem zigzag32 (x : BitVec 32) :
    B6.Gen.Bits.rendererZigzagDecode (B6.Gen.Bits.rendererZigzagEncode (x.signExtend 64)) = x.signExtend 64 := by
  exact B6.Lemmas.Bits.renderer_zigzag32 x

example : B6.Gen.Bits.rendererZigzagDecode (B6.Gen.Bits.rendererZigzagEncode ((0x80000000#32).signExtend 64))
    = (0x80000000#32).signExtend 64 := by decide

theorem zigzag32_old_counterexample :
    zigzagDecode32Arith (zigzagEncode32 0x40000000#32) ≠ 0x40000000#32 := by decide

/-! ## type + namespace -/

/-- `Split(Combine(t, ns)) = (t, ns)` for every feature type that fits 3 bits (the code uses 0..3; 4..6 are
the invalid/collection/expression markers) and every namespace index below 2^13. -/
theorem type_ns (t : BitVec 64) (ns : BitVec 16) (ht : t < 8#64) (hns : ns < 8192#16) :
    TypeAndNamespace_Split (CombineTypeAndNamespace t ns) = (t, ns) := by
  exact B6.Lemmas.Bits.type_ns t ns ht hns

example : TypeAndNamespace_Split (CombineTypeAndNamespace 3#64 8191#16) = (3#64, 8191#16) := by decide

/-- outside the domain the packing is not invertible: namespace 2^13 reads back as type 1, namespace 0. -/
theorem type_ns_domain_is_needed :
    TypeAndNamespace_Split (CombineTypeAndNamespace 0#64 8192#16) ≠ (0#64, 8192#16) := by decide

/-! ## value type -/

/-- for `v < 2^62` and a 2-bit type, `EncodeValueType` does not panic and both parts read back. -/
theorem value_type (t v : BitVec 64) (ht : t < 4#64) (hv : v < 0x4000000000000000#64) :
    ∃ e, EncodeValueType t v = some e ∧ DecodeValue_value e = v ∧ decodeValueType e = t := by
  exact B6.Lemmas.Bits.value_type t v ht hv

/-- the guard is exact: `EncodeValueType` panics precisely when `v ≥ 2^62` (so nothing is silently lost). -/
theorem value_type_guard (t v : BitVec 64) :
    EncodeValueType t v = none ↔ ¬ v < 0x4000000000000000#64 := by
  exact B6.Lemmas.Bits.value_type_guard t v

example : EncodeValueType 3#64 0x3fffffffffffffff#64 = some 0xffffffffffffffff#64 := by decide

/-! ## geometry encoding + length -/

/-- all three encodings: the length (below 2^62; 2^63 for references) and the encoding read back. -/
theorem geometry_len (e : BitVec 8) (l : BitVec 64) (he : e < 3#8) (hl : l < 0x4000000000000000#64) :
    ∃ v, EncodeGeometry e l = some v ∧ DecodeGeometryLen v = l ∧ DecodeGeometryEncoding v = e := by
  exact B6.Lemmas.Bits.geometry_len e l he hl

example : ∃ v, EncodeGeometry 2#8 5#64 = some v ∧ DecodeGeometryLen v = 5#64 ∧ DecodeGeometryEncoding v = 2#8 :=
  ⟨23#64, by decide⟩

/-! ## Uint64Map bucket header -/

/-- **one theorem, layout symbolic**: for every layout with `TagBits ≤ BucketBits ≤ 63`, every id and every
tag below `2^TagBits`, unmarshalling the marshalled word in the id's bucket gives back id and tag. -/
theorem header_roundtrip (id tag b t : BitVec 64) (hb : b ≤ 63#64) (htb : t ≤ b) (htag : tag < (1#64 <<< t)) :
    Header_Unmarshal_ID (BucketForID id b) (Header_Marshal_idAndTag b t id tag) b t = id ∧
    Header_Unmarshal_Tag (Header_Marshal_idAndTag b t id tag) t = tag := by
  exact B6.Lemmas.Bits.header_roundtrip id tag b t hb htb htag

example : Header_Unmarshal_ID (BucketForID 0x8000000000000005#64 2#64)
    (Header_Marshal_idAndTag 2#64 2#64 0x8000000000000005#64 3#64) 2#64 2#64 = 0x8000000000000005#64 := by decide

/-- the other disjunct of DESIGN §5: with `TagBits > BucketBits` the round trip still holds for ids whose
top `TagBits − BucketBits` bits are clear. -/
theorem header_roundtrip_small_id (id tag b t : BitVec 64) (ht : t ≤ 63#64) (hbt : b < t)
    (hid : id < (1#64 <<< (64#64 - (t - b)))) (htag : tag < (1#64 <<< t)) :
    Header_Unmarshal_ID (BucketForID id b) (Header_Marshal_idAndTag b t id tag) b t = id ∧
    Header_Unmarshal_Tag (Header_Marshal_idAndTag b t id tag) t = tag := by
  exact B6.Lemmas.Bits.header_roundtrip_small_id id tag b t ht hbt hid htag

/-- the layout the unrepaired builder created for point blocks with ≤ 2 points (BucketBits 1, TagBits 2)
loses the top bit of the id — the defect of DESIGN §7. -/
theorem header_point_block_counterexample :
    Header_Unmarshal_ID (BucketForID 0x8000000000000005#64 1#64)
      (Header_Marshal_idAndTag 1#64 2#64 0x8000000000000005#64 1#64) 1#64 2#64 ≠ 0x8000000000000005#64 := by decide

/-- **every layout the builder creates is inside the domain of `header_roundtrip`**: whatever
`(bucketBits, tagBits)` is requested with `0 ≤ tagBits ≤ 63`, `0 ≤ bucketBits ≤ 63` — in particular
`(bucketBitsForCount n, tagBits[type])` for every count and feature type — `NewUint64MapBuilder` uses a layout
with `TagBits ≤ BucketBits ≤ 63` and the requested `TagBits`. Kernel-only. -/
theorem builder_layouts_ok (b t : BitVec 64) (hb : b ≤ 63#64) (ht : t ≤ 63#64) :
    (NewUint64MapBuilder_Layout b t).2 = t ∧
    (NewUint64MapBuilder_Layout b t).2 ≤ (NewUint64MapBuilder_Layout b t).1 ∧
    (NewUint64MapBuilder_Layout b t).1 ≤ 63#64 ∧
    layoutOK (NewUint64MapBuilder_Layout b t).1 (NewUint64MapBuilder_Layout b t).2 = true := by
  unfold NewUint64MapBuilder_Layout layoutOK
  by_cases h : BitVec.slt b t = true
  · rw [if_pos h]
    refine ⟨rfl, BitVec.le_refl _, ht, ?_⟩
    simp [ht]
  · rw [if_neg h]
    have hle : t ≤ b := by
      simp only [BitVec.slt, decide_eq_true_eq, Int.not_lt] at h
      have h1 : b.toInt = b.toNat := by
        rw [BitVec.toInt_eq_toNat_of_lt]; have : b.toNat ≤ 63 := hb; omega
      have h2 : t.toInt = t.toNat := by
        rw [BitVec.toInt_eq_toNat_of_lt]; have : t.toNat ≤ 63 := ht; omega
      rw [h1, h2] at h
      show t.toNat ≤ b.toNat
      omega
    refine ⟨rfl, hle, hb, ?_⟩
    simp [hle, hb]

/-- the tag-bit table of the index builder (ingest/compact/build.go) stays within 0..63. -/
theorem builder_tag_bits_ok : ∀ e ∈ B6.Gen.Bits.tagBits, e.2 ≤ 63 := by decide

/-- the model of `bucketBitsForCount`: the smallest `b ≥ 1` with `2^b ≥ count` (tied to the float code by the
exhaustive sweep of all counts < 2^24 (quick) / 2^28 (thorough) and sampled counts next to every power of two). -/
theorem bucket_bits_spec (n : Nat) :
    1 ≤ bucketBitsForCount n ∧ n ≤ 2 ^ bucketBitsForCount n ∧
    ∀ b, 1 ≤ b → n ≤ 2 ^ b → bucketBitsForCount n ≤ b :=
  B6.Lemmas.Bits.bucketBitsForCount_spec n

/-- **every count**: for every feature count `n ≤ 2^62` and every feature type of the `tagBits` table, the
layout the index builder creates — `NewUint64MapBuilder(g, tagBits[type])` where `g` is the model value or,
as measured for the floating-point code next to powers of two ≥ 2^29, one off it — is inside the domain
of `header_roundtrip` and keeps the table's tag bits. (Counts above 2^62 would need more than 2^62 buckets.) -/
theorem builder_layouts_ok_all_counts (n g ty tb : Nat) (hn : n ≤ 2 ^ 62)
    (hg : bucketBitsClose n g = true) (hty : (ty, tb) ∈ B6.Gen.Bits.tagBits) :
    layoutOK (NewUint64MapBuilder_Layout (BitVec.ofNat 64 g) (BitVec.ofNat 64 tb)).1
      (NewUint64MapBuilder_Layout (BitVec.ofNat 64 g) (BitVec.ofNat 64 tb)).2 = true ∧
    (NewUint64MapBuilder_Layout (BitVec.ofNat 64 g) (BitVec.ofNat 64 tb)).2 = BitVec.ofNat 64 tb := by
  have hm : bucketBitsForCount n ≤ 62 := (bucket_bits_spec n).2.2 62 (by omega) hn
  have hg63 : g ≤ 63 := by
    unfold bucketBitsClose at hg
    split at hg
    · have : g = bucketBitsForCount n := by simpa using hg
      omega
    · simp only [Bool.and_eq_true, Bool.or_eq_true, decide_eq_true_eq, beq_iff_eq] at hg
      omega
  have htb : tb ≤ 63 := builder_tag_bits_ok (ty, tb) hty
  have h := builder_layouts_ok (BitVec.ofNat 64 g) (BitVec.ofNat 64 tb)
    (by show (BitVec.ofNat 64 g).toNat ≤ 63; simp; omega) (by show (BitVec.ofNat 64 tb).toNat ≤ 63; simp; omega)
  exact ⟨h.2.2.2, h.1⟩

example : bucketBitsForCount 2 = 1 ∧ bucketBitsForCount 3 = 2 ∧ bucketBitsForCount 1024 = 10 ∧
    bucketBitsForCount 1025 = 11 ∧ bucketBitsForCount 0 = 1 := by decide

/-- the tag-bit table of the generated source is the one the driver's model uses. -/
theorem tag_bits_table_as_modelled :
    ∀ e ∈ B6.Gen.Bits.tagBits, tagBitsOfType e.1 = some e.2 := by decide

example : NewUint64MapBuilder_Layout 1#64 2#64 = (2#64, 2#64) := by decide

/-- before the repair the builder used the requested layout, and `(1, 2)` — requested for every point block
with at most two points — is outside the domain. -/
theorem builder_layout_old_counterexample :
    layoutOK (builderLayoutOld 1#64 2#64).1 (builderLayoutOld 1#64 2#64).2 = false := by decide

/-! ## tile ids -/

/-- `ToXYZ(TileIDFromXYZ(x, y, z)) = (x, y, z)` for every zoom up to 29 and `x, y < 2^z`. -/
theorem tile_id (x y z : BitVec 64) (hz : z ≤ 29#64) (hx : x < 1#64 <<< z) (hy : y < 1#64 <<< z) :
    TileID_ToXYZ (TileIDFromXYZ x y z) = (x, y, z) := by
  exact B6.Lemmas.Bits.tile_id x y z hz hx hy

example : TileID_ToXYZ (TileIDFromXYZ 536870911#64 536870911#64 29#64) = (536870911#64, 536870911#64, 29#64) := by decide

/-- zoom 30 does not fit (y overlaps the zoom field) — the bound in the property statement is sharp. -/
theorem tile_id_zoom30_counterexample :
    TileID_ToXYZ (TileIDFromXYZ 0#64 0x20000000#64 30#64) ≠ (0#64, 0x20000000#64, 30#64) := by decide

/-! ## lat/lng ids -/

/-- any two `int32` E7 coordinates read back (negative ones included). -/
theorem latlng_id (lat lng : BitVec 32) :
    LatLngFromID_latE7 (NewLatLngID_id lat lng) = lat ∧ LatLngFromID_lngE7 (NewLatLngID_id lat lng) = lng := by
  have h := B6.Lemmas.Bits.latlng_id lat lng
  exact ⟨congrArg Prod.fst h, congrArg Prod.snd h⟩

example : LatLngFromID_latE7 (NewLatLngID_id 0x80000000#32 0xffffffff#32) = 0x80000000#32 := by decide

/-! ## GB postcodes (hand model, kernel-only) -/

/-- the domain: 5 to 7 characters, each `0-9` or `A-Z` (after dropping spaces and upper-casing). -/
def PostcodeOK (p : List Char) : Prop :=
  5 ≤ p.length ∧ p.length ≤ 7 ∧ ∀ c ∈ p, (postcodeCharValue c).isSome

/-- **postcode round trip**: for every ASCII string whose normal form (spaces dropped, upper-cased) is 5–7
alphanumerics, `PostcodeFromPointID(PointIDFromGBPostcode(s))` is that normal form. -/
theorem postcode_roundtrip (s : List Char) (h : PostcodeOK (normalizePostcode s)) :
    ∃ id, pointIDFromGBPostcode s = some id ∧ postcodeFromPointID id = some (normalizePostcode s) ∧ id < 2 ^ 44 :=
  B6.Lemmas.Bits.postcode_roundtrip s h.1 h.2.1 h.2.2

example : PostcodeOK (normalizePostcode "sw1a 1aa".toList) := by unfold PostcodeOK; decide
example : pointIDFromGBPostcode "sw1a 1aa".toList = some 7834097961514 := by decide
example : postcodeFromPointID 7834097961514 = some "SW1A1AA".toList := by decide

/-! ## UK ONS codes (hand model, kernel-only) -/

/-- the domain: a letter byte (ASCII), eight decimal digits, 1900 ≤ year ≤ 2155. -/
def ONSOK (c0 : Char) (ds : List Char) (year : Int) : Prop :=
  c0.toNat < 128 ∧ ds.length = 8 ∧ (∀ c ∈ ds, (digitValue c).isSome) ∧ 1900 ≤ year ∧ year ≤ 2155

/-- **ONS round trip**: `UKONSCodeFromFeatureID(FeatureIDFromUKONSCode(code, year)) = (code, year)`. -/
theorem ons_roundtrip (c0 : Char) (ds : List Char) (year : Int) (h : ONSOK c0 ds year) :
    ∃ v, featureIDFromUKONSCode (c0 :: ds) year = some v ∧ ukONSCodeFromFeatureID v = (c0 :: ds, year) :=
  B6.Lemmas.Bits.ons_roundtrip c0 ds year h.1 h.2.1 h.2.2.1 h.2.2.2.1 h.2.2.2.2

example : ONSOK 'E' "09000033".toList 2011 := by unfold ONSOK; decide
example : (featureIDFromUKONSCode "E09000033".toList 2011).map ukONSCodeFromFeatureID
    = some ("E09000033".toList, 2011) := by decide

/-- reported separately (outside the stated domain): `strconv.Atoi` accepts a sign, so the 9-byte string
`E-1234567` is accepted and decodes to a different code. -/
theorem ons_signed_code_counterexample :
    (featureIDFromUKONSCode "E-1234567".toList 2011).map (fun v => (ukONSCodeFromFeatureID v).1)
      ≠ some "E-1234567".toList := by decide

end B6.Props.C10
