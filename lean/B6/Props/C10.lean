/-! C10 — property theorems (stub: nothing proved yet). -/
