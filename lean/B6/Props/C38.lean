import B6.Model.FeatureHeap
import B6.Lemmas.FeatureHeap
/-!
# C38 — Callers' feature values are isolated from the world

Theorems about `B6.Model.FeatureHeap`: feature structs whose slices point into a store of backing
arrays; a mutable world (`world`, what `ModifiedFeatures.Update` stores) and any number of caller-held
feature values (`vars`).  An operation sequence is any interleaving of: constructing a feature, `Clone`,
every mutator of the feature API (`Mut`), `MergeFrom`, `world.AddFeature`, `world.AddTag/RemoveTag`.

* `Sep` — every owner's arrays are allocated and no two different owners share an array — holds in the
  empty state and is preserved by every operation (`step_ok`, `run_ok`, `reachable_sep`);
* under `Sep` an operation changes what is observed of its *target* only (`Isolated`): every other caller
  value and every (other) world entry keeps its struct and its observable value;
* hence `add_isolates`, `clone_disjoint`, `clone_independent`.

The theorems are about the code after the patches `fixes/C38-*.patch`; the `*_counterexample` theorems
are about the bodies as they were (`Old.*`) and are the witnesses replayed by the harness corpus.
-/
namespace B6.Props.C38
open B6.Model.FeatureHeap B6.Lemmas.FeatureHeap

/-- all owners (world entries and caller values) are allocated and pairwise share no backing array -/
def Sep (s : State) : Prop := Sep2 s.st s.world s.vars

/-- the owner an operation writes through -/
inductive Target where
  | var (i : Nat)
  | world (w : Nat)
  /-- only allocates (a new caller value or a new world entry) -/
  | fresh
deriving DecidableEq, Repr

def worldTarget (kind : Kind) (id : String) (world : List Feat) : Target :=
  match findEntry kind id world with
  | some w => .world w
  | none => .fresh

def target (s : State) : Op → Target
  | .new _ _ _ => .fresh
  | .clone _ => .fresh
  | .upd i _ => .var i
  | .updV i _ => .var i
  | .merge i _ => .var i
  | .add i =>
    match s.vars[i]? with
    | none => .fresh
    | some f => worldTarget f.kind f.id s.world
  | .wtag kind id _ _ => worldTarget kind id s.world
  | .wrm kind id _ => worldTarget kind id s.world
  | .fromWorld _ _ => .fresh

/-- everything except the target keeps its position, its struct and what is observed of it -/
def Isolated (s : State) (t : Target) (s' : State) : Prop :=
  (∀ w x, t ≠ .world w → s.world[w]? = some x → s'.world[w]? = some x ∧ view s'.st x = view s.st x) ∧
  (∀ i x, t ≠ .var i → s.vars[i]? = some x → s'.vars[i]? = some x ∧ view s'.st x = view s.st x)

theorem sep_init : Sep {} :=
  ⟨by simp, by simp, by intro i j x y _ h; simp at h, by intro i j x y _ h; simp at h, by simp⟩

/-! ## the four shapes an operation can have -/

private theorem getElem?_set_other {l : List Feat} {i j : Nat} {x r' : Feat} (hne : j ≠ i)
    (h : l[j]? = some x) : (l.set i r')[j]? = some x := by
  rw [List.getElem?_set]
  have : ¬ i = j := fun e => hne e.symm
  simp [this, h]

private theorem getElem?_push_old {l : List Feat} {j : Nat} {x c : Feat} (h : l[j]? = some x) :
    (l ++ [c])[j]? = some x := by
  have hlt : j < l.length := by
    rcases Nat.lt_or_ge j l.length with h' | h'
    · exact h'
    · rw [List.getElem?_eq_none h'] at h; cases h
  rw [List.getElem?_append_left hlt, h]

/-- an operation through caller value `i` -/
theorem ok_set_var {s : State} {i : Nat} {r r' : Feat} {st' : Store} (hs : Sep s)
    (hi : s.vars[i]? = some r) (h : Step (fp r) s.st st' (fp r')) :
    Sep { s with st := st', vars := s.vars.set i r' } ∧
    Isolated s (.var i) { s with st := st', vars := s.vars.set i r' } := by
  obtain ⟨h1, h2, h3⟩ := (Sep2.symm hs).set hi h
  refine ⟨h1.symm, ?_, ?_⟩
  · intro w x _ hx
    exact ⟨hx, h3 x (List.mem_of_getElem? hx)⟩
  · intro j x hj hx
    have hne : j ≠ i := fun e => hj (by rw [e])
    exact ⟨getElem?_set_other hne hx, h2 j x hne hx⟩

/-- an operation through world entry `w` -/
theorem ok_set_world {s : State} {w : Nat} {r r' : Feat} {st' : Store} (hs : Sep s)
    (hi : s.world[w]? = some r) (h : Step (fp r) s.st st' (fp r')) :
    Sep { s with st := st', world := s.world.set w r' } ∧
    Isolated s (.world w) { s with st := st', world := s.world.set w r' } := by
  obtain ⟨h1, h2, h3⟩ := Sep2.set hs hi h
  refine ⟨h1, ?_, ?_⟩
  · intro j x hj hx
    have hne : j ≠ w := fun e => hj (by rw [e])
    exact ⟨getElem?_set_other hne hx, h2 j x hne hx⟩
  · intro j x _ hx
    exact ⟨hx, h3 x (List.mem_of_getElem? hx)⟩

/-- a new caller value made of new arrays -/
theorem ok_push_var {s : State} {c : Feat} {st' : Store} (hs : Sep s)
    (h : Step [] s.st st' (fp c)) :
    Sep { s with st := st', vars := s.vars ++ [c] } ∧
    Isolated s .fresh { s with st := st', vars := s.vars ++ [c] } := by
  obtain ⟨h1, h2, h3⟩ := (Sep2.symm hs).push h
  refine ⟨h1.symm, ?_, ?_⟩
  · intro w x _ hx
    exact ⟨hx, h3 x (List.mem_of_getElem? hx)⟩
  · intro j x _ hx
    exact ⟨getElem?_push_old hx, h2 x (List.mem_of_getElem? hx)⟩

/-- a new world entry made of new arrays -/
theorem ok_push_world {s : State} {c : Feat} {st' : Store} (hs : Sep s)
    (h : Step [] s.st st' (fp c)) :
    Sep { s with st := st', world := s.world ++ [c] } ∧
    Isolated s .fresh { s with st := st', world := s.world ++ [c] } := by
  obtain ⟨h1, h2, h3⟩ := Sep2.push hs h
  refine ⟨h1, ?_, ?_⟩
  · intro j x _ hx
    exact ⟨getElem?_push_old hx, h2 x (List.mem_of_getElem? hx)⟩
  · intro j x _ hx
    exact ⟨hx, h3 x (List.mem_of_getElem? hx)⟩

/-! ## every operation keeps the owners separated and changes its target only -/

theorem step_ok {s s' : State} {op : Op} (hs : Sep s) (h : step s op = some s') :
    Sep s' ∧ Isolated s (target s op) s' := by
  cases op with
  | new kind id n =>
    simp only [step, Option.some.injEq] at h
    subst h
    exact ok_push_var hs (newFeat_step s.st kind id n)
  | clone i =>
    simp only [step] at h
    cases hf : s.vars[i]? with
    | none => rw [hf] at h; cases h
    | some f =>
      rw [hf] at h
      simp only [Option.map_eq_some_iff] at h
      obtain ⟨r, hr, he⟩ := h
      subst he
      exact ok_push_var hs (cloneFeat_step (st' := r.1) (c := r.2) hr)
  | upd i m =>
    simp only [step] at h
    cases hf : s.vars[i]? with
    | none => rw [hf] at h; cases h
    | some f =>
      rw [hf] at h
      simp only [Option.map_eq_some_iff] at h
      obtain ⟨r, hr, he⟩ := h
      subst he
      exact ok_set_var hs hf
        (mutate_step (st' := r.1) (f' := r.2) hr (hs.valid2 f (List.mem_of_getElem? hf)))
  | updV i m =>
    simp only [step] at h
    cases hf : s.vars[i]? with
    | none => rw [hf] at h; cases h
    | some f =>
      rw [hf] at h
      simp only [Option.map_eq_some_iff] at h
      obtain ⟨r, hr, he⟩ := h
      subst he
      exact ok_set_var (s := s) hs hf
        (mutateV_step (st' := r.1) (vals' := r.2.1) (f' := r.2.2) hr (hs.valid2 f (List.mem_of_getElem? hf)))
  | merge i j =>
    simp only [step] at h
    cases hf : s.vars[i]? with
    | none => rw [hf] at h; simp at h
    | some e =>
      cases hg : s.vars[j]? with
      | none => rw [hf, hg] at h; simp at h
      | some o =>
        rw [hf, hg] at h
        simp only at h
        split at h
        · cases h
        · simp only [Option.map_eq_some_iff] at h
          obtain ⟨r, hr, he⟩ := h
          subst he
          exact ok_set_var hs hf
            (mergeFrom_step (st' := r.1) (e' := r.2) hr (hs.valid2 e (List.mem_of_getElem? hf)))
  | add i =>
    simp only [step, target] at h ⊢
    cases hf : s.vars[i]? with
    | none => rw [hf] at h; cases h
    | some f =>
      rw [hf] at h
      simp only at h ⊢
      unfold worldTarget
      cases hw : findEntry f.kind f.id s.world with
      | none =>
        rw [hw] at h
        simp only [Option.map_eq_some_iff] at h ⊢
        obtain ⟨r, hr, he⟩ := h
        subst he
        exact ok_push_world hs (cloneFeat_step (st' := r.1) (c := r.2) hr)
      | some w =>
        rw [hw] at h
        simp only at h ⊢
        cases he : s.world[w]? with
        | none => rw [he] at h; cases h
        | some e =>
          rw [he] at h
          simp only [Option.map_eq_some_iff] at h
          obtain ⟨r, hr, hh⟩ := h
          subst hh
          exact ok_set_world hs he
            (mergeFrom_step (st' := r.1) (e' := r.2) hr (hs.valid1 e (List.mem_of_getElem? he)))
  | wtag kind id k v =>
    simp only [step, target] at h ⊢
    unfold worldTarget
    cases hw : findEntry kind id s.world with
    | none => rw [hw] at h; cases h
    | some w =>
      rw [hw] at h
      simp only at h ⊢
      cases he : s.world[w]? with
      | none => rw [he] at h; cases h
      | some e =>
        rw [he] at h
        simp only [Option.map_eq_some_iff] at h
        obtain ⟨r, hr, hh⟩ := h
        subst hh
        exact ok_set_world hs he
          (mutate_step (st' := r.1) (f' := r.2) hr (hs.valid1 e (List.mem_of_getElem? he)))
  | wrm kind id k =>
    simp only [step, target] at h ⊢
    unfold worldTarget
    cases hw : findEntry kind id s.world with
    | none => rw [hw] at h; cases h
    | some w =>
      rw [hw] at h
      simp only at h ⊢
      cases he : s.world[w]? with
      | none => rw [he] at h; cases h
      | some e =>
        rw [he] at h
        simp only [Option.map_eq_some_iff] at h
        obtain ⟨r, hr, hh⟩ := h
        subst hh
        exact ok_set_world hs he
          (mutate_step (st' := r.1) (f' := r.2) hr (hs.valid1 e (List.mem_of_getElem? he)))

  | fromWorld kind id =>
    simp only [step, target] at h ⊢
    cases hw : findEntry kind id s.world with
    | none => rw [hw] at h; cases h
    | some w =>
      rw [hw] at h
      simp only at h
      cases he : s.world[w]? with
      | none => rw [he] at h; cases h
      | some e =>
        rw [he] at h
        simp only [Option.map_eq_some_iff] at h
        obtain ⟨r, hr, hh⟩ := h
        subst hh
        exact ok_push_var hs (fromWorld_step (st' := r.1) (c := r.2) hr)

/-- separation is an invariant of every history -/
theorem run_ok {ops : List Op} : ∀ {s s' : State}, Sep s → run s ops = some s' → Sep s' := by
  induction ops with
  | nil => intro s s' hs h; simp only [run, Option.some.injEq] at h; exact h ▸ hs
  | cons op ops ih =>
    intro s s' hs h
    simp only [run] at h
    cases h1 : step s op with
    | none => rw [h1] at h; cases h
    | some s1 =>
      rw [h1] at h
      exact ih (step_ok hs h1).1 h

/-- every state a program can reach from the empty world is separated — so `step_ok` applies to every
step of every history (all feature kinds, all mutators, any interleaving) -/
theorem reachable_sep {ops : List Op} {s : State} (h : run {} ops = some s) : Sep s :=
  run_ok sep_init h

example : (run {} [.new .area "a1" 1, .upd 0 (.setPathIDs 0 ["p10"]), .add 0,
    .upd 0 (.setPathID 0 0 "p11"), .clone 0, .upd 1 (.setPolygon 0 "P1"), .add 1,
    .new .collection "c1" 0, .upd 2 (.appendKV "k" "v"), .add 2, .upd 2 (.setKey 0 "x"),
    .wtag .area "a1" "name" "w"]).isSome = true := by decide

/-! ## the property -/

/-- what the world returns: the observable value of every entry -/
def worldView (s : State) : List (Option View) := s.world.map (view s.st)

theorem worldView_eq {s s' : State} (hw : s'.world = s.world)
    (hv : ∀ x ∈ s.world, view s'.st x = view s.st x) : worldView s' = worldView s := by
  unfold worldView
  rw [hw]
  exact List.map_congr_left hv

/-- Any sequence of mutations through caller value `i` leaves the world, and every other caller value,
exactly as they were. -/
theorem muts_isolated {ms : List Mut} {i : Nat} : ∀ {s s' : State}, Sep s →
    run s (ms.map (Op.upd i)) = some s' →
    Sep s' ∧ worldView s' = worldView s ∧
      ∀ j x, j ≠ i → s.vars[j]? = some x → s'.vars[j]? = some x ∧ view s'.st x = view s.st x := by
  induction ms with
  | nil =>
    intro s s' hs h
    simp only [List.map_nil, run, Option.some.injEq] at h
    subst h
    exact ⟨hs, rfl, fun j x _ hx => ⟨hx, rfl⟩⟩
  | cons m ms ih =>
    intro s s' hs h
    simp only [List.map_cons, run] at h
    cases h1 : step s (.upd i m) with
    | none => rw [h1] at h; cases h
    | some s1 =>
      rw [h1] at h
      obtain ⟨hs1, hw1, hv1⟩ := step_ok hs h1
      obtain ⟨hs2, hw2, hv2⟩ := ih hs1 h
      have hworld : s1.world = s.world := by
        simp only [step] at h1
        cases hf : s.vars[i]? with
        | none => rw [hf] at h1; cases h1
        | some f =>
          rw [hf] at h1
          simp only [Option.map_eq_some_iff] at h1
          obtain ⟨r, _, he⟩ := h1
          subst he
          rfl
      refine ⟨hs2, ?_, ?_⟩
      · rw [hw2]
        exact worldView_eq hworld (fun x hx => by
          obtain ⟨w, hw⟩ := List.mem_iff_getElem?.mp hx
          exact (hw1 w x (by simp [target]) hw).2)
      · intro j x hj hx
        obtain ⟨a, b⟩ := hv1 j x (by simp only [target]; intro e; exact hj (Target.var.inj e).symm) hx
        obtain ⟨c, d⟩ := hv2 j x hj a
        exact ⟨c, d.trans b⟩

/-- **`add_isolates`**: once a feature has been added to a mutable world (`ModifiedFeatures.Update`: a
`Clone()` is stored, or the existing entry `MergeFrom`s it), no later change the caller makes to the
value it passed in — any sequence of any mutators of the feature API — changes what the world returns. -/
theorem add_isolates {s s1 s2 : State} {i : Nat} {ms : List Mut} (hs : Sep s)
    (hadd : step s (.add i) = some s1) (hmut : run s1 (ms.map (Op.upd i)) = some s2) :
    worldView s2 = worldView s1 :=
  (muts_isolated (step_ok hs hadd).1 hmut).2.1

/-- for histories: the same from any reachable state -/
theorem add_isolates_reachable {ops : List Op} {s s1 s2 : State} {i : Nat} {ms : List Mut}
    (hr : run {} ops = some s) (hadd : step s (.add i) = some s1)
    (hmut : run s1 (ms.map (Op.upd i)) = some s2) : worldView s2 = worldView s1 :=
  add_isolates (reachable_sep hr) hadd hmut

example : ∃ s s1 s2, run {} [.new .area "a1" 1, .upd 0 (.setPathIDs 0 ["p10", "p12"])] = some s ∧
    step s (.add 0) = some s1 ∧
    run s1 ([Mut.setPathID 0 0 "p11", .setTag "k" "v", .setPolygon 0 "P"].map (Op.upd 0)) = some s2 ∧
    (worldView s1).length = 1 := by
  refine ⟨_, _, _, rfl, rfl, rfl, by decide⟩

/-- **`clone_disjoint`**: `Clone()` (every feature kind) returns a feature made of newly allocated arrays
only — so it shares nothing with its original nor with anything else that exists —, leaves every existing
array untouched, and starts out observably equal to the original. -/
theorem clone_disjoint {st st' : Store} {f c : Feat} (h : cloneFeat st f = some (st', c))
    (hv : Valid st f) (hp : Proper f) :
    (∀ a ∈ fp c, st.length ≤ a ∧ a < st'.length) ∧ Disj c f ∧
    (∀ a, a < st.length → st'[a]? = st[a]?) ∧ view st' c = view st f ∧ view st' f = view st f := by
  have hs := cloneFeat_step h
  refine ⟨fun a ha => ⟨?_, hs.valid a ha⟩, disj_fresh hs hv, fun a ha => hs.frame a ha (by simp),
    clone_view h hv hp, view_frame hs hv (by simp)⟩
  rcases hs.sub a ha with h' | h'
  · simp at h'
  · exact h'

example : ∃ st st' f c, cloneFeat st f = some (st', c) ∧ Valid st f ∧ Proper f ∧ fp f ≠ [] ∧ f.ids ≠ [] :=
  ⟨[[.pair "k" "v"], [.scalar "p10"], [.scalar ""]], _,
   { kind := .area, id := "a1", tags := some ⟨0, 1⟩, ids := [some ⟨1, 1⟩], polygons := some ⟨2, 1⟩ }, _,
   rfl, by decide, by decide, by decide, by decide⟩

/-- **clones are independent of their originals** (both directions): after `vars.push(vars[i].Clone())`
any sequence of mutations of the clone leaves the original — and the world — unchanged, and any sequence
of mutations of the original leaves the clone unchanged. -/
theorem clone_independent {s s1 s2 : State} {i k : Nat} {ms : List Mut} (hs : Sep s)
    (hc : step s (.clone i) = some s1) (hmut : run s1 (ms.map (Op.upd k)) = some s2) :
    worldView s2 = worldView s1 ∧
    ∀ j x, j ≠ k → s1.vars[j]? = some x → s2.vars[j]? = some x ∧ view s2.st x = view s1.st x :=
  (muts_isolated (step_ok hs hc).1 hmut).2

/-- **`from_world_disjoint`**: the feature `NewFeatureFromWorld` constructs from a world's feature (every
kind) is made of newly allocated arrays only: it shares no backing array with the world's feature (nor with
anything else), and constructing it leaves every existing array untouched. -/
theorem from_world_disjoint {st st' : Store} {w c : Feat} (h : fromWorld st w = some (st', c))
    (hv : Valid st w) :
    (∀ a ∈ fp c, st.length ≤ a ∧ a < st'.length) ∧ Disj c w ∧
    (∀ a, a < st.length → st'[a]? = st[a]?) ∧ view st' w = view st w := by
  have hs := fromWorld_step h
  refine ⟨fun a ha => ⟨?_, hs.valid a ha⟩, disj_fresh hs hv, fun a ha => hs.frame a ha (by simp),
    view_frame hs hv (by simp)⟩
  rcases hs.sub a ha with h' | h'
  · simp at h'
  · exact h'

/-- … and so, in any history, mutating the copy never changes the world, nor the other way round -/
theorem from_world_independent {s s1 s2 : State} {kind : Kind} {id : String} {k : Nat} {ms : List Mut}
    (hs : Sep s) (hc : step s (.fromWorld kind id) = some s1)
    (hmut : run s1 (ms.map (Op.upd k)) = some s2) : worldView s2 = worldView s1 :=
  (muts_isolated (step_ok hs hc).1 hmut).2.1

example : ∃ s s1 s2, run {} [.new .area "a1" 2, .upd 0 (.setPathIDs 0 ["p10", "p12"]),
      .upd 0 (.setPolygon 1 "P1"), .upd 0 (.addTag "k" "v"), .add 0] = some s ∧
    step s (.fromWorld .area "a1") = some s1 ∧
    run s1 ([Mut.setPathID 0 1 "p11", .setTag "k" "w"].map (Op.upd 1)) = some s2 ∧
    (s1.vars[1]?.map (view s1.st)) = (s1.world[0]?.map (view s1.st)) := by
  refine ⟨_, _, _, rfl, rfl, rfl, by decide⟩

/-! ## the third level: tag values that are lists (`b6.Expressions`)

`Tags.Clone`, `copy` and `append` copy Tag structs, so two features can hold the SAME list (a path's points)
— deliberately outside `Sep`.  That is safe for one reason only: nothing writes into an existing list;
`b6.Set` (the only writer, used by `ModifyOrAddTagAt`) always allocates. -/

/-- **`set_allocates_fresh`**: `b6.Set(s, e, i)` returns a list over a NEWLY allocated array — also when
`i == len(s)` and the old array has spare capacity — holding the old elements with position `i` set, and
leaves every existing list untouched. -/
theorem set_allocates_fresh (vals : Vals) (es : List String) (i : Nat) (e : String) :
    (setList vals es i e).2.addr = vals.length ∧
    (∀ a, a < vals.length → (setList vals es i e).1[a]? = vals[a]?) ∧
    (∃ arr, (setList vals es i e).1 = vals ++ [arr]) ∧
    resolveV (setList vals es i e).1 (setList vals es i e).2
      = some ((es ++ List.replicate (i + 1 - es.length) "").set i e) := by
  refine ⟨rfl, fun a ha => by simp [setList, List.getElem?_append_left ha], ⟨_, rfl⟩, ?_⟩
  simp only [setList, resolveV, List.getElem?_concat_length, Nat.le_refl, ↓reduceIte, Option.some.injEq]
  exact List.take_of_length_le (Nat.le_refl _)

example : resolveV (setList [["n1", "n2", "", ""]] ["n1", "n2"] 2 "n3").1
    (setList [["n1", "n2", "", ""]] ["n1", "n2"] 2 "n3").2 = some ["n1", "n2", "n3"] := by decide

theorem mutateV_vals {st st' : Store} {vals vals' : Vals} {f f' : Feat} {m : MutV}
    (h : mutateV st vals f m = some (st', vals', f')) : ∃ ext, vals' = vals ++ ext := by
  cases m with
  | setTagAt k i e =>
    simp only [mutateV, Option.map_eq_some_iff] at h
    obtain ⟨r, hr, he⟩ := h
    cases he
    unfold tagsSetAt at hr
    cases hc : cells st f.tags with
    | none => rw [hc] at hr; cases hr
    | some cs =>
      rw [hc] at hr
      simp only at hr
      split at hr
      · split at hr
        · cases hr
        · simp only [Option.map_eq_some_iff] at hr
          obtain ⟨st2, _, he⟩ := hr
          cases he
          exact ⟨_, rfl⟩
      · simp only [Option.map_eq_some_iff] at hr
        obtain ⟨a, _, he⟩ := hr
        cases he
        exact ⟨_, rfl⟩
  | setTagList k lit spare =>
    simp only [mutateV, Option.map_eq_some_iff] at h
    obtain ⟨r, hr, he⟩ := h
    cases he
    unfold tagsSetList at hr
    simp only at hr
    cases hc : cells st f.tags with
    | none => rw [hc] at hr; cases hr
    | some cs =>
      rw [hc] at hr
      simp only at hr
      split at hr
      · simp only [Option.map_eq_some_iff] at hr
        obtain ⟨st2, _, he⟩ := hr
        cases he
        exact ⟨_, rfl⟩
      · simp only [Option.map_eq_some_iff] at hr
        obtain ⟨a, _, he⟩ := hr
        cases he
        exact ⟨_, rfl⟩

/-- **the value store is append-only**: no operation of any kind writes into an existing list -/
theorem vals_append_only {s s' : State} {op : Op} (h : step s op = some s') :
    ∃ ext, s'.vals = s.vals ++ ext := by
  cases op with
  | updV i m =>
    simp only [step] at h
    cases hf : s.vars[i]? with
    | none => rw [hf] at h; cases h
    | some f =>
      rw [hf] at h
      simp only [Option.map_eq_some_iff] at h
      obtain ⟨r, hr, he⟩ := h
      subst he
      exact mutateV_vals (st' := r.1) (vals' := r.2.1) (f' := r.2.2) hr
  | new kind id n =>
    simp only [step, Option.some.injEq] at h
    subst h
    exact ⟨[], by simp⟩
  | clone i =>
    simp only [step] at h
    split at h
    · cases h
    · simp only [Option.map_eq_some_iff] at h
      obtain ⟨r, _, he⟩ := h
      subst he
      exact ⟨[], by simp⟩
  | upd i m =>
    simp only [step] at h
    split at h
    · cases h
    · simp only [Option.map_eq_some_iff] at h
      obtain ⟨r, _, he⟩ := h
      subst he
      exact ⟨[], by simp⟩
  | merge i j =>
    simp only [step] at h
    split at h
    · split at h
      · cases h
      · simp only [Option.map_eq_some_iff] at h
        obtain ⟨r, _, he⟩ := h
        subst he
        exact ⟨[], by simp⟩
    · cases h
  | add i =>
    simp only [step] at h
    split at h
    · cases h
    · split at h
      · split at h
        · cases h
        · simp only [Option.map_eq_some_iff] at h
          obtain ⟨r, _, he⟩ := h
          subst he
          exact ⟨[], by simp⟩
      · simp only [Option.map_eq_some_iff] at h
        obtain ⟨r, _, he⟩ := h
        subst he
        exact ⟨[], by simp⟩
  | wtag kind id k v =>
    simp only [step] at h
    split at h
    · cases h
    · split at h
      · cases h
      · simp only [Option.map_eq_some_iff] at h
        obtain ⟨r, _, he⟩ := h
        subst he
        exact ⟨[], by simp⟩
  | wrm kind id k =>
    simp only [step] at h
    split at h
    · cases h
    · split at h
      · cases h
      · simp only [Option.map_eq_some_iff] at h
        obtain ⟨r, _, he⟩ := h
        subst he
        exact ⟨[], by simp⟩
  | fromWorld kind id =>
    simp only [step] at h
    split at h
    · cases h
    · split at h
      · cases h
      · simp only [Option.map_eq_some_iff] at h
        obtain ⟨r, _, he⟩ := h
        subst he
        exact ⟨[], by simp⟩

theorem resolveV_append {vals ext : Vals} {h : Slice} {xs : List String}
    (hr : resolveV vals h = some xs) : resolveV (vals ++ ext) h = some xs := by
  unfold resolveV at hr ⊢
  cases ha : vals[h.addr]? with
  | none => rw [ha] at hr; cases hr
  | some arr =>
    have hlt : h.addr < vals.length := by
      rcases Nat.lt_or_ge h.addr vals.length with h' | h'
      · exact h'
      · rw [List.getElem?_eq_none h'] at ha; cases ha
    rw [List.getElem?_append_left hlt, ha]
    rw [ha] at hr
    exact hr

/-- the lists behind the list-valued tags of a tag array, in order -/
def obsLists (vals : Vals) : List Cell → Option (List (List String))
  | [] => some []
  | .ltag _ h :: rest =>
    match resolveV vals h, obsLists vals rest with
    | some xs, some r => some (xs :: r)
    | _, _ => none
  | .pair _ _ :: rest => obsLists vals rest
  | .scalar _ :: rest => obsLists vals rest

/-- everything that can be observed of a feature: its slices AND the lists its tags' values point to -/
def obs (st : Store) (vals : Vals) (f : Feat) : Option (View × List (List String)) :=
  match view st f with
  | none => none
  | some v => (obsLists vals v.tags).map fun l => (v, l)

theorem obsLists_append {vals ext : Vals} {cs : List Cell} {l : List (List String)}
    (h : obsLists vals cs = some l) : obsLists (vals ++ ext) cs = some l := by
  induction cs generalizing l with
  | nil => exact h
  | cons c rest ih =>
    cases c with
    | pair a b => exact ih h
    | scalar x => exact ih h
    | ltag k hd =>
      simp only [obsLists] at h ⊢
      cases hr : resolveV vals hd with
      | none => rw [hr] at h; simp at h
      | some xs =>
        cases hl : obsLists vals rest with
        | none => rw [hr, hl] at h; simp at h
        | some r =>
          rw [hr, hl] at h
          rw [resolveV_append hr, ih hl]
          exact h

/-- **isolation down to the list values**: an operation changes what is observed — the lists behind the
tags included — of its target only; in particular extending or overwriting a path's points through one
holder (`ModifyOrAddTagAt`) never shows in a clone, a copy taken from the world, or the world. -/
theorem step_isolates_values {s s' : State} {op : Op} (hs : Sep s) (h : step s op = some s') :
    (∀ w x o, target s op ≠ .world w → s.world[w]? = some x → obs s.st s.vals x = some o →
      s'.world[w]? = some x ∧ obs s'.st s'.vals x = some o) ∧
    (∀ i x o, target s op ≠ .var i → s.vars[i]? = some x → obs s.st s.vals x = some o →
      s'.vars[i]? = some x ∧ obs s'.st s'.vals x = some o) := by
  obtain ⟨_, hw, hv⟩ := step_ok hs h
  obtain ⟨ext, hext⟩ := vals_append_only h
  have key : ∀ x o, view s'.st x = view s.st x → obs s.st s.vals x = some o → obs s'.st s'.vals x = some o := by
    intro x o hview ho
    unfold obs at ho ⊢
    rw [hview]
    cases hvw : view s.st x with
    | none => rw [hvw] at ho; cases ho
    | some v =>
      rw [hvw] at ho
      simp only [Option.map_eq_some_iff] at ho ⊢
      obtain ⟨l, hl, he⟩ := ho
      exact ⟨l, by rw [hext]; exact obsLists_append hl, he⟩
  exact ⟨fun w x o ht hx ho => ⟨(hw w x ht hx).1, key x o (hw w x ht hx).2 ho⟩,
    fun i x o ht hx ho => ⟨(hv i x ht hx).1, key x o (hv i x ht hx).2 ho⟩⟩

/-- non-vacuity: a path built point by point, stored, cloned; original and clone both extended at the same
index and overwritten: each keeps its own points, the world keeps the stored ones -/
example : ∃ s, run {} [.new .generic "20" 0, .updV 0 (.setTagAt "path" 0 "n101"),
      .updV 0 (.setTagAt "path" 1 "n102"), .add 0, .clone 0, .updV 0 (.setTagAt "path" 2 "n103"),
      .updV 1 (.setTagAt "path" 2 "n104"), .updV 1 (.setTagAt "path" 0 "n105")] = some s ∧
    (s.vars.map (obs s.st s.vals)).map (Option.map (·.2)) =
      [some [["n101", "n102", "n103"]], some [["n105", "n102", "n104"]]] ∧
    (s.world.map (obs s.st s.vals)).map (Option.map (·.2)) = [some [["n101", "n102"]]] := by
  refine ⟨_, rfl, by decide, by decide⟩

/-! ## `MergeFrom` gives the receiver the value of its argument -/

/-- the situation `MergeFrom` is used in: receiver `e` and argument `o` are different owners of the same
kind (`Sep`), the receiver's slices lie over different arrays, and no member of `o` is an empty non-nil
path list (`SetPathIDs(i, []FeatureID{})` — see `merge_empty_path_list_counterexample`) -/
structure MergeOK (st : Store) (e o : Feat) : Prop where
  valid_e : Valid st e
  valid_o : Valid st o
  disj : Disj e o
  own : (fp e).Nodup
  proper_e : Proper e
  proper_o : Proper o
  kind : e.kind = o.kind
  paths : ∀ s ∈ o.ids, s ≠ none → 0 < slen s
  /-- the argument is well-formed: all its slices lie within their arrays -/
  readable : (view st o).isSome = true

instance (st : Store) (e o : Feat) : Decidable (MergeOK st e o) :=
  if h : Valid st e ∧ Valid st o ∧ (∀ a ∈ fp e, a ∉ fp o) ∧ (fp e).Nodup ∧ Proper e ∧ Proper o ∧
      e.kind = o.kind ∧ (∀ s ∈ o.ids, s ≠ none → 0 < slen s) ∧ (view st o).isSome = true
  then isTrue ⟨h.1, h.2.1, h.2.2.1, h.2.2.2.1, h.2.2.2.2.1, h.2.2.2.2.2.1, h.2.2.2.2.2.2.1,
    h.2.2.2.2.2.2.2.1, h.2.2.2.2.2.2.2.2⟩
  else isFalse fun ok => h ⟨ok.valid_e, ok.valid_o, ok.disj, ok.own, ok.proper_e, ok.proper_o, ok.kind,
    ok.paths, ok.readable⟩

/-- **`merge_from_equal`**: after `e.MergeFrom(o)` — every feature kind; receiver shorter than, as long as,
or longer than the argument in tags / members / polygons / path ids / keys and values; nil (polygon)
members included — the receiver is observably equal to the argument, and the argument is unchanged. -/
theorem merge_from_equal {st st' : Store} {e o e' : Feat} (h : mergeFrom st e o = some (st', e'))
    (ok : MergeOK st e o) : view st' e' = view st o ∧ view st' o = view st o := by
  have hstep := mergeFrom_step h ok.valid_e
  refine ⟨?_, view_frame hstep ok.valid_o (fun a ha he => ok.disj a he ha)⟩
  have hdo : ∀ {s : Option Slice}, (∀ a ∈ addrs s, a ∈ fp o) → ∀ {t : Option Slice},
      (∀ a ∈ addrs t, a ∈ fp e) → ∀ a ∈ addrs s, a < st.length ∧ a ∉ addrs t :=
    fun hs _ ht a ha => ⟨ok.valid_o a (hs a ha), fun hm => ok.disj a (ht a hm) (hs a ha)⟩
  have hpe := ok.proper_e
  have hpo := ok.proper_o
  have hown := ok.own
  unfold Proper at hpe hpo
  unfold mergeFrom at h
  cases hk : e.kind with
  | generic =>
    have hko : o.kind = .generic := by rw [← ok.kind, hk]
    rw [hk] at h hpe
    rw [hko] at hpo
    simp only at h hpe hpo
    obtain ⟨e1, e2, e3, e4, e5, e6⟩ := hpe
    obtain ⟨o1, o2, o3, o4, o5, o6⟩ := hpo
    cases hc : cloneMake st o.tags with
    | none => rw [hc] at h; cases h
    | some c =>
      rw [hc] at h
      simp only at h
      cases hs : cells c.1 c.2 with
      | none => rw [hs] at h; cases h
      | some src =>
        rw [hs] at h
        simp only at h
        cases ht : mergeInto c.1 e.tags src with
        | none => rw [ht] at h; cases h
        | some t =>
          rw [ht] at h
          cases h
          have hsrc : cells st o.tags = some src := by
            rw [← (cloneMake_cells (st' := c.1) (s' := c.2) hc).1]; exact hs
          simp only [view, mergeInto_cells ht, hsrc, e1, e2, e3, e4, e5, e6, o1, o2, o3, o4, o5, o6, hko,
            viewIds, cells_none]
  | area =>
    have hko : o.kind = .area := by rw [← ok.kind, hk]
    rw [hk] at h hpe
    rw [hko] at hpo
    simp only at h hpe hpo
    obtain ⟨e3, e4, e5, e6⟩ := hpe
    obtain ⟨o3, o4, o5, o6⟩ := hpo
    split at h
    · rename_i hne; exact absurd hko hne
    · cases hc : cells st o.tags with
      | none => rw [hc] at h; cases h
      | some src =>
        rw [hc] at h
        simp only at h
        cases ht : mergeInto st e.tags src with
        | none => rw [ht] at h; cases h
        | some t =>
          rw [ht] at h
          simp only at h
          cases hm : mergeAreaMembers t.1 e o with
          | none => rw [hm] at h; cases h
          | some r =>
            rw [hm] at h
            cases h
            have htstep := mergeInto_step (st' := t.1) (d' := t.2) ht
            -- the receiver's own arrays: tags | ids … | polygons, all different
            have hfp : fp e = addrs e.tags ++ addrs e.polygons ++ e.ids.flatMap addrs := by
              simp [fp, e3, e4, e5, addrs]
            rw [hfp, List.append_assoc] at hown
            have hE : ∀ a ∈ e.ids.flatMap addrs ++ addrs e.polygons, a ∈ fp e := by
              intro a ha
              rw [hfp]
              rcases List.mem_append.mp ha with h' | h'
              · exact List.mem_append_right _ h'
              · exact List.mem_append_left _ (List.mem_append_right _ h')
            have hEnd : (e.ids.flatMap addrs ++ addrs e.polygons).Nodup :=
              (List.perm_append_comm.nodup_iff).mp (List.nodup_append.mp hown).2.1
            have htagsE : ∀ a ∈ addrs e.tags, a ∉ e.ids.flatMap addrs ++ addrs e.polygons := by
              intro a ha hm'
              have := (List.nodup_append.mp hown).2.2 a ha a
                (by rcases List.mem_append.mp hm' with h' | h'
                    · exact List.mem_append_right _ h'
                    · exact List.mem_append_left _ h') rfl
              exact this
            have hO : ∀ a ∈ o.ids.flatMap addrs ++ addrs o.polygons, a ∈ fp o := by
              intro a ha
              simp only [List.mem_append, List.mem_flatMap] at ha
              rcases ha with ⟨x, hx, hax⟩ | ha
              · exact mem_fp.mpr (Or.inr (Or.inr (Or.inr (Or.inr (Or.inr ⟨x, hx, hax⟩)))))
              · exact mem_fp.mpr (Or.inr (Or.inl ha))
            -- what is observed of `o`, before and after the tags were copied
            cases hiv : viewIds st o.ids with
            | none =>
              have := ok.readable
              simp [view, hc, hiv] at this
            | some iv =>
              cases hpv : cells st o.polygons with
              | none =>
                have := ok.readable
                simp [view, hc, hiv, hpv] at this
              | some pv =>
                have hiv' : viewIds t.1 o.ids = some iv := by
                  rw [viewIds_step_other htstep (fun a ha =>
                    ⟨ok.valid_o a (hO a (List.mem_append_left _ ha)), fun hm' =>
                      ok.disj a (by simp [mem_fp, hm']) (hO a (List.mem_append_left _ ha))⟩)]
                  exact hiv
                have hpv' : cells t.1 o.polygons = some pv := by
                  rw [cells_step_other htstep (fun a ha =>
                    ⟨ok.valid_o a (hO a (List.mem_append_right _ ha)), fun hm' =>
                      ok.disj a (by simp [mem_fp, hm']) (hO a (List.mem_append_right _ ha))⟩)]
                  exact hpv
                obtain ⟨r1, r2⟩ := mergeAreaMembers_view (st' := r.1) (ids' := r.2.1) (p' := r.2.2) hm
                  (fun a ha => Nat.lt_of_lt_of_le (ok.valid_e a (hE a ha)) htstep.grow) hEnd
                  (fun a ha => ⟨Nat.lt_of_lt_of_le (ok.valid_o a (hO a ha)) htstep.grow,
                    fun hm' => ok.disj a (hE a hm') (hO a ha)⟩) ok.paths hiv' hpv'
                have hmstep := mergeAreaMembers_step (st' := r.1) (ids' := r.2.1) (p' := r.2.2) hm
                  (fun a ha => Nat.lt_of_lt_of_le (ok.valid_e a (hE a ha)) htstep.grow)
                have htags : cells r.1 t.2 = some src := by
                  rw [cells_step_other hmstep (fun a ha => ⟨htstep.valid a ha, fun hm' => by
                    rcases htstep.sub a ha with h' | h'
                    · exact htagsE a h' hm'
                    · have := ok.valid_e a (hE a hm'); omega⟩)]
                  exact mergeInto_cells ht
                simp only [view, htags, r1, r2, hc, hiv, hpv, e3, e4, e5, e6, o3, o4, o5, o6, hko,
                  cells_none]
  | relation =>
    have hko : o.kind = .relation := by rw [← ok.kind, hk]
    rw [hk] at h hpe
    rw [hko] at hpo
    simp only at h hpe hpo
    obtain ⟨e1, e2, e4, e5, e6⟩ := hpe
    obtain ⟨o1, o2, o4, o5, o6⟩ := hpo
    split at h
    · rename_i hne; exact absurd hko hne
    · cases hc : cells st o.tags with
      | none => rw [hc] at h; cases h
      | some src =>
        rw [hc] at h
        simp only at h
        cases ht : mergeInto st e.tags src with
        | none => rw [ht] at h; cases h
        | some t =>
          rw [ht] at h
          simp only at h
          cases hms : cells t.1 o.members with
          | none => rw [hms] at h; cases h
          | some ms =>
            rw [hms] at h
            simp only at h
            cases hm : mergeInto t.1 e.members ms with
            | none => rw [hm] at h; cases h
            | some m =>
              rw [hm] at h
              cases h
              have htstep := mergeInto_step (st' := t.1) (d' := t.2) ht
              have hmstep := mergeInto_step (st' := m.1) (d' := m.2) hm
              have hfp : fp e = addrs e.tags ++ addrs e.members := by simp [fp, e1, e2, e4, e5, addrs]
              rw [hfp] at hown
              have hmem : cells st o.members = some ms := by
                rw [← cells_step_other htstep (hdo (s := o.members) (by intro a ha; simp [mem_fp, ha])
                  (t := e.tags) (by intro a ha; simp [mem_fp, ha]))]
                exact hms
              have htags : cells m.1 t.2 = some src := by
                rw [cells_step_other hmstep (fun a ha => ⟨htstep.valid a ha, fun hm' => by
                  rcases htstep.sub a ha with h' | h'
                  · exact (List.nodup_append.mp hown).2.2 a h' a hm' rfl
                  · have := ok.valid_e a (by simp [mem_fp, hm']); omega⟩)]
                exact mergeInto_cells ht
              simp only [view, htags, mergeInto_cells hm, hc, hmem, e1, e2, e4, e5, e6, o1, o2, o4, o5, o6,
                hko, viewIds, cells_none]
  | collection =>
    have hko : o.kind = .collection := by rw [← ok.kind, hk]
    rw [hk] at h hpe
    rw [hko] at hpo
    simp only at h hpe hpo
    obtain ⟨e1, e2, e3⟩ := hpe
    obtain ⟨o1, o2, o3⟩ := hpo
    split at h
    · rename_i hne; exact absurd hko hne
    · cases hc : cells st o.tags with
      | none => rw [hc] at h; cases h
      | some src =>
        rw [hc] at h
        simp only at h
        cases ht : mergeInto st e.tags src with
        | none => rw [ht] at h; cases h
        | some t =>
          rw [ht] at h
          simp only at h
          cases hks : cloneKeepNil t.1 o.keys with
          | none => rw [hks] at h; cases h
          | some ks =>
            rw [hks] at h
            simp only at h
            cases hvs : cloneKeepNil ks.1 o.values with
            | none => rw [hvs] at h; cases h
            | some vs =>
              rw [hvs] at h
              cases h
              have htstep := mergeInto_step (st' := t.1) (d' := t.2) ht
              have hkstep := cloneKeepNil_step (st' := ks.1) (s' := ks.2) hks
              have hvstep := cloneKeepNil_step (st' := vs.1) (s' := vs.2) hvs
              have hokeys := hdo (s := o.keys) (by intro a ha; simp [mem_fp, ha])
                (t := e.tags) (by intro a ha; simp [mem_fp, ha])
              have hovals := hdo (s := o.values) (by intro a ha; simp [mem_fp, ha])
                (t := e.tags) (by intro a ha; simp [mem_fp, ha])
              have htags : cells vs.1 t.2 = some src := by
                rw [cells_pure hvstep (fun a ha => Nat.lt_of_lt_of_le (htstep.valid a ha) hkstep.grow),
                  cells_pure hkstep htstep.valid]
                exact mergeInto_cells ht
              have hkeys : cells vs.1 ks.2 = cells st o.keys := by
                rw [cells_pure hvstep hkstep.valid, cloneKeepNil_cells hks, cells_step_other htstep hokeys]
              have hvals : cells vs.1 vs.2 = cells st o.values := by
                rw [cloneKeepNil_cells hvs,
                  cells_pure hkstep (fun a ha => Nat.lt_of_lt_of_le (hovals a ha).1 htstep.grow),
                  cells_step_other htstep hovals]
              simp only [view, htags, hkeys, hvals, hc, e1, e2, e3, o1, o2, o3, hko, viewIds, cells_none]

/-- non-vacuity: a one-polygon area receives an area with a two-path member, a polygon member and more tags -/
example :
    let st : Store := [[.pair "a" "1"], [.scalar "P1"],
                       [.pair "a" "2", .pair "b" "3"], [.scalar "p10", .scalar "p11"], [.scalar "", .scalar "P2"]]
    let e : Feat := { kind := .area, id := "a1", tags := some ⟨0, 1⟩, ids := [none], polygons := some ⟨1, 1⟩ }
    let o : Feat := { kind := .area, id := "a1", tags := some ⟨2, 2⟩, ids := [some ⟨3, 2⟩, none],
                      polygons := some ⟨4, 2⟩ }
    MergeOK st e o ∧ (mergeFrom st e o).isSome = true := by decide

/-- the one shape the hypothesis `MergeOK.paths` excludes: an EMPTY non-nil path list (`SetPathIDs(i,
[]FeatureID{})`) merged into a receiver whose member is nil stays nil (`nil[0:0]`), so `PathIDs(i)` reports
"no paths" for the receiver and "zero paths" for the argument.  A member with zero paths is not a valid
area member; recorded as a quirk of the code, not as a defect. -/
theorem merge_empty_path_list_counterexample :
    let st : Store := [[.scalar "P1"], [], [.scalar ""]]
    let e : Feat := { kind := .area, id := "a1", ids := [none], polygons := some ⟨0, 1⟩ }
    let o : Feat := { kind := .area, id := "a1", ids := [some ⟨1, 0⟩], polygons := some ⟨2, 1⟩ }
    ∃ st' e', mergeFrom st e o = some (st', e') ∧ view st' e' ≠ view st o := by
  refine ⟨_, _, rfl, by decide⟩

/-! ## the code as it was: the three sharing defects (fixed by `fixes/C38-*.patch`) -/

/-- `AreaMembers.Clone` copied the outer slice only: `SetPathID` on the clone changed the original
(confirmed on the real code; corpus witness). -/
theorem area_clone_shares_counterexample :
    let st : Store := [[.scalar "p10"], [.scalar ""]]
    let f : Feat := { kind := .area, id := "a1", ids := [some ⟨0, 1⟩], polygons := some ⟨1, 1⟩ }
    ∃ st1 c st2 c', Old.cloneFeat st f = some (st1, c) ∧
      mutate st1 c (.setPathID 0 0 "p11") = some (st2, c') ∧ view st2 f ≠ view st1 f := by
  refine ⟨_, _, _, _, rfl, rfl, by decide⟩

/-- `CollectionFeature.Clone` shared `Keys`/`Values`: `Keys[0] = …` on the clone changed the original. -/
theorem collection_clone_shares_counterexample :
    let st : Store := [[.scalar "k1"], [.scalar "v1"]]
    let f : Feat := { kind := .collection, id := "c1", keys := some ⟨0, 1⟩, values := some ⟨1, 1⟩ }
    ∃ st1 c st2 c', Old.cloneFeat st f = some (st1, c) ∧
      mutate st1 c (.setKey 0 "HACK") = some (st2, c') ∧ view st2 f ≠ view st1 f := by
  refine ⟨_, _, _, _, rfl, rfl, by decide⟩

/-- `CollectionFeature.MergeFrom` (what a world does when a collection is replaced) shared the caller's
`Tags`, `Keys` and `Values`: a later `ModifyOrAddTag` by the caller changed the world's entry. -/
theorem collection_merge_shares_counterexample :
    let st : Store := [[.pair "name" "old"], [.pair "name" "two"], [.scalar "a"], [.scalar "b"]]
    let e : Feat := { kind := .collection, id := "c1", tags := some ⟨0, 1⟩ }
    let o : Feat := { kind := .collection, id := "c1", tags := some ⟨1, 1⟩, keys := some ⟨2, 1⟩,
                      values := some ⟨3, 1⟩ }
    ∃ st2 o', mutate st o (.setTag "name" "CALLER") = some (st2, o') ∧
      view st2 (Old.mergeCollection e o) ≠ view st (Old.mergeCollection e o) := by
  refine ⟨_, _, rfl, by decide⟩

/-- `AreaMembers.MergeFrom` left a non-nil empty path list where the other area has a polygon member
(`nil`): replacing `[polygon]` by `[polygon, polygon]` in a world lost the second polygon. -/
theorem area_merge_polygon_member_counterexample :
    let st : Store := [[.scalar "P1"], [.scalar "P1", .scalar "P2"]]
    let e : Feat := { kind := .area, id := "a2", ids := [none], polygons := some ⟨0, 1⟩ }
    let o : Feat := { kind := .area, id := "a2", ids := [none, none], polygons := some ⟨1, 2⟩ }
    ∃ st' ids' p', Old.mergeAreaMembers st e o = some (st', ids', p') ∧
      viewIds st' ids' ≠ viewIds st o.ids ∧
      (∃ st'' ids'' p'', mergeAreaMembers st e o = some (st'', ids'', p'') ∧
        viewIds st'' ids'' = viewIds st o.ids) := by
  refine ⟨_, _, _, rfl, by decide, _, _, _, rfl, by decide⟩

end B6.Props.C38
