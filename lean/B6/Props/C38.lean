/-! C38 — property theorems (stub: nothing proved yet). -/
