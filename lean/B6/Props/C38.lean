import B6.Model.FeatureHeap
import B6.Lemmas.FeatureHeap
/-!
# C38 — Callers' feature values are isolated from the world

Theorems about `B6.Model.FeatureHeap`: feature structs whose slices point into a store of backing
arrays; a mutable world (`world`, what `ModifiedFeatures.Update` stores) and any number of caller-held
feature values (`vars`).  An operation sequence is any interleaving of: constructing a feature, `Clone`,
every mutator of the feature API (`Mut`), `MergeFrom`, `world.AddFeature`, `world.AddTag/RemoveTag`.

* `Sep` — every owner's arrays are allocated and no two different owners share an array — holds in the
  empty state and is preserved by every operation (`step_ok`, `run_ok`, `reachable_sep`);
* under `Sep` an operation changes what is observed of its *target* only (`Isolated`): every other caller
  value and every (other) world entry keeps its struct and its observable value;
* hence `add_isolates`, `clone_disjoint`, `clone_independent`.

The theorems are about the code after the patches `fixes/C38-*.patch`; the `*_counterexample` theorems
are about the bodies as they were (`Old.*`) and are the witnesses replayed by the harness corpus.
-/
namespace B6.Props.C38
open B6.Model.FeatureHeap B6.Lemmas.FeatureHeap

/-- all owners (world entries and caller values) are allocated and pairwise share no backing array -/
def Sep (s : State) : Prop := Sep2 s.st s.world s.vars

/-- the owner an operation writes through -/
inductive Target where
  | var (i : Nat)
  | world (w : Nat)
  /-- only allocates (a new caller value or a new world entry) -/
  | fresh
deriving DecidableEq, Repr

def worldTarget (kind : Kind) (id : String) (world : List Feat) : Target :=
  match findEntry kind id world with
  | some w => .world w
  | none => .fresh

def target (s : State) : Op → Target
  | .new _ _ _ => .fresh
  | .clone _ => .fresh
  | .upd i _ => .var i
  | .merge i _ => .var i
  | .add i =>
    match s.vars[i]? with
    | none => .fresh
    | some f => worldTarget f.kind f.id s.world
  | .wtag kind id _ _ => worldTarget kind id s.world
  | .wrm kind id _ => worldTarget kind id s.world

/-- everything except the target keeps its position, its struct and what is observed of it -/
def Isolated (s : State) (t : Target) (s' : State) : Prop :=
  (∀ w x, t ≠ .world w → s.world[w]? = some x → s'.world[w]? = some x ∧ view s'.st x = view s.st x) ∧
  (∀ i x, t ≠ .var i → s.vars[i]? = some x → s'.vars[i]? = some x ∧ view s'.st x = view s.st x)

theorem sep_init : Sep {} :=
  ⟨by simp, by simp, by intro i j x y _ h; simp at h, by intro i j x y _ h; simp at h, by simp⟩

/-! ## the four shapes an operation can have -/

private theorem getElem?_set_other {l : List Feat} {i j : Nat} {x r' : Feat} (hne : j ≠ i)
    (h : l[j]? = some x) : (l.set i r')[j]? = some x := by
  rw [List.getElem?_set]
  have : ¬ i = j := fun e => hne e.symm
  simp [this, h]

private theorem getElem?_push_old {l : List Feat} {j : Nat} {x c : Feat} (h : l[j]? = some x) :
    (l ++ [c])[j]? = some x := by
  have hlt : j < l.length := by
    rcases Nat.lt_or_ge j l.length with h' | h'
    · exact h'
    · rw [List.getElem?_eq_none h'] at h; cases h
  rw [List.getElem?_append_left hlt, h]

/-- an operation through caller value `i` -/
theorem ok_set_var {s : State} {i : Nat} {r r' : Feat} {st' : Store} (hs : Sep s)
    (hi : s.vars[i]? = some r) (h : Step (fp r) s.st st' (fp r')) :
    Sep { s with st := st', vars := s.vars.set i r' } ∧
    Isolated s (.var i) { s with st := st', vars := s.vars.set i r' } := by
  obtain ⟨h1, h2, h3⟩ := (Sep2.symm hs).set hi h
  refine ⟨h1.symm, ?_, ?_⟩
  · intro w x _ hx
    exact ⟨hx, h3 x (List.mem_of_getElem? hx)⟩
  · intro j x hj hx
    have hne : j ≠ i := fun e => hj (by rw [e])
    exact ⟨getElem?_set_other hne hx, h2 j x hne hx⟩

/-- an operation through world entry `w` -/
theorem ok_set_world {s : State} {w : Nat} {r r' : Feat} {st' : Store} (hs : Sep s)
    (hi : s.world[w]? = some r) (h : Step (fp r) s.st st' (fp r')) :
    Sep { s with st := st', world := s.world.set w r' } ∧
    Isolated s (.world w) { s with st := st', world := s.world.set w r' } := by
  obtain ⟨h1, h2, h3⟩ := Sep2.set hs hi h
  refine ⟨h1, ?_, ?_⟩
  · intro j x hj hx
    have hne : j ≠ w := fun e => hj (by rw [e])
    exact ⟨getElem?_set_other hne hx, h2 j x hne hx⟩
  · intro j x _ hx
    exact ⟨hx, h3 x (List.mem_of_getElem? hx)⟩

/-- a new caller value made of new arrays -/
theorem ok_push_var {s : State} {c : Feat} {st' : Store} (hs : Sep s)
    (h : Step [] s.st st' (fp c)) :
    Sep { s with st := st', vars := s.vars ++ [c] } ∧
    Isolated s .fresh { s with st := st', vars := s.vars ++ [c] } := by
  obtain ⟨h1, h2, h3⟩ := (Sep2.symm hs).push h
  refine ⟨h1.symm, ?_, ?_⟩
  · intro w x _ hx
    exact ⟨hx, h3 x (List.mem_of_getElem? hx)⟩
  · intro j x _ hx
    exact ⟨getElem?_push_old hx, h2 x (List.mem_of_getElem? hx)⟩

/-- a new world entry made of new arrays -/
theorem ok_push_world {s : State} {c : Feat} {st' : Store} (hs : Sep s)
    (h : Step [] s.st st' (fp c)) :
    Sep { s with st := st', world := s.world ++ [c] } ∧
    Isolated s .fresh { s with st := st', world := s.world ++ [c] } := by
  obtain ⟨h1, h2, h3⟩ := Sep2.push hs h
  refine ⟨h1, ?_, ?_⟩
  · intro j x _ hx
    exact ⟨getElem?_push_old hx, h2 x (List.mem_of_getElem? hx)⟩
  · intro j x _ hx
    exact ⟨hx, h3 x (List.mem_of_getElem? hx)⟩

/-! ## every operation keeps the owners separated and changes its target only -/

theorem step_ok {s s' : State} {op : Op} (hs : Sep s) (h : step s op = some s') :
    Sep s' ∧ Isolated s (target s op) s' := by
  cases op with
  | new kind id n =>
    simp only [step, Option.some.injEq] at h
    subst h
    exact ok_push_var hs (newFeat_step s.st kind id n)
  | clone i =>
    simp only [step] at h
    cases hf : s.vars[i]? with
    | none => rw [hf] at h; cases h
    | some f =>
      rw [hf] at h
      simp only [Option.map_eq_some_iff] at h
      obtain ⟨r, hr, he⟩ := h
      subst he
      exact ok_push_var hs (cloneFeat_step (st' := r.1) (c := r.2) hr)
  | upd i m =>
    simp only [step] at h
    cases hf : s.vars[i]? with
    | none => rw [hf] at h; cases h
    | some f =>
      rw [hf] at h
      simp only [Option.map_eq_some_iff] at h
      obtain ⟨r, hr, he⟩ := h
      subst he
      exact ok_set_var hs hf
        (mutate_step (st' := r.1) (f' := r.2) hr (hs.valid2 f (List.mem_of_getElem? hf)))
  | merge i j =>
    simp only [step] at h
    cases hf : s.vars[i]? with
    | none => rw [hf] at h; simp at h
    | some e =>
      cases hg : s.vars[j]? with
      | none => rw [hf, hg] at h; simp at h
      | some o =>
        rw [hf, hg] at h
        simp only at h
        split at h
        · cases h
        · simp only [Option.map_eq_some_iff] at h
          obtain ⟨r, hr, he⟩ := h
          subst he
          exact ok_set_var hs hf
            (mergeFrom_step (st' := r.1) (e' := r.2) hr (hs.valid2 e (List.mem_of_getElem? hf)))
  | add i =>
    simp only [step, target] at h ⊢
    cases hf : s.vars[i]? with
    | none => rw [hf] at h; cases h
    | some f =>
      rw [hf] at h
      simp only at h ⊢
      unfold worldTarget
      cases hw : findEntry f.kind f.id s.world with
      | none =>
        rw [hw] at h
        simp only [Option.map_eq_some_iff] at h ⊢
        obtain ⟨r, hr, he⟩ := h
        subst he
        exact ok_push_world hs (cloneFeat_step (st' := r.1) (c := r.2) hr)
      | some w =>
        rw [hw] at h
        simp only at h ⊢
        cases he : s.world[w]? with
        | none => rw [he] at h; cases h
        | some e =>
          rw [he] at h
          simp only [Option.map_eq_some_iff] at h
          obtain ⟨r, hr, hh⟩ := h
          subst hh
          exact ok_set_world hs he
            (mergeFrom_step (st' := r.1) (e' := r.2) hr (hs.valid1 e (List.mem_of_getElem? he)))
  | wtag kind id k v =>
    simp only [step, target] at h ⊢
    unfold worldTarget
    cases hw : findEntry kind id s.world with
    | none => rw [hw] at h; cases h
    | some w =>
      rw [hw] at h
      simp only at h ⊢
      cases he : s.world[w]? with
      | none => rw [he] at h; cases h
      | some e =>
        rw [he] at h
        simp only [Option.map_eq_some_iff] at h
        obtain ⟨r, hr, hh⟩ := h
        subst hh
        exact ok_set_world hs he
          (mutate_step (st' := r.1) (f' := r.2) hr (hs.valid1 e (List.mem_of_getElem? he)))
  | wrm kind id k =>
    simp only [step, target] at h ⊢
    unfold worldTarget
    cases hw : findEntry kind id s.world with
    | none => rw [hw] at h; cases h
    | some w =>
      rw [hw] at h
      simp only at h ⊢
      cases he : s.world[w]? with
      | none => rw [he] at h; cases h
      | some e =>
        rw [he] at h
        simp only [Option.map_eq_some_iff] at h
        obtain ⟨r, hr, hh⟩ := h
        subst hh
        exact ok_set_world hs he
          (mutate_step (st' := r.1) (f' := r.2) hr (hs.valid1 e (List.mem_of_getElem? he)))

/-- separation is an invariant of every history -/
theorem run_ok {ops : List Op} : ∀ {s s' : State}, Sep s → run s ops = some s' → Sep s' := by
  induction ops with
  | nil => intro s s' hs h; simp only [run, Option.some.injEq] at h; exact h ▸ hs
  | cons op ops ih =>
    intro s s' hs h
    simp only [run] at h
    cases h1 : step s op with
    | none => rw [h1] at h; cases h
    | some s1 =>
      rw [h1] at h
      exact ih (step_ok hs h1).1 h

/-- every state a program can reach from the empty world is separated — so `step_ok` applies to every
step of every history (all feature kinds, all mutators, any interleaving) -/
theorem reachable_sep {ops : List Op} {s : State} (h : run {} ops = some s) : Sep s :=
  run_ok sep_init h

example : (run {} [.new .area "a1" 1, .upd 0 (.setPathIDs 0 ["p10"]), .add 0,
    .upd 0 (.setPathID 0 0 "p11"), .clone 0, .upd 1 (.setPolygon 0 "P1"), .add 1,
    .new .collection "c1" 0, .upd 2 (.appendKV "k" "v"), .add 2, .upd 2 (.setKey 0 "x"),
    .wtag .area "a1" "name" "w"]).isSome = true := by decide

/-! ## the property -/

/-- what the world returns: the observable value of every entry -/
def worldView (s : State) : List (Option View) := s.world.map (view s.st)

theorem worldView_eq {s s' : State} (hw : s'.world = s.world)
    (hv : ∀ x ∈ s.world, view s'.st x = view s.st x) : worldView s' = worldView s := by
  unfold worldView
  rw [hw]
  exact List.map_congr_left hv

/-- Any sequence of mutations through caller value `i` leaves the world, and every other caller value,
exactly as they were. -/
theorem muts_isolated {ms : List Mut} {i : Nat} : ∀ {s s' : State}, Sep s →
    run s (ms.map (Op.upd i)) = some s' →
    Sep s' ∧ worldView s' = worldView s ∧
      ∀ j x, j ≠ i → s.vars[j]? = some x → s'.vars[j]? = some x ∧ view s'.st x = view s.st x := by
  induction ms with
  | nil =>
    intro s s' hs h
    simp only [List.map_nil, run, Option.some.injEq] at h
    subst h
    exact ⟨hs, rfl, fun j x _ hx => ⟨hx, rfl⟩⟩
  | cons m ms ih =>
    intro s s' hs h
    simp only [List.map_cons, run] at h
    cases h1 : step s (.upd i m) with
    | none => rw [h1] at h; cases h
    | some s1 =>
      rw [h1] at h
      obtain ⟨hs1, hw1, hv1⟩ := step_ok hs h1
      obtain ⟨hs2, hw2, hv2⟩ := ih hs1 h
      have hworld : s1.world = s.world := by
        simp only [step] at h1
        cases hf : s.vars[i]? with
        | none => rw [hf] at h1; cases h1
        | some f =>
          rw [hf] at h1
          simp only [Option.map_eq_some_iff] at h1
          obtain ⟨r, _, he⟩ := h1
          subst he
          rfl
      refine ⟨hs2, ?_, ?_⟩
      · rw [hw2]
        exact worldView_eq hworld (fun x hx => by
          obtain ⟨w, hw⟩ := List.mem_iff_getElem?.mp hx
          exact (hw1 w x (by simp [target]) hw).2)
      · intro j x hj hx
        obtain ⟨a, b⟩ := hv1 j x (by simp only [target]; intro e; exact hj (Target.var.inj e).symm) hx
        obtain ⟨c, d⟩ := hv2 j x hj a
        exact ⟨c, d.trans b⟩

/-- **`add_isolates`**: once a feature has been added to a mutable world (`ModifiedFeatures.Update`: a
`Clone()` is stored, or the existing entry `MergeFrom`s it), no later change the caller makes to the
value it passed in — any sequence of any mutators of the feature API — changes what the world returns. -/
theorem add_isolates {s s1 s2 : State} {i : Nat} {ms : List Mut} (hs : Sep s)
    (hadd : step s (.add i) = some s1) (hmut : run s1 (ms.map (Op.upd i)) = some s2) :
    worldView s2 = worldView s1 :=
  (muts_isolated (step_ok hs hadd).1 hmut).2.1

/-- for histories: the same from any reachable state -/
theorem add_isolates_reachable {ops : List Op} {s s1 s2 : State} {i : Nat} {ms : List Mut}
    (hr : run {} ops = some s) (hadd : step s (.add i) = some s1)
    (hmut : run s1 (ms.map (Op.upd i)) = some s2) : worldView s2 = worldView s1 :=
  add_isolates (reachable_sep hr) hadd hmut

example : ∃ s s1 s2, run {} [.new .area "a1" 1, .upd 0 (.setPathIDs 0 ["p10", "p12"])] = some s ∧
    step s (.add 0) = some s1 ∧
    run s1 ([Mut.setPathID 0 0 "p11", .setTag "k" "v", .setPolygon 0 "P"].map (Op.upd 0)) = some s2 ∧
    (worldView s1).length = 1 := by
  refine ⟨_, _, _, rfl, rfl, rfl, by decide⟩

/-- **`clone_disjoint`**: `Clone()` (every feature kind) returns a feature made of newly allocated arrays
only — so it shares nothing with its original nor with anything else that exists —, leaves every existing
array untouched, and starts out observably equal to the original. -/
theorem clone_disjoint {st st' : Store} {f c : Feat} (h : cloneFeat st f = some (st', c))
    (hv : Valid st f) (hp : Proper f) :
    (∀ a ∈ fp c, st.length ≤ a ∧ a < st'.length) ∧ Disj c f ∧
    (∀ a, a < st.length → st'[a]? = st[a]?) ∧ view st' c = view st f ∧ view st' f = view st f := by
  have hs := cloneFeat_step h
  refine ⟨fun a ha => ⟨?_, hs.valid a ha⟩, disj_fresh hs hv, fun a ha => hs.frame a ha (by simp),
    clone_view h hv hp, view_frame hs hv (by simp)⟩
  rcases hs.sub a ha with h' | h'
  · simp at h'
  · exact h'

example : ∃ st st' f c, cloneFeat st f = some (st', c) ∧ Valid st f ∧ Proper f ∧ fp f ≠ [] ∧ f.ids ≠ [] :=
  ⟨[[.pair "k" "v"], [.scalar "p10"], [.scalar ""]], _,
   { kind := .area, id := "a1", tags := some ⟨0, 1⟩, ids := [some ⟨1, 1⟩], polygons := some ⟨2, 1⟩ }, _,
   rfl, by decide, by decide, by decide, by decide⟩

/-- **clones are independent of their originals** (both directions): after `vars.push(vars[i].Clone())`
any sequence of mutations of the clone leaves the original — and the world — unchanged, and any sequence
of mutations of the original leaves the clone unchanged. -/
theorem clone_independent {s s1 s2 : State} {i k : Nat} {ms : List Mut} (hs : Sep s)
    (hc : step s (.clone i) = some s1) (hmut : run s1 (ms.map (Op.upd k)) = some s2) :
    worldView s2 = worldView s1 ∧
    ∀ j x, j ≠ k → s1.vars[j]? = some x → s2.vars[j]? = some x ∧ view s2.st x = view s1.st x :=
  (muts_isolated (step_ok hs hc).1 hmut).2

/-! ## the code as it was: the three sharing defects (fixed by `fixes/C38-*.patch`) -/

/-- `AreaMembers.Clone` copied the outer slice only: `SetPathID` on the clone changed the original
(confirmed on the real code; corpus witness). -/
theorem area_clone_shares_counterexample :
    let st : Store := [[.scalar "p10"], [.scalar ""]]
    let f : Feat := { kind := .area, id := "a1", ids := [some ⟨0, 1⟩], polygons := some ⟨1, 1⟩ }
    ∃ st1 c st2 c', Old.cloneFeat st f = some (st1, c) ∧
      mutate st1 c (.setPathID 0 0 "p11") = some (st2, c') ∧ view st2 f ≠ view st1 f := by
  refine ⟨_, _, _, _, rfl, rfl, by decide⟩

/-- `CollectionFeature.Clone` shared `Keys`/`Values`: `Keys[0] = …` on the clone changed the original. -/
theorem collection_clone_shares_counterexample :
    let st : Store := [[.scalar "k1"], [.scalar "v1"]]
    let f : Feat := { kind := .collection, id := "c1", keys := some ⟨0, 1⟩, values := some ⟨1, 1⟩ }
    ∃ st1 c st2 c', Old.cloneFeat st f = some (st1, c) ∧
      mutate st1 c (.setKey 0 "HACK") = some (st2, c') ∧ view st2 f ≠ view st1 f := by
  refine ⟨_, _, _, _, rfl, rfl, by decide⟩

/-- `CollectionFeature.MergeFrom` (what a world does when a collection is replaced) shared the caller's
`Tags`, `Keys` and `Values`: a later `ModifyOrAddTag` by the caller changed the world's entry. -/
theorem collection_merge_shares_counterexample :
    let st : Store := [[.pair "name" "old"], [.pair "name" "two"], [.scalar "a"], [.scalar "b"]]
    let e : Feat := { kind := .collection, id := "c1", tags := some ⟨0, 1⟩ }
    let o : Feat := { kind := .collection, id := "c1", tags := some ⟨1, 1⟩, keys := some ⟨2, 1⟩,
                      values := some ⟨3, 1⟩ }
    ∃ st2 o', mutate st o (.setTag "name" "CALLER") = some (st2, o') ∧
      view st2 (Old.mergeCollection e o) ≠ view st (Old.mergeCollection e o) := by
  refine ⟨_, _, rfl, by decide⟩

/-- `AreaMembers.MergeFrom` left a non-nil empty path list where the other area has a polygon member
(`nil`): replacing `[polygon]` by `[polygon, polygon]` in a world lost the second polygon. -/
theorem area_merge_polygon_member_counterexample :
    let st : Store := [[.scalar "P1"], [.scalar "P1", .scalar "P2"]]
    let e : Feat := { kind := .area, id := "a2", ids := [none], polygons := some ⟨0, 1⟩ }
    let o : Feat := { kind := .area, id := "a2", ids := [none, none], polygons := some ⟨1, 2⟩ }
    ∃ st' ids' p', Old.mergeAreaMembers st e o = some (st', ids', p') ∧
      viewIds st' ids' ≠ viewIds st o.ids ∧
      (∃ st'' ids'' p'', mergeAreaMembers st e o = some (st'', ids'', p'') ∧
        viewIds st'' ids'' = viewIds st o.ids) := by
  refine ⟨_, _, _, rfl, by decide, _, _, _, rfl, by decide⟩

end B6.Props.C38
