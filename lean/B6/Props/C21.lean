/-! C21 — property theorems (stub: nothing proved yet). -/
