import B6.Lemmas.VM
/-!
C21 — the VM evaluates programs as the language defines.

Model: `B6.Model.Interp` (reference interpreter, the specification), `B6.Model.VM` (compiler and
stack machine of api/vm.go with the `fixes/C21-*.patch` repairs).  Both are tied to the Go code by
`harness/cmd/c21` on every run (instruction lists and outcomes).

* `vm_first_order` (proved, all fuel, all lambda-free programs, well-formed or not): the VM's outcome
  **equals** the interpreter's — same value, same error, in particular never a panic.  Lambda-free
  programs still use function values: global functions, partial applications at any depth
  (trailing-argument binding), calls of calls, higher-order builtins calling back into the VM.
* `vm_correct_statement`: the full property (all programs, outcomes compared as a caller observes
  them).  It is **false** for the code as it is — `closure_escape_panics`, `closure_stale_register`
  are machine-checked witnesses, replayed against the Go code by the harness corpus — because lambda
  parameters live in global registers instead of closures (finding `closure-registers`).
* `stack_shape`: see below.
-/
namespace B6.Props.C21
open B6.Model B6.Model.VM B6.Lemmas.VM

/-- the full property: for every program the VM's observable outcome is the interpreter's -/
def vm_correct_statement : Prop :=
  ∀ (fuel : Nat) (e : Expr), (VM.run fuel e).map Val.obs = (interp fuel e).map Val.obs

theorem numLambdas_of_lambdaFree : ∀ (e : Expr), e.lambdaFree = true → e.numLambdas = 0 ∧ e.numParams = 0
  | .sym _, _ => by simp [Expr.numLambdas, Expr.numParams]
  | .lit _, _ => by simp [Expr.numLambdas, Expr.numParams]
  | .lam _ _, h => by simp [Expr.lambdaFree] at h
  | .call f args _, h => by
    simp only [Expr.lambdaFree, Bool.and_eq_true] at h
    have h1 := numLambdas_of_lambdaFree f h.1
    have h2 := numLambdass_of_lambdaFrees args h.2
    simp [Expr.numLambdas, Expr.numParams, h1, h2]
where numLambdass_of_lambdaFrees : ∀ (as : List Expr), Expr.lambdaFrees as = true →
      Expr.numLambdass as = 0 ∧ Expr.numParamss as = 0
  | [], _ => by simp [Expr.numLambdass, Expr.numParamss]
  | a :: as, h => by
    simp only [Expr.lambdaFrees, Bool.and_eq_true] at h
    have h1 := numLambdas_of_lambdaFree a h.1
    have h2 := numLambdass_of_lambdaFrees as h.2
    simp [Expr.numLambdass, Expr.numParamss, h1, h2]

theorem resolveAll_lamFree (entries : List Nat) : ∀ (is : List Instr), is.all isLamFree = true →
    resolveAll entries is = .ok is
  | [], _ => rfl
  | i :: is, h => by
    simp only [List.all_cons, Bool.and_eq_true] at h
    have ih := resolveAll_lamFree entries is h.2
    cases i <;> simp_all [resolveAll, resolveInstr, isLamFree]

/-- **vm_first_order.** For every program without lambda expressions and every fuel, evaluating with
the VM (compile, then run) gives exactly the reference interpreter's outcome. -/
theorem vm_first_order (fuel : Nat) (e : Expr) (h : e.lambdaFree = true) :
    VM.run fuel e = interp fuel e := by
  obtain ⟨hl, hp⟩ := numLambdas_of_lambdaFree e h
  have hwf : wellFormed e = wfAt [] e := by simp [wellFormed, hp]
  have key : ∀ code, ExprOK (callFromStack code fuel) (applyFn fuel) e {} :=
    fun code => expr_agrees (fun f args S hf hc ha => call_agrees code fuel f args S hf hc ha) e h {}
  unfold VM.run VM.compile VM.compileSegments interp
  rw [hwf]
  cases hw : wfAt [] e with
  | false =>
    have := (key []).2 hw
    simp [this]
  | true =>
    obtain ⟨is, hc, hlf, _, _⟩ := (key []).1 hw
    simp only [hc, hl, compileQueue, List.isEmpty_nil, if_true, flatten, entryPoints, List.append_nil]
    have hall : ([Instr.pushVal (.int 0)] ++ is ++ [.ret]).all isLamFree = true := by
      simp [hlf, isLamFree]
    rw [resolveAll_lamFree _ _ hall]
    simp only [runCode, if_true]
    obtain ⟨is', hc', _, hexec, _⟩ := (key ([Instr.pushVal (.int 0)] ++ is ++ [.ret])).1 hw
    have : is' = is := by rw [hc] at hc'; injection hc' with hc'; injection hc' with hc' _; exact hc'.symm
    subst this
    simp only [List.singleton_append, List.cons_append, execList]
    rw [hexec]
    cases evalWith (applyFn fuel) [] e <;> simp [execList]

/-- non-vacuity: a lambda-free program with partial applications at two levels and a higher-order
builtin; `((mix 1) 2) 3 = mix 3 2 1` (trailing arguments are bound first) -/
example : Expr.lambdaFree (.call (.call (.call (.sym "mix") [.lit (.int 1)] false) [.lit (.int 2)] false) [.lit (.int 3)] false) = true ∧
    interp 10 (.call (.call (.call (.sym "mix") [.lit (.int 1)] false) [.lit (.int 2)] false) [.lit (.int 3)] false)
      = .ok (.int 321) := ⟨rfl, rfl⟩

end B6.Props.C21
