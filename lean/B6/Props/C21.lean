import B6.Lemmas.VM
import B6.Lemmas.VMShape
import B6.Lemmas.VMLambda
import B6.Lemmas.VMLayoutAll
/-!
C21 — the VM evaluates programs as the language defines.

Model: `B6.Model.Interp` (reference interpreter, the specification), `B6.Model.VM` (compiler and
stack machine of api/vm.go with the `fixes/C21-*.patch` repairs).  Both are tied to the Go code by
`harness/cmd/c21` on every run (instruction lists and outcomes).

* `vm_first_order` (proved, all fuel, all lambda-free programs, well-formed or not): the VM's outcome
  **equals** the interpreter's — same value, same error, in particular never a panic.  Lambda-free
  programs still use function values: global functions, partial applications at any depth
  (trailing-argument binding), calls of calls, higher-order builtins calling back into the VM.
* `vm_lambda_partial` (proved, all fuel, all programs of the syntactic fragment `Expr.regSafe`): the
  VM's observable outcome is the interpreter's.  (`layoutOK_all`: the layout validation `VM.layoutOK`
  the simulation runs over holds for every program.)  `regSafe`: no lambda uses a parameter of an enclosing lambda, and no lambda reads
  an own parameter after a call that may run lambda code (lambda literal, computed function,
  `call1/call2/apply/force`).  Lambdas may be nested, shadow, be passed to higher-order builtins and to
  other lambdas, be returned and be partially applied.  The complement of `regSafe` is exactly the
  driver's input class of the finding `closure-registers`.  Both restrictions of `regSafe` are forced:
  `closure_stale_register` (enclosing parameter) and `reentrant_stale_register` (a lambda that receives
  itself: no enclosing parameter is used, yet the inner activation overwrites the outer one's register).
* `vm_correct_statement`: the full property (all programs, outcomes compared as a caller observes
  them).  It is **false** for the code as it is — `closure_escape_panics`, `closure_stale_register`
  are machine-checked witnesses, replayed against the Go code by the harness corpus — because lambda
  parameters live in global registers instead of closures (finding `closure-registers`).
* `stack_shape` (proved, all programs): the compiled code keeps a static stack discipline — taking
  every call to replace its frame and arguments by one result, no instruction of any target reaches
  below the frame it was entered with (no `index out of range` on `VM.Stack`), the main target ends
  with the result on top of the initial frame, every lambda target ends with exactly the result, and
  every register named by `Store`/`Load` is below `MaxArgs` (no `index out of range` on `VM.Args`).
  What is *not* proved for programs with lambdas: that the value found in a register is the right
  one (it is not, see above) — `OpLoad of invalid value` remains reachable.
-/
namespace B6.Props.C21
open B6.Model B6.Model.VM B6.Lemmas.VM B6.Lemmas.VMShape B6.Lemmas.VMLambda

/-- the full property: for every program the VM's observable outcome is the interpreter's -/
def vm_correct_statement : Prop :=
  ∀ (fuel : Nat) (e : Expr), (VM.run fuel e).map Val.obs = (interp fuel e).map Val.obs

theorem numLambdas_of_lambdaFree : ∀ (e : Expr), e.lambdaFree = true → e.numLambdas = 0 ∧ e.numParams = 0
  | .sym _, _ => by simp [Expr.numLambdas, Expr.numParams]
  | .lit _, _ => by simp [Expr.numLambdas, Expr.numParams]
  | .lam _ _, h => by simp [Expr.lambdaFree] at h
  | .call f args _, h => by
    simp only [Expr.lambdaFree, Bool.and_eq_true] at h
    have h1 := numLambdas_of_lambdaFree f h.1
    have h2 := numLambdass_of_lambdaFrees args h.2
    simp [Expr.numLambdas, Expr.numParams, h1, h2]
where numLambdass_of_lambdaFrees : ∀ (as : List Expr), Expr.lambdaFrees as = true →
      Expr.numLambdass as = 0 ∧ Expr.numParamss as = 0
  | [], _ => by simp [Expr.numLambdass, Expr.numParamss]
  | a :: as, h => by
    simp only [Expr.lambdaFrees, Bool.and_eq_true] at h
    have h1 := numLambdas_of_lambdaFree a h.1
    have h2 := numLambdass_of_lambdaFrees as h.2
    simp [Expr.numLambdass, Expr.numParamss, h1, h2]

theorem resolveAll_lamFree (entries : List Nat) : ∀ (is : List Instr), is.all isLamFree = true →
    resolveAll entries is = .ok is
  | [], _ => rfl
  | i :: is, h => by
    simp only [List.all_cons, Bool.and_eq_true] at h
    have ih := resolveAll_lamFree entries is h.2
    cases i <;> simp_all [resolveAll, resolveInstr, isLamFree]

/-- **vm_first_order.** For every program without lambda expressions and every fuel, evaluating with
the VM (compile, then run) gives exactly the reference interpreter's outcome. -/
theorem vm_first_order (fuel : Nat) (e : Expr) (h : e.lambdaFree = true) :
    VM.run fuel e = interp fuel e := by
  obtain ⟨hl, hp⟩ := numLambdas_of_lambdaFree e h
  have hwf : wellFormed e = wfAt [] e := by simp [wellFormed, hp]
  have key : ∀ code, ExprOK (callFromStack code fuel) (applyFn fuel) e {} :=
    fun code => expr_agrees (fun f args S hf hc ha => call_agrees code fuel f args S hf hc ha) e h {}
  unfold VM.run VM.compile VM.compileSegments interp
  rw [hwf]
  cases hw : wfAt [] e with
  | false =>
    have := (key []).2 hw
    simp [this]
  | true =>
    obtain ⟨is, hc, hlf, _, _⟩ := (key []).1 hw
    simp only [hc, compileQueue, flatten, entryPoints, List.append_nil]
    have hall : ([Instr.pushVal (.int 0)] ++ is ++ [Instr.ret]).all isLamFree = true := by
      simp [hlf, isLamFree]
    rw [resolveAll_lamFree _ _ hall]
    have hexec : ∀ code post S, execList (callFromStack code fuel) (is ++ post) ⟨S, []⟩ =
        match evalWith (applyFn fuel) [] e with
        | .ok v => execList (callFromStack code fuel) post ⟨v :: S, []⟩
        | .error err => .error err := by
      intro code post S
      obtain ⟨is', hc', _, hexec, _⟩ := (key code).1 hw
      have : is' = is := by rw [hc] at hc'; injection hc' with hc'; injection hc' with hc' _; exact hc'.symm
      subst this
      exact hexec post S
    simp only [runCode, List.cons_append, List.nil_append, execList]
    rw [hexec]
    cases evalWith (applyFn fuel) [] e <;> simp [execList]

/-- non-vacuity: a lambda-free program with partial applications at two levels and a higher-order
builtin; `((mix 1) 2) 3 = mix 3 2 1` (trailing arguments are bound first) -/
example : Expr.lambdaFree (.call (.call (.call (.sym "mix") [.lit (.int 1)] false) [.lit (.int 2)] false) [.lit (.int 3)] false) = true ∧
    interp 10 (.call (.call (.call (.sym "mix") [.lit (.int 1)] false) [.lit (.int 2)] false) [.lit (.int 3)] false)
      = .ok (.int 321) := ⟨rfl, rfl⟩


/-- `vm_lambda_partial` as first planned in DESIGN: programs whose lambdas never use a parameter of an
enclosing lambda.  It is **false** (`vm_lambda_partial_counterexample` below): a lambda that is passed
to itself re-enters its own registers.  The theorem proved is for `Expr.regSafe`, which adds the
condition that excludes this. -/
def vm_lambda_partial_statement : Prop :=
  ∀ (fuel : Nat) (e : Expr), e.hasOpenLambda = false →
    (VM.run fuel e).map Val.obs = (interp fuel e).map Val.obs

/-- The simulation, over a compiled array whose layout `VM.layoutOK` has validated (`layoutOK_all`
below shows that is every program). -/
theorem vm_lambda_validated (fuel : Nat) (e : Expr) (hs : e.regSafe = true) (hl : layoutOK e = true) :
    (VM.run fuel e).map Val.obs = (interp fuel e).map Val.obs := by
  unfold layoutOK at hl
  unfold VM.run interp
  cases hc : compile e with
  | error err =>
    rw [hc] at hl
    cases err <;> simp at hl
    simp [hl]
  | ok code =>
    rw [hc] at hl
    simp only [Bool.and_eq_true] at hl
    obtain ⟨hwf, hmm⟩ := hl
    simp only [hwf, if_true]
    unfold matchMain at hmm
    cases code with
    | nil => simp at hmm
    | cons i0 is =>
      cases i0 <;> (try (simp at hmm; done))
      rename_i v0
      simp only at hmm
      cases hme : matchExpr (.pushVal v0 :: is) [] e is with
      | none => rw [hme] at hmm; cases hmm
      | some tl =>
        rw [hme] at hmm
        have htl : ∃ tl', tl = .ret :: tl' := by
          cases tl with
          | nil => simp at hmm
          | cons i1 tl1 =>
            cases i1 <;> (try (simp at hmm; done))
            exact ⟨tl1, rfl⟩
        obtain ⟨tl', rfl⟩ := htl
        unfold Expr.regSafe at hs
        cases hsc : Expr.regScan [] [] false e with
        | none => simp [hsc] at hs
        | some d' =>
          obtain ⟨s1, s2⟩ := expr_sim (call_sim _ fuel) e [] [] [] [] false d' is (.ret :: tl') [v0] [] hsc hme
            (by intro s _ _; exact ⟨rfl, rfl⟩) (by intro _ s h; simp at h)
          simp only [runCode, execList]
          cases hev : evalWith (applyFn fuel) [] e with
          | error err => rw [s1 err hev]
          | ok v =>
            obtain ⟨v', regs', hv, _, hex⟩ := s2 v hev
            rw [hex]
            simp [execList, Except.map, VR_obs _ _ hv]

/-- **layoutOK_all.** For every program: `compilation.Compile` succeeds exactly when the program is
statically well-formed (bound symbols, no literal in function position, at most `MaxArgs` lambda
parameters) — otherwise it returns an `error`, it never panics — and the array it produces has the
layout of `VM.matchExpr`: `PushValue 0`, the main expression, `Return`, and every lambda reference
points at a target `Store r_{k-1} … Store r_0 ; body ; Discard ; Return` with distinct registers below
`MaxArgs` and the body compiled under the extended frame (the targets-queue argument:
`Lemmas/VMLayout`, `VMLayoutAll`). -/
theorem layoutOK_all (e : Expr) : layoutOK e = true := B6.Lemmas.VMLayout.layoutOK_all e

theorem layoutOK_of_wellFormed (e : Expr) (_ : wellFormed e = true) : layoutOK e = true := layoutOK_all e

/-- **vm_lambda_partial.** For every fuel and every program in the syntactic fragment `Expr.regSafe`
the VM's outcome is the reference interpreter's: the same error, or values with the same observation
(data structurally, functions by arity — the VM's `*lambdaCall` and the interpreter's closure are
different objects).  In particular no panic.  The only hypothesis is `regSafe`, whose complement is the
input class of the finding `closure-registers`. -/
theorem vm_lambda_partial (fuel : Nat) (e : Expr) (hs : e.regSafe = true) :
    (VM.run fuel e).map Val.obs = (interp fuel e).map Val.obs :=
  vm_lambda_validated fuel e hs (layoutOK_all e)

private def ii (n : Int) : Expr := .lit (.int n)
private def cc (f : Expr) (as : List Expr) : Expr := .call f as false

/-- `call1 ({a b -> sub a b} 1) ({f x -> call1 f (add x 1)} {y -> mix y y y} 2)`: a partially applied
lambda, a lambda passed to a lambda and called there through a higher-order builtin -/
def lambdaWitness : Expr :=
  cc (.sym "call1")
    [cc (.lam ["a", "b"] (cc (.sym "sub") [.sym "a", .sym "b"])) [ii 1],
     cc (.lam ["f", "x"] (cc (.sym "call1") [.sym "f", cc (.sym "add") [.sym "x", ii 1]]))
       [.lam ["y"] (cc (.sym "mix") [.sym "y", .sym "y", .sym "y"]), ii 2]]

/-- non-vacuity of `vm_lambda_partial`: its hypotheses hold for a program with three lambdas, and the
outcome is a proper value -/
example : lambdaWitness.regSafe = true ∧ layoutOK lambdaWitness = true ∧
    interp 50 lambdaWitness = .ok (.int 332) ∧ VM.run 50 lambdaWitness = .ok (.int 332) := ⟨rfl, rfl, rfl, rfl⟩

/-- a nested lambda that shadows instead of capturing is in the fragment: `{a -> {a -> add a 1}} 5 7` -/
example : Expr.regSafe (cc (cc (.lam ["a"] (.lam ["a"] (cc (.sym "add") [.sym "a", ii 1]))) [ii 5]) [ii 7]) = true ∧
    layoutOK (cc (cc (.lam ["a"] (.lam ["a"] (cc (.sym "add") [.sym "a", ii 1]))) [ii 5]) [ii 7]) = true := ⟨rfl, rfl⟩

/-- `{f -> call2 f f 1} {g y -> add (call2 g {a b -> b} (add y 1)) y}`: no lambda uses a parameter of an
enclosing lambda, but `g` is the second lambda itself -/
def reentrantWitness : Expr :=
  cc (.lam ["f"] (cc (.sym "call2") [.sym "f", .sym "f", ii 1]))
    [.lam ["g", "y"] (cc (.sym "add")
      [cc (.sym "call2") [.sym "g", .lam ["a", "b"] (.sym "b"), cc (.sym "add") [.sym "y", ii 1]], .sym "y"])]

/-- A lambda that is called while one of its own activations is still running overwrites that
activation's registers: the outer activation reads `y` after the inner call and finds 2 instead of 1.
The VM answers 7, the language says 6 (reproduced on the Go code: harness corpus). -/
theorem reentrant_stale_register :
    VM.run 50 reentrantWitness = .ok (.int 7) ∧ interp 50 reentrantWitness = .ok (.int 6) ∧
    reentrantWitness.hasOpenLambda = false ∧ reentrantWitness.regSafe = false := ⟨rfl, rfl, rfl, rfl⟩

theorem vm_lambda_partial_counterexample : ¬ vm_lambda_partial_statement := by
  intro h
  have := h 50 reentrantWitness rfl
  rw [reentrant_stale_register.1, reentrant_stale_register.2.1] at this
  simp [Except.map, Val.obs] at this

/-! ### the property fails for closures (finding `closure-registers`) -/

private def i (n : Int) : Expr := .lit (.int n)
private def c (f : Expr) (as : List Expr) : Expr := .call f as false

/-- `((({a b -> {c -> add a c}}) 1) 2) 3` -/
def escapeWitness : Expr :=
  c (c (c (.lam ["a", "b"] (.lam ["c"] (c (.sym "add") [.sym "a", .sym "c"]))) [i 1]) [i 2]) [i 3]

/-- `{mk -> call1 (first (pair (call1 mk 1) (call1 mk 2))) 10} {a -> {b -> sub a b}}` -/
def staleWitness : Expr :=
  c (.lam ["mk"] (c (.sym "call1")
      [c (.sym "first") [c (.sym "pair") [c (.sym "call1") [.sym "mk", i 1], c (.sym "call1") [.sym "mk", i 2]]], i 10]))
    [.lam ["a"] (.lam ["b"] (c (.sym "sub") [.sym "a", .sym "b"]))]

/-- A closure returned by a partially applied lambda is called after `partialCall.CallFromStack`
restored `vm.Args`: the VM panics (`OpLoad of invalid value`), the language says 5. -/
theorem closure_escape_panics :
    VM.run 50 escapeWitness = .error .panic ∧ interp 50 escapeWitness = .ok (.int 5) := ⟨rfl, rfl⟩

/-- Two closures made by the same lambda share its register: the first one sees the second call's
argument. The VM answers 2 - 10, the language says 1 - 10. -/
theorem closure_stale_register :
    VM.run 50 staleWitness = .ok (.int (-8)) ∧ interp 50 staleWitness = .ok (.int (-9)) := ⟨rfl, rfl⟩

theorem vm_correct_counterexample : ¬ vm_correct_statement := by
  intro h
  have := h 50 staleWitness
  rw [closure_stale_register.1, closure_stale_register.2] at this
  simp [Except.map, Val.obs] at this

/-- both witnesses are in the class the driver reports as the known finding -/
example : escapeWitness.regSafe = false ∧ staleWitness.regSafe = false ∧
    escapeWitness.hasOpenLambda = true ∧ staleWitness.hasOpenLambda = true := ⟨rfl, rfl, rfl, rfl⟩

/-! ### stack_shape -/

/-- **stack_shape.** Whatever the program, if it compiles, then: the main target, entered on the
empty stack, never underflows and ends with two entries (the initial frame and the result); every
lambda target, entered with its arguments and the call frame, never underflows and ends with exactly
one entry; and every `Store`/`Load` names a register below `MaxArgs`. -/
theorem stack_shape (e : Expr) (segs : List Segment) (h : compileSegments e = .ok segs) :
    ∃ main rest, segs = main :: rest ∧
      depth main.2 0 = some 2 ∧ main.2.all (regOK maxArgs) = true ∧
      ∀ s ∈ rest, depth s.2 (s.1 + 1) = some 1 ∧ s.2.all (regOK maxArgs) = true := by
  unfold compileSegments at h
  cases hc : compileExpr [] e {} with
  | error err => simp [hc] at h
  | ok r =>
    obtain ⟨is, st⟩ := r
    simp only [hc] at h
    have sb := compileExpr_shape e [] {} is st hc (by intro p hp; cases hp) ⟨by simp [maxArgs], by intro t ht; cases ht⟩
    cases hq : compileQueue (e.numLambdas + 1) st with
    | error err => simp [hq] at h
    | ok rest =>
      simp only [hq] at h
      injection h with h; subst h
      refine ⟨_, rest, rfl, ?_, ?_, fun s hs => compileQueue_shape _ st rest hq sb.inv s hs⟩
      · simp only [List.cons_append, List.nil_append, depth]
        rw [depth_append _ _ _ sb.noret, sb.depth]
        simp [depth]
      · simp only [List.all_append, List.all_cons, List.all_nil, Bool.and_true, regOK, Bool.true_and]
        exact regOK_mono sb.inv.1 _ sb.regs

/-- the compiled array is these targets laid end to end, lambda references resolved to entry points -/
theorem compile_eq_segments (e : Expr) (segs : List Segment) (h : compileSegments e = .ok segs) :
    compile e = resolveAll (entryPoints 0 segs) (flatten segs) := by
  simp [compile, h]

/-- non-vacuity of `stack_shape`: a program with nested lambdas and a partial application compiles to
three targets -/
example : (compileSegments staleWitness).map (fun segs => segs.map (·.1)) = .ok [0, 1, 1, 1] := rfl

end B6.Props.C21
