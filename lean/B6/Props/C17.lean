/-! C17 — property theorems (stub: nothing proved yet). -/
