import B6.Lemmas.Merged
/-!
# C17 — worlds merged from several index files act as one world

Theorems about `B6.Model.Merged` (the model of `compact.World.Merge`, `findWithoutCache`,
`hasFeatureWithID`, `FindLocationByID`, `World.FindFeatures` / `b6.MergeFeatures`), for **any number of
files**, any namespace tables (shared or different per file), any merge order:

* `merged_lookup` — a lookup in the merged world is the first hit over the files in merge order;
  `merged_lookup_from_any_file` — a feature held by any file is found; `merged_lookup_union` — when the
  files agree about an id (in particular when their id sets are disjoint) the merged world answers exactly
  like any single index that holds the same features; `merged_lookup_order_irrelevant` — and the order in
  which the files were merged does not matter (`ReadWorld` merges concurrently).
* `has_eq_find` — `FeaturesByID.HasFeatureWithID` (as repaired) agrees with the lookup;
  `has_first_block_counterexample` — the function as first written does not.
* `merged_search` — the merged search result is strictly ascending (id order, no duplicates) and has exactly
  the members of the per-index streams; `merged_search_union` — it equals the stream of any single index
  that yields the union; `merged_search_order_irrelevant`.
* `overlay_path_resolves` — the points of a path resolve through whatever file stores their location: an
  overlay file that only carries references-only entries for base points never hides a base location,
  wherever it sits in the merge order; `overlay_path_no_panic`.

What is *not* proved here: that each file's blocks / index are what the builder should have written for its
features (C01 / C03 / C08); the driver checks the hypotheses (`Sorted` streams) on the data it sees.
-/
namespace B6.Props.C17
open B6.Model.Merged B6.Lemmas.Merged

variable {α β κ : Type}

theorem mergeBlocks_cons (f : File α β κ) (fs : List (File α β κ)) :
    mergeBlocks (f :: fs) = f.blocks ++ mergeBlocks fs := by
  simp [mergeBlocks]

theorem mem_mergeBlocks {fs : List (File α β κ)} {b : Block α β} :
    b ∈ mergeBlocks fs ↔ ∃ f ∈ fs, b ∈ f.blocks := by
  simp [mergeBlocks, List.mem_flatMap]

/-! ## Lookups -/

/-- `find (merge [ix₁ … ixₙ]) id` = the first hit in file order. -/
theorem merged_lookup (fs : List (File α β κ)) (id : ID) :
    find (mergeBlocks fs) id = (fs.map (fun f => find f.blocks id)).foldr Option.or none := by
  unfold find
  split
  · induction fs with
    | nil => simp [mergeBlocks, findIn]
    | cons f fs ih => rw [mergeBlocks_cons, findIn_append, ih]; simp
  · induction fs with
    | nil => simp
    | cons f fs ih => simp [← ih]

example : find (mergeBlocks
    [ (⟨[0, 5], [⟨0, [1, 1, 1, 1], [0, 5], [⟨1, .full, "a", some "x", []⟩]⟩], fun _ => []⟩ : File String String Unit),
      ⟨[0, 5, 7], [⟨0, [1, 1, 1, 1], [0, 5, 7], [⟨2, .full, "b", some "y", []⟩]⟩], fun _ => []⟩ ]) ⟨0, 5, 2⟩
    = some "b" := by decide

/-- Lookups find features from any file: whatever a file holds is found in the merged world. -/
theorem merged_lookup_from_any_file (fs : List (File α β κ)) (id : ID) (c : α)
    (ht : id.typ < numTypes) (h : ∃ f ∈ fs, ∃ b ∈ f.blocks, Holds b id c) :
    ∃ c', find (mergeBlocks fs) id = some c' := by
  obtain ⟨f, hf, b, hb, hh⟩ := h
  unfold find
  rw [if_pos ht]
  exact findIn_complete ⟨b, mem_mergeBlocks.2 ⟨f, hf, hb⟩, hh⟩

/-- … and whatever the merged world answers is held by one of the files. -/
theorem merged_lookup_sound (fs : List (File α β κ)) (id : ID) (c : α)
    (h : find (mergeBlocks fs) id = some c) : ∃ f ∈ fs, ∃ b ∈ f.blocks, Holds b id c := by
  unfold find at h
  split at h
  · obtain ⟨b, hb, hh⟩ := findIn_sound h
    obtain ⟨f, hf, hbf⟩ := mem_mergeBlocks.1 hb
    exact ⟨f, hf, b, hbf, hh⟩
  · simp at h

/-- When the blocks agree about `id` (e.g. the files' id sets are disjoint), the merged world answers like
**any** world `u` — in particular the single index built from the union — that holds the same features. -/
theorem merged_lookup_union (w u : List (Block α β)) (id : ID) (hw : Agree w id)
    (hsame : ∀ c, (∃ b ∈ u, Holds b id c) ↔ (∃ b ∈ w, Holds b id c)) :
    find u id = find w id := by
  unfold find
  split
  · cases hfw : findIn w id with
    | some c =>
      obtain ⟨c', hc'⟩ := findIn_complete ((hsame c).2 (findIn_sound hfw))
      obtain ⟨b1, hb1, h1⟩ := (hsame c').1 (findIn_sound hc')
      obtain ⟨b2, hb2, h2⟩ := findIn_sound hfw
      rw [hc', hw b1 hb1 b2 hb2 c' c h1 h2]
    | none =>
      cases hfu : findIn u id with
      | none => rfl
      | some c' =>
        obtain ⟨c'', hc''⟩ := findIn_complete ((hsame c').1 (findIn_sound hfu))
        rw [hfw] at hc''; simp at hc''
  · rfl

/-- The order in which the files are merged does not matter when they agree about the id. -/
theorem merged_lookup_order_irrelevant (fs fs' : List (File α β κ)) (id : ID) (hp : fs.Perm fs')
    (hw : Agree (mergeBlocks fs) id) : find (mergeBlocks fs') id = find (mergeBlocks fs) id := by
  apply merged_lookup_union _ _ _ hw
  intro c
  constructor
  · rintro ⟨b, hb, hh⟩
    obtain ⟨f, hf, hbf⟩ := mem_mergeBlocks.1 hb
    exact ⟨b, mem_mergeBlocks.2 ⟨f, hp.mem_iff.2 hf, hbf⟩, hh⟩
  · rintro ⟨b, hb, hh⟩
    obtain ⟨f, hf, hbf⟩ := mem_mergeBlocks.1 hb
    exact ⟨b, mem_mergeBlocks.2 ⟨f, hp.mem_iff.1 hf, hbf⟩, hh⟩

/-- `FeaturesByID.HasFeatureWithID` (repaired: every matching block, references-only entries are not
features) says exactly whether the lookup succeeds. -/
theorem has_eq_find (w : List (Block α β)) (id : ID) : hasByID w id = (find w id).isSome := by
  unfold hasByID find
  split
  · exact hasIn_eq w id
  · rfl

/-- `hasFeatureWithID` as first written returned the answer of the first block whose namespace matched:
one namespace split over two files, the id in the second — found, yet reported absent. -/
theorem has_first_block_counterexample :
    ∃ (w : List (Block Nat Nat)) (id : ID), find w id ≠ none ∧ hasFirstBlock w id = false :=
  ⟨[⟨0, [1, 1, 1, 1], [0, 5], [⟨1, .full, 10, some 100, []⟩]⟩,
    ⟨0, [1, 1, 1, 1], [0, 5], [⟨2, .full, 20, some 200, []⟩]⟩], ⟨0, 5, 2⟩, by decide⟩

/-- … and it reported a references-only entry (a point some path mentions, stored elsewhere or nowhere)
as a feature. -/
theorem has_first_block_refonly_counterexample :
    ∃ (w : List (Block Nat Nat)) (id : ID), find w id = none ∧ hasFirstBlock w id = true :=
  ⟨[⟨0, [1, 1, 1, 1], [0, 5], [⟨1, .refOnly, 0, none, []⟩]⟩], ⟨0, 5, 1⟩, by decide⟩

/-! ## Searches -/

/-- Searches merge the per-index results in id order without duplicates: for any number of files whose
index streams are ascending, the merged result is strictly ascending and contains exactly the ids some
index yields. -/
theorem merged_search (fs : List (File α β κ)) (q : κ) (hs : ∀ f ∈ fs, Sorted (f.index q)) :
    StrictSorted (search fs q) ∧ ∀ x, x ∈ search fs q ↔ ∃ f ∈ fs, x ∈ f.index q := by
  have hs' : ∀ c ∈ fs.map (·.index q), Sorted c := by
    intro c hc
    obtain ⟨f, hf, rfl⟩ := List.mem_map.1 hc
    exact hs f hf
  obtain ⟨h1, h2⟩ := merged_spec (fs.map (·.index q)) hs'
  refine ⟨h1, fun x => ?_⟩
  unfold search
  rw [h2]
  constructor
  · rintro ⟨c, hc, hx⟩
    obtain ⟨f, hf, rfl⟩ := List.mem_map.1 hc
    exact ⟨f, hf, hx⟩
  · rintro ⟨f, hf, hx⟩
    exact ⟨f.index q, List.mem_map.2 ⟨f, hf, rfl⟩, hx⟩

example : search
    [ (⟨[], [], fun _ => [⟨0, 1, 1⟩, ⟨0, 1, 4⟩, ⟨1, 2, 1⟩]⟩ : File Unit Unit Unit),
      ⟨[], [], fun _ => [⟨0, 1, 2⟩, ⟨0, 1, 4⟩]⟩, ⟨[], [], fun _ => []⟩, ⟨[], [], fun _ => [⟨0, 0, 9⟩, ⟨1, 2, 1⟩]⟩ ] ()
    = [⟨0, 0, 9⟩, ⟨0, 1, 1⟩, ⟨0, 1, 2⟩, ⟨0, 1, 4⟩, ⟨1, 2, 1⟩] := by decide

/-- The merged result is the result of any single index `u` that yields, strictly ascending, the union of
what the files' indices yield — the one-file build of the union. -/
theorem merged_search_union (fs : List (File α β κ)) (q : κ) (hs : ∀ f ∈ fs, Sorted (f.index q))
    (u : List ID) (hu : StrictSorted u) (hsame : ∀ x, x ∈ u ↔ ∃ f ∈ fs, x ∈ f.index q) :
    search fs q = u := by
  obtain ⟨h1, h2⟩ := merged_search fs q hs
  exact StrictSorted.ext h1 hu (fun x => by rw [h2, hsame])

/-- The order in which the files were merged does not change a search result. -/
theorem merged_search_order_irrelevant (fs fs' : List (File α β κ)) (q : κ) (hp : fs.Perm fs')
    (hs : ∀ f ∈ fs, Sorted (f.index q)) : search fs' q = search fs q := by
  have hs' : ∀ f ∈ fs', Sorted (f.index q) := fun f hf => hs f (hp.mem_iff.2 hf)
  obtain ⟨h1, h2⟩ := merged_search fs q hs
  obtain ⟨h1', h2'⟩ := merged_search fs' q hs'
  apply StrictSorted.ext h1' h1
  intro x
  rw [h2, h2']
  constructor
  · rintro ⟨f, hf, hx⟩; exact ⟨f, hp.mem_iff.2 hf, hx⟩
  · rintro ⟨f, hf, hx⟩; exact ⟨f, hp.mem_iff.1 hf, hx⟩

/-! ## Overlay paths -/

/-- Blocks that store no location for any of the referenced points — an overlay file, which carries only
references-only entries for the base points its paths run over — never change how a path resolves,
wherever they sit in the merge order. -/
theorem overlay_path_resolves (pre o post : List (Block α β)) (refs : List ID)
    (ho : ∀ r ∈ refs, ∀ b ∈ o, ∀ l, ¬ Locates b r l) :
    pathPoints (pre ++ o ++ post) refs = pathPoints (pre ++ post) refs := by
  unfold pathPoints
  apply mapM_loc_congr
  intro r hr
  have hn : loc o r = none := loc_eq_none_iff.2 (ho r hr)
  rw [List.append_assoc, loc_append, loc_append, loc_append, hn]
  simp

/-- A references-only entry stores no location. -/
theorem refOnly_not_located (b : Block α β) (id : ID)
    (h : ∀ e, b.findFirst id.val = some e → e.kind = .refOnly) (l : β) : ¬ Locates b id l := by
  rintro ⟨_, e, he, hr, _⟩
  have := h e he
  simp [Entry.real, this] at hr

/-- If every point a path references has its location stored by some merged block (of the base, of the
overlay itself, in whatever order they were merged), resolving the path does not panic and yields one
location per reference. -/
theorem overlay_path_no_panic (w : List (Block α β)) (refs : List ID)
    (h : ∀ r ∈ refs, ∃ b ∈ w, ∃ l, Locates b r l) :
    ∃ ls, pathPoints w refs = some ls ∧ ls.length = refs.length := by
  unfold pathPoints
  apply mapM_loc_some
  intro r hr
  obtain ⟨b, hb, l, hl⟩ := h r hr
  exact loc_complete ⟨b, hb, hl⟩

/-- overlay merged *before* its base: the path 42 over base points 1 and 3 resolves to the base's locations -/
example : pathPoints
    ([ (⟨0, [1, 2, 2, 3], [0, 1, 2, 3], [⟨1, .refOnly, "", none, [⟨1, 2, 42⟩]⟩, ⟨3, .refOnly, "", none, [⟨1, 2, 42⟩]⟩]⟩ : Block String String) ] ++
     [ ⟨0, [1, 2, 2, 3], [0, 1, 2, 3], [⟨1, .full, "p1", some "A", []⟩, ⟨2, .full, "p2", some "B", []⟩, ⟨3, .full, "p3", some "C", []⟩]⟩ ])
    [⟨0, 1, 1⟩, ⟨0, 1, 3⟩] = some ["A", "C"] := by decide

/-! ## Paths through a point, across files -/

/-- `FindReferences(p, path)` on the merged world: exactly the paths that *some* merged block records against
the point — the point's own file, or an overlay's references-only entry for a base point, in any merge
order — and that exist in the merged world; each once. -/
theorem paths_by_point_any_file (w : List (Block α β)) (p q : ID) (hp : p.typ = 0) :
    q ∈ pathRefs w p ↔ (∃ b ∈ w, Lists b p q) ∧ (find w q).isSome = true := by
  unfold pathRefs
  rw [if_pos hp, List.mem_filter, mem_pathsByPoint]
  simp

theorem paths_by_point_nodup (w : List (Block α β)) (p : ID) : (pathRefs w p).Nodup := by
  unfold pathRefs
  split
  · exact (nodup_pathsByPoint w [] (by simp)).filter _
  · simp

/-- the overlay path 42 is found from base point 1, with the overlay merged before its base -/
example : pathRefs
    ([ (⟨0, [1, 2, 2, 3], [0, 1, 2, 3], [⟨1, .refOnly, "", none, [⟨1, 2, 42⟩]⟩]⟩ : Block String String),
       ⟨1, [1, 2, 2, 3], [0, 1, 2, 3], [⟨42, .plain, "w42", none, []⟩]⟩ ] ++
     [ ⟨0, [1, 2, 2, 3], [0, 1, 2, 3], [⟨1, .common, "p1", some "A", [⟨1, 2, 7⟩]⟩]⟩,
       ⟨1, [1, 2, 2, 3], [0, 1, 2, 3], [⟨7, .plain, "w7", none, []⟩]⟩ ])
    ⟨0, 1, 1⟩ = [⟨1, 2, 42⟩, ⟨1, 2, 7⟩] := by decide

/-! ## EachFeature -/

/-- `EachFeature` over the merged world lists exactly the ids the lookup finds, whatever file they came
from (blocks with duplicate-free tables and one entry per value). -/
theorem each_agrees_with_lookup (w : List (Block α β)) (ids : List ID) (h : each w = some ids)
    (hwf : ∀ b ∈ w, WFBlock b) (id : ID) : id ∈ ids ↔ (find w id).isSome = true := by
  rw [mem_each h]
  constructor
  · rintro ⟨b, hb, hlt, he⟩
    obtain ⟨c, hc⟩ := holds_of_emits (hwf b hb) he
    obtain ⟨c', hc'⟩ := findIn_complete ⟨b, hb, hc⟩
    have ht : id.typ < numTypes := by rw [he.1]; exact hlt
    simp [find, ht, hc']
  · intro hf
    unfold find at hf
    split at hf
    · rename_i ht
      cases hfi : findIn w id with
      | none => simp [hfi] at hf
      | some c =>
        obtain ⟨b, hb, hh⟩ := findIn_sound hfi
        have he := emits_of_holds hh
        exact ⟨b, hb, by rw [← he.1]; exact ht, he⟩
    · simp at hf

example : each
    [ (⟨0, [1, 2, 2, 3], [0, 1, 2, 3], [⟨1, .refOnly, "", none, []⟩, ⟨4, .full, "p4", some "D", []⟩]⟩ : Block String String),
      ⟨1, [1, 2, 2, 3], [0, 1, 2, 3], [⟨42, .plain, "w42", none, []⟩]⟩,
      ⟨0, [1, 2, 2, 3], [0, 1, 2, 3], [⟨1, .common, "p1", some "A", []⟩]⟩ ]
    = some [⟨0, 1, 4⟩, ⟨0, 1, 1⟩, ⟨1, 2, 42⟩] := by decide

/-! ## `NewWorldWithBase` chains -/

/-- A world whose base is another world (`NewWorldWithBase`: `findWithoutCache` falls through to
`f.base.FindFeatureByID`) answers lookups like one world holding its own blocks followed by the base's. -/
theorem chain_lookup (top base : List (Block α β)) (id : ID) :
    find (top ++ base) id = (find top id).or (find base id) := by
  unfold find
  split
  · exact findIn_append top base id
  · rfl

/-- … and locations likewise (`FindLocationByID` falls through to `f.base.FindLocationByID`). -/
theorem chain_location (top base : List (Block α β)) (id : ID) :
    loc (top ++ base) id = (loc top id).or (loc base id) := loc_append top base id

/-! ## The class of finding `cross-file-referrer` -/

/-- What the driver's class predicate says: the merged answer `m` only lacks referrers of the union's answer
`u`, and each referrer it lacks shares no file with the feature asked about. -/
theorem crossFileOnly_spec (fs : List (File α β κ)) (id : ID) (m u : List ID)
    (h : crossFileOnly fs id m u = true) :
    (∀ x ∈ m, x ∈ u) ∧ ∀ x ∈ u, x ∉ m → sameFile fs x id = false := by
  unfold crossFileOnly at h
  simp only [Bool.and_eq_true, List.all_eq_true, List.mem_filter, Bool.not_eq_true', and_imp] at h
  refine ⟨fun x hx => by simpa using h.1 x hx, fun x hx hnm => ?_⟩
  exact h.2 x hx (by simpa using hnm)

end B6.Props.C17
