import B6.Model.WireExpr
/-!
# C19 — Expressions survive the client/server wire format

Theorems about `B6.Model.WireExpr` (model of `Expression.ToProto` / `ExpressionFromProto`,
`Query.ToProto` / `NewQueryFromProto`).

`supported` is the executable predicate (the driver runs the same function) that says which expression
trees the round trip is claimed for: every constructor except the ones `ExpressionFromProto` /
`NewQueryFromProto` have no (working) case for — the nil literal (comes back as an `Expression` with a nil
`AnyExpression`), GeoJSON and feature literals (error), the queries `Empty`,
`IsValid`, `IntersectsCells`, `MightIntersect` (error) — tag / tagged values that are not strings (only
their `String()` travels), collection literals holding a query (`FromLiteral` has no case), and positions
outside `int32`.  None of the excluded shapes can be produced by the Python client (it sends calls,
lambdas, symbols, int / float / string / feature-ID / path / area / query literals, and only queries the
server could itself read); they are recorded below as counterexamples to the unrestricted statement.
-/
namespace B6.Props.C19
open B6.Model.WireExpr B6.Model.FeatureID

/-! ## leaves -/

theorem wid_roundtrip (f : WID) : f.toProto.fromProto = some f := by
  obtain ⟨t, ns, v⟩ := f
  cases t <;> rfl

theorem steps_roundtrip (l : List Step) :
    stepsFromProto (l.map fun s => ⟨s.destination.toProto, s.via.toProto, s.cost⟩) = some l := by
  induction l with
  | nil => rfl
  | cons s rest ih => simp [stepsFromProto, wid_roundtrip, ih]

theorem route_roundtrip (r : Route) : r.toProto.fromProto = some r := by
  obtain ⟨o, steps⟩ := r
  simp [Route.toProto, RouteP.fromProto, wid_roundtrip, steps_roundtrip]

theorem ftype_roundtrip (t : FType) : ftypeFromProto t.toProto = some t := by cases t <;> rfl

theorem toInt32_id (x : Int) (h : inInt32 x = true) : toInt32 x = x := by
  simp only [inInt32, Bool.and_eq_true, decide_eq_true_eq] at h
  unfold toInt32
  omega

/-! ## queries -/

variable (cv : Nat → Nat)

mutual
theorem query_roundtrip : ∀ (q : Query), Query.supported q = true → q.capStable cv = true →
    q.toProto.fromProto cv = .ok q
  | .all, _, _ => rfl
  | .keyed _, _, _ => rfl
  | .tagged k v, h, _ => by
    cases v with
    | str s => rfl
    | other r => simp [Query.supported, TagVal.isStr] at h
  | .typed t q, h, hc => by
    simp only [Query.supported] at h
    simp only [Query.capStable] at hc
    simp only [Query.toProto, QueryP.fromProto, query_roundtrip q h hc, ftype_roundtrip]
  | .inter qs, h, hc => by
    simp only [Query.supported] at h
    simp only [Query.capStable] at hc
    simp only [Query.toProto, QueryP.fromProto, queryList_roundtrip qs h hc, R.ok_bind]
  | .union qs, h, hc => by
    simp only [Query.supported] at h
    simp only [Query.capStable] at hc
    simp only [Query.toProto, QueryP.fromProto, queryList_roundtrip qs h hc, R.ok_bind]
  | .cap c r, _, hc => by
    simp only [Query.capStable, beq_iff_eq] at hc
    simp only [Query.toProto, QueryP.fromProto, hc]
  | .feature id, _, _ => by simp only [Query.toProto, QueryP.fromProto, wid_roundtrip]
  | .point _, _, _ => rfl
  | .polyline _, _, _ => rfl
  | .multipolygon _, _, _ => rfl
  | .empty, h, _ => by simp [Query.supported] at h
  | .isValid, h, _ => by simp [Query.supported] at h
  | .cells _, h, _ => by simp [Query.supported] at h
  | .might _, h, _ => by simp [Query.supported] at h
theorem queryList_roundtrip : ∀ (qs : QueryList), QueryList.supported qs = true →
    qs.capStable cv = true → qs.toProto.fromProto cv = .ok qs
  | .nil, _, _ => rfl
  | .cons q qs, h, hc => by
    simp only [QueryList.supported, Bool.and_eq_true] at h
    simp only [QueryList.capStable, Bool.and_eq_true] at hc
    simp only [QueryList.toProto, QueryPList.fromProto, query_roundtrip q h.1 hc.1,
      queryList_roundtrip qs h.2 hc.2, R.ok_bind]
end

/-! ## expressions -/

/-- a collection element's own `ToProto` result is a literal node other than the nil literal, and
`FromLiteral` accepts it -/
theorem elem_shape (a : Any) (h : Any.isElem a = true) (k : KindP) (hk : a.toProto = .ok k) :
    ∃ l, k = .literal l ∧ a.elemToProto (.ok k) = .ok l ∧ ∀ r, l.elemFromProto r = r := by
  cases a <;> simp only [Any.isElem, Bool.false_eq_true] at h
  all_goals first
    | (simp only [Any.toProto, R.ok.injEq] at hk
       subst hk
       exact ⟨_, rfl, rfl, fun _ => rfl⟩)
    | skip
  -- the nested collection
  rename_i items
  simp only [Any.toProto] at hk
  cases hi : items.toProto with
  | ok ps =>
    simp only [hi, R.ok_bind, R.ok.injEq] at hk
    subst hk
    exact ⟨_, rfl, rfl, fun _ => rfl⟩
  | err => simp [hi] at hk
  | panic => simp [hi] at hk

mutual
theorem any_roundtrip : ∀ (a : Any), a.supported = true → a.capStable cv = true →
    ∃ k, a.toProto = .ok k ∧ k.fromProto cv = .ok a
  | .symbol _, _, _ => ⟨_, rfl, rfl⟩
  | .int _, _, _ => ⟨_, rfl, rfl⟩
  | .float _, _, _ => ⟨_, rfl, rfl⟩
  | .bool _, _, _ => ⟨_, rfl, rfl⟩
  | .str _, _, _ => ⟨_, rfl, rfl⟩
  | .id f, _, _ => ⟨_, rfl, by simp only [KindP.fromProto, LitP.fromProto, wid_roundtrip]⟩
  | .tag k v, h, _ => by
    cases v with
    | str s => exact ⟨_, rfl, rfl⟩
    | other r => simp [Any.supported, TagVal.isStr] at h
  | .point _, _, _ => ⟨_, rfl, rfl⟩
  | .path _, _, _ => ⟨_, rfl, rfl⟩
  | .area _, _, _ => ⟨_, rfl, rfl⟩
  | .query q, h, hc => by
    simp only [Any.supported] at h
    simp only [Any.capStable] at hc
    exact ⟨_, rfl, by simp only [KindP.fromProto, LitP.fromProto, query_roundtrip cv q h hc, R.ok_bind]⟩
  | .route r, _, _ => ⟨_, rfl, by simp only [KindP.fromProto, LitP.fromProto, route_roundtrip]⟩
  | .coll items, h, hc => by
    simp only [Any.supported] at h
    simp only [Any.capStable] at hc
    obtain ⟨ps, h1, h2⟩ := pairList_roundtrip items h hc
    refine ⟨.literal (.collV ps 0 0), by simp only [Any.toProto, h1, R.ok_bind], ?_⟩
    simp [KindP.fromProto, LitP.fromProto, h2]
  | .call f args p, h, hc => by
    simp only [Any.supported, Bool.and_eq_true] at h
    simp only [Any.capStable, Bool.and_eq_true] at hc
    obtain ⟨fp, f1, f2⟩ := expr_roundtrip f h.1 hc.1
    obtain ⟨ap, a1, a2⟩ := exprList_roundtrip args h.2 hc.2
    exact ⟨.call fp ap p, by simp only [Any.toProto, a1, f1, R.ok_bind],
      by simp only [KindP.fromProto, f2, a2, R.ok_bind]⟩
  | .lambda params body, h, hc => by
    simp only [Any.supported] at h
    simp only [Any.capStable] at hc
    obtain ⟨bp, b1, b2⟩ := expr_roundtrip body h hc
    exact ⟨.lambda params bp, by simp only [Any.toProto, b1, R.ok_bind],
      by simp only [KindP.fromProto, b2, R.ok_bind]⟩
  | .absent, h, _ => by simp [Any.supported] at h
  | .nilLit, h, _ => by simp [Any.supported] at h
  | .geojson _, h, _ => by simp [Any.supported] at h
  | .feature, h, _ => by simp [Any.supported] at h
theorem expr_roundtrip : ∀ (e : Expr), e.supported = true → e.capStable cv = true →
    ∃ p, e.toProto = .ok p ∧ p.fromProto cv = .ok e
  | .mk a name b e, h, hc => by
    simp only [Expr.supported, Bool.and_eq_true] at h
    simp only [Expr.capStable] at hc
    obtain ⟨k, k1, k2⟩ := any_roundtrip a h.1.1 hc
    refine ⟨.mk k name b e, ?_, ?_⟩
    · simp only [Expr.toProto, k1, toInt32_id b h.1.2, toInt32_id e h.2]
    · simp only [NodeP.fromProto, k2, R.ok_bind]
theorem exprList_roundtrip : ∀ (es : ExprList), es.supported = true → es.capStable cv = true →
    ∃ ps, es.toProto = .ok ps ∧ ps.fromProto cv = .ok es
  | .nil, _, _ => ⟨.nil, rfl, rfl⟩
  | .cons e es, h, hc => by
    simp only [ExprList.supported, Bool.and_eq_true] at h
    simp only [ExprList.capStable, Bool.and_eq_true] at hc
    obtain ⟨p, p1, p2⟩ := expr_roundtrip e h.1 hc.1
    obtain ⟨ps, q1, q2⟩ := exprList_roundtrip es h.2 hc.2
    exact ⟨.cons p ps, by simp only [ExprList.toProto, p1, q1, R.ok_bind],
      by simp only [NodePList.fromProto, p2, q2, R.ok_bind]⟩
theorem pairList_roundtrip : ∀ (items : PairList), items.supported = true → items.capStable cv = true →
    ∃ ps, items.toProto = .ok ps ∧ ps.fromProto cv = .ok items
  | .nil, _, _ => ⟨.nil, rfl, rfl⟩
  | .cons k v rest, h, hc => by
    simp only [PairList.supported, Bool.and_eq_true] at h
    simp only [PairList.capStable, Bool.and_eq_true] at hc
    obtain ⟨⟨⟨⟨hk1, hk2⟩, hv1⟩, hv2⟩, hr⟩ := h
    obtain ⟨kk, k1, k2⟩ := any_roundtrip k hk2 hc.1.1
    obtain ⟨vk, v1, v2⟩ := any_roundtrip v hv2 hc.1.2
    obtain ⟨ps, r1, r2⟩ := pairList_roundtrip rest hr hc.2
    obtain ⟨kl, rfl, ke, kf⟩ := elem_shape k hk1 kk k1
    obtain ⟨vl, rfl, ve, vf⟩ := elem_shape v hv1 vk v1
    refine ⟨.cons kl vl ps, ?_, ?_⟩
    · simp only [PairList.toProto, k1, v1, ke, ve, r1, R.ok_bind]
    · simp only [KindP.fromProto] at k2 v2
      simp only [LitPairList.fromProto, kf, vf, k2, v2, r2, R.ok_bind]
end

/-- the statement without the condition on cap radii -/
def proto_roundtrip_statement : Prop :=
  ∀ (cv : Nat → Nat) (e : Expr), e.supported = true → ∃ p, e.toProto = .ok p ∧ p.fromProto cv = .ok e

/-- **Wire round trip.**  Every supported expression tree — any depth, any mix of calls, lambdas,
symbols, literals and query trees, with its names and positions — converts to its protobuf form, and that
form converts back to the same tree; provided every `IntersectsCap` radius in it is one that the
float conversion `cv` (meters → angle → chord angle → meters) reproduces. -/
theorem proto_roundtrip_partial (e : Expr) (h : e.supported = true) (hc : e.capStable cv = true) :
    ∃ p, e.toProto = .ok p ∧ p.fromProto cv = .ok e :=
  expr_roundtrip cv e h hc

/-- with an exact conversion (`cv = id`) there is no condition left -/
theorem proto_roundtrip_exact (e : Expr) (h : e.supported = true) :
    ∃ p, e.toProto = .ok p ∧ p.fromProto id = .ok e := by
  have capId : ∀ e : Expr, e.capStable id = true := by
    have hq : (∀ q : Query, q.capStable id = true) ∧ (∀ qs : QueryList, qs.capStable id = true) := by
      constructor
      · intro q
        exact Query.rec (motive_1 := fun q => q.capStable id = true) (motive_2 := fun qs => qs.capStable id = true)
          rfl rfl rfl (fun _ => rfl) (fun _ _ => rfl) (fun _ _ ih => by simpa [Query.capStable] using ih)
          (fun _ ih => by simpa [Query.capStable] using ih) (fun _ ih => by simpa [Query.capStable] using ih)
          (fun _ _ => by simp [Query.capStable]) (fun _ => rfl) (fun _ => rfl) (fun _ => rfl) (fun _ => rfl)
          (fun _ => rfl) (fun _ => rfl) rfl (fun _ _ ih1 ih2 => by simp [QueryList.capStable, ih1, ih2]) q
      · intro qs
        exact QueryList.rec (motive_1 := fun q => q.capStable id = true) (motive_2 := fun qs => qs.capStable id = true)
          rfl rfl rfl (fun _ => rfl) (fun _ _ => rfl) (fun _ _ ih => by simpa [Query.capStable] using ih)
          (fun _ ih => by simpa [Query.capStable] using ih) (fun _ ih => by simpa [Query.capStable] using ih)
          (fun _ _ => by simp [Query.capStable]) (fun _ => rfl) (fun _ => rfl) (fun _ => rfl) (fun _ => rfl)
          (fun _ => rfl) (fun _ => rfl) rfl (fun _ _ ih1 ih2 => by simp [QueryList.capStable, ih1, ih2]) qs
    intro e
    exact Expr.rec (motive_1 := fun a => a.capStable id = true) (motive_2 := fun e => e.capStable id = true)
      (motive_3 := fun es => es.capStable id = true) (motive_4 := fun ps => ps.capStable id = true)
      rfl (fun _ => rfl) (fun _ => rfl) (fun _ => rfl) (fun _ => rfl) (fun _ => rfl) (fun _ => rfl)
      (fun _ _ => rfl) (fun _ => rfl) (fun _ => rfl) (fun _ => rfl)
      (fun q => by simpa [Any.capStable] using hq.1 q) rfl (fun _ => rfl) rfl (fun _ => rfl)
      (fun _ ih => by simpa [Any.capStable] using ih)
      (fun _ _ _ ih1 ih2 => by simp [Any.capStable, ih1, ih2])
      (fun _ _ ih => by simpa [Any.capStable] using ih)
      (fun _ _ _ _ ih => by simpa [Expr.capStable] using ih)
      rfl (fun _ _ ih1 ih2 => by simp [ExprList.capStable, ih1, ih2])
      rfl (fun _ _ _ ih1 ih2 ih3 => by simp [PairList.capStable, ih1, ih2, ih3]) e
  exact expr_roundtrip id e h (capId e)

/-- Converting a second time changes nothing: the re-read expression produces the same protobuf form. -/
theorem proto_idempotent (e e' : Expr) (p : NodeP) (h : e.supported = true) (hc : e.capStable cv = true)
    (h1 : e.toProto = .ok p) (h2 : p.fromProto cv = .ok e') : e'.toProto = .ok p := by
  obtain ⟨p', q1, q2⟩ := expr_roundtrip cv e h hc
  rw [h1] at q1
  cases q1
  rw [q2] at h2
  cases h2
  exact h1

/-! ## the client's side: what the server accepts is in the round-trip domain -/

theorem R.bind_ok {α β : Type} (r : R α) (f : α → R β) (b : β) (h : r.bind f = .ok b) :
    ∃ a, r = .ok a ∧ f a = .ok b := by
  cases r with
  | ok a => exact ⟨a, rfl, h⟩
  | err => simp at h
  | panic => simp at h

mutual
theorem queryP_accepted : ∀ (p : QueryP) (q : Query), p.fromProto cv = .ok q → q.supported = true
  | .all, q, h => by simp only [QueryP.fromProto, R.ok.injEq] at h; subst h; rfl
  | .keyed _, q, h => by simp only [QueryP.fromProto, R.ok.injEq] at h; subst h; rfl
  | .tagged _ _, q, h => by simp only [QueryP.fromProto, R.ok.injEq] at h; subst h; rfl
  | .cap _ _, q, h => by simp only [QueryP.fromProto, R.ok.injEq] at h; subst h; rfl
  | .point _, q, h => by simp only [QueryP.fromProto, R.ok.injEq] at h; subst h; rfl
  | .polyline _, q, h => by simp only [QueryP.fromProto, R.ok.injEq] at h; subst h; rfl
  | .multipolygon _, q, h => by simp only [QueryP.fromProto, R.ok.injEq] at h; subst h; rfl
  | .feature id, q, h => by
    simp only [QueryP.fromProto] at h
    split at h
    · simp only [R.ok.injEq] at h; subst h; rfl
    · simp at h
  | .typed e c, q, h => by
    simp only [QueryP.fromProto] at h
    split at h
    · rename_i child hc
      split at h
      · simp only [R.ok.injEq] at h; subst h
        simp only [Query.supported]
        exact queryP_accepted c child hc
      · simp at h
    · simp at h
    · simp at h
  | .inter qs, q, h => by
    simp only [QueryP.fromProto] at h
    obtain ⟨l, hl, h⟩ := R.bind_ok _ _ _ h
    simp only [R.ok.injEq] at h; subst h
    simp only [Query.supported]
    exact queryPList_accepted qs l hl
  | .union qs, q, h => by
    simp only [QueryP.fromProto] at h
    obtain ⟨l, hl, h⟩ := R.bind_ok _ _ _ h
    simp only [R.ok.injEq] at h; subst h
    simp only [Query.supported]
    exact queryPList_accepted qs l hl
  | .typedNoQuery _, _, h => by simp [QueryP.fromProto] at h
  | .empty, _, h => by simp [QueryP.fromProto] at h
  | .isValid, _, h => by simp [QueryP.fromProto] at h
  | .cells _, _, h => by simp [QueryP.fromProto] at h
  | .might _, _, h => by simp [QueryP.fromProto] at h
  | .unset, _, h => by simp [QueryP.fromProto] at h
theorem queryPList_accepted : ∀ (ps : QueryPList) (qs : QueryList), ps.fromProto cv = .ok qs →
    qs.supported = true
  | .nil, qs, h => by simp only [QueryPList.fromProto, R.ok.injEq] at h; subst h; rfl
  | .cons p ps, qs, h => by
    simp only [QueryPList.fromProto] at h
    obtain ⟨q', hq, h⟩ := R.bind_ok _ _ _ h
    obtain ⟨qs', hqs, h⟩ := R.bind_ok _ _ _ h
    simp only [R.ok.injEq] at h; subst h
    simp only [QueryList.supported, Bool.and_eq_true]
    exact ⟨queryP_accepted p q' hq, queryPList_accepted ps qs' hqs⟩
end

mutual
theorem litP_accepted : ∀ (l : LitP) (a : Any), l.wire = true → l.fromProto cv = .ok a →
    a.supported = true ∧ (LitP.notQuery l = true → Any.isElem a = true)
  | .intV _, a, _, h => by simp only [LitP.fromProto, R.ok.injEq] at h; subst h; exact ⟨rfl, fun _ => rfl⟩
  | .floatV _, a, _, h => by simp only [LitP.fromProto, R.ok.injEq] at h; subst h; exact ⟨rfl, fun _ => rfl⟩
  | .boolV _, a, _, h => by simp only [LitP.fromProto, R.ok.injEq] at h; subst h; exact ⟨rfl, fun _ => rfl⟩
  | .strV _, a, _, h => by simp only [LitP.fromProto, R.ok.injEq] at h; subst h; exact ⟨rfl, fun _ => rfl⟩
  | .tagV _ _, a, _, h => by simp only [LitP.fromProto, R.ok.injEq] at h; subst h; exact ⟨rfl, fun _ => rfl⟩
  | .pointV _, a, _, h => by simp only [LitP.fromProto, R.ok.injEq] at h; subst h; exact ⟨rfl, fun _ => rfl⟩
  | .pathV _, a, _, h => by simp only [LitP.fromProto, R.ok.injEq] at h; subst h; exact ⟨rfl, fun _ => rfl⟩
  | .areaV _, a, _, h => by simp only [LitP.fromProto, R.ok.injEq] at h; subst h; exact ⟨rfl, fun _ => rfl⟩
  | .idV id, a, _, h => by
    simp only [LitP.fromProto] at h
    split at h
    · simp only [R.ok.injEq] at h; subst h; exact ⟨rfl, fun _ => rfl⟩
    · simp at h
  | .routeV r, a, _, h => by
    simp only [LitP.fromProto] at h
    split at h
    · simp only [R.ok.injEq] at h; subst h; exact ⟨rfl, fun _ => rfl⟩
    · simp at h
  | .queryV q, a, _, h => by
    simp only [LitP.fromProto] at h
    obtain ⟨q', hq, h⟩ := R.bind_ok _ _ _ h
    simp only [R.ok.injEq] at h; subst h
    exact ⟨by simp only [Any.supported]; exact queryP_accepted cv q q' hq, fun hn => by simp [LitP.notQuery] at hn⟩
  | .collV pairs sk sv, a, hw, h => by
    simp only [LitP.fromProto] at h
    split at h
    · simp at h
    · obtain ⟨items, hi, h⟩ := R.bind_ok _ _ _ h
      simp only [R.ok.injEq] at h; subst h
      simp only [LitP.wire] at hw
      exact ⟨by simp only [Any.supported]; exact litPairList_accepted pairs items hw hi, fun _ => rfl⟩
  | .nilV, _, hw, _ => by simp [LitP.wire] at hw
  | .geojsonV _, _, _, h => by simp [LitP.fromProto] at h
  | .pairV, _, _, h => by simp [LitP.fromProto] at h
  | .featureV, _, _, h => by simp [LitP.fromProto] at h
  | .appliedChangeV, _, _, h => by simp [LitP.fromProto] at h
  | .unset, _, _, h => by simp [LitP.fromProto] at h
theorem litPairList_accepted : ∀ (ps : LitPairList) (items : PairList), ps.wire = true →
    ps.fromProto cv = .ok items → items.supported = true
  | .nil, items, _, h => by simp only [LitPairList.fromProto, R.ok.injEq] at h; subst h; rfl
  | .cons k v rest, items, hw, h => by
    simp only [LitPairList.wire, Bool.and_eq_true] at hw
    obtain ⟨⟨⟨⟨hkq, hkw⟩, hvq⟩, hvw⟩, hrw⟩ := hw
    simp only [LitPairList.fromProto] at h
    obtain ⟨k', hk, h⟩ := R.bind_ok _ _ _ h
    obtain ⟨v', hv, h⟩ := R.bind_ok _ _ _ h
    obtain ⟨r', hr, h⟩ := R.bind_ok _ _ _ h
    simp only [R.ok.injEq] at h; subst h
    have ek : k.elemFromProto (k.fromProto cv) = k.fromProto cv := by
      cases k <;> first | rfl | simp [LitP.wire] at hkw
    have ev : v.elemFromProto (v.fromProto cv) = v.fromProto cv := by
      cases v <;> first | rfl | simp [LitP.wire] at hvw
    rw [ek] at hk
    rw [ev] at hv
    have ak := litP_accepted k k' hkw hk
    have av := litP_accepted v v' hvw hv
    simp only [PairList.supported, Bool.and_eq_true]
    exact ⟨⟨⟨⟨ak.2 hkq, ak.1⟩, av.2 hvq⟩, av.1⟩, litPairList_accepted rest r' hrw hr⟩
end

mutual
theorem kindP_accepted : ∀ (k : KindP) (a : Any), k.wire = true → k.fromProto cv = .ok a →
    a.supported = true
  | .symbol _, a, _, h => by simp only [KindP.fromProto, R.ok.injEq] at h; subst h; rfl
  | .literal l, a, hw, h => by
    simp only [KindP.wire] at hw
    simp only [KindP.fromProto] at h
    exact (litP_accepted cv l a hw h).1
  | .call f args p, a, hw, h => by
    simp only [KindP.wire, Bool.and_eq_true] at hw
    simp only [KindP.fromProto] at h
    obtain ⟨f', hf, h⟩ := R.bind_ok _ _ _ h
    obtain ⟨as, ha, h⟩ := R.bind_ok _ _ _ h
    simp only [R.ok.injEq] at h; subst h
    simp only [Any.supported, Bool.and_eq_true]
    exact ⟨nodeP_accepted f f' hw.1 hf, nodePList_accepted args as hw.2 ha⟩
  | .lambda _ body, a, hw, h => by
    simp only [KindP.wire] at hw
    simp only [KindP.fromProto] at h
    obtain ⟨b, hb, h⟩ := R.bind_ok _ _ _ h
    simp only [R.ok.injEq] at h; subst h
    simp only [Any.supported]
    exact nodeP_accepted body b hw hb
  | .unset, _, _, h => by simp [KindP.fromProto] at h
theorem nodeP_accepted : ∀ (p : NodeP) (e : Expr), p.wire = true → p.fromProto cv = .ok e →
    e.supported = true
  | .mk k name b e, ex, hw, h => by
    simp only [NodeP.wire, Bool.and_eq_true] at hw
    simp only [NodeP.fromProto] at h
    obtain ⟨a, ha, h⟩ := R.bind_ok _ _ _ h
    simp only [R.ok.injEq] at h; subst h
    simp only [Expr.supported, Bool.and_eq_true]
    exact ⟨⟨kindP_accepted k a hw.1.1 ha, hw.1.2⟩, hw.2⟩
theorem nodePList_accepted : ∀ (ps : NodePList) (es : ExprList), ps.wire = true →
    ps.fromProto cv = .ok es → es.supported = true
  | .nil, es, _, h => by simp only [NodePList.fromProto, R.ok.injEq] at h; subst h; rfl
  | .cons p ps, es, hw, h => by
    simp only [NodePList.wire, Bool.and_eq_true] at hw
    simp only [NodePList.fromProto] at h
    obtain ⟨e', he, h⟩ := R.bind_ok _ _ _ h
    obtain ⟨es', hes, h⟩ := R.bind_ok _ _ _ h
    simp only [R.ok.injEq] at h; subst h
    simp only [ExprList.supported, Bool.and_eq_true]
    exact ⟨nodeP_accepted p e' hw.1 he, nodePList_accepted ps es' hw.2 hes⟩
end

/-- **What the client sends and the server accepts, round-trips.**  For any request `p` without a nil
literal and without a query inside a collection literal: if `ExpressionFromProto(p)` succeeds with `e` (and
the cap radii that `e` now holds are reproduced by the float conversion), then `e.ToProto()` succeeds with
some `p'`, `ExpressionFromProto(p')` is `e` again, and converting once more gives `p'` again. -/
theorem wire_roundtrip_partial (p : NodeP) (e : Expr) (hw : p.wire = true) (h : p.fromProto cv = .ok e)
    (hc : e.capStable cv = true) :
    ∃ p', e.toProto = .ok p' ∧ p'.fromProto cv = .ok e ∧
      ∀ e'', p'.fromProto cv = .ok e'' → e''.toProto = .ok p' := by
  have hs := nodeP_accepted cv p e hw h
  obtain ⟨p', h1, h2⟩ := expr_roundtrip cv e hs hc
  exact ⟨p', h1, h2, fun e'' h3 => proto_idempotent cv e e'' p' hs hc h1 h3⟩

/-! ## non-vacuity, and the shapes outside the domain -/

def sampleExpr : Expr :=
  .mk (.call (.mk (.symbol "66696e64") "" 0 4)
        (.cons (.mk (.query (.inter (.cons (.tagged "23616d656e697479" (.str "63616665"))
                  (.cons (.typed .area (.keyed "236275696c64696e67")) .nil)))) "71" 5 40)
        (.cons (.mk (.lambda ["78"] (.mk (.coll (.cons (.int (-7)) (.float 4607182418800017408) .nil)) "" 50 60)) "" 41 61)
        .nil)) true) "726f6f74" 0 61

example : sampleExpr.supported = true := by decide
example : ∃ p, sampleExpr.toProto = .ok p ∧ p.fromProto id = .ok sampleExpr :=
  proto_roundtrip_exact sampleExpr (by decide)

def sampleCap : Expr := .mk (.query (.cap ⟨515000000, -1000000⟩ 4647503709213818880)) "" 0 0
example : sampleCap.supported = true ∧ sampleCap.capStable id = true := by decide

/-- a conversion that moves a radius by one unit in the last place breaks the round trip of a cap query:
this is what the real float computation does for some radii (finding `cap-radius-drift`) -/
theorem cap_radius_counterexample : ¬ proto_roundtrip_statement := by
  intro h
  obtain ⟨p, h1, h2⟩ := h (· + 1) sampleCap (by decide)
  simp only [sampleCap, Expr.toProto, Any.toProto, Query.toProto, R.ok.injEq] at h1
  subst h1
  simp [NodeP.fromProto, KindP.fromProto, LitP.fromProto, QueryP.fromProto, sampleCap] at h2

/-- the unrestricted statement, for the record -/
def proto_roundtrip_all_statement : Prop :=
  ∀ e : Expr, ∃ p, e.toProto = .ok p ∧ p.fromProto id = .ok e

/-- the nil literal comes back as an expression without an `AnyExpression` (and that one panics in `ToProto`) -/
theorem nil_literal_counterexample :
    (Expr.mk .nilLit "" 0 0).toProto = .ok (.mk (.literal .nilV) "" 0 0) ∧
    (NodeP.mk (.literal .nilV) "" 0 0).fromProto id = .ok (.mk .absent "" 0 0) ∧
    (Expr.mk .absent "" 0 0).toProto = .panic := ⟨rfl, rfl, rfl⟩

/-- queries `NewQueryFromProto` has no case for: printed, but not read back -/
theorem unsupported_query_counterexample :
    (Expr.mk (.query .empty) "" 0 0).toProto = .ok (.mk (.literal (.queryV .empty)) "" 0 0) ∧
    (NodeP.mk (.literal (.queryV .empty)) "" 0 0).fromProto id = .err ∧
    (NodeP.mk (.literal (.queryV .isValid)) "" 0 0).fromProto id = .err ∧
    (NodeP.mk (.literal (.queryV (.cells [1]))) "" 0 0).fromProto id = .err ∧
    (NodeP.mk (.literal (.queryV (.might [1]))) "" 0 0).fromProto id = .err ∧
    (NodeP.mk (.literal (.queryV (.typedNoQuery 1))) "" 0 0).fromProto id = .err := ⟨rfl, rfl, rfl, rfl, rfl, rfl⟩

/-- a tag value that is not a string comes back as a string -/
theorem tag_value_counterexample :
    ∃ p, (Expr.mk (.tag "6b" (.other "35")) "" 0 0).toProto = .ok p ∧
      p.fromProto id = .ok (.mk (.tag "6b" (.str "35")) "" 0 0) := ⟨_, rfl, rfl⟩

/-- a collection literal holding a query is accepted from the wire but cannot be sent back:
`FromLiteral` has no case for `Query`, the error leaves a nil proto, `Expression.ToProto` panics -/
theorem collection_query_counterexample :
    (NodeP.mk (.literal (.collV (.cons (.intV 0) (.queryV .all) .nil) 0 0)) "" 0 0).fromProto id
      = .ok (.mk (.coll (.cons (.int 0) (.query .all) .nil)) "" 0 0) ∧
    (Expr.mk (.coll (.cons (.int 0) (.query .all) .nil)) "" 0 0).toProto = .panic := ⟨rfl, rfl⟩

theorem proto_roundtrip_all_counterexample : ¬ proto_roundtrip_all_statement := by
  intro h
  obtain ⟨p, h1, _⟩ := h (.mk .absent "" 0 0)
  simp [Expr.toProto, Any.toProto] at h1

end B6.Props.C19
