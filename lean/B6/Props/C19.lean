import B6.Model.WireExpr
/-!
# C19 — Expressions survive the client/server wire format

Theorems about `B6.Model.WireExpr` (model of `Expression.ToProto` / `ExpressionFromProto`,
`Query.ToProto` / `NewQueryFromProto`).

`supported` is the executable predicate (the driver runs the same function) that says which expression
trees the round trip is claimed for: every constructor except the ones `ExpressionFromProto` /
`NewQueryFromProto` have no (working) case for — the nil literal (comes back as an `Expression` with a nil
`AnyExpression`), GeoJSON (`panic("Unimplemented")`), feature literals (error), the queries `Empty`,
`IsValid`, `IntersectsCells`, `MightIntersect` (error) — tag / tagged values that are not strings (only
their `String()` travels), collection literals holding a query (`FromLiteral` has no case), and positions
outside `int32`.  None of the excluded shapes can be produced by the Python client (it sends calls,
lambdas, symbols, int / float / string / feature-ID / path / area / query literals, and only queries the
server could itself read); they are recorded below as counterexamples to the unrestricted statement.
-/
namespace B6.Props.C19
open B6.Model.WireExpr B6.Model.FeatureID

/-! ## leaves -/

theorem wid_roundtrip (f : WID) : f.toProto.fromProto = some f := by
  obtain ⟨t, ns, v⟩ := f
  cases t <;> rfl

theorem steps_roundtrip (l : List Step) :
    stepsFromProto (l.map fun s => ⟨s.destination.toProto, s.via.toProto, s.cost⟩) = some l := by
  induction l with
  | nil => rfl
  | cons s rest ih => simp [stepsFromProto, wid_roundtrip, ih]

theorem route_roundtrip (r : Route) : r.toProto.fromProto = some r := by
  obtain ⟨o, steps⟩ := r
  simp [Route.toProto, RouteP.fromProto, wid_roundtrip, steps_roundtrip]

theorem ftype_roundtrip (t : FType) : ftypeFromProto t.toProto = some t := by cases t <;> rfl

theorem toInt32_id (x : Int) (h : inInt32 x = true) : toInt32 x = x := by
  simp only [inInt32, Bool.and_eq_true, decide_eq_true_eq] at h
  unfold toInt32
  omega

/-! ## queries -/

mutual
theorem query_roundtrip : ∀ (q : Query), Query.supported q = true → q.toProto.fromProto = .ok q
  | .all, _ => rfl
  | .keyed _, _ => rfl
  | .tagged k v, h => by
    cases v with
    | str s => rfl
    | other r => simp [Query.supported, TagVal.isStr] at h
  | .typed t q, h => by
    simp only [Query.supported] at h
    simp only [Query.toProto, QueryP.fromProto, query_roundtrip q h, ftype_roundtrip]
  | .inter qs, h => by
    simp only [Query.supported] at h
    simp only [Query.toProto, QueryP.fromProto, queryList_roundtrip qs h, R.ok_bind]
  | .union qs, h => by
    simp only [Query.supported] at h
    simp only [Query.toProto, QueryP.fromProto, queryList_roundtrip qs h, R.ok_bind]
  | .cap _ _, _ => rfl
  | .feature id, _ => by simp only [Query.toProto, QueryP.fromProto, wid_roundtrip]
  | .point _, _ => rfl
  | .polyline _, _ => rfl
  | .multipolygon _, _ => rfl
  | .empty, h => by simp [Query.supported] at h
  | .isValid, h => by simp [Query.supported] at h
  | .cells _, h => by simp [Query.supported] at h
  | .might _, h => by simp [Query.supported] at h
theorem queryList_roundtrip : ∀ (qs : QueryList), QueryList.supported qs = true →
    qs.toProto.fromProto = .ok qs
  | .nil, _ => rfl
  | .cons q qs, h => by
    simp only [QueryList.supported, Bool.and_eq_true] at h
    simp only [QueryList.toProto, QueryPList.fromProto, query_roundtrip q h.1,
      queryList_roundtrip qs h.2, R.ok_bind]
end

end B6.Props.C19
