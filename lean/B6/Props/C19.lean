/-! C19 — property theorems (stub: nothing proved yet). -/
