/-! C09 — property theorems (stub: nothing proved yet). -/
