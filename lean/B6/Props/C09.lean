import B6.Model.Containers
import B6.Lemmas.Varint
import B6.Lemmas.Containers
import B6.Lemmas.Bits
/-!
# C09 — Low-level binary containers are lossless

Theorems about `B6.Model.Containers` / `B6.Model.Varint` (hand-written models of encoding/ints.go,
arrays.go, strings.go, uint64map.go, tied to the code by the byte-level correspondence run of
`harness/cmd/c09`).  Proofs are in `B6/Lemmas/{Varint,Bits,Containers}.lean`; everything is kernel-only
(propext / Classical.choice / Quot.sound), no `bv_decide`.
-/
namespace B6.Props.C09
open B6.Model.Containers B6.Model.Varint B6.Model.Bits B6.Lemmas.Containers

/-! ## integer sequences -/

/-- delta + zigzag coded `uint64` sequences: every list, every wrap-around delta, any trailing bytes. -/
theorem delta_roundtrip (vs : List (BitVec 64)) (rest : Bytes) :
    unmarshalDelta vs.length (marshalDelta vs ++ rest) = some (vs, ((marshalDelta vs).length : Int)) :=
  B6.Lemmas.Containers.delta_roundtrip vs rest

example : unmarshalDelta 3 (marshalDelta [0x8000000000000000#64, 0#64, 0xffffffffffffffff#64])
    = some ([0x8000000000000000#64, 0#64, 0xffffffffffffffff#64], 21) := by decide

/-- `MarshalDeltaCodedInts/UnmarshalDeltaCodedInts` are the same functions on two's-complement words; for
Go `int`s given as integers in the int64 range the decoded integers are the encoded ones. -/
theorem zigzag_ints_roundtrip (vs : List Int) (h : ∀ v ∈ vs, -2 ^ 63 ≤ v ∧ v < 2 ^ 63) (rest : Bytes) :
    (unmarshalDelta vs.length (marshalDelta (vs.map (BitVec.ofInt 64)) ++ rest)).map
      (fun r => r.1.map BitVec.toInt) = some vs := by
  have := B6.Lemmas.Containers.delta_roundtrip (vs.map (BitVec.ofInt 64)) rest
  rw [List.length_map] at this
  rw [this]
  simp only [Option.map_some, List.map_map, Option.some.injEq]
  have hid : ∀ v ∈ vs, (BitVec.toInt ∘ BitVec.ofInt 64) v = v := by
    intro v hv
    have := h v hv
    simp only [Function.comp, BitVec.toInt_ofInt]
    rw [Int.bmod_eq_of_le] <;> omega
  conv => rhs; rw [← List.map_id vs]
  exact List.map_congr_left hid

example : (unmarshalDelta 2 (marshalDelta ([-9223372036854775808, 5].map (BitVec.ofInt 64)))).map
    (fun r => r.1.map BitVec.toInt) = some [-9223372036854775808, 5] := by decide

/-- the zigzag pair under the delta coding is a bijection on 64-bit words (also C10 `zigzag64`). -/
theorem zigzag_roundtrip (x : BitVec 64) : zigzagDecode (zigzagEncode x) = x := zigzagDecode_zigzagEncode x

/-- before the repair of `ZigzagDecode` the sequence `[2^63]` read back as `[0]`. -/
theorem delta_old_counterexample :
    0#64 + zigzagDecodeArith (BitVec.ofNat 64 (zigzagEncode (0x8000000000000000#64 - 0#64)).toNat)
      ≠ 0x8000000000000000#64 := by decide

/-- `UnmarshalUint64(l, MarshalUint64(v, l)) = v` for every `l ≥ Uint64Length(v)` (also `l > 8`). -/
theorem fixed_width_roundtrip (v l : Nat) (hv : v < 2 ^ 64) (hl : uint64Length v ≤ l) (rest : Bytes) :
    unmarshalUint64 l (marshalUint64 v l ++ rest) = some v :=
  unmarshal_marshalUint64_append v l hv hl rest

example : unmarshalUint64 3 (marshalUint64 70000 3 ++ [9]) = some 70000 := by decide

/-- …in particular at the width `ByteArraysBuilder` itself chooses, `Uint64Length(v)` — every `uint64`. -/
theorem fixed_width_roundtrip_at_own_length (v : Nat) (hv : v < 2 ^ 64) (rest : Bytes) :
    unmarshalUint64 (uint64Length v) (marshalUint64 v (uint64Length v) ++ rest) = some v :=
  unmarshal_marshalUint64_append v _ hv (Nat.le_refl _) rest

example : unmarshalUint64 (uint64Length 4294967296) (marshalUint64 4294967296 (uint64Length 4294967296))
    = some 4294967296 := by decide

/-- too few bytes lose the value — the hypothesis `Uint64Length v ≤ l` is needed. -/
theorem fixed_width_short_counterexample : unmarshalUint64 1 (marshalUint64 256 1) ≠ some 256 := by decide

/-- varints are a prefix code (used by every container below). -/
theorem uvarint_prefix (v : Nat) (hv : v < 2 ^ 64) (rest : Bytes) :
    uvarint (putUvarint v ++ rest) = some (v, (putUvarint v).length) := uvarint_putUvarint_append v hv rest

/-! ## byte arrays -/

/-- **any reservation / write order**: with `res[i]` bytes reserved for item `i` and the `WriteItem` calls
`ws` (item, buffers) in any order filling every item exactly, no call panics and `Item(i)` returns the
concatenation of the writes to `i` — for every `i`. -/
theorem bytearrays_item (res : List Nat) (ws : List (Nat × List Bytes))
    (hn : res.length < 2 ^ 32) (ht : res.sum < 2 ^ 64)
    (hitems : ∀ x ∈ ws, x.1 < res.length)
    (hexact : ∀ j (hj : j < res.length), (written ws j).length = res[j]) :
    ∃ w, runWrites (baStart res) ws = some w ∧
      ∀ i, i < res.length → baItem w.out i = some (written ws i) :=
  B6.Lemmas.Containers.bytearrays_item res ws hn ht hitems hexact

example : (runWrites (baStart [3, 0, 2]) [(2, [[7]]), (0, [[1], [2, 3]]), (2, [[8]])]).bind
    (fun w => baItem w.out 2) = some [7, 8] := by decide

/-- the reader alone: item `i` of header ++ data is the slice the pointer table delimits. -/
theorem bytearrays_read (res : List Nat) (D : Bytes) (i : Nat)
    (hn : res.length < 2 ^ 32) (ht : res.sum < 2 ^ 64) (hi : i < res.length)
    (hD : (res.take (i + 1)).sum ≤ D.length) :
    baItem (baHeader res ++ D) i = some ((D.drop (res.take i).sum).take res[i]) :=
  B6.Lemmas.Containers.bytearrays_read res D i hn ht hi hD

/-- the pointer table: entry `k` of the header written for reservations `res` reads back as the `k`-th
running sum (so the last entry is the total, whatever pointer width the total needs). -/
theorem bytearrays_layout (res : List Nat) (D : Bytes) (k : Nat) (ht : res.sum < 2 ^ 64) (hk : k ≤ res.length) :
    (goFrom (baHeader res ++ D) (baLayoutLength + uint64Length (total res) * k)).bind
      (unmarshalUint64 (uint64Length (total res))) = some (res.take k).sum :=
  read_pointer res D k ht hk

/-! ## string table -/

/-- whatever order the builder puts the strings in (`table`; the Go code sorts a map by count with an
unstable sort), `StringTable.Lookup(i)` returns `table[i]`, i.e. the index the builder reports for a string
reads back that string. -/
theorem stringtable_lookup (table : List Bytes) (i : Nat) (hi : i < table.length)
    (hn : table.length < 2 ^ 32) (ht : (table.map List.length).sum < 2 ^ 64) :
    stLookup (stEncode table) i = some table[i] :=
  bytearrays_encode_item table i hi hn ht

example : stLookup (stEncode [[104, 119], [], [110, 97, 109, 101]]) 2 = some [110, 97, 109, 101] := by decide

/-! ## uint64 map -/

/-- every layout with `TagBits ≤ BucketBits ≤ 63` and every tag below `2^TagBits` gives an invertible
bucket header (the 64-bit fact proved from the source text in C10 `header_roundtrip`; kernel-only). -/
theorem header_ok_of_layout (b t : BitVec 64) (e : Entry) (hl : layoutOK b t = true)
    (htag : e.tag < (1#64 <<< t)) : HeaderOK b t e := by
  have hb : b ≤ 63#64 ∧ t ≤ b := by
    simp only [layoutOK, Bool.and_eq_true, decide_eq_true_eq] at hl
    exact ⟨hl.2, hl.1⟩
  obtain ⟨hb1, hb2⟩ := hb
  exact B6.Lemmas.Bits.header_roundtrip e.id e.tag b t hb1 hb2 htag

/-- the layout `NewUint64MapBuilder(b, t)` really uses is always inside that domain (kernel-only). -/
theorem builder_layout_ok (b t : BitVec 64) (hb : b ≤ 63#64) (ht : t ≤ 63#64) :
    layoutOK (builderLayout b t).1 (builderLayout b t).2 = true ∧ (builderLayout b t).2 = t := by
  unfold builderLayout layoutOK
  by_cases h : BitVec.slt b t = true
  · rw [if_pos h]; simp [ht]
  · rw [if_neg h]
    have hle : t ≤ b := by
      simp only [BitVec.slt, decide_eq_true_eq, Int.not_lt] at h
      have h1 : b.toInt = b.toNat := by
        rw [BitVec.toInt_eq_toNat_of_lt]; have : b.toNat ≤ 63 := hb; omega
      have h2 : t.toInt = t.toNat := by
        rw [BitVec.toInt_eq_toNat_of_lt]; have : t.toNat ≤ 63 := ht; omega
      rw [h1, h2] at h
      show t.toNat ≤ b.toNat
      omega
    simp [hle, hb]

/-- a map written by the builder (any requested bits, tags that fit, addressable size) is well formed. -/
theorem map_ok_of_builder (b t : BitVec 64) (es : List Entry) (hb : b ≤ 31#64) (ht : t ≤ 31#64)
    (htags : ∀ e ∈ es, e.tag < (1#64 <<< t) ∧ e.data.length < 2 ^ 63)
    (hsize : (mapEncode (builderLayout b t).1 (builderLayout b t).2 es).length < 2 ^ 64) :
    MapOK (builderLayout b t).1 (builderLayout b t).2 es := by
  have hb' : b.toNat ≤ 31 := hb
  have ht' : t.toNat ≤ 31 := ht
  have hl := builder_layout_ok b t (by show b.toNat ≤ 63; omega) (by show t.toNat ≤ 63; omega)
  have h1 : (builderLayout b t).1 ≤ 31#64 := by
    unfold builderLayout; split <;> assumption
  refine ⟨h1, by rw [hl.2]; show t.toNat ≤ 255; omega, ?_, hsize⟩
  intro e he
  exact ⟨header_ok_of_layout _ _ e hl.1 (by rw [hl.2]; exact (htags e he).1), (htags e he).2⟩

/-- **FillTagged** returns exactly the entries written under the id, in write order. -/
theorem map_fill_tagged (b t : BitVec 64) (es : List Entry) (h : MapOK b t es) (id : BitVec 64) :
    ∃ mv, mapOpen (mapEncode b t es) = some mv ∧
      mapFillTagged mv id = some (es.filter fun e => e.id == id) :=
  B6.Lemmas.Containers.map_fill_tagged b t es h id

/-- **FindFirst** returns the first of them, or "not found" when the id was never written. -/
theorem map_find_first (b t : BitVec 64) (es : List Entry) (h : MapOK b t es) (id : BitVec 64) :
    ∃ mv, mapOpen (mapEncode b t es) = some mv ∧
      mapFindFirst mv id = some (es.find? fun e => e.id == id) :=
  B6.Lemmas.Containers.map_find_first b t es h id

theorem map_find_first_with_tag (b t : BitVec 64) (es : List Entry) (h : MapOK b t es) (id tag : BitVec 64) :
    ∃ mv, mapOpen (mapEncode b t es) = some mv ∧
      mapFindFirstWithTag mv id tag = some (es.find? fun e => e.id == id && e.tag == tag) :=
  B6.Lemmas.Containers.map_find_first_with_tag b t es h id tag

/-- **iteration** (`Begin/Next`, `EachItem`) visits every written id, no id twice, each visit with exactly
the entries written under it (as a multiset: the Go sort is unstable). -/
theorem map_iterate (b t : BitVec 64) (es : List Entry) (h : MapOK b t es) :
    ∃ mv gs, mapOpen (mapEncode b t es) = some mv ∧ mapIterate mv = some gs ∧
      gs.Pairwise (fun p q => p.1 ≠ q.1) ∧
      (∀ p ∈ gs, p.2 ≠ [] ∧ p.2.Perm (es.filter fun e => e.id == p.1)) ∧
      (∀ e ∈ es, ∃ p ∈ gs, p.1 = e.id) :=
  B6.Lemmas.Containers.map_iterate b t es h

/-- non-vacuity + the DESIGN §7 witness on the repaired layout: requested (1, 2), id 2^63+5. -/
example : (mapOpen (mapEncode (builderLayout 1#64 2#64).1 (builderLayout 1#64 2#64).2
      [⟨0x8000000000000005#64, 1#64, [0xaa]⟩, ⟨5#64, 2#64, []⟩, ⟨0x8000000000000005#64, 3#64, [1, 2]⟩])).bind
      (fun mv => mapFillTagged mv 0x8000000000000005#64)
    = some [⟨0x8000000000000005#64, 1#64, [0xaa]⟩, ⟨0x8000000000000005#64, 3#64, [1, 2]⟩] := by decide

/-- before the repair the builder used the requested layout (1, 2) as is, and the entry written under
2^63+5 was not found (`FindFirst` = not found on the real code, DESIGN §7). -/
theorem map_topbit_counterexample :
    (mapOpen (mapEncode (builderLayoutOld 1#64 2#64).1 (builderLayoutOld 1#64 2#64).2
      [⟨0x8000000000000005#64, 1#64, [0xaa]⟩])).bind (fun mv => mapFindFirst mv 0x8000000000000005#64)
    = some none := by decide

end B6.Props.C09
