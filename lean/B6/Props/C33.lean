import B6.Model.TileEncoder
import B6.Lemmas.TileEncoder
/-!
# C33 — Vector tile geometry decodes to the projected feature

Theorems about `B6.Model.TileEncoder` (the model of `renderer.Encoder` / `EncodeTile`, encoder.go) against a
decoder written from the Mapbox Vector Tile spec 2.1 command grammar.

* `zigzag_roundtrip`           — `zigzagDecode (zigzagEncode d) = d` for every int32 delta (repaired `zigzagDecode`);
  `zigzagDecodeArith_counterexample` — the code before fixes/C10-zigzag-decode.patch lost `d = 2^30`.
* `tile_geometry_roundtrip`    — for every encoder state, every point / line string / polygon (any number of loops
  and points) whose cursor deltas fit an int32: the feature's command stream decodes to the feature's projected
  coordinates relative to the tile origin, holes backwards from their first vertex.
* `tile_geometry_roundtrip_in_tile` — the int32 hypothesis holds for every geometry within 2^30 units of the origin.
* `tile_winding_opposite`      — a decoded hole has minus the signed area of its loop, a decoded outer ring the same
  signed area (surveyor's formula on the decoded integers): loops of one orientation (as S2 keeps them) come out
  with outer rings and holes in opposite winding.
* `tile_tags_roundtrip`        — after any sequence of features has been encoded into a layer, the tag words of
  every feature decode, through the layer's final key / value tables, to that feature's tags in order.
-/
namespace B6.Props.C33
open B6.Model.TileEncoder B6.Lemmas.TileEncoder

/-! ## zigzag -/

theorem zigzag_roundtrip (d : Int) (h : inInt32 d) : zigzagDecode (zigzagEncode d) = d :=
  paramValue_zigzagEncode d h

example : inInt32 (-2147483648) ∧ zigzagEncode (-2147483648) = 4294967295 := by decide

/-- zigzag is a bijection on 32-bit words (both directions, all 2^32 values) -/
theorem zigzag32_bijective (v : BitVec 32) : unzigzag32 (zigzag32 v) = v ∧ zigzag32 (unzigzag32 v) = v :=
  ⟨unzigzag32_zigzag32 v, zigzag32_unzigzag32 v⟩

/-- the unrepaired `zigzagDecode` (arithmetic shift) returned -2^30 for the encoding of 2^30 -/
theorem zigzagDecodeArith_counterexample :
    (zigzagDecodeArith (zigzag32 (BitVec.ofInt 32 1073741824))).toInt ≠ 1073741824 := by decide

/-! ## geometry -/

theorem encodePoint_eq (e : Enc) (p : Pt) :
    encodePoint e p = some (adv { startFeature e with cur := some { ftype := 1 } } { ftype := 1 }
      (cmdWord cmdMoveTo 1 :: xyWords (e.ox, e.oy) p) p) := by
  unfold encodePoint
  simp only [bind, Option.bind, setType, withCur, startFeature]
  rw [moveTo_adv _ _ rfl]
  simp only
  rw [xy_adv _ _ (adv_cur ..), adv_adv]
  simp [adv]

theorem encodeLineString_eq (e : Enc) (p : Pt) (ps : List Pt) :
    encodeLineString e (p :: ps) = some (adv { startFeature e with cur := some { ftype := 2 } } { ftype := 2 }
      ((cmdWord cmdMoveTo [p].length :: ptsWords (e.ox, e.oy) [p]) ++ (cmdWord cmdLineTo ps.length :: ptsWords p ps))
      (lastPt p ps)) := by
  unfold encodeLineString
  simp only [bind, Option.bind, setType, withCur, startFeature]
  rw [moveTo_adv _ _ rfl]
  simp only
  rw [xy_adv _ _ (adv_cur ..), adv_adv]
  simp only
  rw [lineTo_adv _ _ (adv_cur ..), adv_adv]
  simp only
  rw [xys_adv _ _ _ (adv_cur ..), adv_adv]
  simp [adv, ptsWords]

theorem encodePolygon_eq (e : Enc) (loops : List (Bool × List Pt)) :
    encodePolygon e loops = some (adv { startFeature e with cur := some { ftype := 3 } } { ftype := 3 }
      (loopsWords (e.ox, e.oy) loops) (loopsEnd (e.ox, e.oy) loops)) := by
  unfold encodePolygon
  simp only [bind, Option.bind, setType, withCur, startFeature]
  rw [encodeLoops_adv _ _ _ rfl]

theorem loopsVisited_eq : ∀ (loops : List (Bool × List Pt)),
    loopsVisited loops = (Geom.polygon loops).visited
  | [] => rfl
  | (h, pts) :: r => by
    have ih := loopsVisited_eq r
    simp only [Geom.visited] at ih ⊢
    simp only [loopsVisited, ringVisited, ih, List.filter]
    by_cases hl : pts.length > 1 <;> simp [hl]

/-- **C33, geometry.** For every encoder state `e` (any earlier features of the layer) and every well-formed
geometry whose cursor deltas fit an int32, encoding succeeds and the command stream of the new feature decodes —
by the MVT 2.1 grammar for the feature's own type — to the projected coordinates relative to the tile origin. -/
theorem tile_geometry_roundtrip (e : Enc) (g : Geom) (hwf : g.wellFormed)
    (hr : DeltasOk (e.ox, e.oy) g.visited) :
    ∃ e' f, encodeGeom e g = some e' ∧ e'.cur = some f ∧ f.ftype = g.ftype ∧
      decodeGeometry f.ftype f.geometry = some (g.expected (e.ox, e.oy)) := by
  have hrel0 : rel (e.ox, e.oy) (e.ox, e.oy) = (0, 0) := by simp [rel]
  cases g with
  | point p =>
    refine ⟨_, _, encodePoint_eq e p, adv_cur .., rfl, ?_⟩
    simp only [Geom.visited] at hr
    have h := drun_command (e.ox, e.oy) cmdMoveTo (Or.inl rfl) [p] (e.ox, e.oy) [] (by simp) (by simp) hr
    rw [hrel0] at h
    simp only [List.length_cons, List.length_nil, ptsWords, List.append_nil] at h
    simp [decodeGeometry, decodeOps, h, mkOp, asPoints, Geom.expected, lastPt]
  | line pts =>
    obtain ⟨h2, hmax⟩ := hwf
    match pts, h2 with
    | p :: ps, h2 =>
      refine ⟨_, _, encodeLineString_eq e p ps, adv_cur .., rfl, ?_⟩
      simp only [List.length_cons] at h2 hmax
      simp only [Geom.visited] at hr
      obtain ⟨hx, hy, hd⟩ := hr
      have hps : ps ≠ [] := by intro h; subst h; simp at h2
      have h1 := drun_command (e.ox, e.oy) cmdMoveTo (Or.inl rfl) [p] (e.ox, e.oy) [] (by simp) (by simp)
        ⟨hx, hy, trivial⟩
      have h3 := drun_command (e.ox, e.oy) cmdLineTo (Or.inr rfl) ps p ([] ++ [mkOp cmdMoveTo ([p].map (rel (e.ox, e.oy)))])
        hps (by omega) hd
      rw [hrel0] at h1
      simp only [decodeGeometry, decodeOps, List.nil_append]
      rw [drun_append, h1]
      simp only [Option.bind_some, lastPt]
      rw [h3]
      simp [mkOp, cmdMoveTo, cmdLineTo, asLines, Geom.expected]
  | polygon loops =>
    refine ⟨_, _, encodePolygon_eq e loops, adv_cur .., rfl, ?_⟩
    rw [← loopsVisited_eq] at hr
    have h := drun_loops (e.ox, e.oy) loops (e.ox, e.oy) [] (fun l hl => (hwf l hl).2) hr
    rw [hrel0] at h
    simp only [decodeGeometry, decodeOps, List.nil_append]
    rw [h]
    simp only [Option.bind_some, if_true, List.nil_append]
    rw [asRings_loopsOps _ _ (fun l hl => (hwf l hl).1)]
    simp [Geom.expected]

/-- a polygon with a hole, tile origin (4096, 8192): hypotheses hold and the statement is not vacuous -/
def exPolygon : Geom := .polygon [(false, [(4100, 8200), (4200, 8200), (4200, 8300), (4100, 8300)]),
  (true, [(4120, 8220), (4180, 8220), (4180, 8280)]), (false, [(1, 1)])]

example : exPolygon.wellFormed ∧ DeltasOk (4096, 8192) exPolygon.visited := by
  refine ⟨?_, by decide⟩
  intro l hl
  simp only [List.mem_cons, List.not_mem_nil, or_false] at hl
  rcases hl with h | h | h <;> subst h <;> decide

example : (encodeGeom (newEncoder 4096 8192) exPolygon).bind (fun e => e.cur.map (·.geometry)) =
    some [9, 8, 16, 26, 200, 0, 0, 200, 199, 0, 15, 9, 40, 159, 18, 120, 120, 0, 119, 15] := by decide

example : decodeGeometry 3 [9, 8, 16, 26, 200, 0, 0, 200, 199, 0, 15, 9, 40, 159, 18, 120, 120, 0, 119, 15] =
    some (.rings [[(4, 8), (104, 8), (104, 108), (4, 108)], [(24, 28), (84, 88), (84, 28)]]) := by decide

/-- every coordinate within 2^30 of the tile origin (in particular everything inside the tile) -/
def Geom.near (o : Pt) (g : Geom) : Prop :=
  ∀ p ∈ g.visited, -1073741824 ≤ p.1 - o.1 ∧ p.1 - o.1 < 1073741824 ∧ -1073741824 ≤ p.2 - o.2 ∧ p.2 - o.2 < 1073741824

theorem deltasOk_of_near (o : Pt) : ∀ (pts : List Pt) (c : Pt),
    (-1073741824 ≤ c.1 - o.1 ∧ c.1 - o.1 < 1073741824 ∧ -1073741824 ≤ c.2 - o.2 ∧ c.2 - o.2 < 1073741824) →
    (∀ p ∈ pts, -1073741824 ≤ p.1 - o.1 ∧ p.1 - o.1 < 1073741824 ∧ -1073741824 ≤ p.2 - o.2 ∧ p.2 - o.2 < 1073741824) →
    DeltasOk c pts
  | [], _, _, _ => trivial
  | p :: ps, c, hc, h => by
    have hp := h p (by simp)
    refine ⟨?_, ?_, deltasOk_of_near o ps p hp (fun q hq => h q (by simp [hq]))⟩ <;> unfold inInt32 <;> omega

/-- **C33, geometry inside a tile**: no range hypothesis is left when the feature lies within 2^30 units of the
tile origin (a tile is 4096 units wide). -/
theorem tile_geometry_roundtrip_in_tile (e : Enc) (g : Geom) (hwf : g.wellFormed) (hn : Geom.near (e.ox, e.oy) g) :
    ∃ e' f, encodeGeom e g = some e' ∧ e'.cur = some f ∧ f.ftype = g.ftype ∧
      decodeGeometry f.ftype f.geometry = some (g.expected (e.ox, e.oy)) :=
  tile_geometry_roundtrip e g hwf (deltasOk_of_near (e.ox, e.oy) g.visited (e.ox, e.oy) (by simp) hn)

example : Geom.near (4096, 8192) exPolygon := by
  intro p hp
  simp only [exPolygon, Geom.visited, List.filter, ringOrder] at hp
  revert p
  decide

/-! ## winding -/

/-- **C33, winding.** The ring a loop decodes to has the loop's signed area (surveyor's formula, tile
coordinates) when it is an outer loop and minus that area when it is a hole. -/
theorem tile_winding_opposite (o : Pt) (hole : Bool) (pts : List Pt) :
    area2 ((ringOrder hole pts).map (rel o)) = if hole then - area2 pts else area2 pts := by
  rw [area2_rel]
  cases hole with
  | true => simp [area2_ringOrder_hole]
  | false => cases pts <;> simp [ringOrder]

/-- loops that all turn the same way (as the loops of an `s2.Polygon` do) decode to outer rings of that
orientation and holes of the opposite one -/
theorem tile_winding_signs (o : Pt) (loops : List (Bool × List Pt)) (hpos : ∀ l ∈ loops, 0 < area2 l.2) :
    ∀ l ∈ loops, (l.1 = false → 0 < area2 ((ringOrder l.1 l.2).map (rel o))) ∧
                 (l.1 = true → area2 ((ringOrder l.1 l.2).map (rel o)) < 0) := by
  intro l hl
  have h := hpos l hl
  rw [tile_winding_opposite]
  constructor <;> intro hh <;> simp [hh] <;> omega

example : area2 [(0, 0), (10, 0), (10, 10), (0, 10)] = 200 ∧
    area2 ((ringOrder true [(0, 0), (10, 0), (10, 10), (0, 10)]).map (rel (5, 7))) = -200 := by decide

/-! ## tags -/

/-- the invariant: every feature of the layer decodes, through the current tables, to its expected pairs -/
def Inv (e : Enc) (exp : List (List (String × Val))) : Prop := TagsOk e.keys e.values (tagWords e) exp

theorem tagWords_cur (e : Enc) (f : Feat) (h : e.cur = some f) :
    tagWords e = e.prev.map (·.tags) ++ [f.tags] := by
  simp [tagWords, Enc.features, h]

theorem tag_step (e : Enc) (f : Feat) (h : e.cur = some f) (exp0 : List (List (String × Val))) (T : List (String × Val))
    (hinv : Inv e (exp0 ++ [T])) (k : String) (a : TagArg) (v : Val) (hv : a.val? = some v)
    (hk : e.keys.length < 2 ^ 32) (hvl : e.values.length < 2 ^ 32) :
    ∃ e' f', tag e k a = some e' ∧ e'.cur = some f' ∧ Inv e' (exp0 ++ [T ++ [(k, v)]]) ∧
      e'.keys.length ≤ e.keys.length + 1 ∧ e'.values.length ≤ e.values.length + 1 := by
  obtain ⟨ke, ve, ki, vi, htag, hkl, hvl', hki, hvi⟩ := tag_spec e f h k a v hv hk hvl
  refine ⟨_, _, htag, rfl, ?_, by simp; omega, by simp; omega⟩
  unfold Inv at hinv ⊢
  rw [tagWords_cur e f h] at hinv
  obtain ⟨exp1, T1, he, h0, hT⟩ := tagsOk_snoc_inv _ _ _ _ _ hinv
  obtain ⟨he0, heT⟩ := List.append_inj' he (by simp)
  simp only [List.cons.injEq, and_true] at heT
  subst he0; subst heT
  rw [tagWords_cur _ _ rfl]
  simp only
  apply tagsOk_snoc
  · exact decodeTags_append _ _ _ _ _ _ _ _ (decodeTags_mono _ _ _ _ _ _ hT) hki hvi
  · exact tagsOk_mono _ _ _ _ _ _ h0

theorem tags_steps : ∀ (ts : List (String × String)) (e : Enc) (f : Feat), e.cur = some f →
    ∀ (exp0 : List (List (String × Val))) (T : List (String × Val)), Inv e (exp0 ++ [T]) →
    e.keys.length + ts.length ≤ 2 ^ 32 → e.values.length + ts.length ≤ 2 ^ 32 →
    ∃ e' f', tags e (ts.map fun (k, v) => (k, TagArg.str v)) = some e' ∧ e'.cur = some f' ∧
      Inv e' (exp0 ++ [T ++ ts.map fun (k, v) => (k, Val.str v)]) ∧
      e'.keys.length ≤ e.keys.length + ts.length ∧ e'.values.length ≤ e.values.length + ts.length
  | [], e, f, h, exp0, T, hinv, _, _ => ⟨e, f, rfl, h, by simpa using hinv, by simp, by simp⟩
  | (k, v) :: ts, e, f, h, exp0, T, hinv, hk, hvl => by
    simp only [List.length_cons] at hk hvl
    obtain ⟨e1, f1, ht, hc1, hinv1, hk1, hv1⟩ :=
      tag_step e f h exp0 T hinv k (.str v) (.str v) rfl (by omega) (by omega)
    obtain ⟨e2, f2, hts, hc2, hinv2, hk2, hv2⟩ :=
      tags_steps ts e1 f1 hc1 exp0 _ hinv1 (by omega) (by omega)
    refine ⟨e2, f2, ?_, hc2, ?_, by simp only [List.length_cons]; omega, by simp only [List.length_cons]; omega⟩
    · simp only [List.map_cons, tags, ht, Option.bind_some]; exact hts
    · simpa [List.append_assoc] using hinv2

/-- a geometry starts one new feature without tags and leaves the tables alone -/
theorem encodeGeom_tags (e e' : Enc) (g : Geom) (h : encodeGeom e g = some e') :
    e'.keys = e.keys ∧ e'.values = e.values ∧ tagWords e' = tagWords e ++ [[]] ∧ ∃ f, e'.cur = some f := by
  cases g with
  | point p =>
    simp only [encodeGeom, encodePoint_eq, Option.some.injEq] at h
    subst h
    exact ⟨rfl, rfl, by simp [tagWords, Enc.features, adv, startFeature], _, rfl⟩
  | line pts =>
    cases pts with
    | nil => simp [encodeGeom, encodeLineString, bind, Option.bind, setType, withCur, startFeature] at h
    | cons p ps =>
      simp only [encodeGeom, encodeLineString_eq, Option.some.injEq] at h
      subst h
      exact ⟨rfl, rfl, by simp [tagWords, Enc.features, adv, startFeature], _, rfl⟩
  | polygon loops =>
    simp only [encodeGeom, encodePolygon_eq, Option.some.injEq] at h
    subst h
    exact ⟨rfl, rfl, by simp [tagWords, Enc.features, adv, startFeature], _, rfl⟩

def tagCount (fs : List FeatureIn) : Nat := (fs.map fun f => f.tags.length).sum

def expectedTags (fs : List FeatureIn) : List (List (String × Val)) :=
  fs.map fun f => f.tags.map fun (k, v) => (k, Val.str v)

theorem encodeFeature_inv (e e' : Enc) (f : FeatureIn) (exp : List (List (String × Val))) (hinv : Inv e exp)
    (hk : e.keys.length + f.tags.length ≤ 2 ^ 32) (hvl : e.values.length + f.tags.length ≤ 2 ^ 32)
    (h : encodeFeature e f = some e') :
    Inv e' (exp ++ [f.tags.map fun (k, v) => (k, Val.str v)]) ∧
      e'.keys.length ≤ e.keys.length + f.tags.length ∧ e'.values.length ≤ e.values.length + f.tags.length := by
  unfold encodeFeature at h
  cases hg : encodeGeom e f.geom with
  | none => simp [hg] at h
  | some e1 =>
    obtain ⟨hk1, hv1, hw1, f1, hc1⟩ := encodeGeom_tags e e1 f.geom hg
    simp only [hg, Option.bind_some] at h
    -- the optional ID
    have hid : ∃ e2 f2, (if f.id ≠ 0 then setID e1 f.id else some e1) = some e2 ∧ e2.cur = some f2 ∧
        e2.keys = e1.keys ∧ e2.values = e1.values ∧ tagWords e2 = tagWords e1 := by
      by_cases hz : f.id ≠ 0
      · rw [if_pos hz]
        simp only [setID, withCur, hc1]
        exact ⟨_, _, rfl, rfl, rfl, rfl, by simp [tagWords, Enc.features, hc1]⟩
      · rw [if_neg hz]
        exact ⟨e1, f1, rfl, hc1, rfl, rfl, rfl⟩
    obtain ⟨e2, f2, hid2, hc2, hk2, hv2, hw2⟩ := hid
    rw [hid2] at h
    simp only [Option.bind_some] at h
    have hinv2 : Inv e2 (exp ++ [[]]) := by
      unfold Inv
      rw [hk2, hv2, hw2, hk1, hv1, hw1]
      exact tagsOk_snoc _ _ _ _ rfl _ _ hinv
    obtain ⟨e3, f3, hts, _, hinv3, hk3, hv3⟩ :=
      tags_steps f.tags e2 f2 hc2 exp [] hinv2 (by rw [hk2, hk1]; exact hk) (by rw [hv2, hv1]; exact hvl)
    rw [hts] at h
    simp only [Option.some.injEq] at h
    subst h
    refine ⟨by simpa using hinv3, ?_, ?_⟩
    · rw [hk2, hk1] at hk3; exact hk3
    · rw [hv2, hv1] at hv3; exact hv3

theorem encodeFeatures_inv : ∀ (fs : List FeatureIn) (e e' : Enc) (exp : List (List (String × Val))), Inv e exp →
    e.keys.length + tagCount fs ≤ 2 ^ 32 → e.values.length + tagCount fs ≤ 2 ^ 32 →
    encodeFeatures e fs = some e' → Inv e' (exp ++ expectedTags fs)
  | [], e, e', exp, hinv, _, _, h => by
    simp only [encodeFeatures, Option.some.injEq] at h
    subst h; simpa [expectedTags] using hinv
  | f :: fs, e, e', exp, hinv, hk, hvl, h => by
    simp only [tagCount, List.map_cons, List.sum_cons] at hk hvl
    simp only [encodeFeatures] at h
    cases h1 : encodeFeature e f with
    | none => simp [h1] at h
    | some e1 =>
      simp only [h1, Option.bind_some] at h
      obtain ⟨hinv1, hk1, hv1⟩ := encodeFeature_inv e e1 f exp hinv (by omega) (by omega) h1
      have := encodeFeatures_inv fs e1 e' _ hinv1 (by unfold tagCount; omega) (by unfold tagCount; omega) h
      simpa [expectedTags, List.append_assoc] using this

/-- **C33, tags.** When a layer of a tile has been encoded (fewer than 2^32 tags in all), the tag words of its
i-th feature decode, through the layer's final key and value tables, to the i-th feature's tags — keys and values,
in the order they were written. -/
theorem tile_tags_roundtrip (x y : Nat) (fs : List FeatureIn) (e' : Enc) (hsize : tagCount fs ≤ 2 ^ 32)
    (h : encodeLayer x y fs = some e') :
    TagsOk e'.keys e'.values (e'.features.map (·.tags)) (expectedTags fs) := by
  have := encodeFeatures_inv fs (newEncoder (tileOrigin x y).1 (tileOrigin x y).2) e' [] trivial
    (by simpa [newEncoder] using hsize) (by simpa [newEncoder] using hsize) h
  simpa [Inv, tagWords] using this

/-- two features sharing a key and a value: tables are interned once, both features decode -/
def exFeatures : List FeatureIn :=
  [{ geom := .point (5, 6), id := 7, tags := [("class", "fountain"), ("name", "x")] },
   { geom := .point (8, 9), id := 0, tags := [("name", "fountain")] }]

example : (encodeLayer 0 0 exFeatures).map (fun e => (e.keys, e.values, e.features.map (·.tags))) =
    some (["class", "name"], [.str "fountain", .str "x"], [[0, 0, 1, 1], [1, 0]]) := by decide

example : decodeTags ["class", "name"] [.str "fountain", .str "x"] [1, 0] = some [("name", .str "fountain")] := by
  decide

end B6.Props.C33
