/-! C33 — property theorems (stub: nothing proved yet). -/
