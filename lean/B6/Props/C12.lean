/-! C12 — property theorems (stub: nothing proved yet). -/
