import B6.Lemmas.MutableRefs
/-!
# C12 — Mutable overlay world behaves like a map of features under any edits

Model: `B6.Model.Mutable` (mutable.go after the C12/C13/C14 `fix:` patches).  Spec: `B6.Spec.World`
(feature id ⇀ tag key ⇀ value).  `tagOf v id k` is what `v.FindFeatureByID(id).Get(k)` shows
(`none` = no such feature), so agreement on `tagOf` is agreement on lookup, existence and tags.

Standing assumptions (all satisfied by worlds built by the code itself, see the `example`s):
`b.IdsOK` — the base hands out, under an id, a feature carrying that id; `l.FeatsId` — same for the
overlay table (it holds initially and is preserved, `featsId_step`).
-/
namespace B6.Props.C12
open B6.Model.Mutable B6.Spec.World

/-- **One step.** Whatever the operation and whatever the world answers (except the "partially
applied" answer of a merged change, which C13 rules out), the tag reads of the world afterwards are
those of the per-feature map after the same operation — applied when accepted, untouched when
rejected. -/
theorem overlay_refines_map {b : View} {o : Oracle} {l l' : Layer} {op : Op} {r : Option Err} {w : World}
    (hb : b.IdsOK) (hl : l.FeatsId) (hw : LRefines b l w) (h : l.step b o op = (l', r))
    (hp : r ≠ some .partiallyApplied) :
    LRefines b l' (step w op r) := by
  cases op with
  | addFeature f =>
    simp only [Layer.step] at h
    cases r with
    | none => exact refines_addFeature hb hl hw h
    | some e => exact refines_addFeature_err hw h
  | addTag id t =>
    simp only [Layer.step] at h
    cases hs : l.addTag b id t with
    | ok l1 =>
      rw [hs] at h
      simp only [Prod.mk.injEq] at h
      obtain ⟨rfl, rfl⟩ := h
      exact refines_addTag hb hl hw hs
    | error e =>
      rw [hs] at h
      simp only [Prod.mk.injEq] at h
      obtain ⟨rfl, rfl⟩ := h
      exact hw
  | removeTag id k =>
    simp only [Layer.step] at h
    cases hs : l.removeTag b id k with
    | ok l1 =>
      rw [hs] at h
      simp only [Prod.mk.injEq] at h
      obtain ⟨rfl, rfl⟩ := h
      exact refines_removeTag hb hl hw hs
    | error e =>
      rw [hs] at h
      simp only [Prod.mk.injEq] at h
      obtain ⟨rfl, rfl⟩ := h
      exact hw
  | merged cs =>
    simp only [Layer.step] at h
    rcases mergedApply_cases b o l cs with ⟨e, _, he, _⟩ | ⟨l1, h1, h2⟩ | ⟨l1, e, h1, _, _⟩
    · rw [he] at h
      simp only [Prod.mk.injEq] at h
      obtain ⟨rfl, rfl⟩ := h
      exact hw
    · rw [h1] at h
      simp only [Prod.mk.injEq] at h
      obtain ⟨rfl, rfl⟩ := h
      exact (applyAll_spec hb cs l l1 none hl h2).2.2 rfl w hw
    · rw [h1] at h
      simp only [Prod.mk.injEq] at h
      obtain ⟨_, rfl⟩ := h
      exact absurd rfl hp

/-- the overlay table stays consistent under every operation and every answer -/
theorem featsId_step {b : View} {o : Oracle} {l l' : Layer} {op : Op} {r : Option Err}
    (hb : b.IdsOK) (hl : l.FeatsId) (h : l.step b o op = (l', r)) : l'.FeatsId := by
  cases op with
  | addFeature f => exact featsId_addFeature hl h
  | addTag id t =>
    simp only [Layer.step] at h
    cases hs : l.addTag b id t with
    | ok l1 =>
      rw [hs] at h; simp only [Prod.mk.injEq] at h; obtain ⟨rfl, _⟩ := h
      exact featsId_addTag hl hs
    | error e => rw [hs] at h; simp only [Prod.mk.injEq] at h; obtain ⟨rfl, _⟩ := h; exact hl
  | removeTag id k =>
    simp only [Layer.step] at h
    cases hs : l.removeTag b id k with
    | ok l1 =>
      rw [hs] at h; simp only [Prod.mk.injEq] at h; obtain ⟨rfl, _⟩ := h
      exact featsId_removeTag hl hs
    | error e => rw [hs] at h; simp only [Prod.mk.injEq] at h; obtain ⟨rfl, _⟩ := h; exact hl
  | merged cs =>
    simp only [Layer.step] at h
    rcases mergedApply_cases b o l cs with ⟨e, _, he, _⟩ | ⟨l1, h1, h2⟩ | ⟨l1, e, h1, h2, _⟩
    · rw [he] at h; simp only [Prod.mk.injEq] at h; obtain ⟨rfl, _⟩ := h; exact hl
    · rw [h1] at h; simp only [Prod.mk.injEq] at h; obtain ⟨rfl, _⟩ := h
      exact (applyAll_spec hb cs l l1 none hl h2).1
    · rw [h1] at h; simp only [Prod.mk.injEq] at h; obtain ⟨rfl, _⟩ := h
      exact (applyAll_spec hb cs l l1 (some e) hl h2).1

/-- **Any history.** After any sequence of operations, every tag read equals the read of the map
that went through the same operations with the same answers. -/
theorem overlay_refines_map_ops {b : View} {o : Oracle} (hb : b.IdsOK) (ops : List Op) :
    ∀ (l : Layer) (w : World), l.FeatsId → LRefines b l w →
      (∀ r ∈ (runOps b o l ops).2, r ≠ some Err.partiallyApplied) →
      LRefines b (runOps b o l ops).1 (run w ops (runOps b o l ops).2) := by
  induction ops with
  | nil => intro l w _ hw _; exact hw
  | cons op rest ih =>
    intro l w hl hw hp
    simp only [runOps, run]
    have hstep : l.step b o op = ((l.step b o op).1, (l.step b o op).2) := rfl
    have hp0 : (l.step b o op).2 ≠ some Err.partiallyApplied := hp _ (by simp [runOps])
    apply ih _ _ (featsId_step hb hl hstep) (overlay_refines_map hb hl hw hstep hp0)
    intro r hr
    exact hp r (by simp [runOps, hr])

/-- tag reads of an id that an operation does not name are not changed by it — whatever it answers -/
theorem step_frame {b : View} {o : Oracle} {l l' : Layer} {op : Op} {r : Option Err}
    (hb : b.IdsOK) (hl : l.FeatsId) (h : l.step b o op = (l', r)) : Frame b l l' (opIds op) := by
  cases op with
  | addFeature f => exact frame_addFeature hb hl h
  | addTag id t =>
    simp only [Layer.step] at h
    cases hs : l.addTag b id t with
    | ok l1 =>
      rw [hs] at h; simp only [Prod.mk.injEq] at h; obtain ⟨rfl, _⟩ := h
      exact frame_addTag hb hl hs
    | error e => rw [hs] at h; simp only [Prod.mk.injEq] at h; obtain ⟨rfl, _⟩ := h; exact Frame.refl _ _ _
  | removeTag id k =>
    simp only [Layer.step] at h
    cases hs : l.removeTag b id k with
    | ok l1 =>
      rw [hs] at h; simp only [Prod.mk.injEq] at h; obtain ⟨rfl, _⟩ := h
      exact frame_removeTag hb hl hs
    | error e => rw [hs] at h; simp only [Prod.mk.injEq] at h; obtain ⟨rfl, _⟩ := h; exact Frame.refl _ _ _
  | merged cs =>
    simp only [Layer.step] at h
    rcases mergedApply_cases b o l cs with ⟨e, _, he, _⟩ | ⟨l1, h1, h2⟩ | ⟨l1, e, h1, h2, _⟩
    · rw [he] at h; simp only [Prod.mk.injEq] at h; obtain ⟨rfl, _⟩ := h; exact Frame.refl _ _ _
    · rw [h1] at h; simp only [Prod.mk.injEq] at h; obtain ⟨rfl, _⟩ := h
      exact (applyAll_spec hb cs l l1 none hl h2).2.1
    · rw [h1] at h; simp only [Prod.mk.injEq] at h; obtain ⟨rfl, _⟩ := h
      exact (applyAll_spec hb cs l l1 (some e) hl h2).2.1

theorem runOps_frame {b : View} {o : Oracle} (hb : b.IdsOK) (ops : List Op) :
    ∀ (l : Layer), l.FeatsId → Frame b l (runOps b o l ops).1 (ops.flatMap opIds) := by
  induction ops with
  | nil => intro l _; exact Frame.refl _ _ _
  | cons op rest ih =>
    intro l hl
    have hstep : l.step b o op = ((l.step b o op).1, (l.step b o op).2) := rfl
    simp only [runOps, List.flatMap_cons]
    exact (step_frame hb hl hstep).trans (ih _ (featsId_step hb hl hstep))

/-- a fresh overlay shows the base as it is -/
theorem tagOf_empty (b : View) (id : Id) (k : Key) :
    tagOf (Layer.empty.view b (Layer.empty.loc b)) id k = tagOf b id k := by
  rw [tagOf_view, layerTag_none (by simp [Layer.empty])]
  simp only [Layer.empty, modsOf, AMap.get_nil, modLookup]
  cases tagOf b id k <;> rfl

/-- **Untouched base.** A feature that no operation of the history names reads, after the history, as
in the base (existence and every tag) — including histories with rejected calls and the referrers
that `AddFeature` copies into the overlay on the side. -/
theorem untouched_base {b : View} {o : Oracle} (hb : b.IdsOK) (ops : List Op) (id : Id)
    (hid : id ∉ ops.flatMap opIds) (k : Key) :
    tagOf ((runOps b o Layer.empty ops).1.view b ((runOps b o Layer.empty ops).1.loc b)) id k = tagOf b id k := by
  have hl : Layer.empty.FeatsId := by intro i f h; simp [Layer.empty] at h
  rw [runOps_frame hb ops Layer.empty hl id hid k, tagOf_empty]

/-! ## The search index -/

/-- **Index invariant, one step.** `l.WF b` bundles: the overlay table is keyed consistently, every
token's posting list is strictly increasing and holds exactly the overlay features whose current tags
produce the token (`IndexInv`), tag lists have one tag per key and `=`-free keys, recorded
modifications only concern plain keys.  Every operation, whatever it answers, preserves it (so C03's
search results over the index are right after every op). -/
theorem index_inv_step {b : View} {o : Oracle} {l l' : Layer} {op : Op} {r : Option Err}
    (hb : b.IdsOK) (hbt : b.TagsOK) (hw : l.WF b) (hop : opOK op) (h : l.step b o op = (l', r)) :
    IndexInv l' := (wf_step hb hbt hw hop h).index

/-- **Index invariant, any history** from a fresh overlay. -/
theorem index_inv_ops {b : View} {o : Oracle} (hb : b.IdsOK) (hbt : b.TagsOK) (ops : List Op)
    (hop : ∀ op ∈ ops, opOK op) : IndexInv (runOps b o Layer.empty ops).1 :=
  (wf_runOps hb hbt ops Layer.empty (wf_empty b) hop).index

/-- **Reference table, one step.** `m.references` is exactly the inverse of the references (path points,
area paths, relation members, collection keys) of the features the overlay currently holds — after every
operation and whatever it answers (rejected `AddFeature`s included): `AddFeature`'s remove / merge / re-add
sequence over the existing feature, the referrers already in the overlay and the copied ones, and
`AddTag` / `RemoveTag`'s copies keep it so. -/
theorem refs_inv_step {b : View} {o : Oracle} {l l' : Layer} {op : Op} {r : Option Err}
    (hb : b.IdsOK) (hl : l.FeatsId) (hi : RefsInv l) (h : l.step b o op = (l', r)) : RefsInv l' :=
  (refsInv_step hb hl hi h).1

/-- **Reference table, any history** from a fresh overlay. -/
theorem refs_inv_ops {b : View} {o : Oracle} (hb : b.IdsOK) (ops : List Op) :
    RefsInv (runOps b o Layer.empty ops).1 :=
  refsInv_runOps hb ops Layer.empty (fun i f h => by simp [Layer.empty] at h) refsInv_empty

/-- **`sortAndDiffTokens` is a set difference** — in the model by construction, and, since
`fixes/C12-diff-tokens-as-sets.patch`, in the code (which skips repeated tokens; before it counted them,
and a token going from two occurrences to one was "removed": S2 ancestor-cell tokens do repeat, tag tokens
of a well-formed feature do not — `tokens_nodup`).  The model carries tag tokens only; the cell-token side
is tied by the `spatial` line of the dumps (search index vs brute force, `propfail spatial-search-complete`). -/
theorem diff_tokens_set (before after : List Token) (t : Token) :
    (t ∈ (diffTokens before after).1 ↔ t ∈ after ∧ t ∉ before) ∧
    (t ∈ (diffTokens before after).2 ↔ t ∈ before ∧ t ∉ after) := by
  simp [diffTokens, List.mem_filter]

/-- re-indexing with the set difference puts the feature under exactly its current tokens, however the
token lists repeat -/
theorem reindex_exact {ix : List (Token × List Id)} {id : Id} {before after : List Token}
    (H : ∀ t, id ∈ postings ix t ↔ t ∈ before) (t : Token) :
    id ∈ postings (reindex ix id before after) t ↔ t ∈ after := reindex_self H t

/-- **Tag search refines the map.** If the base's own tag search is exact, then after any state reached
(`l.WF b`) every single-token search of the world returns exactly — and in id order — the features
whose tags in the per-feature map produce the token. -/
theorem search_refines_map {b : View} {l : Layer} {w : World}
    (hbs : b.SearchOK) (hbt : b.TagsOK) (hw : l.WF b) (hr : LRefines b l w) (hn : KeysNodup w) (t : Token) :
    (l.view b (l.loc b)).search t = matching w t := by
  apply sorted_ext ((search_ok hbs hw (l.loc b)) t).1 (sorted_matching w t)
  intro id
  rw [((search_ok hbs hw (l.loc b)) t).2 id, mem_matching]
  have htags := view_tagsOK hbt hw.tags hw.mods (l.loc b)
  constructor
  · rintro ⟨fv, hfv, ht⟩
    have href : ∀ k, B6.Spec.World.tagOf w id k = some (AMap.get fv.f.tags k) := by
      intro k; rw [← hr id k]; simp [B6.Model.Mutable.tagOf, hfv]
    cases hm : find w id with
    | none => have := href ""; simp [B6.Spec.World.tagOf, hm] at this
    | some m =>
      refine ⟨by simp [ids, AMap.mem_keys_iff]; simp only [find] at hm; rw [hm]; rfl, ?_⟩
      obtain ⟨tg, htg, htok⟩ := (mem_tokensFor fv.f t).1 ht
      have hg : AMap.get fv.f.tags tg.1 = some tg.2 := get_eq_some_of_mem (htags id fv hfv).1 htg
      have hk := href tg.1
      simp only [B6.Spec.World.tagOf, hm, Option.map_some, Option.some.injEq] at hk
      rw [hg] at hk
      simp only [produces, hm, List.any_eq_true, beq_iff_eq]
      exact ⟨tg, AMap.get_some_mem hk, htok⟩
  · rintro ⟨hid, hp⟩
    cases hm : find w id with
    | none => simp [produces, hm] at hp
    | some m =>
      simp only [produces, hm, List.any_eq_true, beq_iff_eq] at hp
      obtain ⟨e, he, htok⟩ := hp
      have hk := hr id e.1
      simp only [B6.Spec.World.tagOf, hm, Option.map_some] at hk
      cases hfv : (l.view b (l.loc b)).find id with
      | none => simp [B6.Model.Mutable.tagOf, hfv] at hk
      | some fv =>
        refine ⟨fv, rfl, (mem_tokensFor fv.f t).2 ⟨e, ?_, htok⟩⟩
        simp only [B6.Model.Mutable.tagOf, hfv, Option.map_some, Option.some.injEq] at hk
        rw [(mem_iff_get (hn id m hm) e.1 e.2).1 he] at hk
        exact AMap.get_some_mem hk

/-- **Enumeration refines the map.** `EachFeature` visits exactly the features of the map. -/
theorem each_refines_map {b : View} {l : Layer} {w : World}
    (hbi : b.IdsExact) (hr : LRefines b l w) (id : Id) :
    id ∈ (l.view b (l.loc b)).ids ↔ id ∈ ids w := by
  rw [ids_exact hbi (l.loc b) id, ids, AMap.mem_keys_iff]
  have := hr id ""
  simp only [B6.Model.Mutable.tagOf, B6.Spec.World.tagOf, find] at this
  cases h1 : (l.view b (l.loc b)).find id <;> cases h2 : AMap.get w id <;> simp [h1, h2] at this ⊢

/-! ## Non-vacuity: the drivers' root world satisfies every standing assumption -/

/-- two points, a path through them, searchable and plain tags, a string and an int value -/
def exampleRoot : List Feature :=
  [⟨1, [("name", ⟨"s", "a"⟩), ("#amenity", ⟨"s", "cafe"⟩)], .point (515370213, -1250817)⟩,
   ⟨2, [], .point (515360127, -1251339)⟩,
   ⟨1005, [("@lit", ⟨"i", "5"⟩)], .path [1, 2]⟩]

theorem keyOK_of_decide (k : Key) (h : k.toList.contains '=' = false) : keyOK k := by
  unfold keyOK; intro hm; have : k.toList.contains '=' = true := by simpa using hm
  rw [h] at this; cases this

theorem exampleRoot_tagsOK : ∀ f ∈ exampleRoot, TagsOK f.tags := by
  intro f hf
  simp only [exampleRoot, List.mem_cons, List.not_mem_nil, or_false] at hf
  rcases hf with rfl | rfl | rfl
  · refine ⟨by decide, fun tg htg => ?_⟩
    simp only [List.mem_cons, List.not_mem_nil, or_false] at htg
    rcases htg with rfl | rfl <;> exact keyOK_of_decide _ (by decide)
  · exact ⟨by decide, by simp⟩
  · refine ⟨by decide, fun tg htg => ?_⟩
    simp only [List.mem_cons, List.not_mem_nil, or_false] at htg
    rcases htg with rfl
    exact keyOK_of_decide _ (by decide)

/-- the hypotheses of `overlay_refines_map_ops`, `untouched_base`, `index_inv_ops`,
`search_refines_map`, `each_refines_map` hold for a fresh overlay over `exampleRoot`, and the history
`AddTag name (plain) ; AddTag #amenity (searchable)` on base point 2 — the witness of the repaired
defect — keeps `name` and is found by the search. -/
example : (rootView exampleRoot).IdsOK ∧ (rootView exampleRoot).TagsOK ∧ (rootView exampleRoot).SearchOK ∧
    (rootView exampleRoot).IdsExact ∧ (Layer.empty.WF (rootView exampleRoot)) :=
  ⟨rootView_idsOK _, rootView_tagsOK _ exampleRoot_tagsOK, rootView_searchOK _, rootView_idsExact _, wf_empty _⟩

def exampleOps : List Op :=
  [.addTag 2 ("name", ⟨"s", "plain"⟩), .addTag 2 ("#amenity", ⟨"s", "cafe"⟩)]

example : opOK (exampleOps[0]) ∧ opOK (exampleOps[1]) :=
  ⟨keyOK_of_decide _ (by decide), keyOK_of_decide _ (by decide)⟩

example :
    let l := (runOps (rootView exampleRoot) ⟨fun _ => true, fun _ => false⟩ Layer.empty exampleOps).1
    let v := l.view (rootView exampleRoot) (l.loc (rootView exampleRoot))
    tagOf v 2 "name" = some (some ⟨"s", "plain"⟩) ∧ v.search "amenity=cafe" = [1, 2] := by
  decide

/-- relations: a relation that contains itself and a base point, then a relation of that relation — the
world's `FindReferences` follows the chain and ends on the cycle -/
example :
    let l := (runOps (rootView exampleRoot) ⟨fun _ => true, fun _ => false⟩ Layer.empty
      [.addFeature ⟨3012, [], .relation [3012, 1]⟩, .addFeature ⟨3013, [], .relation [3012]⟩]).1
    let v := l.view (rootView exampleRoot) (l.loc (rootView exampleRoot))
    sameRefs (v.refs 1) [1005, 3012, 3013] = true ∧ sameRefs (v.refs 3012) [3012, 3013] = true := by
  decide

end B6.Props.C12
