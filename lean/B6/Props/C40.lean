import B6.Model.Proto.Service
import B6.Model.Proto.Worlds
import B6.Lemmas.ProtoService
import B6.Lemmas.ProtoServiceInv
import B6.Lemmas.ProtoServiceLive
import B6.Lemmas.ProtoWorlds
/-!
# C40 — Concurrent client requests behave like some serial order

About `B6.Model.Proto.Service` (the lock protocol of the gRPC service: `RLock` … `RUnlock; Lock; apply;
Unlock; RLock` … `RUnlock`, the `MutableWorlds` map with orphaned world objects, writer-preferring or plain
`RWMutex`) and `B6.Model.Proto.Worlds` (`MutableWorlds` with its mutex spelled out).  Every theorem is for
ALL interleavings: any number of clients, any requests, any initial worlds, any reachable state, both
`RWMutex` disciplines (`pref`).
-/
namespace B6.Props.C40
open B6.Model.Proto B6.Model.Proto.Service B6.Lemmas.ProtoService

/-! ## invariants along every run -/

theorem lockInv_init (base : World) (v0 : View) (reqs : List Req) : LockInv (init base v0 reqs) := by
  have hr : ∀ r : Req, isReader ({ req := r, pc := startPc r } : Client) = false := by
    intro r; cases r <;> rfl
  have hw : ∀ r : Req, isWriter ({ req := r, pc := startPc r } : Client) = false := by
    intro r; cases r <;> rfl
  refine ⟨?_, ?_, by simp [init]⟩
  · simp only [init, List.countP_map]
    symm; apply List.countP_eq_zero.mpr
    intro r _; simp [Function.comp, hr]
  · simp only [init, List.countP_map]
    apply List.countP_eq_zero.mpr
    intro r _; simp [Function.comp, hw]

theorem reachable_lockInv {pref : Bool} {base : World} {v0 : View} {reqs : List Req} {s : State}
    (h : Reachable (step pref) (init base v0 reqs) s) : LockInv s :=
  Reachable.invariant LockInv (lockInv_init base v0 reqs) (fun s s' => lockInv_step pref s s') s h

theorem reachable_weakInv {pref : Bool} {base : World} {v0 : View} {reqs : List Req} {s : State}
    (h : Reachable (step pref) (init base v0 reqs) s) : WeakInv s :=
  Reachable.invariant WeakInv (weakInv_init base v0 reqs) (fun s s' => weakInv_step pref s s') s h

theorem reachable_inv {pref : Bool} {base : World} {v0 : View} {reqs : List Req} (hcf : conflictFree reqs = true)
    {s : State} (h : Reachable (step pref) (init base v0 reqs) s) : Inv base v0 reqs s :=
  Reachable.invariant (Inv base v0 reqs) (inv_init base v0 reqs) (fun s s' => inv_step hcf pref s s') s h

/-! ## the theorems -/

/-- **No deadlock**: in no reachable state is every unfinished client blocked — for any set of evaluate (query or
change), delete-world and list-worlds requests.  (The upgrade releases the read lock before asking for the
write lock.) -/
theorem svc_no_deadlock (pref : Bool) (base : World) (v0 : View) (reqs : List Req) (s : State)
    (h : Reachable (step pref) (init base v0 reqs) s) : deadlocked (step pref) terminal s = false :=
  not_deadlocked pref s (reachable_weakInv h) (reachable_lockInv h)

theorem countP_unique {α} (p : α → Bool) : ∀ (l : List α) (i j : Nat) (a b : α), l.countP p ≤ 1 →
    l[i]? = some a → l[j]? = some b → p a = true → p b = true → i = j := by
  intro l
  induction l with
  | nil => intro i j a b _ hi; simp at hi
  | cons x rest ih =>
    intro i j a b hc hi hj ha hb
    rw [List.countP_cons] at hc
    cases i with
    | zero =>
      cases j with
      | zero => rfl
      | succ j =>
        simp at hi hj; subst hi
        have : 0 < rest.countP p := List.countP_pos_iff.mpr ⟨b, List.mem_of_getElem? hj, hb⟩
        rw [ha] at hc; simp only [↓reduceIte] at hc; omega
    | succ i =>
      cases j with
      | zero =>
        simp at hi hj; subst hj
        have : 0 < rest.countP p := List.countP_pos_iff.mpr ⟨a, List.mem_of_getElem? hi, ha⟩
        rw [hb] at hc; simp only [↓reduceIte] at hc; omega
      | succ j =>
        simp at hi hj
        have := ih i j a b (by omega) hi hj ha hb
        omega

/-- **The write phase is exclusive**: while a client is between `Lock()` and `Unlock()` (applying its change),
no client is in a read phase and no other client is in a write phase. -/
theorem writer_excludes_readers (pref : Bool) (base : World) (v0 : View) (reqs : List Req) (s : State)
    (h : Reachable (step pref) (init base v0 reqs) s) (i : Nat) (ci : Client) (hi : s.clients[i]? = some ci)
    (hw : isWriter ci = true) :
    (∀ (j : Nat) (cj : Client), s.clients[j]? = some cj → isReader cj = false) ∧
    (∀ (j : Nat) (cj : Client), s.clients[j]? = some cj → isWriter cj = true → j = i) := by
  have hl := reachable_lockInv h
  have hpos : 0 < s.clients.countP isWriter := List.countP_pos_iff.mpr ⟨ci, List.mem_of_getElem? hi, hw⟩
  have hwr : s.writer = true := by
    have := hl.writers
    cases hsw : s.writer
    · rw [hsw] at this; simp only [Bool.false_eq_true, ↓reduceIte] at this; omega
    · rfl
  have hone : s.clients.countP isWriter = 1 := by have := hl.writers; rw [hwr] at this; simpa using this
  constructor
  · intro j cj hj
    have hr0 : s.clients.countP isReader = 0 := by rw [← hl.readers]; exact hl.excl hwr
    have := List.countP_eq_zero.mp hr0 cj (List.mem_of_getElem? hj)
    cases hrj : isReader cj
    · rfl
    · exact absurd hrj this
  · intro j cj hj hwj
    exact countP_unique isWriter s.clients j i cj ci (by omega) hj hi hwj hw

/-! ### lock balance — also on the path of a change that FAILS while being applied

A request's change may contain a failing element (`Write.fail`: add-tag on a missing feature, an invalid
feature, a failing part of a merged change); `Apply` then stops and returns an error (`applyFails`).  In
`service.go` the error is looked at after `Unlock(); RLock()`, so the failing path takes exactly the lock steps
of the succeeding one — that is `clientStep`, and `svc_no_deadlock`, `writer_excludes_readers` and the three
theorems below hold for every request set, failing changes included. -/

/-- A client only ever `RUnlock`s while it holds the read lock (it is one of the `readers` holders), and only
`Unlock`s while it holds the write lock. -/
theorem unlock_only_when_held (pref : Bool) (base : World) (v0 : View) (reqs : List Req) (s : State)
    (h : Reachable (step pref) (init base v0 reqs) s) (i : Nat) (c : Client) (hc : s.clients[i]? = some c) :
    ((c.pc = .upRUnlock ∨ c.pc = .finalRUnlock) → isReader c = true ∧ 0 < s.readers) ∧
    (c.pc = .wunlock → isWriter c = true ∧ s.writer = true) := by
  have hl := reachable_lockInv h
  constructor
  · intro hpc
    have hr : isReader c = true := by rcases hpc with e | e <;> simp [isReader, e]
    refine ⟨hr, ?_⟩
    rw [hl.readers]
    exact List.countP_pos_iff.mpr ⟨c, List.mem_of_getElem? hc, hr⟩
  · intro hpc
    have hw : isWriter c = true := by simp [isWriter, hpc]
    refine ⟨hw, ?_⟩
    have hpos : 0 < s.clients.countP isWriter := List.countP_pos_iff.mpr ⟨c, List.mem_of_getElem? hc, hw⟩
    have := hl.writers
    cases hsw : s.writer
    · rw [hsw] at this; simp only [Bool.false_eq_true, ↓reduceIte] at this; omega
    · rfl

/-- The number of read-lock holders is exactly the number of clients inside a read phase, at every moment. -/
theorem readers_balance (pref : Bool) (base : World) (v0 : View) (reqs : List Req) (s : State)
    (h : Reachable (step pref) (init base v0 reqs) s) : s.readers = s.clients.countP isReader :=
  (reachable_lockInv h).readers

/-- When every request has returned, every lock has been released: each client released what it acquired. -/
theorem locks_released_at_end (pref : Bool) (base : World) (v0 : View) (reqs : List Req) (s : State)
    (h : Reachable (step pref) (init base v0 reqs) s) (ht : terminal s = true) :
    s.readers = 0 ∧ s.writer = false := by
  have hl := reachable_lockInv h
  have hdone : ∀ c ∈ s.clients, c.pc = Pc.done := by
    intro c hc; simpa using (List.all_eq_true.mp ht) c hc
  have hr : s.clients.countP isReader = 0 :=
    List.countP_eq_zero.mpr (fun c hc => by simp [isReader, hdone c hc])
  have hw : s.clients.countP isWriter = 0 :=
    List.countP_eq_zero.mpr (fun c hc => by simp [isWriter, hdone c hc])
  refine ⟨by rw [hl.readers, hr], ?_⟩
  have := hl.writers
  rw [hw] at this
  cases hsw : s.writer
  · rfl
  · rw [hsw] at this; simp at this

/-- a change that fails while being applied -/
def failing : Req := .change 0 [⟨none, .fail 9⟩]

/-- **The early-return order breaks the balance** (`stepEarlyReturn`: `Unlock(); if err != nil { return };
RLock()`): a single failing change reaches its deferred `RUnlock` with nobody holding the read lock — Go's
`fatal error: sync: RUnlock of unlocked RWMutex`. -/
theorem early_return_runlock_unheld (pref : Bool) :
    ∃ s, Reachable (stepEarlyReturn pref) (init [] [(0, [])] [failing]) s ∧
      s.clients.map (·.pc) = [Pc.finalRUnlock] ∧ s.readers = 0 := by
  cases pref
  · exact ⟨(runSched (stepEarlyReturn false) (init [] [(0, [])] [failing]) [0, 0, 0, 0, 0, 0, 0]).get (by decide),
      Reachable.of_runSched [0, 0, 0, 0, 0, 0, 0] _ _ Reachable.refl (by simp), by decide, by decide⟩
  · exact ⟨(runSched (stepEarlyReturn true) (init [] [(0, [])] [failing]) [0, 0, 0, 0, 0, 0, 0]).get (by decide),
      Reachable.of_runSched [0, 0, 0, 0, 0, 0, 0] _ _ Reachable.refl (by simp), by decide, by decide⟩

/-- … and with a reader in flight the stray `RUnlock` releases THAT reader's hold: a writer then applies its
change while the reader is still in its read phase (`writer_excludes_readers` fails for the early-return order). -/
theorem early_return_writer_meets_reader (pref : Bool) :
    ∃ s, Reachable (stepEarlyReturn pref) (init [] [(0, [])] [failing, .query 0, .change 0 [⟨none, .set 1 1⟩]]) s ∧
      s.clients.map (·.pc) = [Pc.done, Pc.eval, Pc.apply] ∧ s.writer = true := by
  cases pref
  · exact ⟨(runSched (stepEarlyReturn false) (init [] [(0, [])] [failing, .query 0, .change 0 [⟨none, .set 1 1⟩]])
        [0, 0, 0, 0, 0, 0, 0, 1, 1, 0, 1, 1, 1, 1, 1]).get (by decide),
      Reachable.of_runSched [0, 0, 0, 0, 0, 0, 0, 1, 1, 0, 1, 1, 1, 1, 1] _ _ Reachable.refl (by simp), by decide, by decide⟩
  · exact ⟨(runSched (stepEarlyReturn true) (init [] [(0, [])] [failing, .query 0, .change 0 [⟨none, .set 1 1⟩]])
        [0, 0, 0, 0, 0, 0, 0, 1, 1, 0, 1, 1, 1, 1, 1]).get (by decide),
      Reachable.of_runSched [0, 0, 0, 0, 0, 0, 0, 1, 1, 0, 1, 1, 1, 1, 1] _ _ Reachable.refl (by simp), by decide, by decide⟩

-- the failing path exists in the model of the code as it is: the change fails, the world keeps what was applied
-- before the failing element, and the client still walks through rlock2 and finalRUnlock
example : applyFails [.set 1 1, .fail 9, .set 2 2] = true ∧ applyWrites [] [.set 1 1, .fail 9, .set 2 2] = [(1, 1)] := by decide
example : ((runSched (step true) (init [] [(0, [])] [failing]) [0, 0, 0, 0, 0, 0, 0, 0]).map
    fun s => (s.clients.map (·.pc), s.readers)) = some ([Pc.finalRUnlock], 1) := by decide

/-- The full statement of the property for the final worlds. -/
def SerializableStatement : Prop :=
  ∀ (pref : Bool) (base : World) (v0 : View) (reqs : List Req) (s : State),
    Reachable (step pref) (init base v0 reqs) s → terminal s = true →
    ∃ order : List Req, order.Perm reqs ∧ ∀ wid, lookupWorld s wid = vfind (serialRun base v0 order) wid

/-- **Serializable when no request's change depends on state another request writes** (`conflictFree`: no guard
of one request reads a key of the same world that another request's change writes): after all requests have
returned, the worlds are exactly those produced by running the same requests one at a time in some order
(a permutation of the requests), including which world IDs exist.  Deletions, re-creations and orphaned world
objects included. -/
theorem serializable_blind (pref : Bool) (base : World) (v0 : View) (reqs : List Req)
    (hcf : conflictFree reqs = true) (s : State)
    (h : Reachable (step pref) (init base v0 reqs) s) (ht : terminal s = true) :
    ∃ order : List Req, order.Perm reqs ∧ ∀ wid, lookupWorld s wid = vfind (serialRun base v0 order) wid := by
  have hinv := reachable_inv hcf h
  -- every client is done, hence logged
  have hdone : ∀ c ∈ s.clients, c.pc = Pc.done := by
    intro c hc
    have := (List.all_eq_true.mp ht) c hc
    simpa using this
  have hlogged : ∀ (j : Nat) (c : Client), s.clients[j]? = some c → c.logged = true := by
    intro j c hj
    have hp := (hinv.cl j c hj).phase
    have hd := hdone c (List.mem_of_getElem? hj)
    unfold phaseOk at hp
    cases hr : c.req <;> simp [hr, hd] at hp <;> simp [hp]
  refine ⟨s.log, ?_, ?_⟩
  · have hf : s.clients.filter (·.logged) = s.clients := by
      apply List.filter_eq_self.mpr
      intro c hc
      obtain ⟨j, hj⟩ := List.getElem?_of_mem hc
      exact hlogged j c hj
    have := hinv.perm
    rw [hf, hinv.hreqs] at this
    exact this
  · intro wid
    have := hinv.rel wid
    unfold Rel at this
    unfold lookupWorld
    split
    · rename_i o ho
      rw [ho] at this
      rcases this with ⟨w, hw, ha⟩ | ⟨_, _, j, c, hj, _, hl⟩
      · rw [hw, ha]
      · rw [hlogged j c hj] at hl; simp at hl
    · rename_i ho
      rw [ho] at this
      exact this.symm

/-! ## the full statement is false: write skew -/

/-- A: "tag q (key 1) onto the feature if it has p (key 0)" -/
def skewA : Req := .change 0 [⟨some (0, true), .set 1 1⟩]
/-- B: "remove p from the feature if it has no q" -/
def skewB : Req := .change 0 [⟨some (1, false), .del 0⟩]
/-- one world with one feature tagged p -/
def skewV0 : View := [(0, [(0, 1)])]

/-- both requests read before either writes (schedule for writer-preferring and for plain RWMutex) -/
def skewSched : Bool → List Nat
  | true => [0, 0, 0, 1, 1, 1, 0, 0, 0, 0, 0, 0, 0, 0, 0, 0, 0, 0]
  | false => [0, 0, 0, 1, 1, 1, 0, 0, 0, 0, 0, 1, 0, 0, 0, 0, 0, 0]

theorem perm_pair {α} {a b : α} {l : List α} (h : l.Perm [a, b]) : l = [a, b] ∨ l = [b, a] := by
  have hlen := h.length_eq
  match l, hlen with
  | [x, y], _ =>
    have hx : x ∈ [a, b] := h.subset (by simp)
    have hy : y ∈ [a, b] := h.subset (by simp)
    have ha : a ∈ [x, y] := h.symm.subset (by simp)
    have hb : b ∈ [x, y] := h.symm.subset (by simp)
    simp at hx hy ha hb
    rcases hx with rfl | rfl
    · rcases hb with rfl | rfl
      · rcases hy with rfl | rfl <;> simp
      · simp
    · rcases ha with rfl | rfl
      · rcases hy with rfl | rfl <;> simp
      · simp

theorem skew_not_conflictFree : conflictFree [skewA, skewB] = false := by decide

/-- **Write skew**: with `skewA` and `skewB` issued concurrently on a world holding one feature tagged p, both
read `{p}` under the read lock, then both apply: the result `{q}` is produced by neither serial order
(`A;B` gives `{p,q}`, `B;A` gives `{}`).  For both RWMutex disciplines.  The change is computed under the read
lock and applied later under the write lock — a property of the design, recorded as a finding. -/
theorem write_skew_counterexample (pref : Bool) :
    ∃ s, Reachable (step pref) (init [] skewV0 [skewA, skewB]) s ∧ terminal s = true ∧
      ¬ ∃ order : List Req, order.Perm [skewA, skewB] ∧
          ∀ wid, lookupWorld s wid = vfind (serialRun [] skewV0 order) wid := by
  cases pref
  · refine ⟨(runSched (step false) (init [] skewV0 [skewA, skewB]) (skewSched false)).get (by decide), ?_,
      by decide, ?_⟩
    · exact Reachable.of_runSched (skewSched false) _ _ Reachable.refl (by simp)
    · rintro ⟨order, hp, hv⟩
      have h0 := hv 0
      rcases perm_pair hp with rfl | rfl
      · exact absurd h0 (by decide)
      · exact absurd h0 (by decide)
  · refine ⟨(runSched (step true) (init [] skewV0 [skewA, skewB]) (skewSched true)).get (by decide), ?_,
      by decide, ?_⟩
    · exact Reachable.of_runSched (skewSched true) _ _ Reachable.refl (by simp)
    · rintro ⟨order, hp, hv⟩
      have h0 := hv 0
      rcases perm_pair hp with rfl | rfl
      · exact absurd h0 (by decide)
      · exact absurd h0 (by decide)

theorem not_serializable : ¬ SerializableStatement := by
  intro h
  obtain ⟨s, hr, ht, hn⟩ := write_skew_counterexample true
  exact hn (h true [] skewV0 [skewA, skewB] s hr ht)

/-! ## `MutableWorlds.lock` -/

/-! ### `add-world-with-change` writes inside the read phase -/

/-- **`add-world-with-change` is outside the protocol**: with a reader of world 2 in its read phase (client 0,
holding the world object it fetched) and a second client evaluating `add-world-with-change` for world 2 (client
1, also only a reader), the effect replaces and writes world 2 while `writer = false` and both clients hold the
read lock: the first reader's object is orphaned mid-read and the new object is written with no exclusion — on
the real service the race detector reports the write (`MutableOverlayWorld.AddTag`) against a concurrent
`FindFeatureByID` of a reader that fetched the new world.  Recorded as a finding. -/
theorem add_world_writes_during_read_phase :
    ∃ s, Reachable (step true) (init [] [(2, [(0, 1)])] [.query 2, .query 0]) s ∧
      s.clients.map (·.pc) = [Pc.eval, Pc.eval] ∧ s.writer = false ∧ s.readers = 2 ∧
      (addWorldEffect s 2 [.set 1 1]).writer = false ∧
      lookupWorld (addWorldEffect s 2 [.set 1 1]) 2 = some [(1, 1)] ∧ lookupWorld s 2 = some [(0, 1)] ∧
      (s.clients[0]?.bind (·.obj)) = some 0 ∧ mfind (addWorldEffect s 2 [.set 1 1]).map 2 = some 2 :=
  ⟨(runSched (step true) (init [] [(2, [(0, 1)])] [.query 2, .query 0]) [0, 0, 1, 1]).get (by decide),
    Reachable.of_runSched [0, 0, 1, 1] _ _ Reachable.refl (by simp),
    by decide, by decide, by decide, by decide, by decide, by decide, by decide, by decide⟩

open B6.Model.Proto.Worlds B6.Lemmas.ProtoWorlds in
/-- **The `MutableWorlds` mutex never deadlocks**: any calls of `FindOrCreateWorld`, `DeleteWorld`, `ListWorlds`. -/
theorem worlds_no_deadlock (m : List (Nat × Nat)) (next : Nat) (ops : List Op) (hk : (m.map (·.1)).Nodup)
    (s : Worlds.State) (h : Reachable Worlds.step (Worlds.init m next ops) s) :
    deadlocked Worlds.step Worlds.terminal s = false :=
  worlds_not_deadlocked s (Reachable.invariant WInv (winv_init m next ops hk) (fun s s' => winv_step s s') s h)



open B6.Model.Proto.Worlds B6.Lemmas.ProtoWorlds in
theorem reachable_winv {m : List (Nat × Nat)} {next : Nat} {ops : List Op} (hk : (m.map (·.1)).Nodup)
    {s : Worlds.State} (h : Reachable Worlds.step (Worlds.init m next ops) s) : WInv s :=
  Reachable.invariant WInv (winv_init m next ops hk) (fun s s' => winv_step s s') s h

open B6.Model.Proto.Worlds B6.Lemmas.ProtoWorlds in
/-- **Exactly one world per world ID**: along every interleaving of `FindOrCreateWorld`, `DeleteWorld` and
`ListWorlds` calls, (1) at most one caller is inside `MutableWorlds.lock`; (2) the map never holds two
entries for one ID; (3) an insertion never replaces a world object that is already registered (the ID is
still absent when the caller that missed it inserts); (4) the object `FindOrCreateWorld` is about to return is
the one registered for the ID. -/
theorem one_world_per_id (m : List (Nat × Nat)) (next : Nat) (ops : List Op) (hk : (m.map (·.1)).Nodup)
    (s : Worlds.State) (h : Reachable Worlds.step (Worlds.init m next ops) s) :
    (∀ (i j : Nat) (ci cj : Worlds.Client), s.clients[i]? = some ci → s.clients[j]? = some cj →
        inCS ci.pc = true → inCS cj.pc = true → i = j) ∧
    (s.map.map (·.1)).Nodup ∧
    (∀ (j : Nat) (c : Worlds.Client), s.clients[j]? = some c → c.pc = .insert →
        ∃ wid, c.op = .findOrCreate wid ∧ mfind s.map wid = none) ∧
    (∀ (j : Nat) (c : Worlds.Client) (wid : Nat), s.clients[j]? = some c → c.pc = .unlock →
        c.op = .findOrCreate wid → ∃ o, c.result = some o ∧ mfind s.map wid = some o) := by
  have hw := reachable_winv hk h
  refine ⟨?_, hw.keys, hw.ins, hw.unl⟩
  intro i j ci cj hi hj hci hcj
  have h1 := (hw.hold i ci hi).mp hci
  have h2 := (hw.hold j cj hj).mp hcj
  rw [h1] at h2
  simpa using h2

/-! ## the hypotheses are satisfiable / the statements are not vacuous -/

/-- a conflict-free mix with a guard, a blind write, a delete, a query and a list on two worlds -/
def mix : List Req :=
  [.change 0 [⟨some (3, true), .set 1 7⟩, ⟨none, .del 2⟩], .change 0 [⟨none, .set 4 1⟩], .delete 0, .query 1, .list]

example : conflictFree mix = true := by decide
example : (step true (init [(3, 1)] [] mix)).length = 5 := by decide
example : conflictFree [skewA, skewB] = false := by decide
-- the orphan: the evaluate fetches world 0, the delete removes it, the write lands on the orphan
example : ((runSched (step true) (init [] [(0, [])] [.change 0 [⟨none, .set 5 5⟩], .delete 0]) [0, 0, 0, 1, 0, 0, 0, 0, 0, 0]).map
    fun s => (terminal s, lookupWorld s 0 == none, s.heap == [[(5, 5)]])) = some (true, true, true) := by decide

end B6.Props.C40
