/-! C40 — property theorems (stub: nothing proved yet). -/
