/-! C35 — property theorems (stub: nothing proved yet). -/
