import B6.Model.Locksets
import B6.Lemmas.Locksets
import B6.Gen.Locksets
/-!
# C35 — Concurrent readers and parallel builders are race-free   (level: exploration + the proofs below)

What is **proved** here, for all interleavings and any number of goroutines:
* `lockset_sound` — threads that hold a common mutex at every access to a cell (or only read it) never reach
  a state in which two of them are about to access the cell with one access a write;
* `compact_cells_race_free` — the same for the lazily cached fields of the compact world (`FeaturesByID.cache`,
  `wrappedMarshalledPhysicalFeature.polyline`, `marshalledArea.geometry/polygons`), from the access table that
  `/verif/tools/locksets` regenerates from the source on every run (`B6.Gen.Locksets`);
* `cache_transparent` / `lru_transparent` — the fill-once cell returns the uncached value to every caller and
  is written at most once; `FindFeatureByID` with its LRU returns what `findWithoutCache` returns, whatever
  was evicted;
* `finish_stage_race_free` — with the stage filters found in the source, no validation worker of
  `BasicWorldBuilder.Finish` writes a feature another worker of the same stage reads or writes
  (`finish_single_stage_conflict`: with one stage for everything — the code before
  `fixes/C37-finish-validate-paths-before-areas.patch` — the in-place reversal of a path races with the
  validation of an area over it).
What is **checked against the source** (`by decide` on the regenerated file): the ways the cells are accessed (kind and lock state, whichever method), that every
access of an entry method is under the struct's own lock, that the two lock-free helpers are only called with
the lock held and only from their own type, that nothing else in the package touches the cells, that no other
field of a mutex-bearing struct is written outside the listed places, and the shape of `Finish`.
What is **exploration** only: everything the race detector run covers beyond these cells (see notes/C35.md).
-/
namespace B6.Props.C35
open B6.Model.Proto B6.Model.Locksets B6.Lemmas.Locksets

/-! ## generic: locksets -/

theorem reachable_linv {progs : List (List Action)} {s : LState} (h : Reachable lstep (linit progs) s) :
    LInv progs s :=
  Reachable.invariant (LInv progs) (linv_init progs) (fun s s' => linv_step progs s s') s h

/-- **Lockset soundness.** If every access to cell `x`, in every thread's program, is made while holding
mutex `L` — or no program writes `x` at all — then in no reachable state are two different threads both about
to access `x` with one of the accesses a write. -/
theorem lockset_sound (progs : List (List Action)) (x L : Nat)
    (hd : Disciplined progs x L ∨ ∀ p ∈ progs, Action.write x ∉ p)
    (s : LState) (hr : Reachable lstep (linit progs) s) : ¬ RacyOn s x := by
  have hinv := reachable_linv hr
  rintro ⟨i, j, ti, tj, ai, aj, hij, hi, hj, hni, hnj, hci, hcj, hw⟩
  have hpi : ti.prog ∈ progs := by
    rw [← hinv.shape]; exact List.mem_map.mpr ⟨ti, List.mem_of_getElem? hi, rfl⟩
  have hpj : tj.prog ∈ progs := by
    rw [← hinv.shape]; exact List.mem_map.mpr ⟨tj, List.mem_of_getElem? hj, rfl⟩
  rcases hd with hd | hro
  · have h1 := hd ti.prog hpi ti.pc ai hni hci
    have h2 := hd tj.prog hpj tj.pc aj hnj hcj
    have o1 := (hinv.own L i).mpr ⟨ti, hi, h1⟩
    have o2 := (hinv.own L j).mpr ⟨tj, hj, h2⟩
    rw [o1] at o2
    exact hij (by simpa using o2)
  · rcases hw with hw | hw
    · cases ai <;> simp [Action.isWrite] at hw
      simp [Action.cell?] at hci; subst hci
      exact hro ti.prog hpi (List.mem_of_getElem? hni)
    · cases aj <;> simp [Action.isWrite] at hw
      simp [Action.cell?] at hcj; subst hcj
      exact hro tj.prog hpj (List.mem_of_getElem? hnj)

/-! ## the cache cells -/

theorem reachable_cellInv {compute n : Nat} {s : CellState} (h : Reachable (cellStep compute) (cellInit n) s) :
    CellInv compute s :=
  Reachable.invariant (CellInv compute) (cellInv_init compute n) (fun s s' => cellInv_step compute s s') s h

/-- **The fill-once cell is transparent** (`polyline`, `geometry`, `polygons[i]`): for any number of concurrent
callers, in every reachable state, every caller that has read its result got the uncached value; the cell is
written at most once, and never again once it is set; at most one caller is between `Lock` and `Unlock`. -/
theorem cache_transparent (compute n : Nat) (s : CellState) (h : Reachable (cellStep compute) (cellInit n) s) :
    (∀ (j : Nat) (c : Caller), s.callers[j]? = some c → (c.pc = .unlock ∨ c.pc = .done) → c.result = some compute) ∧
    s.writes ≤ 1 ∧ (s.cell = none ∨ s.cell = some compute) ∧
    (∀ (i j : Nat) (ci cj : Caller), s.callers[i]? = some ci → s.callers[j]? = some cj →
        inCS ci.pc = true → inCS cj.pc = true → i = j) := by
  have hi := reachable_cellInv h
  refine ⟨hi.res, ?_, hi.val, ?_⟩
  · cases hc : s.cell with
    | none => rw [hi.once.1 hc]; omega
    | some v => rw [hi.once.2 (by rw [hc]; simp)]; omega
  · intro i j ci cj h1 h2 c1 c2
    have a := (hi.hold i ci h1).mp c1
    have b := (hi.hold j cj h2).mp c2
    rw [a] at b; simpa using b

theorem reachable_lruInv {cap : Nat} {find : Nat → Option Nat} {todos : List (List Nat)} {s : LruState}
    (h : Reachable (lruStep cap find) (lruInit todos) s) : LruInv cap find s :=
  Reachable.invariant (LruInv cap find) (lruInv_init cap find todos) (fun s s' => lruInv_step cap find s s') s h

/-- **`FindFeatureByID` with its LRU is transparent**: for any capacity, any uncached function, any number of
concurrent callers with any lookup sequences, every answer equals the uncached answer; every cached entry is a
correct one; the cache never exceeds its capacity. -/
theorem lru_transparent (cap : Nat) (find : Nat → Option Nat) (todos : List (List Nat)) (s : LruState)
    (h : Reachable (lruStep cap find) (lruInit todos) s) :
    (∀ (j : Nat) (q : Querier), s.queriers[j]? = some q → ∀ r ∈ q.results, r.2 = find r.1) ∧
    (∀ p ∈ s.cache, find p.1 = some p.2) ∧ s.cache.length ≤ cap := by
  have hi := reachable_lruInv h
  exact ⟨hi.results, hi.entries, hi.size⟩

/-! ## the stages of `Finish` -/

theorem conflict_area_free (f g : BFeature) (hf : f.isArea = false) (hg : g.isArea = false) : conflict f g = false := by
  unfold conflict vWrites vReads
  unfold BFeature.isArea at hf hg
  cases hfk : f.kind <;> cases hgk : g.kind <;> simp_all

theorem conflict_areas (f g : BFeature) (hf : f.isArea = true) (hg : g.isArea = true) : conflict f g = false := by
  unfold conflict vWrites vReads
  unfold BFeature.isArea at hf hg
  cases hfk : f.kind <;> cases hgk : g.kind <;> simp_all

/-- **Two stages are race-free**: for every feature set, neither the stage of the non-areas nor the stage of
the areas contains two workers of which one writes what the other reads or writes. -/
theorem finish_stage_race_free (fs : List BFeature) :
    stageConflict (stageOf "!=FeatureTypeArea" fs) = false ∧ stageConflict (stageOf "==FeatureTypeArea" fs) = false := by
  constructor
  · unfold stageConflict
    apply List.any_eq_false.mpr
    intro f hf
    simp only [Bool.not_eq_true]
    apply List.any_eq_false.mpr
    intro g hg
    simp only [stageOf] at hf hg
    simp at hf hg
    simp only [Bool.not_eq_true]
    exact conflict_area_free f g hf.2 hg.2
  · unfold stageConflict
    apply List.any_eq_false.mpr
    intro f hf
    simp only [Bool.not_eq_true]
    apply List.any_eq_false.mpr
    intro g hg
    simp only [stageOf] at hf hg
    simp at hf hg
    simp only [Bool.not_eq_true]
    exact conflict_areas f g hf.2 hg.2

/-- **One stage for everything races**: a path and an area over it validated concurrently — the reversal in
place (`invertPoints`) against `ValidatePathForArea`'s reads.  This is the code before the C37 fix. -/
theorem finish_single_stage_conflict :
    stageConflict (stageOf "all" [⟨1, .path⟩, ⟨2, .area [1]⟩]) = true := by decide

/-! ## T3: the regenerated facts -/

open B6.Gen.Locksets

/-- The expected ways the four cache cells are accessed, whatever the method: (struct, field, kind, under the
struct's lock).  The unlocked rows are those of the two lock-free helpers `featureWithLock` / `fillGeometry`
taken as roots (they are only ever called with the lock held: `internal_calls_locked`).  A new METHOD that reaches
a cell in one of these ways does not change this list; a new KIND of access, or any access in a different lock
state, does. -/
def expectedShapes : List (String × String × String × Bool) := [
  ("FeaturesByID", "cache", "call:Add", true),
  ("FeaturesByID", "cache", "call:Get", true),
  ("marshalledArea", "geometry", "call:Len", true),
  ("marshalledArea", "geometry", "call:PathIDs", true),
  ("marshalledArea", "geometry", "call:Polygon", true),
  ("marshalledArea", "geometry", "read", true),
  ("marshalledArea", "geometry", "write", true),
  ("marshalledArea", "polygons", "read", true),
  ("marshalledArea", "polygons", "write", true),
  ("marshalledArea", "geometry", "call:Len", false),
  ("marshalledArea", "geometry", "call:PathIDs", false),
  ("marshalledArea", "geometry", "read", false),
  ("marshalledArea", "geometry", "write", false),
  ("marshalledArea", "polygons", "write", false),
  ("wrappedMarshalledPhysicalFeature", "polyline", "addr", true),
  ("wrappedMarshalledPhysicalFeature", "polyline", "read", true),
  ("wrappedMarshalledPhysicalFeature", "polyline", "write", true)]

def shapeOf (a : Access) : String × String × String × Bool := (a.typ, a.field, a.kind, a.locked)

def expectedUnlisted : List Access := [
  ⟨"FeatureIDs", "Append", "namespaces", "write", true⟩,
  ⟨"FeatureIDs", "Append", "values", "write", true⟩,
  ⟨"FeatureIDs", "Swap", "namespaces", "write", false⟩,
  ⟨"FeatureIDs", "Swap", "values", "write", false⟩,
  ⟨"NamespacedCounts", "Namespace", "ByNamespace", "write", true⟩,
  ⟨"Validator", "ValidateArea", "paths", "write", true⟩,
  ⟨"Validator", "ValidateArea", "queue", "write", true⟩,
  ⟨"Validator", "ValidatePath", "paths", "write", true⟩,
  ⟨"Validator", "ValidatePath", "queue", "write", true⟩,
  ⟨"Validator", "validateArea", "paths", "write", false⟩,
  ⟨"Validator", "validateQueue", "paths", "write", false⟩,
  ⟨"Validator", "validateQueue", "queue", "write", false⟩]

def expectedClosure : List Access := [
  ⟨"Finish", "index", "w.index", "call:Add", true⟩,
  ⟨"Finish", "index", "wg", "call:Done", false⟩,
  ⟨"Finish", "validate", "broken", "write", true⟩,
  ⟨"Finish", "validate", "wg", "call:Done", false⟩]

def expectedSelfCalls : List Access := [
  ⟨"marshalledArea", "Feature", "featureWithLock", "selfcall", true⟩,
  ⟨"marshalledArea", "Feature", "fillGeometry", "selfcall", true⟩,
  ⟨"marshalledArea", "MultiPolygon", "featureWithLock", "selfcall", true⟩,
  ⟨"marshalledArea", "MultiPolygon", "fillGeometry", "selfcall", true⟩,
  ⟨"marshalledArea", "Polygon", "featureWithLock", "selfcall", true⟩,
  ⟨"marshalledArea", "Polygon", "fillGeometry", "selfcall", true⟩,
  ⟨"marshalledArea", "featureWithLock", "fillGeometry", "selfcall", false⟩]

/-- methods (of build-time structs of ingest/compact) that write a field without the struct's lock, by contract:
the sort interface of `FeatureIDs` (used after the parallel `Append` phase) and the two `Validator` helpers that
`ValidatePath` / `ValidateArea` call with the lock held (`wide_helpers_called_locked`) -/
def unlistedExempt : List String :=
  ["FeatureIDs.Swap", "Validator.validateArea", "Validator.validateQueue"]

/-- rows of the methods that are entry points (everything but the lock-free helpers) -/
def entryRows (t : List Access) (internal : List String) : List Access :=
  t.filter (fun a => !internal.contains (a.typ ++ "." ++ a.method))

/-- the cells are accessed in exactly the expected ways (both inclusions; independent of which methods do it) -/
theorem table_matches :
    B6.Gen.Locksets.table.all (fun a => expectedShapes.contains (shapeOf a)) = true ∧
    expectedShapes.all (fun sh => B6.Gen.Locksets.table.any (fun a => shapeOf a == sh)) = true := by decide
theorem internal_methods_expected :
    internalMethods = ["marshalledArea.featureWithLock", "marshalledArea.fillGeometry"] := by decide
/-- every access of an entry method to a cache cell is made under the struct's own mutex -/
theorem entry_accesses_locked : (entryRows B6.Gen.Locksets.table internalMethods).all (·.locked) = true := by decide
/-- the lock-free helpers are called only by their own type, and by its entry methods only with the lock held -/
theorem internal_calls_locked :
    (entryRows selfCalls internalMethods).all (·.locked) = true ∧ foreignCalls = [] ∧
    internalMethods.all (fun m => selfCalls.any (fun a => a.typ ++ "." ++ a.field == m && a.locked)) = true := by
  decide
/-- nothing else in the package touches the cells (the one entry is the constructor's composite literal);
nothing the walker could not follow; every write to another field of a mutex-bearing struct (outside the Merge
writers) is under the struct's lock or in one of the three exempt methods -/
theorem no_foreign_access :
    foreign = ["world.go:NewFeaturesByID:literal FeaturesByID{cache: …}"] ∧ irregular = [] ∧
    unlistedWrites.all (fun a => a.locked || unlistedExempt.contains (a.typ ++ "." ++ a.method)) = true := by decide
/-- `Finish`: the worker closures write `broken` and call `w.index.Add` under the local mutex; the function body
touches neither between starting workers and `wg.Wait()`; two stages, non-areas first; `invertPoints` writes the
elements of the path's own reference list and is reached from `ValidatePath` only -/
theorem finish_facts :
    closureAccesses = expectedClosure ∧ finishStageFilters = ["!=FeatureTypeArea", "==FeatureTypeArea"] ∧
    unjoinedMainAccesses = [] ∧ invertPointsInPlace = ["(refs)", "f.Get()", "f.ModifyOrAddTag()"] ∧
    invertPointsCallers = ["ValidatePath"] := by decide

/-- the stages as extracted are race-free for every feature set -/
theorem finish_extracted_stages_race_free (fs : List BFeature) :
    ∀ f ∈ finishStageFilters, stageConflict (stageOf f fs) = false := by
  intro f hf
  have := finish_facts.2.1
  rw [this] at hf
  simp at hf
  rcases hf with rfl | rfl
  · exact (finish_stage_race_free fs).1
  · exact (finish_stage_race_free fs).2

/-! ## T3, wide: every mutex-carrying struct of `ingest`, `ingest/compact`, `search`

`wideTable` lists, for every method of every struct that has a `sync.Mutex`/`sync.RWMutex` field, every access
to the struct's other fields with the lock state at that point.  The obligation: an access is under the
struct's lock, or the field is immutable after construction (listed here with the reason), or the method is a
writer / build-time accessor exempt by contract (listed with the reason), or the method is one of the lock-free
helpers — which are called only from their own struct and, from its other methods, only with the lock held.  A
NEW unlocked access to any field of any such struct, a new mutex-carrying struct, a write to an "immutable" field
or a helper called without the lock breaks one of these `by decide` obligations. -/

/-- (struct, field, why it is never written once the object is shared) -/
def immutableFields : List (String × String × String) := [
  ("compact.FeaturesByID", "features", "feature blocks are appended by Merge only (writer by contract); readers never write"),
  ("compact.FeaturesByID", "base", "set by NewFeaturesByID"),
  ("compact.World", "byID", "set by NewWorld / NewWorldWithBase"),
  ("compact.World", "indices", "appended by Merge only (writer by contract)"),
  ("compact.World", "status", "extended by Merge only (writer by contract)"),
  ("compact.marshalledArea", "id", "set by newAreaFromBuffer"),
  ("compact.marshalledArea", "area", "set by newAreaFromBuffer"),
  ("compact.marshalledArea", "fb", "set by newAreaFromBuffer"),
  ("compact.marshalledArea", "byID", "set by newAreaFromBuffer"),
  ("compact.wrappedMarshalledPhysicalFeature", "byID", "set by newWrappedPhysicalFeatureFromBuffer"),
  ("compact.Validator", "locations", "set by NewValidator")]

/-- (struct, method, why its unlocked accesses are outside the property) -/
def exemptMethods : List (String × String × String) := [
  ("compact.FeaturesByID", "Merge", "writer by contract: the property is about readers with no writer"),
  ("compact.World", "Merge", "writer by contract; takes World.lock against other Merges"),
  ("compact.FeatureIDs", "At", "read after the parallel Append phase of the compact build"),
  ("compact.FeatureIDs", "Len", "sort.Interface, used after the parallel Append phase"),
  ("compact.FeatureIDs", "Less", "sort.Interface, used after the parallel Append phase"),
  ("compact.FeatureIDs", "Swap", "sort.Interface, used after the parallel Append phase")]

def isImmutable (a : Access) : Bool := immutableFields.any (fun p => p.1 == a.typ && p.2.1 == a.field)
def isExempt (a : Access) : Bool := exemptMethods.any (fun p => p.1 == a.typ && p.2.1 == a.method)
def isWriteKind (a : Access) : Bool := a.kind == "write" || a.kind == "addr"

/-- the lock-free helpers: methods that touch a mutable field without taking the lock themselves -/
def wideHelpers : List String := [
  "compact.Validator.validateArea", "compact.Validator.validateQueue",
  "compact.marshalledArea.featureWithLock", "compact.marshalledArea.fillGeometry"]

def isHelperRoot (a : Access) : Bool := wideHelpers.contains (a.typ ++ "." ++ a.method)

theorem wide_structs_expected : wideStructs =
    ["ingest.MutableWorlds", "ingest.watcher", "compact.FeatureIDs", "compact.FeaturesByID", "compact.NamespacedCounts",
     "compact.Validator", "compact.World", "compact.marshalledArea", "compact.wrappedMarshalledPhysicalFeature"] := by
  decide

/-- **Every access to a field of a mutex-carrying struct is under that struct's lock**, or the field is
immutable after construction, or the method is exempt by contract, or it is a lock-free helper. -/
theorem wide_lock_discipline :
    wideTable.all (fun a => a.locked || isImmutable a || isExempt a || isHelperRoot a) = true := by decide

/-- the "immutable" fields are indeed never written or address-taken outside the exempt writers -/
theorem wide_immutable_not_written :
    wideTable.all (fun a => !(isImmutable a && isWriteKind a) || isExempt a) = true := by decide

/-- the lock-free helpers are reached only from their own struct, and from its other methods only with the lock
held; the helper list is exactly the set of methods with an unlocked access to a mutable field -/
theorem wide_helpers_called_locked :
    wideSelfCalls.all (fun a => !wideHelpers.contains (a.typ ++ "." ++ a.field) || isHelperRoot a || a.locked) = true ∧
    wideForeignCalls = [] ∧
    (wideTable.filter (fun a => !(a.locked || isImmutable a || isExempt a))).all isHelperRoot = true ∧
    wideHelpers.all (fun h => wideTable.any (fun a => (a.typ ++ "." ++ a.method) == h && !(a.locked || isImmutable a))) = true := by
  decide

/-! ## from the table to programs -/

def cellId (field : String) : Nat :=
  if field == "cache" then 0 else if field == "polyline" then 1 else if field == "geometry" then 2 else 3

def toAction (a : Access) : Action :=
  if a.kind == "read" then .read (cellId a.field) else .write (cellId a.field)

/-- one call of a method, abstracted to its accesses to the cells: under the receiver's mutex (lock 0) when the
table says every access is locked, bare otherwise -/
def methodProgram (rows : List Access) : List Action :=
  if rows.all (·.locked) then [Action.acq 0] ++ rows.map toAction ++ [Action.rel 0] else rows.map toAction

def rowsOf (t : List Access) (typ method : String) : List Access :=
  t.filter (fun a => a.typ == typ && a.method == method)

theorem heldAfter_accesses (rows : List Access) (k : Nat) :
    heldAfter (Action.acq 0 :: (rows.map toAction).take k) = [0] := by
  have : ∀ (as : List Action) (held : List Nat), (∀ a ∈ as, ∃ x, a = .read x ∨ a = .write x) →
      as.foldl (fun held a => match a with
        | .acq l => l :: held
        | .rel l => held.erase l
        | _ => held) held = held := by
    intro as
    induction as with
    | nil => intro held _; rfl
    | cons a rest ih =>
      intro held h
      simp only [List.foldl_cons]
      obtain ⟨x, hx⟩ := h a (List.mem_cons_self ..)
      rcases hx with rfl | rfl <;> exact ih held (fun b hb => h b (List.mem_cons_of_mem _ hb))
  unfold heldAfter
  simp only [List.foldl_cons]
  apply this
  intro a ha
  have := List.mem_of_mem_take ha
  obtain ⟨r, _, rfl⟩ := List.mem_map.mp this
  unfold toAction
  split
  · exact ⟨_, Or.inl rfl⟩
  · exact ⟨_, Or.inr rfl⟩

theorem methodProgram_disciplined (rows : List Access) (hl : rows.all (·.locked) = true) (x : Nat) :
    ∀ (pc : Nat) (a : Action), (methodProgram rows)[pc]? = some a → a.cell? = some x →
      0 ∈ heldAfter ((methodProgram rows).take pc) := by
  intro pc a hpc hcell
  unfold methodProgram at hpc ⊢
  simp only [hl, ↓reduceIte] at hpc ⊢
  cases pc with
  | zero => simp at hpc; subst hpc; simp [Action.cell?] at hcell
  | succ k =>
    simp only [List.cons_append, List.nil_append, List.take_succ_cons]
    by_cases hk : k < (rows.map toAction).length
    · rw [List.take_append_of_le_length (by omega)]
      rw [heldAfter_accesses]; simp
    · -- the position is the final `rel`: not an access
      simp only [List.cons_append, List.nil_append, List.getElem?_cons_succ] at hpc
      rw [List.getElem?_append_right (by omega)] at hpc
      have : a = .rel 0 := by
        simp only [List.length_map] at hpc
        cases hh : k - rows.length with
        | zero => rw [hh] at hpc; simp at hpc; exact hpc.symm
        | succ m => rw [hh] at hpc; simp at hpc
      subst this
      simp [Action.cell?] at hcell

/-- **The cache cells of the compact world are race-free** (as far as the extracted table goes): any number of
goroutines, each calling one entry method of one of the three structs on the same object — no reachable state
has two of them about to touch the same cell with one of them writing. -/
theorem compact_cells_race_free (typ : String) (calls : List String)
    (hentry : ∀ m ∈ calls, ¬ internalMethods.contains (typ ++ "." ++ m) = true)
    (s : LState)
    (hr : Reachable lstep (linit (calls.map fun m => methodProgram (rowsOf B6.Gen.Locksets.table typ m))) s)
    (x : Nat) : ¬ RacyOn s x := by
  apply lockset_sound _ x 0 (Or.inl _) s hr
  intro p hp pc a hpc hcell
  obtain ⟨m, hm, rfl⟩ := List.mem_map.mp hp
  have hl : (rowsOf B6.Gen.Locksets.table typ m).all (·.locked) = true := by
    have hall := entry_accesses_locked
    rw [List.all_eq_true] at hall ⊢
    intro r hr'
    unfold rowsOf at hr'
    have hr2 := List.mem_filter.mp hr'
    simp at hr2
    apply hall
    unfold entryRows
    apply List.mem_filter.mpr
    refine ⟨hr2.1, ?_⟩
    rw [hr2.2.1, hr2.2.2]
    simpa using hentry m hm
  exact methodProgram_disciplined _ hl x pc a hpc hcell

/-! ## the hypotheses are satisfiable / the statements are not vacuous -/

-- an undisciplined pair of programs does reach a racy state (so `RacyOn` is not trivially false)
example : ∃ s, Reachable lstep (linit [[.write 7], [.read 7]]) s ∧ RacyOn s 7 :=
  ⟨_, Reachable.refl, 0, 1, ⟨[.write 7], 0⟩, ⟨[.read 7], 0⟩, .write 7, .read 7, by decide, rfl, rfl, rfl, rfl, rfl, rfl,
    Or.inl rfl⟩
example : Disciplined [[.acq 0, .write 7, .rel 0], [.acq 0, .read 7, .rel 0]] 7 0 := by
  intro p hp pc a h hc
  simp at hp
  rcases hp with rfl | rfl <;>
    (match pc, h with
     | 0, h => simp at h; subst h; simp [Action.cell?] at hc
     | 1, _ => simp [heldAfter]
     | 2, h => simp at h; subst h; simp [Action.cell?] at hc
     | n + 3, h => simp at h)
example : (methodProgram (rowsOf B6.Gen.Locksets.table "wrappedMarshalledPhysicalFeature" "Polyline")).length = 5 := by decide
example : ((runSched (cellStep 42) (cellInit 2) [0, 0, 0, 0, 0, 0, 0, 0, 0]).map fun s =>
    (s.cell, s.writes, s.callers.map (·.result))) = some (some 42, 1, [some 42, some 42]) := by decide
example : ((runSched (lruStep 1 (fun id => if id < 5 then some (id * 10) else none)) (lruInit [[1, 2, 1, 9]])
    [0, 0, 0, 0, 0, 0, 0, 0, 0, 0, 0]).map fun s => (s.cache, s.queriers.map (·.results))) =
    some ([(1, 10)], [[(1, some 10), (2, some 20), (1, some 10), (9, none)]]) := by decide

end B6.Props.C35
