/-! C03 — property theorems (stub: nothing proved yet). -/
