import B6.Lemmas.FeatureIndex
import B6.Props.C06
/-!
# C03 — Tag search returns exactly the matching features in ID order

Spec: `B6.Spec.TagQuery` (`denote`, `searchable`, `expected`).  Model: `B6.Model.FeatureSearch` (`TokenForTag`,
`TokensForFeature`, `Query.Compile` = `lower` into the search package's queries, the index built from the features,
`FindFeatures` = a `Next` loop over the compiled iterator of `B6.Model.Search`), `Merged` (`b6.MergeFeatures`).
Theorems are for all feature lists, all query trees (any depth) and all indices satisfying the invariant.
-/
namespace B6.Props.C03
open B6.Spec.Cursor B6.Spec.SearchQuery B6.Spec.TagQuery B6.Model.Search B6.Model.FeatureSearch
open B6.Lemmas.Search B6.Lemmas.TagQuery

/-- **Sound and complete.** For features with well-formed keys and distinct IDs, an index that holds exactly their
postings, and any query over searchable tags, `Query.Compile` yields a well-formed search query that denotes
exactly `expected fs q`: the IDs of the searchable features whose tags satisfy the query, strictly increasing,
each once (and whose key-range bounds lie in any key domain containing the type bounds). -/
theorem compile_sound_complete (fs : List Feature) (ix : Index) (hinv : IndexInv fs ix)
    (hfs : ∀ f ∈ fs, FeatureOK f) (hid : (fs.map Feature.id).Nodup) (q : Query) (hq : QueryOK q)
    (K : Nat → Prop) (hK : ∀ t, (t < 4 ∨ t = 5) → K (typeBegin t)) :
    ∃ sq, lower q = some sq ∧ sq.WF ∧ sq.KeysIn K ∧ sq.denote ix = expected fs q ∧
      StrictSorted (expected fs q) := by
  obtain ⟨sq, h1, h2, hk, h3⟩ := lower_spec fs ix K hinv hfs hid hK q hq
  refine ⟨sq, h1, h2, hk, ?_, sortDedup_sorted _⟩
  apply StrictSorted.ext (denote_spec ix hinv.1 sq).1 (sortDedup_sorted _)
  intro x
  rw [h3 x]
  unfold Sel
  rw [mem_sortDedup, List.mem_map]
  constructor
  · rintro ⟨f, hf, hx, hs, hd⟩
    exact ⟨f, List.mem_filter.2 ⟨hf, by simp [hs, hd]⟩, hx⟩
  · rintro ⟨f, hf, hx⟩
    obtain ⟨hf1, hf2⟩ := List.mem_filter.1 hf
    simp only [Bool.and_eq_true] at hf2
    exact ⟨f, hf1, hx, hf2.1, hf2.2⟩

/-- The index every world builds (`TokensForFeature` per feature, posting lists kept sorted) satisfies the
invariant — for every feature list. -/
theorem build_index_inv (kind : LeafKind) (fs : List Feature) (names : List String) :
    IndexInv fs (buildIndex kind fs names) :=
  buildIndex_inv kind fs names

/-- what a compact file asks of a feature ID: three type bits, a namespace of the file's table, and not
point/`""` (`TypeAndNamespace` 0, which the posting-list encoder takes for "no namespace yet") -/
def CompactFeatureOK (names : List String) (f : Feature) : Prop :=
  f.typ < 8 ∧ f.ns < names.length ∧ (f.typ ≠ 0 ∨ f.ns ≠ 0)

/-- **FindFeatures, any index kind.** On the index built from `fs` — array, tree, or compact (posting lists =
`PostingList.Fill` of each token's IDs, namespace table `names`) — running the compiled iterator with plain `Next`
calls returns exactly `expected fs q`, in that order. -/
theorem find_features_spec_general (kind : LeafKind) (names : List String) (fs : List Feature)
    (hfs : ∀ f ∈ fs, FeatureOK f) (hid : (fs.map Feature.id).Nodup)
    (hcompact : kind = .compact →
      B6.Model.Posting.TableOK ⟨names⟩ ∧ names ≠ [] ∧ ∀ f ∈ fs, CompactFeatureOK names f)
    (q : Query) (hq : QueryOK q) :
    findFeatures (buildIndex kind fs names) q = .ok (expected fs q) := by
  have hinv := buildIndex_inv kind fs names
  -- the built index is a legitimate compact index
  have hc : CompactOK (buildIndex kind fs names) := by
    intro hk
    have hk' : kind = .compact := hk
    obtain ⟨ht, _, hcf⟩ := hcompact hk'
    refine ⟨ht, ?_⟩
    intro e he x hx
    obtain ⟨f, hf, hfx, _⟩ := (hinv.2 e.1 x).1 ((mem_get_iff _ hinv.1 e.1 x).2 ⟨e, he, rfl, hx⟩)
    obtain ⟨h1, h2, h3⟩ := hcf f hf
    obtain ⟨hns, hval, _⟩ := hfs f hf
    have hdiv : x / 2 ^ 64 = f.typ * 8192 + f.ns := by
      rw [← hfx]
      simp only [Feature.id, key, nsBound, valBound, Nat.reducePow] at *
      omega
    rw [hdiv]
    simp only [nsBound] at hns
    refine ⟨by omega, ?_, ?_⟩
    · show (f.typ * 8192 + f.ns) / 8192 < 8; omega
    · show (f.typ * 8192 + f.ns) % 8192 < names.length; omega
  -- the type bounds are in the key domain
  have hK : ∀ t, (t < 4 ∨ t = 5) → (buildIndex kind fs names).dom (typeBegin t) := by
    intro t ht
    unfold Index.dom
    cases hk : kind with
    | compact =>
      obtain ⟨_, hne, _⟩ := hcompact hk
      have hlen : 0 < names.length := List.length_pos_iff.2 hne
      simp only [buildIndex, typeBegin, key, nsBound, valBound, Nat.reducePow]
      omega
    | array => simp [buildIndex]
    | tree => simp [buildIndex]
  obtain ⟨sq, h1, h2, hk, h3, _⟩ := compile_sound_complete fs _ hinv hfs hid q hq _ hK
  unfold findFeatures
  simp only [h1]
  have href := B6.Props.C06.compile_refines ((buildIndex kind fs names).total + 1) (buildIndex kind fs names)
    hinv.1 hc (Nat.lt_succ_self _) sq h2 hk (depth sq) (Nat.le_refl _)
  have hlen := denote_length_le (buildIndex kind fs names) hinv.1 sq
  have := drain_of_refinesAt (ops (buildIndex kind fs names).dom ((buildIndex kind fs names).total + 1) (depth sq))
    (start (sq.denote _)) _
    ((buildIndex kind fs names).total - (sq.denote (buildIndex kind fs names)).length) href
  have hfuel : (start (sq.denote (buildIndex kind fs names))).rest.length + 1 +
      ((buildIndex kind fs names).total - (sq.denote (buildIndex kind fs names)).length) =
        (buildIndex kind fs names).total + 1 := by
    simp only [start]; omega
  rw [hfuel] at this
  rw [this, ← h3]; rfl

/-- **FindFeatures** on the in-memory worlds (basic: array index; mutable: tree index). -/
theorem find_features_spec (kind : LeafKind) (hkind : kind ≠ .compact) (fs : List Feature)
    (hfs : ∀ f ∈ fs, FeatureOK f) (hid : (fs.map Feature.id).Nodup) (q : Query) (hq : QueryOK q) :
    findFeatures (buildIndex kind fs) q = .ok (expected fs q) :=
  find_features_spec_general kind [] fs hfs hid (fun h => absurd h hkind) q hq

/-- **FindFeatures on a compact world**: the index's token lists are C08 posting lists (`PostingList.Fill` of each
token's feature IDs), read by the byte-level `compact.Iterator` model under the same iterator algebra. -/
theorem find_features_spec_compact (names : List String) (ht : B6.Model.Posting.TableOK ⟨names⟩)
    (hne : names ≠ []) (fs : List Feature) (hfs : ∀ f ∈ fs, FeatureOK f) (hid : (fs.map Feature.id).Nodup)
    (hcf : ∀ f ∈ fs, CompactFeatureOK names f) (q : Query) (hq : QueryOK q) :
    findFeatures (buildIndex .compact fs names) q = .ok (expected fs q) :=
  find_features_spec_general .compact names fs hfs hid (fun _ => ⟨ht, hne, hcf⟩) q hq

/-- **k-way merge.** `b6.MergeFeatures` over streams that yield strictly increasing ID lists yields, under any
number of `Next` calls, what the spec cursor over the merged, duplicate-free list yields. -/
theorem merge_sorted_dedup {σ : Type} (o : IterOps σ) (streams : List (σ × List Nat)) (ys : List Nat)
    (hch : ∀ p ∈ streams, Refines o p.1 p.2) (hys : StrictSorted ys)
    (hmem : ∀ x, x ∈ ys ↔ ∃ p ∈ streams, x ∈ p.2) (n : Nat) :
    runImpl (mergedOps o) (.fresh (streams.map (·.1))) (List.replicate n Call.next) =
      some (runSpec (start ys) (List.replicate n Call.next)) :=
  merged_run o n _ _ (B6.Lemmas.Search.union_refines o streams ys hch hys hmem)

/-- … in particular a full drain returns exactly the merged list, then `false`. -/
theorem merge_drain {σ : Type} (o : IterOps σ) (streams : List (σ × List Nat)) (ys : List Nat)
    (hch : ∀ p ∈ streams, Refines o p.1 p.2) (hys : StrictSorted ys)
    (hmem : ∀ x, x ∈ ys ↔ ∃ p ∈ streams, x ∈ p.2) :
    runImpl (mergedOps o) (.fresh (streams.map (·.1))) (List.replicate (ys.length + 1) Call.next) =
      some (ys.map (fun x => (true, some x)) ++ [(false, none)]) := by
  rw [merge_sorted_dedup o streams ys hch hys hmem]
  exact congrArg some (B6.Props.C06.spec_drain (start ys))

/-! ## The known finding: `Tagged` on an `@` key (the clause `QueryOK` excludes) -/

def exFeatures : List Feature :=
  [⟨0, 1, 1, [("point".toList, "51.5,-0.1".toList), ("@name".toList, "yes".toList)]⟩,
   ⟨0, 1, 2, [("point".toList, "51.5,-0.1".toList), ("#amenity".toList, "cafe".toList)]⟩,
   ⟨0, 1, 3, [("point".toList, "51.5,-0.1".toList)]⟩,
   ⟨1, 1, 10, [("path".toList, "".toList), ("#highway".toList, "1".toList), ("#amenity".toList, "pub".toList)]⟩]

/-- the full statement, without the restriction to `#` keys on `tagged` -/
def find_features_statement : Prop :=
  ∀ (fs : List Feature) (q : Query), (∀ f ∈ fs, FeatureOK f) → (fs.map Feature.id).Nodup →
    findFeatures (buildIndex .array fs) q = .ok (expected fs q)

/-- `Tagged{@name=yes}` compiles to the empty iterator although the point is tagged `@name=yes`. -/
theorem tagged_at_key_counterexample :
    (findFeatures (buildIndex .array exFeatures) (.tagged "@name".toList "yes".toList)).toOption = some [] ∧
    expected exFeatures (.tagged "@name".toList "yes".toList) = [key 0 1 1] := by
  decide

/-! ## Non-vacuity -/

example : B6.Model.Posting.TableOK ⟨["", "a", "b"]⟩ ∧ ∀ f ∈ exFeatures, CompactFeatureOK ["", "a", "b"] f := by
  unfold B6.Model.Posting.TableOK CompactFeatureOK exFeatures
  decide

/-- the compact index of the example really runs on posting-list bytes and returns the expected IDs -/
example : (findFeatures (buildIndex .compact exFeatures ["", "a", "b"])
    (.typed 0 (.keyed "#amenity".toList))).toOption = some [key 0 1 2] := by decide


example : ∀ f ∈ exFeatures, FeatureOK f := by
  intro f hf
  simp only [exFeatures, List.mem_cons, List.not_mem_nil, or_false] at hf
  rcases hf with rfl | rfl | rfl | rfl <;>
    (refine ⟨by decide, by decide, by decide, ?_⟩; intro t ht; simp at ht; rcases ht with rfl | rfl | rfl <;> simp [KeyOK]) <;>
    (refine ⟨by decide, by decide, by decide, ?_⟩; intro t ht; simp at ht; rcases ht with rfl | rfl <;> simp [KeyOK]) <;>
    (refine ⟨by decide, by decide, by decide, ?_⟩; intro t ht; simp at ht; subst ht; simp [KeyOK])

example : (exFeatures.map Feature.id).Nodup := by decide

def exQuery : Query :=
  .or [.typed 0 (.keyed "#amenity".toList), .and [.keyed "#highway".toList, .tagged "#amenity".toList "pub".toList]]

example : QueryOK exQuery := by
  simp [exQuery, QueryOK, QueryOKList, KeyOK]

example : (findFeatures (buildIndex .array exFeatures) exQuery).toOption = some [key 0 1 2, key 1 1 10] := by decide

example : expected exFeatures exQuery = [key 0 1 2, key 1 1 10] := by decide

end B6.Props.C03
