import B6.Lemmas.FeatureIndex
import B6.Props.C06
/-!
# C03 — Tag search returns exactly the matching features in ID order

Spec: `B6.Spec.TagQuery` (`denote`, `searchable`, `expected`).  Model: `B6.Model.FeatureSearch` (`TokenForTag`,
`TokensForFeature`, `Query.Compile` = `lower` into the search package's queries, the index built from the features,
`FindFeatures` = a `Next` loop over the compiled iterator of `B6.Model.Search`), `Merged` (`b6.MergeFeatures`).
Theorems are for all feature lists, all query trees (any depth) and all indices satisfying the invariant.
-/
namespace B6.Props.C03
open B6.Spec.Cursor B6.Spec.SearchQuery B6.Spec.TagQuery B6.Model.Search B6.Model.FeatureSearch
open B6.Lemmas.Search B6.Lemmas.TagQuery

/-- **Sound and complete.** For features with well-formed keys and distinct IDs, an index that holds exactly their
postings, and any query over searchable tags, `Query.Compile` yields a well-formed search query that denotes
exactly `expected fs q`: the IDs of the searchable features whose tags satisfy the query, strictly increasing,
each once. -/
theorem compile_sound_complete (fs : List Feature) (ix : Index) (hinv : IndexInv fs ix)
    (hfs : ∀ f ∈ fs, FeatureOK f) (hid : (fs.map Feature.id).Nodup) (q : Query) (hq : QueryOK q) :
    ∃ sq, lower q = some sq ∧ sq.WF ∧ sq.denote ix = expected fs q ∧ StrictSorted (expected fs q) := by
  obtain ⟨sq, h1, h2, h3⟩ := lower_spec fs ix hinv hfs hid q hq
  refine ⟨sq, h1, h2, ?_, sortDedup_sorted _⟩
  apply StrictSorted.ext (denote_spec ix hinv.1 sq).1 (sortDedup_sorted _)
  intro x
  rw [h3 x]
  unfold Sel
  rw [mem_sortDedup, List.mem_map]
  constructor
  · rintro ⟨f, hf, hx, hs, hd⟩
    exact ⟨f, List.mem_filter.2 ⟨hf, by simp [hs, hd]⟩, hx⟩
  · rintro ⟨f, hf, hx⟩
    obtain ⟨hf1, hf2⟩ := List.mem_filter.1 hf
    simp only [Bool.and_eq_true] at hf2
    exact ⟨f, hf1, hx, hf2.1, hf2.2⟩

/-- The index every world builds (`TokensForFeature` per feature, posting lists kept sorted) satisfies the
invariant — for every feature list. -/
theorem build_index_inv (kind : LeafKind) (fs : List Feature) : IndexInv fs (buildIndex kind fs) :=
  buildIndex_inv kind fs

/-- **FindFeatures.** On the index built from `fs`, running the compiled iterator with plain `Next` calls returns
exactly `expected fs q`, in that order. -/
theorem find_features_spec (kind : LeafKind) (fs : List Feature) (hfs : ∀ f ∈ fs, FeatureOK f)
    (hid : (fs.map Feature.id).Nodup) (q : Query) (hq : QueryOK q) :
    findFeatures (buildIndex kind fs) q = .ok (expected fs q) := by
  have hinv := buildIndex_inv kind fs
  obtain ⟨sq, h1, h2, h3, _⟩ := compile_sound_complete fs _ hinv hfs hid q hq
  unfold findFeatures
  simp only [h1]
  have href := B6.Props.C06.compile_refines ((buildIndex kind fs).total + 1) (buildIndex kind fs) hinv.1
    (Nat.lt_succ_self _) sq h2 (depth sq) (Nat.le_refl _)
  have hlen := denote_length_le (buildIndex kind fs) hinv.1 sq
  have := drain_of_refinesAt (ops ((buildIndex kind fs).total + 1) (depth sq)) (start (sq.denote _)) _
    ((buildIndex kind fs).total - (sq.denote (buildIndex kind fs)).length) href
  have hfuel : (start (sq.denote (buildIndex kind fs))).rest.length + 1 +
      ((buildIndex kind fs).total - (sq.denote (buildIndex kind fs)).length) = (buildIndex kind fs).total + 1 := by
    simp only [start]; omega
  rw [hfuel] at this
  rw [this, ← h3]; rfl

/-- **k-way merge.** `b6.MergeFeatures` over streams that yield strictly increasing ID lists yields, under any
number of `Next` calls, what the spec cursor over the merged, duplicate-free list yields. -/
theorem merge_sorted_dedup {σ : Type} (o : IterOps σ) (streams : List (σ × List Nat)) (ys : List Nat)
    (hch : ∀ p ∈ streams, Refines o p.1 p.2) (hys : StrictSorted ys)
    (hmem : ∀ x, x ∈ ys ↔ ∃ p ∈ streams, x ∈ p.2) (n : Nat) :
    runImpl (mergedOps o) (.fresh (streams.map (·.1))) (List.replicate n Call.next) =
      some (runSpec (start ys) (List.replicate n Call.next)) :=
  merged_run o n _ _ (B6.Lemmas.Search.union_refines o streams ys hch hys hmem)

/-- … in particular a full drain returns exactly the merged list, then `false`. -/
theorem merge_drain {σ : Type} (o : IterOps σ) (streams : List (σ × List Nat)) (ys : List Nat)
    (hch : ∀ p ∈ streams, Refines o p.1 p.2) (hys : StrictSorted ys)
    (hmem : ∀ x, x ∈ ys ↔ ∃ p ∈ streams, x ∈ p.2) :
    runImpl (mergedOps o) (.fresh (streams.map (·.1))) (List.replicate (ys.length + 1) Call.next) =
      some (ys.map (fun x => (true, some x)) ++ [(false, none)]) := by
  rw [merge_sorted_dedup o streams ys hch hys hmem]
  exact congrArg some (B6.Props.C06.spec_drain (start ys))

/-! ## The known finding: `Tagged` on an `@` key (the clause `QueryOK` excludes) -/

def exFeatures : List Feature :=
  [⟨0, 1, 1, [("point".toList, "51.5,-0.1".toList), ("@name".toList, "yes".toList)]⟩,
   ⟨0, 1, 2, [("point".toList, "51.5,-0.1".toList), ("#amenity".toList, "cafe".toList)]⟩,
   ⟨0, 1, 3, [("point".toList, "51.5,-0.1".toList)]⟩,
   ⟨1, 1, 10, [("path".toList, "".toList), ("#highway".toList, "1".toList), ("#amenity".toList, "pub".toList)]⟩]

/-- the full statement, without the restriction to `#` keys on `tagged` -/
def find_features_statement : Prop :=
  ∀ (fs : List Feature) (q : Query), (∀ f ∈ fs, FeatureOK f) → (fs.map Feature.id).Nodup →
    findFeatures (buildIndex .array fs) q = .ok (expected fs q)

/-- `Tagged{@name=yes}` compiles to the empty iterator although the point is tagged `@name=yes`. -/
theorem tagged_at_key_counterexample :
    (findFeatures (buildIndex .array exFeatures) (.tagged "@name".toList "yes".toList)).toOption = some [] ∧
    expected exFeatures (.tagged "@name".toList "yes".toList) = [key 0 1 1] := by
  decide

/-! ## Non-vacuity -/

example : ∀ f ∈ exFeatures, FeatureOK f := by
  intro f hf
  simp only [exFeatures, List.mem_cons, List.not_mem_nil, or_false] at hf
  rcases hf with rfl | rfl | rfl | rfl <;>
    (refine ⟨by decide, by decide, by decide, ?_⟩; intro t ht; simp at ht; rcases ht with rfl | rfl | rfl <;> simp [KeyOK]) <;>
    (refine ⟨by decide, by decide, by decide, ?_⟩; intro t ht; simp at ht; rcases ht with rfl | rfl <;> simp [KeyOK]) <;>
    (refine ⟨by decide, by decide, by decide, ?_⟩; intro t ht; simp at ht; subst ht; simp [KeyOK])

example : (exFeatures.map Feature.id).Nodup := by decide

def exQuery : Query :=
  .or [.typed 0 (.keyed "#amenity".toList), .and [.keyed "#highway".toList, .tagged "#amenity".toList "pub".toList]]

example : QueryOK exQuery := by
  simp [exQuery, QueryOK, QueryOKList, KeyOK]

example : (findFeatures (buildIndex .array exFeatures) exQuery).toOption = some [key 0 1 2, key 1 1 10] := by decide

example : expected exFeatures exQuery = [key 0 1 2, key 1 1 10] := by decide

end B6.Props.C03
