import B6.Model.WorldRead
import B6.Lemmas.WorldRead
import B6.Props.C03
/-!
# C02 — Compact world answers every query like the in-memory world

Both read paths are modelled over one `World` (`B6.Model.WorldRead`): the in-memory world's
(`FeatureReferencesByID` closure, `traverse`) and the compact world's (`findPathsByPoint`, `FindReferences`,
`FindRelationsByFeature`, `FindAreasByPoint`, `Traverse`), the latter reading the records the compact builder
writes from *every* source path and area.  The model mirrors the code **after** the C02 fixes
(fixes/C02-*.patch, including C02-compact-references-transitive) and C37's fix of `BasicWorldBuilder.Finish`.

Theorems, for every world satisfying the structural invariants that `build` establishes
(`build_wellTyped`, `build_consistent`, `build_uniqueKept`, `build_typed`) — no bound on the number of features:

* `direct_equiv`, `closure_equiv` — one step of the compact world's `findReferrers` (paths of a point, areas of a
  path, relations recorded on the feature) finds exactly the direct referrers of the in-memory references index,
  and the two breadth-first closures reach the same ids; hence
* `references_equiv` — `FindReferences` with any type filter, `relations_by_feature_equiv` —
  `FindRelationsByFeature`: same id sets, for every id that **has a record** (`hasRecord`: a feature, or any point
  id). The hypothesis is needed: `references_absent_counterexample` (a relation listing a way that does not
  exist: the in-memory index is keyed by id and answers, the compact world has no record to read) — the finding
  `compact-referrers-of-absent-id`, whose class predicate is `hasRecord` negated, literally;
* `areas_by_point_equiv` — `FindAreasByPoint`: same areas;
* `find_equiv`, `has_equiv`, `location_equiv` — `FindFeatureByID` / `HasFeatureWithID` / `FindLocationByID`: the
  in-memory id map and the compact per-type blocks answer alike; `ids_equiv` — the compact `EachFeature` order
  (blocks, buckets, ids sorted per bucket) is a permutation of the in-memory id map, for any bucket count;
* `search_equiv` — tag search in ID order: the in-memory array/tree index and the compact posting-list index built
  from the same features in any two orders return the same list (C03 `find_features_spec` /
  `find_features_spec_compact`);
* `traverse_scan_equiv` — the segment computation of `traverse` (first node in either direction, end points
  always nodes) and of `fillPathSegments` (`previous` / `next` with defaults) agree for any node predicate;
  `count_equiv` — the two intersection tests count the same paths; hence
* `traverse_equiv` — `Traverse` from any point: same set of `(path, first, last)` segments — without the
  "no path visits a point twice" hypothesis DESIGN expected to need (both worlds now start from the last
  position of the origin; before the fix they disagreed, see fixes/C02-compact-read-paths.patch).
-/
namespace B6.Props.C02
open B6.Model.WorldRead B6.Lemmas.WorldRead

/-- ids carry the type of the feature they name, and features refer to ids of the right type -/
structure WellTyped (w : World) : Prop where
  paths : ∀ q ∈ w.paths, q.id.t = .path ∧ ∀ r ∈ q.refs, r.t = .point
  areas : ∀ a ∈ w.areas, a.id.t = .area ∧ ∀ ids ∈ a.polys, ∀ i ∈ ids, i.t = .path
  relations : ∀ r ∈ w.relations, r.id.t = .relation

/-- how the kept features relate to the source the compact records are written from -/
structure Consistent (w : World) : Prop where
  pathFromSource : ∀ q' ∈ w.paths, ∃ q ∈ w.srcPaths, q.id = q'.id ∧ ∀ z, z ∈ q'.refs ↔ z ∈ visits q
  uniquePaths : (w.srcPaths.map (·.id)).Nodup
  areaFromSource : ∀ a ∈ w.areas, a ∈ w.srcAreas
  uniqueAreas : (w.srcAreas.map (·.id)).Nodup
  pointsExist : ∀ q ∈ w.paths, ∀ r ∈ q.refs, w.points.any (·.id = r) = true

/-! ## membership lemmas -/

theorem mem_directReferrers (w : World) (z y : Id) :
    y ∈ directReferrers w z ↔
      (∃ q ∈ w.paths, q.refs.contains z = true ∧ q.id = y) ∨
      (∃ a ∈ w.areas, (a.polys.any fun ids => ids.contains z) = true ∧ a.id = y) ∨
      (∃ r ∈ w.relations, (r.members.any fun m => m.1 = z) = true ∧ r.id = y) := by
  simp only [directReferrers, List.mem_append, List.mem_map, List.mem_filter, or_assoc]
  constructor
  · rintro (⟨q, ⟨h1, h2⟩, h3⟩ | ⟨a, ⟨h1, h2⟩, h3⟩ | ⟨r, ⟨h1, h2⟩, h3⟩)
    · exact Or.inl ⟨q, h1, h2, h3⟩
    · exact Or.inr (Or.inl ⟨a, h1, h2, h3⟩)
    · exact Or.inr (Or.inr ⟨r, h1, h2, h3⟩)
  · rintro (⟨q, h1, h2, h3⟩ | ⟨a, h1, h2, h3⟩ | ⟨r, h1, h2, h3⟩)
    · exact Or.inl ⟨q, ⟨h1, h2⟩, h3⟩
    · exact Or.inr (Or.inl ⟨a, ⟨h1, h2⟩, h3⟩)
    · exact Or.inr (Or.inr ⟨r, ⟨h1, h2⟩, h3⟩)

theorem directReferrers_not_point (w : World) (hw : WellTyped w) (z y : Id) (h : y ∈ directReferrers w z) :
    y.t ≠ .point := by
  rcases (mem_directReferrers w z y).mp h with ⟨q, hq, _, rfl⟩ | ⟨a, ha, _, rfl⟩ | ⟨r, hr, _, rfl⟩
  · rw [(hw.paths q hq).1]; simp
  · rw [(hw.areas a ha).1]; simp
  · rw [hw.relations r hr]; simp

theorem closure_not_point (w : World) (hw : WellTyped w) (x y : Id) (h : y ∈ closure w x) : y.t ≠ .point := by
  obtain ⟨z, _, hyz⟩ := closure_sound w x y h
  exact directReferrers_not_point w hw z y hyz

/-- the path-typed part of the closure of a point is its direct path referrers -/
theorem closure_paths (w : World) (hw : WellTyped w) (x y : Id) :
    (y ∈ closure w x ∧ y.t = .path) ↔ ∃ q ∈ w.paths, q.refs.contains x = true ∧ q.id = y := by
  constructor
  · rintro ⟨hc, ht⟩
    obtain ⟨z, hz, hyz⟩ := closure_sound w x y hc
    rcases (mem_directReferrers w z y).mp hyz with ⟨q, hq, hqz, rfl⟩ | ⟨a, ha, _, rfl⟩ | ⟨r, hr, _, rfl⟩
    · have hzt : z.t = .point := (hw.paths q hq).2 z (by simpa using hqz)
      cases hz with
      | inl hz => subst hz; exact ⟨q, hq, hqz, rfl⟩
      | inr hz => exact absurd hzt (closure_not_point w hw x z hz)
    · rw [(hw.areas a ha).1] at ht; simp at ht
    · rw [hw.relations r hr] at ht; simp at ht
  · rintro ⟨q, hq, hqx, rfl⟩
    refine ⟨direct_subset_closure w x q.id ?_, (hw.paths q hq).1⟩
    exact (mem_directReferrers w x q.id).mpr (Or.inl ⟨q, hq, hqx, rfl⟩)

theorem mem_pointPaths (w : World) (x y : Id) :
    y ∈ pointPaths w x ↔ ∃ q ∈ w.srcPaths, x ∈ visits q ∧ q.id = y := by
  simp only [pointPaths, List.mem_flatMap, List.mem_filterMap]
  constructor
  · rintro ⟨q, hq, r, hr, hry⟩
    by_cases h : r = x
    · subst h; simp at hry; exact ⟨q, hq, hr, hry⟩
    · simp [h] at hry
  · rintro ⟨q, hq, hx, rfl⟩
    exact ⟨q, hq, x, hx, by simp⟩

theorem mem_pathExists (w : World) (y : Id) : pathExists w y = true ↔ ∃ q ∈ w.paths, q.id = y := by
  simp [pathExists, List.any_eq_true]

theorem unique_by_id {α} (key : α → Id) (l : List α) (hnd : (l.map key).Nodup) (a b : α)
    (ha : a ∈ l) (hb : b ∈ l) (h : key a = key b) : a = b := by
  induction l with
  | nil => simp at ha
  | cons c t ih =>
    simp only [List.map_cons, List.nodup_cons] at hnd
    simp only [List.mem_cons] at ha hb
    cases ha with
    | inl ha =>
      cases hb with
      | inl hb => rw [ha, hb]
      | inr hb => exact absurd (List.mem_map.mpr ⟨b, hb, by rw [← h, ha]⟩) hnd.1
    | inr ha =>
      cases hb with
      | inl hb => exact absurd (List.mem_map.mpr ⟨a, ha, by rw [h, hb]⟩) hnd.1
      | inr hb => exact ih hnd.2 ha hb

/-- a kept path through `x`, seen from the compact records -/
theorem kept_path_iff (w : World) (hc : Consistent w) (x y : Id) :
    (∃ q ∈ w.paths, q.refs.contains x = true ∧ q.id = y) ↔ (y ∈ pointPaths w x ∧ pathExists w y = true) := by
  rw [mem_pointPaths, mem_pathExists]
  constructor
  · rintro ⟨q', hq', hx, rfl⟩
    obtain ⟨q, hq, hid, hrefs⟩ := hc.pathFromSource q' hq'
    exact ⟨⟨q, hq, (hrefs x).mp (by simpa using hx), hid⟩, ⟨q', hq', rfl⟩⟩
  · rintro ⟨⟨q, hq, hx, rfl⟩, ⟨q', hq', hid⟩⟩
    obtain ⟨q2, hq2, hid2, hrefs⟩ := hc.pathFromSource q' hq'
    have : q2 = q := unique_by_id (·.id) w.srcPaths hc.uniquePaths q2 q hq2 hq (by rw [hid2, hid])
    subst this
    exact ⟨q', hq', by simpa using (hrefs x).mpr hx, hid⟩

/-! ## FindReferences / FindRelationsByFeature -/

theorem mem_relsDirectC (w : World) (x y : Id) :
    y ∈ relsDirectC w x ↔ hasRecord w x = true ∧ ∃ r ∈ w.relations, (r.members.any fun m => m.1 = x) = true ∧ r.id = y := by
  unfold relsDirectC
  by_cases h : hasRecord w x = true
  · simp only [h, Bool.not_true, Bool.false_eq_true, ite_false, mem_dedup, List.mem_map, List.mem_filter, true_and]
    constructor
    · rintro ⟨r, ⟨h1, h2⟩, h3⟩; exact ⟨r, h1, h2, h3⟩
    · rintro ⟨r, h1, h2, h3⟩; exact ⟨r, ⟨h1, h2⟩, h3⟩
  · have h' : hasRecord w x = false := by simpa using h
    simp [h']

/-- second level of the closure: a referrer of a direct referrer is found -/
theorem direct2_subset_closure (w : World) (x z y : Id) (hz : z ∈ directReferrers w x) (hy : y ∈ directReferrers w z)
    (hfuel : 1 ≤ (allIds w).length) : y ∈ closure w x := by
  unfold closure
  obtain ⟨n, hn⟩ : ∃ n, (allIds w).length + 1 = n + 2 := ⟨(allIds w).length - 1, by omega⟩
  rw [hn]
  have hz1 : z ∈ dedup ((List.flatMap (directReferrers w) [x]).filter fun y => !([] : List Id).contains y) := by
    rw [mem_dedup]; simp [hz]
  unfold expand
  simp only
  split
  · rename_i he
    have hne := List.isEmpty_iff.mp he
    rw [hne] at hz1; simp at hz1
  · generalize hnew : dedup ((List.flatMap (directReferrers w) [x]).filter fun y => !([] : List Id).contains y) = new1 at hz1
    simp only [List.nil_append]
    by_cases hyn : y ∈ new1
    · exact seen_subset_expand _ _ _ _ y hyn
    · unfold expand
      simp only
      have hy2 : y ∈ dedup ((List.flatMap (directReferrers w) new1).filter fun y => !new1.contains y) := by
        rw [mem_dedup, List.mem_filter]
        refine ⟨List.mem_flatMap.mpr ⟨z, hz1, hy⟩, ?_⟩
        simpa using hyn
      split
      · rename_i he
        have hne := List.isEmpty_iff.mp he
        rw [hne] at hy2; simp at hy2
      · exact seen_subset_expand _ _ _ _ y (List.mem_append_right _ hy2)

theorem mem_allIds_of_path (w : World) (q : Path) (hq : q ∈ w.paths) : 1 ≤ (allIds w).length := by
  have : q.id ∈ allIds w := by
    simp only [allIds, List.mem_append, List.mem_map]
    exact Or.inl (Or.inl (Or.inr ⟨q, hq, rfl⟩))
  cases h : allIds w with
  | nil => rw [h] at this; simp at this
  | cons a t => simp

theorem mem_areasC (w : World) (x y : Id) :
    y ∈ areasC w x ↔ x.t = .point ∧ hasFeature w x = true ∧
      (∃ pid, pid ∈ pointPaths w x ∧ pathExists w pid = true ∧
        ∃ a ∈ w.srcAreas, (a.polys.any fun ids => ids.contains pid) = true ∧ a.id = y) ∧
      (w.areas.any (·.id = y)) = true := by
  unfold areasC
  by_cases h1 : x.t = .point
  · by_cases h2 : hasFeature w x = true
    · simp only [h1, h2, ne_eq, not_true_eq_false, decide_false, Bool.not_true, Bool.or_self, Bool.false_eq_true,
        ite_false, List.mem_filter, mem_dedup, List.mem_flatMap, List.mem_map, true_and]
      constructor
      · rintro ⟨⟨pid, ⟨hp1, hp2⟩, a, ⟨ha1, ha2⟩, ha3⟩, hex⟩
        exact ⟨⟨pid, hp1, hp2, a, ha1, ha2, ha3⟩, hex⟩
      · rintro ⟨⟨pid, hp1, hp2, a, ha1, ha2, ha3⟩, hex⟩
        exact ⟨⟨pid, ⟨hp1, hp2⟩, a, ⟨ha1, ha2⟩, ha3⟩, hex⟩
    · have h2' : hasFeature w x = false := by simpa using h2
      simp [h1, h2']
  · simp [h1]

/-- the area-typed part of the closure of a point: areas with a kept path through the point -/
theorem closure_areas (w : World) (hw : WellTyped w) (x : Id) (hx : x.t = .point) (y : Id) :
    (y ∈ closure w x ∧ y.t = .area) ↔
      ∃ a ∈ w.areas, a.id = y ∧ ∃ q ∈ w.paths, q.refs.contains x = true ∧ (a.polys.any fun ids => ids.contains q.id) = true := by
  constructor
  · rintro ⟨hc, ht⟩
    obtain ⟨z, hz, hyz⟩ := closure_sound w x y hc
    rcases (mem_directReferrers w z y).mp hyz with ⟨q, hq, _, rfl⟩ | ⟨a, ha, haz, rfl⟩ | ⟨r, hr, _, rfl⟩
    · rw [(hw.paths q hq).1] at ht; simp at ht
    · -- z is one of the area's paths, hence path-typed, hence in the closure (not the point itself)
      have hzt : z.t = .path := by
        rw [List.any_eq_true] at haz
        obtain ⟨ids, hids, hz'⟩ := haz
        exact (hw.areas a ha).2 ids hids z (by simpa using hz')
      have hzc : z ∈ closure w x := by
        cases hz with
        | inl hz => rw [hz, hx] at hzt; simp at hzt
        | inr hz => exact hz
      obtain ⟨q, hq, hqx, hqz⟩ := (closure_paths w hw x z).mp ⟨hzc, hzt⟩
      exact ⟨a, ha, rfl, q, hq, hqx, by rw [hqz]; exact haz⟩
    · rw [hw.relations r hr] at ht; simp at ht
  · rintro ⟨a, ha, rfl, q, hq, hqx, haq⟩
    refine ⟨?_, (hw.areas a ha).1⟩
    apply direct2_subset_closure w x q.id a.id
    · exact (mem_directReferrers w x q.id).mpr (Or.inl ⟨q, hq, hqx, rfl⟩)
    · exact (mem_directReferrers w q.id a.id).mpr (Or.inr (Or.inl ⟨a, ha, haq, rfl⟩))
    · exact mem_allIds_of_path w q hq

/-- `FindAreasByPoint`: the two worlds return the same areas. -/
theorem areas_by_point_equiv (w : World) (hw : WellTyped w) (hc : Consistent w) (x : Id) (hx : x.t = .point) (y : Id) :
    y ∈ areasB w x ↔ y ∈ areasC w x := by
  have hB : y ∈ areasB w x ↔ (y ∈ closure w x ∧ y.t = .area) := by
    simp [areasB, refsB, List.mem_filter]
  rw [hB, closure_areas w hw x hx, mem_areasC]
  constructor
  · rintro ⟨a, ha, rfl, q, hq, hqx, haq⟩
    have hk := (kept_path_iff w hc x q.id).mp ⟨q, hq, hqx, rfl⟩
    refine ⟨hx, ?_, ⟨q.id, hk.1, hk.2, a, hc.areaFromSource a ha, haq, rfl⟩, ?_⟩
    · have := hc.pointsExist q hq x (by simpa using hqx)
      simp [hasFeature, hx, this]
    · rw [List.any_eq_true]; exact ⟨a, ha, by simp⟩
  · rintro ⟨_, _, ⟨pid, hp1, hp2, a', ha', hap, rfl⟩, hex⟩
    rw [List.any_eq_true] at hex
    obtain ⟨a, ha, haid⟩ := hex
    have haid' : a.id = a'.id := by simpa using haid
    have : a = a' := unique_by_id (·.id) w.srcAreas hc.uniqueAreas a a' (hc.areaFromSource a ha) ha' haid'
    subst this
    obtain ⟨q, hq, hqx, hqid⟩ := (kept_path_iff w hc x pid).mpr ⟨hp1, hp2⟩
    exact ⟨a, ha, rfl, q, hq, hqx, by rw [hqid]; exact hap⟩

theorem hasFeature_of_kept (w : World) (hw : WellTyped w) (z y : Id) (h : y ∈ directReferrers w z) : hasFeature w y = true := by
  rcases (mem_directReferrers w z y).mp h with ⟨q, hq, _, rfl⟩ | ⟨a, ha, _, rfl⟩ | ⟨r, hr, _, rfl⟩
  · simp only [hasFeature, (hw.paths q hq).1, List.any_eq_true]; exact ⟨q, hq, by simp⟩
  · simp only [hasFeature, (hw.areas a ha).1, List.any_eq_true]; exact ⟨a, ha, by simp⟩
  · simp only [hasFeature, hw.relations r hr, List.any_eq_true]; exact ⟨r, hr, by simp⟩

theorem mem_areasOfPathC (w : World) (z y : Id) :
    y ∈ areasOfPathC w z ↔ pathExists w z = true ∧
      (∃ a ∈ w.srcAreas, (a.polys.any fun ids => ids.contains z) = true ∧ a.id = y) ∧ (w.areas.any (·.id = y)) = true := by
  unfold areasOfPathC
  by_cases h : pathExists w z = true
  · simp only [h, Bool.not_true, Bool.false_eq_true, ite_false, List.mem_filter, mem_dedup, List.mem_map, true_and]
    constructor
    · rintro ⟨⟨a, ⟨h1, h2⟩, h3⟩, h4⟩; exact ⟨⟨a, h1, h2, h3⟩, h4⟩
    · rintro ⟨⟨a, h1, h2, h3⟩, h4⟩; exact ⟨⟨a, ⟨h1, h2⟩, h3⟩, h4⟩
  · have h' : pathExists w z = false := by simpa using h
    simp [h']

/-- **one step agrees**: for an id that has a record, the features the compact world finds from its records are
exactly the direct referrers of the in-memory world's index. -/
theorem direct_equiv (w : World) (hw : WellTyped w) (hc : Consistent w) (z : Id) (hz : hasRecord w z = true) (y : Id) :
    y ∈ directReferrers w z ↔ y ∈ directC w z := by
  have hrel : (∃ r ∈ w.relations, (r.members.any fun m => m.1 = z) = true ∧ r.id = y) ↔ y ∈ relsDirectC w z := by
    rw [mem_relsDirectC]; simp [hz]
  have noPathIn : ∀ a ∈ w.areas, (a.polys.any fun ids => ids.contains z) = true → z.t = .path := by
    intro a ha h
    rw [List.any_eq_true] at h
    obtain ⟨ids, hids, hz'⟩ := h
    exact (hw.areas a ha).2 ids hids z (by simpa using hz')
  have noPointIn : ∀ q ∈ w.paths, q.refs.contains z = true → z.t = .point :=
    fun q hq h => (hw.paths q hq).2 z (by simpa using h)
  rw [mem_directReferrers]
  unfold directC
  simp only [List.mem_append]
  cases hzt : z.t
  · -- a point: its paths and its relations
    simp only [ite_true, reduceCtorEq, ite_false, List.not_mem_nil, or_false, List.mem_filter, findPathsByPoint, mem_dedup]
    rw [← hrel, kept_path_iff w hc z y]
    constructor
    · rintro (h | ⟨a, ha, haz, _⟩ | h)
      · exact Or.inl h
      · have := noPathIn a ha haz; rw [hzt] at this; simp at this
      · exact Or.inr h
    · rintro (h | h)
      · exact Or.inl h
      · exact Or.inr (Or.inr h)
  · -- a path: its areas and its relations
    have hpe : pathExists w z = true := by
      simpa [hasRecord, hasFeature, hzt, pathExists] using hz
    simp only [reduceCtorEq, ite_false, ite_true, List.not_mem_nil, false_or]
    rw [← hrel, mem_areasOfPathC]
    constructor
    · rintro (⟨q, hq, hqz, _⟩ | ⟨a, ha, haz, rfl⟩ | h)
      · have := noPointIn q hq hqz; rw [hzt] at this; simp at this
      · refine Or.inl ⟨hpe, ⟨a, hc.areaFromSource a ha, haz, rfl⟩, ?_⟩
        rw [List.any_eq_true]; exact ⟨a, ha, by simp⟩
      · exact Or.inr h
    · rintro (⟨_, ⟨a', ha', haz, rfl⟩, hex⟩ | h)
      · rw [List.any_eq_true] at hex
        obtain ⟨a, ha, haid⟩ := hex
        have haid' : a.id = a'.id := by simpa using haid
        have : a = a' := unique_by_id (·.id) w.srcAreas hc.uniqueAreas a a' (hc.areaFromSource a ha) ha' haid'
        subst this
        exact Or.inr (Or.inl ⟨a, ha, haz, rfl⟩)
      · exact Or.inr (Or.inr h)
  · -- an area: its relations
    simp only [reduceCtorEq, ite_false, List.not_mem_nil, false_or]
    rw [← hrel]
    constructor
    · rintro (⟨q, hq, hqz, _⟩ | ⟨a, ha, haz, _⟩ | h)
      · have := noPointIn q hq hqz; rw [hzt] at this; simp at this
      · have := noPathIn a ha haz; rw [hzt] at this; simp at this
      · exact h
    · intro h; exact Or.inr (Or.inr h)
  · -- a relation: its relations
    simp only [reduceCtorEq, ite_false, List.not_mem_nil, false_or]
    rw [← hrel]
    constructor
    · rintro (⟨q, hq, hqz, _⟩ | ⟨a, ha, haz, _⟩ | h)
      · have := noPointIn q hq hqz; rw [hzt] at this; simp at this
      · have := noPathIn a ha haz; rw [hzt] at this; simp at this
      · exact h
    · intro h; exact Or.inr (Or.inr h)

/-- **the two closures agree**: from an id that has a record, the compact world's worklist over its records
reaches exactly what the in-memory world's references index reaches. -/
theorem closure_equiv (w : World) (hw : WellTyped w) (hc : Consistent w) (x : Id) (hx : hasRecord w x = true) (y : Id) :
    y ∈ closure w x ↔ y ∈ closureC w x := by
  unfold closure closureC
  apply expand_congr (directReferrers w) (directC w) (fun z => hasRecord w z = true)
  · intro z _ y hy
    simp [hasRecord, hasFeature_of_kept w hw z y hy]
  · intro z hz y; exact direct_equiv w hw hc z hz y
  · intro z hz; simp only [List.mem_singleton] at hz; rw [hz]; exact hx
  · intro y; rfl
  · intro y; rfl

/-- **`FindReferences`, any type filter**: same id set in both worlds, for every id that has a record (a feature,
or any point id). -/
theorem references_equiv (w : World) (hw : WellTyped w) (hc : Consistent w) (x : Id) (hx : hasRecord w x = true)
    (ts : List FT) (y : Id) : y ∈ refsB w x ts ↔ y ∈ refsC w x ts := by
  simp only [refsB, refsC, List.mem_filter, closure_equiv w hw hc x hx y]

/-- **`FindRelationsByFeature`**: same id set in both worlds, for every id that has a record. -/
theorem relations_by_feature_equiv (w : World) (hw : WellTyped w) (hc : Consistent w) (x : Id)
    (hx : hasRecord w x = true) (y : Id) : y ∈ relsB w x ↔ y ∈ relsC w x :=
  references_equiv w hw hc x hx [.relation] y

/-! ## the worlds `build` produces satisfy the invariants -/

/-- what a source has to satisfy: ids typed by the feature they name, references typed, path and area ids distinct -/
structure SourceOK (src : Source) : Prop where
  paths : ∀ q ∈ srcPaths src, q.id.t = .path ∧ ∀ r ∈ q.refs, r.t = .point
  areas : ∀ a ∈ srcAreas src, a.id.t = .area ∧ ∀ ids ∈ a.polys, ∀ i ∈ ids, i.t = .path
  relations : ∀ r ∈ srcRelations src, r.id.t = .relation
  uniquePaths : ((srcPaths src).map (·.id)).Nodup
  uniqueAreas : ((srcAreas src).map (·.id)).Nodup

theorem mem_finalRefs (p : Path) (z : Id) : z ∈ finalRefs p ↔ z ∈ p.refs := by
  unfold finalRefs; split <;> simp

theorem mem_build_paths (src : Source) (q' : Path) :
    q' ∈ (build src).paths ↔ ∃ q ∈ srcPaths src, pathValid (srcPoints src) q = true ∧ q' = { q with refs := finalRefs q } := by
  simp only [build, List.mem_map, List.mem_filter]
  constructor
  · rintro ⟨q, ⟨h1, h2⟩, rfl⟩; exact ⟨q, h1, h2, rfl⟩
  · rintro ⟨q, h1, h2, rfl⟩; exact ⟨q, ⟨h1, h2⟩, rfl⟩

theorem build_wellTyped (src : Source) (h : SourceOK src) : WellTyped (build src) := by
  constructor
  · intro q' hq'
    obtain ⟨q, hq, _, rfl⟩ := (mem_build_paths src q').mp hq'
    exact ⟨(h.paths q hq).1, fun r hr => (h.paths q hq).2 r ((mem_finalRefs q r).mp hr)⟩
  · intro a ha
    have : a ∈ srcAreas src := by
      simp only [build, List.mem_filter] at ha; exact ha.1
    exact h.areas a this
  · intro r hr
    exact h.relations r (by simpa [build] using hr)

/-- a closed list of at least two references loses no member when its last element is dropped -/
theorem mem_dropLast_of_closed (refs : List Id) (hc : closedRefs refs = true) (hl : 2 ≤ refs.length) (z : Id) :
    z ∈ refs.dropLast ↔ z ∈ refs := by
  constructor
  · exact fun h => List.dropLast_subset refs h
  · intro hz
    match refs, hl with
    | a :: b :: t, _ =>
      have hne : (a :: b :: t) ≠ [] := by simp
      have hsplit := List.dropLast_concat_getLast hne
      rw [← hsplit, List.mem_append] at hz
      cases hz with
      | inl hz => exact hz
      | inr hz =>
        simp only [List.mem_singleton] at hz
        -- z is the last element, which equals the head, which survives dropLast
        have hlast : (a :: b :: t).getLast? = some ((a :: b :: t).getLast hne) := List.getLast?_eq_some_getLast hne
        simp only [closedRefs, List.head?_cons, hlast, decide_eq_true_eq] at hc
        rw [hz, ← hc]
        simp [List.dropLast]

theorem build_consistent (src : Source) (h : SourceOK src) : Consistent (build src) := by
  constructor
  · intro q' hq'
    obtain ⟨q, hq, hv, rfl⟩ := (mem_build_paths src q').mp hq'
    refine ⟨q, by simpa [build] using hq, rfl, ?_⟩
    intro z
    simp only [mem_finalRefs]
    unfold visits
    split
    · rename_i hcl
      have hl : 2 ≤ q.refs.length := by
        simp only [pathValid, Bool.and_eq_true, decide_eq_true_eq] at hv
        exact hv.1.1
      exact (mem_dropLast_of_closed q.refs hcl hl z).symm
    · rfl
  · simpa [build] using h.uniquePaths
  · intro a ha
    simp only [build, List.mem_filter] at ha ⊢; exact ha.1
  · simpa [build] using h.uniqueAreas
  · intro q' hq' r hr
    obtain ⟨q, hq, hv, rfl⟩ := (mem_build_paths src q').mp hq'
    have hr' : r ∈ q.refs := (mem_finalRefs q r).mp hr
    simp only [pathValid, Bool.and_eq_true, List.all_eq_true] at hv
    have := hv.1.2 r hr'
    simp only [locOf, Option.isSome_map] at this
    rw [List.any_eq_true]
    cases hf : (srcPoints src).find? (fun p => decide (p.id = r)) with
    | none => rw [hf] at this; simp at this
    | some p =>
      exact ⟨p, by simpa [build] using List.mem_of_find?_eq_some hf, by simpa using List.find?_some hf⟩

/-! ## Traverse -/

theorem upFrom_ge (p : Nat → Bool) (k : Nat) : ∀ (i j : Nat), upFrom p i k = some j → i ≤ j := by
  induction k with
  | zero => intro i j h; simp [upFrom] at h
  | succ k ih =>
    intro i j h
    unfold upFrom at h
    split at h
    · simp at h; omega
    · have := ih (i + 1) j h; omega

theorem downFrom_lt (p : Nat → Bool) (k : Nat) : ∀ (i j : Nat), 0 < i → downFrom p i k = some j → j < i := by
  induction k with
  | zero => intro i j _ h; simp [downFrom] at h
  | succ k ih =>
    intro i j hi h
    unfold downFrom at h
    split at h
    · simp at h; omega
    · by_cases h1 : 0 < i - 1
      · have := ih (i - 1) j h1 h; omega
      · -- i = 1: the remaining candidates are all 0 - 1 = 0; whatever is found is below i
        have hi1 : i - 1 = 0 := by omega
        rw [hi1] at h
        have : ∀ k j, downFrom p 0 k = some j → j = 0 := by
          intro k
          induction k with
          | zero => intro j h; simp [downFrom] at h
          | succ k ihk =>
            intro j h
            unfold downFrom at h
            split at h
            · simp at h; omega
            · exact ihk j (by simpa using h)
        have := this k j h
        omega

theorem upFrom_succ (p : Nat → Bool) (i k : Nat) : upFrom p i (k + 1) = if p i = true then some i else upFrom p (i + 1) k := rfl
theorem downFrom_succ (p : Nat → Bool) (i k : Nat) :
    downFrom p i (k + 1) = if p (i - 1) = true then some (i - 1) else downFrom p (i - 1) k := rfl

/-- a loop that also stops at the last candidate = the loop over the others, defaulting to the last -/
theorem upFrom_last (P Q : Nat → Bool) (k : Nat) : ∀ (s : Nat), (∀ j, s ≤ j → j < s + k → P j = Q j) → P (s + k) = true →
    upFrom P s (k + 1) = some ((upFrom Q s k).getD (s + k)) := by
  induction k with
  | zero =>
    intro s _ hl
    simp only [Nat.add_zero] at hl
    simp [upFrom, hl]
  | succ k ih =>
    intro s hpq hl
    have h0 : P s = Q s := hpq s (Nat.le_refl _) (by omega)
    rw [upFrom_succ P s (k + 1), upFrom_succ Q s k, h0]
    by_cases hq : Q s = true
    · simp [hq]
    · have hq' : Q s = false := by simpa using hq
      simp only [hq', Bool.false_eq_true, ite_false]
      have := ih (s + 1) (fun j h1 h2 => hpq j (by omega) (by omega)) (by rw [show s + 1 + k = s + (k + 1) by omega]; exact hl)
      rw [this, show s + 1 + k = s + (k + 1) by omega]

theorem downFrom_last (P Q : Nat → Bool) (k : Nat) : ∀ (i : Nat), i = k + 1 → (∀ j, 1 ≤ j → j < i → P j = Q j) → P 0 = true →
    downFrom P i (k + 1) = some ((downFrom Q i k).getD 0) := by
  induction k with
  | zero => intro i hi _ h0; subst hi; simp [downFrom, h0]
  | succ k ih =>
    intro i hi hpq h0
    have h1 : P (i - 1) = Q (i - 1) := hpq (i - 1) (by omega) (by omega)
    rw [downFrom_succ P i (k + 1), downFrom_succ Q i k, h1]
    by_cases hq : Q (i - 1) = true
    · simp [hq]
    · have hq' : Q (i - 1) = false := by simpa using hq
      simp only [hq', Bool.false_eq_true, ite_false]
      exact ih (i - 1) (by omega) (fun j h1 h2 => hpq j h1 (by omega)) h0

/-- **the scanning of `traverse` and of `fillPathSegments` agree**: for any test of the intermediate points,
"first node in each direction, end points are nodes" (in-memory world) and "`previous` / `next` with the end
points as defaults, dropped when equal to the origin" (compact world) give the same segments. -/
theorem traverse_scan_equiv (node : Nat → Bool) (qid : Id) (n idx : Nat) (h : idx < n) (s : Seg) :
    s ∈ scanB node qid n idx ↔ s ∈ scanC node qid n idx := by
  -- forward
  have hup : (upFrom (fun i => decide (i = 0) || decide (i + 1 = n) || node i) (idx + 1) (n - (idx + 1))).toList.map (Seg.mk qid idx) =
      (if (upFrom node (idx + 1) (n - 1 - (idx + 1))).getD (n - 1) ≠ idx
        then [Seg.mk qid idx ((upFrom node (idx + 1) (n - 1 - (idx + 1))).getD (n - 1))] else []) := by
    by_cases hlast : idx + 1 < n
    · have hk : n - (idx + 1) = (n - 1 - (idx + 1)) + 1 := by omega
      rw [hk, upFrom_last _ node (n - 1 - (idx + 1)) (idx + 1)
        (by intro j h1 h2
            have : ¬ j = 0 := by omega
            have : ¬ j + 1 = n := by omega
            simp [*])
        (by have : idx + 1 + (n - 1 - (idx + 1)) + 1 = n := by omega
            simp [this])]
      have hne : (upFrom node (idx + 1) (n - 1 - (idx + 1))).getD (idx + 1 + (n - 1 - (idx + 1))) ≠ idx := by
        cases hu : upFrom node (idx + 1) (n - 1 - (idx + 1)) with
        | none => simp; omega
        | some j => have := upFrom_ge node _ _ _ hu; simp; omega
      have he : idx + 1 + (n - 1 - (idx + 1)) = n - 1 := by omega
      rw [he] at hne ⊢
      simp [hne]
    · have hk : n - (idx + 1) = 0 := by omega
      have hk2 : n - 1 - (idx + 1) = 0 := by omega
      have : n - 1 = idx := by omega
      simp [hk, upFrom, this]
  -- backward
  have hdown : (downFrom (fun i => decide (i = 0) || decide (i + 1 = n) || node i) idx idx).toList.map (Seg.mk qid idx) =
      (if (downFrom node idx (idx - 1)).getD 0 ≠ idx then [Seg.mk qid idx ((downFrom node idx (idx - 1)).getD 0)] else []) := by
    by_cases h0 : 0 < idx
    · obtain ⟨k, hk⟩ : ∃ k, idx = k + 1 := ⟨idx - 1, by omega⟩
      have hk' : idx - 1 = k := by omega
      rw [hk'] 
      conv => lhs; rw [show (downFrom (fun i => decide (i = 0) || decide (i + 1 = n) || node i) idx idx) =
        (downFrom (fun i => decide (i = 0) || decide (i + 1 = n) || node i) idx (k + 1)) by rw [← hk]]
      rw [downFrom_last _ node k idx hk
        (by intro j h1 h2
            have : ¬ j = 0 := by omega
            have : ¬ j + 1 = n := by omega
            simp [*])
        (by simp)]
      have hne : (downFrom node idx k).getD 0 ≠ idx := by
        cases hd : downFrom node idx k with
        | none => simp; omega
        | some j => have := downFrom_lt node _ _ _ h0 hd; simp; omega
      simp [hne]
    · have : idx = 0 := by omega
      subst this
      simp [downFrom]
  unfold scanB scanC
  simp only [List.mem_append]
  rw [hup, hdown]
  constructor
  · rintro (h | h)
    · exact Or.inr h
    · exact Or.inl h
  · rintro (h | h)
    · exact Or.inr h
    · exact Or.inl h

/-- kept paths have distinct ids -/
abbrev UniqueKept (w : World) : Prop := (w.paths.map (·.id)).Nodup

theorem nodup_dedup (l : List Id) : (dedup l).Nodup := by
  induction l with
  | nil => simp [dedup]
  | cons a t ih =>
    unfold dedup at *
    simp only [List.foldr_cons]
    split
    · exact ih
    · rename_i h
      exact List.nodup_cons.mpr ⟨by simpa using h, ih⟩

/-- the two intersection tests count the same thing: the distinct kept paths through the point -/
theorem count_equiv (w : World) (hc : Consistent w) (hu : UniqueKept w) (p : Id) : pathCountB w p = countPaths w p := by
  unfold pathCountB countPaths
  have h1 : ((w.paths.filter fun q => q.refs.contains p).map (·.id)).Nodup :=
    List.Nodup.sublist (List.Sublist.map _ List.filter_sublist) hu
  have h2 : ((dedup (pointPaths w p)).filter (pathExists w)).Nodup :=
    List.Nodup.sublist List.filter_sublist (nodup_dedup _)
  have hperm : ((w.paths.filter fun q => q.refs.contains p).map (·.id)).Perm ((dedup (pointPaths w p)).filter (pathExists w)) := by
    rw [List.perm_ext_iff_of_nodup h1 h2]
    intro y
    simp only [List.mem_map, List.mem_filter, mem_dedup]
    have := kept_path_iff w hc p y
    constructor
    · rintro ⟨q, ⟨hq, hqp⟩, hid⟩; exact this.mp ⟨q, hq, hqp, hid⟩
    · intro h
      obtain ⟨q, hq, hqp, hid⟩ := this.mpr h
      exact ⟨q, ⟨hq, hqp⟩, hid⟩
  have := hperm.length_eq
  simpa using this

theorem interior_equiv (w : World) (hc : Consistent w) (hu : UniqueKept w) (refs : List Id) :
    interiorB w refs = interiorC w refs := by
  funext i
  unfold interiorB interiorC isNodeC
  cases refs[i]? with
  | none => rfl
  | some pid => simp only [count_equiv w hc hu pid]; exact Bool.or_comm _ _

theorem segments_equiv (w : World) (hc : Consistent w) (hu : UniqueKept w) (x : Id) (q : Path) (s : Seg) :
    s ∈ segmentsB w x q ↔ s ∈ segmentsC w x q := by
  unfold segmentsB segmentsC
  cases hl : lastIndexOf q.refs x with
  | none => simp
  | some idx =>
    simp only
    rw [interior_equiv w hc hu]
    by_cases hlt : idx < q.refs.length
    · exact traverse_scan_equiv _ _ _ _ hlt s
    · -- `lastIndexOf` only returns positions of the list
      exfalso
      have : ∀ (l : List Nat) (acc : Option Nat), (∀ i ∈ l, i < q.refs.length) → (∀ a, acc = some a → a < q.refs.length) →
          ∀ a, l.foldl (fun acc i => if q.refs[i]? = some x then some i else acc) acc = some a → a < q.refs.length := by
        intro l
        induction l with
        | nil => intro acc _ hacc a ha; exact hacc a (by simpa using ha)
        | cons b t ih =>
          intro acc hl' hacc a ha
          simp only [List.foldl_cons] at ha
          apply ih _ (fun i hi => hl' i (by simp [hi])) _ a ha
          intro a' ha'
          split at ha'
          · simp at ha'; rw [← ha']; exact hl' b (by simp)
          · exact hacc a' ha'
      exact hlt (this (List.range q.refs.length) none (fun i hi => by simpa using hi) (by simp) idx hl)

theorem findPath_iff (w : World) (hu : UniqueKept w) (pid : Id) (q : Path) :
    findPath w.paths pid = some q ↔ q ∈ w.paths ∧ q.id = pid := by
  unfold findPath
  constructor
  · intro h
    exact ⟨List.mem_of_find?_eq_some h, by simpa using List.find?_some h⟩
  · rintro ⟨hq, hid⟩
    cases hf : w.paths.find? (fun p => decide (p.id = pid)) with
    | none =>
      have := List.find?_eq_none.mp hf q hq
      simp [hid] at this
    | some q' =>
      have h1 : q' ∈ w.paths := List.mem_of_find?_eq_some hf
      have h2 : q'.id = pid := by simpa using List.find?_some hf
      rw [unique_by_id (·.id) w.paths hu q' q h1 hq (by rw [h2, hid])]

/-- **`Traverse`: the two worlds return the same set of segments**, for every point id (the closed-way and
revisited-point cases included: both start from the last position of the origin along the path). -/
theorem traverse_equiv (w : World) (hc : Consistent w) (hu : UniqueKept w) (x : Id) (hx : x.t = .point) (s : Seg) :
    s ∈ traverseB w x ↔ s ∈ traverseC w x := by
  unfold traverseB traverseC
  simp only [List.mem_flatMap, findPathsByPoint, mem_dedup]
  constructor
  · intro h
    by_cases hf : hasFeature w x = true
    · simp only [hf, Bool.not_true, Bool.false_eq_true, ite_false, List.mem_flatMap, List.mem_filter] at h
      obtain ⟨q, ⟨hq, hqx⟩, hs⟩ := h
      have hk := (kept_path_iff w hc x q.id).mp ⟨q, hq, hqx, rfl⟩
      refine ⟨q.id, hk.1, ?_⟩
      rw [(findPath_iff w hu q.id q).mpr ⟨hq, rfl⟩]
      exact (segments_equiv w hc hu x q s).mp hs
    · have hf' : hasFeature w x = false := by simpa using hf
      simp [hf'] at h
  · rintro ⟨pid, hp, hs⟩
    cases hfp : findPath w.paths pid with
    | none => rw [hfp] at hs; simp at hs
    | some q =>
      rw [hfp] at hs
      simp only at hs
      obtain ⟨hq, hid⟩ := (findPath_iff w hu pid q).mp hfp
      obtain ⟨q', hq', hqx, hid'⟩ := (kept_path_iff w hc x pid).mpr ⟨hp, (mem_pathExists w pid).mpr ⟨q, hq, hid⟩⟩
      have : q' = q := unique_by_id (·.id) w.paths hu q' q hq' hq (by rw [hid', hid])
      subst this
      have hex : hasFeature w x = true := by
        have := hc.pointsExist q' hq' x (by simpa using hqx)
        simp [hasFeature, hx, this]
      simp only [hex, Bool.not_true, Bool.false_eq_true, ite_false, List.mem_flatMap, List.mem_filter]
      exact ⟨q', ⟨hq', hqx⟩, (segments_equiv w hc hu x q' s).mpr hs⟩

theorem build_uniqueKept (src : Source) (h : SourceOK src) : UniqueKept (build src) := by
  unfold UniqueKept
  have : ((build src).paths.map (·.id)) = ((srcPaths src).filter (pathValid (srcPoints src))).map (·.id) := by
    simp [build, List.map_map, Function.comp_def]
  rw [this]
  exact List.Nodup.sublist (List.Sublist.map _ List.filter_sublist) h.uniquePaths

/-! ## lookup, existence, location, enumeration -/

/-- every kept feature's id carries the feature's type -/
structure Typed (w : World) : Prop where
  points : ∀ p ∈ w.points, p.id.t = .point
  paths : ∀ q ∈ w.paths, q.id.t = .path
  areas : ∀ a ∈ w.areas, a.id.t = .area
  relations : ∀ r ∈ w.relations, r.id.t = .relation

theorem find?_map_rec {α} (l : List α) (c : α → Rec) (key : α → Id) (hk : ∀ a, (c a).id = key a) (x : Id) :
    (l.map c).find? (fun r => decide (r.id = x)) = (l.find? (fun a => decide (key a = x))).map c := by
  induction l with
  | nil => rfl
  | cons a t ih =>
    simp only [List.map_cons, List.find?_cons, hk]
    by_cases h : key a = x <;> simp [h, ih]

theorem find?_none_of_type {α} (l : List α) (key : α → Id) (x : Id) (h : ∀ a ∈ l, (key a).t ≠ x.t) :
    l.find? (fun a => decide (key a = x)) = none := by
  rw [List.find?_eq_none]
  intro a ha
  simp only [decide_eq_true_eq]
  intro e
  exact h a ha (by rw [e])

/-- **`FindFeatureByID`**: looking the id up in the in-memory id map and in the compact blocks of its type give
the same feature (or both nothing). -/
theorem find_equiv (w : World) (ht : Typed w) (x : Id) : findB w x = findC w x := by
  have hp := find?_map_rec w.points Rec.point (·.id) (fun _ => rfl) x
  have hq := find?_map_rec w.paths Rec.path (·.id) (fun _ => rfl) x
  have ha := find?_map_rec w.areas Rec.area (·.id) (fun _ => rfl) x
  have hr := find?_map_rec w.relations Rec.relation (·.id) (fun _ => rfl) x
  unfold findB findC allFeatures
  simp only [List.find?_append, hp, hq, ha, hr]
  cases hx : x.t
  · have n2 := find?_none_of_type w.paths (·.id) x (fun q hq' => by rw [ht.paths q hq', hx]; simp)
    have n3 := find?_none_of_type w.areas (·.id) x (fun q hq' => by rw [ht.areas q hq', hx]; simp)
    have n4 := find?_none_of_type w.relations (·.id) x (fun q hq' => by rw [ht.relations q hq', hx]; simp)
    simp [n2, n3, n4]
  · have n1 := find?_none_of_type w.points (·.id) x (fun q hq' => by rw [ht.points q hq', hx]; simp)
    have n3 := find?_none_of_type w.areas (·.id) x (fun q hq' => by rw [ht.areas q hq', hx]; simp)
    have n4 := find?_none_of_type w.relations (·.id) x (fun q hq' => by rw [ht.relations q hq', hx]; simp)
    simp [n1, n3, n4]
  · have n1 := find?_none_of_type w.points (·.id) x (fun q hq' => by rw [ht.points q hq', hx]; simp)
    have n2 := find?_none_of_type w.paths (·.id) x (fun q hq' => by rw [ht.paths q hq', hx]; simp)
    have n4 := find?_none_of_type w.relations (·.id) x (fun q hq' => by rw [ht.relations q hq', hx]; simp)
    simp [n1, n2, n4]
  · have n1 := find?_none_of_type w.points (·.id) x (fun q hq' => by rw [ht.points q hq', hx]; simp)
    have n2 := find?_none_of_type w.paths (·.id) x (fun q hq' => by rw [ht.paths q hq', hx]; simp)
    have n3 := find?_none_of_type w.areas (·.id) x (fun q hq' => by rw [ht.areas q hq', hx]; simp)
    simp [n1, n2, n3]

/-- **`HasFeatureWithID`** -/
theorem has_equiv (w : World) (ht : Typed w) (x : Id) : hasB w x = hasC w x := by
  unfold hasB hasC; rw [find_equiv w ht x]

theorem find?_congr' {α} (l : List α) (p q : α → Bool) (h : ∀ a ∈ l, p a = q a) : l.find? p = l.find? q := by
  induction l with
  | nil => rfl
  | cons a t ih =>
    simp only [List.find?_cons, h a (by simp)]
    rw [ih (fun b hb => h b (by simp [hb]))]

/-- **`FindLocationByID`** of a point id: the in-memory world looks the feature up and asks whether it is a
point; the compact world scans the point blocks of the id's namespace by value. -/
theorem location_equiv (w : World) (ht : Typed w) (x : Id) (hx : x.t = .point) : locB w x = locC w x := by
  unfold locB locC
  rw [find_equiv w ht x]
  unfold findC
  simp only [hx]
  have : w.points.find? (fun p => decide (p.id.ns = x.ns ∧ p.id.v = x.v)) = w.points.find? (fun p => decide (p.id = x)) := by
    apply find?_congr'
    intro p hp
    have hpt := ht.points p hp
    have hiff : (p.id.ns = x.ns ∧ p.id.v = x.v) ↔ p.id = x := by
      constructor
      · intro h
        cases hpi : p.id with
        | mk pt pns pv =>
          cases hxi : x with
          | mk xt xns xv =>
            rw [hpi] at hpt h; rw [hxi] at hx h
            simp only at hpt hx h
            rw [hpt, hx, h.1, h.2]
      · intro h; rw [h]; exact ⟨rfl, rfl⟩
    simp [hiff]
  rw [this]
  cases w.points.find? (fun p => decide (p.id = x)) <;> rfl

theorem insertSorted_perm (x : Id) (l : List Id) : (insertSorted x l).Perm (x :: l) := by
  induction l with
  | nil => exact List.Perm.refl _
  | cons y r ih =>
    unfold insertSorted
    split
    · exact List.Perm.refl _
    · exact (List.Perm.cons y ih).trans (List.Perm.swap x y r)

theorem sortIds_perm (l : List Id) : (sortIds l).Perm l := by
  induction l with
  | nil => exact List.Perm.refl _
  | cons a t ih =>
    unfold sortIds at *
    simp only [List.foldr_cons]
    exact (insertSorted_perm a _).trans (List.Perm.cons a ih)

theorem flatMap_perm_congr {α β} (l : List α) (f g : α → List β) (h : ∀ a ∈ l, (f a).Perm (g a)) :
    (l.flatMap f).Perm (l.flatMap g) := by
  induction l with
  | nil => exact List.Perm.refl _
  | cons a t ih =>
    simp only [List.flatMap_cons]
    exact List.Perm.append (h a (by simp)) (ih (fun b hb => h b (by simp [hb])))

theorem flatMap_insert_one (a : Id) (g : Nat → List Id) (b0 : Nat) : ∀ n : Nat,
    ((List.range n).flatMap fun b => if b0 = b then a :: g b else g b).Perm
      ((if b0 < n then [a] else []) ++ (List.range n).flatMap g) := by
  intro n
  induction n with
  | zero => simp
  | succ n ih =>
    simp only [List.range_succ, List.flatMap_append, List.flatMap_cons, List.flatMap_nil, List.append_nil]
    by_cases h1 : b0 = n
    · subst h1
      have hlt : ¬ b0 < b0 := Nat.lt_irrefl _
      simp only [hlt, ite_false, List.nil_append, ite_true, Nat.lt_succ_self] at ih ⊢
      exact (List.Perm.append_right _ ih).trans List.perm_middle
    · by_cases h2 : b0 < n
      · have h3 : b0 < n + 1 := by omega
        simp only [h2, ite_true, h1, ite_false, h3] at ih ⊢
        have := List.Perm.append_right (g n) ih
        simpa [List.append_assoc] using this
      · have h3 : ¬ b0 < n + 1 := by omega
        simp only [h2, ite_false, h1, h3, List.nil_append] at ih ⊢
        exact List.Perm.append_right _ ih

theorem bucket_perm (nb : Nat) (hnb : 0 < nb) (l : List Id) :
    ((List.range nb).flatMap fun b => l.filter fun x => x.v % nb = b).Perm l := by
  induction l with
  | nil => simp
  | cons a t ih =>
    have hf : (fun b => (a :: t).filter fun x => decide (x.v % nb = b)) =
        (fun b => if a.v % nb = b then a :: (t.filter fun x => decide (x.v % nb = b)) else (t.filter fun x => decide (x.v % nb = b))) := by
      funext b
      by_cases h : a.v % nb = b <;> simp [h]
    rw [hf]
    have := flatMap_insert_one a (fun b => t.filter fun x => decide (x.v % nb = b)) (a.v % nb) nb
    have hlt : a.v % nb < nb := Nat.mod_lt _ hnb
    simp only [hlt, ite_true] at this
    exact this.trans (List.Perm.cons a ih)

theorem blockOrder_perm (nb : Nat) (hnb : 0 < nb) (l : List Id) : (blockOrder nb l).Perm l := by
  unfold blockOrder
  exact (flatMap_perm_congr _ _ _ (fun b _ => sortIds_perm _)).trans (bucket_perm nb hnb l)

/-- **`EachFeature`**: the compact world's enumeration (blocks by type, buckets in order, ids sorted within a
bucket) visits exactly the features of the in-memory id map, each once — for any number of buckets. -/
theorem ids_equiv (w : World) (nb : Nat) (hnb : 0 < nb) : (idsC w nb).Perm (idsB w) := by
  unfold idsC idsB allFeatures
  simp only [List.map_append, List.map_map]
  have e1 : (Rec.id ∘ Rec.point) = fun (p : Point) => p.id := rfl
  have e2 : (Rec.id ∘ Rec.path) = fun (p : Path) => p.id := rfl
  have e3 : (Rec.id ∘ Rec.area) = fun (p : Area) => p.id := rfl
  have e4 : (Rec.id ∘ Rec.relation) = fun (p : Relation) => p.id := rfl
  rw [e1, e2, e3, e4]
  exact List.Perm.append (List.Perm.append (List.Perm.append (blockOrder_perm nb hnb _) (blockOrder_perm nb hnb _))
    (blockOrder_perm nb hnb _)) (blockOrder_perm nb hnb _)

theorem build_typed (src : Source) (h : SourceOK src) (hp : ∀ p ∈ srcPoints src, p.id.t = .point) : Typed (build src) := by
  have hw := build_wellTyped src h
  exact ⟨fun p hp' => hp p (by simpa [build] using hp'), fun q hq => (hw.paths q hq).1,
    fun a ha => (hw.areas a ha).1, hw.relations⟩

/-! ## tag search -/

section search
open B6.Spec.Cursor B6.Spec.SearchQuery B6.Spec.TagQuery B6.Model.FeatureSearch B6.Lemmas.Search B6.Lemmas.TagQuery

/-- the expected search result does not depend on the order the features are indexed in -/
theorem expected_perm (fs fs' : List B6.Spec.TagQuery.Feature) (hp : fs.Perm fs') (q : B6.Spec.TagQuery.Query) : expected fs q = expected fs' q := by
  unfold expected
  apply StrictSorted.ext (sortDedup_sorted _) (sortDedup_sorted _)
  intro x
  rw [mem_sortDedup, mem_sortDedup]
  exact ((hp.filter _).map _).mem_iff

/-- **tag search, in ID order**: the in-memory world (array or tree index, features added in map order) and the
compact world (C08 posting lists read by the byte-level `compact.Iterator` model, features added in block order,
namespace table `names`) return the same ids in the same order for every query over searchable tags — both
return `expected` (C03 `find_features_spec` on one side, `find_features_spec_compact` on the other). -/
theorem search_equiv (kind : LeafKind) (hkind : kind ≠ .compact) (names : List String)
    (ht : B6.Model.Posting.TableOK ⟨names⟩) (hne : names ≠ [])
    (fs fs' : List B6.Spec.TagQuery.Feature) (hp : fs.Perm fs') (hfs : ∀ f ∈ fs, FeatureOK f)
    (hid : (fs.map B6.Spec.TagQuery.Feature.id).Nodup) (hcf : ∀ f ∈ fs, B6.Props.C03.CompactFeatureOK names f)
    (q : B6.Spec.TagQuery.Query) (hq : QueryOK q) :
    findFeatures (buildIndex kind fs) q = findFeatures (buildIndex .compact fs' names) q := by
  have hfs' : ∀ f ∈ fs', FeatureOK f := fun f hf => hfs f (hp.mem_iff.mpr hf)
  have hcf' : ∀ f ∈ fs', B6.Props.C03.CompactFeatureOK names f := fun f hf => hcf f (hp.mem_iff.mpr hf)
  have hid' : (fs'.map B6.Spec.TagQuery.Feature.id).Nodup := (hp.map _).nodup_iff.mp hid
  rw [B6.Props.C03.find_features_spec kind hkind fs hfs hid q hq,
    B6.Props.C03.find_features_spec_compact names ht hne fs' hfs' hid' hcf' q hq, expected_perm fs fs' hp q]

/-- non-vacuity: C03's example features, table and query satisfy the hypotheses (shown there); the two worlds'
searches over them, indexed in opposite orders, agree -/
example : (findFeatures (buildIndex .array B6.Props.C03.exFeatures) B6.Props.C03.exQuery).toOption =
    (findFeatures (buildIndex .compact B6.Props.C03.exFeatures.reverse ["", "a", "b"]) B6.Props.C03.exQuery).toOption := by
  decide

end search

/-! ## non-vacuity, and the witness of the known disagreement -/

def n (v : Nat) : Id := ⟨.point, 0, v⟩
def wy (v : Nat) : Id := ⟨.path, 2, v⟩
def pt (v : Nat) : Feature := .point { id := n v, loc := toString v, tags := [("point", toString v)] }

/-- points 1..4, a closed clockwise way 10 = [1,2,3,1] (stored inverted) with its area, an open way 11 = [4,1],
a route relation 50 over way 11 and a relation 51 over relation 50 -/
def demo : Source :=
  [pt 1, pt 2, pt 3, pt 4,
   .path { id := wy 10, refs := [n 1, n 2, n 3, n 1], loopOk := true, cw := true, tags := [] },
   .area { id := ⟨.area, 2, 10⟩, polys := [[wy 10]], tags := [] },
   .path { id := wy 11, refs := [n 4, n 1], loopOk := false, cw := false, tags := [] },
   .relation { id := ⟨.relation, 1, 50⟩, members := [(wy 11, "")], tags := [] },
   .relation { id := ⟨.relation, 1, 51⟩, members := [(⟨.relation, 1, 50⟩, "")], tags := [] }]

example : SourceOK demo := by
  constructor <;> decide

example : refsB (build demo) (n 1) [.path] = [wy 10, wy 11] ∧ refsC (build demo) (n 1) [.path] = [wy 10, wy 11] := by decide

example : areasB (build demo) (n 2) = [⟨.area, 2, 10⟩] ∧ areasC (build demo) (n 2) = [⟨.area, 2, 10⟩] := by decide

example : traverseB (build demo) (n 1) = [⟨wy 10, 3, 0⟩, ⟨wy 11, 1, 0⟩] ∧ traverseC (build demo) (n 1) = [⟨wy 10, 3, 0⟩, ⟨wy 11, 1, 0⟩] := by decide

example : findB (build demo) (wy 10) = findC (build demo) (wy 10) ∧ (findC (build demo) (wy 10)).isSome = true ∧
    locB (build demo) (n 2) = some "2" ∧ locC (build demo) (n 2) = some "2" ∧
    idsC (build demo) 4 ≠ idsB (build demo) := by decide

example : refsB (build demo) (n 4) [] = refsC (build demo) (n 4) [] ∧
    refsC (build demo) (n 4) [] = [wy 11, ⟨.relation, 1, 50⟩, ⟨.relation, 1, 51⟩] ∧
    relsC (build demo) (n 1) = [⟨.relation, 1, 50⟩, ⟨.relation, 1, 51⟩] ∧ hasRecord (build demo) (n 9) = true := by decide

/-- a relation over a way that does not exist -/
def demoAbsent : Source := demo ++ [.relation { id := ⟨.relation, 1, 52⟩, members := [(wy 14, "")], tags := [] }]

/-- **the hypothesis `hasRecord` is needed**: way 14 does not exist but relation 52 lists it. The in-memory world's
references index is keyed by id whether or not the feature exists and returns relation 52; the compact world
keeps the back-references on the member's own record, and there is none (finding
`compact-referrers-of-absent-id`). -/
theorem references_absent_counterexample :
    hasRecord (build demoAbsent) (wy 14) = false ∧
    relsB (build demoAbsent) (wy 14) = [⟨.relation, 1, 52⟩] ∧ relsC (build demoAbsent) (wy 14) = [] := by decide

end B6.Props.C02
