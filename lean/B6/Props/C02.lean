/-! C02 — property theorems (stub: nothing proved yet). -/
