/-! C25 — property theorems (stub: nothing proved yet). -/
