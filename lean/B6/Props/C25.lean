import B6.Lemmas.ProtoMapParallel
import B6.Lemmas.MapSeq
/-!
# C25 — map-parallel returns map's results for any core count and schedule

Model: `B6/Model/Proto/MapParallel.lean` (dispatcher, `n` workers, closer, consumer; one-slot channels), for ANY
number of cores `n ≥ 1`, any number of items `N`, any set of failing items and any schedule.  Items are their
indices; `map` yields `f xs[0], f xs[1], …` up to the first failing item and then that item's error.

* `mp_invariant`   — in every reachable state the consumer has taken exactly items `0 … read-1`, item `k` only
                     ever sits in lane `k % n`, lanes are in order, and the value waiting in `out[j]` is the next
                     one the consumer expects from lane `j`;
* `mp_result`      — in every terminal state the output is `0 … read-1`, none of them failing; without an error
                     `read = N` (everything `map` yields) and the source did not fail; with an error it is the error
                     of a failing item or — when the SOURCE iterator fails after `N` items, in either style,
                     `(false, err)` or `(true, err)` — the source's error, and `read ≤` that position (so the
                     output is a prefix of `map`'s, which stops at the first failure);
* `mp_err_before_close` — a consumer can only find an `out[i]` closed after `m.err` has been assigned, and what it
                     then reads is the group's error (the ORDER `m.err = g.Wait()` … `close(out[i])` is an obligation;
                     `mp_swapped_counterexample`: with the two statements exchanged a run ends with (false, nil)
                     although `f` failed);
* `mp_no_deadlock` — every reachable non-terminal state has an enabled step;
* `mp_terminates`  — a measure strictly decreases on every step, so every schedule is finite
                     (`mp_schedule_bounded`).
-/
namespace B6.Props.C25
open B6.Model.Proto B6.Model.Proto.MapParallel

theorem mp_invariant (c : Cfg) (hn : 0 < c.n) (s : St) (h : Reachable (step c) (init c) s) :
    s.out = List.range s.read ∧ s.read ≤ s.write ∧ s.write ≤ c.N ∧
    ∀ (j : Nat) (l : Lane), s.lanes[j]? = some l →
      (∀ k ∈ l.pipe, k % c.n = j ∧ s.read ≤ k ∧ k < s.write) ∧ l.pipe.Pairwise (· < ·) ∧
      (∀ k, l.outq = some k → k < s.read + c.n) := by
  have I := inv_reachable hn h
  exact ⟨I.out, I.rle, I.wle, fun j l hl => ⟨(I.lanes j l hl).A, (I.lanes j l hl).B, (I.lanes j l hl).E⟩⟩

theorem mp_result (c : Cfg) (hn : 0 < c.n) (s : St) (h : Reachable (step c) (init c) s)
    (r : Option Nat) (hr : s.fin = some r) :
    s.out = List.range s.read ∧ (∀ k, k < s.read → c.fails k = false) ∧ s.read ≤ c.N ∧
    (r = none → s.read = c.N ∧ c.srcFails = false) ∧
    (∀ e, r = some e → ((c.fails e = true ∧ e < c.N) ∨ (c.srcFails = true ∧ e = c.N)) ∧ s.read ≤ e) := by
  have I := inv_reachable hn h
  obtain ⟨hrg, hoc, hq⟩ := I.finI r hr
  obtain ⟨hde, hall, _⟩ := I.closer (I.closed hoc)
  refine ⟨I.out, I.okout, Nat.le_trans I.rle I.wle, ?_, ?_⟩
  · -- no error: everything was dispatched, nothing lost, every lane is empty — so everything was consumed
    intro hrn
    have hg : s.gerr = none := by rw [← hrg, hrn]
    have hw : s.write = c.N := I.dispF (by rw [hde]; simp) hg
    refine ⟨?_, by
      cases hsf : c.srcFails with
      | false => rfl
      | true => exact absurd hg (I.srcI hde hsf)⟩
    rcases Nat.lt_or_ge s.read s.write with hlt | hge
    · exfalso
      have hlen : s.read % c.n < s.lanes.length := by rw [I.len]; exact Nat.mod_lt _ hn
      have hl : s.lanes[s.read % c.n]? = some s.lanes[s.read % c.n] := List.getElem?_eq_getElem hlen
      have L := I.lanes _ _ hl
      have hin := L.C (Or.inr hg) s.read (Nat.le_refl _) hlt rfl
      have hwk := hall _ (List.getElem_mem hlen)
      have hinq := (L.D hwk hg).1
      have hoq := hq _ hl
      simp [Lane.pipe, Wk.item, hwk, hinq, hoq] at hin
    · have := I.rle; omega
  · intro e he
    have hg : s.gerr = some e := by rw [← hrg, he]
    refine ⟨I.gerrI e hg, ?_⟩
    rcases I.gerrI e hg with ⟨h1, _⟩ | ⟨_, h2⟩
    · rcases Nat.lt_or_ge e s.read with hlt | hge
      · have := I.okout e hlt; rw [h1] at this; cases this
      · exact hge
    · have := I.rle; have := I.wle; omega

/-- The consumer can observe a closed `out[i]` only after `m.err` has been recorded: whenever the `out` channels
are closed, `m.err = g.Wait()` has been executed, every goroutine of the group has returned, and `m.err` holds the
group's error — so the value `Next()` returns with `false` is that error (`mp_result`). -/
theorem mp_err_before_close (c : Cfg) (hn : 0 < c.n) (s : St) (h : Reachable (step c) (init c) s)
    (hc : s.outClosed = true) : s.stored = true ∧ s.merr = s.gerr ∧ s.disp = D.exited ∧ allExited s := by
  have I := inv_reachable hn h
  obtain ⟨h1, h2, h3⟩ := I.closer (I.closed hc)
  exact ⟨I.closed hc, h3, h1, h2⟩

/-- … and a consumer that has finished has returned exactly that error. -/
theorem mp_fin_is_group_error (c : Cfg) (hn : 0 < c.n) (s : St) (h : Reachable (step c) (init c) s)
    (r : Option Nat) (hr : s.fin = some r) : r = s.gerr :=
  ((inv_reachable hn h).finI r hr).1

/-- The protocol with the two statements exchanged (`err := g.Wait(); close every out[i]; m.err = err`,
`MapParallel.stepSwapped`): 2 cores, 1 item, `f` fails on it — the consumer, woken by the close of `out[0]`, reads
`m.err` before it is assigned and reports success: `Next()` = (false, nil) although the group's error is set. -/
theorem mp_swapped_counterexample :
    ∃ s, Reachable (stepSwapped ⟨2, 1, fun _ => true, false⟩) (init ⟨2, 1, fun _ => true, false⟩) s ∧
      s.gerr = some 0 ∧ s.fin = some none ∧ s.out = [] :=
  ⟨_, Reachable.of_runSched [0, 0, 0, 0, 0, 0, 0, 0, 1] _ _ .refl rfl, by decide⟩

theorem mp_no_deadlock (c : Cfg) (hn : 0 < c.n) (s : St) (h : Reachable (step c) (init c) s)
    (ht : terminal s = false) : step c s ≠ [] := by
  have I := inv_reachable hn h
  have hfin : s.fin = none := by
    simp only [terminal] at ht; cases e : s.fin <;> simp_all
  suffices ∃ s', s' ∈ step c s by
    obtain ⟨s', hs'⟩ := this; intro e; rw [e] at hs'; cases hs'
  have dstep : ∀ s', s' ∈ dispStep c s → s' ∈ step c s := fun s' hs' => mem_step.mpr ⟨hfin, Or.inl hs'⟩
  have cstep : ∀ s', s' ∈ consumerStep c s → s' ∈ step c s := fun s' hs' =>
    mem_step.mpr ⟨hfin, Or.inr (Or.inr (Or.inr (Or.inl hs')))⟩
  have wstep : ∀ (j : Nat) (l : Lane) (s' : St), s.lanes[j]? = some l → s' ∈ workerStep c s j l → s' ∈ step c s :=
    fun j l s' hl hs' => mem_step.mpr ⟨hfin, Or.inr (Or.inr (Or.inr (Or.inr ⟨j, l, hl, hs'⟩)))⟩
  -- the dispatcher can move unless it is in its select with nothing cancelled, or gone
  by_cases hdc : s.disp = D.closing
  · exact ⟨_, dstep _ (by simp [dispStep, hdc]; rfl)⟩
  by_cases hdr : s.disp = D.running ∧ ¬ s.write < c.N
  · exact ⟨_, dstep _ (by simp [dispStep, hdr.1, hdr.2]; rfl)⟩
  by_cases hdd : s.disp = D.running ∧ s.gerr.isSome = true
  · by_cases hw : s.write < c.N
    · exact ⟨_, dstep _ (by simp [dispStep, hdd.1, hw, hdd.2]; right; rfl)⟩
    · exact (hdr ⟨hdd.1, hw⟩).elim
  -- a worker that is not blocked can move
  have busyStep : ∀ (j : Nat) (l : Lane), s.lanes[j]? = some l →
      (∃ k, l.wk = Wk.busy k) ∨ (∃ k, l.wk = Wk.failing k) ∨ (∃ k, l.wk = Wk.holding k ∧ (l.outq = none ∨ s.gerr.isSome = true))
      ∨ (l.wk = Wk.idle ∧ (l.inq ≠ none ∨ s.inClosed = true)) → ∃ s', s' ∈ step c s := by
    intro j l hl hc
    rcases hc with ⟨k, hk⟩ | ⟨k, hk⟩ | ⟨k, hk, ho | hg⟩ | ⟨hk, hi | hic⟩
    · exact ⟨_, wstep j l _ hl (by simp [workerStep, hk]; rfl)⟩
    · exact ⟨_, wstep j l _ hl (by simp [workerStep, hk]; rfl)⟩
    · exact ⟨_, wstep j l _ hl (by simp [workerStep, hk, ho]; left; rfl)⟩
    · exact ⟨_, wstep j l _ hl (by simp [workerStep, hk, hg]; right; rfl)⟩
    · cases hq : l.inq with
      | none => exact (hi hq).elim
      | some k => exact ⟨_, wstep j l _ hl (by simp [workerStep, hk, hq]; rfl)⟩
    · cases hq : l.inq with
      | none => exact ⟨_, wstep j l _ hl (by simp [workerStep, hk, hq, hic]; rfl)⟩
      | some k => exact ⟨_, wstep j l _ hl (by simp [workerStep, hk, hq]; rfl)⟩
  -- the consumer's lane
  have hlen : s.read % c.n < s.lanes.length := by rw [I.len]; exact Nat.mod_lt _ hn
  have hl : s.lanes[s.read % c.n]? = some s.lanes[s.read % c.n] := List.getElem?_eq_getElem hlen
  generalize s.lanes[s.read % c.n] = lr at hl
  have L := I.lanes _ _ hl
  cases hoq : lr.outq with
  | some k => exact ⟨_, cstep _ (by simp [consumerStep, hl, hoq]; rfl)⟩
  | none =>
  by_cases hoc : s.outClosed = true
  · exact ⟨_, cstep _ (by simp [consumerStep, hl, hoq, hoc]; rfl)⟩
  have hoc : s.outClosed = false := by simpa using hoc
  -- when everybody has left, the closer can move
  have closerStep : s.disp = D.exited → allExited s → ∃ s', s' ∈ step c s := fun hd ha => by
    cases hst : s.stored with
    | false => exact ⟨_, mem_step.mpr ⟨hfin, Or.inr (Or.inl ⟨hd, ha, hst, rfl⟩)⟩⟩
    | true => exact ⟨_, mem_step.mpr ⟨hfin, Or.inr (Or.inr (Or.inl ⟨hst, hoc, rfl⟩))⟩⟩
  cases hg : s.gerr with
  | some e =>
    -- cancelled: the dispatcher has gone; every worker that has not left can move
    have hde : s.disp = D.exited := by
      cases hd : s.disp with
      | running => exact (hdd ⟨hd, by simp [hg]⟩).elim
      | closing => exact (hdc hd).elim
      | exited => rfl
    have hic : s.inClosed = true := I.dispc.mpr hde
    by_cases hall : allExited s
    · exact closerStep hde hall
    · obtain ⟨l, hl'⟩ := Classical.not_forall.mp hall
      obtain ⟨hm, hne⟩ := Classical.not_imp.mp hl'
      obtain ⟨j, hj⟩ := List.mem_iff_getElem?.mp hm
      apply busyStep j l hj
      cases hw : l.wk with
      | idle => exact Or.inr (Or.inr (Or.inr ⟨rfl, Or.inr hic⟩))
      | busy k => exact Or.inl ⟨k, rfl⟩
      | holding k => exact Or.inr (Or.inr (Or.inl ⟨k, rfl, Or.inr (by simp [hg])⟩))
      | failing k => exact Or.inr (Or.inl ⟨k, rfl⟩)
      | exited => exact (hne hw).elim
  | none =>
    -- nothing has failed: the item the consumer waits for is in its lane, or everything has been consumed
    have empty_of : lr.pipe = [] → s.read = s.write := by
      intro hp
      rcases Nat.lt_or_ge s.read s.write with hlt | hge
      · have := L.C (Or.inr hg) s.read (Nat.le_refl _) hlt rfl; rw [hp] at this; cases this
      · have := I.rle; omega
    cases hw : lr.wk with
    | busy k => exact busyStep _ lr hl (Or.inl ⟨k, hw⟩)
    | failing k => exact busyStep _ lr hl (Or.inr (Or.inl ⟨k, hw⟩))
    | holding k => exact busyStep _ lr hl (Or.inr (Or.inr (Or.inl ⟨k, hw, Or.inl hoq⟩)))
    | idle =>
      cases hiq : lr.inq with
      | some k => exact busyStep _ lr hl (Or.inr (Or.inr (Or.inr ⟨hw, Or.inl (by simp [hiq])⟩)))
      | none =>
        have hrw := empty_of (by simp [Lane.pipe, Wk.item, hw, hiq, hoq])
        cases hd : s.disp with
        | closing => exact (hdc hd).elim
        | exited => exact busyStep _ lr hl (Or.inr (Or.inr (Or.inr ⟨hw, Or.inr (I.dispc.mpr hd)⟩)))
        | running =>
          by_cases hwn : s.write < c.N
          · -- the dispatcher can send the next item into this very lane
            have hl2 : s.lanes[s.write % c.n]? = some lr := by rw [← hrw]; exact hl
            exact ⟨_, dstep _ (by simp [dispStep, hd, hwn, hl2, hiq]; left; rfl)⟩
          · exact (hdr ⟨hd, hwn⟩).elim
    | exited =>
      obtain ⟨hiq, hic⟩ := L.D hw hg
      have hde : s.disp = D.exited := I.dispc.mp hic
      have hrw := empty_of (by simp [Lane.pipe, Wk.item, hw, hiq, hoq])
      by_cases hall : allExited s
      · exact closerStep hde hall
      · obtain ⟨l, hl'⟩ := Classical.not_forall.mp hall
        obtain ⟨hm, hne⟩ := Classical.not_imp.mp hl'
        obtain ⟨j, hj⟩ := List.mem_iff_getElem?.mp hm
        have Lj := I.lanes j l hj
        -- nothing is in flight, so this worker is idle in front of a closed channel
        have hpe : l.pipe = [] := by
          cases hp : l.pipe with
          | nil => rfl
          | cons a t =>
            have := Lj.A a (by rw [hp]; simp); omega
        apply busyStep j l hj
        cases hw' : l.wk with
        | idle => exact Or.inr (Or.inr (Or.inr ⟨rfl, Or.inr hic⟩))
        | busy k => simp [Lane.pipe, Wk.item, hw'] at hpe
        | holding k => simp [Lane.pipe, Wk.item, hw'] at hpe
        | failing k => simp [Lane.pipe, Wk.item, hw'] at hpe
        | exited => exact (hne hw').elim

/-- Every step strictly decreases `measure` (5 per item not yet dispatched, 4/3/2/1 per item in `in` / being
computed / computed / in `out`, 1 per goroutine that has not returned) — from ANY state, reachable or not. -/
theorem mp_terminates (c : Cfg) (s s' : St) (h : s' ∈ step c s) : measure c s' < measure c s :=
  measure_step h

/-- … so every schedule is finite: no run is longer than the measure of the initial state. -/
theorem mp_schedule_bounded (c : Cfg) : ∀ (sched : List Nat) (s s' : St),
    runSched (step c) s sched = some s' → sched.length + measure c s' ≤ measure c s := by
  intro sched
  induction sched with
  | nil => intro s s' h; simp [runSched] at h; subst h; simp
  | cons a as ih =>
    intro s s' h
    simp only [runSched] at h
    split at h
    · next s1 hs1 =>
      have h1 := measure_step (List.mem_of_getElem? hs1)
      have h2 := ih s1 s' h
      simp only [List.length_cons]; omega
    · cases h

/-! ## The same in terms of the values: `map-parallel f xs` against `map f xs` -/
section Spec
open B6.Spec.MapSeq
variable {α β ε : Type}

/-- the protocol instance for a concrete collection and function -/
def cfgOf (n : Nat) (f : α → Except ε β) (xs : List α) : Cfg := { n := n, N := xs.length, fails := bad f xs }

/-- the values the consumer has been handed -/
def outVals (f : α → Except ε β) (xs : List α) (s : St) : List β := s.out.filterMap (val f xs)

/-- **C25.** When `map-parallel` over `xs` with `n ≥ 1` cores ends (under any schedule):
without an error the consumer has received exactly what `map` yields, in the same order, and `map` yields no
error either; with an error it has received a prefix of what `map` yields, the error is the one `f` returns on
some item of the collection, and `map` fails too. -/
theorem mp_result_spec (n : Nat) (hn : 0 < n) (f : α → Except ε β) (xs : List α) (s : St)
    (h : Reachable (step (cfgOf n f xs)) (init (cfgOf n f xs)) s) (r : Option Nat) (hr : s.fin = some r) :
    (r = none → outVals f xs s = (mapSeq f xs).1 ∧ (mapSeq f xs).2 = none) ∧
    (∀ e, r = some e → outVals f xs s <+: (mapSeq f xs).1 ∧ (mapSeq f xs).2.isSome = true ∧
      ∃ x err, xs[e]? = some x ∧ f x = .error err) := by
  obtain ⟨hout, hok, hle, hnone, hsome⟩ := mp_result (cfgOf n f xs) hn s h r hr
  have htake := take_eq f xs s.read hle hok
  have hvals : outVals f xs s = (mapSeq f xs).1.take s.read := by rw [outVals, hout]; exact htake.1
  constructor
  · intro hrn
    have hN : s.read = xs.length := (hnone hrn).1
    have hlen := length_le f xs
    refine ⟨?_, ?_⟩
    · rw [hvals, List.take_of_length_le (by omega)]
    · exact no_error f xs (by intro k hk; exact hok k (by omega))
  · intro e he
    obtain ⟨hcase, _⟩ := hsome e he
    have hbad : (cfgOf n f xs).fails e = true := by
      rcases hcase with ⟨h1, _⟩ | ⟨h1, _⟩
      · exact h1
      · cases h1
    refine ⟨by rw [hvals]; exact List.take_prefix _ _, has_error f xs e hbad, ?_⟩
    simp only [cfgOf, bad] at hbad
    split at hbad
    · next x hx =>
      split at hbad
      · next err hfx => exact ⟨x, err, hx, hfx⟩
      · cases hbad
    · cases hbad

end Spec

/-! ## non-vacuity -/

/-- 2 cores, 3 items, item 1 fails: a run that ends with the error after the consumer got item 0 -/
def exCfg : Cfg := { n := 2, N := 3, fails := fun k => k == 1 }
example : ∃ s, Reachable (step exCfg) (init exCfg) s ∧ s.fin = some (some 1) ∧ s.out = [0] :=
  ⟨_, Reachable.of_runSched (List.replicate 19 0) _ _ .refl rfl, by decide⟩
/-- … and 3 cores, 4 items, nothing fails: everything arrives in order -/
def exCfg2 : Cfg := { n := 3, N := 4, fails := fun _ => false }
example : ∃ s, Reachable (step exCfg2) (init exCfg2) s ∧ s.fin = some none ∧ s.out = [0, 1, 2, 3] :=
  ⟨_, Reachable.of_runSched (List.replicate 28 0) _ _ .refl rfl, by decide⟩
/-- … and a source that yields 2 items and then fails (2 cores, `f` never fails): both values arrive, then the
source's error (written as the index `N = 2`) -/
def exCfgSrc : Cfg := { n := 2, N := 2, fails := fun _ => false, srcFails := true }
example : ∃ s, Reachable (step exCfgSrc) (init exCfgSrc) s ∧ s.fin = some (some 2) ∧ s.out = [0, 1] :=
  ⟨_, Reachable.of_runSched (List.replicate 17 0) _ _ .refl rfl, by decide⟩
example : terminal (init exCfg) = false ∧ 0 < exCfg.n := by decide

end B6.Props.C25
