import B6.Lemmas.Dijkstra
import B6.Lemmas.DijkstraHeap
/-!
# C30 — shortest-path search finds true shortest distances and routes

Model: `B6/Model/Dijkstra.lean` (`ShortestPathSearch`: `AddOrUpdate`, `ExpandSearch`, `ExpandSearchTo`,
`BuildRoute`, `container/heap`).  Specification: `B6/Spec/ShortestPath.lean` (walks of usable segments with
left-folded cost; `RouteTo`).  Invariant and lemmas: `B6/Lemmas/Dijkstra.lean`.

All theorems are for every graph (`Traverse` result) `g`, every weight structure with the `LawfulCost` laws,
every limit `max`, every list of origins, and **every** run of the search in which each pop returns *some*
queued minimum (`Reach`) — no bound on size or number of steps.  Hypotheses: `NonNeg g` (usable segments have
non-negative weight) and, for routes, `FirstOk g` (`Traverse(p)` yields segments that start at `p`).

* `settled_is_walk_cost`   every recorded distance is the cost of a walk from an origin
* `route_sound`            `BuildRoute` returns such a walk: a chain of usable segments from an origin to the
                           point, every step carrying the accumulated cost, the last one the recorded distance
* `build_route_terminates` `BuildRoute` ends within (#settled points + 1) iterations (no back-pointer cycle)
* `settled_nondecreasing`  points are settled in non-decreasing order of distance
* `settled_final`          a settled entry is ≤ the cost of every walk, in every state of the search
* `dijkstra_optimal`       when the queue is empty: every recorded distance is a walk cost and ≤ every walk
                           cost (= the true shortest distance), and every point with a walk cheaper than `max`
                           is recorded
* `search_to_correct`, `search_to_route`, `early_stop_second_condition_dead`   `ExpandSearchTo`'s early stop
* `heap_pop_min`, `heap_push_preserves`, `heap_fix_preserves`, `runHU_eq_runH_of_heap`   the queue is a binary
                           heap of the unvisited entries; `Pop` returns a queued minimum; the run-time check is redundant
* `searchU_reach`, `searchU_optimal`, `searchToU_eq_searchTo`, `searchToU_correct`   unconditional: the unchecked
                           loops (`ExpandSearch`, `ExpandSearchTo` incl. early stop) from any origin list
* `accessibility_keeps_node_distances`, `accessibility_interpolates_only_unreached`   `ComputeAccessibility`
* `searchU_total_correct`, `searchToU_terminates`   termination with fuel |V| on a finite closed vertex set
* `search_to_known_destination_correct`   `ExpandSearchTo` towards a point the search already knows (the origin)
* `runH_reach`, `search_reach`, `searchTo_reach`   the executable heap-driven model (`runH`, the one the driver
                           runs) only produces runs of the abstract search
-/
set_option linter.unusedSectionVars false
set_option linter.unusedVariables false
namespace B6.Props.C30
open B6.Model.Dijkstra B6.Spec.ShortestPath B6.Lemmas.Dijkstra B6.Lemmas.DijkstraHeap

variable {P S α : Type} [DecidableEq P] [Cost α] [LawfulCost α]
variable {g : Graph P S α} {origins : List P} {max : α}

/-- Route soundness, part 1: every recorded distance is the cost of an actual walk from an origin. -/
theorem settled_is_walk_cost (hN : NonNeg g) {tr : List (P × α)} {t : Table P S α}
    (h : Reach g max (initTable origins) tr t) {p : P} {e : Entry P S α} (hp : tget t p = some e) :
    ∃ es, Walk g origins p e.dist es := by
  rcases (h.inv hN (Inv.init g origins max)).core.walk p e hp with hw | ⟨hj, _⟩
  · exact hw
  · exact absurd hj id

/-- Route soundness, part 2: what `BuildRoute(p)` returns for a recorded point is a chain of usable segments
from an origin to `p`, each step ending at its `Destination` with the accumulated `Cost`; the cost of the whole
route is the recorded distance. (`buildRoute … = some …`: the Go loop ended.) -/
theorem route_sound (hN : NonNeg g) (hF : FirstOk g) {tr : List (P × α)} {t : Table P S α}
    (h : Reach g max (initTable origins) tr t) {p : P} {e : Entry P S α} (hp : tget t p = some e)
    {n : Nat} {o : P} {steps : List (Step P S α)} (hb : buildRoute t n p [] = some (o, steps)) :
    RouteTo g origins o steps p e.dist := by
  have hc := (h.inv hN (Inv.init g origins max)).core
  obtain ⟨pre, hpre, hr⟩ := buildRoute_sound hN hF hc n p [] e o steps hp (fun hj => hj.1) hb
  simp at hpre; subst hpre; exact hr

/-- `BuildRoute` terminates for every point, within (number of settled points + 1) iterations: a back-pointer
always starts at a point that was settled strictly earlier, so the chain cannot cycle. -/
theorem build_route_terminates (hF : FirstOk g) {tr : List (P × α)} {t : Table P S α}
    (h : Reach g max (initTable origins) tr t) (p : P) :
    ∃ r, buildRoute t (tr.length + 1) p [] = some r :=
  buildRoute_terminates hF h p []

/-- Points are popped (settled) in non-decreasing order of distance; `tr` is most-recent-first. -/
theorem settled_nondecreasing (hN : NonNeg g) {tr : List (P × α)} {t : Table P S α}
    (h : Reach g max (initTable origins) tr t) :
    tr.Pairwise (fun later earlier => earlier.2 ≤ later.2) :=
  h.nondecreasing hN (Inv.init g origins max)

/-- In **every** state of the search a settled entry already holds the true shortest distance:
it is the cost of a walk and no walk is cheaper. -/
theorem settled_final (hN : NonNeg g) {tr : List (P × α)} {t : Table P S α}
    (h : Reach g max (initTable origins) tr t) {p : P} {e : Entry P S α}
    (hp : tget t p = some e) (hv : e.visited = true) :
    (∃ es, Walk g origins p e.dist es) ∧ ∀ c es, Walk g origins p c es → e.dist ≤ c :=
  ⟨settled_is_walk_cost hN h hp,
   fun _ _ hw => settled_le_walk hN (h.inv hN (Inv.init g origins max)) hp hv (fun hj => hj.1) hw⟩

/-- **Optimality.** When the queue is empty (every entry popped):
(1) every recorded distance is the true shortest distance of its point — it is the cost of a walk from an
origin and at most the cost of every walk to that point;
(2) every point that has a walk of cost `< max` is recorded. -/
theorem dijkstra_optimal_of_settled (hN : NonNeg g) {tr : List (P × α)} {t : Table P S α}
    (h : Reach g max (initTable origins) tr t) (hfin : ∀ p e, tget t p = some e → e.visited = true) :
    (∀ p e, tget t p = some e →
      (∃ es, Walk g origins p e.dist es) ∧ ∀ c es, Walk g origins p c es → e.dist ≤ c) ∧
    (∀ p c es, Walk g origins p c es → c < max → ∃ e, tget t p = some e ∧ e.dist ≤ c) := by
  have hI := h.inv hN (Inv.init g origins max)
  refine ⟨fun p e hp => settled_final hN h hp (hfin p e hp), ?_⟩
  intro p c es hw hc
  rcases walk_exit hN hI hw hc with hl | ⟨y, ey, hy, hyv, _⟩
  · exact hl
  · have := hfin y ey hy
    rw [hyv] at this; cases this

theorem dijkstra_optimal (hN : NonNeg g) {tr : List (P × α)} {t : Table P S α}
    (h : Reach g max (initTable origins) tr t) (hfin : allVisited t = true) :
    (∀ p e, tget t p = some e →
      (∃ es, Walk g origins p e.dist es) ∧ ∀ c es, Walk g origins p c es → e.dist ≤ c) ∧
    (∀ p c es, Walk g origins p c es → c < max → ∃ e, tget t p = some e ∧ e.dist ≤ c) :=
  dijkstra_optimal_of_settled hN h (fun _ _ hp => allVisited_sound hfin hp)

/-! ### `ExpandSearchTo` -/

/-- `ExpandSearchTo(dest)` stops when it pops `dest`. At that moment (`IsMin t dest`, any earlier pops):
if the recorded distance is below the limit it is the true shortest distance; otherwise (`+Inf` sentinel
untouched) no walk to `dest` is cheaper than the limit. -/
theorem search_to_correct (hN : NonNeg g) {inf : α} {dest : P} (hd : dest ∉ origins) (hinf : ¬ inf < max)
    {tr : List (P × α)} {t : Table P S α}
    (h : Reach g max (tput (initTable origins) dest { visited := false, dist := inf, back := none }) tr t)
    {e : Entry P S α} (hp : tget t dest = some e) (hmin : IsMin t dest) :
    (e.dist < max → (∃ es, Walk g origins dest e.dist es) ∧ ∀ c es, Walk g origins dest c es → e.dist ≤ c) ∧
    (¬ e.dist < max → ∀ c es, Walk g origins dest c es → ¬ c < max) := by
  have hI := h.inv hN (Inv.initTo g origins max inf dest hd hinf)
  obtain ⟨e', hp', _, hm⟩ := hmin
  rw [hp] at hp'; cases hp'
  have key : ∀ c es, Walk g origins dest c es → c < max → e.dist ≤ c := by
    intro c es hw hc
    rcases walk_exit hN hI hw hc with ⟨e', he', hd'⟩ | ⟨y, ey, hy, hyv, hd'⟩
    · rw [hp] at he'; cases he'; exact hd'
    · exact le_trans' (le_of_not_lt (hm y ey hy hyv)) hd'
  constructor
  · intro hlt
    constructor
    · rcases hI.core.walk dest e hp with hw | ⟨_, _, hj⟩
      · exact hw
      · exact absurd hlt hj
    · intro c es hw
      by_cases hc : c < max
      · exact key c es hw hc
      · exact le_trans' (le_of_lt hlt) (le_of_not_lt hc)
  · intro hnlt c es hw hc
    exact hnlt (lt_of_le_of_lt (key c es hw hc) hc)

/-- … and the route `BuildPath(dest)` / `BuildRoute(dest)` then returns is a chain of usable segments from the
origin with accumulated costs (table after `dest` was marked visited). -/
theorem search_to_route (hN : NonNeg g) (hF : FirstOk g) {inf : α} {dest : P} (hd : dest ∉ origins)
    (hinf : ¬ inf < max) {tr : List (P × α)} {t t1 : Table P S α}
    (h : Reach g max (tput (initTable origins) dest { visited := false, dist := inf, back := none }) tr t)
    {e : Entry P S α} (hmin : IsMin t dest) (hmark : markVisited t dest = some (t1, e)) (hlt : e.dist < max)
    {n : Nat} {o : P} {steps : List (Step P S α)} (hb : buildRoute t1 n dest [] = some (o, steps)) :
    RouteTo g origins o steps dest e.dist := by
  have hI := h.inv hN (Inv.initTo g origins max inf dest hd hinf)
  obtain ⟨e', hp', hv, hm⟩ := hmin
  unfold markVisited at hmark
  rw [hp'] at hmark
  simp at hmark
  obtain ⟨ht1, he⟩ := hmark
  subst he; subst ht1
  have hc := (Mid.ofInv hI hp' hv hm).core
  obtain ⟨pre, hpre, hr⟩ := buildRoute_sound hN hF hc n dest [] _ o steps (get_put_self _ _ _)
    (fun hj => hj.2.2 hlt) hb
  simp at hpre; subst hpre; exact hr

/-- The second stop condition of `ExpandSearchTo` (`destination.distance < r.distance`) can never fire
while `dest` is still queued: the popped entry is a minimum. -/
theorem early_stop_second_condition_dead {t : Table P S α} {p dest : P} {r de : Entry P S α}
    (hmin : IsMin t p) (hp : tget t p = some r) (hd : tget t dest = some de) (hdv : de.visited = false) :
    ¬ de.dist < r.dist := by
  obtain ⟨r', hp', _, hm⟩ := hmin
  rw [hp] at hp'; cases hp'
  exact hm dest de hd hdv

/-! ### the executable heap-driven model only produces runs of the abstract search -/

/-- If `runH` ends (`.done`) it went through states of the abstract search; it either ran until the queue was
empty, or (`ExpandSearchTo` only) stopped right after marking a popped minimum visited. -/
theorem runH_reach (g : Graph P S α) (max : α) (to : Option P) :
    ∀ (fuel : Nat) (s s' : HState P S α), runH g max to fuel s = .done s' →
      ∃ tr t, Reach g max s.t tr t ∧
        ((s'.t = t ∧ s'.heap.size = 0) ∨
         (∃ p r, to.isSome = true ∧ IsMin t p ∧ markVisited t p = some (s'.t, r))) := by
  intro fuel
  induction fuel with
  | zero =>
    intro s s' h
    unfold runH at h
    split at h
    · rename_i hz
      cases h
      exact ⟨[], s.t, Reach.refl, Or.inl ⟨rfl, hz⟩⟩
    · cases h
  | succ n ih =>
    intro s s' h
    unfold runH at h
    split at h
    · rename_i hz
      cases h
      exact ⟨[], s.t, Reach.refl, Or.inl ⟨rfl, hz⟩⟩
    · split at h
      · cases h
      · rename_i p h1 hpop
        split at h
        · cases h
        · rename_i hminb
          have hmin : IsMin s.t p := isMinB_sound (by simpa using hminb)
          split at h
          · cases h
          · rename_i t1 r hmark
            split at h
            · rename_i hstop
              cases h
              refine ⟨[], s.t, Reach.refl, Or.inr ⟨p, r, ?_, hmin, hmark⟩⟩
              cases to with
              | none => simp [stopNow] at hstop
              | some _ => rfl
            · split at h
              · cases h
              · rename_i s'' hfold
                obtain ⟨tr, t, hr, halt⟩ := ih s'' s' h
                have ht := foldl_relaxH_table max r.dist (g.adj p) _ _ hfold
                have hp : tget s.t p = some r := by
                  unfold markVisited at hmark
                  cases hq : tget s.t p with
                  | none => simp [hq] at hmark
                  | some r' => simp [hq] at hmark; rw [hmark.2]
                have hexp : Model.Dijkstra.expand g max s.t p = some s''.t := by
                  unfold Model.Dijkstra.expand
                  rw [hmark]
                  simp [ht]
                exact ⟨tr ++ [(p, r.dist)], t, Reach.head hmin hp hexp hr, halt⟩

/-- `search` (= `NewShortestPathSearchFromPoint` + `ExpandSearch` with the real heap): a finished run is a run of
the abstract search with an empty queue, so `dijkstra_optimal` applies to its table whenever `allVisited`. -/
theorem search_reach (g : Graph P S α) (max : α) (origins : List P) (fuel : Nat) (s' : HState P S α)
    (h : search g max origins fuel = .done s') : ∃ tr, Reach g max (initTable origins) tr s'.t := by
  obtain ⟨tr, t, hr, halt⟩ := runH_reach g max none fuel _ s' h
  rcases halt with ⟨ht, _⟩ | ⟨_, _, hsome, _⟩
  · exact ⟨tr, ht ▸ hr⟩
  · simp at hsome

/-- the table `ExpandSearchTo(dest)` starts from: the `+Inf` placeholder is entered only for an unknown `dest` -/
def searchToTable (origins : List P) (dest : P) (inf : α) : Table P S α :=
  match tget (initTable origins : Table P S α) dest with
  | some _ => initTable origins
  | none => tput (initTable origins) dest { visited := false, dist := inf, back := none }

/-- `searchTo`: a finished run either exhausted the queue or stopped right after popping a minimum. -/
theorem searchTo_reach (g : Graph P S α) (max inf : α) (origins : List P) (dest : P) (fuel : Nat)
    (s' : HState P S α) (h : searchTo g max inf origins dest fuel = .done s') :
    ∃ tr t, Reach g max (searchToTable origins dest inf) tr t ∧
      ((s'.t = t ∧ s'.heap.size = 0) ∨ (∃ p r, IsMin t p ∧ markVisited t p = some (s'.t, r))) := by
  unfold searchTo searchToStart at h
  unfold searchToTable
  cases hd : tget (initTable origins : Table P S α) dest with
  | some e0 =>
    simp only [hd] at h
    obtain ⟨tr, t, hr, halt⟩ := runH_reach g max (some dest) fuel _ s' h
    refine ⟨tr, t, hr, ?_⟩
    rcases halt with hl | ⟨p, r, _, h1, h2⟩
    · exact Or.inl hl
    · exact Or.inr ⟨p, r, h1, h2⟩
  | none =>
    simp only [hd, sentinelTable] at h
    cases hp : Heap.push (tput (initTable origins) dest { visited := false, dist := inf, back := none })
        (initHeap origins) dest with
    | none => rw [hp] at h; simp at h
    | some hh =>
      rw [hp] at h; simp only [Option.map_some] at h
      obtain ⟨tr, t, hr, halt⟩ := runH_reach g max (some dest) fuel _ s' h
      refine ⟨tr, t, hr, ?_⟩
      rcases halt with hl | ⟨p, r, _, h1, h2⟩
      · exact Or.inl hl
      · exact Or.inr ⟨p, r, h1, h2⟩

/-- `ExpandSearchTo(dest)` for a destination the search already knows (after fix
C30-expandsearchto-known-destination: its entry is kept — before, it was replaced by the `+Inf` placeholder and
the origin ended up recorded at `+Inf`): when `dest` is popped its recorded distance is the true one. In
particular for `dest` = the origin the recorded distance stays the walk cost 0. -/
theorem search_to_known_destination_correct (hN : NonNeg g) {tr : List (P × α)} {t : Table P S α}
    (h : Reach g max (initTable origins) tr t) {dest : P} {e : Entry P S α}
    (hp : tget t dest = some e) (hmin : IsMin t dest) :
    (∃ es, Walk g origins dest e.dist es) ∧ ∀ c es, Walk g origins dest c es → e.dist ≤ c := by
  have hI := h.inv hN (Inv.init g origins max)
  obtain ⟨e', hp', _, hm⟩ := hmin
  rw [hp] at hp'; cases hp'
  refine ⟨settled_is_walk_cost hN h hp, ?_⟩
  intro c es hw
  by_cases hc : c < max
  · rcases walk_exit hN hI hw hc with ⟨e', he', hd'⟩ | ⟨y, ey, hy, hyv, hd'⟩
    · rw [hp] at he'; cases he'; exact hd'
    · exact le_trans' (le_of_not_lt (hm y ey hy hyv)) hd'
  · rcases hI.core.lt_or_root hp with hlt | ⟨_, hz⟩ | ⟨hj, _⟩
    · exact le_trans' (le_of_lt hlt) (le_of_not_lt hc)
    · rw [hz]; exact walk_nonneg hN hw
    · exact absurd hj id

/-! ### the queue is a binary heap: the run-time check is redundant -/

/-- `heap.Pop` on a well-formed queue (`HInv`: heap order under `Less`, exactly the unvisited entries, each once)
returns a minimum of the queued entries and leaves a well-formed rest. -/
theorem heap_pop_min {s : HState P S α} (hI : HInv s) (hne : s.heap.size ≠ 0) :
    ∃ p h1, Heap.pop s.t s.heap = some (p, h1) ∧ IsMin s.t p ∧ Inj h1 ∧ Ord s.t h1 h1.size ∧
      (∀ q, Mem h1 q ↔ (q ≠ p ∧ Mem s.heap q)) :=
  pop_spec hI hne

/-- `heap.Push` of a newly recorded point preserves the heap invariant. -/
theorem heap_push_preserves {t0 : Table P S α} {h : Array P} {v : P} {ne : Entry P S α}
    (hI : HInv { t := t0, heap := h }) (hv : tget t0 v = none) (hnv : ne.visited = false) :
    ∃ h', Heap.push (tput t0 v ne) h v = some h' ∧ HInv { t := tput t0 v ne, heap := h' } :=
  push_spec hI hv hnv

/-- `heap.Fix` after `AddOrUpdate`'s strict decrease preserves the heap invariant (the position is found through
the queue itself — the model's counterpart of `reachable.index`). -/
theorem heap_fix_preserves {t0 : Table P S α} {h : Array P} {v : P} {n ne : Entry P S α}
    (hI : HInv { t := t0, heap := h }) (hv : tget t0 v = some n) (hvu : n.visited = false)
    (hnv : ne.visited = false) (hd : ne.dist < n.dist) :
    ∃ h', Heap.fix (tput t0 v ne) h v = some h' ∧ HInv { t := tput t0 v ne, heap := h' } :=
  fix_spec hI hv hvu hnv hd

/-- The loop exactly as the code has it (`runHU`, no check of what the heap returns) equals the checked loop
whenever it starts from a well-formed queue: `isMinB` never fails. -/
theorem runHU_eq_runH_of_heap (g : Graph P S α) (max : α) (to : Option P) (fuel : Nat) (s : HState P S α)
    (hI : HInv s) : runHU g max to fuel s = runH g max to fuel s :=
  runHU_eq_runH g max to fuel s hI

/-- **Unconditional run theorem**: `NewShortestPathSearch…` (any list of origins, duplicates allowed) +
`ExpandSearch(max)` with the real binary heap and *no* run-time check (`searchU`): a finished run is a run of the
abstract search. -/
theorem searchU_reach (g : Graph P S α) (max : α) (origins : List P) (fuel : Nat) (s' : HState P S α)
    (h : searchU g max origins fuel = .done s') : ∃ tr, Reach g max (initTable origins) tr s'.t := by
  unfold searchU at h
  rw [runHU_eq_runH g max none fuel _ (HInv.initList origins)] at h
  exact search_reach g max origins fuel s' h

/-- **Unconditional optimality**: whatever `searchU` returns when it finishes is the true answer — every
recorded distance is a walk cost and at most every walk cost, and every point with a walk cheaper than `max` is
recorded. No hypothesis about the heap, the pops or `allVisited`. -/
theorem searchU_optimal (hN : NonNeg g) (fuel : Nat) (s' : HState P S α)
    (h : searchU g max origins fuel = .done s') :
    (∀ p e, tget s'.t p = some e →
      (∃ es, Walk g origins p e.dist es) ∧ ∀ c es, Walk g origins p c es → e.dist ≤ c) ∧
    (∀ p c es, Walk g origins p c es → c < max → ∃ e, tget s'.t p = some e ∧ e.dist ≤ c) := by
  obtain ⟨tr, hr⟩ := searchU_reach g max origins fuel s' h
  unfold searchU at h
  rw [runHU_eq_runH g max none fuel _ (HInv.initList origins)] at h
  exact dijkstra_optimal_of_settled hN hr (runH_done_allVisited g max fuel _ s' (HInv.initList origins) h)

/-- **Termination**: for a finite vertex set `V` that contains the origins and is closed under `Traverse`, the
search finishes with fuel `|V|` — it never runs out of fuel, never gets stuck in the heap, never pops a non-minimum —
and its result is the true answer. -/
theorem searchU_total_correct (hN : NonNeg g) (V : List P) (hV : ∀ o, o ∈ origins → o ∈ V)
    (hclosed : ∀ p, p ∈ V → ∀ e, e ∈ g.adj p → e.last ∈ V) :
    ∃ s', searchU g max origins V.length = .done s' ∧
      (∀ p e, tget s'.t p = some e →
        (∃ es, Walk g origins p e.dist es) ∧ ∀ c es, Walk g origins p c es → e.dist ≤ c) ∧
      (∀ p c es, Walk g origins p c es → c < max → ∃ e, tget s'.t p = some e ∧ e.dist ≤ c) := by
  have hkeys : ∀ p x, tget (initTable origins : Table P S α) p = some x → p ∈ V := by
    intro p x hp
    rw [initTable_get] at hp
    by_cases hpo : p ∈ origins
    · exact hV p hpo
    · simp [hpo] at hp
  obtain ⟨s', hs'⟩ := runH_finishes g max none V hclosed V.length
    { t := initTable origins, heap := initHeap origins } (HInv.initList origins) hkeys
    (List.length_filter_le _ _)
  have hU : searchU g max origins V.length = .done s' := by
    unfold searchU
    rw [runHU_eq_runH g max none _ _ (HInv.initList origins)]; exact hs'
  exact ⟨s', hU, searchU_optimal hN V.length s' hU⟩

/-- the unchecked `ExpandSearchTo` loop equals the checked one -/
theorem searchToU_eq_searchTo (g : Graph P S α) (max inf : α) (origins : List P) (dest : P) (fuel : Nat) :
    searchToU g max inf origins dest fuel = searchTo g max inf origins dest fuel := by
  obtain ⟨s, hs, hI, _, _⟩ := searchToStart_spec (S := S) origins dest inf
  unfold searchToU searchTo
  rw [hs]
  exact runHU_eq_runH g max (some dest) fuel s hI

/-- **Unconditional `ExpandSearchTo`** (real heap, no check, any origin list, `dest` known or not): when the loop
finishes, `dest` is settled; if its recorded distance is below the limit it is the true shortest distance, otherwise
no walk to `dest` is cheaper than the limit. -/
theorem searchToU_correct (hN : NonNeg g) {inf : α} (hinf : ¬ inf < max) (dest : P) (fuel : Nat)
    (s' : HState P S α) (h : searchToU g max inf origins dest fuel = .done s') :
    ∃ e, tget s'.t dest = some e ∧ e.visited = true ∧
      (e.dist < max → (∃ es, Walk g origins dest e.dist es) ∧ ∀ c es, Walk g origins dest c es → e.dist ≤ c) ∧
      (¬ e.dist < max → ∀ c es, Walk g origins dest c es → ¬ c < max) := by
  rw [searchToU_eq_searchTo] at h
  obtain ⟨s, hs, hI, hq, hst⟩ := searchToStart_spec (S := S) origins dest inf
  unfold searchTo at h
  rw [hs] at h
  obtain ⟨tr, t, r, hr, hmin, hmark⟩ := runH_to_spec g max dest fuel s s' hI hq h
  have hr0 : tget t dest = some r ∧ s'.t = tput t dest { r with visited := true } := by
    unfold markVisited at hmark
    cases hg : tget t dest with
    | none => simp [hg] at hmark
    | some r' =>
      simp [hg] at hmark
      obtain ⟨h1, h2⟩ := hmark
      subst h2
      exact ⟨rfl, h1.symm⟩
  obtain ⟨hrd, hs't⟩ := hr0
  refine ⟨{ r with visited := true }, by rw [hs't]; exact get_put_self _ _ _, rfl, ?_⟩
  cases hd : tget (initTable origins : Table P S α) dest with
  | some e0 =>
    rw [hd] at hst
    rw [hst] at hr
    have hopt := search_to_known_destination_correct (e := r) hN hr hrd hmin
    exact ⟨fun _ => hopt, fun hnlt c es hw hc => hnlt (lt_of_le_of_lt (hopt.2 c es hw) hc)⟩
  | none =>
    rw [hd] at hst
    rw [hst] at hr
    have hdo : dest ∉ origins := by
      intro hmem
      rw [initTable_get] at hd; simp [hmem] at hd
    exact search_to_correct (e := r) hN hdo hinf hr hrd hmin

/-- `ExpandSearchTo` also terminates with fuel `|V|` on a finite closed vertex set containing origins and `dest`. -/
theorem searchToU_terminates (V : List P) (hV : ∀ o, o ∈ origins → o ∈ V) {dest : P} (hdV : dest ∈ V)
    (hclosed : ∀ p, p ∈ V → ∀ e, e ∈ g.adj p → e.last ∈ V) (inf : α) :
    ∃ s', searchToU g max inf origins dest V.length = .done s' := by
  rw [searchToU_eq_searchTo]
  obtain ⟨s, hs, hI, _, hst⟩ := searchToStart_spec (S := S) origins dest inf
  unfold searchTo
  rw [hs]
  have hkeys : ∀ p x, tget s.t p = some x → p ∈ V := by
    intro p x hp
    rw [hst] at hp
    have hinit : ∀ p x, tget (initTable origins : Table P S α) p = some x → p ∈ V := by
      intro p x hp
      rw [initTable_get] at hp
      by_cases hpo : p ∈ origins
      · exact hV p hpo
      · simp [hpo] at hp
    cases hd : tget (initTable origins : Table P S α) dest with
    | some e0 => rw [hd] at hp; exact hinit p x hp
    | none =>
      rw [hd] at hp
      simp only at hp
      rw [get_put] at hp
      by_cases hpd : p = dest
      · rw [hpd]; exact hdV
      · simp [hpd] at hp; exact hinit p x hp
  exact runH_finishes g max (some dest) V hclosed V.length s hI hkeys (List.length_filter_le _ _)

/-! ### `ComputeAccessibility` -/

/-- **Reached points keep the distance the search found** in `ComputeAccessibility`'s result (so everything proved
about `PointDistances` — `searchU_optimal` — holds for it), whatever the geometry of the paths. -/
theorem accessibility_keeps_node_distances (t : Table P S α) (segPoints : S → List P) {p : P}
    {e : Entry P S α} (hp : tget t p = some e) : accGet (accessibility t segPoints) p = some (some e.dist) := by
  unfold accessibility
  generalize (interpolatedPoints t segPoints).map (fun q => ((q, none) : P × Option α)) = rest
  induction t with
  | nil => simp [tget] at hp
  | cons hd tl ih =>
    obtain ⟨k, x⟩ := hd
    by_cases hk : k = p
    · simp [tget, hk] at hp; subst hp; simp [accGet, hk]
    · simp [tget, hk] at hp; simp [accGet, hk]; exact ih hp

/-- only points the search did not reach are interpolated -/
theorem accessibility_interpolates_only_unreached (t : Table P S α) (segPoints : S → List P) {q : P}
    (hq : q ∈ interpolatedPoints t segPoints) : tget t q = none := by
  unfold interpolatedPoints at hq
  rw [B6.Lemmas.DijkstraHeap.mem_dedup] at hq
  have := (List.mem_filter.mp hq).2
  cases h : tget t q with
  | none => rfl
  | some e => simp [h] at this

end B6.Props.C30

/-! ### non-vacuity: the hypotheses are satisfiable and the model really runs -/
namespace B6.Props.C30.Example
open B6.Model.Dijkstra B6.Spec.ShortestPath B6.Lemmas.Dijkstra

/-- 0 →3 1 →4 2, 0 →10 2 (improved by decrease-key to 7), 2 → 0 unusable, 1 →0 1 (zero-weight self loop) -/
def exEdges : List (Edge Nat Nat Nat) := [
  { seg := 1, first := 0, last := 1, usable := true, weight := 3 },
  { seg := 2, first := 0, last := 2, usable := true, weight := 10 },
  { seg := 3, first := 1, last := 2, usable := true, weight := 4 },
  { seg := 5, first := 1, last := 1, usable := true, weight := 0 },
  { seg := 4, first := 2, last := 0, usable := false, weight := 1 }]

def exGraph : Graph Nat Nat Nat := ⟨fun p => exEdges.filter (fun e => e.first == p)⟩

example : NonNeg exGraph := fun _ _ _ _ => Nat.zero_le _

example : FirstOk exGraph := by
  intro p e he
  simp [exGraph] at he
  exact he.2

/-- replay a given pop order on the abstract model, checking that every pop is a queued minimum -/
def runAbs (g : Graph Nat Nat Nat) (max : Nat) : List Nat → Table Nat Nat Nat → Option (Table Nat Nat Nat)
  | [], t => some t
  | p :: ps, t => if isMinB t p then (expand g max t p).bind (runAbs g max ps) else none

theorem runAbs_reach (g : Graph Nat Nat Nat) (max : Nat) :
    ∀ (ps : List Nat) (t0 t : Table Nat Nat Nat), runAbs g max ps t0 = some t →
      ∃ tr, Reach g max t0 tr t ∧ tr.length = ps.length := by
  intro ps
  induction ps with
  | nil => intro t0 t h; simp [runAbs] at h; subst h; exact ⟨[], Reach.refl, rfl⟩
  | cons p ps ih =>
    intro t0 t h
    simp only [runAbs] at h
    split at h
    · rename_i hmin
      cases hexp : expand g max t0 p with
      | none => simp [hexp] at h
      | some t1 =>
        simp [hexp] at h
        obtain ⟨tr, hr, hl⟩ := ih t1 t h
        obtain ⟨ep, hp, _⟩ := isMinB_sound hmin
        exact ⟨tr ++ [(p, ep.dist)], Reach.head (isMinB_sound hmin) hp hexp hr, by simp [hl]⟩
    · cases h

/-- A non-trivial run with an empty queue exists (pop order 0, 1, 2; point 2 is first recorded at 10 and then
decreased to 7 through point 1): the hypotheses of `dijkstra_optimal`, `settled_is_walk_cost`,
`settled_nondecreasing` and `route_sound` are jointly satisfiable, and the outcome is the expected one. -/
example : ∃ tr t, Reach exGraph 20 (initTable [0]) tr t ∧ allVisited t = true ∧ tr.length = 3 ∧
    (tget t 2).map (fun e => (e.dist, e.back.map (·.seg))) = some (7, some 3) ∧
    ((buildRoute t 5 2 []).map fun (o, steps) => (o, steps.map fun st => (st.dest, st.via.seg, st.cost)))
      = some (0, [(1, 1, 3), (2, 3, 7)]) := by
  have h : ∃ t, runAbs exGraph 20 [0, 1, 2] (initTable [0]) = some t ∧ allVisited t = true ∧
      (tget t 2).map (fun e => (e.dist, e.back.map (·.seg))) = some (7, some 3) ∧
      ((buildRoute t 5 2 []).map fun (o, steps) => (o, steps.map fun st => (st.dest, st.via.seg, st.cost)))
        = some (0, [(1, 1, 3), (2, 3, 7)]) := by
    refine ⟨_, rfl, ?_, ?_, ?_⟩ <;> decide
  obtain ⟨t, hrun, h1, h2, h3⟩ := h
  obtain ⟨tr, hr, hl⟩ := runAbs_reach exGraph 20 _ _ t hrun
  exact ⟨tr, t, hr, h1, by simpa using hl, h2, h3⟩

/-- with limit 7 point 2 (true distance 7) is *not* recorded: the limit is strict -/
example : (runAbs exGraph 7 [0, 1] (initTable [0])).map (fun t => (allVisited t, (tget t 2).isSome))
    = some (true, false) := by decide

/-- `ExpandSearchTo`'s hypotheses: destination 2 is not the origin, the sentinel is not below the limit -/
example : (2 : Nat) ∉ [0] ∧ ¬ (21 : Nat) < 20 := by decide

end B6.Props.C30.Example
