/-! C30 — property theorems (stub: nothing proved yet). -/
