import B6.Model.Shell
import B6.Lemmas.Shell
/-!
# C20 — Printed shell expressions parse back to the same expression

Theorems about `B6.Model.Shell`: the token-level printer (`SE.toks`, mirroring `UnparseExpression` with the
fixes/C20-*.patch applied), the recursive-descent parser for `shell.y` with the `reduce*` functions'
positions (`parseTop`), the parse-normal form (`SE.normC`) and the printable subset (`SE.printable false`).

"Equivalent" is made precise by `normC`: the parsed tree is the printed tree up to
* a bare symbol in a call position (top level, pipeline member, group, lambda body) is a call without
  arguments (`x` ≡ `x` applied to nothing — `Simplify` undoes this using the function's arity);
* `a | f b …` is parsed as `(f b …)` applied to `a`: `Call{f,[a,b,…],pipelined}` ↦ `Call{Call{f,[b,…]},[a],pipelined}`;
* a non-pipelined call without arguments prints like its function;
* `Intersection`/`Union` lists nest to the right and a single member stands for itself;
* a tag's value is its `String()`.

The lexer, `%q`, `strconv` and goyacc's tables are outside the theorems (the tie compares the model's text and
positioned parse tree with the real `UnparseExpression` / `ParseExpression` on every generated case).
-/
namespace B6.Props.C20
open B6.Model.Shell B6.Model.FeatureID B6.Lemmas.Shell

/-- **Print, then parse.**  For every expression in the printable subset, of any depth: the printer
succeeds with some tokens `ts`, and for every way of placing those tokens in a text (`pts`: the same
tokens with arbitrary positions, i.e. any amount of white space) the parser, given enough fuel, returns a
tree whose shape is the normal form of the expression. -/
theorem parse_unparse_tokens (e : SE) (esc : Bool) (hp : e.printable esc = true) (ts : List Tok)
    (hts : e.toks true = .ok ts) (pts : List PTok) (hpts : toksOf pts = ts) :
    ∃ n pe, PE.strip pe = e.normC ∧ ∀ F, parseTop (F + n) pts = .ok pe := by
  obtain ⟨k, n, pe, hs, h⟩ := (se_all e hp).2.2 ts hts pts hpts [] ⟨⟨by simp [headTok], by simp [headTok]⟩, by simp [headTok]⟩
  refine ⟨n + k + 1, pe, hs, fun F => ?_⟩
  have hF := h (F + 1)
  simp only [List.append_nil] at hF
  rw [show F + (n + k + 1) = F + 1 + n + k by omega]
  simp only [parseTop, hF]
  rw [show F + 1 + n = (F + n) + 1 by omega, pipeLoop_stop pe [] (by simp [headTok]) (F + n)]
  rfl

end B6.Props.C20
