import B6.Model.Shell
import B6.Lemmas.Shell
import B6.Lemmas.ShellSpans
/-!
# C20 — Printed shell expressions parse back to the same expression

Theorems about `B6.Model.Shell`: the token-level printer (`SE.toks`, mirroring `UnparseExpression` with the
fixes/C20-*.patch applied), the recursive-descent parser for `shell.y` with the `reduce*` functions'
positions (`parseTop`), the parse-normal form (`SE.normC`) and the printable subset (`SE.printable false`).

"Equivalent" is made precise by `normC`: the parsed tree is the printed tree up to
* a bare symbol in a call position (top level, pipeline member, group, lambda body) is a call without
  arguments (`x` ≡ `x` applied to nothing — `Simplify` undoes this using the function's arity);
* `a | f b …` is parsed as `(f b …)` applied to `a`: `Call{f,[a,b,…],pipelined}` ↦ `Call{Call{f,[b,…]},[a],pipelined}`;
* a non-pipelined call without arguments prints like its function;
* `Intersection`/`Union` lists nest to the right and a single member stands for itself;
* a tag's value is its `String()`.

The lexer, `%q`, `strconv` and goyacc's tables are outside the theorems (the tie compares the model's text and
positioned parse tree with the real `UnparseExpression` / `ParseExpression` on every generated case).
-/
namespace B6.Props.C20
open B6.Model.Shell B6.Model.FeatureID B6.Lemmas.Shell B6.Lemmas.ShellSpans

/-- **Print, then parse.**  For every expression in the printable subset, of any depth: the printer
succeeds with some tokens `ts`, and for every way of placing those tokens in a text (`pts`: the same
tokens with arbitrary positions, i.e. any amount of white space) the parser, given enough fuel, returns a
tree whose shape is the normal form of the expression. -/
theorem parse_unparse_tokens (e : SE) (esc : Bool) (hp : e.printable esc = true) (ts : List Tok)
    (hts : e.toks true = .ok ts) (pts : List PTok) (hpts : toksOf pts = ts) :
    ∃ n pe, PE.strip pe = e.normC ∧ ∀ F, parseTop (F + n) pts = .ok pe := by
  obtain ⟨k, n, pe, hs, h⟩ := (se_all e hp).2.2 ts hts pts hpts [] ⟨⟨by simp [headTok], by simp [headTok]⟩, by simp [headTok]⟩
  refine ⟨n + k + 1, pe, hs, fun F => ?_⟩
  have hF := h (F + 1)
  simp only [List.append_nil] at hF
  rw [show F + (n + k + 1) = F + 1 + n + k by omega]
  simp only [parseTop, hF]
  rw [show F + 1 + n = (F + n) + 1 by omega, pipeLoop_stop pe [] (by simp [headTok]) (F + n)]
  rfl

mutual
/-- the printer neither fails nor panics on the printable subset -/
theorem printable_toks_ok : ∀ (e : SE) (esc : Bool), e.printable esc = true →
    (∃ ts, e.toks true = .ok ts) ∧ (∃ ts, e.toks false = .ok ts)
  | .sym s, _, _ => ⟨⟨_, rfl⟩, ⟨_, rfl⟩⟩
  | .lit l, _, _ => ⟨⟨_, rfl⟩, ⟨_, rfl⟩⟩
  | .lambda ps body, esc, hp => by
    simp only [SE.printable, Bool.and_eq_true] at hp
    obtain ⟨⟨bt, hb⟩, _⟩ := printable_toks_ok body esc hp.2
    exact ⟨⟨_, by simp only [SE.toks, hb, UR.ok_bind]; rfl⟩, ⟨_, by simp only [SE.toks, hb, UR.ok_bind]; rfl⟩⟩
  | .call f .nil false, esc, hp => by
    simp only [SE.printable, Bool.and_eq_true] at hp
    obtain ⟨⟨ft, hf⟩, ⟨ff, hff⟩⟩ := printable_toks_ok f esc hp.1.2
    exact ⟨⟨_, by simp only [SE.toks, hf]; rfl⟩, ⟨_, by simp only [SE.toks, hff, SEL.toks, UR.ok_bind]; rfl⟩⟩
  | .call f (.cons a as) false, esc, hp => by
    simp only [SE.printable, Bool.and_eq_true] at hp
    obtain ⟨_, ⟨ff, hff⟩⟩ := printable_toks_ok f esc hp.1.2
    obtain ⟨ats, hats⟩ := printableArgs_toks_ok (.cons a as) esc hp.2
    exact ⟨⟨_, by simp only [SE.toks, hff, hats, UR.ok_bind]; rfl⟩, ⟨_, by simp only [SE.toks, hff, hats, UR.ok_bind]; rfl⟩⟩
  | .call _ .nil true, _, hp => by simp [SE.printable] at hp
  | .call f (.cons a0 .nil) true, esc, hp => by
    simp only [SE.printable, Bool.and_eq_true] at hp
    obtain ⟨⟨ft, hf⟩, _⟩ := printable_toks_ok f esc hp.1
    obtain ⟨⟨lhs, hl⟩, _⟩ := printable_toks_ok a0 esc hp.2
    exact ⟨⟨_, by simp only [SE.toks, hl, hf, UR.ok_bind]; rfl⟩, ⟨_, by simp only [SE.toks, hl, hf, UR.ok_bind]; rfl⟩⟩
  | .call f (.cons a0 (.cons a1 as)) true, esc, hp => by
    simp only [SE.printable, Bool.and_eq_true] at hp
    obtain ⟨_, ⟨ff, hff⟩⟩ := printable_toks_ok f esc hp.1.1.2
    obtain ⟨⟨lhs, hl⟩, _⟩ := printable_toks_ok a0 esc hp.1.2
    obtain ⟨ats, hats⟩ := printableArgs_toks_ok (.cons a1 as) esc hp.2
    exact ⟨⟨_, by simp only [SE.toks, hl, hff, hats, UR.ok_bind]; rfl⟩, ⟨_, by simp only [SE.toks, hl, hff, hats, UR.ok_bind]; rfl⟩⟩
theorem printableArgs_toks_ok : ∀ (es : SEL) (esc : Bool), es.printable esc = true → ∃ ts, es.toks = .ok ts
  | .nil, _, _ => ⟨_, rfl⟩
  | .cons e es, esc, hp => by
    simp only [SEL.printable, Bool.and_eq_true] at hp
    obtain ⟨_, ⟨t, ht⟩⟩ := printable_toks_ok e esc hp.1
    obtain ⟨ts, hts⟩ := printableArgs_toks_ok es esc hp.2
    exact ⟨_, by simp only [SEL.toks, ht, hts, UR.ok_bind]; rfl⟩
end

/-- the statement about positions, for every input -/
def span_nesting_statement : Prop :=
  ∀ (F lo : Nat) (pts : List PTok) (pe : PE), Sorted lo pts → parseTop F pts = .ok pe →
    pe.nested = true ∧ lo ≤ pe.b ∧ pe.b ≤ pe.e

/-- **Spans nest** — unless a `lat, lng` literal is involved.  For any token list whose positions are in order
(`Sorted`), whatever the parser returns — for *any* input, printed or not — has `begin ≤ end` on every node,
every child inside its parent, and starts at or after the first token, provided the parsed tree holds no
`lat, lng` literal (`PE.noPoint`; `reduceLatLng` gives those no position: finding `latlng-span`). -/
theorem span_nesting_partial (F lo : Nat) (pts : List PTok) (pe : PE) (hs : Sorted lo pts)
    (h : parseTop F pts = .ok pe) (hnp : pe.noPoint = true) :
    pe.nested = true ∧ lo ≤ pe.b ∧ pe.b ≤ pe.e := by
  simp only [parseTop] at h
  obtain ⟨⟨e, r⟩, h1, h2⟩ := B6.Lemmas.ShellSpans.PR.bind_ok _ _ _ h
  cases r with
  | nil =>
    simp only [PR.ok.injEq] at h2
    subst h2
    obtain ⟨hn, hb, hbe, _⟩ := (spans F).1 lo pts e [] hs h1 hnp
    exact ⟨hn, hb, hbe⟩
  | cons x xs => simp at h2

/-- `f 1.0, 2.0` at positions 0‥1, 2‥5, 5‥6, 7‥10: the point gets the span [0,0), the call inherits `End = 0` -/
theorem latlng_span_counterexample : ¬ span_nesting_statement := by
  intro h
  have := h 10 0 [⟨.sym [102], 0, 1⟩, ⟨.float [49, 46, 48], 2, 5⟩, ⟨.p 44, 5, 6⟩, ⟨.float [50, 46, 48], 7, 10⟩]
    (.mk (.call (.mk (.sym [102]) 0 1) (.cons (.mk (.lit (.point [49, 46, 48] [50, 46, 48])) 0 0) .nil) false) 0 0)
    (by simp [Sorted]) rfl
  revert this
  decide

/-- **The property, at token level.**  A printable expression prints; its tokens, laid out at any ordered
positions, parse to the normal form of the expression; and the spans of the parsed tree nest (if it holds no
`lat, lng` literal). -/
theorem print_parse_roundtrip (e : SE) (esc : Bool) (hp : e.printable esc = true) :
    ∃ ts, e.toks true = .ok ts ∧ ∀ (pts : List PTok) (lo : Nat), toksOf pts = ts → Sorted lo pts →
      ∃ n pe, PE.strip pe = e.normC ∧ (pe.noPoint = true → pe.nested = true ∧ lo ≤ pe.b) ∧
        ∀ F, parseTop (F + n) pts = .ok pe := by
  obtain ⟨⟨ts, hts⟩, _⟩ := printable_toks_ok e esc hp
  refine ⟨ts, hts, fun pts lo hpts hs => ?_⟩
  obtain ⟨n, pe, hstrip, hparse⟩ := parse_unparse_tokens e esc hp ts hts pts hpts
  refine ⟨n, pe, hstrip, fun hnp => ?_, hparse⟩
  obtain ⟨hn, hb, _⟩ := span_nesting_partial (0 + n) lo pts pe hs (hparse 0) hnp
  exact ⟨hn, hb⟩

/-! ## non-vacuity, and the text layer -/

/-- `find [#amenity=cafe & [#a | b]] | filter {u -> gt (count u) 1}` with the pipeline in the client's flat shape -/
def sample : SE :=
  .call (.sym (bytes! "filter"))
    (.cons (.call (.sym (bytes! "find"))
        (.cons (.lit (.query (.and (.cons (.tagged (bytes! "#amenity") (bytes! "cafe"))
          (.cons (.or (.cons (.keyed (bytes! "#a")) (.cons (.keyed (bytes! "b")) .nil))) .nil))))) .nil) false)
      (.cons (.lambda [bytes! "u"]
        (.call (.sym (bytes! "gt"))
          (.cons (.call (.sym (bytes! "count")) (.cons (.sym (bytes! "u")) .nil) false)
            (.cons (.lit (.int 1)) .nil)) false)) .nil)) true

example : sample.printable false = true := by decide

example : (match sample.toks true with | .ok ts => render ts | _ => []) =
    bytes! "find [#amenity=cafe & [#a | b]] | filter {u -> gt (count u) 1}" := by decide

/-- the text layer is where strings break (finding `string-needs-escape`): the printed form of the string
`a"b` does not lex -/
theorem string_escape_counterexample : lex (render [Tok.str (bytes! "a\"b")]) = .err := by decide

/-- … while a plain string lexes back to the token it was printed from -/
example : (match lex (render [Tok.sym (bytes! "f"), Tok.str (bytes! "a b")]) with
    | .ok ts => ts.map (·.tok) | _ => []) = [Tok.sym (bytes! "f"), Tok.str (bytes! "a b")] := by decide

end B6.Props.C20
