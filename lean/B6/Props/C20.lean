import B6.Model.Shell
import B6.Lemmas.Shell
import B6.Lemmas.ShellSpans
import B6.Lemmas.ShellLex
/-!
# C20 — Printed shell expressions parse back to the same expression

Theorems about `B6.Model.Shell`: the token-level printer (`SE.toks`, mirroring `UnparseExpression` with the
fixes/C20-*.patch applied), the recursive-descent parser for `shell.y` with the `reduce*` functions'
positions (`parseTop`), the parse-normal form (`SE.normC`) and the printable subset (`SE.printable false`).

"Equivalent" is made precise by `normC`: the parsed tree is the printed tree up to
* a bare symbol in a call position (top level, pipeline member, group, lambda body) is a call without
  arguments (`x` ≡ `x` applied to nothing — `Simplify` undoes this using the function's arity);
* `a | f b …` is parsed as `(f b …)` applied to `a`: `Call{f,[a,b,…],pipelined}` ↦ `Call{Call{f,[b,…]},[a],pipelined}`;
* a non-pipelined call without arguments prints like its function;
* `Intersection`/`Union` lists nest to the right and a single member stands for itself;
* a tag's value is its `String()`.

The lexer, `%q`, `strconv` and goyacc's tables are outside the theorems (the tie compares the model's text and
positioned parse tree with the real `UnparseExpression` / `ParseExpression` on every generated case).
-/
namespace B6.Props.C20
open B6.Model.Shell B6.Model.FeatureID B6.Lemmas.Shell B6.Lemmas.ShellSpans B6.Lemmas.ShellLex

/-- **Print, then parse.**  For every expression in the printable subset, of any depth: the printer
succeeds with some tokens `ts`, and for every way of placing those tokens in a text (`pts`: the same
tokens with arbitrary positions, i.e. any amount of white space) the parser, given enough fuel, returns a
tree whose shape is the normal form of the expression. -/
theorem parse_unparse_tokens (e : SE) (esc : Bool) (hp : e.printable esc = true) (ts : List Tok)
    (hts : e.toks true = .ok ts) (pts : List PTok) (hpts : toksOf pts = ts) :
    ∃ n pe, PE.strip pe = e.normC ∧ ∀ F, parseTop (F + n) pts = .ok pe := by
  obtain ⟨k, n, pe, hs, h⟩ := (se_all e hp).2.2 ts hts pts hpts [] ⟨⟨by simp [headTok], by simp [headTok]⟩, by simp [headTok]⟩
  refine ⟨n + k + 1, pe, hs, fun F => ?_⟩
  have hF := h (F + 1)
  simp only [List.append_nil] at hF
  rw [show F + (n + k + 1) = F + 1 + n + k by omega]
  simp only [parseTop, hF]
  rw [show F + 1 + n = (F + n) + 1 by omega, pipeLoop_stop pe [] (by simp [headTok]) (F + n)]
  rfl

mutual
/-- the printer neither fails nor panics on the printable subset -/
theorem printable_toks_ok : ∀ (e : SE) (esc : Bool), e.printable esc = true →
    (∃ ts, e.toks true = .ok ts) ∧ (∃ ts, e.toks false = .ok ts)
  | .sym s, _, _ => ⟨⟨_, rfl⟩, ⟨_, rfl⟩⟩
  | .lit l, _, _ => ⟨⟨_, rfl⟩, ⟨_, rfl⟩⟩
  | .lambda ps body, esc, hp => by
    simp only [SE.printable, Bool.and_eq_true] at hp
    obtain ⟨⟨bt, hb⟩, _⟩ := printable_toks_ok body esc hp.2
    exact ⟨⟨_, by simp only [SE.toks, hb, UR.ok_bind]; rfl⟩, ⟨_, by simp only [SE.toks, hb, UR.ok_bind]; rfl⟩⟩
  | .call f .nil false, esc, hp => by
    simp only [SE.printable, Bool.and_eq_true] at hp
    obtain ⟨⟨ft, hf⟩, ⟨ff, hff⟩⟩ := printable_toks_ok f esc hp.1.2
    exact ⟨⟨_, by simp only [SE.toks, hf]; rfl⟩, ⟨_, by simp only [SE.toks, hff, SEL.toks, UR.ok_bind]; rfl⟩⟩
  | .call f (.cons a as) false, esc, hp => by
    simp only [SE.printable, Bool.and_eq_true] at hp
    obtain ⟨_, ⟨ff, hff⟩⟩ := printable_toks_ok f esc hp.1.2
    obtain ⟨ats, hats⟩ := printableArgs_toks_ok (.cons a as) esc hp.2
    exact ⟨⟨_, by simp only [SE.toks, hff, hats, UR.ok_bind]; rfl⟩, ⟨_, by simp only [SE.toks, hff, hats, UR.ok_bind]; rfl⟩⟩
  | .call _ .nil true, _, hp => by simp [SE.printable] at hp
  | .call f (.cons a0 .nil) true, esc, hp => by
    simp only [SE.printable, Bool.and_eq_true] at hp
    obtain ⟨⟨ft, hf⟩, _⟩ := printable_toks_ok f esc hp.1
    obtain ⟨⟨lhs, hl⟩, _⟩ := printable_toks_ok a0 esc hp.2
    exact ⟨⟨_, by simp only [SE.toks, hl, hf, UR.ok_bind]; rfl⟩, ⟨_, by simp only [SE.toks, hl, hf, UR.ok_bind]; rfl⟩⟩
  | .call f (.cons a0 (.cons a1 as)) true, esc, hp => by
    simp only [SE.printable, Bool.and_eq_true] at hp
    obtain ⟨_, ⟨ff, hff⟩⟩ := printable_toks_ok f esc hp.1.1.2
    obtain ⟨⟨lhs, hl⟩, _⟩ := printable_toks_ok a0 esc hp.1.2
    obtain ⟨ats, hats⟩ := printableArgs_toks_ok (.cons a1 as) esc hp.2
    exact ⟨⟨_, by simp only [SE.toks, hl, hff, hats, UR.ok_bind]; rfl⟩, ⟨_, by simp only [SE.toks, hl, hff, hats, UR.ok_bind]; rfl⟩⟩
theorem printableArgs_toks_ok : ∀ (es : SEL) (esc : Bool), es.printable esc = true → ∃ ts, es.toks = .ok ts
  | .nil, _, _ => ⟨_, rfl⟩
  | .cons e es, esc, hp => by
    simp only [SEL.printable, Bool.and_eq_true] at hp
    obtain ⟨_, ⟨t, ht⟩⟩ := printable_toks_ok e esc hp.1
    obtain ⟨ts, hts⟩ := printableArgs_toks_ok es esc hp.2
    exact ⟨_, by simp only [SEL.toks, ht, hts, UR.ok_bind]; rfl⟩
end

/-- the statement about positions, for every input -/
def span_nesting_statement : Prop :=
  ∀ (F lo : Nat) (pts : List PTok) (pe : PE), Sorted lo pts → parseTop F pts = .ok pe →
    pe.nested = true ∧ lo ≤ pe.b ∧ pe.b ≤ pe.e

/-- **Spans nest** — unless a `lat, lng` literal is involved.  For any token list whose positions are in order
(`Sorted`), whatever the parser returns — for *any* input, printed or not — has `begin ≤ end` on every node,
every child inside its parent, and starts at or after the first token, provided the parsed tree holds no
`lat, lng` literal (`PE.noPoint`; `reduceLatLng` gives those no position: finding `latlng-span`). -/
theorem span_nesting_partial (F lo : Nat) (pts : List PTok) (pe : PE) (hs : Sorted lo pts)
    (h : parseTop F pts = .ok pe) (hnp : pe.noPoint = true) :
    pe.nested = true ∧ lo ≤ pe.b ∧ pe.b ≤ pe.e := by
  simp only [parseTop] at h
  obtain ⟨⟨e, r⟩, h1, h2⟩ := B6.Lemmas.ShellSpans.PR.bind_ok _ _ _ h
  cases r with
  | nil =>
    simp only [PR.ok.injEq] at h2
    subst h2
    obtain ⟨hn, hb, hbe, _⟩ := (spans F).1 lo pts e [] hs h1 hnp
    exact ⟨hn, hb, hbe⟩
  | cons x xs => simp at h2

/-- `f 1.0, 2.0` at positions 0‥1, 2‥5, 5‥6, 7‥10: the point gets the span [0,0), the call inherits `End = 0` -/
theorem latlng_span_counterexample : ¬ span_nesting_statement := by
  intro h
  have := h 10 0 [⟨.sym [102], 0, 1⟩, ⟨.float [49, 46, 48], 2, 5⟩, ⟨.p 44, 5, 6⟩, ⟨.float [50, 46, 48], 7, 10⟩]
    (.mk (.call (.mk (.sym [102]) 0 1) (.cons (.mk (.lit (.point [49, 46, 48] [50, 46, 48])) 0 0) .nil) false) 0 0)
    (by simp [Sorted]) rfl
  revert this
  decide

/-- **The property, at token level.**  A printable expression prints; its tokens, laid out at any ordered
positions, parse to the normal form of the expression; and the spans of the parsed tree nest (if it holds no
`lat, lng` literal). -/
theorem print_parse_roundtrip (e : SE) (esc : Bool) (hp : e.printable esc = true) :
    ∃ ts, e.toks true = .ok ts ∧ ∀ (pts : List PTok) (lo : Nat), toksOf pts = ts → Sorted lo pts →
      ∃ n pe, PE.strip pe = e.normC ∧ (pe.noPoint = true → pe.nested = true ∧ lo ≤ pe.b) ∧
        ∀ F, parseTop (F + n) pts = .ok pe := by
  obtain ⟨⟨ts, hts⟩, _⟩ := printable_toks_ok e esc hp
  refine ⟨ts, hts, fun pts lo hpts hs => ?_⟩
  obtain ⟨n, pe, hstrip, hparse⟩ := parse_unparse_tokens e esc hp ts hts pts hpts
  refine ⟨n, pe, hstrip, fun hnp => ?_, hparse⟩
  obtain ⟨hn, hb, _⟩ := span_nesting_partial (0 + n) lo pts pe hs (hparse 0) hnp
  exact ⟨hn, hb⟩

/-! ## the text layer: every token of a printable expression lexes back -/

/-- the token is a feature ID whose printed form is ASCII, or not a feature ID at all.  The lexer reads
feature-ID tokens rune by rune (`unicode.IsLetter / IsDigit`); the model does too (with a hand-written extract of
the Unicode tables, tied by the run only), but `lex_render` is proved for ASCII ID tokens -/
def asciiID : Tok → Bool
  | .id f => (unparse f true).all (· < 128)
  | _ => true

/-- every token lexes back, the feature IDs among them provided they are ASCII -/
def AllLex (ts : List Tok) : Prop := ∀ t ∈ ts, asciiID t = true → t.lexable = true

theorem allLex_append {a b : List Tok} (ha : AllLex a) (hb : AllLex b) : AllLex (a ++ b) := by
  intro t ht
  rcases List.mem_append.mp ht with h | h
  · exact ha t h
  · exact hb t h

theorem allLex_single {t : Tok} (h : t.lexable = true) : AllLex [t] := by
  intro x hx _; simp only [List.mem_singleton] at hx; subst hx; exact h

/-- an ID token the rune-level check accepts and that is ASCII passes the byte-level check -/
theorem idRunes_ascii : ∀ (F : Nat) (s : Bytes), idRunesOK F s = true → s.all (· < 128) = true →
    s.all isIDByte = true := by
  intro F
  induction F with
  | zero => intro s h _; cases s <;> simp_all [idRunesOK]
  | succ F ih =>
    intro s h ha
    cases s with
    | nil => rfl
    | cons c cs =>
      simp only [List.all_cons, Bool.and_eq_true, decide_eq_true_eq] at ha
      simp only [idRunesOK, ha.1, ↓reduceIte, Bool.and_eq_true] at h
      simp only [List.all_cons, Bool.and_eq_true]
      exact ⟨h.1, ih cs h.2 ha.2⟩

theorem keyTok_lexable (k : Bytes) (hne : k ≠ []) (hk : keyBare k = true) : (keyTok k).lexable = true := by
  cases k with
  | nil => exact absurd rfl hne
  | cons c rest =>
    simp only [keyBare, Bool.and_eq_true, Bool.or_eq_true, beq_iff_eq] at hk
    unfold keyTok
    split
    · rename_i heq; simp only [List.cons.injEq] at heq; obtain ⟨rfl, rfl⟩ := heq
      simp [Tok.lexable, hk.2]
    · rename_i heq; simp only [List.cons.injEq] at heq; obtain ⟨rfl, rfl⟩ := heq
      simp [Tok.lexable, hk.2]
    · rename_i h35 h64
      have hl : isLetter c = true := by
        rcases hk.1 with (h | h) | h
        · exact h
        · exact absurd (by rw [h]) (h35 rest)
        · exact absurd (by rw [h]) (h64 rest)
      simp [Tok.lexable, hl, hk.2]

theorem valueTok_lexable (v : Bytes) (hv : (valueBare v || plain v) = true) :
    (if valueBare v then Tok.sym v else Tok.str v).lexable = true := by
  by_cases hb : valueBare v = true
  · simp only [hb, ↓reduceIte]
    cases v with
    | nil => simp [valueBare] at hb
    | cons c rest => simpa [Tok.lexable, valueBare] using hb
  · simp only [hb, Bool.false_eq_true, ↓reduceIte]
    simp only [hb, Bool.false_or] at hv
    simpa [Tok.lexable, plain, plainByte] using hv

theorem tagToks_lexable (k v : Bytes) (hne : k ≠ []) (hk : keyBare k = true)
    (hv : (valueBare v || plain v) = true) : AllLex (tagToks k v) := by
  rw [tagToks_printable k v hk]
  intro t ht _
  simp only [List.mem_cons, List.not_mem_nil, or_false] at ht
  rcases ht with rfl | rfl | rfl
  · exact keyTok_lexable k hne hk
  · rfl
  · exact valueTok_lexable v hv

mutual
theorem q_lexable : ∀ (q : Q), q.printable false = true → AllLex q.toks ∧ AllLex q.subToks
  | .keyed k, hp => by
    simp only [Q.printable, Bool.and_eq_true, decide_eq_true_eq] at hp
    have := allLex_single (keyTok_lexable k hp.1 hp.2)
    exact ⟨this, this⟩
  | .tagged k v, hp => by
    simp only [Q.printable, Bool.and_eq_true, decide_eq_true_eq, Bool.or_false] at hp
    have := tagToks_lexable k v hp.1.1 hp.1.2 hp.2
    exact ⟨this, this⟩
  | .and qs, hp => by
    simp only [Q.printable] at hp
    have := ql_lexable qs 38 (by decide) hp
    exact ⟨this, allLex_append (allLex_append (allLex_single rfl) this) (allLex_single rfl)⟩
  | .or qs, hp => by
    simp only [Q.printable] at hp
    have := ql_lexable qs 124 (by decide) hp
    exact ⟨this, allLex_append (allLex_append (allLex_single rfl) this) (allLex_single rfl)⟩
theorem ql_lexable : ∀ (qs : QL) (op : Nat), isPunct op = true → qs.printable false = true → AllLex (qs.toks op)
  | .nil, _, _, hp => by simp [QL.printable] at hp
  | .cons q .nil, _, _, hp => by
    simp only [QL.printable] at hp
    simpa only [QL.toks] using (q_lexable q hp).2
  | .cons q (.cons q' qs'), op, hop, hp => by
    simp only [QL.printable, Bool.and_eq_true] at hp
    have h1 := (q_lexable q hp.1).2
    have h2 := ql_lexable (.cons q' qs') op hop (by simpa only [QL.printable, Bool.and_eq_true] using hp.2)
    simp only [QL.toks]
    exact allLex_append (allLex_append h1 (allLex_single hop)) h2
end

theorem lit_lexable (l : Lit) (hp : l.printable false = true) : AllLex l.toks := by
  cases l with
  | str s => exact allLex_single (by simpa [Lit.printable, plain, plainByte, Tok.lexable] using hp)
  | int i => exact allLex_single (by simpa [Lit.printable, Tok.lexable] using hp)
  | float t => exact allLex_single (by simpa [Lit.printable, Tok.lexable] using hp)
  | point lat lng =>
    simp only [Lit.printable, Bool.and_eq_true] at hp
    intro t ht _
    simp only [Lit.toks, List.mem_cons, List.not_mem_nil, or_false] at ht
    rcases ht with rfl | rfl | rfl
    · exact hp.1
    · rfl
    · exact hp.2
  | id f =>
    intro t ht hascii
    simp only [Lit.toks, List.mem_singleton] at ht
    subst ht
    simp only [Lit.printable, idLexable, Bool.and_eq_true, decide_eq_true_eq] at hp
    simp only [asciiID] at hascii
    simp only [Tok.lexable, Bool.and_eq_true, decide_eq_true_eq]
    exact ⟨⟨hp.1.1, hp.1.2⟩, idRunes_ascii _ _ hp.2 hascii⟩
  | tag k v =>
    simp only [Lit.printable, Bool.and_eq_true, decide_eq_true_eq, Bool.or_false] at hp
    exact tagToks_lexable k v hp.1.1 hp.1.2 hp.2
  | query q =>
    simp only [Lit.printable] at hp
    exact allLex_append (allLex_append (allLex_single rfl) (q_lexable q hp).1) (allLex_single rfl)

theorem lambdaHead_lexable : ∀ (ps : List Bytes), ps.all symbolLike = true → AllLex (lambdaHead ps)
  | [], _ => by intro t ht _; simp [lambdaHead] at ht
  | [p], h => by
    simp only [List.all_cons, List.all_nil, Bool.and_true] at h
    exact allLex_single (by cases p <;> simpa [symbolLike, Tok.lexable] using h)
  | p :: p' :: ps, h => by
    simp only [List.all_cons, Bool.and_eq_true] at h
    have ih := lambdaHead_lexable (p' :: ps) (by simpa only [List.all_cons, Bool.and_eq_true] using h.2)
    have hp : (Tok.sym p).lexable = true := by cases p <;> simpa [symbolLike, Tok.lexable] using h.1
    simp only [lambdaHead]
    intro t ht ha
    simp only [List.mem_cons] at ht
    rcases ht with rfl | rfl | ht
    · exact hp
    · rfl
    · exact ih t ht ha

mutual
theorem se_lexable : ∀ (e : SE), e.printable false = true → ∀ (top : Bool) ts, e.toks top = .ok ts → AllLex ts
  | .sym s, hp, _, ts, h => by
    simp only [SE.toks, UR.ok.injEq] at h; subst h
    exact allLex_single (by cases s <;> simpa [SE.printable, symbolLike, Tok.lexable] using hp)
  | .lit l, hp, _, ts, h => by
    simp only [SE.toks, UR.ok.injEq] at h; subst h
    exact lit_lexable l (by simpa only [SE.printable] using hp)
  | .lambda ps body, hp, _, ts, h => by
    simp only [SE.printable, Bool.and_eq_true] at hp
    simp only [SE.toks] at h
    obtain ⟨bt, hb, h⟩ := UR.bind_ok _ _ _ h
    simp only [UR.ok.injEq] at h; subst h
    have := se_lexable body hp.2 true bt hb
    exact allLex_append (allLex_append (allLex_append (allLex_append (allLex_single rfl)
      (lambdaHead_lexable ps hp.1)) (allLex_single rfl)) this) (allLex_single rfl)
  | .call f .nil false, hp, top, ts, h => by
    simp only [SE.printable, Bool.and_eq_true] at hp
    cases top with
    | true => simp only [SE.toks] at h; exact se_lexable f hp.1.2 true ts h
    | false =>
      simp only [SE.toks] at h
      obtain ⟨ft, hf, h⟩ := UR.bind_ok _ _ _ h
      obtain ⟨ats, ha, h⟩ := UR.bind_ok _ _ _ h
      simp only [SEL.toks, UR.ok.injEq] at ha; subst ha
      simp only [Bool.false_eq_true, ↓reduceIte, UR.ok.injEq] at h; subst h
      exact allLex_append (allLex_append (allLex_append (allLex_single rfl) (se_lexable f hp.1.2 false ft hf))
        (by intro t ht _; simp at ht)) (allLex_single rfl)
  | .call f (.cons a as) false, hp, top, ts, h => by
    simp only [SE.printable, Bool.and_eq_true] at hp
    simp only [SE.toks] at h
    obtain ⟨ft, hf, h⟩ := UR.bind_ok _ _ _ h
    obtain ⟨ats, ha, h⟩ := UR.bind_ok _ _ _ h
    have h1 := se_lexable f hp.1.2 false ft hf
    have h2 := sel_lexable (.cons a as) hp.2 ats ha
    cases top with
    | true => simp only [↓reduceIte, UR.ok.injEq] at h; subst h; exact allLex_append h1 h2
    | false =>
      simp only [Bool.false_eq_true, ↓reduceIte, UR.ok.injEq] at h; subst h
      exact allLex_append (allLex_append (allLex_append (allLex_single rfl) h1) h2) (allLex_single rfl)
  | .call _ .nil true, hp, _, _, _ => by simp [SE.printable] at hp
  | .call f (.cons a0 .nil) true, hp, top, ts, h => by
    simp only [SE.printable, Bool.and_eq_true] at hp
    simp only [SE.toks] at h
    obtain ⟨lhs, hl, h⟩ := UR.bind_ok _ _ _ h
    obtain ⟨rhs, hr, h⟩ := UR.bind_ok _ _ _ h
    obtain ⟨ft, hf, hr⟩ := UR.bind_ok _ _ _ hr
    simp only [UR.ok.injEq] at hr; subst hr
    have h1 := se_lexable a0 hp.2 true lhs hl
    have h2 := se_lexable f hp.1 true ft hf
    have h3 : AllLex (pipedParen f ft) := by
      unfold pipedParen
      split
      · exact allLex_append (allLex_append (allLex_single rfl) h2) (allLex_single rfl)
      · exact h2
    cases top with
    | true =>
      simp only [↓reduceIte, UR.ok.injEq] at h; subst h
      exact allLex_append (allLex_append h1 (allLex_single rfl)) h3
    | false =>
      simp only [Bool.false_eq_true, ↓reduceIte, UR.ok.injEq] at h; subst h
      exact allLex_append (allLex_append (allLex_append (allLex_append (allLex_single rfl) h1) (allLex_single rfl)) h3)
        (allLex_single rfl)
  | .call f (.cons a0 (.cons a1 as)) true, hp, top, ts, h => by
    simp only [SE.printable, Bool.and_eq_true] at hp
    simp only [SE.toks] at h
    obtain ⟨lhs, hl, h⟩ := UR.bind_ok _ _ _ h
    obtain ⟨rhs, hr, h⟩ := UR.bind_ok _ _ _ h
    obtain ⟨ft, hf, hr⟩ := UR.bind_ok _ _ _ hr
    obtain ⟨ats, ha, hr⟩ := UR.bind_ok _ _ _ hr
    simp only [UR.ok.injEq] at hr; subst hr
    have h1 := se_lexable a0 hp.1.2 true lhs hl
    have h2 := se_lexable f hp.1.1.2 false ft hf
    have h3 := sel_lexable (.cons a1 as) hp.2 ats ha
    cases top with
    | true =>
      simp only [↓reduceIte, UR.ok.injEq] at h; subst h
      exact allLex_append (allLex_append h1 (allLex_single rfl)) (allLex_append h2 h3)
    | false =>
      simp only [Bool.false_eq_true, ↓reduceIte, UR.ok.injEq] at h; subst h
      exact allLex_append (allLex_append (allLex_append (allLex_append (allLex_single rfl) h1) (allLex_single rfl))
        (allLex_append h2 h3)) (allLex_single rfl)
theorem sel_lexable : ∀ (es : SEL), es.printable false = true → ∀ ts, es.toks = .ok ts → AllLex ts
  | .nil, _, ts, h => by simp only [SEL.toks, UR.ok.injEq] at h; subst h; intro t ht _; simp at ht
  | .cons e es, hp, ts, h => by
    simp only [SEL.printable, Bool.and_eq_true] at hp
    simp only [SEL.toks] at h
    obtain ⟨t1, h1, h⟩ := UR.bind_ok _ _ _ h
    obtain ⟨t2, h2, h⟩ := UR.bind_ok _ _ _ h
    simp only [UR.ok.injEq] at h; subst h
    exact allLex_append (se_lexable e hp.1 false t1 h1) (sel_lexable es hp.2 t2 h2)
end

/-- **`lex ∘ render`.**  For every list of lexable tokens the text written by the printer's spacing rule
lexes to exactly those tokens, in order, each with the span `[b, e)` of the text that was written for it. -/
theorem lex_render (ts : List Tok) (h : ∀ t ∈ ts, t.lexable = true) :
    ∃ pts, lex (render ts) = .ok pts ∧ toksOf pts = ts ∧ Sorted 0 pts ∧
      ∀ pt ∈ pts, pt.e = pt.b + pt.tok.text.length ∧
        ((render ts).drop pt.b).take (pt.e - pt.b) = pt.tok.text := by
  refine ⟨place ts 0, B6.Lemmas.ShellLex.lex_render ts h, toks_place ts 0, sorted_place ts 0 0 (Nat.le_refl _), ?_⟩
  intro pt hpt
  obtain ⟨_, h2, h3⟩ := slices_place ts 0 pt hpt
  exact ⟨h2, by simpa using h3⟩

/-- **The property at the text level.**  A printable expression (strings and tag values without escapes — see
the finding `string-needs-escape` —, finite floats in the printer's decimal form) prints to a text; lexing that
text gives back the printed tokens with spans that hold exactly their texts (feature-ID tokens: ASCII ones;
non-ASCII namespaces are covered by the rune-level model and the run, not by this theorem); parsing those tokens
gives the normal form of the expression; and the spans of the parsed tree nest (if it holds no `lat, lng`). -/
theorem print_parse_roundtrip_text (e : SE) (hp : e.printable false = true)
    (hascii : ∀ ts, e.toks true = .ok ts → ∀ t ∈ ts, asciiID t = true) :
    ∃ ts, e.toks true = .ok ts ∧
      ∃ pts, lex (render ts) = .ok pts ∧ toksOf pts = ts ∧
        (∀ pt ∈ pts, pt.e = pt.b + pt.tok.text.length ∧
          ((render ts).drop pt.b).take (pt.e - pt.b) = pt.tok.text) ∧
        ∃ n pe, PE.strip pe = e.normC ∧ (pe.noPoint = true → pe.nested = true) ∧
          ∀ F, parseTop (F + n) pts = .ok pe := by
  obtain ⟨ts, hts, hrt⟩ := print_parse_roundtrip e false hp
  have hall : ∀ t ∈ ts, t.lexable = true := fun t ht => se_lexable e hp true ts hts t ht (hascii ts hts t ht)
  obtain ⟨pts, hlex, htoks, hsorted, hslices⟩ := lex_render ts hall
  obtain ⟨n, pe, hstrip, hnest, hparse⟩ := hrt pts 0 htoks hsorted
  exact ⟨ts, hts, pts, hlex, htoks, hslices, n, pe, hstrip, fun h => (hnest h).1, hparse⟩

/-! ## non-vacuity, and the text layer -/

/-- `find [#amenity=cafe & [#a | b]] | filter {u -> gt (count u) 1}` with the pipeline in the client's flat shape -/
def sample : SE :=
  .call (.sym (bytes! "filter"))
    (.cons (.call (.sym (bytes! "find"))
        (.cons (.lit (.query (.and (.cons (.tagged (bytes! "#amenity") (bytes! "cafe"))
          (.cons (.or (.cons (.keyed (bytes! "#a")) (.cons (.keyed (bytes! "b")) .nil))) .nil))))) .nil) false)
      (.cons (.lambda [bytes! "u"]
        (.call (.sym (bytes! "gt"))
          (.cons (.call (.sym (bytes! "count")) (.cons (.sym (bytes! "u")) .nil) false)
            (.cons (.lit (.int 1)) .nil)) false)) .nil)) true

example : sample.printable false = true := by decide

example : (match sample.toks true with | .ok ts => render ts | _ => []) =
    bytes! "find [#amenity=cafe & [#a | b]] | filter {u -> gt (count u) 1}" := by decide

/-- the text layer is where strings break (finding `string-needs-escape`): the printed form of the string
`a"b` does not lex -/
theorem string_escape_counterexample : lex (render [Tok.str (bytes! "a\"b")]) = .err := by decide

/-- … while a plain string lexes back to the token it was printed from -/
example : (match lex (render [Tok.sym (bytes! "f"), Tok.str (bytes! "a b")]) with
    | .ok ts => ts.map (·.tok) | _ => []) = [Tok.sym (bytes! "f"), Tok.str (bytes! "a b")] := by decide

end B6.Props.C20
