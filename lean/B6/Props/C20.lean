/-! C20 — property theorems (stub: nothing proved yet). -/
