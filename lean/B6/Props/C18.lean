import B6.Lemmas.ChangeExport
import B6.Spec.World
/-!
# C18 — Exported change files reproduce the edited world

Model: `B6.Model.ChangeExport` (ingest/yaml.go, `Expression.MarshalYAML/UnmarshalYAML`, `ExpressionFromString`,
`LatLngFromString`, `FeatureIDFromString`, and the part of `MutableOverlayWorld` the export reads and the
import writes), after `fixes/C18-*.patch`.  Spec: the map feature id ⇀ (tag key ⇀ value) × body (`SMap`); `abs b s` is
the map a world denotes (`FindFeatureByID` for every id: existence, every tag, the body).

Standing assumptions, all satisfied by worlds the code builds itself (see the `example`s): `b.IdsOK` /
`s.FeatsId` — a feature found under an id carries that id; `ModsNodup s.mods` — `ModifiedTags` is a Go map of
Go maps (one entry per id, one per key).
-/
namespace B6.Props.C18
open B6.Model.ChangeExport
open B6.Model.Mutable (Id Key)
open B6.Model.Mutable.AMap (get)

/-! ## the text layer on whole files -/

def textDocs : List Doc → Except TextErr (List Doc)
  | [] => .ok []
  | d :: r => do
    let d' ← textDoc d
    let r' ← textDocs r
    pure (d' :: r')

/-- every exported document comes out of YAML encoding and decoding as it went in -/
def KindStable (s : St) (ord : List Id) : Prop := ∀ d, d ∈ exportDocs s ord → textDoc d = .ok d

theorem textDocs_of_stable (docs : List Doc) (h : ∀ d, d ∈ docs → textDoc d = .ok d) : textDocs docs = .ok docs := by
  induction docs with
  | nil => rfl
  | cons d r ih =>
    simp only [textDocs, h d List.mem_cons_self, ih (fun x hx => h x (List.mem_cons_of_mem _ hx))]
    rfl

/-- **C18, main theorem.** Export a world `s` (any order `ord` of its overlay features that lists them all —
the order the code picks is one of them), push the documents through the YAML text layer, and apply them to
a fresh world over the same base.  If the documents survive the text layer unchanged (`KindStable`) and
`Apply` gets through them (whatever `AddFeature`'s validation `acc` is), the re-imported world denotes the
same map as the edited one: every id exists in one iff in the other, with the same value under every tag key
and the same body. -/
theorem export_import_refines {b : Base} {acc : St → Feat → Bool} (hb : b.IdsOK)
    {s s' : St} (hs : s.FeatsId) (hm : ModsNodup s.mods) (ord : List Id)
    (hcov : ∀ i, (get s.feats i).isSome → i ∈ ord)
    (hstable : KindStable s ord) {docs : List Doc}
    (htext : textDocs (exportDocs s ord) = .ok docs)
    (himport : importDocs b acc St.empty docs = some s') :
    abs b s' = abs b s := by
  rw [textDocs_of_stable _ hstable] at htext
  cases htext
  rw [(importDocs_refines hb _ St.empty s' featsId_empty himport).1]
  exact export_spec b hs hm ord hcov

/-- read pointwise: lookup, existence, every tag and the body agree -/
theorem export_import_reads {b : Base} {acc : St → Feat → Bool} (hb : b.IdsOK)
    {s s' : St} (hs : s.FeatsId) (hm : ModsNodup s.mods) (ord : List Id)
    (hcov : ∀ i, (get s.feats i).isSome → i ∈ ord)
    (hstable : KindStable s ord) {docs : List Doc}
    (htext : textDocs (exportDocs s ord) = .ok docs)
    (himport : importDocs b acc St.empty docs = some s') (id : Id) :
    ((s'.find b id).isSome = (s.find b id).isSome) ∧
    (∀ k, (s'.find b id).map (fun f => get f.tags k) = (s.find b id).map (fun f => get f.tags k)) ∧
    ((s'.find b id).map (·.body) = (s.find b id).map (·.body)) := by
  have h := congrFun (export_import_refines hb hs hm ord hcov hstable htext himport) id
  simp only [abs] at h
  cases h1 : s'.find b id with
  | none =>
    cases h2 : s.find b id with
    | none => simp
    | some g => simp [h1, h2] at h
  | some f =>
    cases h2 : s.find b id with
    | none => simp [h1, h2] at h
    | some g =>
      simp only [h1, h2, Option.map_some, Option.some.injEq] at h
      refine ⟨rfl, ?_, ?_⟩
      · intro k
        have := congrArg (fun fv => fv.tags k) h
        simpa [viewOf] using this
      · have := congrArg (fun fv => fv.body) h
        simpa [viewOf] using this

/-- in terms of C12's spec (`B6.Spec.World`: feature id ⇀ tag key ⇀ value): a per-feature map that
describes the tag reads of the edited world — under any rendering `toVal` of values — describes those of the
re-imported world too -/
theorem export_import_same_spec_world {b : Base} {acc : St → Feat → Bool} (hb : b.IdsOK)
    {s s' : St} (hs : s.FeatsId) (hm : ModsNodup s.mods) (ord : List Id)
    (hcov : ∀ i, (get s.feats i).isSome → i ∈ ord)
    (hstable : KindStable s ord) {docs : List Doc}
    (htext : textDocs (exportDocs s ord) = .ok docs)
    (himport : importDocs b acc St.empty docs = some s')
    (toVal : V → B6.Model.Mutable.Val) (w : B6.Spec.World.World)
    (hw : ∀ id k, B6.Spec.World.tagOf w id k = ((abs b s id).map (fun fv => fv.tags k)).map (·.map toVal)) :
    ∀ id k, B6.Spec.World.tagOf w id k = ((abs b s' id).map (fun fv => fv.tags k)).map (·.map toVal) := by
  rw [export_import_refines hb hs hm ord hcov hstable htext himport]
  exact hw

/-! ## the standing assumptions hold for every world the code can reach -/

/-- the tables are well-formed initially and after every `AddTag` / `RemoveTag` / accepted `AddFeature` -/
theorem wf_ops {b : Base} (hb : b.IdsOK) {s : St} (h : s.WF) :
    (∀ id t, (s.addTag b id t).WF) ∧ (∀ id k, (s.removeTag b id k).WF) ∧ (∀ f, (s.addFeature b f).WF) :=
  ⟨fun id t => ⟨featsId_addTag hb h.1 id t, modsNodup_addTag h.2 id t⟩,
   fun id k => ⟨featsId_removeTag hb h.1 id k, modsNodup_removeTag h.2 id k⟩,
   fun f => ⟨featsId_addFeature h.1 f, modsNodup_addFeature h.2 f⟩⟩

/-! ## value kinds through the text layer -/

theorem inferAtom_str {l : List Char} {y : String} (h : inferAtom l = .ok (.str y)) : y = String.ofList l := by
  unfold inferAtom at h
  split at h
  · simp at h
  · simp at h
  · split at h
    · simp at h
    · simp at h; exact h.symm

theorem infer_str_eq {x y : String} (h : infer x = .ok (.atom (.str y))) : y = x := by
  unfold infer at h
  split at h
  · split at h <;> simp at h
  · split at h
    · rename_i a ha
      simp at h; subst h
      rw [inferAtom_str ha]; simp
    · simp at h
    · simp at h

/-- **every string value keeps its kind** (after the fixes): a string tag value or collection literal comes
back as the same string, whatever it looks like — a number, a lat,lng, a feature id, a `;`-list, YAML's `null` -/
theorem string_kind_stable (x : String) :
    reinfer (.atom (.str x)) = some (.ok (.atom (.str x))) := by
  simp only [reinfer, encode]
  split
  · rename_i y hy
    have := infer_str_eq hy
    subst this
    by_cases hn : yamlNull y = true
    · simp [decode, hn]
    · simp [decode, hn, hy]
  · simp [decode]

/-- every scalar is stable through the text layer: any string, int, float, point, id -/
theorem atom_kind_stable (a : Atom) : textValue (.atom a) = .ok (.atom a) := by
  cases a with
  | str x => simp only [textValue, string_kind_stable x]
  | int n => rfl
  | flt b =>
    have : reinfer (.atom (.flt b)) = some (.ok (.atom (.flt b))) := by
      simp only [reinfer, encode]
      by_cases hb : integralBits b = true <;> simp [hb, decode]
    simp only [textValue, this]
  | pt la lo => rfl
  | fid t ns v => rfl
  | other x => rfl

/-- value by value: a list is stable if it reads back as itself (`ExpressionFromString` produces such
lists: two or more parts that are strings, points or ids) -/
def ValueStable (v : V) : Prop := textValue v = .ok v

theorem textTags_of_stable (ts : List Tag) (h : ∀ t, t ∈ ts → ValueStable t.2) : textTags ts = .ok ts := by
  induction ts with
  | nil => rfl
  | cons t r ih =>
    obtain ⟨k, v⟩ := t
    have hv : textValue v = .ok v := h (k, v) List.mem_cons_self
    simp only [textTags, hv, ih (fun x hx => h x (List.mem_cons_of_mem _ hx))]
    rfl

theorem textAtom_stable (a : Atom) : textAtom a = .ok a := by
  simp only [textAtom, atom_kind_stable a]

theorem textPairs_stable (es : List (Atom × Atom)) : textPairs es = .ok es := by
  induction es with
  | nil => rfl
  | cons e r ih =>
    obtain ⟨k, v⟩ := e
    simp only [textPairs, textAtom_stable k, textAtom_stable v, ih]
    rfl

theorem textBody_stable (bd : Body) : textBody bd = .ok bd := by
  cases bd with
  | collection es => simp only [textBody, textPairs_stable es]; rfl
  | generic => rfl
  | area ps => rfl
  | relation ms => rfl

/-- `KindStable` follows from the tag values: every value recorded in `ModifiedTags` or carried by an
overlay feature is stable (bodies always are).  With `atom_kind_stable` this covers all worlds whose tag
values are strings, ints, floats, points and ids. -/
theorem kindStable_of_values (s : St) (ord : List Id)
    (hmods : ∀ e, e ∈ s.mods → ∀ t, t ∈ sets e.2 → ValueStable t.2)
    (hfeats : ∀ e, e ∈ s.feats → ∀ t, t ∈ e.2.tags → ValueStable t.2) :
    KindStable s ord := by
  intro d hd
  simp only [exportDocs, List.mem_append] at hd
  rcases hd with hd | hd
  · simp only [exportMods, List.mem_filterMap] at hd
    obtain ⟨e, he, hd⟩ := hd
    split at hd
    · simp at hd
    · simp only [Option.some.injEq] at hd; subst hd
      simp only [textDoc, textTags_of_stable _ (hmods e he)]
      rfl
  · simp only [exportFeats, List.mem_filterMap] at hd
    obtain ⟨id, _, hd⟩ := hd
    cases hg : get s.feats id with
    | none => simp [hg] at hd
    | some f =>
      simp only [hg, Option.map_some, Option.some.injEq] at hd; subst hd
      simp only [textDoc, textTags_of_stable _ (hfeats (id, f) (get_some_mem hg)), textBody_stable]
      rfl

/-! ## when `Apply` gets through -/

/-- **`Apply` gets through iff `applyGetsThrough`** — an executable condition on the exporting world `s`
(with the order its features are listed in): every exported feature is accepted by `AddFeature` in the world
rebuilt from the documents before it.  Then `Apply` leaves exactly the rebuilt world; otherwise it returns
the error. -/
theorem apply_gets_through_of_valid (b : Base) (acc : St → Feat → Bool) (s : St) (ord : List Id)
    (h : applyGetsThrough b acc s ord = true) :
    importDocs b acc St.empty (exportDocs s ord) = some (rebuild b St.empty (exportDocs s ord)) := by
  rw [importDocs_eq]
  unfold applyGetsThrough at h
  simp [h]

theorem apply_fails_of_not_valid (b : Base) (acc : St → Feat → Bool) (s : St) (ord : List Id)
    (h : applyGetsThrough b acc s ord = false) :
    importDocs b acc St.empty (exportDocs s ord) = none := by
  rw [importDocs_eq]
  unfold applyGetsThrough at h
  simp [h]

/-- the predicate spelled out: each exported feature is valid in the world rebuilt from what was exported
before it … -/
theorem applyGetsThrough_iff (b : Base) (acc : St → Feat → Bool) (s : St) (ord : List Id) :
    applyGetsThrough b acc s ord = true ↔
      ∀ d1 f d2, exportDocs s ord = d1 ++ Doc.feat f :: d2 → acc (rebuild b St.empty d1) f = true :=
  docsValid_iff b acc _ _

/-- … and that world is "the base plus the features exported before": it shows what the exporting world
shows for every id except the overlay features still to come (for which it shows the base's version with
the modified tags).  References-first makes it agree with the edited world on everything the feature being
added refers to (`import_no_missing_reference`); it does not make it agree on the feature's referrers or on
the other vertices of a ring — that gap is the finding `import-intermediate-state`. -/
theorem rebuilt_world_at {b : Base} (hb : b.IdsOK) {s : St} (hwf : s.WF)
    (l1 : List Id) (i : Id) (hi : (get s.feats i).isSome → i ∈ l1) :
    abs b (rebuild b St.empty (exportDocs s l1)) i = abs b s i :=
  B6.Model.ChangeExport.rebuilt_world_at hb hwf.1 hwf.2 l1 i hi

/-- **C18 with a checkable hypothesis**: for a well-formed world whose documents are kind-stable and which
satisfies `applyGetsThrough`, `Apply` on the exported file succeeds and the re-imported world denotes the same
map as the edited one. -/
theorem export_import_refines_of_valid {b : Base} {acc : St → Feat → Bool} (hb : b.IdsOK)
    {s : St} (hwf : s.WF) (ord : List Id) (hcov : ∀ i, (get s.feats i).isSome → i ∈ ord)
    (hstable : KindStable s ord) (hvalid : applyGetsThrough b acc s ord = true) :
    ∃ s', textDocs (exportDocs s ord) = .ok (exportDocs s ord) ∧
      importDocs b acc St.empty (exportDocs s ord) = some s' ∧ abs b s' = abs b s := by
  have htext := textDocs_of_stable _ hstable
  have himp := apply_gets_through_of_valid b acc s ord hvalid
  exact ⟨_, htext, himp, export_import_refines hb hwf.1 hwf.2 ord hcov hstable htext himp⟩

/-! ## ordering: references first -/

/-- **ordering lemma.** In any list sorted by a rank that is non-increasing along the list, a feature whose
rank is strictly larger than that of one of its referrers does not come after that referrer: with ranks
rising strictly along references (`rank_lt_of_ref`-style facts, checked on every run for the real ranks),
every reference that is exported precedes its referrer. -/
theorem sorted_refs_first (rk : Id → Nat) (l : List Id) (hsorted : l.Pairwise (fun x y => rk x ≥ rk y))
    (a r : Id) (hrank : rk r > rk a) (l1 l2 : List Id) (hl : l = l1 ++ a :: l2) : r ∉ l2 := by
  intro hr
  subst hl
  have h := List.pairwise_append.mp hsorted
  have h2 := (List.pairwise_cons.mp h.2.1).1 r hr
  omega

/-- **the export rank rises strictly along references**, for overlays whose references are acyclic: there is a
height that drops along every reference of an overlay feature and stays below the closure's fuel (the number
of overlay features + 1).  Paths over points and areas over paths always are; relations and collections that
contain each other are not, and are never validated. -/
theorem rank_lt_of_ref {s : St} {h : Id → Nat} (hh : Height s h) (hb : ∀ t, h t < s.fuel)
    (e : Id × Feat) (he : e ∈ s.feats) (t : Id) (ht : t ∈ refsOf e.2) :
    rank s e.2.id < rank s t :=
  B6.Model.ChangeExport.rank_lt_of_ref hh hb e he t ht

/-- **the exported order puts references first**: in the order the export picks (rank descending), nothing
an overlay feature refers to comes after it -/
theorem export_order_refs_first {s : St} {h : Id → Nat} (hh : Height s h) (hb : ∀ t, h t < s.fuel)
    (e : Id × Feat) (he : e ∈ s.feats) (r : Id) (hr : r ∈ refsOf e.2)
    (l1 l2 : List Id) (hl : exportOrder s = l1 ++ e.2.id :: l2) : r ∉ l2 :=
  sorted_refs_first (rank s) (exportOrder s) (exportOrder_sorted s) e.2.id r
    (rank_lt_of_ref hh hb e he r hr) l1 l2 hl

/-- the main theorem for the order the export picks -/
theorem export_import_refines_exportOrder {b : Base} {acc : St → Feat → Bool} (hb : b.IdsOK)
    {s s' : St} (hwf : s.WF) (hstable : KindStable s (exportOrder s)) {docs : List Doc}
    (htext : textDocs (exportDocs s (exportOrder s)) = .ok docs)
    (himport : importDocs b acc St.empty docs = some s') :
    abs b s' = abs b s :=
  export_import_refines hb hwf.1 hwf.2 (exportOrder s) (exportOrder_covers s) hstable htext himport

/-- **references first ⇒ no missing reference on import.** Take an overlay feature `f` whose own references
resolve in the edited world (it was validated there).  When `Apply` has got through the modified-tag
documents and the feature documents `l1` — which include every exported feature `f` refers to, as the
ordering lemma guarantees for the features listed before `f` — then `f`'s references resolve in the world
being rebuilt as well: `AddFeature` cannot reject `f` for a missing reference.  (What it can still reject `f`
for is the finding `import-intermediate-state`: a referrer of `f`, or S2, in a world that never existed.) -/
theorem import_no_missing_reference {b : Base} {acc : St → Feat → Bool} (hb : b.IdsOK) {s : St} (hwf : s.WF)
    (l1 : List Id) (f : Feat) (ht : f.Typed)
    (hfirst : ∀ r, r ∈ refsOf f → (get s.feats r).isSome → r ∈ l1)
    (hclosed : validateFeature (s.find b) f ≠ .missing)
    {sk : St} (hk : importDocs b acc St.empty (exportDocs s l1) = some sk) :
    validateFeature (sk.find b) f ≠ .missing := by
  have habs := (importDocs_refines hb _ St.empty sk featsId_empty hk).1
  have hr : ∀ r, r ∈ refsOf f → (sk.find b r).map viewOf = (s.find b r).map viewOf := by
    intro r hr
    have := export_spec_at b hwf.1 hwf.2 l1 r (hfirst r hr)
    rw [← habs] at this
    exact this
  intro hm
  exact hclosed ((missing_congr _ _ f ht hr).mp hm)

/-! ## what the text layer does to values that are not stable -/

/-- before the fix every string was written bare: one that looks like a lat,lng came back as a point (with
another rendering, hence under another search token) -/
theorem bare_string_point_counterexample :
    decode (encodeBare (.atom (.str "51.50, -0.120"))) = some (.ok (.atom (.pt "515000000" "-1200000"))) := by
  decide

/-- … one that looks like a feature id as an id -/
theorem bare_string_id_counterexample :
    decode (encodeBare (.atom (.str "/point/ns/1"))) = some (.ok (.atom (.fid 0 "ns" 1))) := by decide

/-- … one that contains `;` as a list -/
theorem bare_string_list_counterexample :
    decode (encodeBare (.atom (.str "a;b"))) = some (.ok (.list [.str "a", .str "b"])) := by decide

/-- a numeric-looking string is safe even bare: `ExpressionFromString` has no number case (and YAML quotes it) -/
example : decode (encodeBare (.atom (.str "123"))) = some (.ok (.atom (.str "123"))) := by decide
example : decode (encodeBare (.atom (.str "1e3"))) = some (.ok (.atom (.str "1e3"))) := by decide
example : decode (encodeBare (.atom (.str "1,2,3"))) = some (.ok (.atom (.str "1,2,3"))) := by decide

/-- the string `null` written bare (as before `fixes/C18-export-null-string.patch`) makes the exported file
undecodable: yaml.v2 treats the scalar as null before `UnmarshalYAML` is reached, quoted or not; written in
the explicit form and read from the generic value it comes back -/
theorem null_string_counterexample :
    decode (encodeBare (.atom (.str "null"))) = none ∧ decode (encodeBare (.atom (.str "~"))) = none ∧
    reinfer (.atom (.str "null")) = some (.ok (.atom (.str "null"))) := by decide

/-- the `sorted` flag the import computes: `b6.Less` compares a float with an int but not an int with a
float, and a string with an int not at all — such neighbours must not make a collection "sorted" (binary
search would compare them and miss): before `fixes/C18-collection-sorted-mixed-keys.patch` the keys
`[-1, 1.0]` passed the one-way test -/
theorem mixed_keys_not_sorted :
    atomLess (.flt "3ff0000000000000") (.int (-1)) = some false ∧ atomLess (.int (-1)) (.flt "3ff0000000000000") = none ∧
    keysSorted [.int (-1), .flt "3ff0000000000000"] = false ∧
    keysSorted [.int 1, .str "a", .int 2] = false ∧
    keysSorted [.int 1, .int 1, .int 2, .int 5] = true ∧
    keysSorted [.flt "3fe0000000000000", .flt "3ff8000000000000", .flt "4004000000000000"] = true := by decide

/-- lists are written as their `;`-joined rendering: a one-element list comes back as a scalar, an int
element as a string (outside the property: such lists are not produced by `ExpressionFromString`) -/
theorem list_kind_counterexample :
    reinfer (.list [.str "a"]) = some (.ok (.atom (.str "a"))) ∧
    reinfer (.list [.int 3, .str "a"]) = some (.ok (.list [.str "3", .str "a"])) := by decide

/-! ## a concrete world: the hypotheses are satisfiable, the findings are real -/

def ptTag (la lo : String) : Tag := ("point", .atom (.pt la lo))
/-- the id atom of a model id (collections are type 5 in the code) -/
def nid (n : Nat) : Atom := .fid (if n / 1000 == 4 then 5 else n / 1000) NS (n % 1000)

def exBaseFeats : List Feat := [
  ⟨1, [ptTag "515370213" "-1250817", ("name", .atom (.str "one"))], .generic⟩,
  ⟨2, [ptTag "515360127" "-1251339"], .generic⟩,
  ⟨3, [ptTag "515359871" "-1240433"], .generic⟩,
  ⟨4, [ptTag "515371049" "-1239671"], .generic⟩,
  ⟨1007, [("path", .list [nid 1, nid 2, nid 3, nid 4, nid 1])], .generic⟩,
  ⟨2009, [], .area [.ids [1007]]⟩,
  ⟨3010, [], .relation [(1, "stop")]⟩,
  ⟨4011, [], .collection [(nid 1, .str "a")]⟩]

def exB : Base := baseOf exBaseFeats

/-- `AddFeature`'s validation with S2 answering "valid" -/
def exAcc (s : St) (f : Feat) : Bool := !(s.validateAdd exB f).isErr

/-- an edit history: plain tag edits on a base point (recorded in `ModifiedTags`), a new point whose name
looks like a feature id, a path over it, a relation over both, a tag that looks like a lat,lng -/
def exS : St :=
  ((((St.empty.addTag exB 1 ("note", .atom (.str "51.5,-0.12"))).removeTag exB 1 "name").addFeature exB
    ⟨21, [ptTag "515380001" "-1260003", ("name", .atom (.str "/point/ns/1"))], .generic⟩).addFeature exB
    ⟨1024, [("path", .list [nid 21, nid 2]), ("#highway", .atom (.str "a;b"))], .generic⟩).addFeature exB
    ⟨3028, [("type", .atom (.int 5))], .relation [(1024, "way"), (21, "stop")]⟩

example : exB.IdsOK := baseOf_idsOK _

example : exS.WF := by
  have h0 := wf_empty
  have h1 := (wf_ops (baseOf_idsOK exBaseFeats) h0).1 1 ("note", .atom (.str "51.5,-0.12"))
  have h2 := (wf_ops (baseOf_idsOK exBaseFeats) h1).2.1 1 "name"
  have h3 := (wf_ops (baseOf_idsOK exBaseFeats) h2).2.2
    ⟨21, [ptTag "515380001" "-1260003", ("name", .atom (.str "/point/ns/1"))], .generic⟩
  have h4 := (wf_ops (baseOf_idsOK exBaseFeats) h3).2.2
    ⟨1024, [("path", .list [nid 21, nid 2]), ("#highway", .atom (.str "a;b"))], .generic⟩
  exact (wf_ops (baseOf_idsOK exBaseFeats) h4).2.2
    ⟨3028, [("type", .atom (.int 5))], .relation [(1024, "way"), (21, "stop")]⟩

/-- the overlay of `exS` is acyclic: points above paths above everything else, below the fuel -/
example : Height exS (fun t => if idType t == 0 then 2 else if idType t == 1 then 1 else 0) ∧
    ∀ t, (fun t => if idType t == 0 then 2 else if idType t == 1 then 1 else 0) t < exS.fuel := by
  constructor
  · unfold Height
    decide
  · intro t
    have : exS.fuel = 4 := by decide
    rw [this]
    simp only
    split
    · omega
    · split <;> omega

/-- the export lists the point before the path before the relation, after the modified-tag document -/
example : exportOrder exS = [21, 1024, 3028] := by decide
example : (exportDocs exS (exportOrder exS)).length = 4 := by decide

/-- the documents survive the text layer … -/
example : (match textDocs (exportDocs exS (exportOrder exS)) with
    | .ok docs => docs == exportDocs exS (exportOrder exS)
    | .error _ => false) = true := by decide

/-- … the world satisfies the checkable condition … -/
example : applyGetsThrough exB exAcc exS (exportOrder exS) = true := by decide

/-- … and the import gets through them, validating every feature as it goes -/
example : (importDocs exB exAcc St.empty (exportDocs exS (exportOrder exS))).isSome = true := by decide

/-- FINDING import-intermediate-state, on the model: the ring 1007 is re-routed away from point 1, then
point 1 loses its location — both edits are accepted.  Point 1 is referred to by a relation and a collection
(rank 2), the ring by the area (rank 1): the export lists point 1 first, and the import rejects it because
the BASE's ring still runs through it.  Importing the ring first would have worked. -/
def exT : St :=
  (St.empty.addFeature exB ⟨1007, [("path", .list [nid 2, nid 3, nid 4, nid 2])], .generic⟩).addFeature exB
    ⟨1, [("name", .atom (.str "gone"))], .generic⟩

theorem intermediate_state_counterexample :
    exAcc St.empty ⟨1007, [("path", .list [nid 2, nid 3, nid 4, nid 2])], .generic⟩ = true ∧
    exAcc (St.empty.addFeature exB ⟨1007, [("path", .list [nid 2, nid 3, nid 4, nid 2])], .generic⟩)
      ⟨1, [("name", .atom (.str "gone"))], .generic⟩ = true ∧
    exportOrder exT = [1, 1007, 2009, 3010, 4011] ∧
    applyGetsThrough exB exAcc exT (exportOrder exT) = false ∧
    importDocs exB exAcc St.empty (exportDocs exT (exportOrder exT)) = none ∧
    (importDocs exB exAcc St.empty (exportDocs exT [1007, 1, 2009, 3010, 4011])).isSome = true := by decide

end B6.Props.C18
