/-! C18 — property theorems (stub: nothing proved yet). -/
