import B6.Model.Validator
import B6.Lemmas.ValidatorPerm
/-!
# C36 — Builds give the same world for any degree of parallelism

The builders are modelled as folds over an *arrival order* (`B6.Model.Validator`): every locked call of
`compact.Validator`, every `AddFeature` of the in-memory builder and every `Reserve` / `WriteItem` of a
`Uint64Map` is one step, and a parallel build with any number of goroutines is some interleaving, i.e.
some permutation of the same arrivals.  The theorems quantify over **all** arrival lists and **all**
permutations of them (no bound on length or on the number of goroutines):

* `validator_emits_spec` — what the validator hands to `emitFeature` is, as a multiset, exactly the valid
  paths plus the areas all of whose paths are present and valid;
* `validator_perm` — hence the same multiset for any two arrival orders (which is also what makes the
  reserve pass and the write pass of `writePathsAreasAndRelations` agree);
* `basic_perm` — the in-memory builder's id map does not depend on the order;
* `map_perm`, `map_fill_perm`, `map_reserve_perm` — a `Uint64Map` written in two different orders answers
  `FindFirstWithTag` identically, `FillTagged` up to entry order, and the bytes reserved per bucket in one
  order are the bytes written per bucket in the other;
* `build_perm` — lookups in the model of the built compact blocks and of the in-memory map are the same
  for any two arrival orders.

Hypothesis throughout: ids are distinct within a source (a source with two features of the same id is
last-writer-wins in both builders, so its result does depend on the schedule; generated sources and OSM
extracts have distinct ids).  Not modelled: the Go scheduler and memory model (C35), string-table ids
(different tables decode to the same strings; tied by the observation dumps), S2.
-/
namespace B6.Props.C36
open B6.Model.Validator B6.Lemmas.ValidatorPerm

/-! ## the validator -/

/-- the emitted multiset is: valid paths ∪ areas all of whose paths are valid and present -/
theorem validator_emits_spec (arr : List Arrival) (hnd : (pathIds arr).Nodup) : (run arr).Perm (spec arr) :=
  run_perm_spec arr hnd

theorem pathIds_eq_filterMap (arr : List Arrival) :
    pathIds arr = arr.filterMap (fun a => match a with | .path id _ => some id | .area _ _ => none) := by
  induction arr with
  | nil => rfl
  | cons a t ih => cases a <;> simp [pathIds, ih]

theorem areasOf_eq_filterMap (arr : List Arrival) :
    areasOf arr = arr.filterMap (fun a => match a with | .path _ _ => none | .area a ps => some (a, ps)) := by
  induction arr with
  | nil => rfl
  | cons a t ih => cases a <;> simp [areasOf, ih]

theorem emittedPaths_eq_filterMap (arr : List Arrival) :
    emittedPaths arr = arr.filterMap (fun a => match a with
      | .path id v => if v = .invalid then none else some (Out.path id) | .area _ _ => none) := by
  induction arr with
  | nil => rfl
  | cons a t ih =>
    cases a with
    | path id v => by_cases h : v = .invalid <;> simp [emittedPaths, h, ih]
    | area a ps => simp [emittedPaths, ih]

theorem mem_of_verdict (arr : List Arrival) (k : Nat) (v : PV) (h : verdict arr k = some v) :
    Arrival.path k v ∈ arr := by
  induction arr with
  | nil => simp [verdict] at h
  | cons a t ih =>
    cases a with
    | path id w =>
      by_cases hid : id = k
      · simp [verdict, hid] at h; subst hid; subst h; simp
      · simp [verdict, hid] at h; exact List.mem_cons_of_mem _ (ih h)
    | area a ps => simp [verdict] at h; exact List.mem_cons_of_mem _ (ih h)

theorem mem_pathIds (arr : List Arrival) (k : Nat) (v : PV) (h : Arrival.path k v ∈ arr) : k ∈ pathIds arr := by
  induction arr with
  | nil => simp at h
  | cons a t ih =>
    cases a with
    | path id w =>
      simp only [List.mem_cons, Arrival.path.injEq] at h
      cases h with
      | inl h => simp [pathIds, h.1]
      | inr h => simp [pathIds, ih h]
    | area a ps =>
      simp only [List.mem_cons, reduceCtorEq, false_or] at h
      simpa [pathIds] using ih h

theorem verdict_of_mem (arr : List Arrival) (hnd : (pathIds arr).Nodup) (k : Nat) (v : PV)
    (h : Arrival.path k v ∈ arr) : verdict arr k = some v := by
  induction arr with
  | nil => simp at h
  | cons a t ih =>
    cases a with
    | path id w =>
      simp only [pathIds, List.nodup_cons] at hnd
      simp only [List.mem_cons, Arrival.path.injEq] at h
      cases h with
      | inl h => simp [verdict, h.1, h.2]
      | inr h =>
        have hk : k ∈ pathIds t := mem_pathIds t k v h
        have : ¬ id = k := fun e => hnd.1 (e ▸ hk)
        simp [verdict, this, ih hnd.2 h]
    | area a ps =>
      simp only [List.mem_cons, reduceCtorEq, false_or] at h
      simpa [verdict] using ih (by simpa [pathIds] using hnd) h

theorem verdict_perm (arr arr' : List Arrival) (hp : arr.Perm arr') (hnd : (pathIds arr).Nodup) :
    verdict arr = verdict arr' := by
  have hnd' : (pathIds arr').Nodup := by
    have : (pathIds arr).Perm (pathIds arr') := by
      rw [pathIds_eq_filterMap, pathIds_eq_filterMap]; exact hp.filterMap _
    exact this.nodup_iff.mp hnd
  funext k
  cases h : verdict arr k with
  | some v => exact (verdict_of_mem arr' hnd' k v (hp.mem_iff.mp (mem_of_verdict arr k v h))).symm
  | none =>
    cases h' : verdict arr' k with
    | none => rfl
    | some v =>
      have := verdict_of_mem arr hnd k v (hp.mem_iff.mpr (mem_of_verdict arr' k v h'))
      rw [h] at this; exact absurd this (by simp)

theorem spec_perm (arr arr' : List Arrival) (hp : arr.Perm arr') (hnd : (pathIds arr).Nodup) :
    (spec arr).Perm (spec arr') := by
  unfold spec
  rw [← verdict_perm arr arr' hp hnd]
  apply List.Perm.append
  · rw [emittedPaths_eq_filterMap, emittedPaths_eq_filterMap]; exact hp.filterMap _
  · apply List.Perm.map
    apply List.Perm.filter
    rw [areasOf_eq_filterMap, areasOf_eq_filterMap]; exact hp.filterMap _

/-- **order independence of the validator**: any two arrival orders of the same paths and areas make it
emit the same multiset of features. -/
theorem validator_perm (arr arr' : List Arrival) (hp : arr.Perm arr') (hnd : (pathIds arr).Nodup) :
    (run arr).Perm (run arr') := by
  have hnd' : (pathIds arr').Nodup := by
    have : (pathIds arr).Perm (pathIds arr') := by
      rw [pathIds_eq_filterMap, pathIds_eq_filterMap]; exact hp.filterMap _
    exact this.nodup_iff.mp hnd
  exact (run_perm_spec arr hnd).trans ((spec_perm arr arr' hp hnd).trans (run_perm_spec arr' hnd').symm)

/-- non-vacuity: an area arriving before its two paths is queued and emitted when the second path arrives;
an area over an invalid path is dropped; the reverse order emits the same set. -/
example :
    run [.area 7 [1, 2], .area 8 [3], .path 1 .valid, .path 3 .invalid, .path 2 .valid]
      = [.path 1, .path 2, .area 7 [1, 2]] ∧
    run [.path 2 .valid, .path 3 .invalid, .path 1 .valid, .area 8 [3], .area 7 [1, 2]]
      = [.path 2, .path 1, .area 7 [1, 2]] := by decide

/-- the validator does depend on the order when two paths share an id (outside the hypothesis) -/
theorem validator_duplicate_ids_counterexample :
    ¬ (run [.path 1 .valid, .area 7 [1], .path 1 .invalid]).Perm
        (run [.path 1 .invalid, .area 7 [1], .path 1 .valid]) := by decide

/-! ## the in-memory builder -/

theorem foldr_setF_some_iff {α} (key : α → Nat) (l : List α) (hnd : (l.map key).Nodup) (k : Nat) (f : α) :
    (l.foldr (fun f m => setF m (key f) f) (fun _ => none)) k = some f ↔ f ∈ l ∧ key f = k := by
  induction l with
  | nil => simp
  | cons a t ih =>
    simp only [List.map_cons, List.nodup_cons] at hnd
    simp only [List.foldr_cons, setF]
    by_cases hk : k = key a
    · simp only [hk, ite_true, Option.some.injEq, List.mem_cons]
      constructor
      · intro h; exact ⟨Or.inl h.symm, by rw [← h]⟩
      · intro ⟨hm, hkey⟩
        cases hm with
        | inl h => exact h.symm
        | inr h => exact absurd (List.mem_map.mpr ⟨f, h, hkey⟩) hnd.1
    · simp only [hk, ite_false, List.mem_cons]
      rw [ih hnd.2]
      constructor
      · intro ⟨hm, hkey⟩; exact ⟨Or.inr hm, hkey⟩
      · intro ⟨hm, hkey⟩
        cases hm with
        | inl h => exact absurd (by rw [← hkey, h]) hk
        | inr h => exact ⟨h, hkey⟩

theorem basicAdd_some_iff {α} (key : α → Nat) (arr : List α) (hnd : (arr.map key).Nodup) (k : Nat) (f : α) :
    basicAdd key arr k = some f ↔ f ∈ arr ∧ key f = k := by
  have h := foldr_setF_some_iff key arr.reverse (by rw [List.map_reverse]; exact (List.reverse_perm _).nodup_iff.mpr hnd) k f
  unfold basicAdd
  rw [List.foldr_reverse] at h
  simpa using h

/-- **order independence of the in-memory builder**: `AddFeature` in any order gives the same id map. -/
theorem basic_perm {α} (key : α → Nat) (arr arr' : List α) (hp : arr.Perm arr') (hnd : (arr.map key).Nodup) (k : Nat) :
    basicAdd key arr k = basicAdd key arr' k := by
  have hnd' : (arr'.map key).Nodup := (hp.map key).nodup_iff.mp hnd
  cases h : basicAdd key arr k with
  | some f =>
    have := (basicAdd_some_iff key arr hnd k f).mp h
    exact ((basicAdd_some_iff key arr' hnd' k f).mpr ⟨hp.mem_iff.mp this.1, this.2⟩).symm
  | none =>
    cases h' : basicAdd key arr' k with
    | none => rfl
    | some f =>
      have := (basicAdd_some_iff key arr' hnd' k f).mp h'
      have := (basicAdd_some_iff key arr hnd k f).mpr ⟨hp.mem_iff.mpr this.1, this.2⟩
      rw [h] at this; exact absurd this (by simp)

example : basicAdd (fun (p : Nat × String) => p.1) [(1, "a"), (2, "b")] 2 = some (2, "b") := by decide

/-- with a repeated id the last arrival wins, so the order shows (outside the hypothesis) -/
theorem basic_duplicate_ids_counterexample :
    basicAdd (fun (p : Nat × String) => p.1) [(1, "a"), (1, "b")] 1 ≠
      basicAdd (fun (p : Nat × String) => p.1) [(1, "b"), (1, "a")] 1 := by decide

/-! ## `Uint64Map`: reserve pass and write pass -/

theorem foldl_writeItem (nb : Nat) (es : List Entry) : ∀ (b0 : Buckets) (i : Nat),
    (es.foldl (writeItem nb) b0) i = b0 i ++ es.filter (fun e => e.id % nb = i) := by
  induction es with
  | nil => intro b0 i; simp
  | cons e t ih =>
    intro b0 i
    rw [List.foldl_cons, ih]
    unfold writeItem
    by_cases h : i = e.id % nb
    · subst h; simp
    · have : ¬ e.id % nb = i := fun x => h x.symm
      simp [h, this]

/-- a bucket holds, in arrival order, exactly the entries whose id falls into it -/
theorem writeAll_bucket (nb : Nat) (es : List Entry) (i : Nat) :
    writeAll nb es i = es.filter (fun e => e.id % nb = i) := by
  unfold writeAll; rw [foldl_writeItem]; simp

theorem foldl_reserveItem (nb : Nat) (hdr : Entry → Nat) (es : List Entry) : ∀ (r0 : Nat → Nat) (i : Nat),
    (es.foldl (reserveItem nb hdr) r0) i = r0 i + bucketBytes hdr (es.filter (fun e => e.id % nb = i)) := by
  induction es with
  | nil => intro r0 i; simp [bucketBytes]
  | cons e t ih =>
    intro r0 i
    rw [List.foldl_cons, ih]
    unfold reserveItem
    by_cases h : i = e.id % nb
    · subst h; simp [bucketBytes]; omega
    · have : ¬ e.id % nb = i := fun x => h x.symm
      simp [h, this]

theorem bucketBytes_perm (hdr : Entry → Nat) (l l' : List Entry) (hp : l.Perm l') : bucketBytes hdr l = bucketBytes hdr l' := by
  induction hp with
  | nil => rfl
  | cons x _ ih => simp only [bucketBytes, List.map_cons, List.sum_cons] at *; omega
  | swap x y l => simp only [bucketBytes, List.map_cons, List.sum_cons]; omega
  | trans _ _ ih1 ih2 => exact ih1.trans ih2

/-- one entry per (id, tag): what the builders emit into a block (a point record, a path, an area …) -/
def UniqueKeys (es : List Entry) : Prop := ∀ x ∈ es, ∀ y ∈ es, x.id = y.id → x.tag = y.tag → x = y

theorem find?_perm_unique {α} (p : α → Bool) (l l' : List α) (hp : l.Perm l')
    (hu : ∀ x ∈ l, ∀ y ∈ l, p x = true → p y = true → x = y) : l.find? p = l'.find? p := by
  cases h : l.find? p with
  | some e =>
    have he : e ∈ l := List.mem_of_find?_eq_some h
    have hpe : p e = true := List.find?_some h
    cases h' : l'.find? p with
    | none =>
      have := List.find?_eq_none.mp h' e (hp.mem_iff.mp he)
      exact absurd hpe this
    | some e' =>
      have he' : e' ∈ l := hp.mem_iff.mpr (List.mem_of_find?_eq_some h')
      rw [hu e he e' he' hpe (List.find?_some h')]
  | none =>
    cases h' : l'.find? p with
    | none => rfl
    | some e' =>
      have := List.find?_eq_none.mp h e' (hp.mem_iff.mpr (List.mem_of_find?_eq_some h'))
      exact absurd (List.find?_some h') this

/-- **lookups do not depend on the write order.** -/
theorem map_perm (nb : Nat) (es es' : List Entry) (hp : es.Perm es') (hu : UniqueKeys es) (id tag : Nat) :
    findFirstWithTag nb (writeAll nb es) id tag = findFirstWithTag nb (writeAll nb es') id tag := by
  unfold findFirstWithTag
  rw [writeAll_bucket, writeAll_bucket]
  congr 1
  apply find?_perm_unique _ _ _ (hp.filter _)
  intro x hx y hy hpx hpy
  have hx' := (List.mem_filter.mp hx).1
  have hy' := (List.mem_filter.mp hy).1
  simp only [decide_eq_true_eq] at hpx hpy
  exact hu x hx' y hy' (by rw [hpx.1, hpy.1]) (by rw [hpx.2, hpy.2])

/-- all entries under one id are the same up to their order (the order is the C09 exception) -/
theorem map_fill_perm (nb : Nat) (es es' : List Entry) (hp : es.Perm es') (id : Nat) :
    (fillTagged nb (writeAll nb es) id).Perm (fillTagged nb (writeAll nb es') id) := by
  unfold fillTagged
  rw [writeAll_bucket, writeAll_bucket]
  exact (hp.filter _).filter _

/-- the bytes the reserve pass sets aside in a bucket (one arrival order) are the bytes the write pass puts
there (another arrival order) — no write beyond the reserved space, no gap. -/
theorem map_reserve_perm (nb : Nat) (hdr : Entry → Nat) (es es' : List Entry) (hp : es.Perm es') (i : Nat) :
    reserveAll nb hdr es i = bucketBytes hdr (writeAll nb es' i) := by
  unfold reserveAll
  rw [foldl_reserveItem, writeAll_bucket]
  simp only [Nat.zero_add]
  exact bucketBytes_perm hdr _ _ (hp.filter _)

example : findFirstWithTag 2 (writeAll 2 [⟨5, 0, [1]⟩, ⟨7, 1, [2]⟩, ⟨7, 0, [3]⟩]) 7 0 = some [3] := by decide

/-- two entries with the same id and tag are told apart by their order (outside the hypothesis) -/
theorem map_duplicate_key_counterexample :
    findFirstWithTag 2 (writeAll 2 [⟨7, 0, [1]⟩, ⟨7, 0, [2]⟩]) 7 0 ≠
      findFirstWithTag 2 (writeAll 2 [⟨7, 0, [2]⟩, ⟨7, 0, [1]⟩]) 7 0 := by decide

/-! ## the built worlds -/

/-- block and id of an emitted feature (paths and areas live in separate blocks) -/
def outKey : Out → Nat × Nat
  | .path id => (0, id)
  | .area a _ => (1, a)

/-- `FindFeatureByID` on the path / area blocks written from what the validator emitted -/
def compactLookup (arr : List Arrival) (k : Nat × Nat) : Option Out := (run arr).find? fun o => outKey o = k

def areaIds (arr : List Arrival) : List Nat := (areasOf arr).map (·.1)

theorem mem_spec_area (arr : List Arrival) (a : Nat) (ps : List Nat) (h : Out.area a ps ∈ spec arr) :
    (a, ps) ∈ areasOf arr := by
  unfold spec at h
  rw [List.mem_append] at h
  cases h with
  | inl h =>
    exfalso
    rw [emittedPaths_eq_filterMap, List.mem_filterMap] at h
    obtain ⟨x, _, hx⟩ := h
    cases x with
    | path id v => by_cases hv : v = .invalid <;> simp [hv] at hx
    | area _ _ => simp at hx
  | inr h =>
    rw [List.mem_map] at h
    obtain ⟨b, hb, hbe⟩ := h
    have := (List.mem_filter.mp hb).1
    simp only [Out.area.injEq] at hbe
    obtain ⟨b1, b2⟩ := b
    simp only at hbe
    rw [← hbe.1, ← hbe.2]; exact this

theorem pair_unique {β} (l : List (Nat × β)) (hnd : (l.map (·.1)).Nodup) (a : Nat) (x y : β)
    (hx : (a, x) ∈ l) (hy : (a, y) ∈ l) : x = y := by
  induction l with
  | nil => simp at hx
  | cons c t ih =>
    simp only [List.map_cons, List.nodup_cons] at hnd
    simp only [List.mem_cons] at hx hy
    cases hx with
    | inl hx =>
      cases hy with
      | inl hy => exact (Prod.mk.inj (hx.trans hy.symm)).2
      | inr hy => exact absurd (List.mem_map.mpr ⟨(a, y), hy, by rw [← hx]⟩) hnd.1
    | inr hx =>
      cases hy with
      | inl hy => exact absurd (List.mem_map.mpr ⟨(a, x), hx, by rw [← hy]⟩) hnd.1
      | inr hy => exact ih hnd.2 hx hy

/-- **observations of the built model worlds do not depend on the arrival order**: looking up any path or
area id in the compact blocks, and any id in the in-memory map, gives the same answer for any two
interleavings of the same source. -/
theorem build_perm (arr arr' : List Arrival) (hp : arr.Perm arr')
    (hnd : (pathIds arr).Nodup) (hna : (areaIds arr).Nodup) :
    (∀ k, compactLookup arr k = compactLookup arr' k) ∧
    (∀ {α} (key : α → Nat) (fs fs' : List α), fs.Perm fs' → (fs.map key).Nodup →
        ∀ k, basicAdd key fs k = basicAdd key fs' k) := by
  refine ⟨?_, fun key fs fs' h1 h2 k => basic_perm key fs fs' h1 h2 k⟩
  intro k
  unfold compactLookup
  apply find?_perm_unique _ _ _ (validator_perm arr arr' hp hnd)
  intro x hx y hy hpx hpy
  have hx' := (run_perm_spec arr hnd).mem_iff.mp hx
  have hy' := (run_perm_spec arr hnd).mem_iff.mp hy
  simp only [decide_eq_true_eq] at hpx hpy
  have hk : outKey x = outKey y := by rw [hpx, hpy]
  cases x with
  | path i =>
    cases y with
    | path j => simp only [outKey, Prod.mk.injEq, true_and] at hk; rw [hk]
    | area b qs => simp [outKey] at hk
  | area a ps =>
    cases y with
    | path j => simp [outKey] at hk
    | area b qs =>
      simp only [outKey, Prod.mk.injEq, true_and] at hk
      subst hk
      have := pair_unique (areasOf arr) hna a ps qs (mem_spec_area arr a ps hx') (mem_spec_area arr a qs hy')
      rw [this]

example : compactLookup [.area 7 [1, 2], .path 1 .valid, .path 2 .valid] (1, 7) = some (.area 7 [1, 2]) ∧
    compactLookup [.path 2 .valid, .area 7 [1, 2], .path 1 .validNotLoop] (1, 7) = none := by decide

end B6.Props.C36
