/-! C36 — property theorems (stub: nothing proved yet). -/
