import B6.Props.Facts.C01
import B6.Props.Facts.C03
import B6.Props.Facts.C04
import B6.Props.Facts.C05
import B6.Props.Facts.C08
import B6.Props.Facts.C09
import B6.Props.Facts.C11
import B6.Props.Facts.C12
import B6.Props.Facts.C17
import B6.Props.Facts.C18
import B6.Props.Facts.C20
import B6.Props.Facts.C21
import B6.Props.Facts.C23
import B6.Props.Facts.C27
import B6.Props.Facts.C29
import B6.Props.Facts.C31
import B6.Props.Facts.C32
import B6.Props.Facts.C33
import B6.Props.Facts.C36
/-!
# T3 fact-extraction tie (DESIGN §1.1) — all properties

`tools/facts` re-extracts, on every `./check Cxx`, the constants and small tables of /repo's current source that the
hand-written model of property `Cxx` hard-codes, into `B6/Gen/Facts/Cxx.lean` (namespace `B6.Gen.Facts.Cxx`).
`B6/Props/Facts/Cxx.lean` proves, one named theorem `B6.Props.Facts.Cxx_<fact>` per fact, that the extracted value is
the one the model uses; those theorems are listed as obligations in `props/Cxx.json`, so a changed constant breaks
a named obligation of the property whose theorems depend on it — and of no other property (one generated file and
one obligations file per property).  This module only collects them.
-/
