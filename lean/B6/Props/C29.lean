import B6.Model.Osm
import B6.Lemmas.Osm
import B6.Model.OsmRings
import B6.Lemmas.OsmRings
/-!
C29 — OSM data maps to features by fixed rules.

About the model `B6/Model/Osm.lean` of `ingest/osm.go` + `ingest/features.go` (`ingest es` = every feature
the OSM feature source emits for the elements `es`, in order). The model mirrors the code after
`fixes/C29-relation-member-area-id.patch` and `fixes/C29-reserved-geometry-keys.patch`.

`osm_rules` is the element-by-element statement of the property; `member_id_rule` is the clause the
unrepaired code broke (`member_id_before_fix_counterexample`); `key_mapping` is the searchable-key table.
`geometry_tags` / `reserved_key_before_fix_counterexample` belong to the second fix
(`fixes/C29-reserved-geometry-keys.patch`: an OSM tag keyed `point` on an open way used to collide with b6's
geometry tag and the way was dropped from the world).
-/
namespace B6.Props.C29
open B6.Model.Pbf (Element Tag Member MType Fail)
open B6.Model.Osm B6.Lemmas.Osm

/-- Searchable tag keys: the 17 `hashKeys` get a `#` prefix, the 3 `atKeys` an `@` prefix, the two keys
reserved for geometry (`point`, `path`) an `osm:` prefix, every other key is kept as it is; no OSM key ends
up on a geometry key. -/
theorem key_mapping (k : String) :
    (keyForOSMKey k = if k ∈ hashKeys then "#" ++ k else if k ∈ atKeys then "@" ++ k
      else if k = "point" ∨ k = "path" then "osm:" ++ k else k) ∧
    keyForOSMKey k ≠ "point" ∧ keyForOSMKey k ≠ "path" :=
  ⟨keyForOSMKey_spec k, keyForOSMKey_not_reserved k⟩

/-- The rules, element by element, for every input and every pair of ID sets:
* a node gives exactly one feature, the point `pointID id`, whose `point` tag is the node's location and
  which carries every OSM tag (key mapped);
* an open way gives exactly one feature, the path `pathID id` whose `path` tag lists its nodes' points in
  order, carrying every OSM tag (key mapped);
* a closed way gives exactly that path with *no* other tag, and the area `wayAreaID id` with the way's tags
  (keys mapped) and the single polygon `[pathID id]`;
* a multipolygon relation gives nothing when one of its way members is not a closed way of the input, and
  otherwise exactly the area `relAreaID id` with the relation's tags whose polygons are non-empty and,
  concatenated, are the relation's way members in order;
* any other relation gives exactly the relation `relID id` with its tags and one member per OSM member,
  same order and role, with the ID `memberID` chooses. -/
theorem osm_rules (s : Sets) :
    (∀ id lat lon tags, ∃ f, featuresOf s (.node id lat lon tags) = [f] ∧ f.id = pointID id ∧
        f.tags.find? (fun t => t.key = "point") = some ⟨"point", .point lat lon⟩ ∧
        ∀ t ∈ tags, ⟨keyForOSMKey t.key, .str t.value⟩ ∈ f.tags) ∧
    (∀ id nodes tags, wayClosed? nodes = some false → ∃ f, featuresOf s (.way id nodes tags) = [f] ∧ f.id = pathID id ∧
        f.tags.find? (fun t => t.key = "path") = some ⟨"path", .ids (nodes.map pointID)⟩ ∧
        ∀ t ∈ tags, ⟨keyForOSMKey t.key, .str t.value⟩ ∈ f.tags) ∧
    (∀ id nodes tags, wayClosed? nodes = some true → featuresOf s (.way id nodes tags) =
        [.generic (pathID id) [⟨"path", .ids (nodes.map pointID)⟩], .area (wayAreaID id) (mapTags tags) [[pathID id]]]) ∧
    (∀ id members tags, isRelationArea tags = true →
        ((∃ m ∈ members, m.type = .way ∧ s.areaWays.contains (u m.id) = false) → featuresOf s (.relation id members tags) = []) ∧
        ((∀ m ∈ members, m.type = .way → s.areaWays.contains (u m.id) = true) →
          ∃ polys : List (List Int64), featuresOf s (.relation id members tags) =
              [.area (relAreaID id) (mapTags tags) (polys.map (·.map pathID))] ∧
            polys.flatten = wayIds members ∧ ∀ p ∈ polys, p ≠ [])) ∧
    (∀ id members tags, isRelationArea tags = false → featuresOf s (.relation id members tags) =
        [.relation (relID id) (mapTags tags) (members.map fun m => (memberID s m, m.role))]) := by
  refine ⟨?_, ?_, ?_, ?_, ?_⟩
  · intro id lat lon tags
    refine ⟨_, rfl, rfl, modifyOrAdd_find _ _ _, ?_⟩
    intro t ht
    exact modifyOrAdd_keeps _ _ _ _ (List.mem_map.mpr ⟨t, ht, rfl⟩) (keyForOSMKey_not_reserved t.key).1
  · intro id nodes tags hc
    refine ⟨.generic (pathID id) (modifyOrAdd "path" (.ids (nodes.map pointID)) (mapTags tags)), ?_, rfl,
      modifyOrAdd_find _ _ _, ?_⟩
    · simp [featuresOf, hc]
    · intro t ht
      exact modifyOrAdd_keeps _ _ _ _ (List.mem_map.mpr ⟨t, ht, rfl⟩) (keyForOSMKey_not_reserved t.key).2
  · intro id nodes tags hc
    simp [featuresOf, hc, modifyOrAdd]
  · intro id members tags ha
    constructor
    · intro hex
      have := (assemble_none (aw := s.areaWays) (P := []) (L := []) (ms := members)).mpr hex
      simp [featuresOf, ha, this]
    · intro hall
      cases hasm : assemble s.areaWays [] [] members with
      | none =>
        obtain ⟨m, hm, hw, hc⟩ := assemble_none.mp hasm
        rw [hall m hm hw] at hc
        cases hc
      | some polys =>
        obtain ⟨h1, h2, _⟩ := assemble_some hasm
        refine ⟨polys, by simp [featuresOf, ha, hasm], by simpa using h1, h2 (by simp)⟩
  · intro id members tags ha
    simp [featuresOf, ha]

/-- **Polygons follow the outer/inner members.** When every way member of a multipolygon relation is a closed
way of the input, its area's polygons are exactly the way members (in order) cut before every member whose role
is `outer` or empty: the cut loses and reorders nothing, no polygon is empty, inside a polygon only the first
member can be an outer one, and every polygon after the first starts with an outer one. -/
theorem multipolygon_cut_rule (s : Sets) (id : Int64) (members : List Member) (tags : List Tag)
    (ha : isRelationArea tags = true) (hall : ∀ m ∈ members, m.type = .way → s.areaWays.contains (u m.id) = true) :
    let W := members.filter (fun m => m.type = .way)
    featuresOf s (.relation id members tags) =
        [.area (relAreaID id) (mapTags tags) ((cut W).map (·.map (pathID ·.id)))] ∧
    (cut W).flatten = W ∧ (∀ p ∈ cut W, p ≠ [] ∧ ∀ m ∈ p.tail, isOuter m = false) ∧
    (∀ p ∈ (cut W).tail, ∃ m t, p = m :: t ∧ isOuter m = true) := by
  intro W
  refine ⟨?_, cut_spec W⟩
  simp only [featuresOf, ha, if_true, assemble_cut s.areaWays members hall, ids, List.map_map]
  congr 2
  apply List.map_congr_left
  intro p _
  simp [Function.comp_def]

/-- The feature source is defined (does not panic) exactly when no way is without nodes, and then its
output is the concatenation, in input order, of what the rules give for each element with the ID sets of
the whole input. -/
theorem ingest_spec (es : List Element) :
    ((∃ fs, ingest es = .ok fs) ↔ ∀ id nodes tags, Element.way id nodes tags ∈ es → nodes ≠ []) ∧
    ∀ s, collect es = .ok s → ingest es = .ok (es.flatMap (featuresOf s)) := by
  constructor
  · rw [← collect_ok_iff]
    unfold ingest
    cases collect es with
    | error e => simp [Except.map]
    | ok s => simp [Except.map]
  · intro s hs
    simp [ingest, hs, Except.map]

/-- **Member IDs are chosen by the member.** With the ID sets of the input: a node member points at the
node's point; a way member at the *area* of that way exactly when the input has a closed way with the
member's ID, otherwise at its path; a relation member at the *area* exactly when the input has a
multipolygon relation with the member's ID, otherwise at the relation. -/
theorem member_id_rule (es : List Element) (s : Sets) (hs : collect es = .ok s) (m : Member) :
    (m.type = .node → memberID s m = pointID m.id) ∧
    (m.type = .way →
      ((∃ nodes tags, Element.way m.id nodes tags ∈ es ∧ wayClosed? nodes = some true) → memberID s m = wayAreaID m.id) ∧
      ((¬ ∃ nodes tags, Element.way m.id nodes tags ∈ es ∧ wayClosed? nodes = some true) → memberID s m = pathID m.id)) ∧
    (m.type = .relation →
      ((∃ members tags, Element.relation m.id members tags ∈ es ∧ isRelationArea tags = true) → memberID s m = relAreaID m.id) ∧
      ((¬ ∃ members tags, Element.relation m.id members tags ∈ es ∧ isRelationArea tags = true) → memberID s m = relID m.id)) := by
  unfold memberID
  refine ⟨fun hm => by simp [hm], fun hm => ?_, fun hm => ?_⟩
  · have := collect_areaWays hs (u m.id)
    constructor
    · rintro ⟨nodes, tags, h1, h2⟩
      have hin : u m.id ∈ s.areaWays := this.mpr ⟨m.id, nodes, tags, h1, h2, rfl⟩
      simp [hm, hin]
    · intro h
      have hnin : ¬ u m.id ∈ s.areaWays := by
        intro hin
        obtain ⟨i, nodes, tags, h1, h2, h3⟩ := this.mp hin
        have := u_inj h3
        subst this
        exact h ⟨nodes, tags, h1, h2⟩
      simp [hm, hnin]
  · have := collect_areaRels hs (u m.id)
    constructor
    · rintro ⟨ms, tags, h1, h2⟩
      have hin : u m.id ∈ s.areaRels := this.mpr ⟨m.id, ms, tags, h1, h2, rfl⟩
      simp [hm, hin]
    · intro h
      have hnin : ¬ u m.id ∈ s.areaRels := by
        intro hin
        obtain ⟨i, ms, tags, h1, h2, h3⟩ := this.mp hin
        have := u_inj h3
        subst this
        exact h ⟨ms, tags, h1, h2⟩
      simp [hm, hnin]

/-- …and the feature a way member points at is really emitted: if the input has a way with the member's
ID, the output has a feature with the member ID — the area when that way is closed. -/
theorem way_member_target_emitted (es : List Element) (fs : List Feature) (h : ingest es = .ok fs)
    (s : Sets) (hs : collect es = .ok s) (m : Member) (hm : m.type = .way)
    (nodes : List Int64) (tags : List Tag) (hw : Element.way m.id nodes tags ∈ es) :
    ∃ f ∈ fs, f.id = memberID s m ∧ (wayClosed? nodes = some true → f.id = wayAreaID m.id) := by
  have hfs := (ingest_spec es).2 s hs
  rw [h] at hfs
  cases hfs
  have hne : nodes ≠ [] := ((ingest_spec es).1.mp ⟨_, h⟩) m.id nodes tags hw
  have hmid := (member_id_rule es s hs m).2.1 hm
  cases hc : wayClosed? nodes with
  | none => cases nodes <;> simp_all [wayClosed?]
  | some c =>
    cases c with
    | true =>
      have hmid := hmid.1 ⟨nodes, tags, hw, hc⟩
      refine ⟨.area (wayAreaID m.id) (mapTags tags) [[pathID m.id]], ?_, hmid.symm, fun _ => rfl⟩
      exact List.mem_flatMap.mpr ⟨_, hw, by simp [featuresOf, hc]⟩
    | false =>
      -- an open way: the member ID is the area only if *another* way with this ID is closed; both exist
      by_cases hex : ∃ nodes tags, Element.way m.id nodes tags ∈ es ∧ wayClosed? nodes = some true
      · obtain ⟨n2, t2, hw2, hc2⟩ := hex
        have hmid := hmid.1 ⟨n2, t2, hw2, hc2⟩
        refine ⟨.area (wayAreaID m.id) (mapTags t2) [[pathID m.id]], ?_, hmid.symm, fun h => by cases h⟩
        exact List.mem_flatMap.mpr ⟨_, hw2, by simp [featuresOf, hc2]⟩
      · have hmid := hmid.2 hex
        refine ⟨.generic (pathID m.id) (modifyOrAdd "path" (.ids (nodes.map pointID)) (mapTags tags)), ?_, hmid.symm,
          fun h => by cases h⟩
        exact List.mem_flatMap.mpr ⟨_, hw, by simp [featuresOf, hc]⟩

/-- What the code did before the fix — it asked the ID sets about the *relation's* ID: nodes 1,2,3, the
closed way 10 = [1,2,3,1], the plain relation 20 with member way 10. The member should be the area of way
10 (`member_id_rule`); the unrepaired choice is its path. -/
theorem member_id_before_fix_counterexample :
    ∃ (es : List Element) (s : Sets) (rid : Int64) (m : Member),
      collect es = .ok s ∧ (∃ ms tags, Element.relation rid ms tags ∈ es ∧ m ∈ ms ∧ isRelationArea tags = false) ∧
      (∃ nodes tags, Element.way m.id nodes tags ∈ es ∧ wayClosed? nodes = some true) ∧
      memberID s m = wayAreaID m.id ∧ memberIDBeforeFix s rid m = pathID m.id ∧ pathID m.id ≠ wayAreaID m.id :=
  ⟨[.node 1 0 0 [], .node 2 0 10 [], .node 3 10 10 [], .way 10 [1, 2, 3, 1] [⟨"building", "yes"⟩],
     .relation 20 [⟨.way, 10, "stop"⟩] [⟨"type", "route"⟩]],
   { areaWays := [u 10], areaRels := [] }, 20, ⟨.way, 10, "stop"⟩,
   by rfl, ⟨[⟨.way, 10, "stop"⟩], [⟨"type", "route"⟩], by decide, by decide, by decide⟩,
   ⟨[1, 2, 3, 1], [⟨"building", "yes"⟩], by decide, by decide⟩, by decide, by decide, by decide⟩

/-! ### the geometry tags (second fix) -/

/-- `Tags.GeometryLen` sees what the element is, whatever its OSM tags: 1 for a node's point, the number of
nodes for a way's path (open or closed) — so `ValidatePath` looks at all the points of every way. -/
theorem geometry_tags (s : Sets) :
    (∀ id lat lon tags, ∀ f ∈ featuresOf s (.node id lat lon tags), geometryLen f.tags = 1) ∧
    (∀ id nodes tags c, wayClosed? nodes = some c →
      ∃ f rest, featuresOf s (.way id nodes tags) = f :: rest ∧ f.id = pathID id ∧ geometryLen f.tags = nodes.length) := by
  have hnone : ∀ tags : List Tag, (mapTags tags).any (fun t => t.key = "point") = false := by
    intro tags
    simp only [mapTags, List.any_map, List.any_eq_false, Function.comp_apply, decide_eq_true_eq]
    intro t _
    exact (keyForOSMKey_not_reserved t.key).1
  constructor
  · intro id lat lon tags f hf
    simp only [featuresOf, List.mem_singleton] at hf
    subst hf
    have : (modifyOrAdd "point" (.point lat lon) (mapTags tags)).any (fun t => t.key = "point") = true := by
      have := modifyOrAdd_find "point" (.point lat lon) (mapTags tags)
      rw [List.any_eq_true]
      exact ⟨_, List.mem_of_find?_eq_some this, by simp⟩
    simp [Feature.tags, geometryLen, this]
  · intro id nodes tags c hc
    cases c with
    | false =>
      refine ⟨.generic (pathID id) (modifyOrAdd "path" (.ids (nodes.map pointID)) (mapTags tags)), [], by simp [featuresOf, hc], rfl, ?_⟩
      simp only [Feature.tags, geometryLen, modifyOrAdd_any_ne "path" "point" _ _ (by decide), hnone, modifyOrAdd_find]
      simp
    | true =>
      refine ⟨.generic (pathID id) [⟨"path", .ids (nodes.map pointID)⟩], _, by simp [featuresOf, hc, modifyOrAdd]; rfl, rfl, ?_⟩
      simp [Feature.tags, geometryLen]

/-- Before the fix the key `point` was kept: the open way 18 = [2, 22, 20] tagged `point=` got a path feature
with a `point` and a `path` tag, geometry length 1 instead of 3 (and the world builder dropped it). -/
theorem reserved_key_before_fix_counterexample :
    keyForOSMKeyBeforeFix "point" = "point" ∧ keyForOSMKey "point" = "osm:point" ∧
    geometryLen (modifyOrAdd "path" (.ids ([2, 22, 20].map pointID)) [⟨keyForOSMKeyBeforeFix "point", .str ""⟩]) = 1 ∧
    geometryLen (modifyOrAdd "path" (.ids ([2, 22, 20].map pointID)) [⟨keyForOSMKey "point", .str ""⟩]) = 3 := by
  decide

/-! ### Ring stitching (`osm/polygons.go`, model `B6/Model/OsmRings.lean`) -/

section Rings
open B6.Model.OsmRings B6.Lemmas.OsmRings

/-- For every way table and member list on which the stitching succeeds: the loops use every member way
exactly once and nothing else, no loop is empty, and in every loop the ways are joined end to end — each way
is entered (forwards or backwards) at the node the previous one was left through. -/
theorem rings_use_each_way_once (ws : List Way) (ms : List Int64) (loops : List (List Int64))
    (h : rings ws ms = .ok loops) :
    loops.flatten.Nodup ∧ (∀ x, x ∈ loops.flatten ↔ x ∈ ms) ∧ (∀ l ∈ loops, l ≠ []) ∧
    (∀ l ∈ loops, isChain ws l = true) := by
  unfold rings at h
  split at h
  · cases h
  · obtain ⟨r1, r2, _, r4, r5⟩ := group_spec h (by simp) (by simp) (by simp) (fun x hx => hx)
    refine ⟨r1, fun x => ⟨r4 x, r2 x⟩, ?_, group_chain h (by simp)⟩
    intro l hl
    rcases r5 l hl with h' | h'
    · cases h'
    · exact h'

/-- **Disjoint cycles ⇒ closed rings.** For an input whose ways form disjoint cycles (`disjointCycles`: distinct
members, every one found with nodes, every end node carrying exactly two member way-ends) every loop the
stitching produces is *closed*: its chain ends at the node it started at. (Parity invariant: at every node the
number of way-ends of ways seen so far is 0 or 2, except 1 at the first node of the loop being built and at the
current joint; when the joint reaches the first node, the only other way there is the start way.) -/
def rings_closed_statement : Prop :=
  ∀ (ws : List Way) (ms : List Int64) (loops : List (List Int64)),
    disjointCycles ws ms = true → rings ws ms = .ok loops → ∀ l ∈ loops, isClosedRing ws l = true

theorem rings_closed_of_disjoint_cycles : rings_closed_statement :=
  fun _ _ _ hc h => rings_closed hc h

/-- a closed ring is a chain that comes back to its first node -/
theorem closed_iff_chain_returns (ws : List Way) (id : Int64) (rest : List Int64) (a b : Int64)
    (he : (findWay ws id).bind ends = some (a, b)) :
    isClosedRing ws (id :: rest) = (thread ws a (id :: rest) == some a) := by
  simp [isClosedRing, he, closedFrom_eq_thread]

/-- Outside the class the loops need not be closed: ways 1 = [1,2], 2 = [2,3], 3 = [3,2] (a lasso) give the one
loop [1, 2, 3], which uses every way once and is a chain, but ends at node 2, not at node 1. -/
theorem rings_lasso_not_closed :
    rings [⟨1, [1, 2]⟩, ⟨2, [2, 3]⟩, ⟨3, [3, 2]⟩] [1, 2, 3] = .ok [[1, 2, 3]] ∧
    isClosedRing [⟨1, [1, 2]⟩, ⟨2, [2, 3]⟩, ⟨3, [3, 2]⟩] [1, 2, 3] = false ∧
    disjointCycles [⟨1, [1, 2]⟩, ⟨2, [2, 3]⟩, ⟨3, [3, 2]⟩] [1, 2, 3] = false := by
  refine ⟨by rfl, by decide, by decide⟩

/-- non-vacuity: two cycles (a triangle of three ways in mixed directions and a single closed way), members
shuffled — in the class, two loops, both closed -/
example :
    let ws : List Way := [⟨1, [1, 5, 2]⟩, ⟨2, [3, 2]⟩, ⟨3, [3, 1]⟩, ⟨4, [7, 8, 9, 7]⟩]
    disjointCycles ws [2, 4, 1, 3] = true ∧ rings ws [2, 4, 1, 3] = .ok [[2, 1, 3], [4]] ∧
    isClosedRing ws [2, 1, 3] = true ∧ isClosedRing ws [4] = true ∧
    loopNodes ws [2, 1, 3] = some [3, 2, 2, 5, 1, 1, 3] := by
  refine ⟨by decide, by rfl, by decide, by decide, by decide⟩

end Rings

/-! Non-vacuity: an input with every kind of element; it is defined, and the relation's members are the
point, the area of the closed way, the path of the open way and the area of the multipolygon. -/

def sample : List Element :=
  [ .node 1 0 0 [⟨"amenity", "cafe"⟩], .node 2 0 10 [], .node 3 10 10 [],
    .way 10 [1, 2, 3, 1] [⟨"building", "yes"⟩], .way 11 [1, 3] [⟨"highway", "path"⟩],
    .relation 30 [⟨.way, 10, "outer"⟩] [⟨"type", "multipolygon"⟩],
    .relation 20 [⟨.node, 1, ""⟩, ⟨.way, 10, "stop"⟩, ⟨.way, 11, ""⟩, ⟨.relation, 30, ""⟩] [⟨"type", "route"⟩] ]

example : (ingest sample).toOption.map (·.length) = some 8 := by decide
example : ∃ s, collect sample = .ok s ∧
    (sample.flatMap (featuresOf s)).getLast? = some (.relation (relID 20) [⟨"type", .str "route"⟩]
      [(pointID 1, ""), (wayAreaID 10, "stop"), (pathID 11, ""), (relAreaID 30, "")]) :=
  ⟨{ areaWays := [u 10], areaRels := [u 30] }, by rfl, by decide⟩
example : assemble [u 1, u 2, u 3] [] [] [⟨.way, 1, "outer"⟩, ⟨.way, 2, "inner"⟩, ⟨.node, 9, ""⟩, ⟨.way, 3, ""⟩] =
    some [[1, 2], [3]] := by decide
example : cut [⟨.way, 1, "outer"⟩, ⟨.way, 2, "inner"⟩, ⟨.way, 3, ""⟩, ⟨.way, 4, "x"⟩] =
    [[⟨.way, 1, "outer"⟩, ⟨.way, 2, "inner"⟩], [⟨.way, 3, ""⟩, ⟨.way, 4, "x"⟩]] := by decide
example : keyForOSMKey "amenity" = "#amenity" ∧ keyForOSMKey "wikidata" = "@wikidata" ∧ keyForOSMKey "name" = "name" := by
  decide

end B6.Props.C29
