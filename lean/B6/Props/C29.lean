/-! C29 — property theorems (stub: nothing proved yet). -/
