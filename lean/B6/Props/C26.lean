import B6.Model.Service
import B6.Spec.ChangeSpec
import B6.Lemmas.Service
/-!
# C26 — Callers are told whether their change was applied

About `B6.Model.Service` (the change branch of `service.Evaluate` and of `Evaluator.EvaluateExpression`,
with `Change.Apply` for `AddFeatures`/`AddTags`/`RemoveTags`/`MergedChange` as written) against
`B6.Spec.ChangeSpec` (`specApply` = the world a successful application produces, `none` = not applicable;
`targets` = the IDs the change names).  All theorems are for every world and every change, of any nesting
depth of `MergedChange`.
-/
namespace B6.Props.C26
open B6.Model.Service B6.Spec.ChangeSpec B6.Lemmas.Service

/-- What `Apply` does, against the reference: it fails exactly when the change is not applicable; when it
succeeds the world is the reference world and the returned IDs are, as a set, the IDs the change names. -/
def ApplyMeets (w : World) (c : Change) : Prop :=
  match specApply w c with
  | some w' => (apply w c).ok = true ∧ (apply w c).world = w' ∧ SameIds (apply w c).ids (targets c)
  | none => (apply w c).ok = false

mutual
theorem apply_meets (w : World) : (c : Change) → ApplyMeets w c
  | .addFeatures fs => by
    unfold ApplyMeets
    have h := addFeatures_loop fs w []
    simp only [specApply, apply, targets]
    cases hs : addFeaturesSpec w fs with
    | none => simp [hs] at h ⊢; exact h
    | some w' =>
      simp [hs] at h ⊢
      refine ⟨h.1, h.2.1, ?_⟩
      intro id; rw [h.2.2 id]; simp
  | .addTags ts => by
    unfold ApplyMeets
    have h := addTags_loop ts w []
    simp only [specApply, apply, targets]
    cases hs : addTagsSpec w ts with
    | none => simp [hs] at h ⊢; exact h
    | some w' =>
      simp [hs] at h ⊢
      refine ⟨h.1, h.2.1, ?_⟩
      intro id; rw [h.2.2]
  | .removeTags ts => by
    unfold ApplyMeets
    have h := removeTags_loop ts w []
    simp only [specApply, apply, targets]
    cases hs : removeTagsSpec w ts with
    | none => simp [hs] at h ⊢; exact h
    | some w' =>
      simp [hs] at h ⊢
      refine ⟨h.1, h.2.1, ?_⟩
      intro id; rw [h.2.2]
  | .merged cs => by
    unfold ApplyMeets
    have hc := canary_meets w cs
    have hp := pass_meets w cs []
    simp only [specApply, apply, targets]
    cases hs : specApplyAll w cs with
    | none => simp [hs] at hc; simp [hc]
    | some w' =>
      simp [hs] at hc hp
      simp [hc]
      refine ⟨hp.1, hp.2.1, ?_⟩
      intro id; rw [hp.2.2 id]
/-- the canary loop passes exactly when the whole sequence is applicable -/
theorem canary_meets (w : World) : (cs : Changes) → canaryOk w cs = (specApplyAll w cs).isSome
  | .nil => by simp [canaryOk, specApplyAll]
  | .cons c cs => by
    have h := apply_meets w c
    unfold ApplyMeets at h
    unfold canaryOk specApplyAll
    cases hs : specApply w c with
    | none => simp [hs] at h; simp [h]
    | some w1 =>
      simp [hs] at h
      simp [h.1, h.2.1]
      exact canary_meets w1 cs
theorem pass_meets (w : World) : (cs : Changes) → (acc : List FId) →
    match specApplyAll w cs with
    | some w' => (mergedPass w cs acc).ok = true ∧ (mergedPass w cs acc).world = w' ∧
        (∀ id, id ∈ (mergedPass w cs acc).ids ↔ id ∈ acc ∨ id ∈ targetsAll cs)
    | none => (mergedPass w cs acc).ok = false
  | .nil, acc => by simp [specApplyAll, mergedPass, targetsAll]
  | .cons c cs, acc => by
    have h := apply_meets w c
    unfold ApplyMeets at h
    unfold specApplyAll mergedPass
    cases hs : specApply w c with
    | none => simp [hs] at h; simp [h]
    | some w1 =>
      simp [hs] at h
      simp only [h.1, ↓reduceIte, h.2.1]
      have ih := pass_meets w1 cs (acc ++ (apply w c).ids)
      cases hs2 : specApplyAll w1 cs with
      | none => simp [hs2] at ih ⊢; exact ih
      | some w2 =>
        simp [hs2] at ih ⊢
        refine ⟨ih.1, ih.2.1, ?_⟩
        intro id
        rw [ih.2.2 id, targetsAll, h.2.2 id]
        simp [or_assoc]
end

mutual
/-- Frame and existence for the reference: a feature the change does not name is what it was; a feature it
names exists afterwards.  (This is what makes `targets` "the features the change modified".) -/
theorem spec_frame (w w' : World) : (c : Change) → specApply w c = some w' →
    (∀ id, id ∉ targets c → find w' id = find w id) ∧
    (∀ id, (find w id).isSome ∨ id ∈ targets c → (find w' id).isSome)
  | .addFeatures fs => by intro h; simp only [specApply] at h; simpa [targets] using addFeaturesSpec_frame fs w w' h
  | .addTags ts => by intro h; simp only [specApply] at h; simpa [targets] using addTagsSpec_frame ts w w' h
  | .removeTags ts => by intro h; simp only [specApply] at h; simpa [targets] using removeTagsSpec_frame ts w w' h
  | .merged cs => by intro h; simp only [specApply] at h; simpa [targets] using spec_frame_all w w' cs h
theorem spec_frame_all (w w' : World) : (cs : Changes) → specApplyAll w cs = some w' →
    (∀ id, id ∉ targetsAll cs → find w' id = find w id) ∧
    (∀ id, (find w id).isSome ∨ id ∈ targetsAll cs → (find w' id).isSome)
  | .nil => by intro h; simp [specApplyAll] at h; subst h; simp [targetsAll]
  | .cons c cs => by
    intro h
    unfold specApplyAll at h
    cases hs : specApply w c with
    | none => simp [hs] at h
    | some w1 =>
      simp [hs] at h
      obtain ⟨f1, e1⟩ := spec_frame w w1 c hs
      obtain ⟨f2, e2⟩ := spec_frame_all w1 w' cs h
      constructor
      · intro id hid
        simp [targetsAll] at hid
        rw [f2 id hid.2, f1 id hid.1]
      · intro id hid
        simp only [targetsAll, List.mem_append] at hid
        apply e2
        rcases hid with hid | hid | hid
        · left; exact e1 id (Or.inl hid)
        · left; exact e1 id (Or.inr hid)
        · right; exact hid
end

/-- The statement of C26 for one evaluator `ev` (a function from the world and the evaluated change to the
world afterwards and the response):
* the response is an error **iff** applying the change failed (the change is not applicable to the world);
* on success the response carries IDs that are, as a set, the features the change names, the world is the
  reference world, every feature outside the returned IDs is untouched and every returned ID exists. -/
def ReportsIff (ev : World → Change → World × Resp) : Prop :=
  ∀ (w : World) (c : Change),
    ((ev w c).2 = Resp.error ↔ specApply w c = none) ∧
    (∀ w', specApply w c = some w' →
      ∃ ids, ev w c = (w', Resp.ids ids) ∧ SameIds ids (targets c) ∧
        (∀ id, id ∉ ids → find w' id = find w id) ∧ (∀ id, id ∈ ids → (find w' id).isSome))

theorem reports_of_meets (ev : World → Change → World × Resp)
    (hev : ∀ w c, ev w c = if (apply w c).ok then ((apply w c).world, Resp.ids (apply w c).ids)
                           else ((apply w c).world, Resp.error)) : ReportsIff ev := by
  intro w c
  have h := apply_meets w c
  unfold ApplyMeets at h
  rw [hev w c]
  cases hs : specApply w c with
  | none => simp [hs] at h; simp [h]
  | some w1 =>
    simp [hs] at h
    simp only [h.1, ↓reduceIte]
    refine ⟨by simp, ?_⟩
    intro w' hw'
    simp at hw'; subst hw'
    obtain ⟨fr, ex⟩ := spec_frame w w1 c hs
    refine ⟨(apply w c).ids, by rw [h.2.1], h.2.2, ?_, ?_⟩
    · intro id hid
      exact fr id (fun hm => hid ((h.2.2 id).2 hm))
    · intro id hid
      exact ex id (Or.inr ((h.2.2 id).1 hid))

/-- gRPC `service.Evaluate` (compatible client version, expression evaluated to the change `c`). -/
theorem grpc_reports_iff : ReportsIff (fun w c => grpcEvaluate true w (.change c)) :=
  reports_of_meets _ (by intro w c; simp [grpcEvaluate])

/-- UI/api `Evaluator.EvaluateExpression` (after the repair). -/
theorem ui_reports_iff : ReportsIff (fun w c => uiEvaluate w (.change c)) :=
  reports_of_meets _ (by intro w c; simp [uiEvaluate])

/-- Outside the change branch both evaluators leave the world alone: incompatible version, evaluation error,
non-change value. -/
theorem no_change_no_write (w : World) (v : Bool) :
    (grpcEvaluate false w (.error)).1 = w ∧ (∀ e, (grpcEvaluate false w e) = (w, Resp.error)) ∧
    (grpcEvaluate v w .error).1 = w ∧ (grpcEvaluate v w .plain).1 = w ∧
    (uiEvaluate w .error) = (w, Resp.error) ∧ (uiEvaluate w .plain) = (w, Resp.plain) := by
  cases v <;> simp [grpcEvaluate, uiEvaluate]

/-- A failed `MergedChange` is reported as an error and leaves the world as it was (the canary). -/
theorem merged_error_world_unchanged (w : World) (cs : Changes) (h : specApply w (.merged cs) = none) :
    grpcEvaluate true w (.change (.merged cs)) = (w, Resp.error) ∧
    uiEvaluate w (.change (.merged cs)) = (w, Resp.error) := by
  have hc := canary_meets w cs
  simp only [specApply] at h
  simp [h] at hc
  simp [grpcEvaluate, uiEvaluate, apply, hc]

/-- The evaluator as it was before the repair swallowed the error: `add-tag` on a missing feature is not
applicable, yet the caller got a (successful) `AppliedChange` with no IDs.  Kept as the record of the defect;
the harness corpus replays this input against the real evaluator. -/
theorem ui_swallowed_error_before_fix :
    ¬ ReportsIff (fun w c => uiEvaluateBeforeFix w (.change c)) := by
  intro h
  have := (h [] (.addTags [(⟨.point, 1⟩, "a", "b")])).1
  exact absurd (this.2 (by decide)) (by decide)

/-! ### the hypotheses are satisfiable / the statements are not vacuous -/

def p1 : Feature := ⟨⟨.point, 1⟩, [("a", "1")], []⟩
def p2 : Feature := ⟨⟨.point, 2⟩, [], []⟩
def way : Feature := ⟨⟨.path, 7⟩, [("#highway", "path")], [⟨.point, 1⟩, ⟨.point, 2⟩]⟩
def good : Change := .merged (.cons (.addFeatures [p2, way]) (.cons (.addTags [(⟨.point, 1⟩, "b", "2")]) .nil))
def bad : Change := .merged (.cons (.addTags [(⟨.point, 1⟩, "b", "2")]) (.cons (.addFeatures [way]) .nil))

example : (grpcEvaluate true [p1] (.change good)).2 = Resp.ids [⟨.point, 2⟩, ⟨.path, 7⟩, ⟨.point, 1⟩] := by decide
example : (specApply [p1] good).isSome = true := by decide
example : specApply [p1] bad = none ∧ grpcEvaluate true [p1] (.change bad) = ([p1], Resp.error) := by decide
example : uiEvaluate [] (.change (.addTags [(⟨.point, 1⟩, "a", "b")])) = ([], Resp.error) := by decide
example : (uiEvaluateBeforeFix [] (.change (.addTags [(⟨.point, 1⟩, "a", "b")]))).2 = Resp.ids [] := by decide
-- a non-atomic failure: the first tag stays although the caller is (rightly) told the change failed
example : grpcEvaluate true [p1] (.change (.addTags [(⟨.point, 1⟩, "b", "2"), (⟨.point, 9⟩, "b", "2")]))
    = ([⟨⟨.point, 1⟩, [("a", "1"), ("b", "2")], []⟩], Resp.error) := by decide

end B6.Props.C26
