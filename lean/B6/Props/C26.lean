import B6.Model.Service
import B6.Spec.ChangeSpec
import B6.Lemmas.Service
/-!
# C26 — Callers are told whether their change was applied

About `B6.Model.Service` (the change branch of `service.Evaluate` and of `Evaluator.EvaluateExpression`,
with `Change.Apply` for `AddFeatures`/`AddTags`/`RemoveTags`/`MergedChange` as written) against
`B6.Spec.ChangeSpec` (`specApply` = the world a successful application produces, `none` = not applicable;
`targets` = the IDs the change names).  All theorems are for every world and every change, of any nesting
depth of `MergedChange`.
-/
set_option linter.unusedSimpArgs false
namespace B6.Props.C26
open B6.Model.Service B6.Spec.ChangeSpec B6.Lemmas.Service

/-- What `Apply` does, against the reference: it fails exactly when the change is not applicable; when it
succeeds the world is the reference world and the returned IDs are, as a set, the IDs the change names. -/
def ApplyMeets (w : World) (c : Change) : Prop :=
  match specApply w c with
  | some w' => (apply false w c).ok = true ∧ (apply false w c).world = w' ∧ SameIds (apply false w c).ids (targets c)
  | none => (apply false w c).ok = false

mutual
theorem apply_meets (w : World) : (c : Change) → ApplyMeets w c
  | .addFeatures fs => by
    unfold ApplyMeets
    have h := addFeatures_loop fs w []
    simp only [specApply, apply, targets, applyAddFeaturesR, applyAddTagsR, applyRemoveTagsR, Bool.false_eq_true, ↓reduceIte]
    cases hs : addFeaturesSpec w fs with
    | none => simp [hs] at h ⊢; exact h
    | some w' =>
      simp [hs] at h ⊢
      refine ⟨h.1, h.2.1, ?_⟩
      intro id; rw [h.2.2 id]; simp
  | .addTags ts => by
    unfold ApplyMeets
    have h := addTags_loop ts w []
    simp only [specApply, apply, targets, applyAddFeaturesR, applyAddTagsR, applyRemoveTagsR, Bool.false_eq_true, ↓reduceIte]
    cases hs : addTagsSpec w ts with
    | none => simp [hs] at h ⊢; exact h
    | some w' =>
      simp [hs] at h ⊢
      refine ⟨h.1, h.2.1, ?_⟩
      intro id; rw [h.2.2]
  | .removeTags ts => by
    unfold ApplyMeets
    have h := removeTags_loop ts w []
    simp only [specApply, apply, targets, applyAddFeaturesR, applyAddTagsR, applyRemoveTagsR, Bool.false_eq_true, ↓reduceIte]
    cases hs : removeTagsSpec w ts with
    | none => simp [hs] at h ⊢; exact h
    | some w' =>
      simp [hs] at h ⊢
      refine ⟨h.1, h.2.1, ?_⟩
      intro id; rw [h.2.2]
  | .merged cs => by
    unfold ApplyMeets
    have hc := canary_meets w cs
    have hp := pass_meets w cs []
    simp only [specApply, apply, targets, applyAddFeaturesR, applyAddTagsR, applyRemoveTagsR, Bool.false_eq_true, ↓reduceIte]
    cases hs : specApplyAll w cs with
    | none => simp [hs] at hc; simp [hc]
    | some w' =>
      simp [hs] at hc hp
      simp [hc]
      refine ⟨hp.1, hp.2.1, ?_⟩
      intro id; rw [hp.2.2 id]
/-- the canary loop passes exactly when the whole sequence is applicable -/
theorem canary_meets (w : World) : (cs : Changes) → canaryOk w cs = (specApplyAll w cs).isSome
  | .nil => by simp [canaryOk, specApplyAll]
  | .cons c cs => by
    have h := apply_meets w c
    unfold ApplyMeets at h
    unfold canaryOk specApplyAll
    cases hs : specApply w c with
    | none => simp [hs] at h; simp [h]
    | some w1 =>
      simp [hs] at h
      simp [h.1, h.2.1]
      exact canary_meets w1 cs
theorem pass_meets (w : World) : (cs : Changes) → (acc : List FId) →
    match specApplyAll w cs with
    | some w' => (mergedPass false w cs acc).ok = true ∧ (mergedPass false w cs acc).world = w' ∧
        (∀ id, id ∈ (mergedPass false w cs acc).ids ↔ id ∈ acc ∨ id ∈ targetsAll cs)
    | none => (mergedPass false w cs acc).ok = false
  | .nil, acc => by simp [specApplyAll, mergedPass, targetsAll]
  | .cons c cs, acc => by
    have h := apply_meets w c
    unfold ApplyMeets at h
    unfold specApplyAll mergedPass
    cases hs : specApply w c with
    | none => simp [hs] at h; simp [h]
    | some w1 =>
      simp [hs] at h
      simp only [h.1, ↓reduceIte, h.2.1]
      have ih := pass_meets w1 cs (acc ++ (apply false w c).ids)
      cases hs2 : specApplyAll w1 cs with
      | none => simp [hs2] at ih ⊢; exact ih
      | some w2 =>
        simp [hs2] at ih ⊢
        refine ⟨ih.1, ih.2.1, ?_⟩
        intro id
        rw [ih.2.2 id, targetsAll, h.2.2 id]
        simp [or_assoc]
end

mutual
/-- Frame and existence for the reference: a feature the change does not name is what it was; a feature it
names exists afterwards.  (This is what makes `targets` "the features the change modified".) -/
theorem spec_frame (w w' : World) : (c : Change) → specApply w c = some w' →
    (∀ id, id ∉ targets c → find w' id = find w id) ∧
    (∀ id, (find w id).isSome ∨ id ∈ targets c → (find w' id).isSome)
  | .addFeatures fs => by intro h; simp only [specApply] at h; simpa [targets] using addFeaturesSpec_frame fs w w' h
  | .addTags ts => by intro h; simp only [specApply] at h; simpa [targets] using addTagsSpec_frame ts w w' h
  | .removeTags ts => by intro h; simp only [specApply] at h; simpa [targets] using removeTagsSpec_frame ts w w' h
  | .merged cs => by intro h; simp only [specApply] at h; simpa [targets] using spec_frame_all w w' cs h
theorem spec_frame_all (w w' : World) : (cs : Changes) → specApplyAll w cs = some w' →
    (∀ id, id ∉ targetsAll cs → find w' id = find w id) ∧
    (∀ id, (find w id).isSome ∨ id ∈ targetsAll cs → (find w' id).isSome)
  | .nil => by intro h; simp [specApplyAll] at h; subst h; simp [targetsAll]
  | .cons c cs => by
    intro h
    unfold specApplyAll at h
    cases hs : specApply w c with
    | none => simp [hs] at h
    | some w1 =>
      simp [hs] at h
      obtain ⟨f1, e1⟩ := spec_frame w w1 c hs
      obtain ⟨f2, e2⟩ := spec_frame_all w1 w' cs h
      constructor
      · intro id hid
        simp [targetsAll] at hid
        rw [f2 id hid.2, f1 id hid.1]
      · intro id hid
        simp only [targetsAll, List.mem_append] at hid
        apply e2
        rcases hid with hid | hid | hid
        · left; exact e1 id (Or.inl hid)
        · left; exact e1 id (Or.inr hid)
        · right; exact hid
end

/-! ### read-only worlds: the real pass fails although the canary accepted -/

theorem elementFree_apply (ro : Bool) : ∀ (w : World) (c : Change), elementFree c = true → apply ro w c = ⟨w, [], true⟩
  | w, .addFeatures fs, h => by
    cases fs with
    | nil => cases ro <;> simp [apply, applyAddFeaturesR, applyAddFeatures]
    | cons _ _ => simp [elementFree] at h
  | w, .addTags ts, h => by
    cases ts with
    | nil => cases ro <;> simp [apply, applyAddTagsR, applyAddTags]
    | cons _ _ => simp [elementFree] at h
  | w, .removeTags ts, h => by
    cases ts with
    | nil => cases ro <;> simp [apply, applyRemoveTagsR, applyRemoveTags]
    | cons _ _ => simp [elementFree] at h
  | w, .merged cs, h => by
    simp only [elementFree] at h
    have hc := elementFree_canary w cs h
    have hp := elementFree_pass ro w cs [] h
    simp [apply, hc, hp]
where
  elementFree_canary : ∀ (w : World) (cs : Changes), elementFreeAll cs = true → canaryOk w cs = true
    | w, .nil, _ => by simp [canaryOk]
    | w, .cons c cs, h => by
      simp only [elementFreeAll, Bool.and_eq_true] at h
      simp [canaryOk, elementFree_apply false w c h.1, elementFree_canary w cs h.2]
  elementFree_pass (ro : Bool) : ∀ (w : World) (cs : Changes) (acc : List FId), elementFreeAll cs = true →
      mergedPass ro w cs acc = ⟨w, acc, true⟩
    | w, .nil, acc, _ => by simp [mergedPass]
    | w, .cons c cs, acc, h => by
      simp only [elementFreeAll, Bool.and_eq_true] at h
      simp [mergedPass, elementFree_apply ro w c h.1, elementFree_pass ro w cs acc h.2]

mutual
/-- on a read-only world `Apply` never changes the world, and succeeds (with no IDs) exactly when the change has no
element — in particular a `MergedChange` whose parts the canary accepted still FAILS in the real pass -/
theorem apply_readonly (w : World) : (c : Change) →
    (apply true w c).world = w ∧ (apply true w c).ok = elementFree c
  | .addFeatures fs => by cases fs <;> simp [apply, applyAddFeaturesR, elementFree]
  | .addTags ts => by cases ts <;> simp [apply, applyAddTagsR, elementFree]
  | .removeTags ts => by cases ts <;> simp [apply, applyRemoveTagsR, elementFree]
  | .merged cs => by
    have hp := pass_readonly w cs []
    simp only [apply, elementFree]
    by_cases hc : canaryOk w cs = true
    · simp [hc, hp]
    · simp only [hc, Bool.false_eq_true, ↓reduceIte, true_and]
      cases he : elementFreeAll cs with
      | false => rfl
      | true => exact absurd (elementFree_apply.elementFree_canary w cs he) hc
theorem pass_readonly (w : World) : (cs : Changes) → (acc : List FId) →
    (mergedPass true w cs acc).world = w ∧ (mergedPass true w cs acc).ok = elementFreeAll cs
  | .nil, acc => by simp [mergedPass, elementFreeAll]
  | .cons c cs, acc => by
    have h := apply_readonly w c
    unfold mergedPass
    by_cases hok : (apply true w c).ok = true
    · simp only [hok, ↓reduceIte, h.1]
      have ih := pass_readonly w cs (acc ++ (apply true w c).ids)
      rw [h.2] at hok
      simp [elementFreeAll, hok, ih]
    · simp only [hok, Bool.false_eq_true, ↓reduceIte, h.1, true_and]
      rw [h.2] at hok
      simp at hok
      simp [elementFreeAll, hok]
end

/-- The statement of C26 for one evaluator `ev` on worlds of kind `ro` (read-only or mutable):
* the response is an error **iff** applying the change to the REAL world failed (`specApplyR ro` = `none`);
* on success the response carries IDs that are, as a set, the features the change names, the world is the
  reference world, every feature outside the returned IDs is untouched and every returned ID exists. -/
def ReportsIff (ro : Bool) (ev : World → Change → World × Resp) : Prop :=
  ∀ (w : World) (c : Change),
    ((ev w c).2 = Resp.error ↔ specApplyR ro w c = none) ∧
    (∀ w', specApplyR ro w c = some w' →
      ∃ ids, ev w c = (w', Resp.ids ids) ∧ SameIds ids (if ro then [] else targets c) ∧
        (∀ id, id ∉ ids → find w' id = find w id) ∧ (∀ id, id ∈ ids → (find w' id).isSome))

theorem reports_of_meets (ro : Bool) (ev : World → Change → World × Resp)
    (hev : ∀ w c, ev w c = if (apply ro w c).ok then ((apply ro w c).world, Resp.ids (apply ro w c).ids)
                           else ((apply ro w c).world, Resp.error)) : ReportsIff ro ev := by
  intro w c
  rw [hev w c]
  cases ro with
  | true =>
    have h := apply_readonly w c
    simp only [specApplyR, ↓reduceIte]
    cases he : elementFree c with
    | false => rw [he] at h; simp [h.2]
    | true =>
      have ha := elementFree_apply true w c he
      simp only [ha, ↓reduceIte]
      refine ⟨by simp, ?_⟩
      intro w' hw'
      simp at hw'; subst hw'
      exact ⟨[], rfl, fun _ => Iff.rfl, fun _ _ => rfl, fun id hid => by simp at hid⟩
  | false =>
    have h := apply_meets w c
    unfold ApplyMeets at h
    simp only [specApplyR, Bool.false_eq_true, ↓reduceIte]
    cases hs : specApply w c with
    | none => simp [hs] at h; simp [h]
    | some w1 =>
      simp [hs] at h
      simp only [h.1, ↓reduceIte]
      refine ⟨by simp, ?_⟩
      intro w' hw'
      simp at hw'; subst hw'
      obtain ⟨fr, ex⟩ := spec_frame w w1 c hs
      refine ⟨(apply false w c).ids, by rw [h.2.1], h.2.2, ?_, ?_⟩
      · intro id hid
        exact fr id (fun hm => hid ((h.2.2 id).2 hm))
      · intro id hid
        exact ex id (Or.inr ((h.2.2 id).1 hid))

/-- gRPC `service.Evaluate` (compatible client version, expression evaluated to the change `c`), on mutable and on
read-only worlds. -/
theorem grpc_reports_iff (ro : Bool) : ReportsIff ro (fun w c => grpcEvaluate true ro w (.change c)) :=
  reports_of_meets ro _ (by intro w c; simp [grpcEvaluate])

/-- UI/api `Evaluator.EvaluateExpression` (after the repair), on mutable and on read-only worlds. -/
theorem ui_reports_iff (ro : Bool) : ReportsIff ro (fun w c => uiEvaluate ro w (.change c)) :=
  reports_of_meets ro _ (by intro w c; simp [uiEvaluate])

/-- Outside the change branch both evaluators leave the world alone: incompatible version, evaluation error,
non-change value. -/
theorem no_change_no_write (w : World) (v ro : Bool) :
    (∀ e, (grpcEvaluate false ro w e) = (w, Resp.error)) ∧
    (grpcEvaluate v ro w .error).1 = w ∧ (grpcEvaluate v ro w .plain).1 = w ∧
    (uiEvaluate ro w .error) = (w, Resp.error) ∧ (uiEvaluate ro w .plain) = (w, Resp.plain) := by
  cases v <;> simp [grpcEvaluate, uiEvaluate]

/-- A failed `MergedChange` is reported as an error and leaves the world as it was — on a mutable world because
the canary rejected it, on a read-only world because the real pass fails at the first element although the canary
accepted it. -/
theorem merged_error_world_unchanged (ro : Bool) (w : World) (cs : Changes)
    (h : specApplyR ro w (.merged cs) = none) :
    grpcEvaluate true ro w (.change (.merged cs)) = (w, Resp.error) ∧
    uiEvaluate ro w (.change (.merged cs)) = (w, Resp.error) := by
  cases ro with
  | false =>
    have hc := canary_meets w cs
    simp only [specApplyR, Bool.false_eq_true, ↓reduceIte, specApply] at h
    simp [h] at hc
    simp [grpcEvaluate, uiEvaluate, apply, hc]
  | true =>
    have ha := apply_readonly w (.merged cs)
    simp only [specApplyR, ↓reduceIte] at h
    have he : elementFree (.merged cs) = false := by
      cases hx : elementFree (Change.merged cs) with
      | false => rfl
      | true => simp [hx] at h
    rw [he] at ha
    simp [grpcEvaluate, uiEvaluate, ha.1, ha.2]

/-- The evaluator as it was before the repair swallowed the error: `add-tag` on a missing feature is not
applicable, yet the caller got a (successful) `AppliedChange` with no IDs.  Kept as the record of the defect;
the harness corpus replays this input against the real evaluator. -/
theorem ui_swallowed_error_before_fix :
    ¬ ReportsIff false (fun w c => uiEvaluateBeforeFix false w (.change c)) := by
  intro h
  have := (h [] (.addTags [(⟨.point, 1⟩, "a", "b")])).1
  exact absurd (this.2 (by decide)) (by decide)

/-- **A `MergedChange.Apply` that trusts the canary** (`applyUnchecked`: the second loop does not look at the error
of a part) breaks the statement on a read-only world: `merge-changes` of one `add-tag` on an existing feature is
accepted by the canary, rejected by the real world, and reported as applied with an empty ID collection — while
the same `add-tag` alone is reported as an error. -/
theorem unchecked_merge_reports_success_on_readonly :
    let w : World := [⟨⟨.point, 1⟩, [], []⟩]
    let tag : Change := .addTags [(⟨.point, 1⟩, "a", "b")]
    specApplyR true w (.merged (.cons tag .nil)) = none ∧
    applyUnchecked true w (.merged (.cons tag .nil)) = ⟨w, [], true⟩ ∧
    (apply true w (.merged (.cons tag .nil))).ok = false ∧ (apply true w tag).ok = false := by decide

/-! ### the hypotheses are satisfiable / the statements are not vacuous -/

def p1 : Feature := ⟨⟨.point, 1⟩, [("a", "1")], []⟩
def p2 : Feature := ⟨⟨.point, 2⟩, [], []⟩
def way : Feature := ⟨⟨.path, 7⟩, [("#highway", "path")], [⟨.point, 1⟩, ⟨.point, 2⟩]⟩
def good : Change := .merged (.cons (.addFeatures [p2, way]) (.cons (.addTags [(⟨.point, 1⟩, "b", "2")]) .nil))
def bad : Change := .merged (.cons (.addTags [(⟨.point, 1⟩, "b", "2")]) (.cons (.addFeatures [way]) .nil))

example : (grpcEvaluate true false [p1] (.change good)).2 = Resp.ids [⟨.point, 2⟩, ⟨.path, 7⟩, ⟨.point, 1⟩] := by decide
example : (specApply [p1] good).isSome = true := by decide
example : specApply [p1] bad = none ∧ grpcEvaluate true false [p1] (.change bad) = ([p1], Resp.error) := by decide
example : uiEvaluate false [] (.change (.addTags [(⟨.point, 1⟩, "a", "b")])) = ([], Resp.error) := by decide
example : (uiEvaluateBeforeFix false [] (.change (.addTags [(⟨.point, 1⟩, "a", "b")]))).2 = Resp.ids [] := by decide
-- a non-atomic failure: the first tag stays although the caller is (rightly) told the change failed
example : grpcEvaluate true false [p1] (.change (.addTags [(⟨.point, 1⟩, "b", "2"), (⟨.point, 9⟩, "b", "2")]))
    = ([⟨⟨.point, 1⟩, [("a", "1"), ("b", "2")], []⟩], Resp.error) := by decide
-- read-only: the canary accepts `good`, the real world rejects it; an element-free change "applies"
example : canaryOk [p1] (.cons (.addFeatures [p2, way]) (.cons (.addTags [(⟨.point, 1⟩, "b", "2")]) .nil)) = true ∧
    grpcEvaluate true true [p1] (.change good) = ([p1], Resp.error) ∧
    uiEvaluate true [p1] (.change (.merged (.cons (.addTags []) .nil))) = ([p1], Resp.ids []) := by decide

end B6.Props.C26
