/-! C26 — property theorems (stub: nothing proved yet). -/
