/-! C28 — property theorems (stub: nothing proved yet). -/
