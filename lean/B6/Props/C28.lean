import B6.Lemmas.ProtoEachItem
import B6.Lemmas.ProtoFeed
import B6.Lemmas.ProtoPbf
import B6.Lemmas.ProtoMeasure
/-!
# C28 — a callback error stops streaming and is reported

Per protocol `P` (models in `B6/Model/Proto/*.lean`, one interleaving transition system each, for ANY number of
goroutines, any item list and any set of failing callbacks; no bound on the schedule):

* `P_error_reported` — in every reachable terminal state, if some callback returned an error the function
  returns an error;
* `P_no_deadlock`    — every reachable non-terminal state has an enabled step;
* `P_worker_stops` / `P_prompt` — a goroutine whose callback failed runs no further callback; once the
  feeder has seen the cancellation at most `capacity` further items are started.

The three protocols that were defective in the unchanged tree (`EachItem`, `MemoryFeatureSource.Read`,
`ReadPBFWithOptions`) are modelled AFTER the fixes in `/verif/fixes/C28-*.patch`; the models of the code before
the fixes are kept as `…Old` with `…_counterexample` theorems (explicit schedules, checked by `decide`).
-/
namespace B6.Props.C28
open B6.Model.Proto

/-! ## `encoding.Uint64Map.EachItem` (repaired) -/
section EachItem
open B6.Model.Proto.EachItem

/-- If a callback returned an error, `EachItem` returns an error (for every goroutine count, bucket layout,
failing set and schedule). -/
theorem eachitem_error_reported (c : Cfg) (s : St) (h : Reachable (step c) (init c) s)
    (r : Bool) (hr : s.ret = some r) (hf : s.failed = true) : r = true := by
  have I := inv_reachable h
  obtain ⟨e, hall⟩ := I.ret r hr
  rcases I.err hf with hc | ⟨i, hi⟩
  · rw [e, hc]
  · have := hall _ (List.mem_of_getElem? hi); cases this

/-- … and it only returns an error that a callback produced. -/
theorem eachitem_error_genuine (c : Cfg) (s : St) (h : Reachable (step c) (init c) s)
    (hr : s.ret = some true) : s.failed = true := by
  have key : ∀ s, Reachable (step c) (init c) s →
      (s.cause = true → s.failed = true) ∧ (∀ i : Nat, s.ws[i]? = some W.failing → s.failed = true) ∧
      (∀ r, s.ret = some r → r = s.cause) := by
    intro s h
    refine Reachable.invariant (fun s : St => (s.cause = true → s.failed = true) ∧
      (∀ i : Nat, s.ws[i]? = some W.failing → s.failed = true) ∧ (∀ r, s.ret = some r → r = s.cause)) ?_ ?_ s h
    · refine ⟨by simp [init], ?_, by simp [init]⟩
      intro i hi; simp only [init, List.getElem?_replicate] at hi; split at hi <;> simp at hi
    · rintro s s' ⟨h1, h2, h3⟩ hm
      obtain ⟨hr, hm⟩ := mem_step.mp hm
      have hret : ∀ r, s.ret = some r → r = s.cause := h3
      rcases hm with ⟨i, hl, hw, rfl⟩ | ⟨hl, ht, rfl⟩ | ⟨hc, hl, rfl⟩ | ⟨hc, ha, rfl⟩ | ⟨i, w, hw, hm⟩
      · refine ⟨h1, ?_, h3⟩
        intro j hj; simp only [hand] at hj
        rcases getElem?_set_some hj with ⟨_, e⟩ | ⟨_, e⟩
        · split at e <;> cases e
        · exact h2 j e
      · exact ⟨h1, h2, h3⟩
      · exact ⟨h1, h2, h3⟩
      · exact ⟨h1, h2, by intro r e; simpa using e.symm⟩
      · cases w with
        | idle =>
          simp only [workerStep, mem_guard] at hm; obtain ⟨_, rfl⟩ := hm
          refine ⟨h1, ?_, h3⟩
          intro j hj
          rcases getElem?_set_some hj with ⟨_, e⟩ | ⟨_, e⟩
          · cases e
          · exact h2 j e
        | busy k j =>
          simp only [workerStep] at hm
          split at hm
          · simp only [List.mem_singleton] at hm; subst hm
            exact ⟨fun _ => rfl, fun _ _ => rfl, h3⟩
          · split at hm <;> (simp only [List.mem_singleton] at hm; subst hm)
            · refine ⟨h1, ?_, h3⟩
              intro j' hj
              rcases getElem?_set_some hj with ⟨_, e⟩ | ⟨_, e⟩
              · cases e
              · exact h2 j' e
            · refine ⟨h1, ?_, h3⟩
              intro j' hj
              rcases getElem?_set_some hj with ⟨_, e⟩ | ⟨_, e⟩
              · cases e
              · exact h2 j' e
        | failing =>
          simp only [workerStep, List.mem_singleton] at hm; subst hm
          refine ⟨fun _ => h2 i hw, ?_, ?_⟩
          · intro j' hj
            rcases getElem?_set_some hj with ⟨_, e⟩ | ⟨_, e⟩
            · cases e
            · exact h2 j' e
          · intro r e; rw [hr] at e; cases e
        | exited => simp [workerStep] at hm
  obtain ⟨h1, _, h3⟩ := key s h
  exact h1 (h3 true hr).symm

/-- No reachable state is deadlocked: while `EachItem` has not returned, some goroutine can take a step. -/
theorem eachitem_no_deadlock (c : Cfg) (hg : 0 < c.g) (s : St) (h : Reachable (step c) (init c) s)
    (ht : terminal s = false) : step c s ≠ [] := by
  have I := inv_reachable h
  have hr : s.ret = none := by
    simp only [terminal] at ht; cases e : s.ret <;> simp_all
  suffices ∃ s', s' ∈ step c s by
    obtain ⟨s', hs'⟩ := this; intro e; rw [e] at hs'; cases hs'
  by_cases hall : allExited s
  · by_cases hc : s.closed = true
    · exact ⟨_, mem_step.mpr ⟨hr, Or.inr (Or.inr (Or.inr (Or.inl ⟨hc, hall, rfl⟩)))⟩⟩
    · have hc : s.closed = false := by simpa using hc
      by_cases hl : inLoop c s
      · -- every worker has left: the cancel channel holds a token
        have h0 : 0 < s.ws.length := by rw [I.len]; exact hg
        have : s.ws[0]? = some W.exited := by
          rw [List.getElem?_eq_getElem h0]; congr 1; exact hall _ (List.getElem_mem h0)
        have ht := I.tok hc hl.2.1 ⟨0, this⟩
        exact ⟨_, mem_step.mpr ⟨hr, Or.inr (Or.inl ⟨hl, ht, rfl⟩)⟩⟩
      · exact ⟨_, mem_step.mpr ⟨hr, Or.inr (Or.inr (Or.inl ⟨hc, hl, rfl⟩))⟩⟩
  · -- some worker has not left
    have : ∃ w ∈ s.ws, w ≠ W.exited := by
      simp only [allExited] at hall
      exact Classical.not_forall.mp hall |>.imp fun w hw => Classical.not_imp.mp hw
    obtain ⟨w, hw, hne⟩ := this
    obtain ⟨i, hi⟩ := List.mem_iff_getElem?.mp hw
    have wstep : ∀ s', s' ∈ workerStep c s i w → s' ∈ step c s := fun s' hs' =>
      mem_step.mpr ⟨hr, Or.inr (Or.inr (Or.inr (Or.inr ⟨i, w, hi, hs'⟩)))⟩
    cases w with
    | idle =>
      by_cases hc : s.closed = true
      · exact ⟨_, wstep _ (by simp [workerStep, hc]; rfl)⟩
      · have hc : s.closed = false := by simpa using hc
        by_cases hl : inLoop c s
        · exact ⟨_, mem_step.mpr ⟨hr, Or.inl ⟨i, hl, hi, rfl⟩⟩⟩
        · exact ⟨_, mem_step.mpr ⟨hr, Or.inr (Or.inr (Or.inl ⟨hc, hl, rfl⟩))⟩⟩
    | busy k j =>
      by_cases hf : c.fails k j = true
      · exact ⟨_, wstep _ (by simp [workerStep, hf]; rfl)⟩
      · by_cases hj : j + 1 < c.size k
        · exact ⟨_, wstep _ (by simp [workerStep, hf, hj]; rfl)⟩
        · exact ⟨_, wstep _ (by simp [workerStep, hf, hj]; rfl)⟩
    | failing => exact ⟨_, wstep _ (by simp [workerStep]; rfl)⟩
    | exited => exact (hne rfl).elim

/-- A goroutine whose callback failed (or that has left) never runs a callback again — in any state. -/
theorem eachitem_worker_stops (c : Cfg) (s s' : St) (h : s' ∈ step c s) (i : Nat)
    (hi : s.ws[i]? = some W.failing ∨ s.ws[i]? = some W.exited) :
    s'.ws[i]? = some W.failing ∨ s'.ws[i]? = some W.exited := by
  obtain ⟨_, h⟩ := mem_step.mp h
  have other : ∀ (j : Nat) (x : W), j ≠ i →
      (s.ws.set j x)[i]? = some W.failing ∨ (s.ws.set j x)[i]? = some W.exited := by
    intro j x hj; rw [List.getElem?_set_ne hj]; exact hi
  rcases h with ⟨j, hl, hw, rfl⟩ | ⟨hl, ht, rfl⟩ | ⟨hc, hl, rfl⟩ | ⟨hc, ha, rfl⟩ | ⟨j, w, hw, h⟩
  · exact other j _ (by rintro rfl; rcases hi with e | e <;> (rw [hw] at e; cases e))
  · exact hi
  · exact hi
  · exact hi
  · by_cases hj : j = i
    · subst hj
      rcases hi with e | e <;> (rw [hw] at e; cases e)
      · simp only [workerStep, List.mem_singleton] at h; subst h
        exact Or.inr (getElem?_set_self' hw)
      · simp [workerStep] at h
    · cases w with
      | idle => simp only [workerStep, mem_guard] at h; obtain ⟨_, rfl⟩ := h; exact other j _ hj
      | busy k j' =>
        simp only [workerStep] at h
        split at h
        · simp only [List.mem_singleton] at h; subst h; exact other j _ hj
        · split at h <;> (simp only [List.mem_singleton] at h; subst h; exact other j _ hj)
      | failing => simp only [workerStep, List.mem_singleton] at h; subst h; exact other j _ hj
      | exited => simp [workerStep] at h

/-- Promptness: once the feeder has taken the cancel token (`break feed`), no bucket is handed out any more —
every bucket a worker is busy with afterwards it was already busy with (the channel is unbuffered). -/
theorem eachitem_prompt (c : Cfg) (s s' : St) (h : s' ∈ step c s) (hs : s.stopped = true) :
    s'.stopped = true ∧ s'.next = s.next ∧
    ∀ (i k j : Nat), s'.ws[i]? = some (W.busy k j) → ∃ j', s.ws[i]? = some (W.busy k j') := by
  obtain ⟨_, h⟩ := mem_step.mp h
  have keep : ∀ (j : Nat) (x : W), (∀ k j', x = W.busy k j' → ∃ j'', s.ws[j]? = some (W.busy k j'')) →
      ∀ (i k j' : Nat), (s.ws.set j x)[i]? = some (W.busy k j') → ∃ j'', s.ws[i]? = some (W.busy k j'') := by
    intro j x hx i k j' hi
    rcases getElem?_set_some hi with ⟨rfl, e⟩ | ⟨_, e⟩
    · exact hx k j' e.symm
    · exact ⟨j', e⟩
  rcases h with ⟨j, hl, hw, rfl⟩ | ⟨hl, ht, rfl⟩ | ⟨hc, hl, rfl⟩ | ⟨hc, ha, rfl⟩ | ⟨j, w, hw, h⟩
  · exact absurd hl.2.1 (by simp [hs])
  · exact absurd hl.2.1 (by simp [hs])
  · exact ⟨hs, rfl, fun i k j h => ⟨j, h⟩⟩
  · exact ⟨hs, rfl, fun i k j h => ⟨j, h⟩⟩
  · cases w with
    | idle =>
      simp only [workerStep, mem_guard] at h; obtain ⟨_, rfl⟩ := h
      exact ⟨hs, rfl, keep j _ (by intro k j' e; cases e)⟩
    | busy k j' =>
      simp only [workerStep] at h
      split at h
      · simp only [List.mem_singleton] at h; subst h
        exact ⟨hs, rfl, keep j _ (by intro k j' e; cases e)⟩
      · split at h <;> (simp only [List.mem_singleton] at h; subst h)
        · exact ⟨hs, rfl, keep j _ (by intro k2 j2 e; cases e; exact ⟨j', hw⟩)⟩
        · exact ⟨hs, rfl, keep j _ (by intro k j' e; cases e)⟩
    | failing =>
      simp only [workerStep, List.mem_singleton] at h; subst h
      exact ⟨hs, rfl, keep j _ (by intro k j' e; cases e)⟩
    | exited => simp [workerStep] at h

/-- Termination: every step strictly decreases `EachItem.measure` (from ANY state), so there is no livelock … -/
theorem eachitem_terminates (c : Cfg) (s s' : St) (h : s' ∈ step c s) : measure c s' < measure c s :=
  measure_step h

/-- … no schedule is longer than the measure of its first state, and (with `eachitem_no_deadlock`) a run that can
go no further has returned. -/
theorem eachitem_schedule_bounded (c : Cfg) (sched : List Nat) (s s' : St)
    (h : runSched (step c) s sched = some s') : sched.length + measure c s' ≤ measure c s :=
  runSched_bounded (step c) (measure c) (fun _ _ => measure_step) sched s s' h

/-- `P_stops`: a run of `EachItem` that can take no further step has returned; if a callback failed it returned an
error; and once the feeder had left its loop no further bucket was handed out (`eachitem_prompt`). -/
theorem eachitem_stops (c : Cfg) (hg : 0 < c.g) (s : St) (h : Reachable (step c) (init c) s) (hd : step c s = []) :
    ∃ r, s.ret = some r ∧ (s.failed = true → r = true) := by
  cases hr : s.ret with
  | none => exact absurd hd (eachitem_no_deadlock c hg s h (by simp [terminal, hr]))
  | some r => exact ⟨r, rfl, fun hf => eachitem_error_reported c s h r hr hf⟩

/-- non-vacuity: 1 goroutine, 3 buckets of one id, the first callback fails — the schedule that deadlocked the
old code now ends with the error returned. -/
def exCfg : Cfg := { g := 1, n := 3, size := fun _ => 1, fails := fun k _ => k == 0 }
example : ∃ s, Reachable (step exCfg) (init exCfg) s ∧ s.ret = some true ∧ s.failed = true :=
  ⟨_, Reachable.of_runSched [0, 0, 0, 0, 0, 0] _ _ .refl rfl, by decide⟩
example : terminal (init exCfg) = false ∧ 0 < exCfg.g := by decide

end EachItem

/-! ## `MemoryFeatureSource.Read` (repaired; `watch = true`), `eachIngestFeature` and
`ModifiedTags.EachModifiedTag` (`watch = false`) — theorems for either value of `watch` -/
section Feed
open B6.Model.Proto.Feed

theorem feed_error_reported (c : Cfg) (s : St) (h : Reachable (step c) (init c) s)
    (r : Bool) (hr : s.ret = some r) (hf : s.failed = true) : r = true := by
  have I := inv_reachable h
  obtain ⟨e, hall⟩ := I.ret r hr
  rcases I.err hf with hc | ⟨i, hi⟩
  · rw [e, hc]
  · have := hall _ (List.mem_of_getElem? hi); cases this

theorem feed_no_deadlock (c : Cfg) (hg : 0 < c.g) (s : St) (h : Reachable (step c) (init c) s)
    (ht : terminal s = false) : step c s ≠ [] := by
  have I := inv_reachable h
  have hr : s.ret = none := by
    simp only [terminal] at ht; cases e : s.ret <;> simp_all
  suffices ∃ s', s' ∈ step c s by
    obtain ⟨s', hs'⟩ := this; intro e; rw [e] at hs'; cases hs'
  by_cases hall : allExited s
  · by_cases hc : s.closed = true
    · exact ⟨_, mem_step.mpr ⟨hr, Or.inr (Or.inr (Or.inr (Or.inl ⟨hc, hall, rfl⟩)))⟩⟩
    · have hc : s.closed = false := by simpa using hc
      by_cases hl : inLoop c s
      · -- every worker has left although the channel is open: the context is cancelled
        have h0 : 0 < s.ws.length := by rw [I.len]; exact hg
        have e0 : s.ws[0]? = some W.exited := by
          rw [List.getElem?_eq_getElem h0]; congr 1; exact hall _ (List.getElem_mem h0)
        have hcan : s.cancelled = true := by
          cases hcc : s.cancelled with
          | true => rfl
          | false => exact absurd e0 (I.live hc hcc 0)
        exact ⟨_, mem_step.mpr ⟨hr, Or.inr (Or.inl ⟨hl, hcan, rfl⟩)⟩⟩
      · exact ⟨_, mem_step.mpr ⟨hr, Or.inr (Or.inr (Or.inl ⟨hc, hl, rfl⟩))⟩⟩
  · have : ∃ w ∈ s.ws, w ≠ W.exited := by
      simp only [allExited] at hall
      exact Classical.not_forall.mp hall |>.imp fun w hw => Classical.not_imp.mp hw
    obtain ⟨w, hw, hne⟩ := this
    obtain ⟨i, hi⟩ := List.mem_iff_getElem?.mp hw
    have wstep : ∀ s', s' ∈ workerStep c s i w → s' ∈ step c s := fun s' hs' =>
      mem_step.mpr ⟨hr, Or.inr (Or.inr (Or.inr (Or.inr (Or.inr ⟨i, w, hi, hs'⟩))))⟩
    cases w with
    | idle =>
      cases hq : s.queue with
      | cons k q => exact ⟨_, wstep _ (by simp [workerStep, recv, hq]; right; rfl)⟩
      | nil =>
        by_cases hc : s.closed = true
        · exact ⟨_, wstep _ (by simp [workerStep, recv, hq, hc]; right; rfl)⟩
        · have hc : s.closed = false := by simpa using hc
          by_cases hl : inLoop c s
          · exact ⟨_, mem_step.mpr ⟨hr, Or.inl ⟨hl, by simp [hq, hg], rfl⟩⟩⟩
          · exact ⟨_, mem_step.mpr ⟨hr, Or.inr (Or.inr (Or.inl ⟨hc, hl, rfl⟩))⟩⟩
    | busy k =>
      by_cases hf : c.fails k = true
      · exact ⟨_, wstep _ (by simp [workerStep, hf]; rfl)⟩
      · exact ⟨_, wstep _ (by simp [workerStep, hf]; rfl)⟩
    | failing => exact ⟨_, wstep _ (by simp [workerStep]; rfl)⟩
    | exited => exact (hne rfl).elim

/-- A goroutine whose callback failed never runs a callback again. -/
theorem feed_worker_stops (c : Cfg) (s s' : St) (h : s' ∈ step c s) (i : Nat)
    (hi : s.ws[i]? = some W.failing ∨ s.ws[i]? = some W.exited) :
    s'.ws[i]? = some W.failing ∨ s'.ws[i]? = some W.exited := by
  obtain ⟨_, h⟩ := mem_step.mp h
  rcases h with ⟨_, _, rfl⟩ | ⟨_, _, rfl⟩ | ⟨_, _, rfl⟩ | ⟨_, _, rfl⟩ | ⟨_, _, rfl⟩ | ⟨j, w, hw, h⟩
  · exact hi
  · exact hi
  · exact hi
  · exact hi
  · exact hi
  · have other : ∀ x : W, j ≠ i →
        (s.ws.set j x)[i]? = some W.failing ∨ (s.ws.set j x)[i]? = some W.exited := by
      intro x hj; rw [List.getElem?_set_ne hj]; exact hi
    by_cases hj : j = i
    · subst hj
      rcases mem_workerStep h with ⟨rfl, _, _, rfl⟩ | ⟨rfl, k, q, hq, rfl⟩ | ⟨rfl, hq, hc, rfl⟩ |
        ⟨k, rfl, hf, rfl⟩ | ⟨k, rfl, hf, rfl⟩ | ⟨rfl, rfl⟩
      all_goals first
        | exact Or.inr (getElem?_set_self' hw)
        | (rcases hi with e | e <;> (rw [hw] at e; cases e))
    · rcases mem_workerStep h with ⟨rfl, _, _, rfl⟩ | ⟨rfl, k, q, hq, rfl⟩ | ⟨rfl, hq, hc, rfl⟩ |
        ⟨k, rfl, hf, rfl⟩ | ⟨k, rfl, hf, rfl⟩ | ⟨rfl, rfl⟩
      all_goals exact other _ hj

/-- Promptness: after the producer has seen the cancellation, at most `g` (the capacity of the channel)
further items are received by the callback goroutines. -/
theorem feed_prompt (c : Cfg) (s : St) (h : Reachable (step c) (init c) s) : s.late ≤ c.g := by
  have := (inv_reachable h).cap; omega

theorem feed_terminates (c : Cfg) (s s' : St) (h : s' ∈ step c s) : measure c s' < measure c s :=
  measure_step h

theorem feed_schedule_bounded (c : Cfg) (sched : List Nat) (s s' : St)
    (h : runSched (step c) s sched = some s') : sched.length + measure c s' ≤ measure c s :=
  runSched_bounded (step c) (measure c) (fun _ _ => measure_step) sched s s' h

/-- `P_stops` for `Read` / `eachIngestFeature` / `EachModifiedTag` — also when the caller's context is cancelled by
the environment at an arbitrary step (`c.ext = true`): a run that can take no further step has returned; if a
callback failed it returned an error; and at most `g` items reached a callback goroutine after the producer had
seen the cancellation. -/
theorem feed_stops (c : Cfg) (hg : 0 < c.g) (s : St) (h : Reachable (step c) (init c) s) (hd : step c s = []) :
    ∃ r, s.ret = some r ∧ (s.failed = true → r = true) ∧ s.late ≤ c.g := by
  cases hr : s.ret with
  | none => exact absurd hd (feed_no_deadlock c hg s h (by simp [terminal, hr]))
  | some r => exact ⟨r, rfl, fun hf => feed_error_reported c s h r hr hf, feed_prompt c s h⟩

def exFeed (watch : Bool) : Cfg := { g := 1, n := 3, fails := fun k => k == 0, watch := watch }
example : ∃ s, Reachable (step (exFeed true)) (init (exFeed true)) s ∧ s.ret = some true ∧ s.failed = true :=
  ⟨_, Reachable.of_runSched [0, 0, 0, 0, 0, 0, 0, 0] _ _ .refl rfl, by decide⟩

/-- non-vacuity of `ext`: nothing fails, the caller cancels after the first callback: `Read` stops, having passed
only that one feature to the callback — and returns nil (it does not report the cancellation; see notes/C28.md). -/
def exFeedExt : Cfg := { g := 1, n := 3, fails := fun _ => false, watch := true, ext := true }
example : ∃ s, Reachable (step exFeedExt) (init exFeedExt) s ∧ s.ret = some false ∧ s.calls = 1 ∧ s.next < 3 :=
  ⟨_, Reachable.of_runSched [0, 0, 0, 0, 1, 0, 0, 0] _ _ .refl rfl, by decide⟩

end Feed

/-! ## `osm.ReadPBFWithOptions` (repaired) -/
section Pbf
open B6.Model.Proto.Pbf

theorem pbf_error_reported (c : Cfg) (s : St) (h : Reachable (step c) (init c) s)
    (r : Bool) (hr : s.ret = some r) (hf : s.failed = true) : r = true := by
  have I := inv_reachable h
  obtain ⟨e, hall⟩ := I.ret r hr
  rcases I.err hf with hc | ⟨i, hi⟩
  · rw [e, hc]
  · have := hall _ (List.mem_of_getElem? hi); cases this

private theorem exists_idle {ws : List W} (h1 : ∀ w ∈ ws, w = W.idle ∨ w = W.exited)
    (h2 : ws.countP isExited < ws.length) : ∃ i : Nat, ws[i]? = some W.idle := by
  have : ¬ ∀ w ∈ ws, isExited w = true := by
    intro hall; have := List.countP_eq_length.mpr hall; omega
  obtain ⟨w, hw⟩ := Classical.not_forall.mp this
  obtain ⟨hm, hne⟩ := Classical.not_imp.mp hw
  rcases h1 w hm with rfl | rfl
  · exact List.mem_iff_getElem?.mp hm
  · exact (hne rfl).elim

theorem pbf_no_deadlock (c : Cfg) (hg : 0 < c.g) (s : St) (h : Reachable (step c) (init c) s)
    (ht : terminal s = false) : step c s ≠ [] := by
  have I := inv_reachable h
  have hr : s.ret = none := by
    simp only [terminal] at ht; cases e : s.ret <;> simp_all
  suffices ∃ s', s' ∈ step c s by
    obtain ⟨s', hs'⟩ := this; intro e; rw [e] at hs'; cases hs'
  have wstep : ∀ (i : Nat) (w : W) (s' : St), s.ws[i]? = some w → s' ∈ workerStep c s i w → s' ∈ step c s := fun i w s' hi hs' =>
    mem_step.mpr ⟨hr, Or.inr (Or.inr ⟨i, w, hi, hs'⟩)⟩
  have rstep : ∀ s', s' ∈ readerStep c s → s' ∈ step c s := fun s' hs' => mem_step.mpr ⟨hr, Or.inl hs'⟩
  -- a worker that is in the middle of a blob can always move
  by_cases hbusy : ∃ (i : Nat) (w : W), s.ws[i]? = some w ∧ w ≠ W.idle ∧ w ≠ W.exited
  · obtain ⟨i, w, hi, h1, h2⟩ := hbusy
    cases w with
    | idle => exact (h1 rfl).elim
    | exited => exact (h2 rfl).elim
    | failing => exact ⟨_, wstep i _ _ hi (by simp [workerStep]; rfl)⟩
    | busy k j =>
      by_cases hf : c.fails k j = true
      · exact ⟨_, wstep i _ _ hi (by simp [workerStep, hf]; rfl)⟩
      · by_cases hj : j + 1 < c.size k
        · exact ⟨_, wstep i _ _ hi (by simp [workerStep, hf, hj]; rfl)⟩
        · exact ⟨_, wstep i _ _ hi (by simp [workerStep, hf, hj]; rfl)⟩
  have hie : ∀ w ∈ s.ws, w = W.idle ∨ w = W.exited := by
    intro w hw
    obtain ⟨i, hi⟩ := List.mem_iff_getElem?.mp hw
    by_cases h1 : w = W.idle
    · exact Or.inl h1
    · by_cases h2 : w = W.exited
      · exact Or.inr h2
      · exact (hbusy ⟨i, w, hi, h1, h2⟩).elim
  -- an idle worker can take whatever is at the head of the channel
  have recvStep : ∀ i : Nat, s.ws[i]? = some W.idle → s.queue ≠ [] → ∃ s', s' ∈ step c s := by
    intro i hi hq
    cases hq' : s.queue with
    | nil => exact (hq hq').elim
    | cons m q =>
      cases m with
      | data k => exact ⟨_, wstep i _ _ hi (by simp [workerStep, recv, hq']; right; rfl)⟩
      | done => exact ⟨_, wstep i _ _ hi (by simp [workerStep, recv, hq']; right; rfl)⟩
  cases hcan : s.cancelled with
  | true =>
    by_cases hidle : ∃ i : Nat, s.ws[i]? = some W.idle
    · obtain ⟨i, hi⟩ := hidle
      exact ⟨_, wstep i _ _ hi (by simp [workerStep, hcan]; left; rfl)⟩
    · have hall : allExited s := by
        intro w hw
        rcases hie w hw with rfl | rfl
        · exact (hidle (List.mem_iff_getElem?.mp hw)).elim
        · rfl
      cases hrd : s.rd with
      | reading =>
        by_cases hn : s.next < c.n
        · exact ⟨_, rstep _ (by simp [readerStep, hrd, hn, hcan]; right; rfl)⟩
        · exact ⟨_, rstep _ (by simp [readerStep, hrd, hn]; rfl)⟩
      | sending j =>
        by_cases hj : j < c.g
        · exact ⟨_, rstep _ (by simp [readerStep, hrd, hj, hcan]; right; rfl)⟩
        · exact ⟨_, rstep _ (by simp [readerStep, hrd, hj]; rfl)⟩
      | finished => exact ⟨_, mem_step.mpr ⟨hr, Or.inr (Or.inl ⟨hrd, hall, rfl⟩)⟩⟩
  | false =>
    have hcnt := I.cnt hcan
    have hlen := I.len
    cases hrd : s.rd with
    | reading =>
      by_cases hn : s.next < c.n
      · by_cases hq : s.queue.length < c.g
        · exact ⟨_, rstep _ (by simp [readerStep, hrd, hn, hq]; left; rfl)⟩
        · -- the channel is full and nobody has left: a worker takes the head
          rw [hrd] at hcnt; simp only [doneSent] at hcnt
          obtain ⟨i, hi⟩ := exists_idle hie (by omega)
          exact recvStep i hi (by intro e; rw [e] at hq; simp at hq; omega)
      · exact ⟨_, rstep _ (by simp [readerStep, hrd, hn]; rfl)⟩
    | sending j =>
      by_cases hj : j < c.g
      · by_cases hq : s.queue.length < c.g
        · exact ⟨_, rstep _ (by simp [readerStep, hrd, hj, hq]; left; rfl)⟩
        · rw [hrd] at hcnt; simp only [doneSent] at hcnt
          obtain ⟨i, hi⟩ := exists_idle hie (by omega)
          exact recvStep i hi (by intro e; rw [e] at hq; simp at hq; omega)
      · exact ⟨_, rstep _ (by simp [readerStep, hrd, hj]; rfl)⟩
    | finished =>
      by_cases hall : allExited s
      · exact ⟨_, mem_step.mpr ⟨hr, Or.inr (Or.inl ⟨hrd, hall, rfl⟩)⟩⟩
      · -- a worker is still waiting, so its done-blob is still in the channel
        rw [hrd] at hcnt; simp only [doneSent] at hcnt
        have hlt : s.ws.countP isExited < s.ws.length := by
          have hle := List.countP_le_length (p := isExited) (l := s.ws)
          rcases Nat.lt_or_ge (s.ws.countP isExited) s.ws.length with h | h
          · exact h
          · exfalso; apply hall
            have := List.countP_eq_length.mp (Nat.le_antisymm hle h)
            intro w hw
            have hx := this w hw
            cases w with
            | exited => rfl
            | idle => cases hx
            | busy k j => cases hx
            | failing => cases hx
        obtain ⟨i, hi⟩ := exists_idle hie hlt
        exact recvStep i hi (by intro e; rw [e] at hcnt; simp at hcnt; omega)

theorem pbf_worker_stops (c : Cfg) (s s' : St) (h : s' ∈ step c s) (i : Nat)
    (hi : s.ws[i]? = some W.failing ∨ s.ws[i]? = some W.exited) :
    s'.ws[i]? = some W.failing ∨ s'.ws[i]? = some W.exited := by
  obtain ⟨_, h⟩ := mem_step.mp h
  rcases h with h | ⟨_, _, rfl⟩ | ⟨j, w, hw, h⟩
  · rcases mem_readerStep h with ⟨_, _, _, rfl⟩ | ⟨_, _, _, rfl⟩ | ⟨_, _, rfl⟩ |
      ⟨_, _, _, _, rfl⟩ | ⟨_, _, _, _, rfl⟩ | ⟨_, _, _, rfl⟩ <;> exact hi
  · exact hi
  · have other : ∀ x : W, j ≠ i →
        (s.ws.set j x)[i]? = some W.failing ∨ (s.ws.set j x)[i]? = some W.exited := by
      intro x hj; rw [List.getElem?_set_ne hj]; exact hi
    by_cases hj : j = i
    · subst hj
      rcases mem_workerStep h with ⟨rfl, _, rfl⟩ | ⟨rfl, k, q, hq, rfl⟩ | ⟨rfl, q, hq, rfl⟩ |
        ⟨k, j', rfl, hf, rfl⟩ | ⟨k, j', x, rfl, hf, hx, rfl⟩ | ⟨rfl, rfl⟩
      all_goals first
        | exact Or.inr (getElem?_set_self' hw)
        | (rcases hi with e | e <;> (rw [hw] at e; cases e))
    · rcases mem_workerStep h with ⟨rfl, _, rfl⟩ | ⟨rfl, k, q, hq, rfl⟩ | ⟨rfl, q, hq, rfl⟩ |
        ⟨k, j', rfl, hf, rfl⟩ | ⟨k, j', x, rfl, hf, hx, rfl⟩ | ⟨rfl, rfl⟩
      all_goals exact other _ hj

/-- Promptness: after `readBlobs` has seen the cancellation, at most `g` (the capacity of the channel) further
data blobs are taken by the workers. -/
theorem pbf_prompt (c : Cfg) (s : St) (h : Reachable (step c) (init c) s) : s.late ≤ c.g := by
  have := (inv_reachable h).cap; omega

theorem pbf_terminates (c : Cfg) (s s' : St) (h : s' ∈ step c s) : measure c s' < measure c s :=
  measure_step h

theorem pbf_schedule_bounded (c : Cfg) (sched : List Nat) (s s' : St)
    (h : runSched (step c) s sched = some s') : sched.length + measure c s' ≤ measure c s :=
  runSched_bounded (step c) (measure c) (fun _ _ => measure_step) sched s s' h

/-- `P_stops` for `ReadPBFWithOptions`. -/
theorem pbf_stops (c : Cfg) (hg : 0 < c.g) (s : St) (h : Reachable (step c) (init c) s) (hd : step c s = []) :
    ∃ r, s.ret = some r ∧ (s.failed = true → r = true) ∧ s.late ≤ c.g := by
  cases hr : s.ret with
  | none => exact absurd hd (pbf_no_deadlock c hg s h (by simp [terminal, hr]))
  | some r => exact ⟨r, rfl, fun hf => pbf_error_reported c s h r hr hf, pbf_prompt c s h⟩

def exPbf : Cfg := { g := 1, n := 3, size := fun k => if k == 0 then 0 else 1, fails := fun k _ => k == 1 }
example : ∃ s, Reachable (step exPbf) (init exPbf) s ∧ s.ret = some true ∧ s.failed = true :=
  ⟨_, Reachable.of_runSched [0, 0, 0, 0, 0, 0, 0, 0, 0, 0, 0] _ _ .refl rfl, by decide⟩

end Pbf

/-! ## What "promptly" cannot mean

`select` picks among its ready arms at random, and the goroutine that failed may be descheduled before it
cancels; under the demonic scheduler of the model the feeder can therefore go on handing out items for as long
as it has any, so the strict bound "at most g + capacity callbacks start after the first failure" is NOT a
theorem of the (repaired) protocols.  What is proved instead: the failing goroutine itself stops
(`…_worker_stops`), and once the feeder has observed the cancellation at most `capacity` further items are
started (`…_prompt`).  The real code's `select` is fair, so it stops after an expected O(1) further sends;
the correspondence run records the measured numbers. -/
section Strict
open B6.Model.Proto.EachItem

def eachitem_prompt_strict_statement (c : Cfg) : Prop :=
  ∀ s, Reachable (step c) (init c) s → s.after ≤ c.g

def exStrict : Cfg := { g := 2, n := 12, size := fun _ => 1, fails := fun k _ => k == 0 }

theorem eachitem_prompt_strict_counterexample : ¬ eachitem_prompt_strict_statement exStrict := by
  intro h
  have hr : ∃ s, Reachable (step exStrict) (init exStrict) s ∧ s.after = 8 :=
    ⟨_, Reachable.of_runSched [0, 0, 0, 0, 1, 0, 1, 0, 1, 0, 1, 0, 1, 0, 1, 0, 1, 0, 0, 0, 0] _ _ .refl rfl, by decide⟩
  obtain ⟨s, hs, ha⟩ := hr
  have := h s hs
  rw [ha] at this
  exact absurd this (by decide)

end Strict

/-! ## The code before the fixes (`…Old` models): the defects, as explicit schedules -/
section Old

/-- `EachItem`, 1 goroutine, 3 buckets, the callback fails on the first: the only worker leaves, the feeder eats
the single cancel token for bucket 1 (its `break` only leaves the select) and blocks forever offering bucket 2.
Observed on the real code as a hang (harness corpus). -/
theorem eachitem_deadlock_counterexample :
    ∃ s, Reachable (EachItemOld.step ⟨1, 3, fun _ => 1, fun k _ => k == 0, fun _ _ => true⟩)
        (EachItemOld.init ⟨1, 3, fun _ => 1, fun k _ => k == 0, fun _ _ => true⟩) s ∧
      deadlocked (EachItemOld.step ⟨1, 3, fun _ => 1, fun k _ => k == 0, fun _ _ => true⟩) EachItemOld.terminal s = true :=
  ⟨_, Reachable.of_runSched [0, 0, 0, 0] _ _ .refl rfl, by decide⟩

/-- `EachItem`, one bucket with two ids, the callback fails once on the first id: the trailing `f(...)` runs on
that id again, succeeds, overwrites `err`, and `EachItem` returns nil although a callback failed. -/
theorem eachitem_error_lost_counterexample :
    ∃ s, Reachable (EachItemOld.step ⟨1, 1, fun _ => 2, fun _ j => j == 0, fun _ _ => false⟩)
        (EachItemOld.init ⟨1, 1, fun _ => 2, fun _ j => j == 0, fun _ _ => false⟩) s ∧
      s.ret = some false ∧ s.failed = true :=
  ⟨_, Reachable.of_runSched [0, 0, 0, 0, 0, 0] _ _ .refl rfl, by decide⟩

/-- `MemoryFeatureSource.Read`, 1 goroutine, 3 features, the callback fails on the first: the feeder leaves on
`ctx.Done()`, the producer blocks on the full channel. Observed on the real code as a hang. -/
theorem memread_deadlock_counterexample :
    ∃ s, Reachable (FeedOld.step ⟨1, 3, fun k => k == 0⟩) (FeedOld.init ⟨1, 3, fun k => k == 0⟩) s ∧
      deadlocked (FeedOld.step ⟨1, 3, fun k => k == 0⟩) FeedOld.terminal s = true :=
  ⟨_, Reachable.of_runSched [0, 0, 0, 0, 0, 0] _ _ .refl rfl, by decide⟩

/-- … and the goroutine whose callback failed went on to call it for the next feature. -/
theorem memread_worker_continues_counterexample :
    ∃ s, Reachable (FeedOld.step ⟨1, 3, fun k => k == 0⟩) (FeedOld.init ⟨1, 3, fun k => k == 0⟩) s ∧
      s.cause = true ∧ s.ws = [FeedOld.W.busy 1] :=
  ⟨_, Reachable.of_runSched [0, 0, 0, 0, 0, 1] _ _ .refl rfl, by decide⟩

/-- `ReadPBFWithOptions`, 1 core, header + 2 data blobs, the callback fails in the first data blob: the worker
leaves on `ctx.Done()` with the second blob still in the channel, the reader blocks sending its done-blob.
Observed on the real code as a hang. -/
theorem pbf_deadlock_counterexample :
    ∃ s, Reachable (PbfOld.step ⟨1, 3, fun k => if k == 0 then 0 else 1, fun k _ => k == 1⟩)
        (PbfOld.init ⟨1, 3, fun k => if k == 0 then 0 else 1, fun k _ => k == 1⟩) s ∧
      deadlocked (PbfOld.step ⟨1, 3, fun k => if k == 0 then 0 else 1, fun k _ => k == 1⟩) PbfOld.terminal s = true :=
  ⟨_, Reachable.of_runSched [0, 0, 0, 0, 0, 0, 0, 0, 0] _ _ .refl rfl, by decide⟩

/-- … and the worker whose callback failed went on to read the next blob. -/
theorem pbf_worker_continues_counterexample :
    ∃ s, Reachable (PbfOld.step ⟨1, 3, fun k => if k == 0 then 0 else 1, fun k _ => k == 1⟩)
        (PbfOld.init ⟨1, 3, fun k => if k == 0 then 0 else 1, fun k _ => k == 1⟩) s ∧
      s.oerr = true ∧ s.ws = [PbfOld.W.busy 2 0] :=
  ⟨_, Reachable.of_runSched [0, 0, 0, 0, 0, 0, 0, 0, 1] _ _ .refl rfl, by decide⟩

end Old

end B6.Props.C28
