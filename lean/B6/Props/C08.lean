/-! C08 — property theorems (stub: nothing proved yet). -/
