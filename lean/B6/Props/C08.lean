import B6.Model.Posting
import B6.Lemmas.Posting
import B6.Lemmas.PostingTable
import B6.Lemmas.PostingAdvance
import B6.Lemmas.PostingAdvance2
import B6.Lemmas.PostingMarshal
import B6.Spec.Cursor
/-!
# C08 — Posting lists decode to exactly the IDs encoded

Theorems about `B6.Model.Posting` (the model of `PostingListEncoder.Append` / `PostingList.Fill` /
`Iterator.Next` / `Iterator.Advance` in ingest/compact/encoding.go), for **every** id list that is strictly
increasing in `(TypeAndNamespace, value)` — any length, any number of namespaces, any 64-bit values, hence any
varint widths, block splits and paddings.

An id is `(TypeAndNamespace, value)`; `ValidIds` = values `< 2^64` and `TypeAndNamespace ≠ 0`
(0 is point/`""`, the invalid namespace, which the encoder takes for "no namespace seen yet").
-/
namespace B6.Props.C08
open B6.Model.Posting B6.Model.Varint
open B6.Spec.Cursor (Cursor Call runSpec)

/-! ## Next: the encoded list iterates to exactly the ids encoded -/

/-- **posting_roundtrip**: calling `Next` until it returns false on the posting list built by `Fill` yields
exactly the ids given — for every valid strictly increasing id list. -/
theorem posting_roundtrip (token : Bytes) (ids : List Id) (hv : ValidIds ids) (hs : SortedIds ids) :
    drain (fill token ids) = some ids ∧ (fill token ids).header.features = ids.length :=
  ⟨drain_fill token ids hv hs, rfl⟩

/-- the same for the `(Header, bytes)` pair of DESIGN §5 -/
theorem posting_roundtrip_encode (ids : List Id) (hv : ValidIds ids) (hs : SortedIds ids) :
    drain ⟨(encode ids).1, (encode ids).2⟩ = some ids :=
  drain_fill [] ids hv hs

/-- **posting_roundtrip_bytes**: the same through the wire format — `NewIterator` on the bytes written by
`PostingList.Marshal` drains to exactly the ids (token length, count and buffer length fit `uint64`,
TypeAndNamespace fits `uint16`). -/
theorem posting_roundtrip_bytes (token : Bytes) (ids : List Id) (hv : ValidIds ids) (hs : SortedIds ids)
    (htn : ∀ id ∈ ids, id.1 < 65536) (htok : token.length < 2 ^ 64) (hcount : ids.length < 2 ^ 64)
    (hbuf : (fill token ids).ids.length < 2 ^ 64) :
    (unmarshal (marshal (fill token ids))).bind drain = some ids :=
  drain_unmarshal_marshal_fill token ids hv hs htn htok hcount hbuf

/-- the encoder does not even need the `TypeAndNamespace`s to increase: it is enough that values do not
decrease inside a run of equal `TypeAndNamespace` (`Chain`) — this is the exact domain of `Fill`/`Next`. -/
theorem posting_roundtrip_chain (token : Bytes) (ids : List Id) (h : Chain 0 0 ids) :
    drain (fill token ids) = some ids := by
  have hl : Lay (fill token ids).ids (fill token ids).header.namespaces 0 0 0 ids := by
    have := encodeFrom_lay ids Enc.init [] [] encInv_init h
    simpa [fill, Enc.init] using this
  have hlen := lay_length ids 0 0 0 hl
  unfold drain It.start
  exact drainFuel_lay (fill_nss_sorted token ids) ids 0 0 0 _ hl (by omega)

def exIds : List Id := [(1, 1), (3, 5), (3, 9), (8193, 0), (8193, 18446744073709551615)]

example : ValidIds exIds ∧ SortedIds exIds := by
  unfold ValidIds SortedIds exIds idLt; decide
example : Chain 0 0 [(3, 5), (1, 1), (1, 1), (3, 2)] := by
  simp [Chain]

/-! ## block invariant -/

/-- **block_inv** (1): every 64-byte block of the encoder output starts on a varint boundary with the
*absolute* value of an id of the list, and `Next`-ing from that block start — with whatever stale value and
any namespace index not beyond the block's — yields exactly the rest of the list from that id on.
(This is what `Advance` relies on when it drops the cursor on a block start after its binary search.) -/
theorem block_inv (token : Bytes) (ids : List Id) (hv : ValidIds ids) (hs : SortedIds ids) (b : Nat)
    (hb : 64 * b < (fill token ids).ids.length) :
    ∃ a id c, ids = a ++ id :: c ∧
      putUvarint id.2 <+: (fill token ids).ids.drop (64 * b) ∧
      ∀ stale fuel, c.length + 1 < fuel → drainFuel (fill token ids) fuel ⟨0, 64 * b, stale⟩ = some (id :: c) := by
  obtain ⟨a, id, c, k', h1, hat⟩ := fill_blocks token ids hv hs b hb
  refine ⟨a, id, c, h1, hat.2.2.1, ?_⟩
  intro stale fuel hf
  have hsorted := fill_nss_sorted token ids
  have hn := next_atBlock hsorted hat 0 stale (Nat.zero_le _)
  obtain ⟨_, _, _, ⟨idx, hk', _⟩, _, hrest⟩ := hat
  cases fuel with
  | zero => omega
  | succ fuel =>
    unfold drainFuel
    rw [hn]
    simp only [cur, hk']
    rw [drainFuel_lay hsorted c _ _ _ fuel hrest (by omega)]

/-- **block_inv** (2): the layout seen by the cursor after any prefix `done` of the list: the next id is either
a delta varint inside the current block, or the cursor stands at the end of the block's data, the rest of the
block is exactly padding bytes `0x80` (and the byte before is not `0x80`), and the next block starts with the
id's absolute varint. -/
theorem padding_inv (token : Bytes) (done : List Id) (id : Id) (rest : List Id)
    (hv : ValidIds (done ++ id :: rest)) (hs : SortedIds (done ++ id :: rest)) :
    let full := (fill token (done ++ id :: rest)).ids
    ∃ p prev,
      (p % 64 ≠ 0 ∧ prev ≤ id.2 ∧ putUvarint (id.2 - prev) <+: full.drop p ∧
        p % 64 + (putUvarint (id.2 - prev)).length ≤ 64)
      ∨
      ((∀ i, p ≤ i → i < p + padLen p → full[i]? = some 128) ∧
        (p % 64 ≠ 0 → ∃ b, full[p - 1]? = some b ∧ b ≠ 128) ∧
        (p + padLen p) % 64 = 0 ∧ putUvarint id.2 <+: full.drop (p + padLen p)) := by
  intro full
  have hl := fill_lay token (done ++ id :: rest) hv hs
  -- walk the layout over `done`
  have key : ∀ (a : List Id) (p prev k : Nat),
      Lay full (fill token (done ++ id :: rest)).header.namespaces p prev k (a ++ id :: rest) →
      ∃ p' prev' k', Lay full (fill token (done ++ id :: rest)).header.namespaces p' prev' k' (id :: rest) := by
    intro a
    induction a with
    | nil => intro p prev k h; exact ⟨p, prev, k, h⟩
    | cons x a ih =>
      intro p prev k h
      rw [List.cons_append] at h
      unfold Lay at h
      obtain ⟨_, h⟩ := h
      rcases h with ⟨_, _, _, _, _, _, hrest⟩ | ⟨k', _, _, _, _, _, _, hrest⟩
      · exact ih _ _ _ hrest
      · exact ih _ _ _ hrest
  obtain ⟨p, prev, k, h⟩ := key done 0 0 0 hl
  unfold Lay at h
  obtain ⟨_, h⟩ := h
  refine ⟨p, prev, ?_⟩
  rcases h with ⟨h1, h2, h3, h4, _⟩ | ⟨k', _, h1, h2, h3, _⟩
  · exact Or.inl ⟨h1, h2, h3, h4⟩
  · exact Or.inr ⟨h1, h2, padLen_mod p, h3⟩

/-! ## Next / Advance refine the spec cursor (`B6.Spec.Cursor`) over the id list

The spec cursor runs over the keys `keyNat id = TypeAndNamespace * 2^64 + value` of the list.  `Canon pl ids it done rest`
(Lemmas/PostingAdvance) says that the iterator state `it` is the one reached after reading exactly `done`.  Targets
are all ids `T` with `TnOK tbl T.1`: three type bits and a namespace index inside the table — the namespace need
not occur in the list. -/

/-- the spec cursor that has consumed `done` and has `rest` ahead -/
def cursorOf (done rest : List Id) : Cursor := ⟨done.map keyNat, rest.map keyNat⟩

theorem keyNat_lt {a b : Id} (ha : a.2 < 2 ^ 64) (hb : b.2 < 2 ^ 64) : keyNat a < keyNat b ↔ idLt a b := by
  unfold keyNat idLt; omega

theorem keyNat_le {a b : Id} (ha : a.2 < 2 ^ 64) (hb : b.2 < 2 ^ 64) : keyNat a ≤ keyNat b ↔ ¬ idLt b a := by
  unfold keyNat idLt; omega

theorem map_dropWhile (T : Id) (hT : T.2 < 2 ^ 64) : ∀ (l : List Id), (∀ x ∈ l, x.2 < 2 ^ 64) →
    (l.map keyNat).dropWhile (· < keyNat T) = (l.dropWhile (fun x => decide (idLt x T))).map keyNat ∧
    (l.map keyNat).takeWhile (· < keyNat T) = (l.takeWhile (fun x => decide (idLt x T))).map keyNat := by
  intro l
  induction l with
  | nil => intro _; exact ⟨rfl, rfl⟩
  | cons x l ih =>
    intro h
    have hx := h x (by simp)
    obtain ⟨h1, h2⟩ := ih (fun y hy => h y (by simp [hy]))
    have hiff := keyNat_lt hx hT
    by_cases hlt : idLt x T
    · have hk : keyNat x < keyNat T := hiff.2 hlt
      simp only [List.map_cons, List.dropWhile_cons, List.takeWhile_cons, hk, hlt, decide_true, if_true]
      exact ⟨h1, by rw [h2]⟩
    · have hk : ¬ keyNat x < keyNat T := fun hh => hlt (hiff.1 hh)
      simp only [List.map_cons, List.dropWhile_cons, List.takeWhile_cons, hk, hlt, decide_false]
      exact ⟨rfl, rfl⟩

/-- everything the refinement needs about `Fill`'s output -/
theorem ctx_fill (token : Bytes) (ids : List Id) (tbl : Table) (hv : ValidIds ids) (hs : SortedIds ids)
    (ht : TableOK tbl) (htn : ∀ id ∈ ids, TnOK tbl id.1) : Ctx (fill token ids) tbl ids where
  lay := fill_lay token ids hv hs
  sortedNs := fill_nss_sorted token ids
  aligned := fill_nss_aligned token ids
  inRange := fill_nss_inRange token ids
  sorted := hs
  valid := hv
  tblOK := ht
  tnOK := htn

/-- the value an iterator state reports, as a key of the spec cursor -/
def curKey (pl : PostingList) (it : It) : Option Nat :=
  match cur pl it with
  | .ok id => some (keyNat id)
  | .error _ => none

theorem curKey_canon {pl : PostingList} {ids : List Id} {it : It} {done rest : List Id}
    (hc : Canon pl ids it done rest) : ∀ x, (cursorOf done rest).cur = some x → curKey pl it = some x := by
  intro x hx
  unfold cursorOf Cursor.cur at hx
  simp only [List.getLast?_map] at hx
  cases hl : done.getLast? with
  | none => rw [hl] at hx; simp at hx
  | some c =>
    rw [hl] at hx
    simp only [Option.map_some, Option.some.injEq] at hx
    unfold curKey
    rw [canon_cur hc hl]
    simp only [hx]

/-- **next_spec**: `Next` from a canonical state answers like the spec cursor's `next` and lands in the canonical
state of the new cursor. -/
theorem next_spec {pl : PostingList} {tbl : Table} {ids : List Id} (ctx : Ctx pl tbl ids)
    {it : It} {done rest : List Id} (hc : Canon pl ids it done rest) :
    ∃ it', next pl it = .ok ((cursorOf done rest).next.1, it') ∧
      ((cursorOf done rest).next.1 = true →
        ∃ done' rest', Canon pl ids it' done' rest' ∧ (cursorOf done rest).next.2 = cursorOf done' rest') := by
  cases rest with
  | nil =>
    refine ⟨it, ?_, fun h => ?_⟩
    · rw [canon_end hc]; rfl
    · simp [cursorOf, Cursor.next] at h
  | cons id rest =>
    obtain ⟨it', hn, _, hc'⟩ := canon_next ctx hc
    refine ⟨it', ?_, fun _ => ⟨done ++ [id], rest, hc', ?_⟩⟩
    · rw [hn]; rfl
    · simp [cursorOf, Cursor.next]

/-- **advance_spec**: `Advance(T)` from a canonical state answers like the spec cursor's `advance (keyNat T)` —
stay when the current id is `≥ T`, else the first remaining id `≥ T`, else false — for **every** target `T`
whose namespace is in the table (present in the list or not), and lands in the canonical state of the new cursor. -/
theorem advance_spec {pl : PostingList} {tbl : Table} {ids : List Id} (ctx : Ctx pl tbl ids)
    {it : It} {done rest : List Id} (hc : Canon pl ids it done rest)
    (T : Id) (hT : TnOK tbl T.1) (hTv : T.2 < 2 ^ 64) :
    ∃ it', advance pl tbl (keyOf tbl T) it = .ok (((cursorOf done rest).advance (keyNat T)).1, it') ∧
      (((cursorOf done rest).advance (keyNat T)).1 = true →
        ∃ done' rest', Canon pl ids it' done' rest' ∧
          ((cursorOf done rest).advance (keyNat T)).2 = cursorOf done' rest') := by
  obtain ⟨hstay, hmove⟩ := B6.Model.Posting.advance_spec ctx hc hT
  have hvalid : ∀ x ∈ done ++ rest, x.2 < 2 ^ 64 := fun x hx => (ctx.valid x (by rw [hc.split]; exact hx)).1
  have hrestv : ∀ x ∈ rest, x.2 < 2 ^ 64 := fun x hx => hvalid x (List.mem_append_right _ hx)
  obtain ⟨hdw, htw⟩ := map_dropWhile T hTv rest hrestv
  -- the `seek` part, shared by the started and the not-started case
  have hseek : (∀ c, done.getLast? = some c → idLt c T) →
      ∃ it', advance pl tbl (keyOf tbl T) it = .ok (((cursorOf done rest).seek (keyNat T)).1, it') ∧
      (((cursorOf done rest).seek (keyNat T)).1 = true →
        ∃ done' rest', Canon pl ids it' done' rest' ∧
          ((cursorOf done rest).seek (keyNat T)).2 = cursorOf done' rest') := by
    intro hlt
    obtain ⟨it1, hsp⟩ := hmove hlt
    unfold Cursor.seek cursorOf
    simp only
    rw [hdw, htw]
    cases hd : rest.dropWhile (fun x => decide (idLt x T)) with
    | nil =>
      refine ⟨it1, ?_, fun h => ?_⟩
      · rw [hsp.2 hd]; rfl
      · simp at h
    | cons x hi =>
      obtain ⟨it', h1, _, h3⟩ := hsp.1 x hi hd
      refine ⟨it', ?_, fun _ => ⟨_, hi, h3, ?_⟩⟩
      · rw [h1]; rfl
      · simp [List.map_append]
  unfold Cursor.advance
  have hcur : (cursorOf done rest).cur = done.getLast?.map keyNat := by
    simp [cursorOf, Cursor.cur, List.getLast?_map]
  rw [hcur]
  cases hl : done.getLast? with
  | none =>
    simp only [Option.map_none]
    exact hseek (fun c hc' => by rw [hl] at hc'; simp at hc')
  | some c =>
    simp only [Option.map_some]
    have hcv : c.2 < 2 ^ 64 := hvalid c (List.mem_append_left _ (List.mem_of_getLast? hl))
    by_cases hle : keyNat T ≤ keyNat c
    · rw [if_pos hle]
      have hn : ¬ idLt c T := (keyNat_le hTv hcv).1 hle
      exact ⟨it, hstay c hl hn, fun _ => ⟨done, rest, hc, rfl⟩⟩
    · rw [if_neg hle]
      have hlt : idLt c T := by
        apply Classical.byContradiction
        intro hn; exact hle ((keyNat_le hTv hcv).2 hn)
      exact hseek (fun c' hc' => by rw [hl] at hc'; simp only [Option.some.injEq] at hc'; subst hc'; exact hlt)

/-! ### every call sequence -/

/-- the model's transcript of a call sequence (`advance k` takes the key of the target id); it ends at the first
`false`; `none` = the model reported a panic / error -/
def runModel (pl : PostingList) (tbl : Table) : It → List Call → Option (List (Bool × Option Nat))
  | _, [] => some []
  | it, call :: calls =>
    match (match call with
      | .next => next pl it
      | .advance k => advance pl tbl (keyOf tbl (k / 2 ^ 64, k % 2 ^ 64)) it) with
    | .ok (true, it') => (runModel pl tbl it' calls).map ((true, curKey pl it') :: ·)
    | .ok (false, _) => some [(false, none)]
    | .error _ => none

theorem run_canon {pl : PostingList} {tbl : Table} {ids : List Id} (ctx : Ctx pl tbl ids) :
    ∀ (calls : List Call) (it : It) (done rest : List Id), Canon pl ids it done rest →
      (∀ k, Call.advance k ∈ calls → TnOK tbl (k / 2 ^ 64)) →
      runModel pl tbl it calls = some (runSpec (cursorOf done rest) calls) := by
  intro calls
  induction calls with
  | nil => intros; rfl
  | cons call calls ih =>
    intro it done rest hc hk
    have hk' : ∀ k, Call.advance k ∈ calls → TnOK tbl (k / 2 ^ 64) := fun k h => hk k (by simp [h])
    cases call with
    | next =>
      obtain ⟨it', h1, h2⟩ := next_spec ctx hc
      simp only [runModel, runSpec, h1]
      cases hb : (cursorOf done rest).next.1 with
      | false => simp
      | true =>
        obtain ⟨done', rest', hc', heq⟩ := h2 hb
        have hw : (cursorOf done rest).WF → True := fun _ => trivial
        simp only [if_true]
        rw [ih it' done' rest' hc' hk', heq]
        -- the reported value
        have hv : curKey pl it' = (cursorOf done' rest').cur := by
          cases hcur : (cursorOf done' rest').cur with
          | some x => exact curKey_canon hc' x hcur
          | none =>
            exfalso
            have : (cursorOf done rest).next.2.cur = none := by rw [heq]; exact hcur
            cases rest with
            | nil => simp [cursorOf, Cursor.next] at hb
            | cons id r => simp [cursorOf, Cursor.next, Cursor.cur] at this
        simp [hv]
    | advance k =>
      have hT : TnOK tbl (k / 2 ^ 64) := hk k (by simp)
      have hTv : k % 2 ^ 64 < 2 ^ 64 := Nat.mod_lt _ (by omega)
      have hkey : keyNat (k / 2 ^ 64, k % 2 ^ 64) = k := by
        unfold keyNat; simp only; omega
      obtain ⟨it', h1, h2⟩ := advance_spec ctx hc (k / 2 ^ 64, k % 2 ^ 64) hT hTv
      rw [hkey] at h1 h2
      simp only [runModel, runSpec, h1]
      cases hb : ((cursorOf done rest).advance k).1 with
      | false => simp
      | true =>
        obtain ⟨done', rest', hc', heq⟩ := h2 hb
        simp only [if_true]
        rw [ih it' done' rest' hc' hk', heq]
        have hv : curKey pl it' = (cursorOf done' rest').cur := by
          cases hcur : (cursorOf done' rest').cur with
          | some x => exact curKey_canon hc' x hcur
          | none =>
            exfalso
            -- a successful `advance` always has a current element
            have hwf : (cursorOf done rest).WF := by
              unfold Cursor.WF Cursor.xs cursorOf
              simp only [← List.map_append, ← hc.split]
              unfold B6.Spec.Cursor.StrictSorted
              rw [List.pairwise_map]
              exact ctx.sorted.imp_of_mem (fun {a b} ha hb hab =>
                (keyNat_lt (ctx.valid a ha).1 (ctx.valid b hb).1).2 hab)
            obtain ⟨_, _, _, x, hx, _⟩ := (Cursor.advance_spec hwf k).1 hb
            rw [heq, hcur] at hx
            simp at hx
        simp [hv]

/-- **posting_transcript**: for the posting list built by `Fill` from any valid strictly increasing id list, and
**every** finite sequence of `Next` / `Advance(T)` calls (every `T` whose namespace is in the table), the
iterator's answers — the booleans and the ids reported — are exactly those of the spec cursor over the list
(up to the first `false`). -/
theorem posting_transcript (token : Bytes) (ids : List Id) (tbl : Table) (hv : ValidIds ids) (hs : SortedIds ids)
    (ht : TableOK tbl) (htn : ∀ id ∈ ids, TnOK tbl id.1) (calls : List Call)
    (hk : ∀ k, Call.advance k ∈ calls → TnOK tbl (k / 2 ^ 64)) :
    runModel (fill token ids) tbl It.start calls
      = some (runSpec (B6.Spec.Cursor.start (ids.map keyNat)) calls) := by
  have ctx := ctx_fill token ids tbl hv hs ht htn
  exact run_canon ctx calls It.start [] ids (canon_start ctx) hk


/-! ## the namespace table -/

/-- **table_order_preserving**: `FillFromNamespaces` on distinct non-empty names (fewer than 2^13) builds a table in
which `Encode`/`Decode` are inverse on the given names and `Encode` preserves the string order — which is what
lets the iterator compare `TypeAndNamespace` integers instead of namespace strings. -/
theorem table_order_preserving (nss : List String) (hnd : nss.Nodup) (hne : "" ∉ nss) (hlen : nss.length < 8192)
    (a b : String) (ha : a ∈ nss) (hb : b ∈ nss) :
    ∃ i j, (fillFromNamespaces nss).encode a = .ok i ∧ (fillFromNamespaces nss).encode b = .ok j ∧
      (fillFromNamespaces nss).decode i = .ok a ∧ (fillFromNamespaces nss).decode j = .ok b ∧ (a < b ↔ i < j) := by
  obtain ⟨hok, hmem⟩ := fillFromNamespaces_ok nss hnd hne hlen
  obtain ⟨i, hi, hia⟩ := List.mem_iff_getElem.1 ((hmem a).2 (Or.inr ha))
  obtain ⟨j, hj, hjb⟩ := List.mem_iff_getElem.1 ((hmem b).2 (Or.inr hb))
  refine ⟨i, j, ?_, ?_, ?_, ?_, ?_⟩
  · rw [← hia]; exact encode_name hok hi
  · rw [← hjb]; exact encode_name hok hj
  · unfold Table.decode; rw [List.getElem?_eq_getElem hi, hia]
  · unfold Table.decode; rw [List.getElem?_eq_getElem hj, hjb]
  · rw [← hia, ← hjb]; exact names_lt_iff hok hi hj

example : (fillFromNamespaces ["c", "a", "b"]).names = ["", "a", "b", "c"] := by decide

/-! ## the defect that was repaired (fixes/C08-advance-absent-namespace.patch) -/

def wTbl : Table := ⟨["", "a", "b", "c"]⟩
/-- `{point/a/1, point/c/5, point/c/9}` -/
def wIds : List Id := [(1, 1), (3, 5), (3, 9)]
def wPl : PostingList := fill [] wIds

def isOk (r : Except Err (Bool × It)) (b : Bool) (it : It) : Bool :=
  match r with
  | .ok (b', it') => b' == b && decide (it' = it)
  | .error _ => false

/-- the code before the repair: `Advance(point/b/3)` (namespace `b` is in the table, not in the list) lands
on `c/5` but leaves `i.i = 64` on that value, so the following `Next` returns `c/5` again (`value = 5` twice). -/
theorem advance_absent_namespace_counterexample :
    isOk (advanceOld wPl wTbl ⟨0, "b", 3⟩ It.start) true ⟨1, 64, 5⟩ = true ∧
    isOk (next wPl ⟨1, 64, 5⟩) true ⟨1, 65, 5⟩ = true := by decide

/-- the repaired code consumes the value: `Advance` → `c/5`, `Next` → `c/9`. -/
theorem advance_absent_namespace_fixed :
    isOk (advance wPl wTbl ⟨0, "b", 3⟩ It.start) true ⟨1, 65, 5⟩ = true ∧
    isOk (next wPl ⟨1, 65, 5⟩) true ⟨1, 66, 9⟩ = true := by decide

example : TableOK wTbl ∧ (∀ id ∈ wIds, TnOK wTbl id.1) ∧ TnOK wTbl 2 := by
  unfold TableOK TnOK wTbl wIds; decide

end B6.Props.C08
