import B6.Model.Expr
/-!
L7 language layer — values, the builtin library of the C21/C22 checks, and the **reference
interpreter**: a direct big-step evaluator with environments (lexical scoping, real closures) that
defines what a b6 program means.  It does not look at the VM.

The language, as `vm.go` and the function library define it:

* a symbol in **function position** names a global function (`compileCall` looks only at `Globals`;
  a lambda parameter is called with `call`/`call1` or by passing it to a higher-order function);
* a symbol in value position is the innermost enclosing lambda parameter of that name, else a global
  function value;
* applying a function value of arity `m` to `n` arguments: `n = m` calls it, `n < m` gives a partial
  application that binds these as the **trailing** arguments (`(f a) b = f b a`), `n > m` is an error;
* arguments are evaluated left to right, then the function expression;
* static errors (unbound symbol, literal in function position, more than `maxArgs` lambda parameters
  in the program) make the whole program an error.

Fuel: `applyFn` spends one unit per function application; `Fail.fuel` is "did not finish", never a
default.  The VM model (`B6.Model.VM`) spends fuel at exactly the same points.
-/
namespace B6.Model

/-- the builtin table of the harness (`harness/cmd/c21/lang`); `keyed … or` and the two variadic
functions `collection`, `call` are the real `functions.Functions()` entries.  A variadic Go function
`func(c, fixed…, rest ...T)` has `NumArgs = fixed + 1`; called with `n ≥ fixed` arguments it is complete
(the rest converted to `T`), with fewer it gives a partial application (`want`, `paramsAt`). -/
inductive Builtin where
  | zero | add | sub | div | mix
  | pair | first | second
  | call1 | call2 | apply | force
  | keyed | tagged | typed | and | or
  | matchq      -- what `convertQueryToCallable` turns a query into (not addressable by name)
  | collection  -- the real variadic `collection(pairs ...interface{})`
  | call        -- the real variadic `call(f Callable, args ...interface{})`
  deriving DecidableEq, Repr, Inhabited

/-- Go parameter types that occur in the table, as far as `ConvertWithContext` distinguishes them -/
inductive Ty where
  | int | str | any | pair | query
  | callable            -- `api.Callable`
  | func (n : Nat)      -- `func(*api.Context, interface{}…) (interface{}, error)` with n arguments
  deriving DecidableEq, Repr

namespace Builtin

def name : Builtin → String
  | zero => "zero" | add => "add" | sub => "sub" | div => "div" | mix => "mix"
  | pair => "pair" | first => "first" | second => "second"
  | call1 => "call1" | call2 => "call2" | apply => "apply" | force => "force"
  | keyed => "keyed" | tagged => "tagged" | typed => "typed" | and => "and" | or => "or"
  | matchq => "matches"
  | collection => "collection" | call => "call"

def all : List Builtin :=
  [zero, add, sub, div, mix, pair, first, second, call1, call2, apply, force, keyed, tagged, typed, and, or,
    collection, call]

def ofName (s : String) : Option Builtin := all.find? (fun b => b.name == s)

def params : Builtin → List Ty
  | zero => []
  | add => [.int, .int] | sub => [.int, .int] | div => [.int, .int] | mix => [.int, .int, .int]
  | pair => [.any, .any] | first => [.pair] | second => [.pair]
  | call1 => [.callable, .any] | call2 => [.callable, .any, .any]
  | apply => [.func 1, .any] | force => [.func 0]
  | keyed => [.str] | tagged => [.str, .str] | typed => [.str, .query]
  | and => [.query, .query] | or => [.query, .query]
  | matchq => [.any]
  | collection => []          -- the fixed parameters; the variadic one is `variadic`
  | call => [.callable]

/-- element type of the variadic parameter of a Go function `func(c, fixed…, rest ...T)` -/
def variadic : Builtin → Option Ty
  | collection => some .any
  | call => some .any
  | _ => none

/-- `goCall.NumArgs()` = `NumIn() - 1`: the variadic slice counts as one parameter -/
def arity (b : Builtin) : Nat := b.params.length + (match b.variadic with | some _ => 1 | none => 0)

/-- the number of arguments with which a call from the stack with `n` arguments is complete
(`goCall.CallFromStack`: `expected`, one less and no upper limit for a variadic function) -/
def want (b : Builtin) (n : Nat) : Nat :=
  match b.variadic with
  | some _ => if n ≥ b.params.length then n else b.params.length
  | none => b.params.length

/-- the Go parameter types the `n` arguments of a complete call are converted to -/
def paramsAt (b : Builtin) (n : Nat) : List Ty :=
  match b.variadic with
  | some t => b.params ++ List.replicate (n - b.params.length) t
  | none => b.params

end Builtin

/-- `MaxArgs` of vm.go: lambda parameters (registers) available to one program -/
def maxArgs : Nat := 32

inductive Val where
  | int (i : Int)
  | str (s : String)
  | query (q : Query)
  | other (kind text : String)
  | pair (a b : Val)
  | builtin (b : Builtin)                                        -- `goCall`
  | closure (params : List String) (body : Expr) (env : List (String × Val))   -- interpreter only
  | lam (pc nargs : Nat)                                         -- VM only: `*lambdaCall`
  | part (f : Val) (args : List Val) (snap : List (Nat × Val)) -- `*partialCall`; `snap` = `vmArgs` (VM only, `[]` in the interpreter)
  deriving Repr, Inhabited

inductive Fail where
  | error     -- Go `error` returned by Evaluate
  | panic     -- Go panic
  | fuel      -- the model ran out of fuel (no statement about the program)
  deriving DecidableEq, Repr, Inhabited

abbrev Res (α : Type) := Except Fail α

abbrev Env := List (String × Val)

/-- two's complement wrap to int64, as Go's `int` arithmetic on amd64 -/
def wrap64 (x : Int) : Int := (x + 2 ^ 63) % 2 ^ 64 - 2 ^ 63

/-- Go `string(rune(i))` as done by `reflect.Value.Convert` from int to string -/
def runeString (i : Int) : String :=
  if 0 ≤ i ∧ i < 0x110000 ∧ ¬ (0xD800 ≤ i ∧ i < 0xE000) then String.singleton (Char.ofNat i.toNat)
  else String.singleton (Char.ofNat 0xFFFD)

def featureTypes : List String := ["point", "path", "area", "relation", "collection", "expression"]

/-- `FeatureTypeFromString(t).String()` -/
def normType (t : String) : String := if featureTypes.contains t then t else "invalid"

def Lit.toVal : Lit → Val
  | .int i => .int i
  | .str s => .str s
  | .query q => .query q
  | .other k t => .other k t

namespace Val

def isCallable : Val → Bool
  | .builtin _ | .closure .. | .lam .. | .part .. => true
  | _ => false

/-- `Callable.NumArgs()` -/
def arity : Val → Option Nat
  | .builtin b => some b.arity
  | .closure ps _ _ => some ps.length
  | .lam _ n => some n
  | .part f args _ => (arity f).map (· - args.length)
  | _ => none

/-- `b6.FromLiteral` succeeds (what `VM.CallWithArgs`, reached through the function adaptors, demands
of every argument) -/
def literalable : Val → Bool
  | .int _ | .str _ => true
  | _ => false

end Val

/-- `ConvertWithContext(v, t)` for the parameter types of the table (after fix C21-convert-interface-values) -/
def convert : Ty → Val → Res Val
  | .any, v => .ok v
  | .int, .int i => .ok (.int i)
  | .str, .str s => .ok (.str s)
  | .str, .int i => .ok (.str (runeString i))          -- reflect's int → string conversion
  | .pair, .pair a b => .ok (.pair a b)
  | .query, .query q => .ok (.query q)
  | .callable, .query _ => .ok (.builtin .matchq)      -- convertQueryToCallable
  | .callable, v => if v.isCallable then .ok v else .error .error
  | .func n, v => if v.isCallable && v.arity == some n then .ok v else .error .error
  | _, _ => .error .error

def convertAll : List Ty → List Val → Res (List Val)
  | [], [] => .ok []
  | t :: ts, v :: vs => do
    let v' ← convert t v
    let vs' ← convertAll ts vs
    pure (v' :: vs')
  | _, _ => .error .error

/-- what running a builtin's Go body does: produce a value, fail, or hand over to a function value
(every higher-order function of the table returns its callback's result unchanged) -/
inductive Step where
  | value (v : Val)
  | tail (f : Val) (args : List Val)
  | fail

def hexNibble (n : Nat) : Char :=
  if n < 10 then Char.ofNat ('0'.toNat + n) else Char.ofNat ('a'.toNat + n - 10)

def hexOfString (s : String) : String :=
  String.ofList (s.toUTF8.toList.flatMap fun b => [hexNibble (b.toNat / 16), hexNibble (b.toNat % 16)])

/-- how a key or value inside a collection is observed: data structurally, a query as `q`, a function by
its arity (the harness renders the items of a `b6.Collection` the same way) -/
def Val.cellToks : Val → List String
  | .int i => [toString i]
  | .str s => ["x:" ++ hexOfString s]
  | .query _ => ["q"]
  | .other k _ => ["o:" ++ k]
  | .pair a b => ["(", "pair"] ++ a.cellToks ++ b.cellToks ++ [")"]
  | v => [match v.arity with | some n => "fn/" ++ toString n | none => "fn/?"]

def isPairVal : Val → Bool
  | .pair _ _ => true
  | _ => false

/-- the value of `collection p…`: the items, observed (`Val.other "coll" text`) -/
def collText : List Val → List String
  | [] => []
  | .pair a b :: ps => a.cellToks ++ b.cellToks ++ collText ps
  | _ :: ps => collText ps

def Builtin.step : Builtin → List Val → Step
  | .zero, [] => .value (.int 0)
  | .add, [.int a, .int b] => .value (.int (wrap64 (a + b)))
  | .sub, [.int a, .int b] => .value (.int (wrap64 (a - b)))
  | .div, [.int a, .int b] => if b == 0 then .fail else .value (.int (wrap64 (a.tdiv b)))
  | .mix, [.int a, .int b, .int c] => .value (.int (wrap64 (100 * a + 10 * b + c)))
  | .pair, [a, b] => .value (.pair a b)
  | .first, [.pair a _] => .value a
  | .second, [.pair _ b] => .value b
  | .call1, [f, x] => .tail f [x]
  | .call2, [f, x, y] => .tail f [x, y]
  | .apply, [f, x] => if x.literalable then .tail f [x] else .fail
  | .force, [f] => .tail f []
  | .keyed, [.str k] => .value (.query (.keyed k))
  | .tagged, [.str k, .str v] => .value (.query (.tagged k v))
  | .typed, [.str t, .query q] => .value (.query (.typed (normType t) q))
  | .and, [.query a, .query b] => .value (.query (.inter [a, b]))
  | .or, [.query a, .query b] => .value (.query (.union [a, b]))
  | .collection, ps => if ps.all isPairVal then .value (.other "coll" ("_".intercalate (collText ps))) else .fail
  | .call, f :: xs => .tail f xs
  | _, _ => .fail

mutual
  /-- big-step evaluation; `app` applies a function value (one fuel level down) -/
  def evalWith (app : Val → List Val → Res Val) : Env → Expr → Res Val
    | env, .sym s =>
      match env.lookup s with
      | some v => .ok v
      | none => match Builtin.ofName s with
        | some b => .ok (.builtin b)
        | none => .error .error
    | _, .lit l => .ok l.toVal
    | env, .lam ps b => .ok (.closure ps b env)
    | env, .call f args _ =>
      match evalArgs app env args with
      | .error e => .error e
      | .ok vs =>
        match f with
        | .sym s => match Builtin.ofName s with
          | some b => app (.builtin b) vs
          | none => .error .error
        | .lit _ => .error .error
        | .lam _ _ => match evalWith app env f with
          | .error e => .error e
          | .ok fv => if fv.isCallable then app fv vs else .error .error
        | .call _ _ _ => match evalWith app env f with
          | .error e => .error e
          | .ok fv => if fv.isCallable then app fv vs else .error .error
  def evalArgs (app : Val → List Val → Res Val) : Env → List Expr → Res (List Val)
    | _, [] => .ok []
    | env, a :: as =>
      match evalWith app env a with
      | .error e => .error e
      | .ok v => match evalArgs app env as with
        | .error e => .error e
        | .ok vs => .ok (v :: vs)
end

/-- apply a function value to `args` -/
def applyFn : Nat → Val → List Val → Res Val
  | 0, _, _ => .error .fuel
  | fuel + 1, f, args =>
    match f with
    | .builtin b =>
      if args.length > b.want args.length then .error .error
      else if args.length == b.want args.length then
        match convertAll (b.paramsAt args.length) args with
        | .error e => .error e
        | .ok cs => match b.step cs with
          | .value v => .ok v
          | .fail => .error .error
          | .tail g xs => applyFn fuel g xs
      else .ok (.part f args [])
    | .closure ps body env =>
      if args.length == ps.length then evalWith (applyFn fuel) (ps.zip args ++ env) body
      else if args.length < ps.length then .ok (.part f args [])
      else .error .error
    | .part g bs _ =>
      match g.arity with
      | none => .error .error
      | some m =>
        if args.length + bs.length == m then applyFn fuel g (args ++ bs)
        else if args.length + bs.length < m then .ok (.part f args [])
        else .error .error
    | _ => .error .error

mutual
  /-- static scoping check: what `compileTarget` rejects (`undefined symbol`, `can't call`) -/
  def wfAt (bound : List String) : Expr → Bool
    | .sym s => bound.contains s || (Builtin.ofName s).isSome
    | .lit _ => true
    | .lam ps b => wfAt (ps ++ bound) b
    | .call f args _ =>
      wfsAt bound args &&
      match f with
      | .sym s => (Builtin.ofName s).isSome
      | .lit _ => false
      | .lam _ _ => wfAt bound f
      | .call _ _ _ => wfAt bound f
  def wfsAt (bound : List String) : List Expr → Bool
    | [] => true
    | a :: as => wfAt bound a && wfsAt bound as
end

def wellFormed (e : Expr) : Bool := wfAt [] e && decide (e.numParams ≤ maxArgs)

/-! ### the fragment of `vm_lambda_partial` (C21)

The VM keeps every lambda parameter in a global register.  `Expr.regSafe` is the syntactic class of
programs for which that is invisible: (1) no lambda uses, in value position, a parameter of an
enclosing lambda (`bound`), and (2) inside a lambda body no own parameter is read after (in
evaluation order: arguments left to right, then the function expression) a call that may run lambda
code — a call of a lambda literal, of a computed function, or of one of the higher-order builtins —
because such a call may re-enter the same lambda and overwrite its registers.  The complement of
`regSafe` is the input class of the finding `closure-registers`. -/

/-- builtins whose Go body calls back into the VM -/
def Builtin.higherOrder : Builtin → Bool
  | .call1 | .call2 | .apply | .force | .call => true
  | _ => false

namespace Expr

mutual
  /-- `regScan bound own dirty e = some dirty'`: `e` (part of the body of a lambda with parameters `own`,
  enclosed by lambdas with parameters `bound`) is in the fragment when entered with `dirty` = "a call that
  may run lambda code has happened in this activation"; `dirty'` = the same after `e`.  `none` = outside. -/
  def regScan (bound own : List String) (d : Bool) : Expr → Option Bool
    | .sym s =>
      if own.contains s then (if d then none else some false)
      else if bound.contains s then none else some d
    | .lit _ => some d
    | .lam ps b =>
      match regScan (own ++ bound) ps false b with
      | some _ => some d
      | none => none
    | .call f args _ =>
      match regScanArgs bound own d args with
      | none => none
      | some d1 =>
        match f with
        | .sym s => match Builtin.ofName s with
          | some b => some (d1 || b.higherOrder)
          | none => some d1
        | .lit _ => some d1
        | .lam _ _ => match regScan bound own d1 f with
          | some _ => some true
          | none => none
        | .call _ _ _ => match regScan bound own d1 f with
          | some _ => some true
          | none => none
  def regScanArgs (bound own : List String) (d : Bool) : List Expr → Option Bool
    | [] => some d
    | a :: as =>
      match regScan bound own d a with
      | none => none
      | some d1 => regScanArgs bound own d1 as
end

/-- the fragment of `vm_lambda_partial`; `!regSafe` = input class of the finding `closure-registers` -/
def regSafe (e : Expr) : Bool := (regScan [] [] false e).isSome

end Expr

/-- the reference semantics of a whole program -/
def interp (fuel : Nat) (e : Expr) : Res Val :=
  if wellFormed e then evalWith (applyFn fuel) [] e else .error .error

/-- what a caller can observe of a result: data structurally, functions by their arity -/
inductive Obs where
  | int (i : Int) | str (s : String) | query (q : Query) | other (kind text : String)
  | pair (a b : Obs)
  | fn (arity : Option Nat)
  deriving Repr

def Val.obs : Val → Obs
  | .int i => .int i
  | .str s => .str s
  | .query q => .query q
  | .other k t => .other k t
  | .pair a b => .pair a.obs b.obs
  | v => .fn v.arity

/-! ### canonical text of results (what the harness prints for the Go value) -/

mutual
  /-- queries inside **values**: strings in hex (a key can hold any bytes, see `runeString`) -/
  def renderQueryValueToks : Query → List String
    | .keyed k => ["(", "keyed", "x:" ++ hexOfString k, ")"]
    | .tagged k v => ["(", "tagged", "x:" ++ hexOfString k, "x:" ++ hexOfString v, ")"]
    | .typed t q => ["(", "typed", "x:" ++ hexOfString t] ++ renderQueryValueToks q ++ [")"]
    | .inter qs => ["(", "and"] ++ renderQueriesValueToks qs ++ [")"]
    | .union qs => ["(", "or"] ++ renderQueriesValueToks qs ++ [")"]
    | .other t => ["(", "other", "x:" ++ hexOfString t, ")"]
  def renderQueriesValueToks : List Query → List String
    | [] => []
    | q :: qs => renderQueryValueToks q ++ renderQueriesValueToks qs
end

def Val.fnText (v : Val) : String :=
  match v.arity with
  | some n => "fn/" ++ toString n
  | none => "fn/?"

def Val.renderToks : Val → List String
  | .int i => [toString i]
  | .str s => ["x:" ++ hexOfString s]
  | .query q => ["(", "q"] ++ renderQueryValueToks q ++ [")"]
  | .other k t => ["o:" ++ k ++ ":" ++ t]
  | .pair a b => ["(", "pair"] ++ a.renderToks ++ b.renderToks ++ [")"]
  | v => [v.fnText]

def Val.render (v : Val) : String := " ".intercalate v.renderToks

def Res.render : Res Val → String
  | .ok v => "val " ++ v.render
  | .error .error => "err"
  | .error .panic => "panic"
  | .error .fuel => "fuel"

end B6.Model
