/-!
# GeoJSON geometry marshal / unmarshal and `AddFeatures.FillFromGeoJSON`  (core Lean only)

Coordinates are opaque atoms `ν` (a JSON number); everything float (text of a number, S2 point conversion,
`Loop.Area() > 2π` orientation fix-up, loop nesting in `s2.PolygonFromLoops`) is outside the model.

* `CJ ν`                         — the JSON `coordinates` member: numbers and arrays, any nesting.
* `Geom ν`                       — the six `geojson.Coordinates` implementations (geojson.go).
* `marshalGeometry` / `unmarshalGeometry` — `json.Marshal(Geometry)` / `Geometry.UnmarshalJSON`: the `type` switch,
  `Coordinate.MarshalJSON` (`[lng, lat]`) and `Coordinate.UnmarshalJSON` (exactly two numbers).
* `marshalDoc` / `unmarshalDoc`  — `geojson.Unmarshal`: dispatch on the top-level `type` (with `MultiLineString`
  in the geometry list, fixes/C32-unmarshal-multilinestring.patch), features and feature collections.
* `fillFromFeature`              — which b6 feature a GeoJSON feature becomes (ingest/change.go): Point → point with
  a `point` tag, LineString → path with a `path` tag, Polygon / MultiPolygon → area whose loops are the rings
  without their repeated closing position (`LineString.ToS2Loop`, fixes/C32-import-polygon-closing-vertex.patch);
  **MultiPoint and MultiLineString have no case and are dropped**; properties are appended as string tags.
  An empty ring panics (`Loop.Area` divides by the vertex count).
* `applyAll`                     — `AddFeatures.Apply` on an empty world: features are added in order until the first
  one fails validation (a path needs `GeometryLen() ≥ 2`, and `Tags.GeometryLen` looks at a `point` tag first).
* `observe`                      — what the world's accessors report for a feature (`Tags.Get` = first tag with the
  key; `GeometryType`, `Point`, `GeometryLen`/`PointAt`, `Polygon(i)`).
-/
namespace B6.Model.GeoJSON

/-! ## JSON side -/

/-- JSON value of a `coordinates` member -/
inductive CJ (ν : Type) where
  | num (x : ν)
  | arr (xs : List (CJ ν))

structure Coord (ν : Type) where
  lat : ν
  lng : ν
  deriving DecidableEq, Repr

inductive Geom (ν : Type) where
  | point (c : Coord ν)
  | multiPoint (cs : List (Coord ν))
  | lineString (cs : List (Coord ν))
  | multiLineString (ls : List (List (Coord ν)))
  | polygon (rs : List (List (Coord ν)))
  | multiPolygon (ps : List (List (List (Coord ν))))
  deriving DecidableEq, Repr

/-- `{"type": …, "coordinates": …}` -/
structure GeomJ (ν : Type) where
  typ : String
  coords : CJ ν

/-- `mapM` in `Option`, structurally recursive -/
def mapOpt {α β : Type} (f : α → Option β) : List α → Option (List β)
  | [] => some []
  | a :: as =>
    match f a, mapOpt f as with
    | some b, some bs => some (b :: bs)
    | _, _ => none

variable {ν : Type}

/-- `Coordinate.MarshalJSON`: `[]float64{c.Lng, c.Lat}` -/
def coordJ (c : Coord ν) : CJ ν := .arr [.num c.lng, .num c.lat]

def listJ {α : Type} (f : α → CJ ν) (xs : List α) : CJ ν := .arr (xs.map f)

/-- `Coordinate.UnmarshalJSON`: a JSON array of exactly two numbers -/
def parseCoord : CJ ν → Option (Coord ν)
  | .arr [.num lng, .num lat] => some { lat := lat, lng := lng }
  | _ => none

/-- `json.Unmarshal` into a slice: the value must be an array -/
def parseList {α : Type} (f : CJ ν → Option α) : CJ ν → Option (List α)
  | .arr xs => mapOpt f xs
  | .num _ => none

def Geom.typeName : Geom ν → String
  | .point _ => "Point"
  | .multiPoint _ => "MultiPoint"
  | .lineString _ => "LineString"
  | .multiLineString _ => "MultiLineString"
  | .polygon _ => "Polygon"
  | .multiPolygon _ => "MultiPolygon"

/-- `json.Marshal` of a `geojson.Geometry` built by `GeometryFromCoordinates` -/
def marshalGeometry (g : Geom ν) : GeomJ ν :=
  { typ := g.typeName
    coords := match g with
      | .point c => coordJ c
      | .multiPoint cs => listJ coordJ cs
      | .lineString cs => listJ coordJ cs
      | .multiLineString ls => listJ (listJ coordJ) ls
      | .polygon rs => listJ (listJ coordJ) rs
      | .multiPolygon ps => listJ (listJ (listJ coordJ)) ps }

/-- `Geometry.UnmarshalJSON`; `none` = error -/
def unmarshalGeometry (j : GeomJ ν) : Option (Geom ν) :=
  if j.typ = "Point" then (parseCoord j.coords).map .point
  else if j.typ = "LineString" then (parseList parseCoord j.coords).map .lineString
  else if j.typ = "Polygon" then (parseList (parseList parseCoord) j.coords).map .polygon
  else if j.typ = "MultiPoint" then (parseList parseCoord j.coords).map .multiPoint
  else if j.typ = "MultiLineString" then (parseList (parseList parseCoord) j.coords).map .multiLineString
  else if j.typ = "MultiPolygon" then (parseList (parseList (parseList parseCoord)) j.coords).map .multiPolygon
  else none

/-- a GeoJSON feature: geometry and string properties (`map[string]string`; the list is in key order, keys distinct) -/
structure FeatureOf (γ : Type) where
  geom : γ
  props : List (String × String)

abbrev FeatureJ (ν : Type) := FeatureOf (GeomJ ν)
abbrev Feature (ν : Type) := FeatureOf (Geom ν)

/-- the three kinds of GeoJSON object -/
inductive DocOf (γ : Type) where
  | geometry (g : γ)
  | feature (f : FeatureOf γ)
  | collection (fs : List (FeatureOf γ))

abbrev DocJ (ν : Type) := DocOf (GeomJ ν)
abbrev Doc (ν : Type) := DocOf (Geom ν)

def marshalFeature (f : Feature ν) : FeatureJ ν := { geom := marshalGeometry f.geom, props := f.props }
def unmarshalFeature (f : FeatureJ ν) : Option (Feature ν) :=
  (unmarshalGeometry f.geom).map fun g => { geom := g, props := f.props }

def marshalDoc : Doc ν → DocJ ν
  | .geometry g => .geometry (marshalGeometry g)
  | .feature f => .feature (marshalFeature f)
  | .collection fs => .collection (fs.map marshalFeature)

/-- the geometry types `geojson.Unmarshal` lets through its own switch (repaired code) -/
def topLevelGeometryTypes : List String :=
  ["Point", "MultiPoint", "LineString", "MultiLineString", "Polygon", "MultiPolygon"]

/-- the list before fixes/C32-unmarshal-multilinestring.patch -/
def topLevelGeometryTypesOld : List String :=
  ["Point", "MultiPoint", "LineString", "Polygon", "MultiPolygon"]

def unmarshalDocWith (types : List String) : DocJ ν → Option (Doc ν)
  | .geometry g => if g.typ ∈ types then (unmarshalGeometry g).map .geometry else none
  | .feature f => (unmarshalFeature f).map .feature
  | .collection fs => (mapOpt unmarshalFeature fs).map .collection

/-- `geojson.Unmarshal` -/
def unmarshalDoc (d : DocJ ν) : Option (Doc ν) := unmarshalDocWith topLevelGeometryTypes d

/-! ## import -/

inductive FType where
  | point | path | area
  deriving DecidableEq, Repr

inductive TagVal (ν : Type) where
  | str (s : String)
  | point (c : Coord ν)
  | points (cs : List (Coord ν))
  deriving DecidableEq, Repr

/-- an `ingest.Feature` as `fillFromFeature` builds it -/
structure Imported (ν : Type) where
  ftype : FType
  id : Nat
  tags : List (String × TagVal ν)
  polygons : List (List (List (Coord ν))) := []      -- areas: polygons → loops → vertices
  deriving DecidableEq, Repr

inductive Fill (ν : Type) where
  | added (f : Imported ν)
  | dropped
  | panic
  deriving Repr

variable [DecidableEq ν]

/-- `LineString.ToS2Loop`: a repeated closing position is not a vertex -/
def stripClose (ring : List (Coord ν)) : List (Coord ν) :=
  if ring.length > 1 ∧ ring.head? = ring.getLast? then ring.dropLast else ring

def propTags (props : List (String × String)) : List (String × TagVal ν) :=
  props.map fun kv => (kv.1, TagVal.str kv.2)

def pointTag : String := "point"
def pathTag : String := "path"

/-- `keyAvoidingGeometryTags(key, "geojson")` (after `fixes/C32-reserved-property-keys.patch`): the two keys b6
keeps a feature's geometry under are stored as `geojson:point` / `geojson:path` -/
def storedKey (k : String) : String :=
  if k == pointTag || k == pathTag then "geojson:" ++ k else k

/-- the feature with its property keys as they are stored -/
def stored (f : Feature ν) : Feature ν := { f with props := f.props.map fun kv => (storedKey kv.1, kv.2) }

/-- `fillFromFeature` (the `switch geometry := f.Geometry.Coordinates.(type)` and the property loop) with the
property keys taken as they are — the code before `fixes/C32-reserved-property-keys.patch` -/
def fillFromFeatureRaw (f : Feature ν) (id : Nat) : Fill ν :=
  match f.geom with
  | .point c => .added { ftype := .point, id := id, tags := (pointTag, .point c) :: propTags f.props }
  | .lineString cs =>
    .added { ftype := .path, id := id,
             tags := (if cs = [] then [] else [(pathTag, .points cs)]) ++ propTags f.props }
  | .polygon rs =>
    if rs.any (·.isEmpty) then .panic
    else .added { ftype := .area, id := id, tags := propTags f.props, polygons := [rs.map stripClose] }
  | .multiPolygon ps =>
    if ps.any (·.any (·.isEmpty)) then .panic
    else .added { ftype := .area, id := id, tags := propTags f.props, polygons := ps.map (·.map stripClose) }
  | .multiPoint _ => .dropped
  | .multiLineString _ => .dropped

/-- `fillFromFeature`: properties are stored under `storedKey` -/
def fillFromFeature (f : Feature ν) (id : Nat) : Fill ν := fillFromFeatureRaw (stored f) id

/-- the loop of `FillFromGeoJSON` over `g.Features` starting at index `i`; `none` = panic -/
def fillFrom : List (Feature ν) → Nat → Option (List (Imported ν))
  | [], _ => some []
  | f :: fs, i =>
    match fillFromFeature f i, fillFrom fs (i + 1) with
    | .panic, _ => none
    | _, none => none
    | .added x, some r => some (x :: r)
    | .dropped, some r => some r

/-- `FillFromGeoJSON` -/
def fillFromGeoJSON : Doc ν → Option (List (Imported ν))
  | .collection fs => fillFrom fs 0
  | .feature f => fillFrom [f] 0
  | .geometry _ => some []

def getTag (tags : List (String × TagVal ν)) (k : String) : Option (TagVal ν) :=
  (tags.find? fun t => t.1 == k).map (·.2)

/-- `Tags.GeometryLen` -/
def geometryLen (tags : List (String × TagVal ν)) : Nat :=
  match getTag tags pointTag with
  | some _ => 1
  | none =>
    match getTag tags pathTag with
    | some (.points l) => l.length
    | _ => 0

/-- `ValidateFeature` as far as imported features can fail it -/
def valid (f : Imported ν) : Bool :=
  match f.ftype with
  | .path => geometryLen f.tags ≥ 2
  | _ => true

/-- `AddFeatures.Apply` on an empty world: the features added, and whether every one was -/
def applyAll : List (Imported ν) → List (Imported ν) × Bool
  | [] => ([], true)
  | f :: fs => if valid f then let r := applyAll fs; (f :: r.1, r.2) else ([], false)

/-- `FindFeatureByID` -/
def findByID (w : List (Imported ν)) (t : FType) (id : Nat) : Option (Imported ν) :=
  w.find? fun f => f.ftype == t && f.id == id

/-- what the accessors of a world feature report -/
inductive ObsGeom (ν : Type) where
  | point (c : Coord ν)
  | path (cs : List (Coord ν))
  | area (ps : List (List (List (Coord ν))))
  | invalid
  deriving DecidableEq, Repr

def observe (f : Imported ν) : ObsGeom ν :=
  match f.ftype with
  | .area => .area f.polygons
  | _ =>
    match getTag f.tags pointTag with
    | some (.point c) => .point c
    | some _ => .invalid
    | none =>
      match getTag f.tags pathTag with
      | some (.points l) => .path l
      | _ => .invalid

/-! ## what the property demands -/

/-- the b6 feature kind and geometry that hold a GeoJSON geometry faithfully; a MultiPoint or MultiLineString has
no such single feature -/
def expectedGeom : Geom ν → Option (FType × ObsGeom ν)
  | .point c => some (.point, .point c)
  | .lineString cs => some (.path, .path cs)
  | .polygon rs => some (.area, .area [rs.map stripClose])
  | .multiPolygon ps => some (.area, .area (ps.map (·.map stripClose)))
  | .multiPoint _ => none
  | .multiLineString _ => none

/-- class `multi-geometry-dropped` is the complement of this -/
def importable (g : Geom ν) : Bool := (expectedGeom g).isSome

/-- a property whose key is the tag b6 keeps the geometry of this feature kind under (or, for a path, the `point`
tag `Tags.GeometryLen` looks at first) — the former finding `reserved-property-key`; no stored feature has one -/
def reservedClash (f : Feature ν) : Bool :=
  match f.geom with
  | .point _ => f.props.any (·.1 == pointTag)
  | .lineString _ => f.props.any fun kv => kv.1 == pointTag || kv.1 == pathTag
  | _ => false

/-- shapes that are GeoJSON geometries at all: a line string has two or more positions, a ring is not empty -/
def wellShaped (g : Geom ν) : Bool :=
  match g with
  | .lineString cs => cs.length ≥ 2
  | .polygon rs => !rs.any (·.isEmpty)
  | .multiPolygon ps => !ps.any (·.any (·.isEmpty))
  | _ => true

/-- feature `i` of the collection is in the world `w`, once, with its geometry and its properties readable under
their own keys -/
def importedFaithfullyRaw (w : List (Imported ν)) (f : Feature ν) (i : Nat) : Bool :=
  match expectedGeom f.geom with
  | none => false
  | some (t, g) =>
    match findByID w t i with
    | none => false
    | some x =>
      observe x == g
      && f.props.all (fun kv => getTag x.tags kv.1 == some (.str kv.2))
      && (w.filter fun y => y.id == i).length == 1

/-- feature `i` of the collection is in the world `w`, once, with its geometry and every property readable under
the key it is stored under (`storedKey`: its own key, except for the two reserved ones) -/
def importedFaithfully (w : List (Imported ν)) (f : Feature ν) (i : Nat) : Bool :=
  importedFaithfullyRaw w (stored f) i

/-- the world after `import-geojson` of a collection into an empty world (`none` = panic) -/
def importCollection (fs : List (Feature ν)) : Option (List (Imported ν)) :=
  (fillFromGeoJSON (.collection fs)).map fun a => (applyAll a).1

end B6.Model.GeoJSON
