/-!
# Model of the decision logic of the spatial predicates (spatial.go) — C05

Every S2 primitive the predicates call (`Cell.ContainsPoint`, `Polyline.IntersectsCell`,
`Polygon.IntersectsCell`, `Polygon.ContainsPoint`, `Polygon.Intersects`, `Polyline.Intersects`,
`Project`+distance / `Cap.ContainsPoint`, `Sign`) enters as an entry of a *primitive table* for one
(query, feature) pair: the table holds the value of every call the code could make, in the order of the
Go loops.  The functions below mirror the control flow of the Go code on such a table (early exits,
loop order, the `return` inside a loop, the vertex-count shortcut, the panic of `p.Loop(0)` on a polygon
without loops = `none`).

`fixed = false` is the code as found, `fixed = true` the repaired code
(fixes/C05-multipolygon-point-any-polygon.patch, fixes/C05-cap-polygon-centre-containment.patch).
-/
namespace B6.Model.SpatialPred

def anyTrue (bs : List Bool) : Bool := bs.any id

/-! ## cellsIntersectFeature -/

inductive CellsTable where
  | point (hits : List Bool)              -- per query cell: `c.ContainsPoint(f.Point())`
  | path (hits : List Bool)               -- per query cell: `polyline.IntersectsCell(c)`
  | area (hits : List (List Bool))        -- per feature polygon, per query cell: `polygon.IntersectsCell(c)`
  | other                                 -- not a Geometry / invalid geometry type
deriving Repr

def cellsIntersectFeature : CellsTable → Bool
  | .point hits => anyTrue hits
  | .path hits => anyTrue hits
  | .area hits => hits.any anyTrue
  | .other => false

/-! ## IntersectsCap.Matches, IntersectsPolygon, CapIntersectsPolygon -/

/-- one edge of a loop: `c.ContainsPoint(s2.Project(c.Center(), v0, v1))`, `s2.Sign(c.Center(), v0, v1)` -/
structure EdgeRow where
  within : Bool
  left : Bool
deriving Repr, DecidableEq

structure CapPoly where
  nv0 : Nat                   -- `p.Loop(0).NumVertices()` (meaningless when there is no loop)
  interior : List Bool        -- per cell of the cap's interior covering: `p.IntersectsCell(cell)`
  exterior : List Bool        -- per cell of the cap's exterior covering: `p.IntersectsCell(cell)`
  centreIn : Bool             -- `p.ContainsPoint(c.Center())`
  loops : List (List EdgeRow) -- per loop, per edge
deriving Repr

/-- code as found: early exit on an edge within the radius, else parity of the loops the centre is to the
left of every edge of -/
def capIntersectsPolygonParity (loops : List (List EdgeRow)) : Bool :=
  go loops 0
where
  go : List (List EdgeRow) → Nat → Bool
    | [], inside => inside % 2 == 1
    | l :: ls, inside =>
      if l.any (·.within) then true
      else go ls (if l.all (·.left) then inside + 1 else inside)

/-- repaired code: the centre is inside the polygon, or some edge comes within the radius -/
def capIntersectsPolygonFixed (t : CapPoly) : Bool :=
  t.centreIn || t.loops.any fun l => l.any (·.within)

def capIntersectsPolygon (fixed : Bool) (t : CapPoly) : Bool :=
  if fixed then capIntersectsPolygonFixed t else capIntersectsPolygonParity t.loops

def indexUseFasterAboveVertexCount : Nat := 16

/-- `IntersectsCap.IntersectsPolygon`; `none` = Go panic (`p.Loop(0)` on a polygon without loops, code as
found; the repaired code asks `p.NumLoops() > 0` first) -/
def intersectsPolygon (fixed : Bool) (t : CapPoly) : Option Bool :=
  if t.loops.isEmpty && !fixed then none
  else if !t.loops.isEmpty && t.nv0 > indexUseFasterAboveVertexCount then
    if anyTrue t.interior then some true
    else if !anyTrue t.exterior then some false
    else some (capIntersectsPolygon fixed t)
  else some (capIntersectsPolygon fixed t)

inductive CapTable where
  | point (inCap : Bool)          -- `cap.ContainsPoint(f.Point())`
  | path (projInCap : Bool)       -- `cap.ContainsPoint(polyline.Project(centre))`
  | area (polys : List CapPoly)
  | other
deriving Repr

/-- the `for j … { if i.IntersectsPolygon(…) { return true } }` loop: a panic is only reached if no earlier
polygon answered true -/
def anyPolygon (fixed : Bool) : List CapPoly → Option Bool
  | [] => some false
  | p :: ps =>
    match intersectsPolygon fixed p with
    | none => none
    | some true => some true
    | some false => anyPolygon fixed ps

def capMatches (fixed : Bool) : CapTable → Option Bool
  | .point b => some b
  | .path b => some b
  | .area ps => anyPolygon fixed ps
  | .other => some false

/-! ## pointIntersectsFeature -/

inductive PointTable where
  | point (eq : Bool)              -- `f.Point() == point`
  | path (within : Bool)           -- `projection.Distance(point) < MetersToAngle(0.001)`
  | area (contains : List Bool)    -- per feature polygon: `polygon.ContainsPoint(point)`
  | other
deriving Repr

def pointIntersectsFeature : PointTable → Bool
  | .point b => b
  | .path b => b
  | .area cs => anyTrue cs
  | .other => false

/-! ## polylineIntersectsFeature (with the documented vertex approximation against polygons) -/

inductive LineTable where
  | point (within : Bool)              -- `projection.Distance(f.Point()) < MetersToAngle(0.001)`
  | path (crosses : Bool)              -- `f.Polyline().Intersects(polyline)`
  | area (vertexIn : List (List Bool)) -- per feature polygon, per vertex of the query polyline: `ContainsPoint`
  | other
deriving Repr

/-- `polylineIntersectsPolygon`: some vertex of the polyline is inside the polygon -/
def polylineIntersectsPolygon (vertexIn : List Bool) : Bool := anyTrue vertexIn

def polylineIntersectsFeature : LineTable → Bool
  | .point b => b
  | .path b => b
  | .area vs => vs.any polylineIntersectsPolygon
  | .other => false

/-- `IntersectsPolyline.Matches` for a query polyline of `nq` vertices. `polyline.Project(f.Point())` indexes
vertex `nq-2`: with an empty query polyline the point branch panics (`none`) in the code as found; repaired
(fixes/C05-empty-polyline-query.patch) it answers false. The path and area branches never project. -/
def intersectsPolylineMatches (fixed : Bool) (nq : Nat) (t : LineTable) : Option Bool :=
  match nq, t with
  | 0, .point _ => if fixed then some false else none
  | _, t => some (polylineIntersectsFeature t)

/-! ## multiPolygonIntersectsFeature -/

inductive MpTable where
  | point (contains : List Bool)        -- per query polygon: `polygon.ContainsPoint(f.Point())`
  | path (vertexIn : List (List Bool))  -- per query polygon, per vertex of the feature's polyline
  | area (meets : List (List Bool))     -- per feature polygon a, per query polygon b: `a.Intersects(b)`
  | other
deriving Repr

/-- code as found: `for _, polygon := range polygons { return polygon.ContainsPoint(p) }` — the first
polygon decides; repaired: `if … { return true }` -/
def multiPolygonContainsPoint (fixed : Bool) (contains : List Bool) : Bool :=
  if fixed then anyTrue contains
  else match contains with
    | [] => false
    | c :: _ => c

def multiPolygonIntersectsFeature (fixed : Bool) : MpTable → Bool
  | .point cs => multiPolygonContainsPoint fixed cs
  | .path vs => vs.any polylineIntersectsPolygon
  | .area ms => ms.any anyTrue
  | .other => false

/-! ## IntersectsFeature -/

/-- what `toGeometryQuery` turns the named feature into, with the table of that query against the feature -/
inductive GeoQuery where
  | point (t : PointTable)   -- named feature is a point  → IntersectsPoint
  | line (t : LineTable)     -- named feature is a path   → IntersectsPolyline
  | mp (t : MpTable)         -- named feature is an area  → IntersectsMultiPolygon
  | empty                    -- missing / no geometry     → Empty{}
deriving Repr

def geoMatches (fixed : Bool) : GeoQuery → Bool
  | .point t => pointIntersectsFeature t
  | .line t => polylineIntersectsFeature t
  | .mp t => multiPolygonIntersectsFeature fixed t
  | .empty => false

/-- code as found: `i.ID == f.FeatureID() || i.toGeometryQuery(w).Matches(f, w)`; repaired
(fixes/C04-intersects-feature-without-geometry.patch): `false` when the geometry query is `Empty{}` — a named
feature without geometry intersects nothing, itself included, which is what `Compile` answers -/
def intersectsFeatureMatches (fixed : Bool) (sameID : Bool) (q : GeoQuery) : Bool :=
  match q with
  | .empty => if fixed then false else sameID
  | q => sameID || geoMatches fixed q

/-- `b6.MightIntersect.Matches`: constantly true (the query only selects candidates by covering) -/
def mightIntersectMatches : Bool := true

/-! ## Exploration oracle: exact point-in-polygon on integer (E7) coordinates -/

abbrev Pt := Int × Int

/-- does the half-open edge a→b cross the ray from p towards +x ? (exact integer arithmetic) -/
def edgeCrosses (p a b : Pt) : Bool :=
  if (a.2 > p.2) != (b.2 > p.2) then
    -- x-coordinate of the edge at height p.2 is  a.1 + (p.2 - a.2) * (b.1 - a.1) / (b.2 - a.2)
    let lhs := (p.1 - a.1) * (b.2 - a.2)
    let rhs := (p.2 - a.2) * (b.1 - a.1)
    if b.2 > a.2 then decide (lhs < rhs) else decide (lhs > rhs)
  else false

def loopEdges : List Pt → List (Pt × Pt)
  | [] => []
  | p :: ps => (p :: ps).zip (ps ++ [p])

/-- crossing-number parity for one loop -/
def loopContains (loop : List Pt) (p : Pt) : Bool :=
  ((loopEdges loop).filter fun e => edgeCrosses p e.1 e.2).length % 2 == 1

/-- S2 polygons: a point is inside iff it is inside an odd number of the (nested) loops -/
def polygonContains (loops : List (List Pt)) (p : Pt) : Bool :=
  (loops.filter fun l => loopContains l p).length % 2 == 1

/-- squared distance from p to the segment a–b is below `m²` (exact: compares cross² with m²·len² when the
foot of the perpendicular lies on the segment, else the nearer end point) -/
def nearSegment (m : Int) (p a b : Pt) : Bool :=
  let dx := b.1 - a.1
  let dy := b.2 - a.2
  let ex := p.1 - a.1
  let ey := p.2 - a.2
  let len2 := dx * dx + dy * dy
  let dot := ex * dx + ey * dy
  if len2 == 0 || dot ≤ 0 then decide (ex * ex + ey * ey < m * m)
  else if dot ≥ len2 then
    let fx := p.1 - b.1
    let fy := p.2 - b.2
    decide (fx * fx + fy * fy < m * m)
  else
    let cr := ex * dy - ey * dx
    decide (cr * cr < m * m * len2)

def nearBoundary (m : Int) (loops : List (List Pt)) (p : Pt) : Bool :=
  loops.any fun l => (loopEdges l).any fun e => nearSegment m p e.1 e.2

end B6.Model.SpatialPred
