/-!
# Model of the change branch of the two evaluators — C26

Anchors: `grpc/service.go: service.Evaluate`, `api/evaluator.go: Evaluator.EvaluateExpression`,
`ingest/change.go: AddFeatures/AddTags/RemoveTags/MergedChange .Apply`.

What is modelled
* a world as a list of features keyed by ID (`find`/`put`); a feature = ID, tag list, point references
  (paths).  Only what decides whether `Apply` fails is kept: `AddTag`/`RemoveTag` fail iff the feature
  does not exist; `AddFeature` fails iff `ValidateFeature` fails (invalid ID; a path with fewer than two
  points or with a reference that is not an existing point).
* `Change.Apply` for the four change types *as written*: `AddTags`/`RemoveTags`/`AddFeatures` stop at the
  first failing element and leave the earlier ones applied; `AddFeatures` returns the de-duplicated IDs (it
  collects them in a Go map) and an EMPTY collection on failure; `MergedChange` first runs every part on a
  throw-away overlay (the "canary") and touches the world only when all of them passed, then applies the
  parts again and concatenates their ID collections.
* the change branch of both evaluators as a function of (evaluation outcome, world): what the caller is
  told and what the world is afterwards.  `uiEvaluate` mirrors the *repaired* code
  (`/verif/fixes/C26-ui-evaluator-swallows-apply-error.patch`); `uiEvaluateBeforeFix` is the code as it was.

Outside the model: lock handling (C40), evaluation of the expression itself (C21), tag-list order and the
Go-slice behaviour of `Tags` (C39), indexed vs. non-indexed tag storage in the overlay (C12), closed paths
and areas (C13/C37), the proto encoding of the returned collection (it cannot fail for feature IDs; the
harness decodes the real response).
-/
namespace B6.Model.Service

inductive Kind where
  | invalid | point | path
  deriving DecidableEq, Repr

structure FId where
  kind : Kind
  val : Nat
  deriving DecidableEq, Repr

abbrev Tags := List (String × String)

structure Feature where
  id : FId
  tags : Tags
  refs : List FId
  deriving DecidableEq, Repr

abbrev World := List Feature

/-- `FindFeatureByID` -/
def find (w : World) (id : FId) : Option Feature :=
  match w with
  | [] => none
  | f :: rest => if f.id = id then some f else find rest id

/-- store a feature under its ID (replace or insert) -/
def put (w : World) (f : Feature) : World :=
  match w with
  | [] => [f]
  | g :: rest => if g.id = f.id then f :: rest else g :: put rest f

/-- `Tags.ModifyOrAddTag` on a list with distinct keys -/
def setTag (t : Tags) (k v : String) : Tags :=
  match t with
  | [] => [(k, v)]
  | (k', v') :: rest => if k' = k then (k', v) :: rest else (k', v') :: setTag rest k v

/-- `Tags.RemoveTag` on a list with distinct keys -/
def delTag (t : Tags) (k : String) : Tags := t.filter (fun p => p.1 != k)

/-- `FindLocationByID` succeeds: the ID names an existing point -/
def isPoint (w : World) (id : FId) : Bool :=
  id.kind == Kind.point && (find w id).isSome

/-- `ValidateFeature` (open paths and points) -/
def validate (w : World) (f : Feature) : Bool :=
  match f.id.kind with
  | .invalid => false
  | .point => true
  | .path => decide (2 ≤ f.refs.length) && f.refs.all (isPoint w)

/-- `MutableOverlayWorld.AddFeature`; `none` = error, world untouched -/
def addFeature (w : World) (f : Feature) : Option World :=
  if validate w f then some (put w f) else none

/-- `MutableOverlayWorld.AddTag`; `none` = "No feature with ID" -/
def addTag (w : World) (id : FId) (k v : String) : Option World :=
  match find w id with
  | none => none
  | some f => some (put w { f with tags := setTag f.tags k v })

/-- `MutableOverlayWorld.RemoveTag` -/
def removeTag (w : World) (id : FId) (k : String) : Option World :=
  match find w id with
  | none => none
  | some f => some (put w { f with tags := delTag f.tags k })

/-- What `Apply` returns and leaves behind: the world afterwards, the returned ID collection, `ok = (err == nil)`. -/
structure Res where
  world : World
  ids : List FId
  ok : Bool
  deriving DecidableEq, Repr

/-- `AddFeatures.Apply`; `seen` = keys of the Go map in first-insertion order -/
def applyAddFeatures (w : World) (fs : List Feature) (seen : List FId) : Res :=
  match fs with
  | [] => ⟨w, seen, true⟩
  | f :: rest =>
    match addFeature w f with
    | none => ⟨w, [], false⟩
    | some w' => applyAddFeatures w' rest (if f.id ∈ seen then seen else seen ++ [f.id])

/-- `AddTags.Apply` -/
def applyAddTags (w : World) (ts : List (FId × String × String)) (acc : List FId) : Res :=
  match ts with
  | [] => ⟨w, acc, true⟩
  | (id, k, v) :: rest =>
    match addTag w id k v with
    | none => ⟨w, acc, false⟩
    | some w' => applyAddTags w' rest (acc ++ [id])

/-- `RemoveTags.Apply` -/
def applyRemoveTags (w : World) (ts : List (FId × String)) (acc : List FId) : Res :=
  match ts with
  | [] => ⟨w, acc, true⟩
  | (id, k) :: rest =>
    match removeTag w id k with
    | none => ⟨w, acc, false⟩
    | some w' => applyRemoveTags w' rest (acc ++ [id])

mutual
inductive Change where
  | addFeatures (fs : List Feature)
  | addTags (ts : List (FId × String × String))
  | removeTags (ts : List (FId × String))
  | merged (cs : Changes)
inductive Changes where
  | nil
  | cons (c : Change) (cs : Changes)
end

/-! ### worlds that reject every write

`ingest.ReadOnlyWorld` (what `ReadOnlyWorlds.FindOrCreateWorld` hands out when b6 runs with `--read-only`):
`AddFeature`, `AddTag`, `RemoveTag` all return "World is read-only".  `ro = true` below.  The canary of
`MergedChange.Apply` is `NewMutableOverlayWorld(w)` — a MUTABLE overlay over the read-only world — so the canary
accepts what the real world then rejects: the real pass can fail although the canary pass succeeded. -/

/-- `AddFeatures.Apply` on a world of the given kind -/
def applyAddFeaturesR (ro : Bool) (w : World) (fs : List Feature) (seen : List FId) : Res :=
  if ro then (match fs with
    | [] => ⟨w, seen, true⟩
    | _ :: _ => ⟨w, [], false⟩)      -- the first `AddFeature` fails; an empty collection is returned
  else applyAddFeatures w fs seen

/-- `AddTags.Apply` on a world of the given kind -/
def applyAddTagsR (ro : Bool) (w : World) (ts : List (FId × String × String)) (acc : List FId) : Res :=
  if ro then (match ts with
    | [] => ⟨w, acc, true⟩
    | _ :: _ => ⟨w, acc, false⟩)
  else applyAddTags w ts acc

/-- `RemoveTags.Apply` on a world of the given kind -/
def applyRemoveTagsR (ro : Bool) (w : World) (ts : List (FId × String)) (acc : List FId) : Res :=
  if ro then (match ts with
    | [] => ⟨w, acc, true⟩
    | _ :: _ => ⟨w, acc, false⟩)
  else applyRemoveTags w ts acc

mutual
/-- `Change.Apply` on a world that is read-only (`ro = true`) or mutable -/
def apply (ro : Bool) (w : World) : Change → Res
  | .addFeatures fs => applyAddFeaturesR ro w fs []
  | .addTags ts => applyAddTagsR ro w ts []
  | .removeTags ts => applyRemoveTagsR ro w ts []
  | .merged cs => if canaryOk w cs then mergedPass ro w cs [] else ⟨w, [], false⟩
/-- first loop of `MergedChange.Apply`: every part applied to the canary — a mutable overlay, whatever `w` is -/
def canaryOk (w : World) : Changes → Bool
  | .nil => true
  | .cons c cs => if (apply false w c).ok then canaryOk (apply false w c).world cs else false
/-- second loop of `MergedChange.Apply`: the parts applied to the REAL world, ID collections concatenated; a part
that fails here although the canary accepted it ends the loop with the error "change partially applied" -/
def mergedPass (ro : Bool) (w : World) : Changes → List FId → Res
  | .nil, acc => ⟨w, acc, true⟩
  | .cons c cs, acc =>
    if (apply ro w c).ok then mergedPass ro (apply ro w c).world cs (acc ++ (apply ro w c).ids)
    else ⟨(apply ro w c).world, acc, false⟩
end

mutual
/-- a variant of `MergedChange.Apply` whose second loop does NOT look at the error of a part ("the canary accepted
every change, so they apply cleanly"): it goes on and returns success -/
def applyUnchecked (ro : Bool) (w : World) : Change → Res
  | .addFeatures fs => applyAddFeaturesR ro w fs []
  | .addTags ts => applyAddTagsR ro w ts []
  | .removeTags ts => applyRemoveTagsR ro w ts []
  | .merged cs => if canaryOk w cs then mergedPassUnchecked ro w cs [] else ⟨w, [], false⟩
def mergedPassUnchecked (ro : Bool) (w : World) : Changes → List FId → Res
  | .nil, acc => ⟨w, acc, true⟩
  | .cons c cs, acc => mergedPassUnchecked ro (applyUnchecked ro w c).world cs (acc ++ (applyUnchecked ro w c).ids)
end

/-! ## The evaluators' change branch -/

/-- result of `api.Evaluate(simplified, &context)` as far as the branch looks at it -/
inductive EvalOut where
  | error                 -- evaluation failed
  | plain                 -- a value that is not an `ingest.Change`
  | change (c : Change)

/-- what the caller gets -/
inductive Resp where
  | error                 -- `nil, err`
  | plain                 -- the evaluated value, passed through
  | ids (xs : List FId)   -- the collection returned by `Apply`
  deriving DecidableEq, Repr

/-- `service.Evaluate`: version gate, evaluation, then
`if change, ok := v.(ingest.Change); ok { …; v, err = apply(change); …; if err != nil { return nil, err } }`. -/
def grpcEvaluate (versionOk : Bool) (ro : Bool) (w : World) (e : EvalOut) : World × Resp :=
  if !versionOk then (w, .error) else
  match e with
  | .error => (w, .error)
  | .plain => (w, .plain)
  | .change c =>
    if (apply ro w c).ok then ((apply ro w c).world, .ids (apply ro w c).ids)
    else ((apply ro w c).world, .error)

/-- `Evaluator.EvaluateExpression` after the repair: the error of `change.Apply` is returned. -/
def uiEvaluate (ro : Bool) (w : World) (e : EvalOut) : World × Resp :=
  match e with
  | .error => (w, .error)
  | .plain => (w, .plain)
  | .change c =>
    if (apply ro w c).ok then ((apply ro w c).world, .ids (apply ro w c).ids)
    else ((apply ro w c).world, .error)

/-- `Evaluator.EvaluateExpression` as it was (snapshot ae9f79b):
`modified, err = change.Apply(world); …; return &AppliedChange{Change: change, Modified: modified}, nil`. -/
def uiEvaluateBeforeFix (ro : Bool) (w : World) (e : EvalOut) : World × Resp :=
  match e with
  | .error => (w, .error)
  | .plain => (w, .plain)
  | .change c => ((apply ro w c).world, .ids (apply ro w c).ids)

end B6.Model.Service
