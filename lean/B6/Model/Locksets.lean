import B6.Model.Proto.Basic
/-!
# Lock discipline of the lazily cached fields and of the parallel build — C35

Anchors: `ingest/compact/world.go` (`FeaturesByID.FindFeatureByID` — the LRU cache under `f.lock`;
`wrappedMarshalledPhysicalFeature.Polyline` — `polyline` under `m.lock`; `marshalledArea.Polygon/Feature` —
`geometry`, `polygons` under `m.lock`), `ingest/basic.go` (`BasicWorldBuilder.Finish`), `ingest/validate.go`
(`invertPoints`).

Three small models.

1. **Locksets** (generic): threads running straight-line programs of `acq l / rel l / read x / write x` over
   mutexes; a *race* is a reachable state in which two different threads are both about to access the same
   cell and one of the accesses is a write.
2. **The cache cells**: a fill-once cell behind a mutex (`polyline`, `geometry`, `polygons[i]`) with the check
   and the fill as separate steps, and the LRU of `FindFeatureByID` (get — compute outside the lock — add) with
   eviction; both parameterised by the uncached function.
3. **The stages of `Finish`**: which feature a validation worker writes (a path it may reverse in place) and
   which ones it reads (the paths of an area).

`Access` is the row type of the table that `/verif/tools/locksets` regenerates from the source on every run
(`B6/Gen/Locksets.lean`); `B6.Props.C35` compares that table with the expectations written here.
-/
namespace B6.Model.Locksets
open B6.Model.Proto

/-- one access of a method to a field of its receiver -/
structure Access where
  typ : String
  method : String
  field : String
  kind : String       -- read | write | addr | call:<method>
  locked : Bool       -- the receiver's own mutex is held
  deriving DecidableEq, Repr

/-! ## 1. Locksets -/

inductive Action where
  | acq (l : Nat)
  | rel (l : Nat)
  | read (x : Nat)
  | write (x : Nat)
  deriving DecidableEq, Repr

structure Thread where
  prog : List Action
  pc : Nat
  deriving DecidableEq, Repr

structure LState where
  owner : Nat → Option Nat      -- mutex ↦ index of the thread holding it
  threads : List Thread

def Thread.next (t : Thread) : Option Action := t.prog[t.pc]?

def advance (s : LState) (i : Nat) (t : Thread) : List Thread := s.threads.set i { t with pc := t.pc + 1 }

/-- the step of thread `i`: `Lock` needs the mutex free; `Unlock` is only modelled for the holder -/
def threadStep (s : LState) (i : Nat) (t : Thread) : List LState :=
  match t.next with
  | none => []
  | some (.acq l) =>
    guard (s.owner l = none) { owner := fun l' => if l' = l then some i else s.owner l', threads := advance s i t }
  | some (.rel l) =>
    guard (s.owner l = some i) { owner := fun l' => if l' = l then none else s.owner l', threads := advance s i t }
  | some (.read _) => [{ s with threads := advance s i t }]
  | some (.write _) => [{ s with threads := advance s i t }]

def lstep (s : LState) : List LState := forWorkers s.threads (threadStep s)

def linit (progs : List (List Action)) : LState :=
  { owner := fun _ => none, threads := progs.map (fun p => { prog := p, pc := 0 }) }

/-- mutexes held after executing a straight-line prefix -/
def heldAfter (as : List Action) : List Nat :=
  as.foldl (fun held a => match a with
    | .acq l => l :: held
    | .rel l => held.erase l
    | _ => held) []

def Action.cell? : Action → Option Nat
  | .read x => some x
  | .write x => some x
  | _ => none

def Action.isWrite : Action → Bool
  | .write _ => true
  | _ => false

/-- the lockset discipline for cell `x` and mutex `L`: at every access to `x` in every program, `L` is held -/
def Disciplined (progs : List (List Action)) (x L : Nat) : Prop :=
  ∀ p ∈ progs, ∀ (pc : Nat) (a : Action), p[pc]? = some a → a.cell? = some x → L ∈ heldAfter (p.take pc)

/-- two different threads are about to access `x`, one of them writing -/
def RacyOn (s : LState) (x : Nat) : Prop :=
  ∃ (i j : Nat) (ti tj : Thread) (ai aj : Action), i ≠ j ∧ s.threads[i]? = some ti ∧ s.threads[j]? = some tj ∧
    ti.next = some ai ∧ tj.next = some aj ∧ ai.cell? = some x ∧ aj.cell? = some x ∧
    (ai.isWrite = true ∨ aj.isWrite = true)

/-! ## 2a. A fill-once cell behind a mutex

    m.lock.Lock(); defer m.lock.Unlock()
    if m.polyline == nil { m.polyline = compute() }
    return &m.polyline
-/

inductive CPc where
  | lock | check | fill | ret | unlock | done
  deriving DecidableEq, Repr

structure Caller where
  pc : CPc
  result : Option Nat := none
  deriving DecidableEq, Repr

structure CellState where
  holder : Option Nat
  cell : Option Nat
  writes : Nat                -- ghost: how many times the cell was written
  callers : List Caller
  deriving DecidableEq, Repr

def cellCallerStep (compute : Nat) (s : CellState) (i : Nat) (c : Caller) : List CellState :=
  let set (s : CellState) (c' : Caller) : CellState := { s with callers := s.callers.set i c' }
  match c.pc with
  | .lock => guard (s.holder = none) (set { s with holder := some i } { c with pc := .check })
  | .check => match s.cell with
    | none => [set s { c with pc := .fill }]
    | some _ => [set s { c with pc := .ret }]
  | .fill => [set { s with cell := some compute, writes := s.writes + 1 } { c with pc := .ret }]
  | .ret => [set s { c with pc := .unlock, result := s.cell }]
  | .unlock => [set { s with holder := none } { c with pc := .done }]
  | .done => []

def cellStep (compute : Nat) (s : CellState) : List CellState := forWorkers s.callers (cellCallerStep compute s)

def cellInit (n : Nat) : CellState :=
  { holder := none, cell := none, writes := 0, callers := List.replicate n { pc := .lock } }

/-! ## 2b. The LRU cache of `FindFeatureByID`

    f.lock.Lock(); hit, ok := f.cache.Get(id); f.lock.Unlock()         -- get   (one critical section)
    if ok { return hit }
    feature := f.findWithoutCache(id)                                   -- compute (no lock)
    if feature != nil { f.lock.Lock(); f.cache.Add(id, feature); f.lock.Unlock() }   -- add (one critical section)
    return feature

Each critical section is one step (inside it only the `lru.Cache` is touched and nothing blocks; that no two
of them overlap is what the lockset theorem gives for the `cache` cell).  `lru.Cache`: most recently used
first, the oldest entry evicted beyond the capacity. -/

abbrev Cache := List (Nat × Nat)

def cacheGet (c : Cache) (id : Nat) : Option (Nat × Cache) :=
  match c.find? (fun p => p.1 == id) with
  | some (_, v) => some (v, (id, v) :: c.filter (fun p => p.1 != id))
  | none => none

def cacheAdd (cap : Nat) (c : Cache) (id v : Nat) : Cache :=
  ((id, v) :: c.filter (fun p => p.1 != id)).take cap

inductive QPc where
  | get | compute | add (v : Nat) | done
  deriving DecidableEq, Repr

structure Querier where
  todo : List Nat                      -- feature IDs still to look up
  pc : QPc
  results : List (Nat × Option Nat)    -- (id, what FindFeatureByID returned)
  deriving DecidableEq, Repr

structure LruState where
  cache : Cache
  queriers : List Querier
  deriving DecidableEq, Repr

def lruQuerierStep (cap : Nat) (find : Nat → Option Nat) (s : LruState) (i : Nat) (q : Querier) : List LruState :=
  let set (s : LruState) (q' : Querier) : LruState := { s with queriers := s.queriers.set i q' }
  match q.todo, q.pc with
  | [], _ => []
  | id :: rest, .get =>
    match cacheGet s.cache id with
    | some (v, c') => [set { s with cache := c' } { todo := rest, pc := .get, results := q.results ++ [(id, some v)] }]
    | none => [set s { q with pc := .compute }]
  | id :: rest, .compute =>
    match find id with
    | some v => [set s { q with pc := .add v }]
    | none => [set s { todo := rest, pc := .get, results := q.results ++ [(id, none)] }]
  | id :: rest, .add v =>
    [set { s with cache := cacheAdd cap s.cache id v } { todo := rest, pc := .get, results := q.results ++ [(id, some v)] }]
  | _ :: _, .done => []

def lruStep (cap : Nat) (find : Nat → Option Nat) (s : LruState) : List LruState :=
  forWorkers s.queriers (lruQuerierStep cap find s)

def lruInit (todos : List (List Nat)) : LruState :=
  { cache := [], queriers := todos.map (fun t => { todo := t, pc := .get, results := [] }) }

/-! ## 3. The validation stages of `BasicWorldBuilder.Finish`

A worker validating a path may reverse its point list in place (`invertPoints`, a write to the path); a worker
validating an area reads the paths the area refers to (`ValidateArea` → `ValidatePathForArea` → `PointAt`).
Points are only read.  Workers of one stage run concurrently; stages are separated by `wg.Wait()`. -/

inductive BKind where
  | point | path | area (paths : List Nat) | other
  deriving DecidableEq, Repr

structure BFeature where
  id : Nat
  kind : BKind
  deriving DecidableEq, Repr

def BFeature.isArea (f : BFeature) : Bool :=
  match f.kind with
  | .area _ => true
  | _ => false

/-- features a validation worker writes -/
def vWrites (f : BFeature) : List Nat :=
  match f.kind with
  | .path => [f.id]
  | _ => []

/-- path features a validation worker reads (besides the one it validates) -/
def vReads (f : BFeature) : List Nat :=
  match f.kind with
  | .area ps => ps
  | _ => []

/-- two workers of the same stage, one writing what the other reads or writes -/
def conflict (f g : BFeature) : Bool :=
  f.id != g.id && ((vWrites f).any (fun x => (vReads g).contains x || (vWrites g).contains x) ||
                   (vWrites g).any (fun x => (vReads f).contains x))

def stageConflict (stage : List BFeature) : Bool :=
  stage.any (fun f => stage.any (fun g => conflict f g))

/-- the stage filters as extracted from the source (`!=FeatureTypeArea` / `==FeatureTypeArea`) -/
def stageOf (filter : String) (fs : List BFeature) : List BFeature :=
  if filter == "!=FeatureTypeArea" then fs.filter (fun f => !f.isArea)
  else if filter == "==FeatureTypeArea" then fs.filter (fun f => f.isArea)
  else fs

end B6.Model.Locksets
