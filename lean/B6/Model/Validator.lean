/-!
# Builders as folds over an arrival order (C36)

Executable models of the parts of the two world builders whose result could depend on the order in which
goroutines deliver features:

* `compact.Validator` (ingest/compact/build.go): `ValidatePath` / `ValidateArea` / `validateArea` /
  `validateQueue`.  Every call runs its map/queue part under `v.lock`, so a parallel build is one
  *arrival order* (the order in which the goroutines take the lock) and the validator is a left fold
  over it.  The verdict of `ingest.ValidatePath` on a path (and of `isLoop`) is computed before the lock
  from the path and the point locations, which are complete before this pass starts — it is a function
  of the path alone and is carried by the arrival.
* `ingest.BasicWorldBuilder.AddFeature` under the lock of `NewWorldFromSource`: a map insert per arrival.
* `encoding.Uint64MapBuilder`: the reserve pass (`Reserve`) and the write pass (`WriteItem`) both append
  to the bucket `id mod 2^bucketBits`; the reader (`FindFirstWithTag`, `FillTagged`) scans a bucket.

Maps are functions `Nat → Option _` (Go maps are only read by key here).
-/
namespace B6.Model.Validator

/-- `ValidationState` of build.go (after the C02 fix: `ValidationStateValidNotLoop`). -/
inductive St where
  | valid | invalid | unknown | validNotLoop
  deriving DecidableEq, Repr

/-- what `ValidatePath` found out about a path before taking the lock -/
inductive PV where
  | valid        -- `ingest.ValidatePath` ok and a closed loop of ≥ 3 points
  | validNotLoop -- `ingest.ValidatePath` ok, but not usable under an area
  | invalid      -- dropped
  deriving DecidableEq, Repr

def PV.toSt : PV → St
  | .valid => .valid
  | .validNotLoop => .validNotLoop
  | .invalid => .invalid

inductive Arrival where
  | path (id : Nat) (v : PV)
  | area (id : Nat) (paths : List Nat)
  deriving DecidableEq, Repr

/-- a feature handed to `emitFeature` -/
inductive Out where
  | path (id : Nat)
  | area (id : Nat) (paths : List Nat)
  deriving DecidableEq, Repr

abbrev PMap := Nat → Option St

def setP (m : PMap) (k : Nat) (s : St) : PMap := fun x => if x = k then some s else m x

structure V where
  paths : PMap
  queue : List (Nat × List Nat)

def V.init : V := { paths := fun _ => none, queue := [] }

/-- one iteration of the loop of `validateArea` over a path id -/
def areaStep (acc : PMap × St) (p : Nat) : PMap × St :=
  match acc.1 p with
  | some s =>
    if s = .invalid ∨ s = .validNotLoop then (acc.1, .invalid)
    else if s = .unknown ∧ acc.2 = .valid then (acc.1, .unknown)
    else acc
  | none => (setP acc.1 p .unknown, if acc.2 = .valid then .unknown else acc.2)

/-- `Validator.validateArea`: the state of an area, marking path ids not seen so far as unknown -/
def validateArea (m : PMap) (ps : List Nat) : PMap × St := ps.foldl areaStep (m, .valid)

/-- `Validator.validateQueue`: re-validate the queued areas in order; valid ones are emitted, unknown ones kept -/
def validateQueue (m : PMap) : List (Nat × List Nat) → PMap × List (Nat × List Nat) × List Out
  | [] => (m, [], [])
  | (a, ps) :: rest =>
    let (m1, s) := validateArea m ps
    let (m2, q, out) := validateQueue m1 rest
    match s with
    | .valid => (m2, q, Out.area a ps :: out)
    | .unknown => (m2, (a, ps) :: q, out)
    | _ => (m2, q, out)

/-- one locked call of the validator; returns the features it hands to `emitFeature` -/
def step (v : V) : Arrival → V × List Out
  | .path id pv =>
    let out0 : List Out := if pv = .invalid then [] else [Out.path id]
    let known := (v.paths id).isSome
    let m1 := setP v.paths id pv.toSt
    if known then
      let (m2, q, out) := validateQueue m1 v.queue
      ({ paths := m2, queue := q }, out0 ++ out)
    else ({ v with paths := m1 }, out0)
  | .area a ps =>
    let (m1, s) := validateArea v.paths ps
    match s with
    | .valid => ({ v with paths := m1 }, [Out.area a ps])
    | .unknown => ({ paths := m1, queue := v.queue ++ [(a, ps)] }, [])
    | _ => ({ v with paths := m1 }, [])

def runFrom (v : V) : List Arrival → V × List Out
  | [] => (v, [])
  | a :: rest =>
    let (v1, o1) := step v a
    let (v2, o2) := runFrom v1 rest
    (v2, o1 ++ o2)

/-- everything the validator emits for an arrival order (multiset of `emitFeature` calls) -/
def run (arr : List Arrival) : List Out := (runFrom V.init arr).2

/-! ## what the emitted set should be -/

def pathIds : List Arrival → List Nat
  | [] => []
  | .path id _ :: rest => id :: pathIds rest
  | .area _ _ :: rest => pathIds rest

/-- verdict of the path arrival with this id (the first one; ids are distinct in the theorems) -/
def verdict : List Arrival → Nat → Option PV
  | [], _ => none
  | .path id v :: rest, k => if id = k then some v else verdict rest k
  | .area _ _ :: rest, k => verdict rest k

def emittedPaths : List Arrival → List Out
  | [] => []
  | .path id v :: rest => if v = .invalid then emittedPaths rest else Out.path id :: emittedPaths rest
  | .area _ _ :: rest => emittedPaths rest

def areasOf : List Arrival → List (Nat × List Nat)
  | [] => []
  | .path _ _ :: rest => areasOf rest
  | .area a ps :: rest => (a, ps) :: areasOf rest

def allValid (f : Nat → Option PV) (ps : List Nat) : Bool := ps.all fun p => f p = some .valid

/-- valid paths ∪ areas all of whose paths are present and valid -/
def spec (arr : List Arrival) : List Out :=
  emittedPaths arr ++ ((areasOf arr).filter fun a => allValid (verdict arr) a.2).map fun a => Out.area a.1 a.2

/-! ## the in-memory builder: `AddFeature` per arrival -/

abbrev FMap (α : Type) := Nat → Option α

def setF {α} (m : FMap α) (k : Nat) (x : α) : FMap α := fun y => if y = k then some x else m y

/-- `FeaturesByID.AddFeature` for every arrival, in order (`(*f)[id] = feature`) -/
def basicAdd {α} (key : α → Nat) (arr : List α) : FMap α := arr.foldl (fun m f => setF m (key f) f) (fun _ => none)

/-! ## `Uint64Map` two-pass writes -/

structure Entry where
  id : Nat
  tag : Nat
  data : List UInt8
  deriving DecidableEq, Repr

abbrev Buckets := Nat → List Entry

/-- `WriteItem`: append to the bucket of the id (`nb` = number of buckets) -/
def writeItem (nb : Nat) (b : Buckets) (e : Entry) : Buckets :=
  fun i => if i = e.id % nb then b i ++ [e] else b i

def writeAll (nb : Nat) (es : List Entry) : Buckets := es.foldl (writeItem nb) (fun _ => [])

/-- `Reserve`: bytes added to the bucket of the id (header length is a function of the entry) -/
def reserveItem (nb : Nat) (hdr : Entry → Nat) (r : Nat → Nat) (e : Entry) : Nat → Nat :=
  fun i => if i = e.id % nb then r i + (hdr e + e.data.length) else r i

def reserveAll (nb : Nat) (hdr : Entry → Nat) (es : List Entry) : Nat → Nat :=
  es.foldl (reserveItem nb hdr) (fun _ => 0)

def bucketBytes (hdr : Entry → Nat) (es : List Entry) : Nat := (es.map fun e => hdr e + e.data.length).sum

/-- `FindFirstWithTag` -/
def findFirstWithTag (nb : Nat) (b : Buckets) (id tag : Nat) : Option (List UInt8) :=
  ((b (id % nb)).find? fun e => e.id = id ∧ e.tag = tag).map (·.data)

/-- `FillTagged` -/
def fillTagged (nb : Nat) (b : Buckets) (id : Nat) : List Entry := (b (id % nb)).filter fun e => e.id = id

end B6.Model.Validator
