/-!
# The two worlds' read paths over one `World` (C02, reused by the C36 driver)

`build` turns a source (the features a `FeatureSource` emits, in order) into the data both builders keep
(after the C37 fix of `BasicWorldBuilder.Finish` and the C02 fix of `compact.Validator` the two feature
sets coincide).  The *basic* read path mirrors `ingest/basic.go` + `FeatureReferencesByID`
(`FindReferences` = transitive closure of the referrers index, `traverse`); the *compact* read path
mirrors `ingest/compact/world.go` (`findPathsByPoint`, `FindReferences`, `FindRelationsByFeature`,
`FindAreasByPoint`, `Traverse` / `fillPathSegments` / `isGraphNode` / `countPaths`) working from the
records the compact builder writes: per point the paths of *every source path* that visits it (one per
visit, the closing visit of a closed path excluded, invalid paths included) and its relations (one per
membership); per path the areas of *every source area* over it; per feature its direct relations.

Geometry is a skeleton: a point's location is an opaque word, S2's loop verdicts are inputs (`loopOk`, `cw`).
Every path element is a point reference (OSM-shaped sources).
-/
namespace B6.Model.WorldRead

inductive FT where
  | point | path | area | relation
  deriving DecidableEq, Repr

def FT.rank : FT → Nat
  | .point => 0 | .path => 1 | .area => 2 | .relation => 3

/-- `ns`: 0 = openstreetmap.org/node, 1 = …/relation, 2 = …/way (the string order `FeatureID.Less` uses) -/
structure Id where
  t : FT
  ns : Nat
  v : Nat
  deriving DecidableEq, Repr

/-- `FeatureID.Less` -/
def Id.lt (a b : Id) : Bool :=
  if a.t = b.t then (if a.ns = b.ns then a.v < b.v else a.ns < b.ns) else a.t.rank < b.t.rank

abbrev Tags := List (String × String)

structure Point where
  id : Id
  loc : String
  tags : Tags
  deriving DecidableEq, Repr

structure Path where
  id : Id
  refs : List Id
  loopOk : Bool   -- s2 accepts the loop (only read for closed paths whose points all resolve)
  cw : Bool       -- s2: the loop is clockwise
  tags : Tags
  deriving DecidableEq, Repr

structure Area where
  id : Id
  polys : List (List Id)
  tags : Tags
  deriving DecidableEq, Repr

structure Relation where
  id : Id
  members : List (Id × String)
  tags : Tags
  deriving DecidableEq, Repr

inductive Feature where
  | point (p : Point) | path (p : Path) | area (a : Area) | relation (r : Relation)
  deriving DecidableEq, Repr

abbrev Source := List Feature

def srcPoints : Source → List Point
  | [] => [] | .point p :: r => p :: srcPoints r | _ :: r => srcPoints r
def srcPaths : Source → List Path
  | [] => [] | .path p :: r => p :: srcPaths r | _ :: r => srcPaths r
def srcAreas : Source → List Area
  | [] => [] | .area a :: r => a :: srcAreas r | _ :: r => srcAreas r
def srcRelations : Source → List Relation
  | [] => [] | .relation x :: r => x :: srcRelations r | _ :: r => srcRelations r

/-! ## validation (ingest/validate.go, compact.Validator) -/

def locOf (pts : List Point) (id : Id) : Option String := (pts.find? fun p => p.id = id).map (·.loc)

/-- `Tags.ClosedPath` -/
def closedRefs (refs : List Id) : Bool :=
  match refs.head?, refs.getLast? with
  | some a, some b => a = b
  | _, _ => false

/-- `ingest.ValidatePath` -/
def pathValid (pts : List Point) (p : Path) : Bool :=
  decide (2 ≤ p.refs.length) && p.refs.all (fun r => (locOf pts r).isSome) && (!closedRefs p.refs || p.loopOk)

/-- the references after `invertPoints` -/
def finalRefs (p : Path) : List Id := if closedRefs p.refs && p.cw then p.refs.reverse else p.refs

/-- `ingest.ValidatePathForArea` / `compact.Validator.isLoop` -/
def isLoop (pts : List Point) (p : Path) : Bool :=
  decide (3 ≤ p.refs.length) &&
    (match p.refs.head?, p.refs.getLast? with
     | some a, some b => (match locOf pts a, locOf pts b with
        | some la, some lb => la = lb
        | _, _ => false)
     | _, _ => false)

def findPath (ps : List Path) (id : Id) : Option Path := ps.find? fun p => p.id = id

/-- `ingest.ValidateArea` after paths were validated and broken ones removed -/
def areaValid (pts : List Point) (all : List Path) (a : Area) : Bool :=
  a.polys.all fun ids => ids.all fun pid =>
    match findPath all pid with
    | some p => pathValid pts p && isLoop pts p
    | none => false

structure World where
  points : List Point
  paths : List Path      -- valid paths, references as stored (inverted when clockwise)
  areas : List Area
  relations : List Relation
  srcPaths : List Path   -- every path of the source (what the point records are written from)
  srcAreas : List Area   -- every area of the source (what the path records' area lists are written from)
  deriving Repr

def build (src : Source) : World :=
  let pts := srcPoints src
  let all := srcPaths src
  { points := pts
    paths := (all.filter (pathValid pts)).map fun p => { p with refs := finalRefs p }
    areas := (srcAreas src).filter (areaValid pts all)
    relations := srcRelations src
    srcPaths := all
    srcAreas := srcAreas src }

/-! ## helpers -/

def insertSorted (x : Id) : List Id → List Id
  | [] => [x]
  | y :: r => if x.lt y then x :: y :: r else y :: insertSorted x r

def sortIds (l : List Id) : List Id := l.foldr insertSorted []

def dedup (l : List Id) : List Id := l.foldr (fun x acc => if acc.contains x then acc else x :: acc) []

def hasFeature (w : World) (id : Id) : Bool :=
  match id.t with
  | .point => w.points.any (·.id = id)
  | .path => w.paths.any (·.id = id)
  | .area => w.areas.any (·.id = id)
  | .relation => w.relations.any (·.id = id)

def allIds (w : World) : List Id :=
  w.points.map (·.id) ++ w.paths.map (·.id) ++ w.areas.map (·.id) ++ w.relations.map (·.id)

/-! ## feature lookup, existence, location, enumeration -/

/-- a feature as a world hands it out -/
inductive Rec where
  | point (p : Point) | path (q : Path) | area (a : Area) | relation (r : Relation)
  deriving DecidableEq, Repr

def Rec.id : Rec → Id
  | .point p => p.id | .path q => q.id | .area a => a.id | .relation r => r.id

/-- the in-memory world's `FeaturesByID`: one map from id to feature -/
def allFeatures (w : World) : List Rec :=
  w.points.map .point ++ w.paths.map .path ++ w.areas.map .area ++ w.relations.map .relation

/-- in-memory `FindFeatureByID` -/
def findB (w : World) (x : Id) : Option Rec := (allFeatures w).find? fun r => r.id = x

/-- compact `FindFeatureByID`: the feature blocks of the id's type (`findWithoutCache`) -/
def findC (w : World) (x : Id) : Option Rec :=
  match x.t with
  | .point => (w.points.find? fun p => p.id = x).map .point
  | .path => (w.paths.find? fun q => q.id = x).map .path
  | .area => (w.areas.find? fun a => a.id = x).map .area
  | .relation => (w.relations.find? fun r => r.id = x).map .relation

/-- in-memory `HasFeatureWithID` (map membership) / compact `HasFeatureWithID` (`FindFeatureByID != nil`) -/
def hasB (w : World) (x : Id) : Bool := (findB w x).isSome
def hasC (w : World) (x : Id) : Bool := (findC w x).isSome

/-- in-memory `FindLocationByID`: the feature under the id, if it is a point -/
def locB (w : World) (x : Id) : Option String :=
  match findB w x with
  | some (.point p) => some p.loc
  | _ => none

/-- compact `FindLocationByID`: the point blocks of the id's namespace, by value (the id's type is not looked at) -/
def locC (w : World) (x : Id) : Option String :=
  (w.points.find? fun p => p.id.ns = x.ns ∧ p.id.v = x.v).map (·.loc)

/-- in-memory `EachFeature`: the id map, in some order -/
def idsB (w : World) : List Id := (allFeatures w).map Rec.id

/-- `Uint64Map.EachItem` over a block of `nb` buckets: buckets in order, ids sorted within a bucket -/
def blockOrder (nb : Nat) (l : List Id) : List Id :=
  (List.range nb).flatMap fun b => sortIds (l.filter fun x => x.v % nb = b)

/-- compact `EachFeature`: point, path, area and relation blocks in turn -/
def idsC (w : World) (nb : Nat) : List Id :=
  blockOrder nb (w.points.map (·.id)) ++ blockOrder nb (w.paths.map (·.id)) ++
  blockOrder nb (w.areas.map (·.id)) ++ blockOrder nb (w.relations.map (·.id))

/-! ## the in-memory world's read path -/

/-- `FeatureReferencesByID`: the features that reference `x` directly -/
def directReferrers (w : World) (x : Id) : List Id :=
  (w.paths.filter fun q => q.refs.contains x).map (·.id) ++
  (w.areas.filter fun a => a.polys.any fun ids => ids.contains x).map (·.id) ++
  (w.relations.filter fun r => r.members.any fun m => m.1 = x).map (·.id)

/-- Breadth-first closure of a "direct referrers" function: `FeatureReferencesByID.findReferences` (with the
visited check of the C15 fix) for the in-memory world, `findReferrers` for the compact world. `fuel` bounds the
number of rounds; the worlds give it one more than there are features. -/
def expand (d : Id → List Id) : Nat → List Id → List Id → List Id
  | 0, seen, _ => seen
  | fuel + 1, seen, frontier =>
    let new := dedup ((frontier.flatMap d).filter fun y => !seen.contains y)
    if new.isEmpty then seen else expand d fuel (seen ++ new) new

def closure (w : World) (x : Id) : List Id := expand (directReferrers w) ((allIds w).length + 1) [] [x]

/-- basic `FindReferences(id, typed...)` (`ts = []` = untyped) -/
def refsB (w : World) (x : Id) (ts : List FT) : List Id :=
  (closure w x).filter fun y => ts.isEmpty || ts.contains y.t

def relsB (w : World) (x : Id) : List Id := refsB w x [.relation]
def areasB (w : World) (x : Id) : List Id := refsB w x [.area]

def lastIndexOf (refs : List Id) (x : Id) : Option Nat :=
  (List.range refs.length).foldl (fun acc i => if refs[i]? = some x then some i else acc) none

/-- number of world paths that reference the point -/
def pathCountB (w : World) (p : Id) : Nat := (w.paths.filter fun q => q.refs.contains p).length

def pointTags (w : World) (p : Id) : Option Nat := (w.points.find? fun q => q.id = p).map (·.tags.length)

/-- first `j` among `i, i+1, …` (`k` candidates) with `p j` — a `for i := start; i < end; i++ { if … break }` loop -/
def upFrom (p : Nat → Bool) (i : Nat) : Nat → Option Nat
  | 0 => none
  | k + 1 => if p i then some i else upFrom p (i + 1) k

/-- first `j` among `i-1, i-2, …` (`k` candidates) with `p j` — a `for i := start; i >= end; i-- { if … break }` loop -/
def downFrom (p : Nat → Bool) (i : Nat) : Nat → Option Nat
  | 0 => none
  | k + 1 => if p (i - 1) then some (i - 1) else downFrom p (i - 1) k

/-- the point has a tag besides its location -/
def tagged (w : World) (pid : Id) : Bool := match pointTags w pid with | some k => decide (1 < k) | none => false

/-- the part of the node test of `traverse` (basic.go) that looks at the point at position `i` -/
def interiorB (w : World) (refs : List Id) (i : Nat) : Bool :=
  match refs[i]? with
  | none => false
  | some pid => decide (1 < pathCountB w pid) || tagged w pid

structure Seg where
  path : Id
  first : Nat
  last : Nat
  deriving DecidableEq, Repr

/-- the two loops of `traverse` over a path of `n` points from position `idx`: the first node in either
direction, the end points of the path always being nodes -/
def scanB (node : Nat → Bool) (qid : Id) (n idx : Nat) : List Seg :=
  let isNode := fun i => i = 0 || i + 1 = n || node i
  ((upFrom isNode (idx + 1) (n - (idx + 1))).toList.map fun i => Seg.mk qid idx i) ++
  ((downFrom isNode idx idx).toList.map fun i => Seg.mk qid idx i)

def segmentsB (w : World) (x : Id) (q : Path) : List Seg :=
  match lastIndexOf q.refs x with
  | none => []
  | some idx => scanB (interiorB w q.refs) q.id q.refs.length idx

/-- basic `traverse` -/
def traverseB (w : World) (x : Id) : List Seg :=
  if !hasFeature w x then [] else (w.paths.filter fun q => q.refs.contains x).flatMap (segmentsB w x)

/-! ## the compact world's read path -/

/-- the `PointPathTag` entries `emitPoints` writes for a source path: one per visit, the closing visit of a closed path excluded -/
def visits (q : Path) : List Id := if closedRefs q.refs then q.refs.dropLast else q.refs

/-- the path references in the record of point `x` -/
def pointPaths (w : World) (x : Id) : List Id :=
  w.srcPaths.flatMap fun q => (visits q).filterMap fun r => if r = x then some q.id else none

def pathExists (w : World) (id : Id) : Bool := w.paths.any (·.id = id)

/-- `findPathsByPoint` (each path once) -/
def findPathsByPoint (w : World) (x : Id) : List Id := dedup (pointPaths w x)

/-- the id has a record in the index: its feature is there, or it is a point (a point that is missing but is a
member of a relation, or on a path, still has a references-only record) -/
def hasRecord (w : World) (x : Id) : Bool := hasFeature w x || x.t = .point

/-- `findDirectRelations`: the relations recorded on the feature's own record (nothing for an id without a record) -/
def relsDirectC (w : World) (x : Id) : List Id :=
  if !hasRecord w x then [] else
  dedup ((w.relations.filter fun r => r.members.any fun m => m.1 = x).map (·.id))

/-- `fillAreasFromPath`: the areas listed on the path's record (those of every source area over it) that exist -/
def areasOfPathC (w : World) (z : Id) : List Id :=
  if !pathExists w z then [] else
  (dedup ((w.srcAreas.filter fun a => a.polys.any fun ids => ids.contains z).map (·.id))).filter fun a => w.areas.any (·.id = a)

/-- one step of `findReferrers`: paths through a point, areas of a path, relations of anything -/
def directC (w : World) (z : Id) : List Id :=
  (if z.t = .point then (findPathsByPoint w z).filter (pathExists w) else []) ++
  (if z.t = .path then areasOfPathC w z else []) ++
  relsDirectC w z

/-- `findReferrers` -/
def closureC (w : World) (x : Id) : List Id := expand (directC w) ((allIds w).length + 1) [] [x]

/-- `FindAreasByPoint` -/
def areasC (w : World) (x : Id) : List Id :=
  if x.t ≠ .point || !hasFeature w x then [] else
  let paths := (pointPaths w x).filter (pathExists w)
  let areas := paths.flatMap fun pid => (w.srcAreas.filter fun a => a.polys.any fun ids => ids.contains pid).map (·.id)
  (dedup areas).filter fun a => w.areas.any (·.id = a)

/-- compact `FindReferences(id, typed...)` -/
def refsC (w : World) (x : Id) (ts : List FT) : List Id :=
  (closureC w x).filter fun y => ts.isEmpty || ts.contains y.t

/-- compact `FindRelationsByFeature` -/
def relsC (w : World) (x : Id) : List Id := refsC w x [.relation]

/-- `countPaths`: distinct recorded paths that are present -/
def countPaths (w : World) (p : Id) : Nat := ((dedup (pointPaths w p)).filter (pathExists w)).length

/-- `isGraphNode` -/
def isNodeC (w : World) (p : Id) : Bool := tagged w p || decide (1 < countPaths w p)

def interiorC (w : World) (refs : List Id) (i : Nat) : Bool :=
  match refs[i]? with
  | some pid => isNodeC w pid
  | none => false

/-- the two loops of `fillPathSegments` from position `pos`: `previous` defaults to 0, `next` to `n - 1` -/
def scanC (node : Nat → Bool) (qid : Id) (n pos : Nat) : List Seg :=
  let previous := (downFrom node pos (pos - 1)).getD 0
  let next := (upFrom node (pos + 1) (n - 1 - (pos + 1))).getD (n - 1)
  (if previous ≠ pos then [Seg.mk qid pos previous] else []) ++ (if next ≠ pos then [Seg.mk qid pos next] else [])

/-- `fillPathSegments` for one path -/
def segmentsC (w : World) (x : Id) (q : Path) : List Seg :=
  match lastIndexOf q.refs x with
  | none => []
  | some pos => scanC (interiorC w q.refs) q.id q.refs.length pos

/-- compact `Traverse` -/
def traverseC (w : World) (x : Id) : List Seg :=
  (findPathsByPoint w x).flatMap fun pid =>
    match findPath w.paths pid with
    | some q => segmentsC w x q
    | none => []

end B6.Model.WorldRead
