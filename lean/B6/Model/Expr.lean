/-!
L7 language layer — the expression AST of `b6.Expression` (src/diagonal.works/b6/expression.go).

Modelled: `SymbolExpression`, literals (`IntExpression`, `StringExpression`, `QueryExpression`; every
other literal kind is carried opaquely as `Lit.other kind text`), `CallExpression{Function, Args,
Pipelined}` and `LambdaExpression{Args, Expression}`.  Source positions (`Begin`/`End`) are outside
the model.  Queries are the constructors `Simplify` can build or flatten (`Keyed`, `Tagged`, `Typed`,
`Intersection`, `Union`); any other query is `Query.other`.

Also here: sizes, free variables, the single-line text form used by the C21/C22 line protocol
(`Expr.render` / `Expr.parse`), shared by the Go harnesses (`harness/cmd/c21`, `c22`).
-/
namespace B6.Model

inductive Query where
  | keyed (key : String)
  | tagged (key value : String)
  | typed (ftype : String) (q : Query)
  | inter (qs : List Query)
  | union (qs : List Query)
  | other (text : String)
  deriving Repr, Inhabited

inductive Lit where
  | int (i : Int)
  | str (s : String)
  | query (q : Query)
  | other (kind text : String)
  deriving Repr, Inhabited

inductive Expr where
  | sym (name : String)
  | lit (l : Lit)
  | call (fn : Expr) (args : List Expr) (pipelined : Bool)
  | lam (params : List String) (body : Expr)
  deriving Repr, Inhabited

namespace Query

mutual
  def size : Query → Nat
    | .typed _ q => 1 + q.size
    | .inter qs => 1 + sizes qs
    | .union qs => 1 + sizes qs
    | _ => 1
  def sizes : List Query → Nat
    | [] => 0
    | q :: qs => q.size + sizes qs
end

mutual
  def beq : Query → Query → Bool
    | .keyed a, .keyed b => a == b
    | .tagged a b, .tagged c d => a == c && b == d
    | .typed t q, .typed t' q' => t == t' && beq q q'
    | .inter qs, .inter qs' => beqs qs qs'
    | .union qs, .union qs' => beqs qs qs'
    | .other a, .other b => a == b
    | _, _ => false
  def beqs : List Query → List Query → Bool
    | [], [] => true
    | a :: as, b :: bs => beq a b && beqs as bs
    | _, _ => false
end

instance : BEq Query := ⟨beq⟩

end Query

namespace Lit
def beq : Lit → Lit → Bool
  | .int a, .int b => a == b
  | .str a, .str b => a == b
  | .query a, .query b => a == b
  | .other k t, .other k' t' => k == k' && t == t'
  | _, _ => false
instance : BEq Lit := ⟨beq⟩
end Lit

namespace Expr

mutual
  def size : Expr → Nat
    | .sym _ => 1
    | .lit _ => 1
    | .call f args _ => 1 + f.size + sizes args
    | .lam _ b => 1 + b.size
  def sizes : List Expr → Nat
    | [] => 0
    | a :: as => a.size + sizes as
end

mutual
  def beq : Expr → Expr → Bool
    | .sym a, .sym b => a == b
    | .lit a, .lit b => a == b
    | .call f as p, .call g bs q => beq f g && beqs as bs && p == q
    | .lam ps b, .lam qs c => ps == qs && beq b c
    | _, _ => false
  def beqs : List Expr → List Expr → Bool
    | [], [] => true
    | a :: as, b :: bs => beq a b && beqs as bs
    | _, _ => false
end

instance : BEq Expr := ⟨beq⟩

mutual
  /-- no `LambdaExpression` anywhere (the fragment of `vm_first_order`) -/
  def lambdaFree : Expr → Bool
    | .sym _ => true
    | .lit _ => true
    | .call f args _ => f.lambdaFree && lambdaFrees args
    | .lam _ _ => false
  def lambdaFrees : List Expr → Bool
    | [] => true
    | a :: as => a.lambdaFree && lambdaFrees as
end

mutual
  /-- number of lambda parameters in the whole program = registers the compiler hands out -/
  def numParams : Expr → Nat
    | .sym _ => 0
    | .lit _ => 0
    | .call f args _ => f.numParams + numParamss args
    | .lam ps b => ps.length + b.numParams
  def numParamss : List Expr → Nat
    | [] => 0
    | a :: as => a.numParams + numParamss as
end

mutual
  /-- number of `LambdaExpression` nodes = compilation targets besides the main one -/
  def numLambdas : Expr → Nat
    | .sym _ => 0
    | .lit _ => 0
    | .call f args _ => f.numLambdas + numLambdass args
    | .lam _ b => 1 + b.numLambdas
  def numLambdass : List Expr → Nat
    | [] => 0
    | a :: as => a.numLambdas + numLambdass as
end

mutual
  /-- Symbols occurring free, in **value or function position** (function-position symbols denote
  global functions: `compileCall` looks them up in `Globals` only). -/
  def freeVars : Expr → List String
    | .sym s => [s]
    | .lit _ => []
    | .call f args _ => f.freeVars ++ freeVarss args
    | .lam ps b => b.freeVars.filter (fun s => !ps.contains s)
  def freeVarss : List Expr → List String
    | [] => []
    | a :: as => a.freeVars ++ freeVarss as
end

mutual
  /-- Symbols occurring free in **value position** only: the ones `compileSymbol` resolves through the
  lambda frames first.  A symbol that is the function of a call is not one of them. -/
  def freeValueVars : Expr → List String
    | .sym s => [s]
    | .lit _ => []
    | .call f args _ =>
      (match f with
        | .sym _ => []
        | .lit _ => []
        | .lam _ _ => f.freeValueVars
        | .call _ _ _ => f.freeValueVars) ++ freeValueVarss args
    | .lam ps b => b.freeValueVars.filter (fun s => !ps.contains s)
  def freeValueVarss : List Expr → List String
    | [] => []
    | a :: as => a.freeValueVars ++ freeValueVarss as
end

mutual
  /-- symbols standing in function position (they name global functions) -/
  def fnSyms : Expr → List String
    | .sym _ => []
    | .lit _ => []
    | .call f args _ =>
      (match f with
        | .sym s => [s]
        | .lit _ => []
        | .lam _ _ => f.fnSyms
        | .call _ _ _ => f.fnSyms) ++ fnSymss args
    | .lam _ b => b.fnSyms
  def fnSymss : List Expr → List String
    | [] => []
    | a :: as => a.fnSyms ++ fnSymss as
end

mutual
  /-- Is there a lambda that uses, in value position, a parameter of an enclosing lambda (a closure in
  the proper sense)?  `bound` = parameters of the enclosing lambdas.  This is the input class of the
  C21 finding `closure-registers`: the VM keeps lambda parameters in global registers instead of
  closing over them. -/
  def hasOpenLambdaAt (bound : List String) : Expr → Bool
    | .sym _ => false
    | .lit _ => false
    | .call f args _ => hasOpenLambdaAt bound f || hasOpenLambdasAt bound args
    | .lam ps b =>
      b.freeValueVars.any (fun s => !ps.contains s && bound.contains s) || hasOpenLambdaAt (ps ++ bound) b
  def hasOpenLambdasAt (bound : List String) : List Expr → Bool
    | [] => false
    | a :: as => hasOpenLambdaAt bound a || hasOpenLambdasAt bound as
end

def hasOpenLambda (e : Expr) : Bool := hasOpenLambdaAt [] e

/-! ### text form (one line, tokens separated by single spaces)

```
expr  ::= WORD                         symbol            [a-z][a-z0-9-]*
        | INT                          int literal       -?[0-9]+
        | s:WORD                       string literal    (s: alone = empty string)
        | o:KIND:TEXT                  opaque literal
        | ( q QUERY )                  query literal
        | ( FN ARG* )                  call              ( | FN ARG* ) when Pipelined
        | ( \ ( PARAM* ) BODY )        lambda
QUERY ::= ( keyed K ) | ( tagged K V ) | ( typed T QUERY ) | ( and QUERY* ) | ( or QUERY* ) | ( other TEXT )
```
-/

def isIntTok (s : String) : Bool :=
  let cs := s.toList
  let ds := if cs.head? == some '-' then cs.tail else cs
  !ds.isEmpty && ds.all Char.isDigit

def parseIntTok (s : String) : Option Int :=
  if isIntTok s then s.toInt? else none

mutual
  def renderQueryToks : Query → List String
    | .keyed k => ["(", "keyed", "s:" ++ k, ")"]
    | .tagged k v => ["(", "tagged", "s:" ++ k, "s:" ++ v, ")"]
    | .typed t q => ["(", "typed", "s:" ++ t] ++ renderQueryToks q ++ [")"]
    | .inter qs => ["(", "and"] ++ renderQueriesToks qs ++ [")"]
    | .union qs => ["(", "or"] ++ renderQueriesToks qs ++ [")"]
    | .other t => ["(", "other", "s:" ++ t, ")"]
  def renderQueriesToks : List Query → List String
    | [] => []
    | q :: qs => renderQueryToks q ++ renderQueriesToks qs
end

def renderLitToks : Lit → List String
  | .int i => [toString i]
  | .str s => ["s:" ++ s]
  | .query q => ["(", "q"] ++ renderQueryToks q ++ [")"]
  | .other k t => ["o:" ++ k ++ ":" ++ t]

mutual
  def renderToks : Expr → List String
    | .sym s => [s]
    | .lit l => renderLitToks l
    | .call f args p => (if p then ["(", "|"] else ["("]) ++ renderToks f ++ renderToksList args ++ [")"]
    | .lam ps b => ["(", "\\", "("] ++ ps ++ [")"] ++ renderToks b ++ [")"]
  def renderToksList : List Expr → List String
    | [] => []
    | a :: as => renderToks a ++ renderToksList as
end

def render (e : Expr) : String := " ".intercalate (renderToks e)
def Query.render (q : Query) : String := " ".intercalate (renderQueryToks q)

private def dropPrefix (s : String) (n : Nat) : String := String.ofList (s.toList.drop n)

/-- parser over the token list; `fuel` bounds the nesting (callers pass the token count) -/
def parseQueryToks : Nat → List String → Option (Query × List String)
  | 0, _ => none
  | fuel + 1, toks =>
    let rec many (fuel : Nat) (toks : List String) (acc : List Query) : Nat → Option (List Query × List String)
      | 0 => none
      | k + 1 =>
        match toks with
        | ")" :: rest => some (acc.reverse, rest)
        | _ => match parseQueryToks fuel toks with
          | some (q, rest) => many fuel rest (q :: acc) k
          | none => none
    match toks with
    | "(" :: "keyed" :: k :: ")" :: rest =>
      if k.startsWith "s:" then some (.keyed (dropPrefix k 2), rest) else none
    | "(" :: "tagged" :: k :: v :: ")" :: rest =>
      if k.startsWith "s:" && v.startsWith "s:" then some (.tagged (dropPrefix k 2) (dropPrefix v 2), rest) else none
    | "(" :: "other" :: t :: ")" :: rest =>
      if t.startsWith "s:" then some (.other (dropPrefix t 2), rest) else none
    | "(" :: "typed" :: t :: rest =>
      if t.startsWith "s:" then
        match parseQueryToks fuel rest with
        | some (q, ")" :: rest') => some (.typed (dropPrefix t 2) q, rest')
        | _ => none
      else none
    | "(" :: "and" :: rest => (many fuel rest [] (rest.length + 1)).map fun (qs, r) => (.inter qs, r)
    | "(" :: "or" :: rest => (many fuel rest [] (rest.length + 1)).map fun (qs, r) => (.union qs, r)
    | _ => none

def isSymTok (s : String) : Bool :=
  match s.toList with
  | c :: cs => c.isLower && cs.all (fun d => d.isLower || d.isDigit || d == '-' || d == '_')
  | [] => false

def parseToks : Nat → List String → Option (Expr × List String)
  | 0, _ => none
  | fuel + 1, toks =>
    let rec many (fuel : Nat) (toks : List String) (acc : List Expr) : Nat → Option (List Expr × List String)
      | 0 => none
      | k + 1 =>
        match toks with
        | ")" :: rest => some (acc.reverse, rest)
        | _ => match parseToks fuel toks with
          | some (e, rest) => many fuel rest (e :: acc) k
          | none => none
    let rec params (toks : List String) (acc : List String) : Nat → Option (List String × List String)
      | 0 => none
      | k + 1 =>
        match toks with
        | ")" :: rest => some (acc.reverse, rest)
        | p :: rest => if isSymTok p then params rest (p :: acc) k else none
        | [] => none
    match toks with
    | [] => none
    | "(" :: "q" :: rest =>
      match parseQueryToks fuel rest with
      | some (q, ")" :: rest') => some (.lit (.query q), rest')
      | _ => none
    | "(" :: "\\" :: "(" :: rest =>
      match params rest [] (rest.length + 1) with
      | some (ps, rest') =>
        match parseToks fuel rest' with
        | some (b, ")" :: rest'') => some (.lam ps b, rest'')
        | _ => none
      | none => none
    | "(" :: "|" :: rest =>
      match parseToks fuel rest with
      | some (f, rest') => (many fuel rest' [] (rest'.length + 1)).map fun (as, r) => (.call f as true, r)
      | none => none
    | "(" :: rest =>
      match parseToks fuel rest with
      | some (f, rest') => (many fuel rest' [] (rest'.length + 1)).map fun (as, r) => (.call f as false, r)
      | none => none
    | ")" :: _ => none
    | t :: rest =>
      if t.startsWith "s:" then some (.lit (.str (dropPrefix t 2)), rest)
      else if t.startsWith "o:" then
        match (dropPrefix t 2).splitOn ":" with
        | k :: more => some (.lit (.other k (":".intercalate more)), rest)
        | [] => none
      else match parseIntTok t with
        | some i => some (.lit (.int i), rest)
        | none => if isSymTok t then some (.sym t, rest) else none

def parse (s : String) : Option Expr :=
  let toks := (s.splitOn " ").filter (· ≠ "")
  match parseToks (toks.length + 1) toks with
  | some (e, []) => some e
  | _ => none

end Expr
end B6.Model
