import B6.Model.Interp
/-!
L7 language layer — the compiler and stack machine of `api/vm.go`, mirrored as written (with the
`fixes/C21-*.patch` repairs applied).

Compiler (`compilation.Compile`, `compileTarget`, `compileCall`, `compileSymbol`, `compileLambda`):
one instruction array for the whole program; instruction 0 is `PushValue 0` (the frame of the
top-level "call"); the main expression is target 0; every `LambdaExpression` met while compiling is
appended to the *targets queue* and compiled later, in order, as `Store r_{k-1} … Store r_0 ; body ;
Discard ; Return`.  Registers are numbered globally (`NumArgs`): each lambda parameter of the program
gets its own slot of `VM.Args`, for the whole run.  `frame.Lookup` = first match in the innermost
frame, then outwards.

Machine (`VM.execute`, `goCall/lambdaCall/partialCall.CallFromStack`,
`VM.CallWithArgsAndExpressions`): the stack holds values; a call frame is the Go `StackFrame` whose
`Value` is the argument count, so it is `Val.int n` here too.  The `Expression` half of a
`StackFrame` is not modelled (after fix C21-partial-expression-assert no outcome depends on it for
the builtin table used; builtins that read `VM.ArgExpressions` are outside the model).  `VM.Args`
is a sparse register file (`regs`; an absent register is Go's invalid `reflect.Value`), so that the
`vmArgs` snapshot of a partial call made before any lambda ran is `[]`.  `OpJump` is never emitted
by the compiler and is not modelled; the program counter is the remaining instruction list
(`code.drop pc`).

Fuel is spent once per `CallFromStack`, exactly where `Interp.applyFn` spends it.
-/
namespace B6.Model.VM
open B6.Model

inductive Instr where
  | pushVal (v : Val)                -- OpPushValue of a literal (or the initial 0)
  | pushFn (b : Builtin)             -- OpPushValue &goCall
  | pushLam (target nargs : Nat)     -- OpPushValue *lambdaCall; `target` = pc after `resolve`
  | store (r : Nat)
  | discard
  | load (r : Nat)
  | callFn (b : Builtin) (n : Nat)   -- OpCallValue goCall
  | callLam (target nargs n : Nat)   -- OpCallValue *lambdaCall
  | callStack (n : Nat)
  | ret
  deriving Repr, Inhabited

/-- `frame` chain flattened: innermost frame's bindings first, each frame in declaration order -/
abbrev Frame := List (String × Nat)

structure Target where
  body : Expr
  frame : Frame          -- the new frame followed by the enclosing ones
  own : List Nat         -- registers of this lambda's own parameters, in order
  deriving Inhabited

structure CState where
  numArgs : Nat := 0               -- compilation.NumArgs
  nTargets : Nat := 1              -- len(c.Targets); target 0 is the main expression
  queue : List Target := []        -- targets appended and not yet compiled
  deriving Inhabited

/-- the parameter loop of `compileLambda`: parameter i gets register `n + i`; an error as soon as a
register number reaches `MaxArgs` (fix C21-maxargs-off-by-one: the test was `>`) -/
def bindParams : List String → Nat → Res (List (String × Nat))
  | [], _ => .ok []
  | p :: ps, n =>
    if n ≥ maxArgs then .error .error
    else match bindParams ps (n + 1) with
      | .error e => .error e
      | .ok rest => .ok ((p, n) :: rest)

/-- `compileLambda`: bind the parameters to fresh registers, enqueue the body; the result is the
target number standing for the `*lambdaCall` whose pc is filled in later (`Done`) -/
def compileLambda (frame : Frame) (ps : List String) (body : Expr) (st : CState) : Res (Nat × CState) :=
  match bindParams ps st.numArgs with
  | .error e => .error e
  | .ok own =>
    .ok (st.nTargets,
      { numArgs := st.numArgs + ps.length, nTargets := st.nTargets + 1,
        queue := st.queue ++ [{ body := body, frame := own ++ frame, own := own.map (·.2) }] })

mutual
  /-- `compileTarget`; returns the instructions appended -/
  def compileExpr (frame : Frame) : Expr → CState → Res (List Instr × CState)
    | .sym s, st =>
      match frame.lookup s with
      | some r => .ok ([.load r], st)
      | none => match Builtin.ofName s with
        | some b => .ok ([.pushFn b], st)
        | none => .error .error
    | .lit l, st => .ok ([.pushVal l.toVal], st)
    | .lam ps b, st =>
      match compileLambda frame ps b st with
      | .error e => .error e
      | .ok (t, st') => .ok ([.pushLam t ps.length], st')
    | .call f args _, st =>
      match compileArgs frame args st with
      | .error e => .error e
      | .ok (is, st1) =>
        match f with
        | .sym s => match Builtin.ofName s with
          | some b => .ok (is ++ [.callFn b args.length], st1)
          | none => .error .error
        | .lam ps b =>
          match compileLambda frame ps b st1 with
          | .error e => .error e
          | .ok (t, st2) => .ok (is ++ [.callLam t ps.length args.length], st2)
        | .lit _ => .error .error
        | .call _ _ _ =>
          match compileExpr frame f st1 with
          | .error e => .error e
          | .ok (js, st2) => .ok (is ++ js ++ [.callStack args.length], st2)
  def compileArgs (frame : Frame) : List Expr → CState → Res (List Instr × CState)
    | [], st => .ok ([], st)
    | a :: as, st =>
      match compileExpr frame a st with
      | .error e => .error e
      | .ok (is, st1) =>
        match compileArgs frame as st1 with
        | .error e => .error e
        | .ok (js, st2) => .ok (is ++ js, st2)
end

/-- one compiled target: the number of arguments it pops with `Store` (0 for the main expression) and
its instructions -/
abbrev Segment := Nat × List Instr

/-- the loop of `compilation.Compile` over the targets after the main one; one segment per target, in
the order they are appended to `Instructions` -/
def compileQueue : Nat → CState → Res (List Segment)
  | 0, st => if st.queue.isEmpty then .ok [] else .error .fuel
  | fuel + 1, st =>
    match st.queue with
    | [] => .ok []
    | t :: rest =>
      match compileExpr t.frame t.body { st with queue := rest } with
      | .error e => .error e
      | .ok (is, st') =>
        match compileQueue fuel st' with
        | .error e => .error e
        | .ok segs => .ok ((t.own.length, t.own.reverse.map Instr.store ++ is ++ [.discard, .ret]) :: segs)

/-- all targets: the main expression (`PushValue 0 ; e ; Return`), then the lambdas -/
def compileSegments (e : Expr) : Res (List Segment) :=
  match compileExpr [] e {} with
  | .error err => .error err
  | .ok (is, st) =>
    match compileQueue (e.numLambdas + 1) st with
    | .error err => .error err
    | .ok segs => .ok ((0, [Instr.pushVal (.int 0)] ++ is ++ [.ret]) :: segs)

/-- entry point of every target: the main one starts at 1 (after `PushValue 0`), a lambda where its
first `Store` is -/
def entryPoints : Nat → List Segment → List Nat
  | _, [] => []
  | pc, (_, is) :: segs => (if pc == 0 then 1 else pc) :: entryPoints (pc + is.length) segs

def resolveInstr (entries : List Nat) : Instr → Res Instr
  | .pushLam t n => match entries[t]? with
    | some pc => .ok (.pushLam pc n)
    | none => .error .panic
  | .callLam t n k => match entries[t]? with
    | some pc => .ok (.callLam pc n k)
    | none => .error .panic
  | i => .ok i

def resolveAll (entries : List Nat) : List Instr → Res (List Instr)
  | [] => .ok []
  | i :: is =>
    match resolveInstr entries i with
    | .error e => .error e
    | .ok i' => match resolveAll entries is with
      | .error e => .error e
      | .ok is' => .ok (i' :: is')

def flatten : List Segment → List Instr
  | [] => []
  | (_, is) :: segs => is ++ flatten segs

/-- `newVM`: the whole instruction array, lambda targets resolved to entry points (`Done`) -/
def compile (e : Expr) : Res (List Instr) :=
  match compileSegments e with
  | .error err => .error err
  | .ok segs => resolveAll (entryPoints 0 segs) (flatten segs)

/-! ### the machine -/

structure St where
  stack : List Val := []            -- head = top of `VM.Stack`
  regs : List (Nat × Val) := []     -- `VM.Args`, sparse
  deriving Inhabited

def setReg (regs : List (Nat × Val)) (r : Nat) (v : Val) : List (Nat × Val) :=
  (r, v) :: regs.filter (fun p => p.1 != r)

/-- is the Go value a `Callable` (the type assertion of OpCallStack) -/
def vmCallable : Val → Bool
  | .builtin _ | .lam .. | .part .. => true
  | _ => false

/-- `VM.execute` from the instruction list `is` on; `call f n st` is `f.CallFromStack(context, n)` -/
def execList (call : Val → Nat → St → Res St) : List Instr → St → Res St
  | [], _ => .error .panic                       -- PC past the end of Instructions
  | i :: is, st =>
    match i with
    | .ret => .ok st
    | .pushVal v => execList call is { st with stack := v :: st.stack }
    | .pushFn b => execList call is { st with stack := .builtin b :: st.stack }
    | .pushLam pc n => execList call is { st with stack := .lam pc n :: st.stack }
    | .store r =>
      match st.stack with
      | top :: second :: rest =>
        if r < maxArgs then execList call is { stack := top :: rest, regs := setReg st.regs r second }
        else .error .panic
      | _ => .error .panic
    | .discard =>
      match st.stack with
      | top :: _ :: rest => execList call is { st with stack := top :: rest }
      | _ => .error .panic
    | .load r =>
      if r < maxArgs then
        match st.regs.lookup r with
        | some v => execList call is { st with stack := v :: st.stack }
        | none => .error .panic                  -- "OpLoad of invalid value"
      else .error .panic
    | .callFn b n =>
      match call (.builtin b) n { st with stack := .int n :: st.stack } with
      | .error e => .error e
      | .ok st' => execList call is st'
    | .callLam pc k n =>
      match call (.lam pc k) n { st with stack := .int n :: st.stack } with
      | .error e => .error e
      | .ok st' => execList call is st'
    | .callStack n =>
      match st.stack with
      | f :: rest =>
        if vmCallable f then
          match call f n { st with stack := .int n :: rest } with
          | .error e => .error e
          | .ok st' => execList call is st'
        else .error .error                       -- fix C21-call-non-callable (was: panic)
      | [] => .error .panic

/-- the `n` arguments under the call frame, in call order, and the stack below them
(`vm.Stack[argsStart:argsStart+n]`, `vm.Stack[0:argsStart]`); `none` = index out of range -/
def splitArgs (stack : List Val) (n : Nat) : Option (List Val × List Val) :=
  match stack with
  | _frame :: rest => if rest.length ≥ n then some ((rest.take n).reverse, rest.drop n) else none
  | [] => none

/-- `CallFromStack` of the three callables -/
def callFromStack (code : List Instr) : Nat → Val → Nat → St → Res St
  | 0, _, _, _ => .error .fuel
  | fuel + 1, f, n, st =>
    match f with
    | .builtin b =>                                                   -- goCall.CallFromStack
      if n > b.want n then .error .error
      else match splitArgs st.stack n with
        | none => .error .panic
        | some (args, below) =>
          if n == b.want n then
            match convertAll (b.paramsAt n) args with
            | .error e => .error e
            | .ok cs => match b.step cs with
              | .value v => .ok { st with stack := v :: below }
              | .fail => .error .error
              | .tail g xs =>                                          -- VM.CallWithArgsAndExpressions
                match callFromStack code fuel g xs.length
                    { st with stack := .int xs.length :: xs.reverse ++ st.stack } with
                | .error e => .error e
                | .ok st' => match st'.stack with
                  | r :: _ => .ok { st' with stack := r :: below }
                  | [] => .error .panic
          else .ok { st with stack := .part f args st.regs :: below }
    | .lam pc k =>                                                    -- lambdaCall.CallFromStack
      match st.stack with
      | [] => .error .panic
      | _ =>
        if n == k then execList (callFromStack code fuel) (code.drop pc) st
        else if n < k then
          match splitArgs st.stack n with
          | none => .error .panic
          | some (args, below) => .ok { st with stack := .part f args st.regs :: below }
        else .error .error
    | .part g bs snap =>                                              -- partialCall.CallFromStack
      match st.stack, g.arity with
      | [], _ => .error .panic
      | _, none => .error .panic
      | _frame :: rest, some m =>
        if n + bs.length == m then
          let stack' := bs.reverse ++ rest
          if stack'.length < m then .error .panic
          else
            match callFromStack code fuel g (n + bs.length)
                { stack := .int (n + bs.length) :: stack', regs := snap } with
            | .error e => .error e
            | .ok st' => .ok { st' with regs := st.regs }
        else if n + bs.length < m then
          match splitArgs st.stack n with                              -- fix C21-partial-reapply
          | none => .error .panic
          | some (args, below) => .ok { st with stack := .part f args st.regs :: below }
        else .error .error
    | _ => .error .panic       -- not a Callable: unreachable from compiled code (OpCallStack and ConvertWithContext check first)

/-- `VM.Execute`: run from instruction 0, the result is the top of the stack -/
def runCode (fuel : Nat) (code : List Instr) : Res Val :=
  match execList (callFromStack code fuel) code {} with
  | .error e => .error e
  | .ok st => match st.stack with
    | v :: _ => .ok v
    | [] => .error .panic

/-- `api.Evaluate` -/
def run (fuel : Nat) (e : Expr) : Res Val :=
  match compile e with
  | .error err => .error err
  | .ok code => runCode fuel code

/-! ### translation validation of the code layout (C21 `vm_lambda_partial`)

`matchExpr code frame e is` reads, from the instruction list `is`, the instructions that
`compileTarget` emits for `e` under `frame` and returns what follows them; for a lambda it follows the
resolved entry point into `code` and checks the whole target there (`Store`s of distinct registers
below `MaxArgs`, the body under the extended frame, `Discard ; Return`).  `layoutOK e` = the compiler
succeeds exactly on the statically well-formed programs and the array it produces has this layout.
It is a decidable check on the compiler's output; the C21 driver evaluates it on every program. -/

def litMatches : Lit → Val → Bool
  | .int i, .int j => i == j
  | .str s, .str t => s == t
  | .query q, .query q' => Query.beq q q'
  | .other k t, .other k' t' => k == k' && t == t'
  | _, _ => false

/-- the `k` `Store`s at the head of a lambda target; the registers in parameter order -/
def takeStores : Nat → List Instr → Option (List Nat × List Instr)
  | 0, is => some ([], is)
  | k + 1, .store r :: is =>
    match takeStores k is with
    | some (rs, rest) => some (rs ++ [r], rest)
    | none => none
  | _, _ => none

/-- a lambda target at `pc`; `m` matches its body -/
def matchLamWith (m : Frame → List Instr → Option (List Instr)) (code : List Instr) (frame : Frame)
    (ps : List String) (pc : Nat) : Bool :=
  match takeStores ps.length (code.drop pc) with
  | some (own, is) =>
    own.all (fun r => decide (r < maxArgs)) && decide own.Nodup &&
      (match m (ps.zip own ++ frame) is with
        | some (.discard :: .ret :: _) => true
        | _ => false)
  | none => false

mutual
  def matchExpr (code : List Instr) : Frame → Expr → List Instr → Option (List Instr)
    | frame, .sym s, is =>
      match frame.lookup s with
      | some r => (match is with
        | .load r' :: rest => if r == r' then some rest else none
        | _ => none)
      | none => match Builtin.ofName s with
        | some b => (match is with
          | .pushFn b' :: rest => if b == b' then some rest else none
          | _ => none)
        | none => none
    | _, .lit l, is =>
      (match is with
        | .pushVal v :: rest => if litMatches l v then some rest else none
        | _ => none)
    | frame, .lam ps b, is =>
      (match is with
        | .pushLam pc k :: rest =>
          if k == ps.length && matchLamWith (fun fr js => matchExpr code fr b js) code frame ps pc then some rest
          else none
        | _ => none)
    | frame, .call f args _, is =>
      match matchArgs code frame args is with
      | none => none
      | some is1 =>
        match f with
        | .sym s => (match Builtin.ofName s, is1 with
          | some b, .callFn b' n :: rest => if b == b' && n == args.length then some rest else none
          | _, _ => none)
        | .lit _ => none
        | .lam _ _ => (match is1 with
          | .callLam pc k n :: rest =>
            if n == args.length && matchLamAt code frame f pc k then some rest else none
          | _ => none)
        | .call _ _ _ => (match matchExpr code frame f is1 with
          | some (.callStack n :: rest) => if n == args.length then some rest else none
          | _ => none)
  /-- `f` is a lambda expression whose target is at `pc`, with `k` parameters -/
  def matchLamAt (code : List Instr) : Frame → Expr → Nat → Nat → Bool
    | frame, .lam ps b, pc, k =>
      k == ps.length && matchLamWith (fun fr js => matchExpr code fr b js) code frame ps pc
    | _, _, _, _ => false
  def matchArgs (code : List Instr) : Frame → List Expr → List Instr → Option (List Instr)
    | _, [], is => some is
    | frame, a :: as, is =>
      match matchExpr code frame a is with
      | none => none
      | some is1 => matchArgs code frame as is1
end

/-- the whole array: `PushValue 0`, the main expression under the empty frame, `Return` -/
def matchMain (code : List Instr) (e : Expr) : Bool :=
  match code with
  | .pushVal _ :: is => (match matchExpr code [] e is with
    | some (.ret :: _) => true
    | _ => false)
  | _ => false

def layoutOK (e : Expr) : Bool :=
  match compile e with
  | .ok code => wellFormed e && matchMain code e
  | .error .error => !wellFormed e
  | .error _ => false

/-! ### text of an instruction list, as `api.VerifCompileDump` prints it -/

def Instr.render : Instr → String
  | .pushVal (.int i) => "push:int:" ++ toString i
  | .pushVal _ => "push:lit"
  | .pushFn b => "push:fn:" ++ b.name
  | .pushLam pc n => s!"push:lam:{pc}:{n}"
  | .store r => s!"store:{r}"
  | .discard => "discard"
  | .load r => s!"load:{r}"
  | .callFn b n => s!"callv:fn:{b.name}:{n}"
  | .callLam pc k n => s!"callv:lam:{pc}:{k}:{n}"
  | .callStack n => s!"calls:{n}"
  | .ret => "ret"

end B6.Model.VM
