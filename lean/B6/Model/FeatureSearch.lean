import B6.Spec.TagQuery
import B6.Model.Search
/-!
# Model of tag search over features (C03)

Mirrors /repo/src/diagonal.works/b6:
* `search.go`            `TokenForTag`, `All/Empty/Tagged/Keyed/Typed/Intersection/Union .Compile`
* `ingest/tokens.go`     `TokensForFeature` (the tag part: `*`, one token per `#`/`@` tag, nothing for a point with
                         a single tag; the spatial `s2:`/`a2:` tokens are left out — no query of this property
                         can name them, see `Query.OK`)
* `ingest/basic.go`, `ingest/mutable.go`   the index = token ↦ strictly increasing list of feature IDs
* `world.go`             `NewSearchFeatureIterator` = a plain `Next` loop over the compiled iterator

`Tagged.Compile` is mirrored as it is: a key that does not start with `#` compiles to the empty iterator (also for
`@` keys, which *are* indexed, by key only).  `Typed.Compile` panics for types other than point/path/area/relation/collection; an `Intersection` without
children compiles like `All` (both after the C03 fixes).
-/
namespace B6.Model.FeatureSearch
open B6.Spec.Cursor B6.Spec.SearchQuery B6.Spec.TagQuery B6.Model.Search

/-- `TokenForTag` -/
def tokenForTag (t : Token × Token) : Option Token :=
  match t.1 with
  | '#' :: k => some (k ++ '=' :: t.2)
  | '@' :: k => some k
  | _ => none

def allToken : Token := ['*']

/-- `TokensForFeature`, tag part -/
def tokensFor (f : Feature) : List Token :=
  if f.typ == 0 && f.tags.length == 1 then [] else allToken :: f.tags.filterMap tokenForTag

/-- add `id` to the posting list of `t`, keeping tokens and lists increasing -/
def insertPosting (id : Nat) (t : Token) : List (Token × List Nat) → List (Token × List Nat)
  | [] => [(t, [id])]
  | (t', l) :: rest =>
    if t < t' then (t, [id]) :: (t', l) :: rest
    else if t = t' then (t', insertSorted id l) :: rest
    else (t', l) :: insertPosting id t rest

def addFeature (lists : List (Token × List Nat)) (f : Feature) : List (Token × List Nat) :=
  (tokensFor f).foldl (fun ls t => insertPosting f.id t ls) lists

/-- the search index of a world holding exactly `fs` -/
def buildIndex (kind : LeafKind) (fs : List Feature) (names : List String := []) : Index :=
  { kind := kind, lists := fs.foldl addFeature [], names := names }

/-- `FeatureIDPointBegin` … : `{Type: t, Namespace: "", Value: 0}` -/
def typeBegin (t : Nat) : Nat := key t 0 0

mutual
/-- `Query.Compile` down to the search package's query; `none` = `panic("Bad FeatureType")` -/
def lower : Query → Option SQuery
  | .all => some (.all allToken)
  | .empty => some .empty
  | .tagged k v =>
    match k with
    | '#' :: k' => some (.all (k' ++ '=' :: v))
    | _ => some .empty
  | .keyed k =>
    match k with
    | '#' :: k' => some (.tokenPrefix (k' ++ ['=']))
    | '@' :: k' => some (.all k')
    | _ => some .empty
  | .typed t q =>
    if t < 4 || t == 5 then (lower q).map (fun sq => .keyRange (typeBegin t) (typeBegin (t + 1)) sq) else none
  | .and qs => match qs with
    | [] => some (.all allToken)      -- `if len(i) == 0 { return All{}.Compile(index, w) }`
    | _ => (lowerList qs).map .inter
  | .or qs => (lowerList qs).map .union
def lowerList : List Query → Option (List SQuery)
  | [] => some []
  | q :: qs =>
    match lower q, lowerList qs with
    | some sq, some sqs => some (sq :: sqs)
    | _, _ => none
end

/-- a plain `Next` loop (`searchFeatureIterator`): the values yielded until the first `false` -/
def drain (o : IterOps Iter) : Nat → Iter → Except Err (List Nat)
  | 0, _ => .error .fuel
  | n + 1, it =>
    match o.next it with
    | .ok (true, it') =>
      match o.value it', drain o n it' with
      | some v, .ok vs => .ok (v :: vs)
      | none, _ => .error .panic
      | _, .error e => .error e
    | .ok (false, _) => .ok []
    | .error e => .error e

/-- `World.FindFeatures(q)` as a list of IDs, for a world whose index is `ix` -/
def findFeatures (ix : Index) (q : Query) : Except Err (List Nat) :=
  match lower q with
  | none => .error .panic
  | some sq =>
    let fuel := ix.total + 1
    drain (ops ix.dom fuel (depth sq)) (ix.total + 1) (compile fuel ix sq)

end B6.Model.FeatureSearch
