import B6.Model.Interp
/-!
L7 language layer — `api.Simplify` (api/shell.go: `Simplify`, `simplifyCall`,
`simplifyCallWithNoArguments`, `simplifyCallBuildingQuery`, `simplifyLambda`, `simplifyQuery`),
mirrored as written, with the repairs `fixes/C22-eta-reduction.patch` (`canDropLambdaArgs`) and
`fixes/C22-function-position.patch`.

Go detail that is observable in the output tree and therefore modelled: `Simplify` works on struct
*copies* (`call := expression.AnyExpression.(b6.CallExpression)`), so assigning `call.Function` or
`lambda.Expression` changes the returned copy only, but `call.Args[i] = …` writes into the slice the
copy **shares with the caller's tree**.  `simplifyLambda` returns the *original* `expression` when it
does not η-reduce, i.e. the lambda with its body as the in-place writes left it: arguments of calls
inside the body are simplified, the body's own root and any function position are not.  The model
therefore computes two trees for every input: `S` = the returned tree, `M` = the caller's tree after
the call (`simplifyBoth`).  The in-place effect of *re*-simplifying an already simplified subtree
(the second `Simplify` calls inside `simplifyCallWithNoArguments` / `simplifyLambda`) is taken to be
nil; the correspondence run checks this on every generated tree.

`functions.ArgCount` is the parameter `argc`; `functions.IsVariadic` is folded into it by `argcOf` (a
variadic function is entered with count 0, which makes the two guards that consult `IsVariadic` come
out as written: Props/C22 `postCall_argcOf`, `canDrop_argcOf`).
Fuel bounds the recursion depth (`Simplify` is called again on its own results, which is not
structural); `none` = out of fuel, never a default.  `simplify` supplies `size + 1`, which suffices
because every nested call is on a strictly smaller tree.
-/
namespace B6.Model

mutual
  /-- `simplifyQuery`: flatten nested intersections / unions (nothing under `Typed` is touched) -/
  def simplifyQuery : Query → Query
    | .inter qs => .inter (flattenInter qs)
    | .union qs => .union (flattenUnion qs)
    | q => q
  def flattenInter : List Query → List Query
    | [] => []
    | q :: qs =>
      (match simplifyQuery q with
        | .inter xs => xs
        | q' => [q']) ++ flattenInter qs
  def flattenUnion : List Query → List Query
    | [] => []
    | q :: qs =>
      (match simplifyQuery q with
        | .union xs => xs
        | q' => [q']) ++ flattenUnion qs
end

mutual
  /-- canonical form of a query **value** for comparison (C22): intersections / unions flattened at
  every depth, also under `Typed` (where `simplifyQuery` does not look).  `canon_denote` (Props/C22)
  shows it does not change what the query matches. -/
  def Query.canon : Query → Query
    | .inter qs => .inter (canonInter qs)
    | .union qs => .union (canonUnion qs)
    | .typed t q => .typed t q.canon
    | q => q
  def canonInter : List Query → List Query
    | [] => []
    | q :: qs =>
      (match q.canon with
        | .inter xs => xs
        | q' => [q']) ++ canonInter qs
  def canonUnion : List Query → List Query
    | [] => []
    | q :: qs =>
      (match q.canon with
        | .union xs => xs
        | q' => [q']) ++ canonUnion qs
end

namespace Simplify

mutual
  /-- `mentionsSymbol` of the repair: the symbol occurs anywhere (binding is ignored) -/
  def mentions (s : String) : Expr → Bool
    | .sym t => t == s
    | .lit _ => false
    | .call f args _ => mentions s f || mentionsAny s args
    | .lam _ b => mentions s b
  def mentionsAny (s : String) : List Expr → Bool
    | [] => false
    | a :: as => mentions s a || mentionsAny s as
end

/-- length of the prefix of `args` that is exactly the parameters, in order (the loop of
`simplifyLambda`) -/
def matchPrefix : List String → List Expr → Nat
  | p :: ps, .sym s :: as => if s == p then 1 + matchPrefix ps as else 0
  | _, _ => 0

def isCallExpr : Expr → Bool
  | .call _ _ _ => true
  | _ => false

/-- `canDropLambdaArgs` (fix C22-eta-reduction) -/
def canDrop (argc : String → Option Nat) (ps : List String) (f : Expr) (args : List Expr) : Bool :=
  match f with
  | .sym s =>
    argc s == some args.length &&
    ps.Nodup &&
    (args.drop ps.length).all (fun r => !isCallExpr r && ps.all (fun p => !mentions p r))
  | _ => false

def asStrings : List Expr → Option (List String)
  | [] => some []
  | .lit (.str s) :: as => (asStrings as).map (s :: ·)
  | _ => none

/-- `simplifyCallBuildingQuery` before its final `Simplify`: the query literal a call denotes -/
def buildQuery (s : String) (args : List Expr) : Option Query :=
  if s == "and" || s == "or" then
    match args with
    | [.lit (.query a), .lit (.query b)] => some (if s == "and" then .inter [a, b] else .union [a, b])
    | _ => none
  else if s == "typed" then
    match args with
    | [.lit (.str t), .lit (.query q)] => some (.typed (normType t) q)
    | _ => none
  else if s == "keyed" then
    match asStrings args with
    | some [k] => some (.keyed k)
    | _ => none
  else if s == "tagged" then
    match asStrings args with
    | some [k, v] => some (.tagged k v)
    | _ => none
  else none

/-- the argument loop of `simplifyCall`: `call.Args[i] = Simplify(arg, functions)` -/
def simpArgsWith (simp : Expr → Option (Expr × Expr)) : List Expr → Option (List Expr)
  | [] => some []
  | a :: as => match simp a, simpArgsWith simp as with
    | some (a', _), some as' => some (a' :: as')
    | _, _ => none

/-- the function a simplified call keeps (fix C22-function-position): a symbol in function position
names a global function, so a function expression that simplified to a symbol `argc` does not know
is put back (`mf` = the original function as the in-place writes left it) -/
def pickFunction (argc : String → Option Nat) (f f' mf : Expr) : Expr :=
  match f', f with
  | .sym _, .sym _ => f'
  | .sym s, _ => if (argc s).isSome then f' else mf
  | _, _ => f'

/-- `simplifyCallWithNoArguments`, then `simplifyCallBuildingQuery`, on the call with simplified
parts; `simp` = `Simplify` one level down -/
def postCall (argc : String → Option Nat) (simp : Expr → Option (Expr × Expr))
    (f : Expr) (args : List Expr) (p : Bool) : Option Expr :=
  match args, f with
  | [], .sym s =>
    (match argc s with
      | some n => if n > 0 then some (.sym s) else some (.call f [] p)
      | none => some (.call f [] p))
  | [], .lam [] body => (simp body).map (·.1)
  | _, .sym s =>
    (match buildQuery s args with
      | some q => some (.lit (.query (simplifyQuery q)))
      | none => some (.call f args p))
  | _, _ => some (.call f args p)

/-- `simplifyCall`; returns `(S, M)` -/
def simpCall (argc : String → Option Nat) (simp : Expr → Option (Expr × Expr))
    (f : Expr) (args : List Expr) (p : Bool) : Option (Expr × Expr) :=
  match simp f, simpArgsWith simp args with
  | some (f', mf), some args' =>
    (postCall argc simp (pickFunction argc f f' mf) args' p).map (fun s => (s, .call mf args' p))
  | _, _ => none

/-- `simplifyLambda`; returns `(S, M)` -/
def simpLam (argc : String → Option Nat) (simp : Expr → Option (Expr × Expr))
    (ps : List String) (body : Expr) : Option (Expr × Expr) :=
  match simp body with
  | none => none
  | some (body', mb) =>
    let unchanged := Expr.lam ps mb
    match body' with
    | .call f2 args2 _ =>
      if !ps.isEmpty && matchPrefix ps args2 == ps.length && canDrop argc ps f2 args2 then
        if ps.length == args2.length then (simp f2).map (fun r => (r.1, unchanged))
        else (simpCall argc simp f2 (args2.drop ps.length) false).map (fun r => (r.1, unchanged))
      else some (unchanged, unchanged)
    | _ => some (unchanged, unchanged)

/-- `Simplify`; returns `(S, M)`: the result, and the argument tree as the in-place writes leave it -/
def simplifyBoth (argc : String → Option Nat) : Nat → Expr → Option (Expr × Expr)
  | 0, _ => none
  | fuel + 1, e =>
    match e with
    | .sym _ => some (e, e)
    | .lit (.query q) => some (.lit (.query (simplifyQuery q)), e)
    | .lit _ => some (e, e)
    | .call f args p => simpCall argc (simplifyBoth argc fuel) f args p
    | .lam ps body => simpLam argc (simplifyBoth argc fuel) ps body

/-- Scope clause of C22 on an input tree `e` and an output tree `s`: every symbol free in value
position in `s` was free in value position in `e` or names a global function (no lambda parameter is
left without its binder), and every symbol in function position in `s` was in function position in
`e` or names a global function (no value was moved into the function namespace). -/
def scopeOK (argc : String → Option Nat) (e s : Expr) : Bool :=
  s.freeValueVars.all (fun x => e.freeValueVars.contains x || (argc x).isSome) &&
  s.fnSyms.all (fun x => e.fnSyms.contains x || (argc x).isSome)

mutual
  /-- Some lambda parameter has the name of a global function of the harness table: the input class of
  the C22 finding `shadowed-global` (the rewrites `(f)` ↦ `f` and `{a -> f a}` ↦ `f` move `f` from
  function position, where it names the global, to value position, where such a parameter captures
  it). -/
  def shadowsGlobal : Expr → Bool
    | .sym _ => false
    | .lit _ => false
    | .call f args _ => shadowsGlobal f || shadowsGlobals args
    | .lam ps b => ps.any (fun p => (Builtin.ofName p).isSome) || shadowsGlobal b
  def shadowsGlobals : List Expr → Bool
    | [] => false
    | a :: as => shadowsGlobal a || shadowsGlobals as
end

/-- values with their queries in canonical form (how C22 compares outcomes) -/
def canonVal : Val → Val
  | .query q => .query q.canon
  | .pair a b => .pair (canonVal a) (canonVal b)
  | v => v

/-- the function table of the harness as `SymbolArgCounts` -/
def tableArgc (s : String) : Option Nat := (Builtin.ofName s).map Builtin.arity

/-- `functions.IsVariadic` for the function table of the C22 run: the two variadic functions of the
real table that the harness includes (`collection(pairs ...)`, `call(f, args ...)`) -/
def variadicName (s : String) : Bool := s == "collection" || s == "call"

/-- `functions.ArgCount` for the function table of the C22 run (`reflect` `NumIn() - 1`: the variadic
slice counts as one parameter) -/
def tableCount (s : String) : Option Nat :=
  if s == "collection" then some 1 else if s == "call" then some 2 else tableArgc s

/-- The model's `argc` for a `SymbolArgCounts` with variadic functions: a variadic function is entered
with count 0.  `Simplify` consults `IsVariadic` in exactly two guards, and both then come out as in
the Go code (`postCall_argcOf`, `canDrop_argcOf`): `simplifyCallWithNoArguments` rewrites `(f)` to `f`
iff `ok && n > 0 && !v`; `canDropLambdaArgs` demands `n == len(call.Args)` (where `len ≥ 1`) and `!v`.
Every other use of `ArgCount` only asks whether the symbol is known. -/
def argcOf (count : String → Option Nat) (variadic : String → Bool) (s : String) : Option Nat :=
  (count s).map (fun n => if variadic s then 0 else n)

/-- the guard of `simplifyCallWithNoArguments` as written in shell.go -/
def noargGuard (count : String → Option Nat) (variadic : String → Bool) (s : String) : Bool :=
  match count s with
  | some n => decide (n > 0) && !variadic s
  | none => false

def tableArgcV : String → Option Nat := argcOf tableCount variadicName

end Simplify

/-- `api.Simplify(e, functions)` -/
def simplifyWith (argc : String → Option Nat) (e : Expr) : Option Expr :=
  (Simplify.simplifyBoth argc (e.size + 1) e).map (·.1)

/-- `api.Simplify` with the function table of the harness (`IsVariadic` folded in: `tableArgcV`) -/
def simplify (e : Expr) : Option Expr := simplifyWith Simplify.tableArgcV e

/-- the same (kept for the C22 driver) -/
def simplifyV (e : Expr) : Option Expr := simplifyWith Simplify.tableArgcV e

end B6.Model
