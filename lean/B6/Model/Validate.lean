/-!
# Model of feature validation and of the builders that apply it — C37

ingest/validate.go (`ValidateFeature`, `ValidatePath`, `ValidatePathForArea`, `ValidateArea`),
ingest/basic.go (`BasicWorldBuilder.Finish`, after fixes/C37-finish-validate-paths-before-areas.patch:
everything except areas is validated and the broken features deleted before areas are validated;
`finishOld` is the single pass before the repair), ingest/mutable.go (`BasicMutableWorld.AddFeature`:
validate the feature, then every referrer with the feature swapped in), ingest/compact/build.go
(`Validator`: streaming validation of paths and areas).

Geometry is a skeleton: a point has a location *slot* or none; everything S2 decides about a closed
path (is the loop valid? is it counter-clockwise?) is an oracle over the list of slots.
-/
namespace B6.Model.Validate

abbrev Id := Nat × Nat

inductive Geo where
  | point (loc : Option Nat)
  | path (refs : List Id)
  | area (polys : List (List Id))
  | other (refs : List Id)
deriving DecidableEq, Repr

structure Feat where
  id : Id
  geo : Geo
deriving DecidableEq, Repr

abbrev World := List Feat

/-- S2: `loop.Validate() == nil` and `loop.Area() <= 2π` on the loop through the given slots -/
structure Oracle where
  loopValid : List Nat → Bool
  ccw : List Nat → Bool

def find (w : World) (id : Id) : Option Feat := List.find? (fun f => decide (f.id = id)) w

/-- An element of a path is a point reference or an inline lat/lng. Inline points are carried in the
reference list as pseudo-IDs of type 9: `(9, slot)` is "the point at location `slot`", never a feature. -/
def isInline (id : Id) : Bool := decide (id.1 = 9)

/-- `FindLocationByID` of a referenced point — or, for an inline element, the point itself
(`pathPoints` / `ValidateArea` read `PointAt(i)` first and only look up references). Inline slots are
numbered from 1000: the harness places inline points on a ring of their own, since the location of a
point FEATURE goes through the point tag's text form and may lose its last digits: the two never coincide. -/
def locOf (w : World) (id : Id) : Option Nat :=
  if id.1 = 9 then some (1000 + id.2) else
  match find w id with
  | some ⟨_, .point (some k)⟩ => some k
  | _ => none

/-- `pathPoints`: the locations of all points, or `none` when one is missing -/
def pathSlots (w : World) (refs : List Id) : Option (List Nat) := refs.mapM (locOf w)

/-- `Tags.ClosedPath`: `Reference(0) == Reference(len(References()) - 1)` and valid — the second index
is the NUMBER OF ID REFERENCES minus one (the last position only when every element is a reference);
an inline element has no valid ID, so a path that starts with one is never "closed". -/
def closedRefs (refs : List Id) : Bool :=
  let k := (refs.filter fun r => !isInline r).length
  match refs.head?, (if k = 0 then none else refs[k - 1]?) with
  | some a, some b => decide (a = b) && !isInline a
  | _, _ => false

inductive PathVerdict where
  | invalid
  | ok
  | clockwise   -- a valid closed loop ordered clockwise: inverted or rejected, the caller decides
deriving DecidableEq, Repr

/-- `ValidatePath` up to the decision about clockwise loops -/
def validatePath (O : Oracle) (w : World) (refs : List Id) : PathVerdict :=
  if refs.length < 2 then .invalid else
  match pathSlots w refs with
  | none => .invalid
  | some slots =>
    if closedRefs refs then
      if !O.loopValid slots.dropLast then .invalid
      else if !O.ccw slots.dropLast then .clockwise
      else .ok
    else .ok

/-- `ValidateArea`'s check of one path (after fixes/C37-validate-area-unresolved-point.patch: the end
points must resolve — an error, no longer a panic in `PointAt`) followed by `ValidatePathForArea`:
at least three points, first and last at the same location. -/
def pathForArea (w : World) (refs : List Id) : Option Bool :=
  if refs.length < 3 then
    -- the end points are looked up first: an unresolvable one is an error either way
    some false
  else
  match refs.head?, refs.getLast? with
  | some a, some b =>
    match locOf w a, locOf w b with
    | some x, some y => some (decide (x = y))
    | _, _ => some false
  | _, _ => some false

/-- before that repair: `PointAt` panics (`none`) on an end point that cannot be resolved -/
def pathForAreaOld (w : World) (refs : List Id) : Option Bool :=
  if refs.length < 3 then some false else
  match refs.head?, refs.getLast? with
  | some a, some b =>
    match locOf w a, locOf w b with
    | some x, some y => some (decide (x = y))
    | _, _ => none
  | _, _ => some false

/-- `ValidateArea`: every path ID resolves to a path that passes; the loop returns at the first
error. `none` = panic (`path.(b6.PhysicalFeature)` on a feature that is not physical). -/
def validatePathsWith (pfa : World → List Id → Option Bool) (w : World) : List Id → Option Bool
  | [] => some true
  | pid :: rest =>
    match find w pid with
    | some ⟨_, .path refs⟩ =>
      (match pfa w refs with
       | none => none
       | some false => some false
       | some true => validatePathsWith pfa w rest)
    | some _ => none
    | none => some false

def validatePaths (w : World) : List Id → Option Bool
  | [] => some true
  | pid :: rest =>
    match find w pid with
    | some ⟨_, .path refs⟩ =>
      (match pathForArea w refs with
       | none => none
       | some false => some false     -- the loop returns at the first error
       | some true => validatePaths w rest)
    | some _ => none                  -- `path.(b6.PhysicalFeature)` on another kind of feature
    | none => some false

def validateArea (w : World) (polys : List (List Id)) : Option Bool := validatePaths w polys.flatten

/-- `ValidateFeature` with `InvertClockwisePaths` = `invert`. Result: `none` = panic; `some (ok, f')`
where `f'` is the feature after validation (a clockwise closed path is reversed in place when
`invert`). -/
def validateFeature (O : Oracle) (invert : Bool) (w : World) (f : Feat) : Option (Bool × Feat) :=
  match f.geo with
  | .path refs =>
    match validatePath O w refs with
    | .invalid => some (false, f)
    | .ok => some (true, f)
    | .clockwise => if invert then some (true, ⟨f.id, .path refs.reverse⟩) else some (false, f)
  | .area polys =>
    match validateArea w polys with
    | some b => some (b, f)
    | none => none
  | _ => some (true, f)

def isArea (f : Feat) : Bool := match f.geo with | .area _ => true | _ => false

/-- one validation stage of `Finish` over the features selected by `sel`: validate each against the
whole map `w`, keep the survivors (with inversions applied), drop the broken ones. Unselected
features pass through. `none` = a validation panicked (fatal: it runs in a goroutine). -/
def stageOn (O : Oracle) (invert : Bool) (sel : Feat → Bool) (ctx : World) : World → Option World
  | [] => some []
  | f :: l =>
    match stageOn O invert sel ctx l with
    | none => none
    | some rest =>
      if sel f then
        match validateFeature O invert ctx f with
        | none => none
        | some (true, f') => some (f' :: rest)
        | some (false, _) => some rest
      else some (f :: rest)

def stage (O : Oracle) (invert : Bool) (sel : Feat → Bool) (w : World) : Option World :=
  stageOn O invert sel w w

/-- `BasicWorldBuilder.Finish` after the repair: non-areas first, then areas against what is left. -/
def finish (O : Oracle) (invert : Bool) (src : World) : Option World :=
  match stage O invert (fun f => !isArea f) src with
  | none => none
  | some w1 => stage O invert isArea w1

/-- `ValidateFeature` before the two repairs (areas: `PointAt` may panic) -/
def validateFeatureOld (O : Oracle) (invert : Bool) (w : World) (f : Feat) : Option (Bool × Feat) :=
  match f.geo with
  | .area polys =>
    match validatePathsWith pathForAreaOld w polys.flatten with
    | some b => some (b, f)
    | none => none
  | _ => validateFeature O invert w f

def stageOld (O : Oracle) (invert : Bool) (ctx : World) : World → Option World
  | [] => some []
  | f :: l =>
    match stageOld O invert ctx l with
    | none => none
    | some rest =>
      match validateFeatureOld O invert ctx f with
      | none => none
      | some (true, f') => some (f' :: rest)
      | some (false, _) => some rest

/-- before the repairs: one pass over everything, then the deletions -/
def finishOld (O : Oracle) (invert : Bool) (src : World) : Option World := stageOld O invert src src

/-- what inverting a clockwise loop is supposed to achieve, for the closed paths of `src`: the reversed
path is a valid counter-clockwise loop. S2 breaks this for degenerate loops (two points of the path
at the same location: the loop and its reversal are the same vertex sequence and both "clockwise"). -/
def invertContract (O : Oracle) (pts : World) (src : World) : Bool :=
  src.all fun f => match f.geo with
    | .path refs =>
      (match validatePath O pts refs with
       | .clockwise => (match pathSlots pts refs.reverse with
          | some slots => O.loopValid slots.dropLast && O.ccw slots.dropLast
          | none => false)
       | _ => true)
    | _ => true

/-! ## the property: every feature of a world is valid in that world -/

/-- a path ID of an area names a closed path of at least three points (closed: same end locations) -/
def areaPathOk (w : World) (pid : Id) : Bool :=
  match find w pid with
  | some ⟨_, .path refs⟩ =>
    decide (3 ≤ refs.length) &&
    (match refs.head?, refs.getLast? with
     | some a, some b => (match locOf w a, locOf w b with
        | some x, some y => decide (x = y)
        | _, _ => false)
     | _, _ => false)
  | _ => false

/-- `Valid w f` -/
def valid (O : Oracle) (w : World) (f : Feat) : Bool :=
  match f.geo with
  | .path refs =>
    decide (2 ≤ refs.length) &&
    (match pathSlots w refs with
     | none => false
     | some slots => !closedRefs refs || (O.loopValid slots.dropLast && O.ccw slots.dropLast))
  | .area polys => polys.flatten.all (areaPathOk w)
  | _ => true

def allValid (O : Oracle) (w : World) : Bool := w.all (valid O w)

/-! ## BasicMutableWorld.AddFeature -/

def put : World → Feat → World
  | [], f => [f]
  | g :: rest, f => if g.id = f.id then f :: rest else g :: put rest f

def refsOf (f : Feat) : List Id :=
  match f.geo with
  | .point _ => []
  | .path refs => refs.filter fun r => !isInline r     -- `Tags.References()`: ID elements only
  | .area polys => polys.flatten
  | .other refs => refs

/-- IDs of the features that reference `id` or a member of `S` -/
def directRefs (w : World) (id : Id) (S : List Id) : List Id :=
  (w.filter fun f => (refsOf f).any fun t => decide (t = id) || decide (t ∈ S)).map (·.id)

def closure (w : World) (id : Id) : Nat → List Id → Option (List Id)
  | 0, _ => none
  | k + 1, S =>
    let new := (directRefs w id S).filter (fun s => decide (s ∉ S))
    if new.isEmpty then some S else closure w id k (S ++ new)

/-- `allReferences(f, w)`: the transitive referrers (C15 `find_refs_spec`: `FindReferences` returns
exactly the set closed under "references a member"). The iteration answers only with a set it has
found closed; `none` (round bound exceeded) does not occur in practice and is treated as a panic. -/
def referrers (w : World) (id : Id) : Option (List Id) := closure w id (w.length + 2) []

inductive AddResult where
  | ok (w : World)
  | rejected
  | panic
deriving Repr

/-- `BasicMutableWorld.AddFeature` (validation part; `InvertClockwisePaths` = false):
validate `f`; when it replaces an existing feature, validate every referrer with `f` swapped in. -/
def addFeature (O : Oracle) (w : World) (f : Feat) : AddResult :=
  match validateFeature O false w f with
  | none => .panic
  | some (false, _) => .rejected
  | some (true, _) =>
    let w' := put w f
    if (find w f.id).isSome then
      match referrers w f.id with
      | none => .panic
      | some R =>
        match (R.filterMap (find w')).foldl (fun acc g => match acc with
            | some true => (validateFeature O false w' g).map (·.1)
            | other => other) (some true) with
        | none => .panic
        | some false => .rejected
        | some true => .ok w'
    else .ok w'

/-- `MutableOverlayWorld.AddFeature` seen through the layered view `w` (the current features of the
world): validate `f`, then every feature of the referrer set `R` the world's `FindReferences` returned
(C15: the transitive referrers in the layered world) with `f` swapped in — whether or not `f` replaces
a feature of the overlay (fix "skipped referrer validation for base features"). The copies the overlay
makes do not change the layered view, which becomes `put w f`. -/
def addFeatureWith (O : Oracle) (w : World) (f : Feat) (R : List Id) : AddResult :=
  match validateFeature O false w f with
  | none => .panic
  | some (false, _) => .rejected
  | some (true, _) =>
    match (R.filterMap (find (put w f))).foldl (fun acc g => match acc with
        | some true => (validateFeature O false (put w f) g).map (·.1)
        | other => other) (some true) with
    | none => .panic
    | some false => .rejected
    | some true => .ok (put w f)

/-! ## compact.Validator (streaming) -/

inductive VState where
  | valid | invalid | unknown | validNotLoop
deriving DecidableEq, Repr

structure Validator where
  points : World                       -- the locations (points only)
  paths : List (Id × VState)
  queue : List Feat                    -- areas waiting for a path
deriving Repr

def Validator.state (v : Validator) (id : Id) : Option VState := (v.paths.find? (fun p => decide (p.1 = id))).map (·.2)

def Validator.set (v : Validator) (id : Id) (s : VState) : Validator :=
  { v with paths := (id, s) :: v.paths.filter (fun p => decide (p.1 ≠ id)) }

/-- `Validator.validateArea` (marks unseen paths as unknown) -/
def Validator.checkArea (v : Validator) (polys : List (List Id)) : Validator × VState :=
  polys.flatten.foldl (fun (acc : Validator × VState) pid =>
    let (v, st) := acc
    match v.state pid with
    | some s =>
      if s = .invalid || s = .validNotLoop then (v, .invalid)
      else if s = .unknown && st = .valid then (v, .unknown)
      else (v, st)
    | none => (v.set pid .unknown, if st = .valid then .unknown else st)) (v, .valid)

/-- one iteration of the loop of `Validator.validateQueue` over the state (validator, kept, emitted) -/
def drainStep (acc : Validator × List Feat × List Feat) (a : Feat) : Validator × List Feat × List Feat :=
  match a.geo with
  | .area polys =>
    if (acc.1.checkArea polys).2 = .valid then ((acc.1.checkArea polys).1, acc.2.1, acc.2.2 ++ [a])
    else if (acc.1.checkArea polys).2 = .unknown then ((acc.1.checkArea polys).1, acc.2.1 ++ [a], acc.2.2)
    else ((acc.1.checkArea polys).1, acc.2.1, acc.2.2)
  | _ => acc

/-- `Validator.validateQueue`: emits the queued areas that became valid, keeps the unknown ones -/
def Validator.drainQueue (v : Validator) : Validator × List Feat :=
  ({ (v.queue.foldl drainStep (v, [], [])).1 with queue := (v.queue.foldl drainStep (v, [], [])).2.1 },
    (v.queue.foldl drainStep (v, [], [])).2.2)

/-- `isLoop` of compact/build.go -/
def isLoop (w : World) (refs : List Id) : Bool :=
  decide (3 ≤ refs.length) &&
  (match refs.head?, refs.getLast? with
   | some a, some b => (match locOf w a, locOf w b with
      | some x, some y => decide (x = y)
      | _, _ => false)
   | _, _ => false)

/-- `Validator.ValidatePath` / `Validator.ValidateArea`: returns the features emitted by the call -/
def Validator.feed (O : Oracle) (v : Validator) (f : Feat) : Validator × List Feat :=
  match f.geo with
  | .path refs =>
    let (st, out) : VState × List Feat :=
      match validatePath O v.points refs with
      | .invalid => (.invalid, [])
      | .ok => (if isLoop v.points refs then .valid else .validNotLoop, [f])
      | .clockwise =>
        let f' : Feat := ⟨f.id, .path refs.reverse⟩
        (if isLoop v.points refs.reverse then .valid else .validNotLoop, [f'])
    let seen := (v.state f.id).isSome
    let v1 := v.set f.id st
    if seen then
      let (v2, more) := v1.drainQueue
      (v2, out ++ more)
    else (v1, out)
  | .area polys =>
    let (v1, st) := v.checkArea polys
    if st = .valid then (v1, [f])
    else if st = .unknown then ({ v1 with queue := v1.queue ++ [f] }, [])
    else (v1, [])
  | _ => (v, [f])

def Validator.run (O : Oracle) (v : Validator) : List Feat → Validator × List Feat
  | [] => (v, [])
  | f :: fs =>
    let (v1, out1) := v.feed O f
    let (v2, out2) := Validator.run O v1 fs
    (v2, out1 ++ out2)

end B6.Model.Validate
