/-!
# Model of `ingest.MutableOverlayWorld` / `ingest.MutableTagsOverlayWorld` (mutable.go) — C12, C13, C14

The model follows mutable.go **after** the `fix:` patches `fixes/C12-*.patch`, `fixes/C13-*.patch`,
`fixes/C14-*.patch` (see notes/C12.md … C14.md for the defects they repair).

* A *world* is read through a `View` (the `b6.World` read interface restricted to what C12–C14 observe).
* A `Layer` is the private state of one `MutableOverlayWorld` object: `features` (overlay copies),
  `tags` (`ModifiedTags`: plain-tag modifications of base features), `index` (the AVL `TreeIndex`,
  replaced by its C07 abstraction token ↦ strictly increasing id list), `references`.
* `Layer.view b l` is the world "layer `l` over base view `b`".  `Snapshot()` freezes the current layer
  and continues in a fresh one on top, so a store is a root view plus a stack of layers (`Store`).
* Geometry is a skeleton: points carry E7 integer pairs, paths lists of point ids, areas lists of path
  ids.  Everything S2 decides (loop validity, orientation) is the `Oracle` parameter.

Outside the model: S2 cell-covering tokens and the `all` token of `TokensForFeature` (only tag tokens
are modelled), expression features, relation roles and collection values, literal lat-lngs inside paths, areas given
by polygons, `Traverse`, `FindAreasByPoint`, goroutines of `EachFeature`, the `epoch` iterator guard.
Feature ids are natural numbers whose order is `FeatureID.Less` (the harness encodes type·1000+value).
-/
namespace B6.Model.Mutable

abbrev Id := Nat
abbrev Key := String
abbrev Token := String
/-- E7 latitude / longitude -/
abbrev Pt := Int × Int

/-- a tag value: the expression kind (`s` string, `i` int, …) and its `String()` rendering -/
structure Val where
  kind : String
  str : String
deriving DecidableEq, Repr, Inhabited

abbrev Tag := Key × Val

/-! ## Association maps (Go maps; first binding wins, `set` keeps one binding per key) -/
namespace AMap
variable {α : Type} {β : Type} [DecidableEq α]

def get : List (α × β) → α → Option β
  | [], _ => none
  | (k', v) :: r, k => if k' = k then some v else get r k

def erase (m : List (α × β)) (k : α) : List (α × β) := m.filter (fun e => decide (e.1 ≠ k))

def set (m : List (α × β)) (k : α) (v : β) : List (α × β) := (k, v) :: erase m k

def keys (m : List (α × β)) : List α := m.map (·.1)

def contains (m : List (α × β)) (k : α) : Bool := (get m k).isSome

end AMap

/-! ## Tags of an ingest feature (`b6.Tags`, an ordered slice) -/

/-- `Tags.ModifyOrAddTag`: overwrite the value of the first tag with the key, else append. -/
def tagSet : List Tag → Tag → List Tag
  | [], t => [t]
  | (k, v) :: r, t => if k = t.1 then (k, t.2) :: r else (k, v) :: tagSet r t

/-- `Tags.RemoveTag` on a key-distinct list (the Go-slice level, incl. repeated keys, is C39's). -/
def tagRemove (ts : List Tag) (k : Key) : List Tag := ts.filter (fun t => decide (t.1 ≠ k))

/-- `b6.TokenForTag`: `#k=v` ↦ `k=v`, `@k=…` ↦ `k`, anything else is not indexed. -/
def tokenForTag (t : Tag) : Option Token :=
  match t.1.toList with
  | '#' :: r => some (String.ofList (r ++ '=' :: t.2.str.toList))
  | '@' :: r => some (String.ofList r)
  | _ => none

/-- whether a key is searchable (`TokenForTag` only looks at the key for this) -/
def indexedKey (k : Key) : Bool :=
  match k.toList with
  | '#' :: _ => true
  | '@' :: _ => true
  | _ => false

inductive Geom where
  | point (p : Pt)
  | path (pts : List Id)
  | area (paths : List Id)
  /-- a `RelationFeature`: its members -/
  | relation (members : List Id)
  /-- a `CollectionFeature`: its keys that are feature ids (what `References()` returns) -/
  | collection (keys : List Id)
deriving DecidableEq, Repr

/-- an `ingest.Feature` (GenericFeature / AreaFeature): id, tags without the geometry tags, skeleton -/
structure Feature where
  id : Id
  tags : List Tag
  geom : Geom
deriving DecidableEq, Repr

/-- `TokensForFeature`, tag tokens only -/
def tokensFor (f : Feature) : List Token := f.tags.filterMap tokenForTag

/-- `Feature.References()`: the ids a feature's geometry refers to -/
def geomRefs : Geom → List Id
  | .point _ => []
  | .path ps => ps
  | .area ps => ps
  | .relation ms => ms
  | .collection ks => ks

/-! ## `ModifiedTags` -/

inductive Mod where
  | set (v : Val)
  | del
deriving DecidableEq, Repr

abbrev Mods := List (Key × Mod)

/-- `modifyTags`, first loop: what becomes of an original tag -/
def modExisting (mods : Mods) (t : Tag) : Option Tag :=
  match AMap.get mods t.1 with
  | some (.set v) => some (t.1, v)
  | some .del => none
  | none => some t

/-- `modifyTags`, second loop: a modification whose key the original does not have -/
def modNew (mods : Mods) (orig : List Tag) (e : Key × Mod) : Option Tag :=
  match AMap.get mods e.1 with
  | some (.set v) => if (AMap.get orig e.1).isNone then some (e.1, v) else none
  | _ => none

/-- `modifyTags`: original order, modified values in place, deleted keys dropped, then the keys that
only exist as modifications (Go map order there — observations sort tags by key). -/
def applyMods (mods : Mods) (orig : List Tag) : List Tag :=
  orig.filterMap (modExisting mods) ++ mods.filterMap (modNew mods orig)

/-- `modifyTag`: a recorded modification wins over the original value -/
def modLookup : Option Mod → Option Val → Option Val
  | some (.set v), _ => some v
  | some .del, _ => none
  | none, o => o

/-- the modifications recorded for a feature (`m.tags[id]`, a nil map when absent) -/
def modsOf (mods : List (Id × Mods)) (id : Id) : Mods :=
  match AMap.get mods id with
  | some m => m
  | none => []

/-! ## Views -/

/-- what a `b6.Feature` handed out by a world shows: the feature and the coordinates its wrapper
resolves (`none` = `PointAt` would panic: a referenced point does not exist) -/
structure FV where
  f : Feature
  pts : Option (List Pt)
deriving DecidableEq, Repr

structure View where
  /-- `FindFeatureByID` -/
  find : Id → Option FV
  /-- the feature a search hit for the id is wrapped as -/
  hitFV : Id → Option FV
  /-- `FindLocationByID` -/
  loc : Id → Option Pt
  /-- `FindFeatures` for a single tag token -/
  search : Token → List Id
  /-- `FindReferences(id)` without a type filter -/
  refs : Id → List Id
  /-- `EachFeature` -/
  ids : List Id

def resolve (loc : Id → Option Pt) : Geom → Option (List Pt)
  | .point p => some [p]
  | .path ps => ps.mapM loc
  | _ => some []

/-! ## Index and reference tables -/

def insertSorted (x : Id) : List Id → List Id
  | [] => [x]
  | y :: r => if x < y then x :: y :: r else if x = y then y :: r else y :: insertSorted x r

/-- posting list of a token (`TreeIndex.Begin`; empty iterator when the token is unknown) -/
def postings (ix : List (Token × List Id)) (t : Token) : List Id :=
  match AMap.get ix t with
  | some l => l
  | none => []

/-- `TreeIndex.Add(v, tokens)` -/
def indexAdd (ix : List (Token × List Id)) (id : Id) (tokens : List Token) : List (Token × List Id) :=
  tokens.foldl (fun ix t => AMap.set ix t (insertSorted id (postings ix t))) ix

/-- one token of `TreeIndex.Remove` -/
def indexRemoveStep (id : Id) (ix : List (Token × List Id)) (t : Token) : List (Token × List Id) :=
  match AMap.get ix t with
  | some l => AMap.set ix t (l.filter (fun y => decide (y ≠ id)))
  | none => ix

/-- `TreeIndex.Remove(v, tokens)` -/
def indexRemove (ix : List (Token × List Id)) (id : Id) (tokens : List Token) : List (Token × List Id) :=
  tokens.foldl (indexRemoveStep id) ix

/-- `sortAndDiffTokens` on duplicate-free token lists: (added, removed) -/
def diffTokens (before after : List Token) : List Token × List Token :=
  (after.filter (fun t => !before.contains t), before.filter (fun t => !after.contains t))

def sources (rs : List (Id × List Id)) (target : Id) : List Id :=
  match AMap.get rs target with
  | some l => l
  | none => []

/-- `FeatureReferencesByID.AddFeature` -/
def refsAdd (rs : List (Id × List Id)) (f : Feature) : List (Id × List Id) :=
  (geomRefs f.geom).foldl (fun rs tgt =>
    if (sources rs tgt).contains f.id then rs else AMap.set rs tgt (sources rs tgt ++ [f.id])) rs

/-- one target of `FeatureReferencesByID.RemoveFeature` -/
def refsRemoveStep (fid : Id) (rs : List (Id × List Id)) (tgt : Id) : List (Id × List Id) :=
  match AMap.get rs tgt with
  | some l => AMap.set rs tgt (l.filter (fun y => decide (y ≠ fid)))
  | none => rs

/-- `FeatureReferencesByID.RemoveFeature` -/
def refsRemove (rs : List (Id × List Id)) (f : Feature) : List (Id × List Id) :=
  (geomRefs f.geom).foldl (refsRemoveStep f.id) rs

/-- `FeatureReferencesByID.FindReferences`: sources, their sources, … (`fuel` levels) -/
def closure (rs : List (Id × List Id)) : Nat → Id → List Id
  | 0, _ => []
  | n + 1, id => sources rs id ++ (sources rs id).flatMap (closure rs n)

/-- enough levels for every chain of references the table can hold (relations may contain relations;
the visited-set search of the code — `fixes/C15-find-references-visited.patch` — ends on cycles too) -/
def refDepth (rs : List (Id × List Id)) : Nat := rs.length + 1

/-! ## One `MutableOverlayWorld` object -/

structure Layer where
  feats : List (Id × Feature)
  mods : List (Id × Mods)
  index : List (Token × List Id)
  refs : List (Id × List Id)
  /-- the `features` back-pointer of the index: `false` = this world itself; `true` = the live world
  object (what a struct copy `copy := *m` leaves behind — the pre-fix `Snapshot`). -/
  aliasLive : Bool
deriving Repr

def Layer.empty : Layer := ⟨[], [], [], [], false⟩

/-- `FeaturesByID.FindLocationByID` of a feature: only points have one -/
def pointOf (f : Feature) : Option Pt :=
  match f.geom with
  | .point p => some p
  | _ => none

/-- `MutableOverlayWorld.FindLocationByID`: the overlay's version of a feature shadows the base's, even
if it has no location -/
def Layer.loc (b : View) (l : Layer) (id : Id) : Option Pt :=
  match AMap.get l.feats id with
  | some f => pointOf f
  | none => b.loc id

/-- apply the layer's recorded modifications to a feature handed out by the base -/
def Layer.wrap (l : Layer) (id : Id) (fv : FV) : FV :=
  ⟨{ fv.f with tags := applyMods (modsOf l.mods id) fv.f.tags }, fv.pts⟩

def Layer.find (b : View) (l : Layer) (id : Id) : Option FV :=
  match AMap.get l.feats id with
  | some f => some ⟨f, resolve (l.loc b) f.geom⟩
  | none => (b.find id).map (l.wrap id)

/-- search hits: overlay features are wrapped by the index's `features` pointer (`liveLoc` when the
index still points at the live world), base hits by the base and then `ModifiedTags.WrapFeature` -/
def Layer.hitFV (b : View) (liveLoc : Id → Option Pt) (l : Layer) (id : Id) : Option FV :=
  match AMap.get l.feats id with
  | some f => some ⟨f, resolve (if l.aliasLive then liveLoc else l.loc b) f.geom⟩
  | none => (b.hitFV id).map (l.wrap id)

def Layer.search (b : View) (l : Layer) (t : Token) : List Id :=
  (postings l.index t).foldl (fun acc id => insertSorted id acc)
    ((b.search t).filter (fun id => !AMap.contains l.feats id))

def dedup : List Id → List Id
  | [] => []
  | x :: r => if r.contains x then dedup r else x :: dedup r

/-- `MutableOverlayWorld.FindReferences(id)` (no type filter) as written (after
`fixes/C15-overlay-skip-shadowed-base-referrers.patch`: base referrers that the overlay replaced are
skipped, their current references are in `l.refs`) -/
def Layer.refsOf (b : View) (l : Layer) (id : Id) : List Id :=
  let br := (b.refs id).filter (fun r => !AMap.contains l.feats r)
  let all := br ++ br.flatMap (closure l.refs (refDepth l.refs)) ++ closure l.refs (refDepth l.refs) id
  (dedup all).filter (fun r => (l.find b r).isSome)

def Layer.ids (b : View) (l : Layer) : List Id :=
  AMap.keys l.feats ++ b.ids.filter (fun id => !AMap.contains l.feats id)

def Layer.view (b : View) (liveLoc : Id → Option Pt) (l : Layer) : View :=
  { find := l.find b, hitFV := l.hitFV b liveLoc, loc := l.loc b, search := l.search b,
    refs := l.refsOf b, ids := l.ids b }

/-! ## Validation skeleton (validate.go) -/

structure Oracle where
  /-- `s2.Loop.Validate() == nil` for the loop through these vertices -/
  loopValid : List Pt → Bool
  /-- `loop.Area() > 2π` -/
  clockwise : List Pt → Bool

/-- `Tags.ClosedPath` on a path whose elements are all feature ids -/
def closedPath (ps : List Id) : Bool :=
  match ps.head?, ps.getLast? with
  | some a, some b => a == b
  | _, _ => false

/-- `ValidatePath` (InvertClockwisePaths = false) -/
def validatePath (v : View) (o : Oracle) (ps : List Id) : Bool :=
  if ps.length < 2 then false else
  match ps.mapM v.loc with
  | none => false
  | some pts =>
    if closedPath ps then o.loopValid pts.dropLast && !o.clockwise pts.dropLast else true

/-- the check `ValidateArea` makes of one path (after
`fixes/C13-validate-area-locates-ends-in-world.patch`): at least three points, and the first and the
last located **through the world being validated** at the same place -/
def pathClosesIn (loc : Id → Option Pt) (ps : List Id) : Bool :=
  if ps.length < 3 then false else
  match ps.head?, ps.getLast? with
  | some a, some b =>
    (match loc a, loc b with
     | some x, some y => x == y
     | _, _ => false)
  | _, _ => false

/-- what `ValidateArea` requires of the feature found under a path id -/
def areaPathOK (loc : Id → Option Pt) (g : Option Geom) : Bool :=
  match g with
  | some (.path ps) => pathClosesIn loc ps
  | _ => false

/-- `ValidateArea` -/
def validateArea (v : View) (paths : List Id) : Bool :=
  paths.all (fun id => areaPathOK v.loc ((v.find id).map (·.f.geom)))

/-- `ValidateFeature`: `true` = no error -/
def validate (v : View) (o : Oracle) (f : Feature) : Bool :=
  match f.geom with
  | .point _ => true
  | .path ps => validatePath v o ps
  | .area ps => validateArea v ps
  | .relation _ => true
  | .collection _ => true

/-! ## Mutations -/

inductive Err where
  | noFeature
  | invalid
  | partiallyApplied
deriving DecidableEq, Repr

/-- `sortAndDiffTokens(before, after)`, then `index.Remove(f, removed); index.Add(f, added)` — the index
maintenance of `AddTag` / `RemoveTag` for a feature that lives in the overlay (after
`fixes/C03-retokenise-on-tag-edit.patch`) and of `ModifiedFeatures.UpdateIndex` -/
def reindex (ix : List (Token × List Id)) (id : Id) (before after : List Token) : List (Token × List Id) :=
  indexAdd (indexRemove ix id (diffTokens before after).2) id (diffTokens before after).1

def isPoint (f : Feature) : Bool :=
  match f.geom with
  | .point _ => true
  | _ => false

/-- whether `AddTag` on a feature that only lives in the base copies it into the overlay: the tag is
searchable, or the feature is a point with no other tag (which is not indexed at all and becomes
searchable with any tag) -/
def copyOnAdd (f : Feature) (k : Key) : Bool := indexedKey k || (isPoint f && f.tags.isEmpty)

/-- the same for `RemoveTag`: a point left with its location only stops being searchable -/
def copyOnRemove (f : Feature) (k : Key) : Bool := indexedKey k || (isPoint f && f.tags.length == 1)

/-- record a plain-tag modification (`ModifiedTags.ModifyOrAddTag` / `RemoveTag`) -/
def modsSet (mods : List (Id × Mods)) (id : Id) (k : Key) (m : Mod) : List (Id × Mods) :=
  AMap.set mods id (AMap.set (modsOf mods id) k m)

/-- copy a base feature into the overlay with new tags (`features.AddFeature`, `references.AddFeature`,
`index.Add(all tokens)`, `delete(m.tags, id)`) -/
def Layer.adopt (l : Layer) (f : Feature) : Layer :=
  { l with feats := AMap.set l.feats f.id f, refs := refsAdd l.refs f,
           index := indexAdd l.index f.id (tokensFor f), mods := AMap.erase l.mods f.id }

/-- `MutableOverlayWorld.AddTag` -/
def Layer.addTag (b : View) (l : Layer) (id : Id) (tag : Tag) : Except Err Layer :=
  match AMap.get l.feats id with
  | some f =>
    .ok { l with index := reindex l.index f.id (tokensFor f) (tokensFor { f with tags := tagSet f.tags tag }),
                 feats := AMap.set l.feats id { f with tags := tagSet f.tags tag } }
  | none =>
    match l.find b id with
    | none => .error .noFeature
    | some fv =>
      if copyOnAdd fv.f tag.1 then .ok (l.adopt { fv.f with tags := tagSet fv.f.tags tag })
      else .ok { l with mods := modsSet l.mods id tag.1 (.set tag.2) }

/-- `MutableOverlayWorld.RemoveTag` -/
def Layer.removeTag (b : View) (l : Layer) (id : Id) (k : Key) : Except Err Layer :=
  match AMap.get l.feats id with
  | some f =>
    .ok { l with index := reindex l.index f.id (tokensFor f) (tokensFor { f with tags := tagRemove f.tags k }),
                 feats := AMap.set l.feats id { f with tags := tagRemove f.tags k } }
  | none =>
    match l.find b id with
    | none => .error .noFeature
    | some fv =>
      match AMap.get fv.f.tags k with
      | none => .ok l
      | some _ =>
        if copyOnRemove fv.f k then .ok (l.adopt { fv.f with tags := tagRemove fv.f.tags k })
        else .ok { l with mods := modsSet l.mods id k .del }

/-- `NewModifiedFeaturesWithCopies`: referrers that only live in the base are copied into the overlay
(`byID.AddFeature(copy)`; a referrer that is the new feature itself — a reference cycle — is not
copied); returns the layer and the copies -/
def copyStep (newId : Id) (acc : Layer × List Feature) (r : FV) : Layer × List Feature :=
  if AMap.contains acc.1.feats r.f.id || r.f.id == newId then acc
  else ({ acc.1 with feats := AMap.set acc.1.feats r.f.id r.f }, acc.2 ++ [r.f])

def copyReferrers (newId : Id) (l : Layer) (referrers : List FV) : Layer × List Feature :=
  referrers.foldl (copyStep newId) (l, [])

/-- the features `allReferences(f, m)` hands to `AddFeature` -/
def Layer.referrers (b : View) (l : Layer) (id : Id) : List FV :=
  ((l.view b (l.loc b)).refs id).filterMap (l.find b)

/-- `(*m.features)[id] = f` -/
def Layer.putTmp (l : Layer) (f : Feature) : Layer := { l with feats := AMap.set l.feats f.id f }

/-- put the existing feature back (or remove the temporary entry when there was none) -/
def Layer.restore (tmp : Layer) (id : Id) (existing : Option Feature) : Layer :=
  match existing with
  | some e => { tmp with feats := AMap.set tmp.feats id e }
  | none => { tmp with feats := AMap.erase tmp.feats id }

/-- the referrers are validated against the world in which `f` has temporarily replaced the existing
feature; returns the world after the restore and whether a referrer was invalid -/
def Layer.checkReferrers (b : View) (o : Oracle) (l : Layer) (f : Feature) (referrers : List FV) : Layer × Bool :=
  let tmp := l.putTmp f
  let bad := referrers.any (fun r => !validate (tmp.view b (tmp.loc b)) o r.f)
  (tmp.restore f.id (AMap.get l.feats f.id), bad)

/-- `references.RemoveFeature` / `references.AddFeature` of a referrer that already lives in the overlay -/
def removeReferrer (l : Layer) (rs : List (Id × List Id)) (r : FV) : List (Id × List Id) :=
  match AMap.get l.feats r.f.id with
  | some e => refsRemove rs e
  | none => rs

def addReferrer (l : Layer) (rs : List (Id × List Id)) (r : FV) : List (Id × List Id) :=
  match AMap.get l.feats r.f.id with
  | some e => refsAdd rs e
  | none => rs

/-- the tokens `NewModifiedFeaturesWithCopies` records for the feature being replaced -/
def existingTokens (l : Layer) (id : Id) : List Token :=
  match AMap.get l.feats id with
  | some e => tokensFor e
  | none => []

/-- `NewModifiedFeaturesWithCopies` + `ModifiedFeatures.Update` + `delete(m.tags, id)` -/
def Layer.commit (l : Layer) (f : Feature) (referrers : List FV) : Layer :=
  let existing := AMap.get l.feats f.id
  let tokens0 := existingTokens l f.id
  -- (a feature that is its own referrer — a reference cycle — is the existing object itself: it is
  -- merged with `f`, so its references are removed and re-added below as `existing` / `f`)
  let inOverlay := referrers.filter (fun r => AMap.contains l.feats r.f.id && r.f.id != f.id)
  let lc := copyReferrers f.id l referrers
  -- Update: RemoveReferences
  let rs := match existing with
    | some e => refsRemove lc.1.refs e
    | none => lc.1.refs
  let rs := inOverlay.foldl (removeReferrer l) rs
  -- AddReferences
  let rs := refsAdd rs f
  let rs := inOverlay.foldl (addReferrer l) rs
  let rs := lc.2.foldl refsAdd rs
  -- UpdateIndex (tag tokens of referrers already in the overlay do not change)
  let ix := reindex lc.1.index f.id tokens0 (tokensFor f)
  let ix := lc.2.foldl (fun ix c => indexAdd ix c.id (tokensFor c)) ix
  -- MergeFrom / AddFeature(Clone)
  { lc.1 with feats := AMap.set lc.1.feats f.id f, refs := rs, index := ix, mods := AMap.erase lc.1.mods f.id }

/-- `MutableOverlayWorld.AddFeature`; always returns the world it leaves behind -/
def Layer.addFeature (b : View) (o : Oracle) (l : Layer) (f : Feature) : Layer × Option Err :=
  if !validate (l.view b (l.loc b)) o f then (l, some .invalid) else
  let referrers := l.referrers b f.id
  if referrers.isEmpty then (l.commit f referrers, none) else
  let c := l.checkReferrers b o f referrers
  if c.2 then (c.1, some .invalid) else (c.1.commit f referrers, none)

/-! ## Changes (change.go) -/

inductive Change where
  | addFeatures (fs : List Feature)
  | addTags (ts : List (Id × Tag))
  | removeTags (ts : List (Id × Key))
deriving Repr

/-- `AddFeatures.Apply`: stops at the first rejected feature; the earlier ones stay applied -/
def applyFeatures (b : View) (o : Oracle) : Layer → List Feature → Layer × Option Err
  | l, [] => (l, none)
  | l, f :: r =>
    match l.addFeature b o f with
    | (l', none) => applyFeatures b o l' r
    | (l', some e) => (l', some e)

def applyAddTags (b : View) : Layer → List (Id × Tag) → Layer × Option Err
  | l, [] => (l, none)
  | l, (id, t) :: r =>
    match l.addTag b id t with
    | .ok l' => applyAddTags b l' r
    | .error e => (l, some e)

def applyRemoveTags (b : View) : Layer → List (Id × Key) → Layer × Option Err
  | l, [] => (l, none)
  | l, (id, k) :: r =>
    match l.removeTag b id k with
    | .ok l' => applyRemoveTags b l' r
    | .error e => (l, some e)

def Change.apply (b : View) (o : Oracle) (l : Layer) : Change → Layer × Option Err
  | .addFeatures fs => applyFeatures b o l fs
  | .addTags ts => applyAddTags b l ts
  | .removeTags ts => applyRemoveTags b l ts

/-- the single calls a change list makes, in order -/
inductive Prim where
  | feat (f : Feature)
  | tag (id : Id) (t : Tag)
  | untag (id : Id) (k : Key)
deriving Repr

def Change.prims : Change → List Prim
  | .addFeatures fs => fs.map .feat
  | .addTags ts => ts.map fun e => .tag e.1 e.2
  | .removeTags ts => ts.map fun e => .untag e.1 e.2

def Prim.apply (b : View) (o : Oracle) (l : Layer) : Prim → Layer × Option Err
  | .feat f => l.addFeature b o f
  | .tag id t => match l.addTag b id t with
    | .ok l' => (l', none)
    | .error e => (l, some e)
  | .untag id k => match l.removeTag b id k with
    | .ok l' => (l', none)
    | .error e => (l, some e)

/-- a change list as the sequence of its calls, stopping at the first one that fails -/
def applyPrims (b : View) (o : Oracle) : Layer → List Prim → Layer × Option Err
  | l, [] => (l, none)
  | l, p :: r =>
    match p.apply b o l with
    | (l', none) => applyPrims b o l' r
    | (l', some e) => (l', some e)

/-- do two `FindReferences` answers name the same features? -/
def sameRefs (a b : List Id) : Bool := a.all (fun x => b.contains x) && b.all (fun x => a.contains x)

/-- run the calls of a change list on the canary (`c` over `v0`) and on the world (`l` over `b`) in lock
step and check, before every `AddFeature`, that both worlds' `FindReferences` of the feature name the
same referrers — the executable hypothesis of `canary_faithful_of_refs` (C13); it is what C15's
`overlay_find_refs_spec` states for each of the two worlds -/
def lockstepRefs (v0 b : View) (o : Oracle) : Layer → Layer → List Prim → Bool
  | _, _, [] => true
  | c, l, p :: r =>
    (match p with
     | .feat f => sameRefs ((c.view v0 (c.loc v0)).refs f.id) ((l.view b (l.loc b)).refs f.id)
     | _ => true) &&
    (match p.apply v0 o c, p.apply b o l with
     | (c', none), (l', none) => lockstepRefs v0 b o c' l' r
     | _, _ => true)

/-- the hypothesis for a merged change on world `l` over `b` -/
def canaryRefsAgree (b : View) (o : Oracle) (l : Layer) (cs : List Change) : Bool :=
  lockstepRefs (l.view b (l.loc b)) b o Layer.empty l (cs.flatMap Change.prims)

def applyAll (b : View) (o : Oracle) : Layer → List Change → Layer × Option Err
  | l, [] => (l, none)
  | l, c :: r =>
    match c.apply b o l with
    | (l', none) => applyAll b o l' r
    | (l', some e) => (l', some e)

/-- `MergedChange.Apply` on a `MutableOverlayWorld`: first on a canary overlay over the world, then
for real -/
def mergedApply (b : View) (o : Oracle) (l : Layer) (cs : List Change) : Layer × Option Err :=
  let w := l.view b (l.loc b)
  match applyAll w o Layer.empty cs with
  | (_, some e) => (l, some e)
  | (_, none) =>
    match applyAll b o l cs with
    | (l', none) => (l', none)
    | (l', some _) => (l', some .partiallyApplied)

/-! ## Stores: a root world and a stack of layers (top first); `Snapshot` -/

structure Store where
  root : View
  /-- live world first, then the snapshots it was taken over, newest first -/
  layers : List Layer

/-- `FindLocationByID` of the world made of these layers -/
def locOf (root : View) : List Layer → Id → Option Pt
  | [] => root.loc
  | l :: below => fun id =>
    match AMap.get l.feats id with
    | some f => pointOf f
    | none => locOf root below id

def viewOf (root : View) (liveLoc : Id → Option Pt) : List Layer → View
  | [] => root
  | l :: below => l.view (viewOf root liveLoc below) liveLoc

/-- the live world -/
def Store.live (s : Store) : View := viewOf s.root (locOf s.root s.layers) s.layers

/-- the world a snapshot handle denotes: the `h` oldest layers -/
def Store.snap (s : Store) (h : Nat) : View :=
  viewOf s.root (locOf s.root s.layers) (s.layers.drop (s.layers.length - h))

/-- `MutableOverlayWorld.Snapshot()`: the current object state is frozen (with an index that resolves
through the frozen copy), the live object continues with fresh tables on top. Returns the handle. -/
def Store.snapshot (s : Store) : Store × Nat :=
  match s.layers with
  | [] => (s, 0)
  | l :: below => ({ s with layers := Layer.empty :: { l with aliasLive := false } :: below }, below.length + 1)

/-- the pre-fix `Snapshot()`: `copy := *m` keeps the index whose back-pointer is the live object -/
def Store.snapshotAliased (s : Store) : Store × Nat :=
  match s.layers with
  | [] => (s, 0)
  | l :: below => ({ s with layers := Layer.empty :: { l with aliasLive := true } :: below }, below.length + 1)

/-- operations on the live world of a store -/
inductive Op where
  | addFeature (f : Feature)
  | addTag (id : Id) (t : Tag)
  | removeTag (id : Id) (k : Key)
  | merged (cs : List Change)
deriving Repr

/-- the base view of the live layer -/
def Store.baseView (s : Store) : View :=
  viewOf s.root (locOf s.root s.layers) s.layers.tail

def Layer.step (b : View) (o : Oracle) (l : Layer) : Op → Layer × Option Err
  | .addFeature f => l.addFeature b o f
  | .addTag id t => match l.addTag b id t with
    | .ok l' => (l', none)
    | .error e => (l, some e)
  | .removeTag id k => match l.removeTag b id k with
    | .ok l' => (l', none)
    | .error e => (l, some e)
  | .merged cs => mergedApply b o l cs

/-- a whole history on one world object: the final state and what every call answered -/
def runOps (b : View) (o : Oracle) : Layer → List Op → Layer × List (Option Err)
  | l, [] => (l, [])
  | l, op :: rest =>
    ((runOps b o (l.step b o op).1 rest).1, (l.step b o op).2 :: (runOps b o (l.step b o op).1 rest).2)

def Store.step (o : Oracle) (s : Store) (op : Op) : Store × Option Err :=
  match s.layers with
  | [] => (s, some .noFeature)
  | l :: below =>
    let r := l.step s.baseView o op
    ({ s with layers := r.1 :: below }, r.2)

/-! ## `MutableTagsOverlayWorld`: a stack of `ModifiedTags` over a base -/

structure TagsStore where
  root : View
  /-- live modifications first, then the snapshots', newest first -/
  layers : List (List (Id × Mods))

def tagsFind (root : View) : List (List (Id × Mods)) → Id → Option FV
  | [] => root.find
  | m :: below => fun id =>
    (tagsFind root below id).map fun fv => ⟨{ fv.f with tags := applyMods (modsOf m id) fv.f.tags }, fv.pts⟩

/-- `MutableTagsOverlayWorld.AddTag` (no existence check, no index) -/
def TagsStore.addTag (s : TagsStore) (id : Id) (t : Tag) : TagsStore :=
  match s.layers with
  | [] => s
  | m :: below => { s with layers := modsSet m id t.1 (.set t.2) :: below }

def TagsStore.snapshot (s : TagsStore) : TagsStore × Nat :=
  ({ s with layers := [] :: s.layers }, s.layers.length)

def TagsStore.live (s : TagsStore) : Id → Option FV := tagsFind s.root s.layers
def TagsStore.snap (s : TagsStore) (h : Nat) : Id → Option FV :=
  tagsFind s.root (s.layers.drop (s.layers.length - h))

/-! ## A concrete root: `BasicMutableWorld` filled with valid features -/

def rootRefs (fs : List Feature) : List (Id × List Id) := fs.foldl refsAdd []

def rootFeats (fs : List Feature) : List (Id × Feature) := fs.foldl (fun m f => AMap.set m f.id f) []

def rootLoc (feats : List (Id × Feature)) (id : Id) : Option Pt :=
  match AMap.get feats id with
  | some f => pointOf f
  | none => none

def rootFind (feats : List (Id × Feature)) (id : Id) : Option FV :=
  (AMap.get feats id).map fun f => ⟨f, resolve (rootLoc feats) f.geom⟩

def rootSearchStep (feats : List (Id × Feature)) (t : Token) (acc : List Id) (id : Id) : List Id :=
  match AMap.get feats id with
  | some f => if (tokensFor f).contains t then insertSorted id acc else acc
  | none => acc

def rootView (fs : List Feature) : View :=
  let feats := rootFeats fs
  let rs := rootRefs fs
  { find := rootFind feats, hitFV := rootFind feats, loc := rootLoc feats,
    search := fun t => (AMap.keys feats).foldl (rootSearchStep feats t) [],
    refs := fun id => (dedup (closure rs (refDepth rs) id)).filter (fun r => AMap.contains feats r),
    ids := AMap.keys feats }

end B6.Model.Mutable
