/-!
# Model of a compact world merged from several index files (C17)

Mirrors `/repo/src/diagonal.works/b6/ingest/compact/world.go` (`FeaturesByID.Merge`, `World.Merge`,
`findWithoutCache`, `hasFeatureWithID`, `FindLocationByID`, `findPathsByPoint` / `FindReferences(·, path)`,
`EachFeature`, `World.FindFeatures`) and
`/repo/src/diagonal.works/b6/merged.go` (`mergedFeatures`).

* A **file** is a namespace table (`NamespaceTable.FromEncoded`: the namespace of every code), a list of
  feature blocks in file order and, per query, the stream its search index yields.
* A **block** (`featureBlock`) has a feature type, the header's encoded namespaces (one per feature type;
  the entry of the block's own type is the namespace of its ids), a pointer to its file's table, and its
  entries in `Uint64Map.EachItem` order.  An entry is an id value, the tag of its first `Tagged` (points:
  common / full / references-only; others: no tag), what the feature says about itself (`content`,
  opaque) and, for points, the stored location (`none`: the zero vector, `Norm() == 0`).
* `Merge` appends the blocks of a file to the per-type block lists and its index to the index list: a
  **world** is the list of all merged blocks in merge order (a lookup only considers the blocks of the
  id's type, so one list filtered by type is the same as Go's four lists).
* Namespaces are naturals: the rank of the namespace string in byte order (the order `FeatureID.Less`
  and the sorted per-file tables use).  Ids are `(type, namespace, value)`.

Go panics are explicit: `decode` of a code beyond the table is `none`, `pathPoints` is `none` where
`PointAt` panics ("Missing point"), `each` is `none` where `NamespaceTable.Decode` panics.

`mergedFeatures` keeps its live streams in a binary heap keyed by the current id; only the least current id
is observable, so the heap is a list of streams and `minHead` the heap top.  Leaving an id, Go steps the top
stream while the top still equals that id; for streams in (non-strict) ascending order that consumes every
leading occurrence of the id in every stream, which is what `dropHead` does.  (For streams that are not
ascending the two differ; `Sorted` streams are the hypothesis of the theorems and are checked by the driver
on every per-index stream it sees.)
-/
namespace B6.Model.Merged

/-- `b6.FeatureTypeEnd`: `len(f.features)`; ids of type `≥ 4` are never found. -/
def numTypes : Nat := 4

structure ID where
  typ : Nat
  ns : Nat
  val : Nat
deriving DecidableEq, Repr

/-- `FeatureID.Less` -/
def ID.lt (a b : ID) : Prop :=
  a.typ < b.typ ∨ (a.typ = b.typ ∧ (a.ns < b.ns ∨ (a.ns = b.ns ∧ a.val < b.val)))

instance : LT ID := ⟨ID.lt⟩
instance (a b : ID) : Decidable (a < b) := by
  show Decidable (ID.lt a b); unfold ID.lt; infer_instance

/-- The tag of an entry's first `Tagged`. -/
inductive Kind where
  | common | full | refOnly | plain
deriving DecidableEq, Repr

structure Entry (α β : Type) where
  val : Nat
  kind : Kind
  content : α
  loc : Option β
  /-- points: the paths recorded against the point (`CommonPoint.Path`, `FullPoint.Paths`,
  `PointReferences.Paths`), decoded through the file's own table as `findPathsByPoint` does -/
  paths : List ID

/-- `newPhysicalFeatureFromTagged` returns nil for a references-only point; paths, areas and relations are
found whenever their entry exists. -/
def Entry.real {α β : Type} (e : Entry α β) : Bool := e.kind != .refOnly

structure Block (α β : Type) where
  typ : Nat
  nsenc : List Nat
  table : List Nat
  entries : List (Entry α β)

/-- `NamespaceTable.ToEncoded` as `FillFromProto` builds it: later codes of the same namespace overwrite
earlier ones. -/
def encodeFrom (i : Nat) : List Nat → Nat → Option Nat
  | [], _ => none
  | n :: rest, ns =>
    match encodeFrom (i + 1) rest ns with
    | some j => some j
    | none => if n = ns then some i else none

/-- `NamespaceTable.MaybeEncode` -/
def maybeEncode (table : List Nat) (ns : Nat) : Option Nat := encodeFrom 0 table ns

/-- `NamespaceTable.Decode` (`none`: panic "Can't decode") -/
def decode (table : List Nat) (e : Nat) : Option Nat := table[e]?

variable {α β : Type}

/-- `ns, ok := fb.NamespaceTable.MaybeEncode(id.Namespace); ok && ns == fb.Namespaces[t]` for blocks of
type `bt` (the list Go scans) and header slot `t`. -/
def Block.matchesAs (b : Block α β) (bt t : Nat) (ns : Nat) : Bool :=
  b.typ == bt &&
  match b.nsenc[t]?, maybeEncode b.table ns with
  | some e, some e' => e == e'
  | _, _ => false

/-- the test of `findWithoutCache` / `hasFeatureWithID`: block list and header slot of the id's type -/
def Block.matchesID (b : Block α β) (id : ID) : Bool := b.matchesAs id.typ id.typ id.ns

/-- `Uint64Map.FindFirst` -/
def Block.findFirst (b : Block α β) (v : Nat) : Option (Entry α β) := b.entries.find? (·.val == v)

/-- `findWithoutCache` over the blocks in merge order; `none` is the nil of the empty base. -/
def findIn : List (Block α β) → ID → Option α
  | [], _ => none
  | b :: rest, id =>
    if b.matchesID id then
      match b.findFirst id.val with
      | some e => if e.real then some e.content else findIn rest id
      | none => findIn rest id
    else findIn rest id

/-- `FeaturesByID.FindFeatureByID` (the LRU cache only remembers answers) -/
def find (w : List (Block α β)) (id : ID) : Option α :=
  if id.typ < numTypes then findIn w id else none

/-- `World.HasFeatureWithID` -/
def has (w : List (Block α β)) (id : ID) : Bool := (find w id).isSome

/-- `hasFeatureWithID` as first written: the answer of the first block whose namespace matches. -/
def hasFirstBlockIn : List (Block α β) → ID → Bool
  | [], _ => false
  | b :: rest, id =>
    if b.matchesID id then (b.findFirst id.val).isSome else hasFirstBlockIn rest id

def hasFirstBlock (w : List (Block α β)) (id : ID) : Bool :=
  if id.typ < numTypes then hasFirstBlockIn w id else false

/-- `hasFeatureWithID` after fixes/C17-has-feature-scans-all-blocks.patch: every matching block is
consulted and a references-only point is not a feature. -/
def hasIn : List (Block α β) → ID → Bool
  | [], _ => false
  | b :: rest, id =>
    if b.matchesID id then
      match b.findFirst id.val with
      | some e => if e.real then true else hasIn rest id
      | none => hasIn rest id
    else hasIn rest id

/-- `FeaturesByID.HasFeatureWithID` (over an empty base) -/
def hasByID (w : List (Block α β)) (id : ID) : Bool :=
  if id.typ < numTypes then hasIn w id else false

/-- `FeaturesByID.FindLocationByID`: scans the *point* blocks whatever the type of the id, skipping
references-only entries and zero locations; `none` is the error of the empty base. -/
def loc : List (Block α β) → ID → Option β
  | [], _ => none
  | b :: rest, id =>
    if b.matchesAs 0 0 id.ns then
      match b.findFirst id.val with
      | some e =>
        if e.real then
          match e.loc with
          | some l => some l
          | none => loc rest id
        else loc rest id
      | none => loc rest id
    else loc rest id

/-- `wrappedMarshalledPhysicalFeature.PointAt` over every reference of a path (`none`: panic) -/
def pathPoints (w : List (Block α β)) (refs : List ID) : Option (List β) := refs.mapM (loc w)

/-- `add` of `findPathsByPoint`: `if !slices.Contains(paths, pid) { paths = append(paths, pid) }` -/
def addPaths (acc : List ID) : List ID → List ID
  | [] => acc
  | p :: ps => addPaths (if acc.contains p then acc else acc ++ [p]) ps

/-- `findPathsByPoint`: every *point* block of the namespace is consulted (whatever the type of the id),
entries of every kind — references-only ones are how an overlay records its paths over base points. -/
def pathsByPoint : List (Block α β) → ID → List ID → List ID
  | [], _, acc => acc
  | b :: rest, id, acc =>
    if b.matchesAs 0 0 id.ns then
      match b.findFirst id.val with
      | some e => pathsByPoint rest id (addPaths acc e.paths)
      | none => pathsByPoint rest id acc
    else pathsByPoint rest id acc

/-- `FindReferences(id, b6.FeatureTypePath)` drained: the paths through a point that exist in the world -/
def pathRefs (w : List (Block α β)) (id : ID) : List ID :=
  if id.typ = 0 then (pathsByPoint w id []).filter (fun p => (find w p).isSome) else []

/-- the namespace `EachFeature` / `newPhysicalFeature` give the ids of a block:
`fb.NamespaceTable.Decode(fb.Namespaces[typ])` -/
def Block.ns? (b : Block α β) : Option Nat := (b.nsenc[b.typ]?).bind (decode b.table)

/-- the ids one block contributes to `EachFeature` -/
def Block.eachIDs (b : Block α β) : Option (List ID) :=
  (b.ns?).map fun ns => (b.entries.filter (·.real)).map fun e => ⟨b.typ, ns, e.val⟩

def eachType (w : List (Block α β)) (t : Nat) : Option (List ID) :=
  ((w.filter (·.typ == t)).mapM Block.eachIDs).map List.flatten

/-- `FeaturesByID.EachFeature` with one goroutine: points, paths, areas, relations; per type the blocks in
merge order; per block the entries in map order. -/
def each (w : List (Block α β)) : Option (List ID) :=
  ((List.range numTypes).mapM (eachType w)).map List.flatten

/-! ## Files and merging -/

structure File (α β κ : Type) where
  table : List Nat
  blocks : List (Block α β)
  /-- the stream the file's search index yields for a query (`NewSearchFeatureIterator(q.Compile(index, w))`) -/
  index : κ → List ID

variable {κ : Type}

/-- `FeaturesByID.Merge` for every file in turn -/
def mergeBlocks (fs : List (File α β κ)) : List (Block α β) := fs.flatMap (·.blocks)

/-- some file holds both features -/
def sameFile (fs : List (File α β κ)) (x id : ID) : Bool :=
  fs.any fun f => (find f.blocks x).isSome && (find f.blocks id).isSome

/-- The input class of finding `cross-file-referrer`. A file records, with a feature, only the relations of
the *same file* that list it (`Summary.RelationMembers` → `Path.Relations`, `Area.Relations`, `FullPoint.Relations`;
`fillRelationsFromPoint` ignores references-only entries), so `FindRelationsByFeature` / `FindReferences` on a merged
world miss referrers that live in other files. `m` is the merged world's answer, `u` the answer of the one-file
build of the union: the class holds when the merged answer only *lacks* referrers, and every referrer it lacks
shares no file with the feature asked about. -/
def crossFileOnly (fs : List (File α β κ)) (id : ID) (m u : List ID) : Bool :=
  m.all (u.contains ·) && (u.filter (fun x => !m.contains x)).all (fun x => !sameFile fs x id)

/-! ## `b6.MergeFeatures` -/

/-- least current id among the live streams (the heap top) -/
def minHead : List (List ID) → Option ID
  | [] => none
  | [] :: rest => minHead rest
  | (x :: _) :: rest =>
    match minHead rest with
    | none => some x
    | some m => if m < x then some m else some x

/-- step a stream past every leading occurrence of `m` -/
def dropHead (m : ID) (c : List ID) : List ID := c.dropWhile (· == m)

/-- the ids `mergedFeatures.Next` / `FeatureID` yield until exhaustion, on explicit fuel -/
def mergeAll : Nat → List (List ID) → List ID
  | 0, _ => []
  | fuel + 1, cs =>
    match minHead cs with
    | none => []
    | some m => m :: mergeAll fuel (cs.map (dropHead m))

def totalLength (cs : List (List ID)) : Nat := (cs.map List.length).sum

/-- `b6.MergeFeatures(streams...)` drained -/
def merged (cs : List (List ID)) : List ID := mergeAll (totalLength cs) cs

/-- `World.FindFeatures(q)` drained: the merge of the streams of the indices in merge order -/
def search (fs : List (File α β κ)) (q : κ) : List ID := merged (fs.map (·.index q))

end B6.Model.Merged
