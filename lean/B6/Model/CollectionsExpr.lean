import B6.Model.Collections
/-!
# Compositions of the lazy collection functions (C24)

`Co` = an expression tree of library calls as the harness builds it (`take (filter (collection …) f) n`, …),
`denote` = what evaluating it and draining the result yields in the model: the items, how the iteration
ended, and the reported `Count()`.  The functions handed to filter / map / map-items are the few lambdas the
harness uses (`Fn1`, `Fn2`); the per-function theorems are stated for arbitrary functions.
-/
namespace B6.Model.Collections

/-- Go `int(f)` for the float64 with order-preserving code `c`, as `api.Convert` performs it when a float
reaches an `int` parameter (`v.CanConvert(t)` → `reflect.Value.Convert`): truncation toward zero; a value
that does not fit (|f| ≥ 2^63, ±Inf) gives `-2^63`, which is what amd64's CVTTSD2SQ returns — the Go spec
leaves that case implementation-dependent. -/
def floatToInt (c : Int) : Int :=
  let bits := c.natAbs
  let e := bits / 2 ^ 52
  let m := bits % 2 ^ 52
  if e = 0 then 0                                   -- zero and subnormals
  else if e = 2047 then -(2 ^ 63 : Int)             -- ±Inf
  else
    let mag : Nat := if e ≥ 1075 then (2 ^ 52 + m) * 2 ^ (e - 1075) else (2 ^ 52 + m) / 2 ^ (1075 - e)
    if mag ≥ 2 ^ 63 then -(2 ^ 63 : Int)
    else if c < 0 then -(mag : Int) else (mag : Int)

/-- a value arriving at an `int` parameter of a library function (`api.Convert` to `int`):
ints pass, floats are converted, anything else is "expected int, found …" -/
def argInt : Val → Option Int
  | .int i => some i
  | .float c => some (floatToInt c)
  | _ => none

/-- `{v -> …}` lambdas for filter and map -/
inductive Fn1 where
  | gtc (c : Val)        -- {v -> gt v c}
  | cgt (c : Val)        -- {v -> gt c v}
  | addc (c : Int)       -- {v -> add-ints v c}
  | tostr                -- {v -> to-str v}
  | ident                -- {v -> v}
  | konst (c : Val)      -- {v -> c}
  deriving DecidableEq, Repr

def Fn1.apply : Fn1 → Val → Option Val
  | .gtc c, v => (goGreater v c).map .bool
  | .cgt c, v => (goGreater c v).map .bool
  | .addc c, v => (argInt v).map fun i => .int (wrap64 (i + c))
  | .tostr, v => (argInt v).map fun i => .str (toString i)
  | .ident, v => some v
  | .konst c, _ => some c

/-- `{p -> …}` lambdas for map-items -/
inductive Fn2 where
  | swap                 -- {p -> pair (second p) (first p)}
  | incv (c : Int)       -- {p -> pair (first p) (add-ints (second p) c)}
  | first                -- {p -> first p}: not a pair → "expected a pair"
  deriving DecidableEq, Repr

def Fn2.apply : Fn2 → Val → Val → Option Item
  | .swap, k, v => some (v, k)
  | .incv c, k, v => (argInt v).map fun i => (k, .int (wrap64 (i + c)))
  | .first, _, _ => none

mutual
inductive Co where
  | arr (items : List Item)              -- an ArrayCollection literal, or `collection (pair k v) …`
  | take (c : Co) (n : Int)
  | filter (c : Co) (p : Fn1)
  | map (c : Co) (f : Fn1)
  | mapItems (c : Co) (g : Fn2)
  | flatten (cs : CoList)                -- `flatten (collection (pair 0 c0) (pair 1 c1) …)`
  | join (b j : Co)                      -- `join-missing b j`
inductive CoList where
  | nil
  | cons (c : Co) (rest : CoList)
end

/-- result of evaluating and draining -/
structure Den where
  items : List Item
  fin : Fin
  count : Option Int
  deriving DecidableEq, Repr

def Fin.toEnd? : Fin → Option End
  | .done => some .done
  | .err => some .err
  | .nofuel => none

def Den.src? (d : Den) : Option Src := d.fin.toEnd?.map fun e => ⟨d.items, e⟩

def outOfFuel : Den := ⟨[], .nofuel, none⟩

def srcTotal : List Src → Nat
  | [] => 0
  | s :: ss => s.rest.length + 1 + srcTotal ss

mutual
def denote : Co → Den
  | .arr items => ⟨items, .done, some items.length⟩
  | .take c n =>
    let d := denote c
    match d.src? with
    | none => outOfFuel
    | some s =>
      let r := drain takeNext (s.rest.length + 1) (s, takeArg n)
      ⟨r.1, r.2, takeCountRaw d.count (takeArg n)⟩
  | .filter c p =>
    match (denote c).src? with
    | none => outOfFuel
    | some s =>
      let r := drain (filterNext p.apply) (s.rest.length + 1) s
      ⟨r.1, r.2, none⟩
  | .map c f =>
    let d := denote c
    match d.src? with
    | none => outOfFuel
    | some s =>
      let r := drain (mapNext f.apply) (s.rest.length + 1) s
      ⟨r.1, r.2, d.count⟩
  | .mapItems c g =>
    let d := denote c
    match d.src? with
    | none => outOfFuel
    | some s =>
      let r := drain (mapItemsNext g.apply) (s.rest.length + 1) s
      ⟨r.1, r.2, d.count⟩
  | .flatten cs =>
    match denoteList cs with
    | none => outOfFuel
    | some ss =>
      let r := drain (flattenNext .done) (srcTotal ss + 1) (ss, none)
      ⟨r.1, r.2, none⟩
  | .join b j =>
    match (denote b).src?, (denote j).src? with
    | some sb, some sj =>
      let r := drain jmNext (sb.rest.length + sj.rest.length + 1)
        { started := false, b := sb, j := sj, bcur := none, jcur := none }
      ⟨r.1, r.2, none⟩
    | _, _ => outOfFuel
def denoteList : CoList → Option (List Src)
  | .nil => some []
  | .cons c rest =>
    match (denote c).src?, denoteList rest with
    | some s, some ss => some (s :: ss)
    | _, _ => none
end

end B6.Model.Collections
