import B6.Model.Varint
/-!
# L0 bits — hand-written `BitVec` models of the bit packings used in IDs and encodings (core Lean only)

Used by the drivers (which must not import `B6/Gen`).  `B6/Props/C10.lean` proves each definition equal
to the one regenerated from the Go source by `tools/go2lean` (`B6/Gen/Bits.lean`), so the hand model is
tied to the code text on every run.  Go `int`/`uint` are 64-bit here.

| Go | model |
|---|---|
| encoding.ZigzagEncode/ZigzagDecode | `Varint.zigzagEncode/zigzagDecode` (in `Model/Varint.lean`) |
| renderer.zigzagEncode/zigzagDecode | `zigzagEncode32/zigzagDecode32` (+ the `int` wrappers) |
| compact.CombineTypeAndNamespace / TypeAndNamespace.Split | `combineTypeNs/splitTypeNs` |
| compact.EncodeValueType / DecodeValue | `encodeValueType/decodeValue` |
| compact.EncodeGeometry / DecodeGeometryLen / DecodeGeometryEncoding | `encodeGeometry/decodeGeometryLen/decodeGeometryEncoding` |
| encoding.uint64MapBucketHeader.Marshal/Unmarshal (the `idAndTag` word), Uint64MapLayout.BucketForID, NewUint64MapBuilder's layout | `headerPack/headerUnpackID/headerUnpackTag/bucketForID/builderLayout` |
| b6.TileIDFromXYZ / TileID.ToXYZ | `tileIDFromXYZ/tileIDToXYZ` |
| ingest.NewLatLngID / LatLngFromID (integer part) | `newLatLngID/latLngFromID` |
| b6.PointIDFromGBPostcode / PostcodeFromPointID | `pointIDFromGBPostcode/postcodeFromPointID` (ASCII strings) |
| b6.FeatureIDFromUKONSCode / UKONSCodeFromFeatureID | `featureIDFromUKONSCode/ukONSCodeFromFeatureID` (ASCII strings) |
-/
namespace B6.Model.Bits
open B6.Model.Varint

/-! ## 32-bit zigzag of the tile encoder (renderer/encoder.go) -/

def zigzagEncode32 (x : BitVec 32) : BitVec 32 := (x <<< 1) ^^^ (x.sshiftRight 31)
def zigzagDecode32 (v : BitVec 32) : BitVec 32 := (v >>> 1) ^^^ (-(v &&& 1#32))
/-- the code before the repair (`int32(value) >> 1`, arithmetic) -/
def zigzagDecode32Arith (v : BitVec 32) : BitVec 32 := (v.sshiftRight 1) ^^^ (-(v &&& 1#32))

/-- `zigzagEncode(value int) uint32` — the `int` is first truncated to `int32`. -/
def rendererZigzagEncode (value : BitVec 64) : BitVec 32 := zigzagEncode32 (value.setWidth 32)
/-- `zigzagDecode(value uint32) int` — the `int32` result is sign-extended to `int`. -/
def rendererZigzagDecode (v : BitVec 32) : BitVec 64 := (zigzagDecode32 v).signExtend 64

/-! ## type + namespace in 16 bits (ingest/compact/encoding.go) -/

/-- `TypeAndNamespace(t<<13) | TypeAndNamespace(ns)`; `t : b6.FeatureType` (an `int`), `ns : Namespace` (`uint16`). -/
def combineTypeNs (t : BitVec 64) (ns : BitVec 16) : BitVec 16 := (t <<< 13).setWidth 16 ||| ns
/-- `(b6.FeatureType(t >> 13), Namespace(t & (1<<13 - 1)))` -/
def splitTypeNs (tn : BitVec 16) : BitVec 64 × BitVec 16 := ((tn >>> 13).setWidth 64, tn &&& 8191#16)

/-! ## value type in the low 2 bits -/

/-- `EncodeValueType(t, v)`; `none` = the Go code panics ("Can't encode value type"). -/
def encodeValueType (t : BitVec 64) (v : BitVec 64) : Option (BitVec 64) :=
  if ((v <<< 2) >>> 2) != v then none else some ((v <<< 2) ||| t)
/-- value part of `DecodeValue`: `v >> ValueTypeBits` -/
def decodeValue (v : BitVec 64) : BitVec 64 := v >>> 2
/-- type part, as read by `UnmarshalValue`-style code: `v & (1<<ValueTypeBits - 1)` -/
def decodeValueType (v : BitVec 64) : BitVec 64 := v &&& 3#64

/-! ## geometry encoding + length -/

/-- `EncodeGeometry(e, l)`; encodings 0 = references, 1 = lat/lngs, 2 = mixed; anything else panics. -/
def encodeGeometry (e : BitVec 8) (l : BitVec 64) : Option (BitVec 64) :=
  if e == 0#8 then some (l <<< 1)
  else if e == 1#8 then some ((l <<< 2) ||| 1#64)
  else if e == 2#8 then some ((l <<< 2) ||| 3#64)
  else none
def decodeGeometryLen (v : BitVec 64) : BitVec 64 :=
  if (v &&& 1#64) == 0#64 then v >>> 1 else v >>> 2
def decodeGeometryEncoding (v : BitVec 64) : BitVec 8 :=
  if (v &&& 1#64) == 0#64 then 0#8 else if (v &&& 2#64) == 0#64 then 1#8 else 2#8

/-! ## Uint64Map bucket header (encoding/uint64map.go); `b` = BucketBits, `t` = TagBits -/

/-- `idAndTag := ((ID >> BucketBits) << TagBits) | uint64(Tag)` -/
def headerPack (id tag b t : BitVec 64) : BitVec 64 := ((id >>> b) <<< t) ||| tag
/-- `ID = uint64(bucket) | ((idAndTag >> TagBits) << BucketBits)` -/
def headerUnpackID (bucket v b t : BitVec 64) : BitVec 64 := bucket ||| ((v >>> t) <<< b)
/-- `Tag = idAndTag & (1<<TagBits - 1)` -/
def headerUnpackTag (v t : BitVec 64) : BitVec 64 := v &&& ((1#64 <<< t) - 1#64)
/-- `BucketForID(id) = id & (1<<BucketBits - 1)` -/
def bucketForID (id b : BitVec 64) : BitVec 64 := id &&& ((1#64 <<< b) - 1#64)
/-- the layout `NewUint64MapBuilder(bucketBits, tagBits)` really uses (repaired code: at least `tagBits` bucket bits). -/
def builderLayout (b t : BitVec 64) : BitVec 64 × BitVec 64 := if BitVec.slt b t then (t, t) else (b, t)
/-- the code before the repair used the requested layout unchanged. -/
def builderLayoutOld (b t : BitVec 64) : BitVec 64 × BitVec 64 := (b, t)

/-- executable form of the domain of `header_roundtrip`: a layout whose header keeps every id bit. -/
def layoutOK (b t : BitVec 64) : Bool := decide (t ≤ b) && decide (b ≤ 63#64)

/-! ## the bucket bits the index builder asks for (ingest/compact/build.go)

`bucketBitsForCount(count) = int(math.Ceil(math.Log(float64(count)) / math.Log(2.0)))`, at least 1.  The Go
code computes this in floating point; the model is the exact integer function (smallest `b` with
`2^b ≥ count`, at least 1).  Measured against the real function (harness `bbsweep`/`bbits`): identical for
every `count < 2^29` (exhaustively); from `count = 2^29` on the float result can be off by one next to a power of two
(2^29 ↦ 30, 2^49+1 ↦ 49, …) — see notes/C10.md.  `bucketBitsClose` is that measured tolerance. -/

def ceilLog2 (n : Nat) : Nat := if n ≤ 1 then 0 else Nat.log2 (n - 1) + 1

def bucketBitsForCount (n : Nat) : Nat := max 1 (ceilLog2 n)

/-- what the correspondence run accepts as the Go result `g` for a count `n`: exact below 2^29, within one
(and still ≥ 1) above. -/
def bucketBitsClose (n g : Nat) : Bool :=
  if n < 2 ^ 29 then g == bucketBitsForCount n
  else decide (1 ≤ g) && (g == bucketBitsForCount n || g + 1 == bucketBitsForCount n || g == bucketBitsForCount n + 1)

/-- `var tagBits` of build.go by feature type (point, path, area, relation). -/
def tagBitsOfType : Nat → Option Nat
  | 0 => some 2 | 1 => some 0 | 2 => some 0 | 3 => some 0 | _ => none

/-! ## tile ids (tiles.go) -/

def tileIDFromXYZ (x y z : BitVec 64) : BitVec 64 := ((z <<< 59) ||| (y <<< z)) ||| x
def tileIDToXYZ (t : BitVec 64) : BitVec 64 × BitVec 64 × BitVec 64 :=
  let z := t >>> 59
  (t &&& ((1#64 <<< z) - 1#64), (t >>> z) &&& ((1#64 <<< z) - 1#64), z)

/-! ## lat/lng point ids (ingest/ids.go), on the E7 integers -/

def newLatLngID (latE7 lngE7 : BitVec 32) : BitVec 64 := ((latE7.setWidth 64) <<< 32) ||| lngE7.setWidth 64
def latLngFromID (v : BitVec 64) : BitVec 32 × BitVec 32 :=
  (((v >>> 32) &&& 4294967295#64).setWidth 32, (v &&& 4294967295#64).setWidth 32)

/-! ## GB postcodes (ids.go) — ASCII strings as `List Char`

`PointIDFromGBPostcode`: drop spaces, upper-case, 5..7 characters of `[0-9A-Z]`, 6 bits each, then 2 bits
of (length − 5).  7·6+2 = 44 bits, so the `uint64` never wraps and `Nat` arithmetic is exact
(`id <<= 6; id |= v` = `id*64 + v` because `v < 64`). -/

def upperAscii (c : Char) : Char := if 'a' ≤ c ∧ c ≤ 'z' then Char.ofNat (c.toNat - 32) else c

/-- `strings.ToUpper(strings.Replace(s, " ", "", -1))` on ASCII input -/
def normalizePostcode (s : List Char) : List Char := (s.filter (· ≠ ' ')).map upperAscii

def postcodeCharValue (c : Char) : Option Nat :=
  if '0' ≤ c ∧ c ≤ '9' then some (c.toNat - '0'.toNat)
  else if 'A' ≤ c ∧ c ≤ 'Z' then some (c.toNat - 'A'.toNat + 10)
  else none

def postcodeFold : List Char → Nat → Option Nat
  | [], acc => some acc
  | c :: cs, acc => match postcodeCharValue c with
    | some v => postcodeFold cs (acc * 64 + v)
    | none => none

/-- `PointIDFromGBPostcode(s).Value`; `none` = `FeatureIDInvalid`. -/
def pointIDFromGBPostcode (s : List Char) : Option Nat :=
  let p := normalizePostcode s
  if p.length < 5 ∨ p.length > 7 then none
  else match postcodeFold p 0 with
    | some id => some (id * 4 + (p.length - 5))
    | none => none

def postcodeValueChar (v : Nat) : Option Char :=
  if v < 10 then some (Char.ofNat ('0'.toNat + v))
  else if v < 36 then some (Char.ofNat ('A'.toNat + (v - 10)))
  else none

def postcodeUnfold : (n : Nat) → (v : Nat) → (acc : List Char) → Option (List Char)
  | 0, _, acc => some acc
  | n + 1, v, acc => match postcodeValueChar (v % 64) with
    | some c => postcodeUnfold n (v / 64) (c :: acc)
    | none => none

/-- `PostcodeFromPointID` on the id value (namespace test left to the caller); `none` = `("", false)`. -/
def postcodeFromPointID (v : Nat) : Option (List Char) :=
  postcodeUnfold (5 + v % 4) (v / 4) []

/-! ## UK ONS codes (ids.go) — ASCII strings as `List Char`

`FeatureIDFromUKONSCode(code, year, t).Value`: 9 bytes, `strconv.Atoi(code[1:])` (which accepts a sign!),
`uint8(code[0]) << 40 | uint8(year-1900) << 32 | uint64(n)`. -/

def digitValue (c : Char) : Option Nat :=
  if '0' ≤ c ∧ c ≤ '9' then some (c.toNat - '0'.toNat) else none

def atoiDigits : List Char → Nat → Option Nat
  | [], acc => some acc
  | c :: cs, acc => match digitValue c with
    | some d => atoiDigits cs (acc * 10 + d)
    | none => none

/-- `strconv.Atoi` on a short (< 19 bytes) ASCII string: optional sign, at least one digit. -/
def atoi (s : List Char) : Option Int :=
  match s with
  | [] => none
  | '-' :: ds => if ds.isEmpty then none else (atoiDigits ds 0).map fun n => -(n : Int)
  | '+' :: ds => if ds.isEmpty then none else (atoiDigits ds 0).map fun n => (n : Int)
  | ds => (atoiDigits ds 0).map fun n => (n : Int)

def featureIDFromUKONSCode (code : List Char) (year : Int) : Option (BitVec 64) :=
  match code with
  | c0 :: rest =>
    if rest.length ≠ 8 then none
    else match atoi rest with
      | none => none
      | some n =>
        let codeBits : BitVec 64 := (BitVec.ofNat 64 (c0.toNat % 256)) <<< 40
        let yearBits : BitVec 64 := ((BitVec.ofInt 8 (year - 1900)).setWidth 64) <<< 32
        some (codeBits ||| yearBits ||| BitVec.ofInt 64 n)
  | [] => none

def digitChar (d : Nat) : Char := Char.ofNat ('0'.toNat + d % 10)

/-- `%08d` of a value `< 2^32`: eight zero-padded digits, more when the number needs them. -/
def fmt08 (n : Nat) : List Char :=
  if n < 100000000 then
    [digitChar (n / 10000000), digitChar (n / 1000000), digitChar (n / 100000), digitChar (n / 10000),
     digitChar (n / 1000), digitChar (n / 100), digitChar (n / 10), digitChar n]
  else (Nat.repr n).toList

/-- `UKONSCodeFromFeatureID` on the id value: (code, year).  The letter is `string(byte(..))`; for bytes
≥ 0x80 Go produces the 2-byte UTF-8 form of U+0080..U+00FF, which as a `Char` is the same code point. -/
def ukONSCodeFromFeatureID (v : BitVec 64) : List Char × Int :=
  let year : Int := (((v >>> 32) &&& 255#64).toNat : Int) + 1900
  let letter := Char.ofNat ((v >>> 40) &&& 255#64).toNat
  (letter :: fmt08 (v &&& 4294967295#64).toNat, year)

end B6.Model.Bits
