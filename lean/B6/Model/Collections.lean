/-!
# Model of the collection functions (property C24)

Go sources mirrored: `api/functions/collections.go` (pairCollection, takeCollection, top, filterCollection,
sumByKey, countValues, countKeys, countValidKeys, flattenCollection, joinMissingCollection),
`api/functions/map.go` (mapCollection, mapItemsCollection), `collections.go` (ArrayCollection, `b6.Count`,
adaptIterator's type assertion), `values.go` (`b6.Less`, `b6.Equal`, `b6.Greater`),
`ingest/features.go` (`CollectionFeature.FindValue/FindValues`, `sort.Search`), `container/heap` (up/down).
The model follows the code AFTER the fixes `C24-take-negative-count` (take clamps n < 0 to 0) and
`C24-top-empty` (top starts from an empty heap); `takeCountOld` / `topOld` keep the unrepaired behaviour
for the counterexample theorems.

Iterator style: every lazy collection is a `next` function on an explicit state, mirroring the Go `Next()`
body; the inner iterator a Go iterator wraps is seen through `Src` = "items still to come + how the
iteration ends" (nothing else of an inner iterator is observable through Next/Key/Value).
`drain` calls `next` until it stops, one unit of fuel per call.
-/
namespace B6.Model.Collections

/-! ## values -/

/-- b6 values that occur as keys and values here.  A float64 is carried as an order-preserving integer code
(`+0`,`-0` ↦ 0; positive x ↦ bits(x); negative x ↦ −bits(|x|)); NaN does not occur. -/
inductive Val where
  | int (i : Int)
  | float (c : Int)
  | str (s : String)
  | fid (t : Nat) (ns : String) (v : Nat)
  | bool (b : Bool)
  deriving DecidableEq, Repr

/-- Go `int` arithmetic wraps at 64 bits -/
def wrap64 (i : Int) : Int := Int.bmod i (2 ^ 64)

/-- the code of `float64(i)` for a Go int: exact up to 53 significant bits, beyond that IEEE
round-to-nearest-even on the bits that do not fit (a carry out of the mantissa lands in the exponent field) -/
def floatCodeOfInt (i : Int) : Option Int :=
  if i = 0 then some 0 else
  let n := i.natAbs
  let k := Nat.log2 n
  let q : Nat :=
    if k ≤ 52 then n * 2 ^ (52 - k)
    else
      let sh := k - 52
      let q0 := n / 2 ^ sh
      let rem := n % 2 ^ sh
      let half := 2 ^ (sh - 1)
      if rem > half || (rem == half && q0 % 2 == 1) then q0 + 1 else q0
  let bits : Nat := (1023 + k) * 2 ^ 52 + (q - 2 ^ 52)
  some (if i < 0 then -(bits : Int) else (bits : Int))

/-- comparison outcome: `some b` or `none` = the Go function returned an error (or the model does not cover it) -/
def toFloatCode : Val → Option Int
  | .float c => some c
  | .int i => floatCodeOfInt i
  | _ => none

def fidLess (t1 : Nat) (n1 : String) (v1 : Nat) (t2 : Nat) (n2 : String) (v2 : Nat) : Bool :=
  if t1 = t2 then (if n1 = n2 then decide (v1 < v2) else decide (n1 < n2)) else decide (t1 < t2)

/-- `b6.Less(a, b)`; note the if/else-if chain: an int `a` with a non-int `b` is an error even when `b` is a float -/
def goLess (a b : Val) : Option Bool :=
  match a with
  | .int x => match b with
    | .int y => some (decide (x < y))
    | _ => none
  | .float x => match toFloatCode b with
    | some y => some (decide (x < y))
    | none => none
  | .str x => match b with
    | .str y => some (decide (x < y))
    | _ => none
  | .fid t1 n1 v1 => match b with
    | .fid t2 n2 v2 => some (fidLess t1 n1 v1 t2 n2 v2)
    | _ => none
  | .bool _ => none

/-- `b6.Equal(a, b)` -/
def goEqual (a b : Val) : Option Bool :=
  match a with
  | .int x => match b with
    | .int y => some (decide (x = y))
    | _ => none
  | .float x => match toFloatCode b with
    | some y => some (decide (x = y))
    | none => none
  | .str x => match b with
    | .str y => some (decide (x = y))
    | _ => none
  | .fid t1 n1 v1 => match b with
    | .fid t2 n2 v2 => some (decide (t1 = t2 ∧ n1 = n2 ∧ v1 = v2))
    | _ => none
  | .bool _ => none

/-- `b6.Greater(a, b)`: `Less` must be false, then `Equal` must be false -/
def goGreater (a b : Val) : Option Bool :=
  match goLess a b with
  | none => none
  | some true => some false
  | some false => match goEqual a b with
    | none => none
    | some e => some (!e)

/-! ## iterators -/

abbrev Item := Val × Val

inductive End where
  | done    -- Next returned (false, nil)
  | err     -- Next returned an error
  deriving DecidableEq, Repr

/-- what a consumer can still observe of an inner iterator -/
structure Src where
  rest : List Item
  fin : End
  deriving DecidableEq, Repr

inductive Step (σ : Type) where
  | yield (it : Item) (s : σ)   -- Next = (true, nil); Key(), Value() = it
  | stop                        -- Next = (false, nil)
  | fail                        -- Next = (_, err)

/-- arrayIterator / pairCollection / any inner iterator -/
def Src.next (s : Src) : Step Src :=
  match s.rest with
  | x :: xs => .yield x ⟨xs, s.fin⟩
  | [] => match s.fin with
    | .done => .stop
    | .err => .fail

inductive Fin where
  | done | err | nofuel
  deriving DecidableEq, Repr

/-- `for { ok, err := i.Next(); if err != nil → err; if !ok → done; collect Key(), Value() }` -/
def drain {σ : Type} (next : σ → Step σ) : Nat → σ → List Item × Fin
  | 0, _ => ([], .nofuel)
  | f + 1, s =>
    match next s with
    | .yield it s' => (it :: (drain next f s').1, (drain next f s').2)
    | .stop => ([], .done)
    | .fail => ([], .err)

/-! ### take -/

/-- `takeCollection.Next`: `if t.r > 0 { t.r--; return t.i.Next() }; return false, nil` -/
def takeNext (s : Src × Int) : Step (Src × Int) :=
  if s.2 > 0 then
    match s.1.next with
    | .yield it s' => .yield it (s', s.2 - 1)
    | .stop => .stop
    | .fail => .fail
  else .stop

/-- `takeCollection.Count` as written: `min(n_inner, t.n)` when the inner count is known -/
def takeCountRaw (inner : Option Int) (n : Int) : Option Int :=
  inner.map fun c => if c < n then c else n

/-- `take(collection, n)` after the fix: `if n < 0 { n = 0 }` -/
def takeArg (n : Int) : Int := if n < 0 then 0 else n

/-- the unrepaired `take`: n is used as given -/
def takeCountOld (inner : Option Int) (n : Int) : Option Int := takeCountRaw inner n

/-! ### filter, map, map-items
`f v = none` stands for "the VM call returned an error". -/

/-- `filterCollection.Next`: loop over the inner iterator until the function answers `true` -/
def filterGo (p : Val → Option Val) (fin : End) : List Item → Step Src
  | [] => (match fin with
    | .done => .stop
    | .err => .fail)
  | (k, v) :: xs =>
    match p v with
    | none => .fail
    | some (.bool true) => .yield (k, v) ⟨xs, fin⟩
    | some (.bool false) => filterGo p fin xs
    | some _ => .fail                                  -- "expected bool, found %T"

def filterNext (p : Val → Option Val) (s : Src) : Step Src := filterGo p s.fin s.rest

/-- `mapCollection.Next` -/
def mapNext (f : Val → Option Val) (s : Src) : Step Src :=
  match s.next with
  | .yield (k, v) s' =>
    match f v with
    | some v' => .yield (k, v') s'
    | none => .fail
  | .stop => .stop
  | .fail => .fail

/-- `mapItemsCollection.Next`; `g k v = none` = error, or the result is not a pair -/
def mapItemsNext (g : Val → Val → Option Item) (s : Src) : Step Src :=
  match s.next with
  | .yield (k, v) s' =>
    match g k v with
    | some kv => .yield kv s'
    | none => .fail
  | .stop => .stop
  | .fail => .fail

/-! ### flatten -/

/-- `flattenCollection.Next` with `f.ii == nil`: advance the outer iterator until an inner collection
yields something -/
def flattenOuter (ofin : End) : List Src → Step (List Src × Option Src)
  | [] => (match ofin with
    | .done => .stop
    | .err => .fail)
  | c :: cs =>
    match c.rest with
    | x :: xs => .yield x (cs, some ⟨xs, c.fin⟩)
    | [] => match c.fin with
      | .err => .fail
      | .done => flattenOuter ofin cs                 -- f.ii = nil; next round of the loop

def flattenNext (ofin : End) (s : List Src × Option Src) : Step (List Src × Option Src) :=
  match s.2 with
  | none => flattenOuter ofin s.1
  | some ii =>
    match ii.rest with
    | x :: xs => .yield x (s.1, some ⟨xs, ii.fin⟩)
    | [] => match ii.fin with
      | .err => .fail
      | .done => flattenOuter ofin s.1

/-! ### join-missing -/

/-- `ok, err = i.Next()` with the current item: `none` = error -/
def adv (s : Src) : Option (Option Item × Src) :=
  match s.rest with
  | x :: xs => some (some x, ⟨xs, s.fin⟩)
  | [] => match s.fin with
    | .done => some (none, s)
    | .err => none

/-- joinMissingCollection: `bcur`/`jcur` are the current items while `bok`/`jok` hold -/
structure JM where
  started : Bool
  b : Src
  j : Src
  bcur : Option Item
  jcur : Option Item

/-- the loop `for j.bok && j.jok && err == nil { equal → j.ji.Next() }` for a fixed base key -/
def jmSkip (bk : Val) (jfin : End) : Item → List Item → Option (Option Item × Src)
  | (jk, jv), rest =>
    match goEqual jk bk with
    | none => none
    | some false => some (some (jk, jv), ⟨rest, jfin⟩)
    | some true =>
      match rest with
      | x :: xs => jmSkip bk jfin x xs
      | [] => match jfin with
        | .done => some (none, ⟨[], jfin⟩)
        | .err => none

/-- first half of `Next`: start both iterators, or advance the one with the lesser key -/
def jmAdvance (s : JM) : Option JM :=
  if !s.started then
    match adv s.b with
    | none => none
    | some (bc, b') =>
      match adv s.j with
      | none => none
      | some (jc, j') => some { started := true, b := b', j := j', bcur := bc, jcur := jc }
  else
    match s.bcur, s.jcur with
    | some bi, some ji =>
      match goLess ji.1 bi.1 with
      | none => none
      | some true => (adv s.j).map fun (jc, j') => { s with j := j', jcur := jc }
      | some false => (adv s.b).map fun (bc, b') => { s with b := b', bcur := bc }
    | some _, none => (adv s.b).map fun (bc, b') => { s with b := b', bcur := bc }
    | none, some _ => (adv s.j).map fun (jc, j') => { s with j := j', jcur := jc }
    | none, none => some s

/-- `joinMissingCollection.Next` followed by `Key()`/`Value()` (= `iterator()`) -/
def jmNext (s : JM) : Step JM :=
  match jmAdvance s with
  | none => .fail
  | some s1 =>
    match s1.bcur, s1.jcur with
    | some bi, some ji =>
      match jmSkip bi.1 s1.j.fin ji s1.j.rest with
      | none => .fail
      | some (jc, j') =>
        let s2 : JM := { s1 with j := j', jcur := jc }
        match jc with
        | some ji' =>
          -- iterator(): `less, _ := b6.Less(ji.Key(), bi.Key())` — an error reads as false
          if (goLess ji'.1 bi.1).getD false then .yield ji' s2 else .yield bi s2
        | none => .yield bi s2
    | some bi, none => .yield bi s1
    | none, some ji => .yield ji s1
    | none, none => .stop

/-! ## eager functions -/

/-- association-list version of the Go `map[interface{}]int` the counting functions fill
(first-occurrence order; the Go result order is random and is canonicalised by sorting on both sides) -/
def bump (k : Val) (d : Int) : List (Val × Int) → List (Val × Int)
  | [] => [(k, wrap64 d)]
  | (k', c) :: rest => if k' = k then (k', wrap64 (c + d)) :: rest else (k', c) :: bump k d rest

/-- `sumByKey`: `none` = the `Collection[any,int]` adaptor met a non-int value (or the inner iteration failed) -/
def sumByKey (items : List Item) (fin : End) : Option (List (Val × Int)) :=
  let rec go (acc : List (Val × Int)) : List Item → Option (List (Val × Int))
    | [] => (match fin with
      | .done => some acc
      | .err => none)
    | (k, .int v) :: xs => go (bump k v acc) xs
    | _ :: _ => none
  go [] items

def countBy (keyOf : Item → Val) (delta : Item → Int) (items : List Item) (fin : End) :
    Option (List (Val × Int)) :=
  match fin with
  | .err => none
  | .done => some (items.foldl (fun acc it => bump (keyOf it) (delta it) acc) [])

def countValues (items : List Item) (fin : End) := countBy (·.2) (fun _ => 1) items fin
def countKeys (items : List Item) (fin : End) := countBy (·.1) (fun _ => 1) items fin
/-- `FeatureID.IsValid`: `Namespace != NamespaceInvalid ("") && Type != FeatureTypeInvalid (= 4 in world.go)` -/
def fidValid (t : Nat) (ns : String) : Bool := ns != "" && t != 4

/-- `countValidKeys`: an invalid feature ID adds 0 but still creates the key -/
def validDelta : Item → Int
  | (_, .fid t ns _) => if fidValid t ns then 1 else 0
  | _ => 1
def countValidKeys (items : List Item) (fin : End) := countBy (·.1) validDelta items fin

/-- `b6.Count`: the reported count when there is one, else the number of items (error → `none`) -/
def goCount (reported : Option Int) (items : List Item) (fin : Fin) : Option Int :=
  match reported with
  | some n => some n
  | none => match fin with
    | .done => some items.length
    | _ => none

/-! ### top: container/heap on a slice -/

/-- value order of topIntHeap / topFloatHeap (`h[i][1] < h[j][1]`): ints and float codes compare as integers -/
def valNum : Val → Option Int
  | .int i => some i
  | .float c => some c
  | _ => none

def itemLess (a b : Item) : Bool :=
  match valNum a.2, valNum b.2 with
  | some x, some y => decide (x < y)
  | _, _ => false

def aswap (h : Array Item) (i j : Nat) : Array Item :=
  match h[i]?, h[j]? with
  | some a, some b => (h.setIfInBounds i b).setIfInBounds j a
  | _, _ => h

def aless (h : Array Item) (i j : Nat) : Bool :=
  match h[i]?, h[j]? with
  | some a, some b => itemLess a b
  | _, _ => false

/-- `heap.up(h, j)` -/
def heapUp : Nat → Array Item → Nat → Array Item
  | 0, h, _ => h
  | f + 1, h, j =>
    let i := (j - 1) / 2
    if i = j || !aless h j i then h else heapUp f (aswap h i j) i

/-- `heap.down(h, i, n)` -/
def heapDown : Nat → Array Item → Nat → Nat → Array Item
  | 0, h, _, _ => h
  | f + 1, h, i, n =>
    let j1 := 2 * i + 1
    if j1 ≥ n then h else
    let j := if j1 + 1 < n && aless h (j1 + 1) j1 then j1 + 1 else j1
    if !aless h j i then h else heapDown f (aswap h i j) j n

/-- `heap.Push(h, x)` -/
def heapPush (h : Array Item) (x : Item) : Array Item :=
  let h := h.push x
  heapUp (h.size + 1) h (h.size - 1)

/-- `heap.Pop(h)`: swap(0, n), down(0, n), remove the last -/
def heapPop (h : Array Item) : Option (Item × Array Item) :=
  if h.size = 0 then none else
  let n := h.size - 1
  let h1 := aswap h 0 n
  let h2 := heapDown (h.size + 1) h1 0 n
  match h2[n]? with
  | some x => some (x, h2.pop)
  | none => none

/-- an abstract priority queue: what `top` needs from container/heap -/
structure PQ where
  Q : Type
  empty : Q
  push : Q → Item → Q
  pop : Q → Option (Item × Q)
  size : Q → Nat

def goHeap : PQ := { Q := Array Item, empty := #[], push := heapPush, pop := heapPop, size := Array.size }

inductive TopRes where
  | ok (items : List Item)
  | error                 -- "Can't order values of type …" / "Expected float64, found …" / inner iteration error
  | panic                 -- nil heap.Interface (unrepaired code, empty input)
  deriving DecidableEq, Repr

/-- kind of the first value decides the heap; later values must be of the same kind -/
def sameKind : Val → Val → Bool
  | .int _, .int _ => true
  | .float _, .float _ => true
  | _, _ => false

/-- pop everything: `r[len-1-j] = heap.Pop(h)` fills the result from the back -/
def popAll (pq : PQ) : Nat → pq.Q → List Item → List Item
  | 0, _, acc => acc
  | f + 1, q, acc =>
    match pq.pop q with
    | none => acc
    | some (x, q') => popAll pq f q' (x :: acc)

/-- the main loop of `top` after the first item fixed the kind -/
def topLoop (pq : PQ) (n : Int) (first : Val) : List Item → pq.Q → Option pq.Q
  | [], q => some q
  | (k, v) :: xs, q =>
    if !sameKind first v then none else
    let q := pq.push q (k, v)
    let q := if (pq.size q : Int) > n then (match pq.pop q with
      | some (_, q') => q'
      | none => q) else q
    topLoop pq n first xs q

/-- `top(collection, n)` (repaired: the heap starts empty instead of nil) -/
def top (pq : PQ) (items : List Item) (fin : End) (n : Int) : TopRes :=
  match items with
  | [] => (match fin with
    | .done => .ok []
    | .err => .error)
  | (k, v) :: xs =>
    match valNum v with
    | none => .error
    | some _ =>
      match topLoop pq n v ((k, v) :: xs) pq.empty with
      | none => .error
      | some q =>
        match fin with
        | .err => .error          -- `return r.Collection(), err`
        | .done => .ok (popAll pq (pq.size q) q [])

/-- the unrepaired `top`: `var h heap.Interface` stays nil on an empty collection and `h.Len()` panics -/
def topOld (pq : PQ) (items : List Item) (fin : End) (n : Int) : TopRes :=
  match items with
  | [] => .panic
  | _ => top pq items fin n

/-! ## CollectionFeature.FindValue / FindValues -/

/-- `sort.Search(n, f)`: `for i < j { h := int(uint(i+j) >> 1); if !f(h) { i = h + 1 } else { j = h } }` -/
def searchGo (f : Nat → Bool) : Nat → Nat → Nat → Nat
  | 0, i, _ => i
  | fuel + 1, i, j =>
    if i < j then
      let h := (i + j) / 2
      if !f h then searchGo f fuel (h + 1) j else searchGo f fuel i h
    else i

def sortSearch (n : Nat) (f : Nat → Bool) : Nat := searchGo f (n + 1) 0 n

/-- `greater, _ := b6.Less(c.Keys[i], key); return !greater` -/
def notLess (keys : Array Val) (key : Val) (i : Nat) : Bool :=
  match keys[i]? with
  | some k => !((goLess k key).getD false)
  | none => true

def eqAt (keys : Array Val) (key : Val) (i : Nat) : Bool :=
  match keys[i]? with
  | some k => (goEqual k key).getD false
  | none => false

def findValue (sorted : Bool) (keys vals : Array Val) (key : Val) : Option Val :=
  if sorted then
    let i := sortSearch keys.size (notLess keys key)
    if i < keys.size && eqAt keys key i then vals[i]? else none
  else
    match (List.range keys.size).find? (eqAt keys key) with
    | some i => vals[i]?
    | none => none

/-- the `for i < len(c.Keys)` loop of the sorted branch of FindValues -/
def collectRun (keys vals : Array Val) (key : Val) : Nat → Nat → List Val
  | 0, _ => []
  | fuel + 1, i =>
    if i < keys.size && eqAt keys key i then
      match vals[i]? with
      | some v => v :: collectRun keys vals key fuel (i + 1)
      | none => []
    else []

def findValues (sorted : Bool) (keys vals : Array Val) (key : Val) : List Val :=
  if sorted then
    collectRun keys vals key keys.size (sortSearch keys.size (notLess keys key))
  else
    ((List.range keys.size).filter (eqAt keys key)).filterMap (vals[·]?)

/-! ## a collection feature inside a mutable world -/

/-- `ingest.CollectionFeature`: keys, values and the `sorted` flag (set by `Sort()`, read by FindValue) -/
structure CF where
  keys : Array Val
  vals : Array Val
  sorted : Bool
  deriving DecidableEq, Repr

/-- `MergeFromCollectionFeature`: keys and values are copied from `other`, and so is `other.sorted` -/
def CF.mergeFrom (_c other : CF) : CF := { keys := other.keys, vals := other.vals, sorted := other.sorted }

/-- `Clone` -/
def CF.clone (c : CF) : CF := { keys := c.keys, vals := c.vals, sorted := c.sorted }

/-- `AddFeature` of a collection feature on BasicMutableWorld / MutableOverlayWorld (`ModifiedFeatures.Update`):
a feature already stored under the ID (in this world / this overlay) is merged into, otherwise a clone is stored.
A feature that only lives in an overlay's base is not touched: the overlay stores a clone that shadows it. -/
def worldAdd (stored : Option CF) (f : CF) : Option CF :=
  match stored with
  | some e => some (e.mergeFrom f)
  | none => some f.clone

def CF.findValue (c : CF) (key : Val) : Option Val := B6.Model.Collections.findValue c.sorted c.keys c.vals key
def CF.findValues (c : CF) (key : Val) : List Val := B6.Model.Collections.findValues c.sorted c.keys c.vals key

end B6.Model.Collections
