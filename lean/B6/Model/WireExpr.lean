import B6.Model.FeatureID
/-!
# Model of the expression ⇄ protobuf conversion (C19)

Mirrors, in /repo/src/diagonal.works/b6:
* `expression.go`  `Expression.ToProto`, `ExpressionFromProto`, `expressionFromProto`, every
                   `XExpression.ToProto` / `XExpressionFromProto`, `LiteralFromProto`, `FromLiteral`
                   (as far as `CollectionExpression.ToProto` uses it)
* `search.go`, `spatial.go`  every `Query.ToProto`, `NewQueryFromProto`
* `protos.go`      `NewProtoFromFeatureID/NewFeatureIDFromProto`, `NewProtoFromRoute/NewRouteFromProto`,
                   the point / polyline / multipolygon conversions at E7 resolution

Two families of inductives: what the server holds (`Any`/`Expr`/`Query`) and what travels
(`LitP`/`NodeP`/`QueryP` for `LiteralNodeProto`/`NodeProto`/`QueryProto`).  Strings (names, symbols,
keys, namespaces, blobs) are opaque: the conversion only copies them.  Floats are their IEEE bit
patterns (`Nat`).  Geometry is carried at the resolution of the wire format: points are E7 integer pairs,
polylines lists of them, multipolygons lists of polygons of loops of them — S2's floating point and
polygon normalisation are outside the model (the tie checks that the real code is the identity on them
for the generated shapes).  `PolylineProto.length_meters` is derived data and not modelled.

Go outcomes are explicit: `R.ok`, `R.err` (`err != nil`), `R.panic`.  In particular
`Expression.ToProto` does `p, err := e.AnyExpression.ToProto(); p.Name = …`, so an error of the inner
conversion (where `p` is nil) and a nil `AnyExpression` both end in a nil dereference: `panic`.
-/
namespace B6.Model.WireExpr
open B6.Model.FeatureID (FType ftypeFromProto)

inductive R (α : Type) where
  | ok (a : α)
  | err
  | panic
  deriving Repr

@[inline] def R.bind {α β : Type} : R α → (α → R β) → R β
  | .ok a, f => f a
  | .err, _ => .err
  | .panic, _ => .panic

@[simp] theorem R.ok_bind {α β : Type} (a : α) (f : α → R β) : (R.ok a).bind f = f a := rfl
@[simp] theorem R.err_bind {α β : Type} (f : α → R β) : (R.err : R α).bind f = .err := rfl
@[simp] theorem R.panic_bind {α β : Type} (f : α → R β) : (R.panic : R α).bind f = .panic := rfl

structure PointE7 where
  lat : Int
  lng : Int
  deriving DecidableEq, Repr

abbrev Loop := List PointE7
abbrev Polygon := List Loop
abbrev MultiPolygon := List Polygon

/-- a feature ID as the server holds it -/
structure WID where
  type : FType
  ns : String
  value : Nat
  deriving DecidableEq, Repr

/-- `FeatureIDProto` (enum number, namespace, value) -/
structure WIDP where
  enum : Nat
  ns : String
  value : Nat
  deriving DecidableEq, Repr

def WID.toProto (f : WID) : WIDP := ⟨f.type.toProto, f.ns, f.value⟩
/-- `NewFeatureIDFromProto`; an unknown enum number reads as the invalid type (fixes/C23-feature-type-from-proto.patch),
so this is never `none`; the `panic` branches below that depend on it are kept for the shape of the code only -/
def WIDP.fromProto (p : WIDP) : Option WID := (ftypeFromProto p.enum).map fun t => ⟨t, p.ns, p.value⟩

/-- the value of a `Tag` / `Tagged`: a string expression, or any other expression (only its
`String()` rendering matters to `ToProto`) -/
inductive TagVal where
  | str (s : String)
  | other (rendered : String)
  deriving DecidableEq, Repr

def TagVal.rendered : TagVal → String
  | .str s => s
  | .other r => r

structure Step where
  destination : WID
  via : WID
  cost : Nat
  deriving DecidableEq, Repr
structure Route where
  origin : WID
  steps : List Step
  deriving DecidableEq, Repr
structure StepP where
  destination : WIDP
  via : WIDP
  cost : Nat
  deriving DecidableEq, Repr
structure RouteP where
  origin : WIDP
  steps : List StepP
  deriving DecidableEq, Repr

def Route.toProto (r : Route) : RouteP :=
  ⟨r.origin.toProto, r.steps.map fun s => ⟨s.destination.toProto, s.via.toProto, s.cost⟩⟩

def stepsFromProto : List StepP → Option (List Step)
  | [] => some []
  | s :: rest =>
    match s.destination.fromProto, s.via.fromProto, stepsFromProto rest with
    | some d, some v, some r => some (⟨d, v, s.cost⟩ :: r)
    | _, _, _ => none

/-- `NewRouteFromProto`; `none` = panic (unknown enum number in one of the IDs) -/
def RouteP.fromProto (p : RouteP) : Option Route :=
  match p.origin.fromProto, stepsFromProto p.steps with
  | some o, some s => some ⟨o, s⟩
  | _, _ => none

/-! ## queries -/

mutual
inductive Query where
  | all | empty | isValid
  | keyed (k : String)
  | tagged (k : String) (v : TagVal)
  | typed (t : FType) (q : Query)
  | inter (qs : QueryList)
  | union (qs : QueryList)
  | cap (center : PointE7) (radius : Nat)
  | feature (id : WID)
  | point (p : PointE7)
  | polyline (ps : List PointE7)
  | multipolygon (m : MultiPolygon)
  | cells (ids : List Nat)
  | might (ids : List Nat)
inductive QueryList where
  | nil
  | cons (q : Query) (qs : QueryList)
end

mutual
inductive QueryP where
  | unset
  | all | empty | isValid
  | keyed (k : String)
  | tagged (k : String) (v : String)
  | typed (enum : Nat) (q : QueryP)
  | typedNoQuery (enum : Nat)
  | inter (qs : QueryPList)
  | union (qs : QueryPList)
  | cap (center : PointE7) (radius : Nat)
  | feature (id : WIDP)
  | point (p : PointE7)
  | polyline (ps : List PointE7)
  | multipolygon (m : MultiPolygon)
  | cells (ids : List Nat)
  | might (ids : List Nat)
inductive QueryPList where
  | nil
  | cons (q : QueryP) (qs : QueryPList)
end

mutual
/-- every `Query.ToProto` (none of them can fail) -/
def Query.toProto : Query → QueryP
  | .all => .all
  | .empty => .empty
  | .isValid => .isValid
  | .keyed k => .keyed k
  | .tagged k v => .tagged k v.rendered
  | .typed t q => .typed t.toProto q.toProto
  | .inter qs => .inter qs.toProto
  | .union qs => .union qs.toProto
  | .cap c r => .cap c r
  | .feature id => .feature id.toProto
  | .point p => .point p
  | .polyline ps => .polyline ps
  | .multipolygon m => .multipolygon m
  | .cells ids => .cells ids
  | .might ids => .might ids
def QueryList.toProto : QueryList → QueryPList
  | .nil => .nil
  | .cons q qs => .cons q.toProto qs.toProto
end

/-! `cv` stands for the one floating-point computation that the wire round trip of a query depends on:
`NewQueryFromProto` turns `CapProto.radius_meters` into an `s1.Angle`, `s2.CapFromCenterAngle` into a chord
angle, and `IntersectsCap.ToProto` reports `AngleToMeters(cap.Radius())`.  `cv r` is the bit pattern reported
for a request that carried `r`.  It is a parameter of the model (all floating point is outside it); the
theorems say what they need of it. -/

mutual
/-- `NewQueryFromProto`: no case for `empty`, `isValid`, `intersectsCells`, `mightIntersect`, an unset
oneof, or a `typed` without its query — all of them `Can't handle query`. -/
def QueryP.fromProto (cv : Nat → Nat) : QueryP → R Query
  | .all => .ok .all
  | .keyed k => .ok (.keyed k)
  | .tagged k v => .ok (.tagged k (.str v))
  | .cap c r => .ok (.cap c (cv r))
  | .feature id =>
    match id.fromProto with
    | some f => .ok (.feature f)
    | none => .panic
  | .point p => .ok (.point p)
  | .polyline ps => .ok (.polyline ps)
  | .multipolygon m => .ok (.multipolygon m)
  | .typed e q =>
    -- the child is converted first; `NewFeatureTypeFromProto` (panic on an unknown number) after it
    match q.fromProto cv with
    | .ok child =>
      match ftypeFromProto e with
      | some t => .ok (.typed t child)
      | none => .panic
    | .err => .err
    | .panic => .panic
  | .inter qs => (qs.fromProto cv).bind fun l => .ok (.inter l)
  | .union qs => (qs.fromProto cv).bind fun l => .ok (.union l)
  | .typedNoQuery _ => .err
  | .empty => .err
  | .isValid => .err
  | .cells _ => .err
  | .might _ => .err
  | .unset => .err
def QueryPList.fromProto (cv : Nat → Nat) : QueryPList → R QueryList
  | .nil => .ok .nil
  | .cons q qs => (q.fromProto cv).bind fun q' => (qs.fromProto cv).bind fun qs' => .ok (.cons q' qs')
end

/-! ## expressions -/

mutual
/-- `AnyExpression` (`absent` = the nil interface value inside an `Expression`) -/
inductive Any where
  | absent
  | symbol (s : String)
  | int (i : Int)
  | float (bits : Nat)
  | bool (b : Bool)
  | str (s : String)
  | id (f : WID)
  | tag (k : String) (v : TagVal)
  | point (p : PointE7)
  | path (ps : List PointE7)
  | area (m : MultiPolygon)
  | query (q : Query)
  | nilLit
  | geojson (blob : String)
  | feature
  | route (r : Route)
  | coll (items : PairList)
  | call (f : Expr) (args : ExprList) (pipelined : Bool)
  | lambda (params : List String) (body : Expr)
/-- `Expression{AnyExpression, Name, Begin, End}` -/
inductive Expr where
  | mk (a : Any) (name : String) (b e : Int)
inductive ExprList where
  | nil
  | cons (e : Expr) (es : ExprList)
/-- the (key, value) pairs of an `ArrayCollection[any, any]`; a native value is identified with the
literal that `FromLiteral` makes of it -/
inductive PairList where
  | nil
  | cons (k v : Any) (rest : PairList)
end

mutual
/-- `LiteralNodeProto` -/
inductive LitP where
  | unset
  | nilV
  | boolV (b : Bool)
  | strV (s : String)
  | intV (i : Int)
  | floatV (bits : Nat)
  | collV (pairs : LitPairList) (surplusKeys surplusValues : Nat)
  | pairV
  | featureV
  | queryV (q : QueryP)
  | idV (id : WIDP)
  | pointV (p : PointE7)
  | pathV (ps : List PointE7)
  | areaV (m : MultiPolygon)
  | appliedChangeV
  | geojsonV (blob : String)
  | tagV (k : String) (v : String)
  | routeV (r : RouteP)
/-- `CollectionProto`'s parallel `keys` / `values` lists, zipped; the `surplus…` counts of `collV` say how
many further keys / values one list has beyond the other (at most one of them is non-zero) -/
inductive LitPairList where
  | nil
  | cons (k v : LitP) (rest : LitPairList)
end

mutual
/-- the `node` oneof of `NodeProto` -/
inductive KindP where
  | unset
  | symbol (s : String)
  | literal (l : LitP)
  | call (f : NodeP) (args : NodePList) (pipelined : Bool)
  | lambda (params : List String) (body : NodeP)
/-- `NodeProto` (`begin`/`end` are `int32`) -/
inductive NodeP where
  | mk (k : KindP) (name : String) (b e : Int)
inductive NodePList where
  | nil
  | cons (n : NodeP) (ns : NodePList)
end

/-- Go `int32(x)` for an `int` -/
def toInt32 (x : Int) : Int := (x + 2147483648) % 4294967296 - 2147483648

/-- the inner literal of a literal node (`p.GetLiteral()`), used by `CollectionExpression.ToProto` -/
def KindP.getLiteral : KindP → LitP
  | .literal l => l
  | _ => .unset

/-- one collection element: `FromLiteral(value)` then `ToProto().GetLiteral()`, given `r` = the result
of the element's own `ToProto`.  `FromLiteral` has no case for a `Query`, which is what
`QueryExpression.Literal()` put into the collection; a nil value becomes the nil literal. -/
def Any.elemToProto (a : Any) (r : R KindP) : R LitP :=
  match a with
  | .query _ => .err
  | .absent => .ok .nilV
  | _ => r.bind fun k => .ok k.getLiteral

mutual
/-- `AnyExpression.ToProto` (the node without name / begin / end) -/
def Any.toProto : Any → R KindP
  | .absent => .panic          -- method call on a nil interface
  | .symbol s => .ok (.symbol s)
  | .int i => .ok (.literal (.intV i))
  | .float b => .ok (.literal (.floatV b))
  | .bool b => .ok (.literal (.boolV b))
  | .str s => .ok (.literal (.strV s))
  | .id f => .ok (.literal (.idV f.toProto))
  | .tag k v => .ok (.literal (.tagV k v.rendered))
  | .point p => .ok (.literal (.pointV p))
  | .path ps => .ok (.literal (.pathV ps))
  | .area m => .ok (.literal (.areaV m))
  | .query q => .ok (.literal (.queryV q.toProto))
  | .nilLit => .ok (.literal .nilV)
  | .geojson blob => .ok (.literal (.geojsonV blob))
  | .feature => .ok (.literal .featureV)
  | .route r => .ok (.literal (.routeV r.toProto))
  | .coll items => (items.toProto).bind fun ps => .ok (.literal (.collV ps 0 0))
  | .call f args p =>
    -- arguments first, then the function
    (args.toProto).bind fun as => (f.toProto).bind fun fp => .ok (.call fp as p)
  | .lambda params body => (body.toProto).bind fun bp => .ok (.lambda params bp)
/-- `Expression.ToProto`: an inner error leaves `p == nil`, and `p.Name = …` panics -/
def Expr.toProto : Expr → R NodeP
  | .mk a name b e =>
    match a.toProto with
    | .ok k => .ok (.mk k name (toInt32 b) (toInt32 e))
    | .err => .panic
    | .panic => .panic
def ExprList.toProto : ExprList → R NodePList
  | .nil => .ok .nil
  | .cons e es => (e.toProto).bind fun p => (es.toProto).bind fun ps => .ok (.cons p ps)
/-- the loop of `CollectionExpression.ToProto` over the (key, value) pairs of the iterator -/
def PairList.toProto : PairList → R LitPairList
  | .nil => .ok .nil
  | .cons k v rest =>
    (k.elemToProto k.toProto).bind fun kp => (v.elemToProto v.toProto).bind fun vp =>
      (rest.toProto).bind fun ps => .ok (.cons kp vp ps)
end

/-- `LiteralFromProto` of a wrapped literal followed by `.Literal()`, given `r` = the result of
`ExpressionFromProto`: a nil literal is not an `AnyLiteral` (error) -/
def LitP.elemFromProto (l : LitP) (r : R Any) : R Any :=
  match l with
  | .nilV => .err
  | _ => r

mutual
/-- the literal switch of `expressionFromProto` -/
def LitP.fromProto (cv : Nat → Nat) : LitP → R Any
  | .intV i => .ok (.int i)
  | .floatV b => .ok (.float b)
  | .boolV b => .ok (.bool b)
  | .strV s => .ok (.str s)
  | .idV id =>
    match id.fromProto with
    | some f => .ok (.id f)
    | none => .panic
  | .tagV k v => .ok (.tag k (.str v))
  | .pointV p => .ok (.point p)
  | .pathV ps => .ok (.path ps)
  | .areaV m => .ok (.area m)
  | .queryV q => (q.fromProto cv).bind fun q' => .ok (.query q')
  | .nilV => .ok .absent            -- `NilExpressionFromProto` returns `Expression{}`
  | .geojsonV _ => .err             -- `Can't import GeoJSON from protos` (fixes/C23-geojson-literal-from-proto.patch; was `panic("Unimplemented")`)
  | .routeV r =>
    match r.fromProto with
    | some r' => .ok (.route r')
    | none => .panic
  | .collV pairs sk sv =>
    if sk ≠ 0 ∨ sv ≠ 0 then .err      -- `len(keys) != len(values)`
    else (pairs.fromProto cv).bind fun items => .ok (.coll items)
  | .pairV => .err
  | .featureV => .err
  | .appliedChangeV => .err
  | .unset => .err
/-- the loop of `CollectionExpressionFromProto`: key i, then value i -/
def LitPairList.fromProto (cv : Nat → Nat) : LitPairList → R PairList
  | .nil => .ok .nil
  | .cons k v rest =>
    (k.elemFromProto (k.fromProto cv)).bind fun k' => (v.elemFromProto (v.fromProto cv)).bind fun v' =>
      (rest.fromProto cv).bind fun items => .ok (.cons k' v' items)
end

mutual
/-- `expressionFromProto` -/
def KindP.fromProto (cv : Nat → Nat) : KindP → R Any
  | .symbol s => .ok (.symbol s)
  | .literal l => l.fromProto cv
  | .call f args p =>
    (f.fromProto cv).bind fun f' => (args.fromProto cv).bind fun as => .ok (.call f' as p)
  | .lambda params body => (body.fromProto cv).bind fun b => .ok (.lambda params b)
  | .unset => .err
/-- `ExpressionFromProto` -/
def NodeP.fromProto (cv : Nat → Nat) : NodeP → R Expr
  | .mk k name b e => (k.fromProto cv).bind fun a => .ok (.mk a name b e)
def NodePList.fromProto (cv : Nat → Nat) : NodePList → R ExprList
  | .nil => .ok .nil
  | .cons n ns => (n.fromProto cv).bind fun e => (ns.fromProto cv).bind fun es => .ok (.cons e es)
end

/-! ## the round-trip domain (executable; used literally by the theorems and by the driver) -/

def inInt32 (x : Int) : Bool := decide (-2147483648 ≤ x) && decide (x < 2147483648)

def TagVal.isStr : TagVal → Bool
  | .str _ => true
  | .other _ => false

mutual
def Query.supported : Query → Bool
  | .all => true
  | .keyed _ => true
  | .tagged _ v => TagVal.isStr v
  | .typed _ q => q.supported
  | .inter qs => qs.supported
  | .union qs => qs.supported
  | .cap _ _ => true
  | .feature _ => true
  | .point _ => true
  | .polyline _ => true
  | .multipolygon _ => true
  | .empty => false
  | .isValid => false
  | .cells _ => false
  | .might _ => false
def QueryList.supported : QueryList → Bool
  | .nil => true
  | .cons q qs => q.supported && qs.supported
end

/-- literal kinds a collection can hold and give back (`FromLiteral ∘ Literal()` is the identity) -/
def Any.isElem : Any → Bool
  | .int _ | .float _ | .bool _ | .str _ | .id _ | .tag _ _ | .point _ | .path _ | .area _
  | .route _ | .coll _ => true
  | _ => false

mutual
def Any.supported : Any → Bool
  | .symbol _ => true
  | .int _ => true
  | .float _ => true
  | .bool _ => true
  | .str _ => true
  | .id _ => true
  | .tag _ v => TagVal.isStr v
  | .point _ => true
  | .path _ => true
  | .area _ => true
  | .query q => Query.supported q
  | .route _ => true
  | .coll items => items.supported
  | .call f args _ => f.supported && args.supported
  | .lambda _ body => body.supported
  | .absent => false
  | .nilLit => false
  | .geojson _ => false
  | .feature => false
def Expr.supported : Expr → Bool
  | .mk a _ b e => a.supported && inInt32 b && inInt32 e
def ExprList.supported : ExprList → Bool
  | .nil => true
  | .cons e es => e.supported && es.supported
def PairList.supported : PairList → Bool
  | .nil => true
  | .cons k v rest => Any.isElem k && k.supported && Any.isElem v && v.supported && rest.supported
end

/-! ## cap radii that the float conversion `cv` reproduces -/

mutual
def Query.capStable (cv : Nat → Nat) : Query → Bool
  | .cap _ r => cv r == r
  | .typed _ q => q.capStable cv
  | .inter qs => qs.capStable cv
  | .union qs => qs.capStable cv
  | _ => true
def QueryList.capStable (cv : Nat → Nat) : QueryList → Bool
  | .nil => true
  | .cons q qs => q.capStable cv && qs.capStable cv
end

mutual
def Any.capStable (cv : Nat → Nat) : Any → Bool
  | .query q => q.capStable cv
  | .coll items => items.capStable cv
  | .call f args _ => f.capStable cv && args.capStable cv
  | .lambda _ body => body.capStable cv
  | _ => true
def Expr.capStable (cv : Nat → Nat) : Expr → Bool
  | .mk a _ _ _ => a.capStable cv
def ExprList.capStable (cv : Nat → Nat) : ExprList → Bool
  | .nil => true
  | .cons e es => e.capStable cv && es.capStable cv
def PairList.capStable (cv : Nat → Nat) : PairList → Bool
  | .nil => true
  | .cons k v rest => k.capStable cv && v.capStable cv && rest.capStable cv
end

/-! ## what a client can put on the wire so that the reply is stable (executable) -/

def LitP.notQuery : LitP → Bool
  | .queryV _ => false
  | _ => true

mutual
/-- no nil literal, and no query inside a collection literal -/
def LitP.wire : LitP → Bool
  | .nilV => false
  | .collV pairs _ _ => pairs.wire
  | _ => true
def LitPairList.wire : LitPairList → Bool
  | .nil => true
  | .cons k v rest => LitP.notQuery k && k.wire && LitP.notQuery v && v.wire && rest.wire
end

mutual
def KindP.wire : KindP → Bool
  | .literal l => l.wire
  | .call f args _ => f.wire && args.wire
  | .lambda _ body => body.wire
  | .symbol _ => true
  | .unset => true
/-- `begin` / `end` are `int32` fields -/
def NodeP.wire : NodeP → Bool
  | .mk k _ b e => k.wire && inInt32 b && inInt32 e
def NodePList.wire : NodePList → Bool
  | .nil => true
  | .cons n ns => n.wire && ns.wire
end

end B6.Model.WireExpr
