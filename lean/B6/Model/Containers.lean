import B6.Model.Varint
import B6.Model.Bits
/-!
# L1 containers — executable models of encoding/{ints,arrays,strings,uint64map}.go (core Lean only)

* delta-coded sequences: `marshalDelta` / `unmarshalDelta` (`MarshalDeltaCodedUint64s`, `…Ints`; the `int`
  variants are bit-for-bit the same functions on two's-complement words).
* `ByteArrays`: `baHeader` (layout + pointer table written by `WriteHeader`), the writer protocol
  (`baStart`, `baWriteItem`) over a growing zero-filled buffer (`writeAt` = `encoding.Buffer.WriteAt`),
  and the reader `baItem` on raw bytes.
* `StringTable` = a `ByteArrays` whose items are the strings in the order the builder chose
  (`stEncode`); the order itself (unstable sort of a Go map by count) is not modelled, only constrained.
* `Uint64Map`: entries `(id, tag, data)`, `entryBytes` (bucket header + payload), `mapBuild`,
  `scanBucket` (the loop shared by `FillTagged/FindFirst/FindFirstWithTag/fillIDsAndTagged`),
  `mapFillTagged`, `mapFindFirst`, `mapFindFirstWithTag`, `mapIterate` (`Begin/Next` and `EachItem`:
  buckets in order, a bucket's entries sorted by id, equal ids grouped).

`none` always means "the Go code panics here" (index out of range, explicit panic).  Malformed varints
inside a bucket are also mapped to `none` (the Go code ignores the error and goes on with garbage; the
builders never produce such buckets, so this is outside the modelled domain).
-/
namespace B6.Model.Containers
open B6.Model.Varint B6.Model.Bits

/-! ## delta + zigzag coded sequences (ints.go) -/

/-- `MarshalDeltaCodedUint64s`: `PutUvarint(ZigzagEncode(int64(v) - last)); last = int64(v)` -/
def marshalDeltaAux (last : BitVec 64) : List (BitVec 64) → Bytes
  | [] => []
  | v :: vs => putUvarint (zigzagEncode (v - last)).toNat ++ marshalDeltaAux v vs

def marshalDelta (vs : List (BitVec 64)) : Bytes := marshalDeltaAux 0#64 vs

/-- `UnmarshalDeltaCodedUint64(vs, n, buffer)`: `n` times `v, k := Uvarint(buffer[i:]); i += k;
last += ZigzagDecode(v)`.  The Go code ignores `Uvarint` errors (`k ≤ 0`, `v = 0`); `buffer[i:]` panics
when `i` leaves `0..len`. Result: the values and the final `i`. -/
def unmarshalDeltaAux : (n : Nat) → (buf : Bytes) → (i : Int) → (last : BitVec 64) → (acc : List (BitVec 64)) →
    Option (List (BitVec 64) × Int)
  | 0, _, i, _, acc => some (acc.reverse, i)
  | n + 1, buf, i, last, acc =>
    if i < 0 ∨ i > buf.length then none
    else
      let r := uvarintRaw (buf.drop i.toNat)
      let last' := last + zigzagDecode (BitVec.ofNat 64 r.1)
      unmarshalDeltaAux n buf (i + r.2) last' (last' :: acc)

def unmarshalDelta (n : Nat) (buf : Bytes) : Option (List (BitVec 64) × Int) :=
  unmarshalDeltaAux n buf 0 0#64 []

/-! ## a growing, zero-filled output buffer (`encoding.Buffer.WriteAt`) -/

/-- `Buffer.WriteAt(data, off)`: grow with zeros up to `off + len(data)` if shorter, then copy. -/
def writeAt (buf : Bytes) (off : Nat) (data : Bytes) : Bytes :=
  let buf' := buf ++ List.replicate (off + data.length - buf.length) (0 : UInt8)
  buf'.take off ++ data ++ buf'.drop (off + data.length)

/-! ## ByteArrays (arrays.go) -/

/-- `binary.LittleEndian.PutUint32(buf, uint32(n))` -/
def le32 (n : Nat) : Bytes := marshalUint64 (n % 2 ^ 32) 4

/-- `binary.LittleEndian.Uint32` of the first four bytes; `none` = index out of range. -/
def readLe32 (buf : Bytes) : Option Nat :=
  if buf.length < 4 then none else some (leValue (buf.take 4))

/-- running sums: `[0, r0, r0+r1, …, total]` (the `pointers` array after `FinishReservation`). -/
def starts : List Nat → Nat → List Nat
  | [], acc => [acc]
  | r :: rs, acc => acc :: starts rs (acc + r)

def total (res : List Nat) : Nat := res.sum

def maxItem (res : List Nat) : Nat := res.foldl max 0

/-- `ByteArraysLayoutLength` -/
def baLayoutLength : Nat := 12

/-- bytes written by `WriteHeader`: layout (Items, OffsetBytes, MaxItemLength as uint32 LE) and the
`Items+1` pointers, `OffsetBytes = Uint64Length(total)` bytes each. `res` = reserved bytes per item. -/
def baHeader (res : List Nat) : Bytes :=
  let ob := uint64Length (total res)
  le32 res.length ++ le32 ob ++ le32 (maxItem res) ++ (starts res 0).flatMap fun p => marshalUint64 p ob

/-- offset of the data region: `ByteArraysLayoutLength + OffsetBytes * (Items + 1)` -/
def baDataOffset (res : List Nat) : Nat := baLayoutLength + uint64Length (total res) * (res.length + 1)

/-- writer state after `WriteHeader`: output so far and the moving write pointers (`b.pointers`). -/
structure BAWriter where
  items : Nat
  dataOff : Nat
  cursor : List Nat      -- items + 1 entries
  out : Bytes

def baStart (res : List Nat) : BAWriter :=
  { items := res.length, dataOff := baDataOffset res, cursor := starts res 0, out := baHeader res }

/-- `WriteItem(w, i, buffers...)`; `none` = panic (item out of range / write beyond reserved space). -/
def baWriteItem (w : BAWriter) (i : Nat) (buffers : List Bytes) : Option BAWriter :=
  if i ≥ w.items then none
  else
    match w.cursor[i]?, w.cursor[i + 1]? with
    | some p, some q =>
      let len := (buffers.map List.length).sum
      if p + len > q then none
      else
        let (out, _) := buffers.foldl (fun (acc : Bytes × Nat) b => (writeAt acc.1 acc.2 b, acc.2 + b.length))
          (w.out, w.dataOff + p)
        some { w with cursor := w.cursor.set i (p + len), out := out }
    | _, _ => none

/-- Go slice expression `data[lo:hi]` on a slice whose capacity equals its length. -/
def goSlice (data : Bytes) (lo hi : Nat) : Option Bytes :=
  if lo ≤ hi ∧ hi ≤ data.length then some ((data.drop lo).take (hi - lo)) else none

/-- `data[off:]` -/
def goFrom (data : Bytes) (off : Nat) : Option Bytes :=
  if off ≤ data.length then some (data.drop off) else none

structure BALayout where
  items : Nat
  offsetBytes : Nat
  maxItemLength : Nat

/-- `ByteArraysLayout.Unmarshal` -/
def baReadLayout (data : Bytes) : Option BALayout := do
  let a ← readLe32 data
  let b ← (goFrom data 4).bind readLe32
  let c ← (goFrom data 8).bind readLe32
  pure { items := a, offsetBytes := b, maxItemLength := c }

/-- `ByteArrays.Item(i)` on the raw bytes. -/
def baItem (data : Bytes) (i : Nat) : Option Bytes := do
  let l ← baReadLayout data
  if i ≥ l.items then none
  else
    let p ← (goFrom data (baLayoutLength + l.offsetBytes * i)).bind (unmarshalUint64 l.offsetBytes)
    let q ← (goFrom data (baLayoutLength + l.offsetBytes * (i + 1))).bind (unmarshalUint64 l.offsetBytes)
    let off := baLayoutLength + l.offsetBytes * (l.items + 1)
    goSlice data (off + p) (off + q)

/-- `ByteArrays.Length()` -/
def baLength (data : Bytes) : Option Nat := do
  let l ← baReadLayout data
  let p ← (goFrom data (baLayoutLength + l.offsetBytes * l.items)).bind (unmarshalUint64 l.offsetBytes)
  pure (baLayoutLength + l.offsetBytes * (l.items + 1) + p)

/-- one-shot encoder used by the string table and the map: item `i` gets exactly `items[i]`
(reserve `len(items[i])`, then one `WriteItem` per item in index order). -/
def baEncode (items : List Bytes) : Bytes :=
  baHeader (items.map List.length) ++ items.flatten

/-! ## StringTable (strings.go) -/

/-- the bytes `StringTableBuilder.Write` produces once it has put the strings in the order `table`. -/
def stEncode (table : List Bytes) : Bytes := baEncode table

/-- `StringTable.Lookup(i)` -/
def stLookup (data : Bytes) (i : Nat) : Option Bytes := baItem data i

/-! ## Uint64Map (uint64map.go) -/

structure Entry where
  id : BitVec 64
  tag : BitVec 64
  data : Bytes
deriving DecidableEq, Repr

/-- header (`idAndTag`, length) + payload, as `WriteItem` lays an entry down in its bucket. -/
def entryBytes (b t : BitVec 64) (e : Entry) : Bytes :=
  putUvarint (headerPack e.id e.tag b t).toNat ++ putUvarint e.data.length ++ e.data

/-- entries of one bucket, in write order. -/
def bucketEntries (b : BitVec 64) (es : List Entry) (bucket : Nat) : List Entry :=
  es.filter fun e => (bucketForID e.id b).toNat == bucket

/-- the whole map as `Uint64MapBuilder` writes it for layout `(b, t)` (already normalised by
`builderLayout`): two layout bytes, then a `ByteArrays` with `2^b` buckets. -/
def mapEncode (b t : BitVec 64) (es : List Entry) : Bytes :=
  [UInt8.ofNat b.toNat, UInt8.ofNat t.toNat] ++
    baEncode ((List.range (2 ^ b.toNat)).map fun k => (bucketEntries b es k).flatMap (entryBytes b t))

/-- the scanning loop shared by the readers: parse headers and payloads until the bucket is used up. -/
def scanBucket : (fuel : Nat) → (items : Bytes) → (bucket b t : BitVec 64) → Option (List Entry)
  | 0, items, _, _, _ => if items.isEmpty then some [] else none
  | fuel + 1, items, bucket, b, t =>
    if items.isEmpty then some []
    else
      match uvarint items with
      | none => none
      | some (w, n1) =>
        match uvarint (items.drop n1) with
        | none => none
        | some (len, n2) =>
          if len ≥ 2 ^ 63 then none
          else if n1 + n2 + len > items.length then none   -- "corrupt map" panic
          else
            let word := BitVec.ofNat 64 w
            let e : Entry := { id := headerUnpackID bucket word b t, tag := headerUnpackTag word t,
                               data := (items.drop (n1 + n2)).take len }
            match scanBucket fuel (items.drop (n1 + n2 + len)) bucket b t with
            | some rest => some (e :: rest)
            | none => none

structure MapView where
  b : BitVec 64
  t : BitVec 64
  buckets : Bytes

/-- `NewUint64Map(data)` -/
def mapOpen (data : Bytes) : Option MapView :=
  match data with
  | x :: y :: rest => some { b := BitVec.ofNat 64 x.toNat, t := BitVec.ofNat 64 y.toNat, buckets := rest }
  | _ => none

def mapBucket (m : MapView) (bucket : Nat) : Option (List Entry) := do
  let items ← baItem m.buckets bucket
  scanBucket (items.length + 1) items (BitVec.ofNat 64 bucket) m.b m.t

/-- `FillTagged(id, nil)` -/
def mapFillTagged (m : MapView) (id : BitVec 64) : Option (List Entry) := do
  let es ← mapBucket m (bucketForID id m.b).toNat
  pure (es.filter fun e => e.id == id)

/-- `FindFirst(id)`: `some none` = not found. (The Go loop returns at the first hit, so a corrupt tail of
the bucket is not noticed; the model scans the whole bucket — identical on well-formed maps.) -/
def mapFindFirst (m : MapView) (id : BitVec 64) : Option (Option Entry) := do
  let es ← mapFillTagged m id
  pure es.head?

/-- `FindFirstWithTag(id, tag)` -/
def mapFindFirstWithTag (m : MapView) (id tag : BitVec 64) : Option (Option Entry) := do
  let es ← mapFillTagged m id
  pure (es.find? fun e => e.tag == tag)

/-- insertion of an entry into a list sorted by id (stable). -/
def insertById (e : Entry) : List Entry → List Entry
  | [] => [e]
  | x :: xs => if e.id ≤ x.id then e :: x :: xs else x :: insertById e xs

def sortById (es : List Entry) : List Entry := es.foldr insertById []

/-- group adjacent entries with equal ids. -/
def groupById : List Entry → List (BitVec 64 × List Entry)
  | [] => []
  | e :: es =>
    match groupById es with
    | (id, g) :: rest => if id == e.id then (id, e :: g) :: rest else (e.id, [e]) :: (id, g) :: rest
    | [] => [(e.id, [e])]

/-- `Begin()/Next()` over the whole map: buckets in order, each sorted by id, equal ids grouped.
(The Go sort is unstable: the order inside a group is not determined by the code.) -/
def mapIterate (m : MapView) : Option (List (BitVec 64 × List Entry)) :=
  (List.range (2 ^ m.b.toNat)).foldr (fun k acc => do
    let es ← mapBucket m k
    let rest ← acc
    pure (groupById (sortById es) ++ rest)) (some [])

end B6.Model.Containers
